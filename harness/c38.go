package main

// C38: the classic interpreter matches Go on its documented subset.
//
// Op kinds (the second field <cfg> is NOT input: Prepare probes the code under test and rewrites it,
// so that the Lean model runs the transcription of the code that exists, see c38probe):
//
//	bin <cfg> <OP> <kind> <x>,<y> ...          var a, b <kind>;  a OP b         (same-kind operands)
//	asg <cfg> <OP> <kind> <x>,<y> ...          a OP= b; a
//	sh  <cfg> <OP> <kind> <ckind> <x>,<c> ...  a OP c   (shift, count of any integer kind)
//	sha <cfg> <OP> <kind> <ckind> <x>,<c> ...  a OP= c; a
//	un  <cfg> <OP> <kind> <x> ...              OP a
//	prog <cfg> <fuel> <S-expr>...              C05's structured programs (no goto), run by the classic interpreter
//	T <cfg> <hint> <tok>...                    C07's defer/panic/recover call trees restricted to unnamed results
//	G <name>                                   hand-written programs (closures, slices, maps, structs): oracle only
//
// Oracles: native Go operators instantiated per kind (c01_kinds.go) for the operator ops, the same
// source compiled by the Go toolchain (runGoBatch, go 1.21 semantics) for prog / T / G.
// The Lean driver (lean/Drv/C38.lean) evaluates the operator ops through the regenerated arm table
// (lean/Gen/ClassicBinary.lean), prog ops through Classic.exec (must equal Flow.Ref.run), T ops
// through the specification Defer.Host.

import (
	"fmt"
	"io"
	"math/rand"
	"reflect"
	"sort"
	"strconv"
	"strings"
	"time"

	"github.com/cosmos72/gomacro/classic"
)

// ---------------------------------------------------------------- interpreter

var c38ir *classic.Interp
var c38uses int
var c38trace []string
var c38log []string

const c38budget = 4000

func c38show(e interface{}) string {
	switch x := e.(type) {
	case nil:
		return "-"
	case int:
		return strconv.Itoa(x)
	case string:
		return "S:" + x
	case error:
		return "E:" + x.Error()
	}
	return "?" + fmt.Sprint(e)
}

func c38new() *classic.Interp {
	ir := classic.New()
	ir.Stdout = io.Discard
	ir.Stderr = io.Discard
	def := func(name string, f interface{}) {
		ir.DefineFunc(name, reflect.TypeOf(f), reflect.ValueOf(f))
	}
	def("emit", func(tag, v int) {
		if len(c38trace) >= c38budget {
			panic("emit budget exceeded")
		}
		c38trace = append(c38trace, fmt.Sprintf("%d:%d", tag, v))
	})
	// g(tag, v): a case expression with an observable side effect (C05's `Guard.eff`)
	def("g", func(tag, v int) int {
		if len(c38trace) >= c38budget {
			panic("emit budget exceeded")
		}
		c38trace = append(c38trace, fmt.Sprintf("%d:%d", tag, v))
		return v
	})
	def("lg", func(s string) {
		if len(c38log) >= c38budget {
			panic("log budget exceeded")
		}
		c38log = append(c38log, s)
	})
	def("show", c38show)
	def("itoa", strconv.Itoa)
	return ir
}

func c38interp() *classic.Interp {
	if c38ir == nil || c38uses > 400 {
		c38ir = c38new()
		c38uses = 0
	}
	c38uses++
	return c38ir
}

type c38res struct {
	vals  []reflect.Value
	pan   interface{}
	paned bool
	hung  bool
}

// c38eval evaluates src; the panic Interp.Eval raises on errors / escaping panics is recovered.
// The classic interpreter cannot be interrupted: a run that does not end within the timeout is
// abandoned (its goroutine leaks) and the interpreter is dropped.
func c38eval(ir *classic.Interp, src string, timeout time.Duration) c38res {
	ch := make(chan c38res, 1)
	go func() {
		var res c38res
		defer func() {
			if e := recover(); e != nil || res.paned {
				res.pan, res.paned = e, true
				res.vals = nil
			}
			ch <- res
		}()
		res.paned = true
		v, vs := ir.Eval(src)
		res.paned = false
		if len(vs) > 1 {
			res.vals = vs
		} else {
			res.vals = []reflect.Value{v}
		}
	}()
	select {
	case r := <-ch:
		return r
	case <-time.After(timeout):
		c38ir = nil
		return c38res{hung: true}
	}
}

// ---------------------------------------------------------------- probe of the code under test

var c38cfg = ""

// cfg = l<0|1> labelled statements work        (fixes/C38-labeled-statements.diff)
//       s<0|1> shift counts: negative count panics, count keeps its own type (fixes/C38-shift-count.diff)
//       q<0|1> x == nil / x != nil accept a concrete x (fixes/C38-compare-with-nil.diff)
//       k<0|1> recover() clears the panic of the frame also after the call stack was reallocated
//              (fixes/C38-recover-stale-frame.diff)
//       z<0|1> a function whose panic was recovered returns zero values (fixes/C38-6-recovered-results.diff)
//       r<0|1> `for range x { }` without iteration variables runs its body (fixes/C38-2-range-without-variables.diff)
func c38probe() string {
	bit := func(b bool) string {
		if b {
			return "1"
		}
		return "0"
	}
	// l: a labelled statement makes the unrepaired evalStatement spin forever
	r := c38eval(c38new(), "func p() int { x := 0; L: for { x++; break L }; return x }; p()", 4*time.Second)
	l := !r.hung && !r.paned && len(r.vals) == 1 && r.vals[0].IsValid() && r.vals[0].Kind() == reflect.Int && r.vals[0].Int() == 1
	r = c38eval(c38new(), "var pa int = 1; var pn int = -1; pa << pn", 10*time.Second)
	s := r.paned && strings.Contains(fmt.Sprint(r.pan), "negative shift amount")
	r = c38eval(c38new(), "var pq int = 5; var pi interface{} = 7; (pq != nil) && (pi != nil)", 10*time.Second)
	q := !r.paned && len(r.vals) == 1 && r.vals[0].IsValid() && r.vals[0].Kind() == reflect.Bool && r.vals[0].Bool()
	// k: fresh interpreter: the call stack has capacity 2 when f runs its deferred closure
	r = c38eval(c38new(), "func pk() { defer func() { recover() }(); panic(1) }; pk(); 3", 10*time.Second)
	k := !r.paned
	// z: stack grown first, so that the k defect cannot interfere
	r = c38eval(c38new(), "func pd(n int) int { if n == 0 { return 0 }; return pd(n-1) }; pd(6); func pz() int { defer func() { recover() }(); panic(1) }; pz()", 10*time.Second)
	z := !r.paned && len(r.vals) == 1 && r.vals[0].IsValid() && r.vals[0].Kind() == reflect.Int && r.vals[0].Int() == 0
	// r: for range x { } without iteration variables
	r = c38eval(c38new(), "func pr() int { x := 0; for range []int{1, 2} { x++ }; return x }; pr()", 10*time.Second)
	rg := !r.paned && len(r.vals) == 1 && r.vals[0].IsValid() && r.vals[0].Kind() == reflect.Int && r.vals[0].Int() == 2
	return "l" + bit(l) + "s" + bit(s) + "q" + bit(q) + "k" + bit(k) + "z" + bit(z) + "r" + bit(rg)
}

func c38has(flag string) bool { return strings.Contains(c38cfg, flag) }

// ---------------------------------------------------------------- operator ops

func c38panicOut(e interface{}) string {
	s := fmt.Sprint(e)
	switch {
	case strings.Contains(s, "divide by zero"):
		return "P:divide"
	case strings.Contains(s, "negative shift amount"):
		return "P:negShift"
	case strings.Contains(s, "unsupported binary operation"), strings.Contains(s, "unsupported unary expression"),
		strings.Contains(s, "unsupported type in logical operation"):
		return "E"
	}
	return "P:?" + truncate(oneLine(s), 120)
}

func c38valOut(v reflect.Value) string {
	if !v.IsValid() {
		return "invalid"
	}
	k := bkinds[v.Kind().String()]
	if k == nil {
		return "?" + v.Kind().String()
	}
	return k.name + ":" + k.enc(k.ofRV(v))
}

// one operator evaluation on the real classic interpreter
func c38runOp(f string, op string, k, ck *bkind, x, y bval) string {
	ir := c38interp()
	ir.DefineVar("a", k.rt, k.toRV(x))
	var src string
	tok := binOpTok[op]
	switch f {
	case "un":
		src = unOpTok[op] + "a"
	case "bin":
		ir.DefineVar("b", k.rt, k.toRV(y))
		src = "a " + tok + " b"
	case "asg":
		ir.DefineVar("b", k.rt, k.toRV(y))
		src = "a " + tok + "= b; a"
	case "sh":
		ir.DefineVar("b", ck.rt, ck.toRV(y))
		src = "a " + tok + " b"
	case "sha":
		ir.DefineVar("b", ck.rt, ck.toRV(y))
		src = "a " + tok + "= b; a"
	}
	r := c38eval(ir, src, 20*time.Second)
	switch {
	case r.hung:
		return "HANG"
	case r.paned:
		return c38panicOut(r.pan)
	case len(r.vals) != 1:
		return fmt.Sprintf("?%d-values", len(r.vals))
	}
	return c38valOut(r.vals[0])
}

// what compiled Go computes (native operators of exactly that operand type)
func c38nativeOp(f string, op string, k, ck *bkind, x, y bval) string {
	switch f {
	case "un":
		if !unDefinedOn(op, k) {
			return "E"
		}
		return k.name + ":" + k.enc(k.un(op, x))
	case "sh", "sha":
		r, pc := k.shift[ck.name](op, x, y)
		if pc != "" {
			return "P:" + pc
		}
		return k.name + ":" + k.enc(r)
	}
	if !binDefinedOn(op, k) {
		return "E"
	}
	if isCmpOp(op) {
		if f == "asg" {
			return "E"
		}
		return "bool:" + bkinds["bool"].enc(boolVal(k.cmp(op, x, y)))
	}
	r, pc := k.bin(op, x, y)
	if pc != "" {
		return "P:" + pc
	}
	return k.name + ":" + k.enc(r)
}

func c38execOp(f string, fields []string) Result {
	// fields: cfg OP kind [ckind] pairs...
	if len(fields) < 4 {
		return Result{Out: "bad-op"}
	}
	op, k := fields[1], bkinds[fields[2]]
	rest := fields[3:]
	var ck *bkind
	if f == "sh" || f == "sha" {
		ck = bkinds[rest[0]]
		rest = rest[1:]
		if ck == nil || !ck.isInteger() || !isShiftOp(op) {
			return Result{Out: "bad-op"}
		}
	}
	if k == nil || len(rest) == 0 || k.cat == catComplex {
		return Result{Out: "bad-op"}
	}
	if f == "asg" && (isCmpOp(op) || op == "LAND" || op == "LOR") {
		return Result{Out: "bad-op"}
	}
	if f == "un" {
		if _, ok := unOpTok[op]; !ok {
			return Result{Out: "bad-op"}
		}
	} else if _, ok := binOpTok[op]; !ok || (f != "sh" && f != "sha" && isShiftOp(op)) || ((f == "sh" || f == "sha") && !k.isInteger()) {
		return Result{Out: "bad-op"}
	}
	var outs []string
	res := Result{Tags: []string{f + "-" + op, "kind-" + k.name}, Nontrivial: true}
	for _, p := range rest {
		var x, y bval
		var err, err2 error
		if f == "un" {
			x, err = k.dec(p)
		} else {
			a, b, ok := strings.Cut(p, ",")
			if !ok {
				return Result{Out: "bad-op"}
			}
			x, err = k.dec(a)
			if ck != nil {
				y, err2 = ck.dec(b)
			} else {
				y, err2 = k.dec(b)
			}
		}
		if err != nil || err2 != nil {
			return Result{Out: "bad-op"}
		}
		got := c38runOp(f, op, k, ck, x, y)
		want := c38nativeOp(f, op, k, ck, x, y)
		outs = append(outs, got)
		if got != want && res.Viol == "" {
			key := f + "-" + op + "-" + k.name
			if ck != nil {
				key = "shift-" + op + "-" + k.name + "-" + ck.name
				if want == "P:negShift" {
					key = "shift-negative-count-no-panic"
				} else if f == "sha" {
					key = "shift-assign-count-converted"
				}
			}
			res.Key = key
			res.Viol = fmt.Sprintf("%s %s %s operands %s: classic %s, compiled Go %s", f, op, k.name, p, got, want)
		}
		if strings.HasPrefix(got, "P:") {
			res.Tags = append(res.Tags, "panic")
		}
	}
	res.Out = strings.Join(outs, " ")
	return res
}

// ---------------------------------------------------------------- prog ops (C05 programs)

func c38progSource(prog []*sx, fname string) string {
	c05runeVars = map[string]bool{}
	c05collectRunes(prog)
	// classic does not support named results (naked return): the body runs in a closure
	// capturing the four result variables
	return "func " + fname + "() (int, int, int, int) {\n\tvar v0, v1, v2, v3 int\n\tfunc() {\n" + c05stmts(prog, "\t\t") + "\t}()\n\treturn v0, v1, v2, v3\n}\n"
}

func c38hasAny(ns []*sx, heads map[string]bool) bool {
	for _, n := range ns {
		if !n.isl {
			continue
		}
		if heads[n.head()] {
			return true
		}
		if c38hasAny(n.list, heads) {
			return true
		}
	}
	return false
}

func c38hasLabels(ns []*sx) bool {
	for _, n := range ns {
		if !n.isl {
			continue
		}
		switch n.head() {
		case "for", "rng", "sw":
			if len(n.list) > 1 && n.list[1].isl && len(n.list[1].list) > 0 {
				return true
			}
		case "br", "co":
			if len(n.list) > 1 && n.list[1].atom != "_" {
				return true
			}
		case "lab":
			return true
		}
		if c38hasLabels(n.list) {
			return true
		}
	}
	return false
}

func c38hasRangeNoVars(ns []*sx) bool {
	for _, n := range ns {
		if !n.isl {
			continue
		}
		if n.head() == "rng" && len(n.list) > 5 && c05opt(n.list[4]) == "" && c05opt(n.list[5]) == "" {
			return true
		}
		if c38hasRangeNoVars(n.list) {
			return true
		}
	}
	return false
}

var c38seq int

func c38runProg(prog []*sx) string {
	ir := c38interp()
	c38seq++
	name := fmt.Sprintf("f%d", c38seq)
	c38trace = c38trace[:0]
	if r := c38eval(ir, c38progSource(prog, name), 20*time.Second); r.paned || r.hung {
		c38ir = nil
		return "cerr " + oneLine(fmt.Sprint(r.pan))
	}
	r := c38eval(ir, name+"()", 20*time.Second)
	if r.hung {
		return "HANG"
	}
	tr := strings.Join(c38trace, ",")
	if r.paned {
		c38ir = nil
		return "PANIC " + tr + " " + oneLine(fmt.Sprint(r.pan))
	}
	return "done " + tr + "|" + strings.ReplaceAll(showVals(r.vals, false), " ", ",")
}

// ---------------------------------------------------------------- T ops (defer / panic / recover trees)

// tokens: e<n> p<v> r q R V<v> C( ... ) D( ... )      q = recover() compared with nil first
type c38node struct {
	k    byte
	n    int
	body []*c38node
}

func c38parseT(toks []string, depth int, inDefer bool) (body []*c38node, rest []string, ok bool) {
	for len(toks) > 0 {
		t := toks[0]
		toks = toks[1:]
		switch {
		case t == ")":
			return body, toks, depth > 0
		case t == "r" || t == "q" || t == "R":
			body = append(body, &c38node{k: t[0]})
		case t == "C(" || t == "D(":
			b, r2, ok := c38parseT(toks, depth+1, t == "D(")
			if !ok {
				return nil, nil, false
			}
			body = append(body, &c38node{k: t[0], body: b})
			toks = r2
		case len(t) >= 2 && (t[0] == 'e' || t[0] == 'p' || t[0] == 'V'):
			n, ok := c07atoi(t[1:])
			if !ok || (t[0] == 'V' && inDefer) {
				return nil, nil, false
			}
			body = append(body, &c38node{k: t[0], n: n})
		default:
			return nil, nil, false
		}
	}
	return body, nil, depth == 0
}

type c38render struct {
	pfx   string
	decls strings.Builder
	nfun  int
	h     uint64
}

func (r *c38render) choice(n int) int {
	r.h = r.h*6364136223846793005 + 1442695040888963407
	return int((r.h >> 33) % uint64(n))
}

func (r *c38render) body(sb *strings.Builder, body []*c38node, ind string, inCall bool) {
	for _, n := range body {
		switch n.k {
		case 'e':
			fmt.Fprintf(sb, "%slg(\"e%d\")\n", ind, n.n)
		case 'p':
			switch {
			case n.n == 902:
				fmt.Fprintf(sb, "%s{ a, b := 1, 0; a = a / b; lg(itoa(a)) }\n", ind)
			case n.n%2 == 1:
				fmt.Fprintf(sb, "%spanic(\"s%d\")\n", ind, n.n)
			default:
				fmt.Fprintf(sb, "%spanic(%d)\n", ind, n.n)
			}
		case 'r':
			fmt.Fprintf(sb, "%slg(\"r\" + show(recover()))\n", ind)
		case 'q':
			fmt.Fprintf(sb, "%sif x := recover(); x != nil { lg(\"r\" + show(x)) } else { lg(\"r-\") }\n", ind)
		case 'R':
			if inCall {
				fmt.Fprintf(sb, "%sreturn 0\n", ind)
			} else {
				fmt.Fprintf(sb, "%sreturn\n", ind)
			}
		case 'V':
			fmt.Fprintf(sb, "%sreturn %d\n", ind, n.n)
		case 'C':
			name := r.fun(n.body)
			if r.choice(3) == 0 {
				fmt.Fprintf(sb, "%s{ v := %s(); lg(\"c\" + itoa(v)) }\n", ind, name)
			} else {
				fmt.Fprintf(sb, "%slg(\"c\" + itoa(%s()))\n", ind, name)
			}
		case 'D':
			switch r.choice(4) {
			case 0: // named function
				r.nfun++
				name := fmt.Sprintf("%sd%d", r.pfx, r.nfun)
				var fb strings.Builder
				fmt.Fprintf(&fb, "func %s() {\n", name)
				r.body(&fb, n.body, "\t", false)
				fb.WriteString("}\n")
				r.decls.WriteString(fb.String())
				fmt.Fprintf(sb, "%sdefer %s()\n", ind, name)
			case 1: // closure with an argument evaluated at defer time
				fmt.Fprintf(sb, "%sdefer func(x int) {\n%s\t_ = x\n", ind, ind)
				r.body(sb, n.body, ind+"\t", false)
				fmt.Fprintf(sb, "%s}(7)\n", ind)
			default:
				fmt.Fprintf(sb, "%sdefer func() {\n", ind)
				r.body(sb, n.body, ind+"\t", false)
				fmt.Fprintf(sb, "%s}()\n", ind)
			}
		}
	}
}

func (r *c38render) fun(body []*c38node) string {
	r.nfun++
	name := fmt.Sprintf("%sf%d", r.pfx, r.nfun)
	var fb strings.Builder
	fmt.Fprintf(&fb, "func %s() int {\n", name)
	r.body(&fb, body, "\t", true)
	fb.WriteString("\treturn 0\n}\n")
	r.decls.WriteString(fb.String())
	return name
}

func c38sourceT(body []*c38node, hint uint64, pfx string) (decls, root string) {
	r := &c38render{pfx: pfx, h: hint*2654435761 + 12345}
	root = r.fun(body)
	return r.decls.String(), root
}

func c38splitT(op string) (hint uint64, body []*c38node, toks []string, ok bool) {
	f := strings.Fields(op)
	if len(f) < 3 || f[0] != "T" {
		return 0, nil, nil, false
	}
	h, ok := c07atoi(f[2])
	if !ok {
		return 0, nil, nil, false
	}
	body, _, ok = c38parseT(f[3:], 0, false)
	return uint64(h), body, f[3:], ok
}

// is the tree inside what the model (the specification Defer.Host) can predict for the code under test?
func c38modelledT(toks []string) bool {
	hasR, hasQ := false, false
	for _, t := range toks {
		hasR = hasR || t == "r" || t == "q"
		hasQ = hasQ || t == "q"
	}
	if !hasR {
		return true
	}
	return c38has("k1") && c38has("z1") && (!hasQ || c38has("q1"))
}

func c38runT(body []*c38node, hint uint64) string {
	// even hints: a FRESH interpreter, whose call stack (a slice of frames) is reallocated while the tree
	// runs; odd hints: the shared one, whose call stack has already grown
	ir := c38interp()
	if hint%2 == 0 {
		ir = c38new()
	}
	c38seq++
	pfx := fmt.Sprintf("t%d_", c38seq)
	decls, root := c38sourceT(body, hint, pfx)
	c38log = c38log[:0]
	if r := c38eval(ir, decls, 20*time.Second); r.paned || r.hung {
		c38ir = nil
		return "cerr " + oneLine(fmt.Sprint(r.pan))
	}
	r := c38eval(ir, root+"()", 20*time.Second)
	if r.hung {
		return "HANG"
	}
	raw := append([]string(nil), c38log...)
	if r.paned {
		c38ir = nil // the call stack of the interpreter may be left unbalanced
		raw = append(raw, "P"+c38show(r.pan))
	} else if len(r.vals) == 1 && r.vals[0].IsValid() && r.vals[0].Kind() == reflect.Int {
		raw = append(raw, "c"+strconv.FormatInt(r.vals[0].Int(), 10))
	} else {
		raw = append(raw, "c?")
	}
	return c07canon(raw)
}

// ---------------------------------------------------------------- G ops: hand-written programs outside the Lean model

type c38g struct{ name, decls, call string }

// every program declares its names with the prefix G_ (renamed per op); result of the call: int
var c38gs = []c38g{
	{"closure-counter", `func G_mk() func() int { n := 0; return func() int { n++; return n } }
func G_main() int { a, b := G_mk(), G_mk(); a(); a(); b(); lg(itoa(a())); lg(itoa(b())); return a() + b() }`, "G_main()"},
	{"closure-captures-for-var", `func G_main() int { var fs []func() int; for i := 0; i < 3; i++ { fs = append(fs, func() int { return i * 10 }) }; s := 0; for _, f := range fs { s += f(); lg(itoa(f())) }; return s }`, "G_main()"},
	{"closure-captures-range-var", `func G_main() int { var fs []func() int; for i, v := range []int{7, 8, 9} { fs = append(fs, func() int { return i*100 + v }) }; s := 0; for _, f := range fs { s += f(); lg(itoa(f())) }; return s }`, "G_main()"},
	{"closure-captures-copy", `func G_main() int { var fs []func() int; for i := 0; i < 3; i++ { j := i; fs = append(fs, func() int { j += 10; return j }) }; s := 0; for _, f := range fs { s += f() + f() }; return s }`, "G_main()"},
	{"closure-nested-3", `func G_main() int { x := 1; f := func() func() func() int { y := x + 1; return func() func() int { z := y + x; return func() int { x += 100; return x + y + z } } }; g := f()(); a := g(); b := g(); lg(itoa(a)); lg(itoa(b)); return x }`, "G_main()"},
	{"closure-modifies-outer-in-loop", `func G_main() int { t := 0; add := func(n int) { t += n }; for i := 1; i <= 4; i++ { if i == 3 { continue }; add(i) }; return t }`, "G_main()"},
	{"recursion-fib", `func G_fib(n int) int { if n < 2 { return n }; return G_fib(n-1) + G_fib(n-2) }
func G_main() int { return G_fib(15) }`, "G_main()"},
	{"recursion-closure", `func G_main() int { var fact func(int) int; fact = func(n int) int { if n <= 1 { return 1 }; return n * fact(n-1) }; return fact(10) }`, "G_main()"},
	{"multi-results-swap", `func G_two(a, b int) (int, int) { return b, a + b }
func G_main() int { x, y := 1, 2; for i := 0; i < 5; i++ { x, y = G_two(x, y) }; lg(itoa(x)); return y }`, "G_main()"},
	{"variadic", `func G_sum(base int, xs ...int) int { for _, x := range xs { base += x }; return base }
func G_main() int { ys := []int{4, 5}; return G_sum(1) + G_sum(1, 2, 3) + G_sum(10, ys...) }`, "G_main()"},
	{"slice-append-alias", `func G_main() int { a := make([]int, 2, 8); b := append(a, 5); c := append(a, 6); a[0] = 9; lg(itoa(b[2])); lg(itoa(c[2])); lg(itoa(b[0])); lg(itoa(len(a)*100 + cap(a))); return b[2]*10 + c[0] }`, "G_main()"},
	{"slice-of-slice", `func G_main() int { s := []int{0, 1, 2, 3, 4, 5}; t := s[1:4]; u := t[1:cap(t)]; u[0] = 70; t = append(t, 80); lg(itoa(len(u)*10 + cap(u))); s2 := 0; for _, v := range s { s2 = s2*3 + v }; return s2 }`, "G_main()"},
	{"slice-copy-grow", `func G_main() int { s := []int{}; for i := 0; i < 20; i++ { s = append(s, i*i) }; d := make([]int, 5); n := copy(d, s[10:]); return n*1000 + d[4] + len(s) }`, "G_main()"},
	{"slice-2d", `func G_main() int { g := make([][]int, 3); for i := range g { g[i] = make([]int, 3); for j := range g[i] { g[i][j] = i*3 + j } }; g[1][1] += 100; s := 0; for _, row := range g { for _, v := range row { s += v } }; return s }`, "G_main()"},
	{"map-basic", `func G_main() int { m := map[string]int{"a": 1, "b": 2}; m["c"] = 3; m["a"] += 10; delete(m, "b"); v, ok := m["b"]; w, ok2 := m["c"]; r := len(m)*1000 + m["a"]*10 + v + w; if ok { r += 100000 }; if ok2 { r += 200000 }; return r }`, "G_main()"},
	{"map-int-keys-sum", `func G_main() int { m := map[int]int{}; for i := 0; i < 10; i++ { m[i%4] += i }; s := 0; for k, v := range m { s += k*100 + v }; return s }`, "G_main()"},
	{"map-of-slices", `func G_main() int { m := map[string][]int{}; m["x"] = append(m["x"], 1); m["x"] = append(m["x"], 2); m["y"] = append(m["y"], 3); return len(m["x"])*100 + len(m["y"])*10 + len(m["z"]) + m["x"][1] }`, "G_main()"},
	{"map-nil-read", `func G_main() int { var m map[string]int; v, ok := m["q"]; r := v + len(m); if !ok { r += 5 }; return r }`, "G_main()"},
	{"struct-fields", `type G_P struct { X, Y int; Name string }
func G_main() int { p := G_P{1, 2, "p"}; q := p; q.X = 10; p.Y += 5; pp := &p; pp.X = 7; lg(p.Name + q.Name); return p.X*1000 + p.Y*100 + q.X*10 + q.Y }`, "G_main()"},
	{"struct-keyed-literal-zero", `type G_P struct { X, Y int; S string; B bool; F float64 }
func G_main() int { p := G_P{Y: 4}; var z G_P; r := p.X + p.Y*10 + len(z.S); if !z.B && z.F == 0 { r += 100 }; return r }`, "G_main()"},
	{"struct-in-slice-and-map", `type G_P struct { X, Y int }
func G_main() int { ps := []G_P{G_P{1, 2}, G_P{3, 4}}; ps[1].X = 30; m := map[string]G_P{"a": G_P{5, 6}}; v := m["a"]; v.X = 50; lg(itoa(m["a"].X)); c := ps[0]; c.Y = 99; return ps[0].Y + ps[1].X + v.X + c.Y }`, "G_main()"},
	{"struct-pointer-in-closure", `type G_P struct { N int }
func G_main() int { p := &G_P{1}; inc := func() { p.N *= 2 }; inc(); inc(); q := *p; inc(); return p.N*10 + q.N }`, "G_main()"},
	{"struct-method-value-receiver", `type G_P struct { N int }
func (p G_P) Get() int { return p.N }
func (p *G_P) Inc() { p.N++ }
func G_main() int { p := G_P{1}; p.Inc(); p.Inc(); return p.Get() }`, "G_main()"},
	{"string-ops", `func G_main() int { s := "héllo"; t := s + "!" + s[1:3]; n := 0; for i, c := range t { n += i * int(c) }; b := []byte(s); if t > s && s != "hello" { n += len(t)*1000 + len(b) }; lg(t); return n }`, "G_main()"},
	{"string-index-compare", `func G_main() int { s := "abc"; r := int(s[0]) + int(s[2])*2; if s[1] == 'b' { r += 1000 }; if "ab" < s && s <= "abc" && s >= "abc" { r += 5000 }; return r }`, "G_main()"},
	{"float-arith", `func G_main() int { f := 1.5; g := f*2 + 0.25; h := g / 4; k := -h; r := 0; if k < 0 && h > 0.8 && h <= 0.8125 { r = 1 }; x := 0.1; y := 0.2; if x+y != 0.3 { r += 10 }; return r + int(g*100) }`, "G_main()"},
	{"float-int-conversions", `func G_main() int { n := 7; f := float64(n) / 2; m := int(f); g := float64(m) * 1.5; return m*100 + int(g) }`, "G_main()"},
	{"bool-short-circuit", `func G_t(s string, b bool) bool { lg(s); return b }
func G_main() int { r := 0; if G_t("a", false) && G_t("b", true) { r += 1 }; if G_t("c", true) || G_t("d", true) { r += 10 }; if !G_t("e", false) { r += 100 }; x := G_t("f", true) != G_t("g", false); if x { r += 1000 }; return r }`, "G_main()"},
	{"int-arith-mix", `func G_main() int { a, b := 17, 5; r := a/b*1000 + a%b*100 + (-a)/b*10 + (-a)%b; c := a &^ b | a ^ b; d := a<<3 | a>>1; return r + c*7 + d }`, "G_main()"},
	{"int-overflow-wrap", `func G_main() int { x := 9223372036854775807; x++; y := x - 1; z := x / -1; r := 0; if x < 0 { r += 1 }; if y > 0 { r += 10 }; if z == x { r += 100 }; return r }`, "G_main()"},
	{"shadowing-scopes", `func G_main() int { x := 1; if x := x + 1; x > 1 { x := x * 10; lg(itoa(x)) }; { x := 5; x++; lg(itoa(x)) }; for x := 0; x < 2; x++ { lg(itoa(x)) }; switch x := x + 7; { case x > 3: lg(itoa(x)) }; return x }`, "G_main()"},
	{"switch-fallthrough-default-middle", `func G_f(n int) int { r := 0; switch n { case 1: r += 1; fallthrough; default: r += 10; case 2: r += 100; fallthrough; case 3: r += 1000 }; return r }
func G_main() int { return G_f(0) + G_f(1)*2 + G_f(2)*3 + G_f(3)*5 }`, "G_main()"},
	{"switch-in-for-break-continue", `func G_main() int { r := 0; for i := 0; i < 6; i++ { switch { case i == 1: continue; case i == 3: break; case i == 5: r += 1000; default: r += i }; r += 10 }; return r }`, "G_main()"},
	{"switch-case-list-and-calls", `func G_v(s string, n int) int { lg(s); return n }
func G_main() int { r := 0; switch G_v("tag", 2) { case G_v("a", 1), G_v("b", 2), G_v("c", 3): r = 1; case G_v("d", 2): r = 2 }; return r }`, "G_main()"},
	{"defer-modifies-captured", `func G_f(p *int) int { defer func() { *p += 100 }(); *p += 1; return *p }
func G_main() int { x := 1; y := G_f(&x); return x*1000 + y }`, "G_main()"},
	{"defer-args-evaluated-early", `func G_main() int { x := 1; func() { defer lg(itoa(x)); x = 2; defer lg(itoa(x)); x = 3 }(); return x }`, "G_main()"},
	{"defer-loop-lifo", `func G_main() int { func() { for i := 0; i < 4; i++ { defer func(n int) { lg(itoa(n)) }(i) } }(); return 0 }`, "G_main()"},
	{"recover-repanic-nested", `func G_in() { defer func() { e := recover(); lg("in:" + show(e)); panic("again") }(); panic("first") }
func G_main() int { defer func() { lg("main:" + show(recover())) }(); func() { defer func() { lg("mid:" + show(recover())) }(); G_in() }(); lg("after"); return 1 }`, "G_main()"},
	{"recover-deep-unwind", `func G_d(n int) int { if n == 0 { panic("deep") }; defer func() { lg("u" + itoa(n)) }(); return G_d(n-1) + 1 }
func G_main() int { r := 0; func() { defer func() { lg(show(recover())); r = 5 }(); r = G_d(4) }(); return r }`, "G_main()"},
	{"recover-only-in-deferred", `func G_h() interface{} { return recover() }
func G_main() int { r := 0; func() { defer func() { if G_h() == nil { r += 1 }; if recover() != nil { r += 10 } }(); panic(3) }(); if recover() == nil { r += 100 }; return r }`, "G_main()"},
	{"recover-runtime-error", `func G_main() int { r := 0; func() { defer func() { if e := recover(); e != nil { r = 7 } }(); var m map[string]int; m["a"] = 1 }(); func() { defer func() { if recover() != nil { r += 10 } }(); s := []int{1}; i := 3; r += s[i] }(); return r }`, "G_main()"},
	{"labelled-break-continue", `func G_main() int { r := 0; outer: for i := 0; i < 4; i++ { for j := 0; j < 4; j++ { if j == 2 { continue outer }; if i == 3 { break outer }; r += i*10 + j } }; return r }`, "G_main()"},
	{"labelled-break-out-of-switch-in-for", `func G_main() int { r := 0; L: for i := 0; i < 5; i++ { switch i { case 2: break L; default: r += i + 1 } }; return r }`, "G_main()"},
	{"range-append-in-body", `func G_main() int { s := []int{1, 2, 3}; n := 0; for i := range s { if len(s) < 6 { s = append(s, i) }; n++ }; t := []int{5}; for i, v := range t { if len(t) < 4 { t = append(t, v+i) }; n += 10 }; return n*100 + len(s)*10 + len(t) }`, "G_main()"},
	{"range-slice-elem-written-in-body", `func G_main() int { s := []int{1, 2, 3}; n := 0; for i, v := range s { s[2] = 70; n = n*10 + v + i }; return n }`, "G_main()"},
	{"range-var-shrunk-in-body", `func G_main() int { s := []int{1, 2, 3}; n := 0; for _, v := range s { s = s[:1]; n += v }; return n*10 + len(s) }`, "G_main()"},
	{"range-var-replaced-in-body", `func G_main() int { s := []int{1, 2, 3}; n := 0; for i, v := range s { s = []int{9, 9, 9}; n = n*10 + v + i }; m := map[string]int{"a": 1}; k := 0; for key := range m { m = map[string]int{"b": 2, "c": 3}; k += len(key) }; return n*10 + k }`, "G_main()"},
	{"range-array-copied", `func G_main() int { a := [3]int{1, 2, 3}; n := 0; for i, v := range a { a[2] = 50; n = n*10 + v + i }; p := &a; for i, v := range p { p[2] = 60; n = n*10 + v + i }; return n }`, "G_main()"},
	{"defer-panics-on-fresh-stack", `func G_in() int { defer func() { panic("second") }(); return 1 }
func G_main() int { r := 0; func() { defer func() { lg("got:" + show(recover())) }(); r = G_in() }(); return r }`, "G_main()"},
	{"shift-variable-counts", `func G_main() int { x := 1; n := 3; u := uint(70); a := x << n; b := -64 >> n; c := x << u; d := -1 >> u; return a*1000 + b*10 + c + d }`, "G_main()"},
}

func c38gByName(name string) *c38g {
	for i := range c38gs {
		if c38gs[i].name == name {
			return &c38gs[i]
		}
	}
	return nil
}

func c38gKey(g *c38g) string {
	switch {
	case strings.HasPrefix(g.name, "labelled-") && !c38has("l1"):
		return "labeled-statement-hangs"
	case strings.HasPrefix(g.name, "shift-variable") && !c38has("s1"):
		return "shift-negative-count-no-panic"
	case strings.HasPrefix(g.name, "recover-") && !c38has("q1"):
		return "compare-concrete-value-with-nil"
	case strings.HasPrefix(g.name, "recover-") && !c38has("k1"):
		return "recover-stale-frame"
	case g.name == "range-var-shrunk-in-body" || g.name == "range-var-replaced-in-body" || g.name == "range-array-copied":
		return "range-expression-not-evaluated-once"
	}
	return "program-differs-" + g.name
}

func c38runG(g *c38g) string {
	if strings.HasPrefix(g.name, "labelled-") && !c38has("l1") {
		return "HANG" // the unrepaired evalStatement spins forever on a labelled statement: not run
	}
	ir := c38new() // fresh interpreter: the programs are sensitive to the call-stack history (see k)
	c38log = c38log[:0]
	if r := c38eval(ir, g.decls, 20*time.Second); r.paned || r.hung {
		return "cerr " + oneLine(fmt.Sprint(r.pan))
	}
	r := c38eval(ir, g.call, 20*time.Second)
	if r.hung {
		return "HANG"
	}
	raw := strings.Join(c38log, ",")
	if r.paned {
		return "PANIC " + raw + " " + c38show(r.pan)
	}
	return "done " + raw + "|" + showVals(r.vals, false)
}

// ---------------------------------------------------------------- compiled-Go oracle

var c38oracle = map[string]string{}
var c38oracleErr string

const c38prelude = `
var LOG []string
func lg(s string) { LOG = append(LOG, s) }
func itoa(n int) string { return strconv.Itoa(n) }
func show(e interface{}) string {
	switch x := e.(type) {
	case nil:
		return "-"
	case int:
		return strconv.Itoa(x)
	case string:
		return "S:" + x
	case error:
		return "E:" + x.Error()
	}
	return "?" + fmt.Sprint(e)
}
`

func c38opKey(op string) string { // op without its cfg field
	f := strings.SplitN(op, " ", 3)
	if len(f) == 3 && (f[0] == "prog" || f[0] == "T") {
		return f[0] + " " + f[2]
	}
	return op
}

func c38prepare(ops []string) {
	c38cfg = c38probe()
	for i, op := range ops {
		f := strings.SplitN(op, " ", 3)
		if len(f) == 3 {
			switch f[0] {
			case "bin", "asg", "sh", "sha", "un", "prog", "T":
				ops[i] = f[0] + " " + c38cfg + " " + f[2]
			}
		}
	}
	var snips []Snippet
	var owners [][]string
	seen := map[string]bool{}
	// prog ops
	var progs []string
	for _, op := range ops {
		k := c38opKey(op)
		if strings.HasPrefix(op, "prog ") && !seen[k] {
			seen[k] = true
			progs = append(progs, op)
		}
	}
	const per = 150
	for i := 0; i < len(progs); i += per {
		j := i + per
		if j > len(progs) {
			j = len(progs)
		}
		var decls, body strings.Builder
		decls.WriteString("var emitF func(int, int)\nfunc emit(tag, v int) { emitF(tag, v) }\nfunc g(tag, v int) int { emitF(tag, v); return v }\n")
		body.WriteString("var tr []string\nemitF = func(tag, v int) { if len(tr) >= 4000 { panic(\"emit budget exceeded\") }; tr = append(tr, fmt.Sprintf(\"%d:%d\", tag, v)) }\n")
		var own []string
		for k, op := range progs[i:j] {
			f := strings.SplitN(op, " ", 4)
			if len(f) < 4 {
				own = append(own, "")
				body.WriteString("emit(\"bad\")\n")
				continue
			}
			decls.WriteString(c38progSource(parseSx(f[3]), fmt.Sprintf("f%d", k)))
			fmt.Fprintf(&body, "func() { tr = nil; defer func() { if e := recover(); e != nil { emit(\"PANIC \" + strings.Join(tr, \",\") + \" \" + fmt.Sprint(e)) } }(); a, b, c, d := f%d(); emit(fmt.Sprintf(\"done %%s|%%d,%%d,%%d,%%d\", strings.Join(tr, \",\"), a, b, c, d)) }()\n", k)
			own = append(own, c38opKey(op))
		}
		snips = append(snips, Snippet{Imports: []string{"strings"}, Decls: decls.String(), Body: body.String()})
		owners = append(owners, own)
	}
	// T ops
	type item struct{ key, decls, body string }
	var items []item
	for _, op := range ops {
		k := c38opKey(op)
		if !strings.HasPrefix(op, "T ") || seen[k] {
			continue
		}
		seen[k] = true
		h, body, _, ok := c38splitT(op)
		if !ok {
			continue
		}
		d, root := c38sourceT(body, h, fmt.Sprintf("o%d_", len(items)))
		items = append(items, item{k, d, fmt.Sprintf("LOG = nil\nfunc() {\n\tdefer func() { if e := recover(); e != nil { lg(\"P\" + show(e)) } }()\n\tlg(\"c\" + strconv.Itoa(%s()))\n}()\nemit(strings.Join(LOG, \"|\"))\n", root)})
	}
	const perT = 60
	for i := 0; i < len(items); i += perT {
		j := i + perT
		if j > len(items) {
			j = len(items)
		}
		var d, b strings.Builder
		d.WriteString("var _ = strconv.Itoa\nvar _ = strings.Join\n" + c38prelude)
		var own []string
		for _, it := range items[i:j] {
			d.WriteString(it.decls)
			b.WriteString(it.body)
			own = append(own, it.key)
		}
		snips = append(snips, Snippet{Imports: []string{"strconv", "strings"}, Decls: d.String(), Body: b.String()})
		owners = append(owners, own)
	}
	// G ops: all programs in one package, names made unique by a per-program prefix
	{
		var d, b strings.Builder
		d.WriteString("var _ = strconv.Itoa\nvar _ = strings.Join\n" + c38prelude)
		var own []string
		n := 0
		for _, op := range ops {
			if !strings.HasPrefix(op, "G ") || seen[op] {
				continue
			}
			seen[op] = true
			g := c38gByName(strings.TrimPrefix(op, "G "))
			if g == nil {
				continue
			}
			pfx := fmt.Sprintf("G%d_", n)
			n++
			d.WriteString(strings.ReplaceAll(g.decls, "G_", pfx) + "\n")
			fmt.Fprintf(&b, "LOG = nil\nfunc() {\n\tdefer func() { if e := recover(); e != nil { emit(\"PANIC \" + strings.Join(LOG, \",\") + \" \" + show(e)) } }()\n\tv := %s\n\temit(\"done \" + strings.Join(LOG, \",\") + \"|\" + fmt.Sprint(v))\n}()\n", strings.ReplaceAll(g.call, "G_", pfx))
			own = append(own, op)
		}
		if len(own) > 0 {
			snips = append(snips, Snippet{Imports: []string{"strconv", "strings"}, Decls: d.String(), Body: b.String()})
			owners = append(owners, own)
		}
	}
	if len(snips) == 0 {
		return
	}
	outs, err := runGoBatch("C38", snips)
	if err != nil {
		c38oracleErr = err.Error()
		return
	}
	for i, o := range outs {
		lines := strings.Split(o, "\n")
		for j, k := range owners[i] {
			if j < len(lines) && k != "" {
				c38oracle[k] = lines[j]
			}
		}
	}
}

// ---------------------------------------------------------------- Exec

func c38exec(op string) Result {
	if c38cfg == "" {
		c38cfg = c38probe()
	}
	f := strings.Fields(op)
	if len(f) == 0 {
		return Result{Out: "bad-op"}
	}
	switch f[0] {
	case "bin", "asg", "sh", "sha", "un":
		return c38execOp(f[0], f[1:])
	case "prog":
		parts := strings.SplitN(op, " ", 4)
		if len(parts) < 4 {
			return Result{Out: "bad-op"}
		}
		prog := parseSx(parts[3])
		feat := c05features(prog)
		var tags []string
		for k := range feat.kinds {
			tags = append(tags, k)
		}
		sort.Strings(tags)
		labels := c38hasLabels(prog)
		var out string
		if labels && !c38has("l1") {
			out = "HANG" // not run: the unrepaired evalStatement spins forever on a labelled statement
		} else {
			out = c38runProg(prog)
		}
		res := Result{Out: out, Tags: tags, Nontrivial: strings.Count(out, ":") >= 2}
		if strings.HasPrefix(out, "cerr ") {
			res.Out = "cerr"
		}
		want, ok := c38oracle[c38opKey(op)]
		if !ok {
			res.Viol, res.Key = "no compiled-Go oracle output: "+truncate(c38oracleErr, 1500), "oracle-unavailable"
			return res
		}
		if out != want {
			key := "control-flow-differs-from-compiled-go"
			switch {
			case labels && !c38has("l1"):
				key = "labeled-statement-hangs"
			case !c38has("r1") && c38hasRangeNoVars(prog):
				key = "range-without-variables-skipped"
			case strings.HasPrefix(out, "cerr"):
				key = "valid-program-rejected"
			case strings.HasPrefix(out, "PANIC"):
				key = "run-time-panic"
			case strings.HasPrefix(out, "HANG"):
				key = "does-not-terminate"
			}
			res.Key = key
			res.Viol = fmt.Sprintf("classic: %s ; compiled Go: %s ; source:\n%s", truncate(out, 400), truncate(want, 400), c38progSource(prog, "f"))
		}
		return res
	case "T":
		h, body, toks, ok := c38splitT(op)
		if !ok {
			return Result{Out: "bad-op"}
		}
		out := c38runT(body, h)
		res := Result{Out: out, Tags: []string{"defer-tree"}, Nontrivial: true}
		for _, t := range toks {
			switch t {
			case "r", "q":
				res.Tags = append(res.Tags, "recover")
			case "D(":
				res.Tags = append(res.Tags, "defer")
			}
		}
		if !c38modelledT(toks) {
			res.Out = "unmodelled"
		}
		raw, ok := c38oracle[c38opKey(op)]
		if !ok {
			res.Viol, res.Key = "no compiled-Go oracle output: "+truncate(c38oracleErr, 1500), "oracle-unavailable"
			return res
		}
		want := c07canon(strings.Split(raw, "|"))
		if out != want {
			key := "event-log-differs"
			hasQ := false
			for _, t := range toks {
				hasQ = hasQ || t == "q"
			}
			switch {
			case !c38modelledT(toks) && hasQ && !c38has("q1"):
				key = "compare-concrete-value-with-nil"
			case !c38modelledT(toks) && !c38has("k1"):
				key = "recover-stale-frame"
			case !c38modelledT(toks) && !c38has("z1"):
				key = "recovered-function-results-missing"
			}
			res.Key = key
			d, root := c38sourceT(body, h, "t_")
			res.Viol = fmt.Sprintf("classic: %s ; compiled Go: %s ; source (call %s()):\n%s", truncate(out, 300), truncate(want, 300), root, d)
		}
		return res
	case "G":
		if len(f) != 2 {
			return Result{Out: "bad-op"}
		}
		g := c38gByName(f[1])
		if g == nil {
			return Result{Out: "g " + f[1], Tags: []string{"g-unknown"}}
		}
		out := c38runG(g)
		res := Result{Out: "g " + g.name, Tags: []string{"g-program"}, Nontrivial: true}
		want, ok := c38oracle[op]
		if !ok {
			res.Viol, res.Key = "no compiled-Go oracle output: "+truncate(c38oracleErr, 1500), "oracle-unavailable"
			return res
		}
		if out != want {
			res.Key = c38gKey(g)
			res.Viol = fmt.Sprintf("classic: %s ; compiled Go: %s ; source (call %s):\n%s", truncate(out, 300), truncate(want, 300), g.call, g.decls)
		}
		return res
	}
	return Result{Out: "bad-op"}
}

// ---------------------------------------------------------------- generator

func c38core(k *bkind, r *rand.Rand, extra int) []bval {
	var out []bval
	switch k.cat {
	case catInt, catUint:
		w := uint(k.bits)
		us := []uint64{0, 1, 2, 3, 7, ^uint64(0), negU(2), negU(3), 1 << (w - 1), 1<<(w-1) - 1, 1<<(w-1) + 1, 1 << (w / 2), 1<<(w/2) - 1, negU(1) << (w / 2), 10, 100, negU(7)}
		seen := map[uint64]bool{}
		for _, u := range us {
			u = maskBits(u, k.bits)
			if !seen[u] {
				seen[u] = true
				out = append(out, bval{u: u})
			}
		}
	default:
		b := boundary(k)
		if len(b) > 16 {
			b = b[:16]
		}
		out = append(out, b...)
	}
	for i := 0; i < extra; i++ {
		out = append(out, randomVal(r, k))
	}
	return out
}

func c38counts(ck *bkind) []bval {
	us := []uint64{0, 1, 2, 7, 8, 9, 15, 16, 31, 32, 33, 63, 64, 65, 127, 128, 200, 255}
	w := uint(ck.bits)
	us = append(us, 1<<(w-1)-1, 1<<(w-1), ^uint64(0), negU(2), negU(64), 256, 257, 1<<32, 1<<40+3)
	seen := map[uint64]bool{}
	var out []bval
	for _, u := range us {
		u = maskBits(u, ck.bits)
		if !seen[u] {
			seen[u] = true
			out = append(out, bval{u: u})
		}
	}
	return out
}

func c38genOps(r *rand.Rand, tier string, emit func(string)) {
	extra := 3
	if tier == "thorough" {
		extra = 40
	}
	flush := func(head string, pairs []string) {
		const per = 24
		for i := 0; i < len(pairs); i += per {
			j := i + per
			if j > len(pairs) {
				j = len(pairs)
			}
			emit(head + " " + strings.Join(pairs[i:j], " "))
		}
	}
	for _, kn := range bkindNames {
		k := bkinds[kn]
		if k.cat == catComplex {
			continue // complex numbers are outside the property's subset
		}
		xs := c38core(k, r, extra)
		ys := c38core(k, r, extra)
		for _, op := range binOpNames {
			if isShiftOp(op) || op == "LAND" || op == "LOR" || !binDefinedOn(op, k) {
				continue
			}
			var pairs []string
			for _, x := range xs {
				for _, y := range ys {
					pairs = append(pairs, k.encIn(x)+","+k.encIn(y))
				}
			}
			flush("bin ? "+op+" "+kn, pairs)
			if !isCmpOp(op) {
				// compound assignment: a sample of the pairs
				var sub []string
				for i, p := range pairs {
					if i%5 == 0 || tier == "thorough" {
						sub = append(sub, p)
					}
				}
				flush("asg ? "+op+" "+kn, sub)
			}
		}
		for _, op := range unOpNames {
			if !unDefinedOn(op, k) {
				continue
			}
			var vs []string
			for _, x := range boundary(k) {
				vs = append(vs, k.encIn(x))
			}
			for _, x := range xs {
				vs = append(vs, k.encIn(x))
			}
			flush("un ? "+op+" "+kn, vs)
		}
		if k.isInteger() {
			for _, ckn := range bkindNames {
				ck := bkinds[ckn]
				if !ck.isInteger() {
					continue
				}
				// quick tier: every count kind for int operands, four representative count kinds otherwise
				if tier != "thorough" && kn != "int" && ckn != "int" && ckn != "uint64" && ckn != "int8" && ckn != "uint8" {
					continue
				}
				cs := c38counts(ck)
				for _, op := range []string{"SHL", "SHR"} {
					var pairs []string
					for i, x := range xs {
						for j, c := range cs {
							if tier != "thorough" && kn != "int" && ckn != "int" && ckn != "uint" && (i+j)%3 != 0 {
								continue
							}
							pairs = append(pairs, k.encIn(x)+","+ck.encIn(c))
						}
					}
					flush("sh ? "+op+" "+kn+" "+ckn, pairs)
					var sub []string
					for i, p := range pairs {
						if i%4 == 0 || tier == "thorough" {
							sub = append(sub, p)
						}
					}
					flush("sha ? "+op+" "+kn+" "+ckn, sub)
				}
			}
		}
	}
	// operators the kind does not have must be rejected
	for _, kn := range []string{"bool", "string", "float64", "int"} {
		k := bkinds[kn]
		v := k.encIn(boundary(k)[1])
		for _, op := range binOpNames {
			if isShiftOp(op) || op == "LAND" || op == "LOR" || binDefinedOn(op, k) {
				continue
			}
			emit("bin ? " + op + " " + kn + " " + v + "," + v)
		}
		for _, op := range unOpNames {
			if !unDefinedOn(op, k) {
				emit("un ? " + op + " " + kn + " " + v)
			}
		}
	}
	// G programs
	for i := range c38gs {
		emit("G " + c38gs[i].name)
	}
	// C05's systematic family + random structured programs, without goto (classic: "unimplemented: goto")
	gotoHeads := map[string]bool{"goto": true, "lab": true}
	for _, p := range c05systematic() {
		emit("prog ? 20000 " + p)
	}
	// case lists mixing constants and side-effecting expressions in all orders, default in every position
	for _, p := range c05switchFamily() {
		emit("prog ? 20000 " + p)
	}
	n := 700
	if tier == "thorough" {
		n = 20000
	}
	for i := 0; i < n; {
		g := &c05g{r: r, nvar: 9, size: 10 + r.Intn(25), maxd: 2 + r.Intn(3), special: r.Intn(100) < 8}
		prog := g.program()
		if c38hasAny(prog, gotoHeads) {
			continue
		}
		parts := make([]string, len(prog))
		for i, s := range prog {
			parts[i] = s.String()
		}
		emit("prog ? 20000 " + strings.Join(parts, " "))
		i++
	}
	// defer trees: scenarios, small exhaustive family, random trees
	for _, s := range c38scenarios {
		for h := 0; h < 3; h++ {
			emit(fmt.Sprintf("T ? %d %s", h, s))
		}
	}
	// all trees with <= 2 nodes over the full alphabet, <= 3 (thorough: 4) nodes over the core alphabet
	for _, toks := range c38enum(2, c38alphabet) {
		emit("T ? 1 " + strings.Join(toks, " "))
	}
	maxn := 3
	if tier == "thorough" {
		maxn = 4
	}
	for _, toks := range c38enum(maxn, c38coreAlphabet) {
		if len(toks) > 3 || strings.Contains(strings.Join(toks, " "), "p4") || strings.Contains(strings.Join(toks, " "), "V7") {
			emit("T ? 2 " + strings.Join(toks, " "))
		}
	}
	nt := 500
	if tier == "thorough" {
		nt = 10000
	}
	for i := 0; i < nt; i++ {
		gt := &c38tgen{r: r, budget: 4 + r.Intn(28)}
		var toks []string
		gt.body(&toks, 0, false, true)
		emit(fmt.Sprintf("T ? %d %s", r.Intn(1000), strings.Join(toks, " ")))
	}
	// malformed stream
	for _, s := range []string{"bin ? ADD int8", "bin ? FOO int 1,2", "bin ? ADD int zz,1", "sh ? SHL int float64 1,1", "un ? NOT int8", "T ? 1 C( e1", "T ? 1 D( V3 )", "T ? x e1", "G nosuch", "prog ? 100", "bogus", "asg ? EQL int 1,1"} {
		emit(s)
	}
}

var c38scenarios = []string{
	"D( e1 ) D( e2 ) D( e3 ) e4",
	"D( r ) p4",
	"D( q ) p5",
	"D( q ) p6",
	"D( e1 ) D( r ) D( e2 ) p8 e9",
	"D( r ) D( p6 ) p4",
	"D( r ) D( C( D( r ) p8 ) ) p4",
	"D( C( r ) r ) p10",
	"D( r ) C( D( e1 ) p12 ) e2",
	"C( D( r ) p14 V5 ) e3",
	"C( V5 ) C( D( r ) V6 ) C( D( p16 ) D( r ) V7 )",
	"D( r r ) p18",
	"D( D( r ) ) p20",
	"D( D( r ) p22 ) D( r ) p24",
	"D( r ) p902",
	"D( q ) p902 e1",
	"C( C( C( D( r ) p26 ) e1 ) e2 ) e3",
	"C( C( C( p28 ) e1 ) D( r ) e2 ) e3",
	"D( r e1 R e2 ) p30",
	"r D( r ) r",
	"p32",
	"D( p34 ) e1",
	"D( p6 ) p4",
	"D( r ) D( p6 ) e1",
	"C( D( p6 ) e1 ) e2",
	"D( r ) C( D( p8 ) p4 ) e2",
	"D( r ) D( r p36 ) p38",
}

var c38alphabet = []string{"p4", "p5", "r", "q", "V7", "e1", "D(", "C("}
var c38coreAlphabet = []string{"p4", "r", "q", "V7", "D(", "C("}

// all well-formed trees with at most n nodes over the alphabet
func c38enum(n int, alphabet []string) [][]string {
	var out [][]string
	var rec func(cur []string, open []byte, nodes int)
	rec = func(cur []string, open []byte, nodes int) {
		if len(open) == 0 && len(cur) > 0 {
			out = append(out, append([]string(nil), cur...))
		}
		if len(open) > 0 {
			rec(append(cur, ")"), open[:len(open)-1], nodes)
		}
		if nodes == n {
			return
		}
		for _, a := range alphabet {
			inDefer := len(open) > 0 && open[len(open)-1] == 'D'
			if a == "V7" && inDefer {
				continue
			}
			if a == "D(" || a == "C(" {
				rec(append(cur, a), append(append([]byte(nil), open...), a[0]), nodes+1)
			} else {
				rec(append(cur, a), open, nodes+1)
			}
		}
	}
	rec(nil, nil, 0)
	return out
}

type c38tgen struct {
	r      *rand.Rand
	budget int
}

func (g *c38tgen) body(out *[]string, depth int, inDefer, top bool) {
	n := 1 + g.r.Intn(4)
	if inDefer && g.r.Intn(100) < 45 {
		if g.r.Intn(3) == 0 {
			*out = append(*out, "q")
		} else {
			*out = append(*out, "r")
		}
		g.budget--
	}
	for i := 0; i < n && g.budget > 0; i++ {
		g.budget--
		k := g.r.Intn(100)
		switch {
		case k < 25:
			*out = append(*out, fmt.Sprintf("e%d", 1+g.r.Intn(9)))
		case k < 50 && depth < 6:
			*out = append(*out, "D(")
			g.body(out, depth+1, true, false)
			*out = append(*out, ")")
		case k < 68 && depth < 6:
			*out = append(*out, "C(")
			g.body(out, depth+1, false, false)
			*out = append(*out, ")")
		case k < 76:
			if g.r.Intn(3) == 0 {
				*out = append(*out, "q")
			} else {
				*out = append(*out, "r")
			}
		case k < 82 && !inDefer:
			*out = append(*out, fmt.Sprintf("V%d", 1+g.r.Intn(9)))
			return
		case k < 86:
			*out = append(*out, "R")
			return
		default:
			*out = append(*out, fmt.Sprintf("e%d", 10+g.r.Intn(9)))
		}
	}
	if g.r.Intn(100) < 40 {
		v := []int{4, 5, 6, 7, 8, 9, 902}[g.r.Intn(7)]
		*out = append(*out, fmt.Sprintf("p%d", v))
	}
}

func init() {
	register(&Prop{
		ID: "C38",
		Rule: "classic interpreter: operator x kind x core/boundary/random operand pairs (same-kind operands, compound assignment, shifts with every count kind, unary), " +
			"C05 structured programs without goto, C07 call trees with unnamed results, hand-written closure/slice/map/struct programs; " +
			"oracles: native Go operators, compiled Go; non-trivial = evaluated; distinct by op text",
		Gen:        c38genOps,
		Exec:       c38exec,
		Exhaustive: func(tier string) bool { return false },
		Prepare:    c38prepare,
	})
}
