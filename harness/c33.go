package main

// C33: goroutine identity and per-goroutine runtime state (fast.Run / IrGlobals.gls) are never shared.
//
// The real interpreter is driven by concurrent scenarios (go statements, callbacks from compiled
// goroutines through sync.WaitGroup / time.AfterFunc, direct calls of interpreted functions, top-level
// Eval from several goroutines) with the hooks of hooks/C33.diff switched on.  The hooks log every
// registry operation and every frame allocation.  Because the interleaving is chosen by the Go
// scheduler, the scenarios are executed by Gen; the operation stream handed to the Lean monitor is
//
//	scn <kind> <seed> <procs> <size>            a scenario starts (monitor state reset)
//	<event> <args> => <outcome on the real code> one line per logged event, in log order
//
// The Lean driver (Drv/C33.lean) ignores what follows " => ", finds the model transition that explains
// the event and prints the outcome the MODEL predicts; Exec returns the recorded real outcome.
// Go-side oracle (independent of the model): the hook's owner assertion Run.goid == gls.GoID() at
// every frame allocation, a bookkeeping of which live goroutines use which Run (sharing), the real
// registry snapshot (gls[id].goid == id), constancy/distinctness of gls.GoID().
// In replay mode the event lines come from the replay file and the `scn` lines re-run the scenario
// on the real code (the oracles are evaluated on the fresh run).

import (
	"fmt"
	"math/rand"
	"os"
	"regexp"
	"runtime"
	"sort"
	"strconv"
	"strings"
	"sync"
	"sync/atomic"
	"time"

	"github.com/cosmos72/gomacro/fast"
	"github.com/cosmos72/gomacro/gls"
)

type c33Hook interface {
	VerifC33Ctl(op string, arg interface{}) []uint64
}

var (
	c33hook       c33Hook
	c33hookTried  bool
	c33genRan     bool
	c33helpers    = &sync.WaitGroup{} // compiled goroutines started by the scenario helpers (one group per scenario)
	c33yieldSeed  uint64
	c33yieldCtr   uint64
	c33curScn     string
	c33scnForeign bool
	c33timeouts   int
)

// ---- frame pools (hook of C06, if present): a recycled frame must come out of the pool it was put into ----

type c33FrameHook interface {
	VerifC06(sink func(kind int, run *fast.Run, env *fast.Env, outer *fast.Env, a int, b int, flag bool), poison bool)
}

var c33frames struct {
	sync.Mutex
	pooledIn map[*fast.Env]*fast.Run // frame -> Run whose pool holds it
	live     map[*fast.Env]bool      // frame handed out and not yet released
	foreign  int                     // frames popped from another Run's pool
	twice    int                     // frames handed out while still live
	first    string
}

func c33frameSink(kind int, run *fast.Run, env *fast.Env, outer *fast.Env, a int, b int, flag bool) {
	f := &c33frames
	f.Lock()
	defer f.Unlock()
	if f.pooledIn == nil {
		return
	}
	switch kind {
	case 1, 2, 3: // allocation; flag = taken from run's pool
		if flag {
			if r, ok := f.pooledIn[env]; ok && r != run {
				f.foreign++
				if f.first == "" {
					f.first = fmt.Sprintf("frame %p was put into the pool of Run %p and is handed out from the pool of Run %p", env, r, run)
				}
			}
			if f.live[env] {
				f.twice++
				if f.first == "" {
					f.first = fmt.Sprintf("frame %p handed out from the pool of Run %p while it is still in use", env, run)
				}
			}
			delete(f.pooledIn, env)
		}
		f.live[env] = true
	case 4: // freeEnv entered
		delete(f.live, env)
	case 5: // stored in run's pool
		f.pooledIn[env] = run
	}
}

func c33framesStart(ir *fast.Interp) bool {
	var x interface{} = ir
	h, ok := x.(c33FrameHook)
	if !ok {
		return false
	}
	c33frames.Lock()
	c33frames.pooledIn = map[*fast.Env]*fast.Run{}
	c33frames.live = map[*fast.Env]bool{}
	c33frames.foreign, c33frames.twice, c33frames.first = 0, 0, ""
	c33frames.Unlock()
	h.VerifC06(c33frameSink, false)
	return true
}

func c33framesStop(ir *fast.Interp) string {
	var x interface{} = ir
	if h, ok := x.(c33FrameHook); ok {
		h.VerifC06(nil, false)
	}
	f := &c33frames
	f.Lock()
	defer f.Unlock()
	f.pooledIn, f.live = nil, nil
	switch {
	case f.foreign > 0:
		return fmt.Sprintf("foreign-pool %d (%s)", f.foreign, f.first)
	case f.twice > 0:
		return fmt.Sprintf("live-twice %d (%s)", f.twice, f.first)
	}
	return "ok"
}

var c33ctlInterp *fast.Interp
var c33raceText []string

// functions that implement the registry protocol and the per-goroutine frame pool
var c33reRegistry = regexp.MustCompile(`^(fast\.\(\*IrGlobals\)\.glsGet|fast\.\(\*Run\)\.(glsStore|glsDel|getRun4Goid|new)|fast\.(newEnv4Func|NewEnv|newEnv)|fast\.\(\*Env\)\.(freeEnv|FreeEnv|freeEnv4Func)|fast\.\(\*Comp\)\.Go\.func[\d.]+|fast\.newTopInterp|atomic\.\(\*SpinLock\)\.\w+|gls\.\w+)$`)

func c33getHook() c33Hook {
	if !c33hookTried {
		c33hookTried = true
		ir := newQuietInterp()
		c33ctlInterp = ir
		if h := c33hookOf(ir); h != nil {
			c33hook = h
			h.VerifC33Ctl("yield", func(site int) {
				n := atomic.AddUint64(&c33yieldCtr, 1)
				z := (n + atomic.LoadUint64(&c33yieldSeed)) * 0x9E3779B97F4A7C15
				if (z>>40)%5 == 0 {
					runtime.Gosched()
				}
			})
		}
	}
	return c33hook
}

// wg (*sync.WaitGroup) and mu (*sync.Mutex) are compiled objects declared with DeclVar: importing "sync"
// costs one `go list -export` subprocess per interpreter
const c33prelude = `var total int
var fch = make(chan func(int) int, 256)
func leaf(n int) int { s := 0; for i := 0; i < n; i++ { x := i * 2; s += x }; return s }
func rec(n int) int { if n <= 0 { return 1 }; y := rec(n - 1); return y + 1 }
func mk(k int) func(int) int { return func(a int) int { b := a + k; return leaf(b%3) + b } }
func withDefer(n int) (r int) { defer func() { if e := recover(); e != nil { r = -1 } }(); if n%2 == 1 { panic("odd") }; return leaf(n) }
func add(v int) { mu.Lock(); total += v; mu.Unlock() }
func worker(n int) { defer wg.Done(); add(rec(n)) }
func spawnIn(n int) { for i := 0; i < n; i++ { wg.Add(1); go func(j int) { defer wg.Done(); add(leaf(j)) }(i) } }
func producer(k int) { defer wg.Done(); fch <- mk(k) }
func consumer(n int) { defer wg.Done(); for i := 0; i < n; i++ { f := <-fch; add(f(i)) } }
func viaDefer(n int) { defer wg.Done(); add(withDefer(n)) }
func work(i int, done func()) { if leaf(i%4) != (i%4)*(i%4-1) { panic("leaf returned a wrong value") }; done() }
func spawn(n int, done func()) { for i := 0; i < n; i++ { go work(i, done) } }
`

// c33env is one interpreter plus the compiled helpers visible to interpreted code.
type c33env struct {
	ir      *fast.Interp
	errs    []string
	mu      sync.Mutex
	gate    chan int      // interpreted name `gate`
	inBlock chan struct{} // closed by the interpreted call inblock()
}

func c33hookOf(ir *fast.Interp) c33Hook {
	var x interface{} = ir.Comp.IrGlobals
	h, _ := x.(c33Hook)
	return h
}

func (e *c33env) fail(msg string) {
	e.mu.Lock()
	e.errs = append(e.errs, msg)
	e.mu.Unlock()
}

func (e *c33env) eval(src string) {
	defer func() {
		if r := recover(); r != nil {
			e.fail(oneLine(fmt.Sprint(r)))
		}
	}()
	e.ir.Eval(src)
}

func (e *c33env) compile(src string) (expr *fast.Expr) {
	defer func() {
		if r := recover(); r != nil {
			e.fail(oneLine(fmt.Sprint(r)))
			expr = nil
		}
	}()
	return e.ir.Compile(src)
}

func (e *c33env) run(expr *fast.Expr) {
	defer func() {
		if r := recover(); r != nil {
			e.fail(oneLine(fmt.Sprint(r)))
		}
	}()
	if expr != nil {
		e.ir.RunExpr(expr)
	}
}

// c33go runs f in a new compiled goroutine that logs its exit
func c33go(f func()) {
	done := c33track()
	go func() {
		c33sync()
		defer done()
		defer c33sync()
		defer c33hook.VerifC33Ctl("exit", nil)
		defer c33recover()
		f()
	}()
}

// The runtime gives the identity (g) of a finished goroutine to a new one, which then legitimately finds and uses the
// Run the dead goroutine registered.  The race detector knows no happens-before edge between the end of one goroutine
// and the start of an unrelated one, so every compiled goroutine of the scenarios passes through this atomic counter
// when it starts and when it ends: ends and later starts are ordered, everything in between stays concurrent.
var c33epoch int64

func c33sync() { atomic.AddInt64(&c33epoch, 1) }

// c33track registers one more compiled goroutine in the current scenario's group
func c33track() (done func()) {
	wg := c33helpers
	wg.Add(1)
	return wg.Done
}

var c33panics struct {
	sync.Mutex
	msgs []string
}

// a panic escaping from interpreted code called by a compiled goroutine is an error of the scenario
func c33recover() {
	if r := recover(); r != nil {
		c33panics.Lock()
		c33panics.msgs = append(c33panics.msgs, "panic-in-compiled-goroutine "+oneLine(fmt.Sprint(r)))
		c33panics.Unlock()
	}
}

func c33newEnv() *c33env {
	e := &c33env{ir: newQuietInterp(), gate: make(chan int), inBlock: make(chan struct{})}
	e.ir.DeclVar("gate", nil, e.gate)
	e.ir.DeclVar("wg", nil, &sync.WaitGroup{})
	e.ir.DeclVar("mu", nil, &sync.Mutex{})
	e.ir.DeclFunc("inblock", func() { close(e.inBlock) })
	e.ir.DeclFunc("fgo", func(f func()) { c33go(f) })
	e.ir.DeclFunc("after", func(ms int, f func()) {
		done := c33track()
		time.AfterFunc(time.Duration(ms)*100*time.Microsecond, func() {
			c33sync()
			defer done()
			defer c33sync()
			defer c33hook.VerifC33Ctl("exit", nil)
			defer c33recover()
			f()
		})
	})
	e.ir.DeclFunc("yield", func() { runtime.Gosched() })
	e.eval(c33prelude)
	return e
}

// one top-level statement of a "go" scenario; prod = number of closures still available in fch
func c33stmt(r *rand.Rand, prod *int) string {
	k := r.Intn(5)
	switch r.Intn(13) {
	case 11, 12:
		// a go statement that captures nothing, immediately followed by a call whose frame may be a recycled one
		return fmt.Sprintf("wg.Add(1); go worker(%d); add(leaf(%d))", k, k%3+2)
	case 0:
		return fmt.Sprintf("wg.Add(1); go func(a int) { defer wg.Done(); add(leaf(a)) }(%d)", k)
	case 1:
		return fmt.Sprintf("wg.Add(1); go worker(%d)", k)
	case 2:
		return fmt.Sprintf("spawnIn(%d)", k%3+1)
	case 3:
		return fmt.Sprintf("{ t := leaf(%d); add(t) }", k)
	case 4:
		*prod++
		return fmt.Sprintf("wg.Add(1); go producer(%d)", k)
	case 5:
		if *prod > 0 {
			n := 1 + r.Intn(*prod)
			if n > 3 {
				n = 3
			}
			*prod -= n
			return fmt.Sprintf("wg.Add(1); go consumer(%d)", n)
		}
		return "add(rec(2))"
	case 6:
		return fmt.Sprintf("wg.Add(1); after(%d, func() { defer wg.Done(); add(leaf(%d)) })", r.Intn(3), k)
	case 7:
		return fmt.Sprintf("wg.Add(1); fgo(func() { defer wg.Done(); add(withDefer(%d)) })", k)
	case 8:
		return fmt.Sprintf("wg.Add(1); go viaDefer(%d)", k)
	case 9:
		return fmt.Sprintf("for i := 0; i < %d; i++ { v := mk(i)(%d); add(v) }", k%3+1, k)
	default:
		return fmt.Sprintf("wg.Add(1); go func() { defer wg.Done(); wg.Add(1); go worker(%d); yield() }()", k)
	}
}

func c33program(r *rand.Rand, size int) string {
	var sb strings.Builder
	prod := 0
	for i := 0; i < size; i++ {
		sb.WriteString(c33stmt(r, &prod))
		sb.WriteString("\n")
	}
	sb.WriteString("wg.Wait()\n")
	return sb.String()
}

// foreign calls of interpreted functions by the calling (compiled) goroutine
func c33calls(r *rand.Rand, e *c33env, leaf func(int) int, clo func(int) int, wd func(int) int, n int) {
	for i := 0; i < n; i++ {
		switch r.Intn(3) {
		case 0:
			leaf(r.Intn(4))
		case 1:
			clo(r.Intn(4))
		default:
			wd(r.Intn(4))
		}
		if r.Intn(2) == 0 {
			runtime.Gosched()
		}
	}
}

func c33funcs(e *c33env) (leaf, clo, wd func(int) int, ok bool) {
	defer func() {
		if r := recover(); r != nil {
			e.fail(oneLine(fmt.Sprint(r)))
			ok = false
		}
	}()
	v1, _ := e.ir.Eval1("leaf")
	v2, _ := e.ir.Eval1("mk(2)")
	v3, _ := e.ir.Eval1("withDefer")
	return v1.Interface().(func(int) int), v2.Interface().(func(int) int), v3.Interface().(func(int) int), true
}

// c33runScenario executes one scenario on the real code and returns its event lines.
// c33runScenario runs one scenario under a watchdog: a scenario that does not terminate (possible only
// when the interpreter misbehaves) is reported as an error together with the events logged so far.
func c33runScenario(kind string, seed int64, procs, size int) (lines []string, tags []string) {
	type res struct{ l, t []string }
	if c33timeouts >= 2 {
		return []string{"error skipped-after-two-timeouts => ERR"}, []string{"timeout"}
	}
	ch := make(chan res, 1)
	c33helpers = &sync.WaitGroup{}
	go func() {
		l, t := c33runScenarioBody(kind, seed, procs, size)
		ch <- res{l, t}
	}()
	select {
	case r := <-ch:
		return r.l, r.t
	case <-time.After(90 * time.Second):
		c33timeouts++
		if h := c33getHook(); h != nil {
			ev := h.VerifC33Ctl("events", nil)
			h.VerifC33Ctl("stop", nil)
			lines, _ = c33translate(ev, nil)
		}
		return append(lines, "error scenario-timeout => ERR"), []string{"timeout"}
	}
}

func c33runScenarioBody(kind string, seed int64, procs, size int) (lines []string, tags []string) {
	h := c33getHook()
	if h == nil {
		return []string{"hook => HOOK-MISSING"}, []string{"hook-missing"}
	}
	r := rand.New(rand.NewSource(seed))
	old := runtime.GOMAXPROCS(procs)
	defer runtime.GOMAXPROCS(old)
	atomic.StoreUint64(&c33yieldSeed, uint64(seed))
	if kind == "goid" {
		return c33goidScenario(size), []string{"goid"}
	}
	h.VerifC33Ctl("start", nil)
	framesOn := c33framesStart(c33ctlInterp)
	c10newRaces() // race reports so far belong to nobody
	var env *c33env
	var reuse string
	silent := false
	done := make(chan struct{})
	switch kind {
	case "std":
		// one interpreter, `size` phases: the creator evaluates a program full of go statements ("go"),
		// compiled goroutines / time.AfterFunc call interpreted functions ("foreign"), or both at once ("mixed")
		go func() {
			c33sync()
			defer c33sync()
			defer close(done)
			defer h.VerifC33Ctl("exit", nil)
			defer c33recover()
			env = c33newEnv()
			f1, f2, f3, ok := c33funcs(env)
			if !ok {
				return
			}
			foreign := func(n int, after bool) {
				for i := 0; i < n; i++ {
					s := r.Int63()
					k := 1 + r.Intn(4)
					if after && r.Intn(4) == 0 {
						done := c33track()
						time.AfterFunc(time.Duration(r.Intn(3))*100*time.Microsecond, func() {
							c33sync()
							defer done()
							defer c33sync()
							defer h.VerifC33Ctl("exit", nil)
							defer c33recover()
							c33calls(rand.New(rand.NewSource(s)), env, f1, f2, f3, k)
						})
					} else {
						c33go(func() { c33calls(rand.New(rand.NewSource(s)), env, f1, f2, f3, k) })
					}
					if after && r.Intn(3) == 0 {
						c33helpers.Wait() // let identities be reused by later goroutines
					}
				}
			}
			for ph := 0; ph < size; ph++ {
				switch r.Intn(3) {
				case 0:
					env.run(env.compile(c33program(r, 2+r.Intn(9))))
				case 1:
					// compile first: compiling while other goroutines run interpreted code is a different
					// matter (unsynchronised xreflect.Universe, see C10), not the registry protocol
					expr := env.compile(c33program(r, 2+r.Intn(9)))
					foreign(1+r.Intn(4), false)
					env.run(expr)
				default:
					foreign(2+r.Intn(8), true)
					f1(2) // the creator itself: fast path
				}
				c33helpers.Wait()
				c33waitChildren(h)
			}
		}()
		<-done
	case "storm":
		// registry contention without event logging (the log would dominate): 16 compiled goroutines, each starting
		// `size` short-lived goroutines in turn, each of which starts 20 interpreted goroutines with go statements and
		// calls an interpreted function 20 times (lookup-or-create, store, delete and lookups on all CPUs at once).
		// Oracles: race detector, the Go runtime's concurrent-map check (kills the process), results of the calls,
		// registry snapshot afterwards.
		h.VerifC33Ctl("stop", nil)
		silent = true
		runtime.GOMAXPROCS(16)
		var bad int64
		go func() {
			c33sync()
			defer c33sync()
			defer close(done)
			defer c33recover()
			env = c33newEnv()
			var spawn func(int, func())
			var leaf func(int) int
			func() {
				defer c33recover()
				spawn = env.ir.ValueOf("spawn").Interface().(func(int, func()))
				leaf = env.ir.ValueOf("leaf").Interface().(func(int) int)
			}()
			if spawn == nil || leaf == nil {
				env.fail("storm: spawn/leaf not found")
				return
			}
			var outer sync.WaitGroup
			for sp := 0; sp < 16; sp++ {
				outer.Add(1)
				go func() {
					c33sync()
					defer c33sync()
					defer outer.Done()
					defer c33recover()
					for k := 0; k < size; k++ {
						var inner, wg sync.WaitGroup
						inner.Add(1)
						wg.Add(20)
						go func() {
							c33sync()
							defer inner.Done()
							defer c33sync()
							defer c33recover()
							spawn(20, wg.Done)
							for i := 0; i < 20; i++ {
								if leaf(i%4) != (i%4)*(i%4-1) {
									atomic.AddInt64(&bad, 1)
								}
							}
						}()
						inner.Wait()
						wg.Wait()
					}
				}()
			}
			outer.Wait()
		}()
		<-done
		if n := atomic.LoadInt64(&bad); n != 0 {
			lines = append(lines, fmt.Sprintf("error storm: %d interpreted calls returned a wrong value => ERR", n))
		}
	case "evalseq":
		// top-level evaluation by several goroutines, one after the other (F14)
		keep := r.Intn(2) == 0 // the creator stays alive / exits
		release := make(chan struct{})
		creatorDone := c33track()
		go func() {
			c33sync()
			defer c33sync()
			defer creatorDone()
			defer h.VerifC33Ctl("exit", nil)
			defer c33recover()
			env = c33newEnv()
			env.eval("{ t := leaf(2); add(t) }")
			close(done)
			if keep {
				<-release
			}
		}()
		<-done
		// the evaluators exist before the first of them runs, so that they have pairwise distinct identities
		starts := make([]chan string, size)
		var evs sync.WaitGroup
		for i := range starts {
			starts[i] = make(chan string)
			evs.Add(1)
			go func(c chan string) {
				c33sync()
				defer c33sync()
				defer evs.Done()
				defer h.VerifC33Ctl("exit", nil)
				defer c33recover()
				for src := range c {
					env.eval(src)
					c <- ""
				}
			}(starts[i])
		}
		for i := 0; i < 2*size; i++ {
			var src string
			switch r.Intn(5) {
			case 0:
				src = "{ t := leaf(2); add(t) }"
			case 1:
				src = "for i := 0; i < 2; i++ { x := i; add(x) }"
			case 2:
				src = "wg.Add(1); go worker(1); wg.Wait()"
			case 3:
				src = "total + 1"
			default:
				src = "add(rec(2))"
			}
			c := starts[r.Intn(size)]
			c <- src
			<-c // evaluation finished
		}
		for _, c := range starts {
			close(c)
		}
		evs.Wait()
		close(release)
	case "reuse":
		// F14 with identity reuse: the creator exits; goroutine E evaluates top-level code and blocks inside
		// a block; a goroutine that received the creator's identity calls an interpreted function
		var creator uint64
		// the evaluator goroutine exists before the creator exits, so that it has another identity
		evalGo := make(chan struct{})
		evalDone := make(chan struct{})
		go func() {
			c33sync()
			defer c33sync()
			defer close(evalDone)
			defer h.VerifC33Ctl("exit", nil)
			defer c33recover()
			<-evalGo
			env.eval("{ a := 1; inblock(); <-gate; add(a) }")
		}()
		go func() {
			c33sync()
			defer c33sync()
			defer close(done)
			defer h.VerifC33Ctl("exit", nil)
			defer c33recover()
			env = c33newEnv()
			creator = h.VerifC33Ctl("goid", nil)[0]
		}()
		<-done
		f1, _, _, ok := c33funcs2(env)
		inBlock := env.inBlock
		close(evalGo)
		<-inBlock
		reuse = "reuse-miss"
		if ok {
			var hold []chan struct{}
			for try := 0; try < 400 && reuse == "reuse-miss"; try++ {
				res := make(chan bool)
				rel := make(chan struct{})
				go func() {
					c33sync()
					defer c33sync()
					defer c33recover()
					if h.VerifC33Ctl("goid", nil)[0] == creator {
						f1(2)
						h.VerifC33Ctl("exit", nil)
						res <- true
						return
					}
					res <- false
					<-rel
				}()
				if <-res {
					reuse = "reuse-hit"
				}
				hold = append(hold, rel)
			}
			for _, c := range hold {
				close(c)
			}
		}
		env.gate <- 1
		<-evalDone
	}
	c33helpers.Wait()
	if !c33waitChildren(h) {
		lines = append(lines, "error children-still-registered => ERR")
	}
	ev := h.VerifC33Ctl("events", nil)
	reg := h.VerifC33Ctl("registry", nil)
	if env != nil {
		reg = c33hookOf(env.ir).VerifC33Ctl("registry", nil)
	}
	h.VerifC33Ctl("stop", nil)
	if silent {
		// no events were logged: only the real registry can be inspected (gls[id].goid == id)
		badReg := 0
		for i := 0; i+2 < len(reg); i += 3 {
			if reg[i] != reg[i+2] {
				badReg++
			}
		}
		if badReg == 0 {
			lines = append(lines, "regcheck => ok")
		} else {
			lines = append(lines, fmt.Sprintf("regcheck => %d-entries-with-foreign-owner!", badReg))
		}
		ev = nil
	}
	var tl, ttags []string
	if !silent {
		tl, ttags = c33translate(ev, reg)
	}
	lines = append(lines, tl...)
	tags = append(tags, ttags...)
	if framesOn {
		lines = append(lines, "frames => "+c33framesStop(c33ctlInterp))
	}
	if rep := c10newRaces(); rep != "" {
		// C33 is about the registry and the per-goroutine Run/pool: only races whose accesses are in that code count
		// here (races elsewhere in the interpreter are C10's business)
		key, one := c10racePick(rep, func(fr []string) bool {
			for _, f := range fr {
				if c33reRegistry.MatchString(f) {
					return true
				}
			}
			return false
		})
		if key != "" {
			lines = append(lines, "race => "+key+" #"+strconv.Itoa(len(c33raceText)))
			c33raceText = append(c33raceText, one)
		} else {
			lines = append(lines, "race => none")
			tags = append(tags, "race-elsewhere")
		}
	} else if os.Getenv("C10_RACE_LOG") != "" {
		lines = append(lines, "race => none")
	}
	if reuse != "" {
		tags = append(tags, reuse)
	}
	if env != nil {
		for _, m := range env.errs {
			lines = append(lines, "error "+truncate(m, 200)+" => ERR")
		}
	}
	c33panics.Lock()
	for _, m := range c33panics.msgs {
		lines = append(lines, "error "+truncate(m, 200)+" => ERR")
	}
	c33panics.msgs = nil
	c33panics.Unlock()
	return lines, tags
}

func c33funcs2(e *c33env) (leaf, clo, wd func(int) int, ok bool) {
	// obtained without evaluating top-level code: ValueOf reads the binding
	defer func() {
		if r := recover(); r != nil {
			e.fail(oneLine(fmt.Sprint(r)))
			ok = false
		}
	}()
	v := e.ir.ValueOf("leaf")
	return v.Interface().(func(int) int), nil, nil, true
}

// go-statement children log their `del` after the interpreted function returned: wait for them
func c33waitChildren(h c33Hook) bool {
	deadline := time.Now().Add(60 * time.Second) // generous: the machine may be heavily loaded
	for d := 100 * time.Microsecond; ; {
		if c33openChildren(h.VerifC33Ctl("events", nil)) == 0 {
			return true
		}
		if time.Now().After(deadline) {
			return false
		}
		time.Sleep(d)
		if d < 20*time.Millisecond {
			d *= 2
		}
	}
}

// number of go-statement children that stored their Run and have not deleted it yet
func c33openChildren(ev []uint64) int {
	missed := map[uint64]bool{}
	open := 0
	for i := 0; i+4 < len(ev); i += 5 {
		kind, id := ev[i], ev[i+1]
		switch kind {
		case 2:
			missed[id] = ev[i+3] == 0
		case 3:
			if missed[id] {
				missed[id] = false
			} else {
				open++
			}
		case 4:
			open--
		}
	}
	return open
}

type c33gor struct {
	uses map[uint64]bool
}

// c33translate turns the raw hook log into event lines "<event> => <real outcome>"
func c33translate(ev []uint64, reg []uint64) (lines []string, tags []string) {
	names := map[uint64]int{}
	name := func(id uint64) int {
		n, ok := names[id]
		if !ok {
			n = len(names)
			names[id] = n
		}
		return n
	}
	live := map[uint64]*c33gor{}
	get := func(id uint64) *c33gor {
		g := live[id]
		if g == nil {
			g = &c33gor{uses: map[uint64]bool{}}
			live[id] = g
		}
		return g
	}
	tagset := map[string]bool{}
	dead := map[uint64]bool{}
	for i := 0; i+4 < len(ev); i += 5 {
		kind, id, outer, run, owner := ev[i], ev[i+1], ev[i+2], ev[i+3], ev[i+4]
		n := name(id)
		if dead[id] && live[id] == nil {
			tagset["identity-reused"] = true
			dead[id] = false
		}
		g := get(id)
		own := "own"
		if owner != id {
			own = "foreign"
		}
		alloc := func(ev string, arg uint64) string {
			g.uses[run] = true
			shared := ""
			for id2, g2 := range live {
				if id2 != id && g2.uses[run] {
					shared = " shared"
				}
			}
			return fmt.Sprintf("%s %d %d => r%d %s%s", ev, n, arg-1, run-1, own, shared)
		}
		fk := ""
		if kind <= 4 && outer == 1 {
			fk = " foreign-key" // a goroutine operated on the registry entry of another identity
		}
		switch kind {
		case 1:
			lines = append(lines, fmt.Sprintf("interp %d => r%d %s%s", n, run-1, own, fk))
		case 2:
			if run == 0 {
				lines = append(lines, fmt.Sprintf("look %d => miss%s", n, fk))
				tagset["look-miss"] = true
			} else {
				lines = append(lines, fmt.Sprintf("look %d => hit r%d%s", n, run-1, fk))
				tagset["look-hit"] = true
			}
		case 3:
			lines = append(lines, fmt.Sprintf("store %d => r%d %s%s", n, run-1, own, fk))
		case 4:
			lines = append(lines, fmt.Sprintf("del %d => ok%s", n, fk))
			delete(live, id)
			dead[id] = true
		case 5:
			if outer == run {
				tagset["func-fast"] = true
			} else {
				tagset["func-slow"] = true
			}
			lines = append(lines, alloc("func", outer))
		case 6:
			lines = append(lines, alloc("block", run))
		case 7:
			lines = append(lines, alloc("gopar", run))
		case 8:
			lines = append(lines, fmt.Sprintf("exit %d => ok", n))
			delete(live, id)
			dead[id] = true
		}
	}
	// registry snapshot of the real map
	type ent struct {
		id  int
		txt string
	}
	var ents []ent
	for i := 0; i+2 < len(reg); i += 3 {
		key, serial, owner := reg[i], reg[i+1], reg[i+2]
		t := fmt.Sprintf("%d:r%d", name(key), int64(serial)-1)
		if owner != key {
			t += "!"
		}
		ents = append(ents, ent{name(key), t})
	}
	sort.Slice(ents, func(i, j int) bool { return ents[i].id < ents[j].id })
	var ts []string
	for _, e := range ents {
		ts = append(ts, e.txt)
	}
	if len(ts) == 0 {
		ts = []string{"-"}
	}
	lines = append(lines, "regdump => "+strings.Join(ts, " "))
	for t := range tagset {
		tags = append(tags, t)
	}
	sort.Strings(tags)
	return lines, tags
}

// identity: constant within a goroutine (across stack growth, rescheduling, blocking), distinct among live goroutines
func c33goidScenario(n int) []string {
	ids := make([]uintptr, n)
	okc := make([]bool, n)
	var start, mid, fin sync.WaitGroup
	start.Add(n)
	mid.Add(n)
	fin.Add(n)
	release := make(chan struct{})
	var grow func(d int) uintptr
	grow = func(d int) uintptr {
		var pad [256]byte
		if d == 0 {
			return gls.GoID() + uintptr(pad[0])
		}
		return grow(d-1) + uintptr(pad[d%256])
	}
	for i := 0; i < n; i++ {
		go func(i int) {
			defer fin.Done()
			a := gls.GoID()
			start.Done()
			start.Wait()
			b := grow(200 + 20*i) // forces the stack to be copied
			runtime.Gosched()
			time.Sleep(time.Duration(i%3) * 50 * time.Microsecond)
			c := gls.GoID()
			ids[i] = a
			okc[i] = a == b && b == c
			mid.Done()
			<-release
		}(i)
	}
	mid.Wait()
	res := "distinct"
	seen := map[uintptr]bool{}
	for _, id := range ids {
		if seen[id] || id == 0 {
			res = "clash"
		}
		seen[id] = true
	}
	cons := "constant"
	for _, ok := range okc {
		if !ok {
			cons = "changed"
		}
	}
	close(release)
	fin.Wait()
	return []string{fmt.Sprintf("goid %d => %s %s", n, res, cons)}
}

func c33parseScn(arg string) (kind string, seed int64, procs, size int, ok bool) {
	f := strings.Fields(arg)
	if len(f) != 4 {
		return
	}
	kind = f[0]
	seed, e1 := strconv.ParseInt(f[1], 10, 64)
	procs, e2 := strconv.Atoi(f[2])
	size, e3 := strconv.Atoi(f[3])
	ok = e1 == nil && e2 == nil && e3 == nil && procs > 0 && procs <= 64 && size >= 0 && size <= 200
	return
}

// classification of a real outcome; returns (violation text, key)
func c33judge(body, real string) (string, string) {
	ev, _, _ := strings.Cut(body, " ")
	switch {
	case real == "HOOK-MISSING":
		return "", "" // reported as model/impl mismatch: nothing can be observed without the hooks
	case strings.Contains(real, "foreign-key"):
		return "a goroutine operated on the registry entry of another goroutine identity: " + body + " -> " + real, "registry-foreign-key"
	case strings.Contains(real, "foreign"):
		key := "func-entry-foreign-run"
		if ev == "block" || ev == "gopar" {
			key = "toplevel-foreign-run"
			c33scnForeign = true
		} else if ev == "interp" || ev == "store" {
			key = "registry-entry-mismatch"
		}
		return "frame allocated from a Run owned by another goroutine identity (Run.goid != gls.GoID()): " + body + " -> " + real, key
	case strings.Contains(real, "shared"):
		key := "shared-run"
		if c33scnForeign {
			key = "shared-run-after-toplevel-foreign"
		}
		return "two live goroutines allocate frames from the same Run: " + body + " -> " + real, key
	case (ev == "regdump" || ev == "regcheck") && strings.Contains(real, "!"):
		return "registry entry whose Run.goid differs from its key: " + real, "registry-entry-mismatch"
	case ev == "goid" && real != "distinct constant":
		return "gls.GoID(): " + real, "goid-" + strings.ReplaceAll(real, " ", "-")
	case ev == "frames" && real != "ok":
		key := "frame-from-foreign-pool"
		if strings.HasPrefix(real, "live-twice") {
			key = "frame-live-twice"
		}
		return "recycled frames are not private to one Run: " + real, key
	case ev == "race" && real != "none":
		key, idx, _ := strings.Cut(real, " #")
		txt := ""
		if i, err := strconv.Atoi(idx); err == nil && i < len(c33raceText) {
			txt = c33raceText[i]
		}
		return "data race in the registry / frame-pool code reported during the scenario:\n" + truncate(txt, 3000), key
	case ev == "error":
		return "scenario failed: " + body, "scenario-error"
	}
	return "", ""
}

func c33exec(op string) Result {
	body, real, has := strings.Cut(op, " => ")
	ev, arg, _ := strings.Cut(body, " ")
	if ev == "scn" {
		c33curScn = arg
		c33scnForeign = false
		res := Result{Out: "ok", Tags: []string{"scn"}}
		if !c33genRan {
			// replay: run the scenario again on the real code and apply the oracles to the fresh events
			kind, seed, procs, size, ok := c33parseScn(arg)
			if !ok {
				res.Out = "bad-op"
				return res
			}
			lines, _ := c33runScenario(kind, seed, procs, size)
			for _, l := range lines {
				b, r, _ := strings.Cut(l, " => ")
				if v, k := c33judge(b, r); v != "" {
					res.Viol, res.Key = "scenario "+arg+": "+v, k
					break
				}
			}
			c33scnForeign = false
		}
		return res
	}
	if !has {
		return Result{Out: "bad-op", Tags: []string{"malformed"}}
	}
	res := Result{Out: real, Tags: []string{ev}, Nontrivial: ev == "func" || ev == "look" || ev == "store" || ev == "block" || ev == "gopar"}
	res.Sig = c33curScn + "|" + op
	if v, k := c33judge(body, real); v != "" {
		res.Viol, res.Key = "scenario "+c33curScn+": "+v, k
		res.Tags = append(res.Tags, "oracle-"+k)
	}
	if strings.HasPrefix(real, "hit") {
		res.Tags = append(res.Tags, "look-hit")
	} else if real == "miss" {
		res.Tags = append(res.Tags, "look-miss")
	}
	return res
}

func c33gen(r *rand.Rand, tier string, emit func(string)) {
	c33genRan = true
	n := 16
	if tier == "thorough" {
		n = 400
	}
	procsOf := []int{1, 2, 4, 16}
	kinds := []string{"std", "storm", "evalseq", "std", "reuse", "std", "goid", "std"}
	for i := 0; i < n; i++ {
		kind := kinds[i%len(kinds)]
		seed := r.Int63n(1 << 40)
		procs := procsOf[r.Intn(len(procsOf))]
		size := 3 + r.Intn(5)
		if kind == "goid" {
			size = 8 + r.Intn(56)
		}
		if kind == "evalseq" {
			size = 2 + r.Intn(6)
		}
		if kind == "storm" {
			size = 8 + r.Intn(8)
		}
		emit(fmt.Sprintf("scn %s %d %d %d", kind, seed, procs, size))
		lines, _ := c33runScenario(kind, seed, procs, size)
		for _, l := range lines {
			emit(l)
		}
	}
}

func init() {
	register(&Prop{
		ID: "C33",
		Rule: "scenarios (go statements, compiled goroutines / time.AfterFunc calling interpreted functions, top-level Eval from several goroutines, " +
			"identity reuse) run on the real interpreter with the owner-assertion hooks on, GOMAXPROCS in {1,2,4,16} and injected yields; " +
			"every logged registry operation / frame allocation is one op; non-trivial = function entries, lookups, stores, block allocations (distinct per scenario)",
		Gen:        c33gen,
		Exec:       c33exec,
		Exhaustive: func(string) bool { return false },
	})
}
