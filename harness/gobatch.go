package main

// Compiled-Go oracle: many small programs are compiled ONCE with the offline toolchain
// (one package per snippet, so their declarations cannot collide) and run in one process.
//
//	outs, err := runGoBatch("C05", []Snippet{{Decls: "func f() int { return 1 }", Body: `emit(fmt.Sprint(f()))`}})
//
// Every snippet becomes   package sN; import (...); <Decls>; func Run(emit func(string)) { <Body> }
// and its output is the list of emitted strings joined by "\n"; a run-time panic appends a
// line "PANIC: <value>".  go.mod says `go 1.21` (per-loop, not per-iteration, loop variables:
// the semantics gomacro implements).  Typical cost: 200 snippets ~ 10-20 s.

import (
	"bytes"
	"fmt"
	"os"
	"os/exec"
	"path/filepath"
	"strings"
	"time"
)

type Snippet struct {
	Imports []string // extra imports besides "fmt" (e.g. "strings"); unused imports are tolerated via _ = uses
	Decls   string   // package-level declarations
	Body    string   // body of func Run(emit func(string))
}

func runGoBatch(name string, snippets []Snippet) ([]string, error) {
	dir := workDir("gobatch-" + name)
	os.RemoveAll(dir)
	os.MkdirAll(dir, 0o755)
	defer os.RemoveAll(dir)
	if err := os.WriteFile(filepath.Join(dir, "go.mod"), []byte("module batch\n\ngo 1.21\n"), 0o644); err != nil {
		return nil, err
	}
	var main bytes.Buffer
	main.WriteString("package main\n\nimport (\n\t\"fmt\"\n\t\"os\"\n\t\"bufio\"\n")
	for i := range snippets {
		fmt.Fprintf(&main, "\ts%d \"batch/s%d\"\n", i, i)
	}
	main.WriteString(")\n\nvar w = bufio.NewWriter(os.Stdout)\n\n")
	main.WriteString("func run1(i int, f func(func(string))) {\n\tfmt.Fprintf(w, \"#BEGIN %d\\n\", i)\n\tdefer func() {\n\t\tif e := recover(); e != nil {\n\t\t\tfmt.Fprintf(w, \"PANIC: %v\\n\", e)\n\t\t}\n\t\tfmt.Fprintf(w, \"#END %d\\n\", i)\n\t}()\n\tf(func(s string) { fmt.Fprintln(w, s) })\n}\n\n")
	main.WriteString("func main() {\n\tdefer w.Flush()\n")
	for i := range snippets {
		fmt.Fprintf(&main, "\trun1(%d, s%d.Run)\n", i, i)
	}
	main.WriteString("}\n")
	if err := os.WriteFile(filepath.Join(dir, "main.go"), main.Bytes(), 0o644); err != nil {
		return nil, err
	}
	for i, s := range snippets {
		d := filepath.Join(dir, fmt.Sprintf("s%d", i))
		os.MkdirAll(d, 0o755)
		var b bytes.Buffer
		fmt.Fprintf(&b, "package s%d\n\nimport (\n\t\"fmt\"\n", i)
		for _, im := range s.Imports {
			if im != "fmt" {
				fmt.Fprintf(&b, "\t%q\n", im)
			}
		}
		b.WriteString(")\n\nvar _ = fmt.Sprint\n\n")
		b.WriteString(s.Decls)
		b.WriteString("\n\nfunc Run(emit func(string)) {\n")
		b.WriteString(s.Body)
		b.WriteString("\n}\n")
		if err := os.WriteFile(filepath.Join(d, "s.go"), b.Bytes(), 0o644); err != nil {
			return nil, err
		}
	}
	env := append(os.Environ(), "GOFLAGS=-mod=mod", "GOPROXY=off", "GOSUMDB=off", "GOTOOLCHAIN=local", "GO111MODULE=on")
	build := exec.Command("go", "build", "-gcflags=-e", "-o", "batch.bin", ".")
	build.Dir = dir
	build.Env = env
	if out, err := build.CombinedOutput(); err != nil {
		return nil, fmt.Errorf("go build of oracle batch failed: %v\n%s", err, truncate(string(out), 4000))
	}
	run := exec.Command(filepath.Join(dir, "batch.bin"))
	run.Dir = dir
	var stdout bytes.Buffer
	run.Stdout = &stdout
	run.Stderr = &stdout
	if err := run.Start(); err != nil {
		return nil, err
	}
	done := make(chan error, 1)
	go func() { done <- run.Wait() }()
	select {
	case <-done:
	case <-time.After(10 * time.Minute):
		run.Process.Kill()
		return nil, fmt.Errorf("oracle batch timed out")
	}
	outs := make([]string, len(snippets))
	cur := -1
	var acc []string
	for _, l := range strings.Split(stdout.String(), "\n") {
		var n int
		if _, err := fmt.Sscanf(l, "#BEGIN %d", &n); err == nil && strings.HasPrefix(l, "#BEGIN ") {
			cur, acc = n, nil
			continue
		}
		if _, err := fmt.Sscanf(l, "#END %d", &n); err == nil && strings.HasPrefix(l, "#END ") {
			if cur >= 0 && cur < len(outs) {
				outs[cur] = strings.Join(acc, "\n")
			}
			cur = -1
			continue
		}
		if cur >= 0 {
			acc = append(acc, l)
		}
	}
	return outs, nil
}
