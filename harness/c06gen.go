package main

// Program generators for C06.  Every program is a list of one-line top-level declarations
// defining `func main1() int` (or string); it must be valid Go, deterministic, terminate, and
// recover every panic itself.  No goroutines, no map iteration, no address/capture of the
// iteration variables of a range loop (pre-1.22 loop variable subtleties belong to C05).

import (
	"fmt"
	"math/rand"
	"strings"
)

// common helpers available to every fixed program
var c06Prelude = []string{
	`var gf []func() int`,
	`var gp []*int`,
	`func spoil(a, b, c int) int { x, y, z := a+1, b+2, c+3; s := "s"; return x + y + z + len(s) }`,
	`func churn(n int) int { t := 0; for i := 0; i < n; i++ { t += spoil(i, t, i*3) }; return t }`,
	`func rec(n int) int { v := n * 5; if n == 0 { return v }; return rec(n-1) + v }`,
	`func fold() int { h := 17; for k := 0; k < 2; k++ { for _, f := range gf { h = h*31 + f() }; for _, p := range gp { h = h*31 + *p; *p += 3 } }; return h }`,
}

var c06AddrKinds = []string{"int", "uint8", "float64", "bool", "complex128", "int16", "uint64", "float32", "uintptr"}

type c06Fixed struct {
	name  string
	decls func(p [3]int) []string
	grid  [3][]int
}

func c06FixedPrograms() []c06Fixed {
	kinds := c06AddrKinds
	return []c06Fixed{
		{"counter", func(p [3]int) []string {
			return []string{
				`func mk(n int) func() int { x := n; return func() int { x++; return x } }`,
				fmt.Sprintf(`func main1() int { var fs []func() int; for i := 0; i < %d; i++ { fs = append(fs, mk(i*10)); churn(%d) }; h := rec(%d); for k := 0; k < 3; k++ { for _, f := range fs { h = h*7 + f() } }; return h }`, p[0], p[1], p[2]),
			}
		}, [3][]int{{1, 3, 34}, {0, 3}, {0, 40}}},
		{"addr", func(p [3]int) []string {
			k := kinds[p[0]]
			conv, back := k+"(n)", "int(*p)"
			switch k {
			case "bool":
				conv, back = "n%2 == 0", "b2i(*p)"
			case "complex128":
				conv, back = "complex(float64(n), float64(n+1))", "int(real(*p)) + 2*int(imag(*p))"
			}
			return []string{
				`func b2i(b bool) int { if b { return 1 }; return 0 }`,
				fmt.Sprintf(`func ad(n int) *%s { a := n + 100; y := %s; b := n + 200; _ = a; _ = b; return &y }`, k, conv),
				fmt.Sprintf(`func ad2(n int) (*%s, *int) { a := n + 100; y := %s; { z := n * 3; if n%%2 == 0 { return &y, &z } }; return &y, &a }`, k, conv),
				fmt.Sprintf(`func main1() int { var ps []*%s; var qs []*int; for i := 0; i < %d; i++ { ps = append(ps, ad(i)); p, q := ad2(i + 50); ps = append(ps, p); qs = append(qs, q); churn(%d) }; h := rec(%d); for _, p := range ps { h = h*7 + %s }; for _, q := range qs { h = h*7 + *q }; return h }`, k, p[1], 36/p[1]/6, 3+p[1], back),
			}
		}, [3][]int{{0, 1, 2, 3, 4, 5, 6, 7, 8}, {2, 34}, {0}}},
		{"loopclos", func(p [3]int) []string {
			return []string{
				fmt.Sprintf(`func lc(n int) int { t := 0; for i := 0; i < n; i++ { x := i * 3; s := "v"; if i%%%d == 0 { gf = append(gf, func() int { x += len(s); s += "w"; return x }) }; if i%%%d == 1 { gp = append(gp, &x) }; for j := 0; j < 2; j++ { y := x + j; if j == 1 { gf = append(gf, func() int { y++; x++; return x + y }) }; t += y } }; return t }`, 1+p[1], 2+p[1]),
				fmt.Sprintf(`func main1() int { h := lc(%d); h += churn(%d); h += lc(3); return h*31 + fold() }`, p[0], p[2]),
			}
		}, [3][]int{{2, 5, 36}, {0, 1, 2}, {0, 34}}},
		{"deeprec", func(p [3]int) []string {
			return []string{
				fmt.Sprintf(`func deep(n int, acc *[]func() int) int { v := n * 3; var u uint8 = uint8(n); if n%%%d == 0 { *acc = append(*acc, func() int { v++; u += 2; return v + int(u) }) }; if n%%%d == 0 { gp = append(gp, &v) }; if n == 0 { return v }; r := deep(n-1, acc); return r + v + int(u) }`, p[1], p[2]),
				fmt.Sprintf(`func main1() int { var fs []func() int; a := deep(%d, &fs); b := churn(34); c := deep(%d, &fs); h := a + b + c; for _, f := range fs { h = h*3 + f() }; return h*31 + fold() }`, p[0], p[0]/2+1),
			}
		}, [3][]int{{5, 40}, {1, 4}, {1, 5, 9}}},
		{"panic", func(p [3]int) []string {
			return []string{
				fmt.Sprintf(`func pan(n int) (res int) { defer func() { if e := recover(); e != nil { res = e.(int) + n } }(); w := n + 1; if n%%%d == 0 { gf = append(gf, func() int { w += 2; return w }) }; if n > %d { q := &w; gp = append(gp, q); { z := n * 2; gp = append(gp, &z); panic(n*10 + z) } }; return pan(n+1) + w }`, 1+p[1], p[0]),
				`func pan2(n int) int { v := n; if n == 0 { panic(7) }; for i := 0; i < 2; i++ { k := i + n; if i == 1 { return pan2(n-1) + k + v } }; return 0 }`,
				`func catch(n int) (r int) { x := n * 2; defer func() { e := recover(); r = x + e.(int) }(); r = pan2(n); return r }`,
				fmt.Sprintf(`func main1() int { h := pan(0); h = h*31 + catch(%d); h += churn(%d); h = h*31 + catch(3) + pan(1); return h*31 + fold() }`, 1+p[0], p[2]),
			}
		}, [3][]int{{2, 5, 36}, {0, 2}, {0, 34}}},
		{"named", func(p [3]int) []string {
			return []string{
				`func nr(a int) (r int, s string) { p := &r; defer func() { *p += 5; s += "!" }(); gp = append(gp, p); r = a; s = "k"; return r * 2, s + "x" }`,
				`func nr2(a int) (x, y int, f func() int) { x = a; y = a * 2; f = func() int { x++; return x + y }; return }`,
				`func nr3(a int) (r int) { defer func() { r *= 2 }(); { b := a + 1; if b > 2 { return b } }; return a }`,
				fmt.Sprintf(`func main1() int { h := 0; for i := 0; i < %d; i++ { r, s := nr(i); x, y, f := nr2(i); gf = append(gf, f); h = h*7 + r + len(s) + x + y + nr3(i); churn(%d) }; return h*31 + fold() }`, p[0], p[1]),
			}
		}, [3][]int{{1, 4, 35}, {0, 3}, {0}}},
		{"variadic", func(p [3]int) []string {
			return []string{
				`func vari(xs ...int) func() int { t := 0; for _, x := range xs { y := x; gf = append(gf, func() int { y += t; return y }); t += x }; return func() int { return t + len(xs) } }`,
				`func vs(pre string, xs ...string) (n int, g func() string) { j := pre; for _, x := range xs { j += x }; n = len(xs); g = func() string { j += "."; return j }; return }`,
				fmt.Sprintf(`func main1() int { a := vari(); b := vari(1, 2, 3, 4); xs := []int{5, 6, 7}; c := vari(xs...); n, g := vs("p", "a", "bc"); churn(%d); h := a()*5 + b()*3 + c() + n; g(); h += len(g()); return h*31 + fold() }`, p[0]),
			}
		}, [3][]int{{0, 5, 34}, {0}, {0}}},
		{"method", func(p [3]int) []string {
			return []string{
				`type T struct { v int; f func() int }`,
				`func (t *T) inc(a int) int { t.v += a; return t.v }`,
				`func (t T) get(a int) int { return t.v + a }`,
				`func (t *T) mk(a int) func() int { b := a * 2; return func() int { b++; t.v++; return b + t.v } }`,
				`func newT(n int) *T { x := n; t := &T{v: n}; t.f = func() int { x += 3; return x + t.v }; return t }`,
				fmt.Sprintf(`func main1() int { h := 0; var ms []func(int) int; for i := 0; i < %d; i++ { t := newT(i); m := t.inc; tc := *t; g := tc.get; ms = append(ms, m, g); gf = append(gf, t.f, t.mk(i)); h += T.get(*t, 1) + (*T).inc(t, 2); churn(%d) }; for _, m := range ms { h = h*3 + m(2) }; return h*31 + fold() }`, p[0], p[1]),
			}
		}, [3][]int{{1, 4, 34}, {0, 3}, {0}}},
		{"callback", func(p [3]int) []string {
			return []string{
				`func apply(n int, f func(int) int) int { a := 1; for i := 0; i < n; i++ { b := f(a + i); a = b + 1 }; return a }`,
				`func compose(f, g func(int) int) func(int) int { return func(x int) int { return g(f(x)) } }`,
				`func adder(k int) func(int) int { s := 0; return func(x int) int { s += x; gp = append(gp, &s); return s + k } }`,
				fmt.Sprintf(`func main1() int { f := adder(2); g := compose(f, adder(5)); h := apply(%d, g); h += apply(3, func(x int) int { y := x * 2; return apply(2, func(z int) int { y += z; return y }) }); churn(%d); h += apply(2, f); return h*31 + fold() }`, p[0], p[1]),
			}
		}, [3][]int{{1, 5, 36}, {0, 34}, {0}}},
		{"jump", func(p [3]int) []string {
			return []string{
				fmt.Sprintf(`func jm(n int) int { t := 0; outer: for i := 0; i < n; i++ { a := i * 2; for j := 0; j < 3; j++ { b := a + j; if b%%%d == 0 { gf = append(gf, func() int { b++; return a + b }); continue outer }; if b%%5 == 4 { gp = append(gp, &b); break }; if b == 11 { break outer }; { c := b * 2; if c%%7 == 3 { t += c; continue }; if c == 26 { return t + c } }; t += b } }; return t }`, 2+p[1]),
				`func sw(n int) int { switch x := n * 2; { case x > 6: y := x + 1; gp = append(gp, &y); return y; case x > 2: z := x; gf = append(gf, func() int { z--; return z }); fallthrough; default: w := x + 3; return w }; return 0 }`,
				fmt.Sprintf(`func main1() int { h := jm(%d); for i := 0; i < 6; i++ { h = h*3 + sw(i) }; churn(%d); h += jm(4); return h*31 + fold() }`, p[0], p[2]),
			}
		}, [3][]int{{3, 8, 20}, {0, 1, 2}, {0, 34}}},
		{"interleave", func(p [3]int) []string {
			return []string{
				`func gen(seed int) (next func() int, peek func() *int) { s := seed; next = func() int { s = s*5 + 1; return s }; peek = func() *int { c := s; return &c }; return }`,
				fmt.Sprintf(`func main1() int { n1, p1 := gen(1); n2, p2 := gen(2); h := 0; for i := 0; i < %d; i++ { a := n1(); gp = append(gp, p1()); b := n2(); if i%%2 == 0 { n3, p3 := gen(a); gf = append(gf, n3); gp = append(gp, p3()) }; gp = append(gp, p2()); h = h*3 + a - b + rec(%d) }; return h*31 + fold() }`, p[0], p[1]),
			}
		}, [3][]int{{2, 6, 12}, {0, 3, 34}, {0}}},
		{"strings", func(p [3]int) []string {
			return []string{
				`var gs []func() string`,
				`func sm(a string, n int) (func() string, *string) { s := a; u := a + "u"; for i := 0; i < n; i++ { t := s + "i"; gs = append(gs, func() string { t += "x"; return t }); s = t }; return func() string { s += "y"; return s + u }, &u }`,
				fmt.Sprintf(`func main1() string { f, p := sm("a", %d); churn(%d); g, q := sm("b", 2); r := f() + g() + *p + *q; *p += "z"; for _, h := range gs { r += h() }; return r + f() }`, p[0], p[1]),
			}
		}, [3][]int{{1, 4, 34}, {0, 34}, {0}}},
		{"addrdepth", func(p [3]int) []string {
			// &x of a local / parameter of every Env.Ints kind, taken from inside 0..5 runtime block frames
			// (blocks, for-init frames, loop bodies and if/switch-init frames that declare variables),
			// no closure captures the frame, the pointer escapes, later calls recycle the frames
			k := c06AddrKinds[p[0]]
			conv := func(e string) string {
				switch k {
				case "bool":
					return "(" + e + ")%2 == 0"
				case "complex128":
					return "complex(float64(" + e + "), 1)"
				}
				return k + "(" + e + ")"
			}
			back := "int(*q)"
			bump := "*q += 3"
			switch k {
			case "bool":
				back, bump = "b2i(*q)", "*q = !*q"
			case "complex128":
				back, bump = "int(real(*q)) + 2*int(imag(*q))", "*q += 3"
			}
			decls := []string{
				`func b2i(b bool) int { if b { return 1 }; return 0 }`,
				fmt.Sprintf(`var gpk []*%s`, k),
				fmt.Sprintf(`func wr(n int) int { a := %s; b := %s; c, d, e := n + 1, n + 2, n + 3; _ = a; _ = b; return c + d + e }`, conv("n + 40"), conv("n + 41")),
			}
			var calls []string
			nf := 0
			add := func(param bool, open, close string) {
				name := fmt.Sprintf("ad%d", nf)
				nf++
				if param {
					decls = append(decls, fmt.Sprintf(`func %sx(x %s, n int) { %s gpk = append(gpk, &x); %s }`, name, k, open, close))
					decls = append(decls, fmt.Sprintf(`func %s(n int) { %sx(%s, n) }`, name, name, conv("n")))
				} else {
					decls = append(decls, fmt.Sprintf(`func %s(n int) { y := n + 1; x := %s; z := n + 2; _ = y; _ = z; %s gpk = append(gpk, &x); %s }`, name, conv("n"), open, close))
				}
				calls = append(calls, name)
			}
			blk := func(i int) (string, string) {
				switch p[1] {
				case 0: // plain blocks
					return fmt.Sprintf("{ j%d := n + %d; _ = j%d; ", i, i, i), "}; "
				case 1: // for loops: init frame, every second one with a body frame too
					if i%2 == 0 {
						return fmt.Sprintf("for i%d := 0; i%d < 1; i%d++ { ", i, i, i), "}; "
					}
					return fmt.Sprintf("{ j%d := n + %d; if j%d >= n { ", i, i, i), "} }; "
				default: // if / switch with init
					if i%2 == 0 {
						return fmt.Sprintf("if t%d := n + %d; t%d >= n { ", i, i, i), "}; "
					}
					return fmt.Sprintf("switch s%d := n + %d; { case s%d >= n: w%d := s%d; _ = w%d; ", i, i, i, i, i, i), "}; "
				}
			}
			for d := 0; d <= 5; d++ {
				open, close := "", ""
				for i := 0; i < d; i++ {
					o, c := blk(i)
					open += o
					close = c + close
				}
				add(false, open, close)
				add(true, open, close)
			}
			// the seed shape: for-init frame + loop body declaring its own variable
			add(false, "for i := 0; i < 1; i++ { j := i + 1; if j > 0 { ", "} }; ")
			add(true, "for i := 0; i < 2; i++ { j := i + n; if j >= n { ", "} }; ")
			var body strings.Builder
			body.WriteString("func main1() int { h := 0; for r := 0; r < 3; r++ { ")
			for i, c := range calls {
				fmt.Fprintf(&body, "%s(r*20 + %d); h += wr(r); ", c, i)
			}
			fmt.Fprintf(&body, "h += churn(%d) }; h += rec(34); for k := 0; k < 2; k++ { for _, q := range gpk { h = h*31 + %s; %s } }; return h }", p[2], back, bump)
			return append(decls, body.String())
		}, [3][]int{{0, 1, 2, 3, 4, 5, 6, 7, 8}, {0, 1, 2}, {3}}},
		{"valaddr", func(p [3]int) []string {
			// addresses of variables that live in Env.Vals (struct, string, slice, func, interface): parameters of
			// generic functions, receivers, variadic parameters, variables declared from multi-valued calls;
			// the pointers escape, no closure captures the frames, the same functions run again on recycled frames
			return []string{
				`type Pt struct { X, Y int }`,
				`var gpt []*Pt`,
				`var gstr []*string`,
				`var gsl []*[]int`,
				`var gif []*interface{}`,
				`func aPt(p Pt) *Pt { return &p }`,
				`func aPt2(p, q Pt) (*Pt, *Pt) { return &q, &p }`,
				`func aStr(s string) *string { return &s }`,
				`func aStrN(n int, s string) *string { t := s; { u := n; _ = u; return &t } }`,
				`func aSl(xs []int) *[]int { return &xs }`,
				`func aV(xs ...int) *[]int { return &xs }`,
				`func aIf(v interface{}) *interface{} { return &v }`,
				`func (p Pt) self() *Pt { return &p }`,
				`func (p *Pt) cp() *Pt { q := *p; return &q }`,
				`func two(i int) (string, Pt) { return "a" + string(rune('0'+i)), Pt{i, i * 2} }`,
				`func three(i int) (Pt, []int, string) { return Pt{i + 7, 0}, []int{i}, "t" }`,
				`func multi(n int) { for i := 0; i < n; i++ { s, p := two(i); gstr = append(gstr, &s); gpt = append(gpt, &p) } }`,
				`func multi3(n int) { p, xs, s := three(n); gpt = append(gpt, &p); gsl = append(gsl, &xs); gstr = append(gstr, &s); var q Pt; var t string; q, t = Pt{n, n}, "v"; gpt = append(gpt, &q); gstr = append(gstr, &t) }`,
				`func nres(n int) (r Pt, s string, pr *Pt, ps *string) { pr = &r; ps = &s; r.X = n; s = "n"; return }`,
				`func loc(n int) { p := Pt{n, 1}; s := "l"; xs := []int{n, n}; gpt = append(gpt, &p); gstr = append(gstr, &s); gsl = append(gsl, &xs) }`,
				fmt.Sprintf(`func main1() int { for r := 0; r < %d; r++ { gpt = append(gpt, aPt(Pt{r + 1, 2}), aPt(Pt{r + 3, 4})); a, b := aPt2(Pt{r + 5, 0}, Pt{r + 6, 0}); gpt = append(gpt, a, b, Pt{r + 8, 0}.self(), a.cp()); gstr = append(gstr, aStr("x"), aStr("yy"), aStrN(r, "zzz")); gsl = append(gsl, aSl([]int{r}), aSl([]int{r, r}), aV(r, 1, 2), aV()); gif = append(gif, aIf(r), aIf("s")); multi(2); multi3(r); _, _, pr, ps := nres(r + 20); gpt = append(gpt, pr); gstr = append(gstr, ps); loc(r + 30); churn(%d) }; h := rec(34); dup := 0; for i := range gpt { for j := range gpt { if i != j && gpt[i] == gpt[j] { dup++ } } }; for i := range gstr { for j := range gstr { if i != j && gstr[i] == gstr[j] { dup++ } } }; for i := range gsl { for j := range gsl { if i != j && gsl[i] == gsl[j] { dup++ } } }; for k := 0; k < 2; k++ { for _, q := range gpt { h = h*31 + q.X + q.Y; q.X += 5 }; for _, q := range gstr { h = h*31 + len(*q); *q += "+" }; for _, q := range gsl { h = h*31 + len(*q); *q = append(*q, 1) }; for _, q := range gif { if n, ok := (*q).(int); ok { h = h*31 + n; *q = n + 1 } else { h = h*31 + 7 } } }; return h*1000 + dup }`, p[0], p[1]),
			}
		}, [3][]int{{2, 5}, {0, 3}, {0}}},
		{"arity", func(p [3]int) []string {
			// one function per call specialisation: 0/1/2/3 parameters x 0/1/2 results, basic and non-basic kinds
			return []string{
				`type MyInt int`,
				`var acc int`,
				`func f00() { x := acc + 1; acc = x }`,
				`func f01() int { x := acc * 2; return x + 1 }`,
				`func f10(a int) { x := a + acc; acc = x }`,
				`func f10s(xs []int) { t := len(xs); acc += t }`,
				`func f10m(m MyInt) { t := int(m) * 2; acc += t }`,
				`func f10f(f func() int) { t := f(); acc += t }`,
				`func f11(a int) int { x := a + 1; return x * 2 }`,
				`func f11s(a string) string { x := a + "x"; return x + a }`,
				`func f11f(a float64) float64 { x := a * 2; return x + 1 }`,
				`func f11b(a bool) bool { x := !a; return x }`,
				`func f11u(a uint8) uint16 { x := uint16(a) * 3; return x }`,
				`func f11m(a MyInt) MyInt { x := a + 1; return x }`,
				`func f20(a int, b string) { x := a + len(b); acc += x }`,
				`func f20x(xs []int, b int) { x := len(xs) + b; acc += x }`,
				`func f20f(a float64, b uint8) { x := int(a) + int(b); acc += x }`,
				`func f21(a, b int) int { x := a * b; return x + 1 }`,
				`func f12(a int) (int, string) { x := a + 1; return x, "s" }`,
				`func f30(a, b, c int) { x := a + b + c; acc += x }`,
				`func f31(a int, b string, c float64) int { x := a + len(b) + int(c); return x }`,
				`func mkc(k int) (func(), func(int), func(int) int, func(int, int)) { s := k; return func() { s++ }, func(a int) { s += a }, func(a int) int { s += a; return s }, func(a, b int) { s += a * b } }`,
				fmt.Sprintf(`func main1() int { c0, c1, c11, c2 := mkc(3); h := 0; for i := 0; i < %d; i++ { f00(); f10(i); f10s([]int{i}); f10m(MyInt(i)); f10f(f01); f20(i, "ab"); f20x(nil, i); f20f(1.5, 2); f30(i, 1, 2); c0(); c1(i); c2(i, 2); a, b := f12(i); h = h*3 + f01() + f11(i) + len(f11s("q")) + int(f11f(2)) + int(f11u(7)) + int(f11m(4)) + f21(i, 2) + a + len(b) + f31(i, "z", 2.5) + c11(1); if f11b(i%%2 == 0) { h++ }; churn(%d) }; return h*31 + acc }`, p[0], p[1]),
			}
		}, [3][]int{{1, 12}, {0, 3}, {0}}},
		{"ptrmethod", func(p [3]int) []string {
			return []string{
				`type N int`,
				`func (n *N) inc() int { *n++; return int(*n) }`,
				`func pm(a int) func() int { var x N = N(a); x.inc(); return x.inc }`,
				fmt.Sprintf(`func main1() int { f := pm(%d); churn(%d); return f()*100 + f() }`, p[0], p[1]),
			}
		}, [3][]int{{5}, {0, 34}, {0}}},
		{"mvalcopy", func(p [3]int) []string {
			return []string{
				`type T struct { v int }`,
				`func (t T) get(a int) int { return t.v + a }`,
				fmt.Sprintf(`func main1() int { t := &T{v: %d}; g := t.get; u := T{v: 7}; k := u.get; t.v = 100; u.v = 200; churn(%d); return g(0)*1000 + k(0) }`, p[0], p[1]),
			}
		}, [3][]int{{1}, {0, 34}, {0}}},
		{"blankassign", func(p [3]int) []string {
			return []string{
				fmt.Sprintf(`func main1() int { a, b := %d, 2; var c int; _, _ = a, b; _, c = a, b; churn(%d); return a + c }`, p[0], p[1]),
			}
		}, [3][]int{{1}, {0}, {0}}},
	}
}

func c06Gen(r *rand.Rand, tier string, prog func(name string, decls []string, maxOps int) bool) {
	for _, f := range c06FixedPrograms() {
		for _, a := range f.grid[0] {
			for _, b := range f.grid[1] {
				for _, c := range f.grid[2] {
					decls := append(append([]string{}, c06Prelude...), f.decls([3]int{a, b, c})...)
					name := f.name
					if name == "addr" {
						name = "addr-" + c06AddrKinds[a]
					}
					prog(name, decls, 0)
				}
			}
		}
	}
	// random programs; a program whose real run produces more than maxOps monitor operations
	// is dropped (deterministically: generation and execution are deterministic)
	n, maxOps := 120, 700
	if tier == "thorough" {
		n, maxOps = 1500, 900
	}
	for i, tries := 0, 0; i < n && tries < 6*n; tries++ {
		g := &c06RandGen{r: r}
		if prog("rand", g.program(), maxOps) {
			i++
		}
	}
}

// ---------------------------------------------------------------------------------------------
// random programs

type c06Var struct {
	name string
	kind string // int, uint8, float64, string
	ro   bool   // loop counter: never assigned by generated statements
}

type c06Scope struct {
	vars   []c06Var // visible variables (all assignable), innermost last
	closs  []string // visible func(int) int variables
	inLoop bool
	label  string // enclosing labelled loop ("" if none)
	depth  int    // statement nesting depth
	fdepth int    // function literal nesting depth
	ret    string // statement that returns from the enclosing function
	named  string // named int result of the enclosing function ("" if none)
}

type c06RandGen struct {
	r     *rand.Rand
	nvar  int
	nfun  int
	funcs []string // names of generated top-level functions callable as f(d, a) int
	budget int
}

func (g *c06RandGen) fresh(prefix string) string {
	g.nvar++
	return fmt.Sprintf("%s%d", prefix, g.nvar)
}

func (g *c06RandGen) pick(n int) int { return g.r.Intn(n) }

// expr yields an int expression over the visible variables
func (g *c06RandGen) expr(sc *c06Scope, depth int) string {
	if depth <= 0 || g.pick(3) == 0 {
		switch g.pick(4) {
		case 0:
			return fmt.Sprint(g.pick(9) + 1)
		case 1:
			return "a"
		default:
			if len(sc.vars) > 0 {
				return g.asInt(sc.vars[len(sc.vars)-1-g.pick(min(len(sc.vars), 5))])
			}
			return "d"
		}
	}
	x, y := g.expr(sc, depth-1), g.expr(sc, depth-1)
	switch g.pick(6) {
	case 0:
		return "(" + x + " + " + y + ")"
	case 1:
		return "(" + x + " - " + y + ")"
	case 2:
		return "(" + x + "*3 + " + y + ")"
	case 3:
		return "(" + x + ")%7"
	case 4:
		// no calls inside expressions: Go leaves the order of a variable read and a call
		// that may change the variable unspecified
		return "(" + x + " + 1)"
	default:
		return "(" + x + " ^ " + y + ")"
	}
}

func (g *c06RandGen) asInt(v c06Var) string {
	switch v.kind {
	case "int":
		return v.name
	case "string":
		return "len(" + v.name + ")"
	default:
		return "int(" + v.name + ")"
	}
}

// small keeps a value in a range where every conversion is exact
func (g *c06RandGen) conv(kind, e string) string {
	switch kind {
	case "int":
		return e
	case "uint8":
		return "uint8(a*0 + " + e + ")"
	case "float64":
		return "float64((" + e + ")%1000)"
	case "string":
		return `"s" + string(rune('a'+((` + e + `)%5+5)%5))`
	}
	return e
}

func (g *c06RandGen) assign(v c06Var, e string) string {
	if v.ro {
		return "a += " + e
	}
	switch v.kind {
	case "string":
		return fmt.Sprintf(`if len(%s) < 40 { %s += %s }`, v.name, v.name, g.conv("string", e))
	case "float64":
		return fmt.Sprintf(`%s = %s`, v.name, g.conv("float64", e))
	default:
		return fmt.Sprintf(`%s += %s`, v.name, g.conv(v.kind, e))
	}
}

func (g *c06RandGen) kind() string {
	switch g.pick(8) {
	case 0:
		return "uint8"
	case 1:
		return "float64"
	case 2, 3:
		return "string"
	}
	return "int"
}

func (g *c06RandGen) stmts(sc *c06Scope, n int) string {
	var sb strings.Builder
	local := *sc
	local.vars = append([]c06Var{}, sc.vars...)
	local.closs = append([]string{}, sc.closs...)
	for i := 0; i < n; i++ {
		sb.WriteString(g.stmt(&local))
		sb.WriteString("; ")
	}
	// use every local so that Go does not reject unused variables
	for _, v := range local.vars[len(sc.vars):] {
		fmt.Fprintf(&sb, "_ = %s; ", v.name)
	}
	for _, c := range local.closs[len(sc.closs):] {
		fmt.Fprintf(&sb, "_ = %s; ", c)
	}
	return sb.String()
}

func (g *c06RandGen) closureBody(sc *c06Scope, param string) string {
	inner := *sc
	inner.inLoop, inner.label = false, ""
	inner.depth = sc.depth + 1
	inner.fdepth = sc.fdepth + 1
	inner.named = ""
	inner.ret = "return " + g.expr(sc, 1)
	body := ""
	if sc.fdepth < 2 && sc.depth < 4 {
		body = g.stmts(&inner, 1+g.pick(2))
	}
	// always mutate a captured variable so that sharing by reference is observable
	if len(sc.vars) > 0 {
		v := sc.vars[len(sc.vars)-1-g.pick(min(len(sc.vars), 4))]
		body += g.assign(v, param) + "; "
	}
	return body + "return " + g.expr(sc, 2)
}

func (g *c06RandGen) stmt(sc *c06Scope) string {
	g.budget--
	deep := sc.depth >= 4 || g.budget < 0
	choice := g.pick(20)
	if deep && choice >= 9 {
		choice = g.pick(9)
	}
	switch choice {
	case 0, 1: // new variable
		k := g.kind()
		v := c06Var{g.fresh("v"), k, false}
		s := fmt.Sprintf("%s := %s", v.name, g.conv(k, g.expr(sc, 2)))
		sc.vars = append(sc.vars, v)
		return s
	case 2: // assignment
		if len(sc.vars) > 0 {
			return g.assign(sc.vars[g.pick(len(sc.vars))], g.expr(sc, 2))
		}
		return "a += 1"
	case 3: // address of an int-like local escapes
		var cands []c06Var
		for _, v := range sc.vars {
			if v.kind == "int" && !v.ro {
				cands = append(cands, v)
			}
		}
		if len(cands) > 0 {
			return "gp = append(gp, &" + cands[g.pick(len(cands))].name + ")"
		}
		return "a += 2"
	case 4: // address of other kinds
		for _, v := range sc.vars {
			switch v.kind {
			case "uint8":
				return "gp8 = append(gp8, &" + v.name + ")"
			case "float64":
				return "gpf = append(gpf, &" + v.name + ")"
			case "string":
				return "gps = append(gps, &" + v.name + ")"
			}
		}
		return "a += 3"
	case 5: // closure escapes through the global slice
		return "gf = append(gf, func() int { " + g.closureBody(sc, "1") + " })"
	case 6: // local closure variable
		c := g.fresh("c")
		s := fmt.Sprintf("%s := func(p int) int { %s }", c, g.closureBody(sc, "p"))
		sc.closs = append(sc.closs, c)
		return s
	case 7: // call of a top level function
		if len(g.funcs) > 0 {
			f := g.funcs[g.pick(len(g.funcs))]
			return fmt.Sprintf("if d > 0 && fuel > 0 { fuel--; t := %s(d-1, %s); a += t }", f, g.expr(sc, 1))
		}
		return "a += 4"
	case 8: // callback
		if len(sc.closs) > 0 {
			c := sc.closs[g.pick(len(sc.closs))]
			if g.pick(2) == 0 {
				return fmt.Sprintf("{ t := %s(%s); a += t }", c, g.expr(sc, 1))
			}
			return fmt.Sprintf("{ t := apply(%d, %s); a += t }", 1+g.pick(3), c)
		}
		return "{ t := spoil(a, 1, 2); a += t }"
	case 9, 10: // for loop with its own block frame
		inner := *sc
		inner.inLoop = true
		inner.depth++
		i := g.fresh("i")
		lbl := ""
		if g.pick(3) == 0 {
			lbl = g.fresh("L")
			inner.label = lbl
		}
		inner.vars = append(append([]c06Var{}, sc.vars...), c06Var{i, "int", true})
		body := g.stmts(&inner, 2+g.pick(3))
		if lbl != "" {
			return fmt.Sprintf("%s: for %s := 0; %s < %d; %s++ { if a == -98765 { continue %s }; %s }", lbl, i, i, 1+g.pick(4), i, lbl, body)
		}
		return fmt.Sprintf("for %s := 0; %s < %d; %s++ { %s }", i, i, 1+g.pick(4), i, body)
	case 11: // plain block
		inner := *sc
		inner.depth++
		return "{ " + g.stmts(&inner, 1+g.pick(3)) + "}"
	case 12: // if / else
		inner := *sc
		inner.depth++
		return fmt.Sprintf("if (%s)%%%d == 0 { %s} else { %s}", g.expr(sc, 2), 2+g.pick(3), g.stmts(&inner, 1+g.pick(2)), g.stmts(&inner, 1+g.pick(2)))
	case 13: // leave blocks without releasing them
		if sc.inLoop {
			switch g.pick(4) {
			case 0:
				return fmt.Sprintf("if (%s)%%3 == 0 { break }", g.expr(sc, 1))
			case 1:
				if sc.label != "" {
					return fmt.Sprintf("if (%s)%%3 == 1 { continue %s }", g.expr(sc, 1), sc.label)
				}
				fallthrough
			case 2:
				return fmt.Sprintf("if (%s)%%3 == 1 { continue }", g.expr(sc, 1))
			default:
				if sc.label != "" {
					return fmt.Sprintf("if (%s)%%4 == 2 { break %s }", g.expr(sc, 1), sc.label)
				}
			}
		}
		return fmt.Sprintf("if (%s)%%5 == 0 { %s }", g.expr(sc, 1), sc.ret)
	case 14: // switch with init
		inner := *sc
		inner.depth++
		y := g.fresh("y")
		inner.vars = append(append([]c06Var{}, sc.vars...), c06Var{y, "int", false})
		return fmt.Sprintf("switch %s := ((%s)%%3+3)%%3; %s { case 0: %s; case 1: %s; default: %s }", y, g.expr(sc, 1), y, g.stmts(&inner, 1+g.pick(2)), g.stmts(&inner, 1), g.stmts(&inner, 1))
	case 15: // range over a literal; the iteration variables are copied first
		inner := *sc
		inner.inLoop, inner.label = true, ""
		inner.depth++
		w := g.fresh("w")
		inner.vars = append(append([]c06Var{}, sc.vars...), c06Var{w, "int", false})
		return fmt.Sprintf("for _, e := range []int{%s, %s, 3} { %s := e; _ = %s; %s}", g.expr(sc, 1), g.expr(sc, 1), w, w, g.stmts(&inner, 1+g.pick(3)))
	case 16: // panic, always recovered by a caller
		return fmt.Sprintf("if (%s)%%11 == 0 { panic(%s) }", g.expr(sc, 1), g.expr(sc, 1))
	case 17: // defer a closure that touches locals (and the named result)
		if sc.fdepth == 0 && !sc.inLoop {
			body := ""
			if len(sc.vars) > 0 {
				body = g.assign(sc.vars[g.pick(len(sc.vars))], "2") + "; "
			}
			if sc.named != "" {
				body += sc.named + " += " + g.expr(sc, 1) + "; "
			}
			return "defer func() { " + body + "}()"
		}
		return "a += 5"
	case 18: // method value / struct
		t := g.fresh("t")
		return fmt.Sprintf("%s := &T{v: %s}; gf = append(gf, %s.mk(a)); gm = append(gm, %s.inc)", t, g.expr(sc, 1), t, t)
	default: // closure returned by a closure
		c := g.fresh("c")
		s := fmt.Sprintf("%s := func(p int) func(int) int { q := p + %s; return func(z int) int { q += z; return q } }(%s)", c, g.expr(sc, 1), g.expr(sc, 1))
		sc.closs = append(sc.closs, c)
		return s
	}
}

func (g *c06RandGen) function(idx int) string {
	name := fmt.Sprintf("f%d", idx)
	sc := &c06Scope{}
	g.budget = 14 + g.pick(14)
	var head, tail string
	switch g.pick(5) {
	case 0: // named result + recover
		sc.named = "r"
		sc.ret = "return a"
		head = fmt.Sprintf("func %s(d int, a int) (r int) { defer func() { if e := recover(); e != nil { r += e.(int) %% 1000 } }(); ", name)
		tail = "r += a; return r }"
	case 1: // variadic helper behind the uniform signature
		sc.ret = "return a"
		head = fmt.Sprintf("func %sv(d int, xs ...int) int { a := len(xs); for _, x := range xs { a += x }; ", name)
		tail = fmt.Sprintf("return a }; func %s(d int, a int) int { return %sv(d, a, a+1, a+2) }", name, name)
	case 2: // multiple results
		sc.ret = "return a, nil"
		head = fmt.Sprintf("func %sm(d int, a int) (int, func(int) int) { ", name)
		tail = fmt.Sprintf("return a, func(p int) int { a += p; return a } }; func %s(d int, a int) int { x, f := %sm(d, a); if f != nil { x += f(1) }; return x }", name, name)
	case 3: // method
		sc.ret = "return a"
		head = fmt.Sprintf("func (t *T) %s(d int, a int) int { a += t.v; ", name)
		tail = fmt.Sprintf("t.v = a; return a + t.v }; func %s(d int, a int) int { t := T{v: a}; return t.%s(d, a+1) }", name, name)
	default:
		sc.ret = "return a"
		head = fmt.Sprintf("func %s(d int, a int) int { ", name)
		tail = "return a }"
	}
	body := g.stmts(sc, 3+g.pick(5))
	return head + body + tail
}

func (g *c06RandGen) program() []string {
	decls := []string{
		`type T struct { v int; f func() int }`,
		`func (t *T) inc(a int) int { t.v += a; return t.v }`,
		`func (t *T) mk(a int) func() int { b := a * 2; return func() int { b++; t.v++; return b + t.v } }`,
		`var gf []func() int`,
		`var fuel = 40`,
		`var gm []func(int) int`,
		`var gp []*int`,
		`var gp8 []*uint8`,
		`var gpf []*float64`,
		`var gps []*string`,
		`func spoil(a, b, c int) int { x, y, z := a+1, b+2, c+3; s := "s"; return x + y + z + len(s) }`,
		`func apply(n int, f func(int) int) int { a := 1; for i := 0; i < n; i++ { b := f(a + i); a = b%1000 + 1 }; return a }`,
		`func rec(n int) int { v := n * 5; if n == 0 { return v }; return rec(n-1) + v }`,
		`func safe(f func() int) (r int) { defer func() { if e := recover(); e != nil { r = e.(int) % 1000 } }(); return f() }`,
		`func fold() int { h := 17; for k := 0; k < 2; k++ { for _, f := range gf { h = h*31 + safe(f) }; for _, m := range gm { h = h*31 + m(k) }; for _, p := range gp { h = h*31 + *p; *p += 3 }; for _, p := range gp8 { h = h*31 + int(*p); *p += 3 }; for _, p := range gpf { h = h*31 + int(*p); *p = 7 }; for _, p := range gps { h = h*31 + len(*p); *p += "q" } }; return h }`,
	}
	nf := 2 + g.pick(4)
	for i := 0; i < nf; i++ {
		decls = append(decls, g.function(i))
		g.funcs = append(g.funcs, fmt.Sprintf("f%d", i))
	}
	var sb strings.Builder
	sb.WriteString("func stage() (h int) { defer func() { if e := recover(); e != nil { h += e.(int) % 1000 } }(); ")
	for i := 0; i < 3+g.pick(4); i++ {
		f := g.funcs[g.pick(len(g.funcs))]
		fmt.Fprintf(&sb, "h = h*3 + %s(%d, %d); ", f, 1+g.pick(3), g.pick(20))
		if g.pick(3) == 0 {
			fmt.Fprintf(&sb, "h += rec(%d); ", []int{3, 33, 40}[g.pick(3)])
		}
	}
	sb.WriteString("return h }")
	decls = append(decls, sb.String())
	decls = append(decls, `func main1() int { h := stage(); h = h*31 + fold(); for i := 0; i < 35; i++ { h += spoil(i, h, 2) }; return h*31 + stage() + fold() }`)
	return decls
}
