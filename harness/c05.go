package main

// C05: statement control flow.  One op = one structured program (S-expression, see lean/Drv/C05.lean):
//
//	prog <fuel> <stmt> <stmt> ...
//
// Exec renders the program as a Go function `func f() (v0, v1, v2, v3 int)`, runs it in the REAL fast
// interpreter (every atom `emit(tag, value)` appends to a trace) and returns "done <trace>|<results>".
// The Lean driver runs `Flat.run (compileTop s)` and `Ref.run s` on the same line.
// Oracle (Prepare): the same Go source compiled by the Go toolchain with go 1.21 semantics (runGoBatch).

import (
	"fmt"
	"math/rand"
	"os"
	"sort"
	"strings"
	"time"

	"github.com/cosmos72/gomacro/fast"
)

// ---------------------------------------------------------------- S-expressions

type sx struct {
	atom string
	list []*sx
	isl  bool
}

func (n *sx) String() string {
	if !n.isl {
		return n.atom
	}
	parts := make([]string, len(n.list))
	for i, c := range n.list {
		parts[i] = c.String()
	}
	return "(" + strings.Join(parts, " ") + ")"
}

func A(s string) *sx     { return &sx{atom: s} }
func Lst(c ...*sx) *sx   { return &sx{list: c, isl: true} }
func (n *sx) head() string {
	if n.isl && len(n.list) > 0 && !n.list[0].isl {
		return n.list[0].atom
	}
	return ""
}

func parseSx(src string) []*sx {
	var toks []string
	cur := ""
	flush := func() {
		if cur != "" {
			toks = append(toks, cur)
			cur = ""
		}
	}
	for _, ch := range src {
		switch ch {
		case '(', ')':
			flush()
			toks = append(toks, string(ch))
		case ' ':
			flush()
		default:
			cur += string(ch)
		}
	}
	flush()
	pos := 0
	var parseList func() []*sx
	parseList = func() []*sx {
		var out []*sx
		for pos < len(toks) {
			t := toks[pos]
			pos++
			switch t {
			case ")":
				return out
			case "(":
				out = append(out, &sx{list: parseList(), isl: true})
			default:
				out = append(out, A(t))
			}
		}
		return out
	}
	return parseList()
}

// ---------------------------------------------------------------- rendering to Go source

var c05runeVars = map[string]bool{}

func c05isRune(v string) bool { return v == "v6" || v == "v7" || c05runeVars[v] }

func c05collectRunes(ns []*sx) {
	for _, n := range ns {
		if !n.isl {
			continue
		}
		if n.head() == "rng" && n.list[2].atom == "str" && n.list[3].atom == ":" && c05opt(n.list[5]) != "" {
			c05runeVars[n.list[5].atom] = true
		}
		c05collectRunes(n.list)
	}
}

func c05expr(n *sx) string {
	if !n.isl {
		if strings.HasPrefix(n.atom, "v") {
			if c05isRune(n.atom) {
				return "int(" + n.atom + ")"
			}
			return n.atom
		}
		if strings.HasPrefix(n.atom, "-") {
			return "(" + n.atom + ")"
		}
		return n.atom
	}
	switch n.head() {
	case "+", "-":
		return "(" + c05expr(n.list[1]) + " " + n.head() + " " + c05expr(n.list[2]) + ")"
	case "tbl":
		var xs []string
		for _, c := range n.list[1].list {
			xs = append(xs, c.atom)
		}
		return "[]int{" + strings.Join(xs, ", ") + "}[" + c05expr(n.list[2]) + "]"
	}
	return "0"
}

func c05cond(n *sx) string {
	if !n.isl {
		if n.atom == "T" {
			return "true"
		}
		return "false"
	}
	if n.head() == "||" {
		return "(" + c05cond(n.list[1]) + " || " + c05cond(n.list[2]) + ")"
	}
	return c05expr(n.list[1]) + " " + n.head() + " " + c05expr(n.list[2])
}

func c05simple(n *sx) string { // init / post position (no trailing `_ = x`)
	if !n.isl {
		return ""
	}
	switch n.head() {
	case "=":
		return c05assign(n)
	case ":":
		return n.list[1].atom + " := " + c05expr(n.list[2])
	case "e":
		return "emit(" + n.list[1].atom + ", " + c05expr(n.list[2]) + ")"
	}
	return ""
}

func c05assign(n *sx) string {
	x, e := n.list[1].atom, n.list[2]
	if c05isRune(x) {
		return x + " = rune(" + c05expr(e) + ")"
	}
	// x = x + 1 / x = x - 1 are rendered as IncDec statements (Comp.IncDec) for odd variable numbers
	if e.isl && len(e.list) == 3 && !e.list[1].isl && e.list[1].atom == x && !e.list[2].isl && e.list[2].atom == "1" {
		odd := (x[len(x)-1]-'0')%2 == 1
		if e.head() == "+" && odd {
			return x + "++"
		}
		if e.head() == "-" && odd {
			return x + "--"
		}
		if e.head() == "+" {
			return x + " += 1"
		}
	}
	return x + " = " + c05expr(e)
}

func c05labels(n *sx, ind string) string {
	s := ""
	for _, l := range n.list {
		s += ind + l.atom + ":\n"
	}
	return s
}

func c05stmts(ns []*sx, ind string) string {
	var sb strings.Builder
	for _, n := range ns {
		sb.WriteString(c05stmt(n, ind))
	}
	return sb.String()
}

func c05opt(n *sx) string {
	if !n.isl && n.atom == "_" {
		return ""
	}
	return n.atom
}

func c05stmt(n *sx, ind string) string {
	if !n.isl {
		return ""
	}
	in2 := ind + "\t"
	switch n.head() {
	case "e", "=":
		return ind + c05simple(n) + "\n"
	case ":":
		x := n.list[1].atom
		if c05isRune(x) {
			return ind + "var " + x + " rune = rune(" + c05expr(n.list[2]) + ")\n" + ind + "_ = " + x + "\n"
		}
		return ind + c05simple(n) + "\n" + ind + "_ = " + x + "\n"
	case "b":
		return ind + "{\n" + c05stmts(n.list[1:], in2) + ind + "}\n"
	case "if":
		return ind + c05if(n, ind) + "\n"
	case "for":
		init, cond, post := c05simple(n.list[2]), "", c05simple(n.list[4])
		if n.list[3].isl || n.list[3].atom != "_" {
			cond = c05cond(n.list[3])
		}
		hdr := "for " + init + "; " + cond + "; " + post + " {"
		if init == "" && post == "" {
			if cond == "" {
				hdr = "for {"
			} else {
				hdr = "for " + cond + " {"
			}
		}
		return c05labels(n.list[1], ind) + ind + hdr + "\n" + c05stmts(n.list[5:], in2) + ind + "}\n"
	case "br":
		return ind + strings.TrimSpace("break "+c05opt(n.list[1])) + "\n"
	case "co":
		return ind + strings.TrimSpace("continue "+c05opt(n.list[1])) + "\n"
	case "ret":
		return ind + "return\n"
	case "lab":
		return ind + n.list[1].atom + ":\n" + c05stmt(n.list[2], ind)
	case "goto":
		return ind + "goto " + n.list[1].atom + "\n"
	case "rng":
		kind, dfn, k, v := n.list[2].atom, n.list[3].atom, c05opt(n.list[4]), c05opt(n.list[5])
		var operand string
		if kind == "str" {
			var rs []rune
			for _, c := range n.list[7].list {
				var x int
				fmt.Sscanf(c.atom, "%d", &x)
				rs = append(rs, rune(x))
			}
			operand = fmt.Sprintf("%q", string(rs))
		} else {
			var xs []string
			for _, c := range n.list[7].list {
				xs = append(xs, c.atom)
			}
			operand = "[]int{" + strings.Join(xs, ", ") + "}"
		}
		tok := ":="
		if dfn != ":" {
			tok = "="
		}
		hdr, use := "", ""
		switch {
		case k == "" && v == "":
			hdr = "for range " + operand + " {"
		case v == "":
			hdr = "for " + k + " " + tok + " range " + operand + " {"
			use = in2 + "_ = " + k + "\n"
		case k == "":
			hdr = "for _, " + v + " " + tok + " range " + operand + " {"
			use = in2 + "_ = " + v + "\n"
		default:
			hdr = "for " + k + ", " + v + " " + tok + " range " + operand + " {"
			use = in2 + "_ = " + k + "\n" + in2 + "_ = " + v + "\n" // (`_, _ = k, v` crashes gomacro: assignment bug outside C05)
		}
		if dfn != ":" {
			use = ""
		}
		return c05labels(n.list[1], ind) + ind + hdr + "\n" + use + c05stmts(n.list[8:], in2) + ind + "}\n"
	case "sw":
		hdr := "switch "
		if init := c05simple(n.list[2]); init != "" {
			hdr += init + "; "
		}
		if n.list[3].isl || n.list[3].atom != "_" {
			hdr += c05expr(n.list[3]) + " "
		}
		var sb strings.Builder
		sb.WriteString(c05labels(n.list[1], ind) + ind + hdr + "{\n")
		for _, cl := range n.list[4:] {
			var body []*sx
			ft := ""
			if cl.head() == "case" {
				var gs []string
				for _, g := range cl.list[1].list {
					if g.head() == "c" {
						gs = append(gs, c05cond(g.list[1]))
					} else if g.head() == "g" {
						gs = append(gs, "g("+g.list[1].atom+", "+c05expr(g.list[2])+")")
					} else {
						gs = append(gs, c05expr(g))
					}
				}
				sb.WriteString(ind + "case " + strings.Join(gs, ", ") + ":\n")
				ft, body = cl.list[2].atom, cl.list[3:]
			} else {
				sb.WriteString(ind + "default:\n")
				ft, body = cl.list[1].atom, cl.list[2:]
			}
			sb.WriteString(c05stmts(body, in2))
			if ft == "ft" {
				sb.WriteString(in2 + "fallthrough\n")
			}
		}
		sb.WriteString(ind + "}\n")
		return sb.String()
	}
	return ""
}

func c05if(n *sx, ind string) string {
	hdr := "if "
	if init := c05simple(n.list[1]); init != "" {
		hdr += init + "; "
	}
	s := hdr + c05cond(n.list[2]) + " {\n" + c05stmts(n.list[3].list, ind+"\t") + ind + "}"
	els := n.list[4]
	if els.isl {
		if els.head() == "if" {
			s += " else " + c05if(els, ind)
		} else {
			s += " else {\n" + c05stmts(els.list[1:], ind+"\t") + ind + "}"
		}
	}
	return s
}

func c05source(prog []*sx, fname string) string {
	c05runeVars = map[string]bool{}
	c05collectRunes(prog)
	return "func " + fname + "() (v0, v1, v2, v3 int) {\n" + c05stmts(prog, "\t") + "\treturn\n}\n"
}

// ---------------------------------------------------------------- features (tags and violation keys)

type c05feat struct {
	kinds map[string]bool
	keys  []string // shapes of known-defect families present in the program, most specific first
}

func c05assigns(ns []*sx, x string) bool { // does the statement list assign variable x anywhere?
	for _, n := range ns {
		if !n.isl {
			continue
		}
		if n.head() == "=" && n.list[1].atom == x {
			return true
		}
		if c05assigns(n.list, x) {
			return true
		}
	}
	return false
}

func c05features(prog []*sx) *c05feat {
	f := &c05feat{kinds: map[string]bool{}}
	set := map[string]bool{}
	var walk func(ns []*sx, top bool)
	walk = func(ns []*sx, top bool) {
		for _, n := range ns {
			if !n.isl {
				continue
			}
			h := n.head()
			switch h {
			case "e", "=", ":", "b", "if", "for", "br", "co", "ret", "lab", "goto", "rng", "sw", "case", "default", "g":
				f.kinds[h] = true
			}
			switch h {
			case "if":
				if !n.list[2].isl {
					f.kinds["if-const-"+n.list[2].atom] = true
				}
				if n.list[1].isl {
					f.kinds["if-init"] = true
				}
			case "for":
				if !n.list[3].isl && n.list[3].atom != "_" {
					f.kinds["for-const-"+n.list[3].atom] = true
				}
				if len(n.list[1].list) > 0 {
					f.kinds["for-labelled"] = true
				}
			case "br", "co":
				if n.list[1].atom != "_" {
					f.kinds[h+"-label"] = true
				}
			case "lab":
				if top {
					set["goto-label-in-func-body"] = true
				}
			case "rng":
				kind, dfn, k, v := n.list[2].atom, n.list[3].atom, c05opt(n.list[4]), c05opt(n.list[5])
				f.kinds["rng-"+kind+"-"+dfn] = true
				if kind == "str" && dfn != ":" && v != "" {
					set["range-string-assign-value-var"] = true
				}
				if k != "" && c05assigns(n.list[8:], k) {
					set["range-key-assigned-in-body"] = true
				}
				if dfn != ":" && k != "" {
					set["range-assign-form-final-key"] = true
				}
			case "g":
				f.kinds["case-side-effect"] = true
			case "case", "default":
				ft := n.list[1]
				if h == "case" {
					ft = n.list[2]
				}
				if ft.atom == "ft" {
					f.kinds["fallthrough"] = true
				}
			}
			walk(n.list, false)
		}
	}
	walk(prog, true)
	for _, k := range []string{"range-string-assign-value-var", "range-key-assigned-in-body", "range-assign-form-final-key", "goto-label-in-func-body"} {
		if set[k] {
			f.keys = append(f.keys, k)
		}
	}
	return f
}

// ---------------------------------------------------------------- real interpreter

var c05ir *fast.Interp
var c05uses int
var c05trace []string

const c05budget = 4000

func c05interp() *fast.Interp {
	if c05ir == nil || c05uses > 300 {
		c05ir = newQuietInterp()
		c05uses = 0
		c05ir.DeclFunc("emit", func(tag, v int) {
			if len(c05trace) >= c05budget {
				panic("emit budget exceeded")
			}
			c05trace = append(c05trace, fmt.Sprintf("%d:%d", tag, v))
		})
		// g(tag, v): a case expression with an observable side effect
		c05ir.DeclFunc("g", func(tag, v int) int {
			if len(c05trace) >= c05budget {
				panic("emit budget exceeded")
			}
			c05trace = append(c05trace, fmt.Sprintf("%d:%d", tag, v))
			return v
		})
	}
	c05uses++
	return c05ir
}

func c05runReal(prog []*sx) string { return c05runRealSrc(c05source(prog, "f")) }

func c05runRealSrc(src string) string {
	ir := c05interp()
	c05trace = c05trace[:0]
	if _, err := evalSrc(ir, src); err != "" {
		c05ir = nil // a failed declaration may leave the interpreter in a partial state
		return "cerr " + err
	}
	// watchdog: a wrong jump target can loop without reaching an emit
	done := make(chan struct{})
	hung := false
	go func() {
		select {
		case <-done:
		case <-time.After(5 * time.Second):
			hung = true
			ir.Interrupt(os.Interrupt)
		}
	}()
	vals, err := evalSrc(ir, "f()")
	close(done)
	if hung {
		c05ir = nil
		return "HANG " + truncate(strings.Join(c05trace, ","), 300)
	}
	if err != "" {
		c05ir = nil
		return "PANIC " + strings.Join(c05trace, ",") + " " + err
	}
	return "done " + strings.Join(c05trace, ",") + "|" + strings.ReplaceAll(showVals(vals, false), " ", ",")
}

// ---------------------------------------------------------------- compiled-Go oracle

var c05oracle = map[string]string{}
var c05oracleErr string

const c05chunk = 120

func c05parseOp(op string) (string, []*sx) {
	f, rest, _ := strings.Cut(op, " ")
	if f != "prog" {
		return f, nil
	}
	_, src, _ := strings.Cut(rest, " ")
	return f, parseSx(src)
}

func c05opSource(op, fname string) string {
	if strings.HasPrefix(op, "gosrc ") {
		return c05srcSource(c05srcDecode(op[6:]), fname)
	}
	_, prog := c05parseOp(op)
	return c05source(prog, fname)
}

func c05prepare(ops []string) {
	var progs []string
	seen := map[string]bool{}
	for _, op := range ops {
		if f, _ := c05parseOp(op); (f == "prog" || f == "gosrc") && !seen[op] {
			seen[op] = true
			progs = append(progs, op)
		}
	}
	var snips []Snippet
	var groups [][]string
	for i := 0; i < len(progs); i += c05chunk {
		j := i + c05chunk
		if j > len(progs) {
			j = len(progs)
		}
		var decls, body strings.Builder
		decls.WriteString("var emitF func(int, int)\nfunc emit(tag, v int) { emitF(tag, v) }\nfunc g(tag, v int) int { emitF(tag, v); return v }\n")
		body.WriteString("n := 0\nemitF = func(tag, v int) { n++; if n > 4000 { panic(\"emit budget exceeded\") }; emit(fmt.Sprintf(\"%d:%d\", tag, v)) }\n")
		for k, op := range progs[i:j] {
			decls.WriteString(c05opSource(op, fmt.Sprintf("f%d", k)))
			fmt.Fprintf(&body, "func() { n = 0; emit(\"#P %d\"); defer func() { if e := recover(); e != nil { emit(fmt.Sprint(\"PANIC \", e)) } }(); a, b, c, d := f%d(); emit(fmt.Sprintf(\"R %%d,%%d,%%d,%%d\", a, b, c, d)) }()\n", k, k)
		}
		snips = append(snips, Snippet{Decls: decls.String(), Body: body.String()})
		groups = append(groups, progs[i:j])
	}
	if len(snips) == 0 {
		return
	}
	outs, err := runGoBatch("C05", snips)
	if err != nil {
		c05oracleErr = err.Error()
		return
	}
	for gi, out := range outs {
		cur := -1
		var tr []string
		res := ""
		flush := func() {
			if cur >= 0 && cur < len(groups[gi]) {
				c05oracle[groups[gi][cur]] = res + strings.Join(tr, ",")
			}
		}
		for _, l := range strings.Split(out, "\n") {
			switch {
			case strings.HasPrefix(l, "#P "):
				cur, tr, res = -1, nil, ""
				fmt.Sscanf(l, "#P %d", &cur)
			case strings.HasPrefix(l, "R "):
				res = "done " + strings.Join(tr, ",") + "|" + l[2:]
				tr = nil
				flush()
				cur = -1
			case strings.HasPrefix(l, "PANIC"):
				res = "PANIC " + strings.Join(tr, ",") + " " + l
				tr = nil
				flush()
				cur = -1
			case l != "":
				tr = append(tr, l)
			}
		}
	}
}

// ---------------------------------------------------------------- Exec

func c05exec(op string) Result {
	f, prog := c05parseOp(op)
	if f == "gosrc" {
		body := c05srcDecode(op[6:])
		out := c05runRealSrc(c05srcSource(body, "f"))
		key := c05srcKey(body)
		res := Result{Out: "unmodelled", Tags: strings.Split(strings.TrimPrefix(key, "unmodelled-construct:"), "+"), Nontrivial: true}
		want, ok := c05oracle[op]
		if !ok {
			res.Viol, res.Key = "no compiled-Go oracle output: "+truncate(c05oracleErr, 1500), "oracle-unavailable"
		} else if out != want {
			res.Viol = fmt.Sprintf("gomacro: %s ; compiled Go: %s ; source:\n%s", truncate(out, 400), truncate(want, 400), c05srcSource(body, "f"))
			res.Key = key
		}
		return res
	}
	if f != "prog" {
		return Result{Out: "bad-op"}
	}
	feat := c05features(prog)
	out := c05runReal(prog)
	var tags []string
	for k := range feat.kinds {
		tags = append(tags, k)
	}
	sort.Strings(tags)
	res := Result{Out: out, Tags: tags, Nontrivial: strings.Count(out, ":") >= 2}
	if strings.HasPrefix(out, "cerr ") {
		res.Out = "cerr"
	}
	want, ok := c05oracle[op]
	if !ok {
		res.Viol = "no compiled-Go oracle output for this program: " + truncate(c05oracleErr, 1500)
		res.Key = "oracle-unavailable"
		return res
	}
	if out != want {
		key := "control-flow-differs-from-compiled-go"
		if len(feat.keys) > 0 {
			key = feat.keys[0]
		} else if strings.HasPrefix(out, "cerr") {
			key = "valid-program-rejected"
		} else if strings.HasPrefix(out, "PANIC") {
			key = "run-time-panic"
		} else if strings.HasPrefix(out, "HANG") {
			key = "does-not-terminate"
		}
		res.Viol = fmt.Sprintf("gomacro: %s ; compiled Go: %s ; source:\n%s", truncate(out, 400), truncate(want, 400), c05source(prog, "f"))
		res.Key = key
	}
	return res
}

func init() {
	register(&Prop{
		ID:   "C05",
		Rule: "structured programs (depth<=4: blocks with/without locals, if/else with init and constant conditions, 3 for forms, labelled/unlabelled break/continue, return, switch with fallthrough/default anywhere, range over slice/string, backward goto); every atom emits a trace event; non-trivial = trace has >= 2 events; distinct by program text",
		Gen:  c05gen,
		Exec: c05exec,
		Exhaustive: func(tier string) bool { return false },
		Prepare:    c05prepare,
	})
}

var _ = rand.Int
