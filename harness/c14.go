package main

// C14: REPL-style evaluation, one top-level statement per Interp.Eval, matches in-order Go.
//
// Op lines (see lean/Drv/C14.lean for the model side):
//   reset | decl N KIND - | decl N KIND c CONST | addr P N | asg N OP RHS | wrp P OP RHS
//   read N | rdp P | box | stat
//   CONST = n A | n2 A B | s TEXT      RHS = c CONST | v N | d P
// Every op is ONE source statement evaluated by ONE Compile+RunExpr of the same interpreter.
// Oracle: one compiled Go program per history (runGoBatch), a redeclaration rendered as a
// fresh variable; every read / status is compared with it.

import (
	"fmt"
	"math"
	"math/rand"
	"reflect"
	"strconv"
	"strings"

	"github.com/cosmos72/gomacro/fast"
)

var c14kinds = []string{"bool", "int", "int8", "int16", "int32", "int64", "uint", "uint8", "uint16", "uint32", "uint64", "uintptr",
	"float32", "float64", "complex64", "complex128", "string"}

func c14bits(k string) uint {
	switch k {
	case "bool", "int8", "uint8":
		return 8
	case "int16", "uint16":
		return 16
	case "int32", "uint32", "float32":
		return 32
	}
	return 64
}
func c14signed(k string) bool {
	return k == "int" || k == "int8" || k == "int16" || k == "int32" || k == "int64"
}
func c14isInt(k string) bool  { return strings.HasPrefix(k, "int") || strings.HasPrefix(k, "uint") }
func c14isFlt(k string) bool  { return strings.HasPrefix(k, "float") }
func c14isCplx(k string) bool { return strings.HasPrefix(k, "complex") }

var c14opTok = map[string]string{"set": "=", "add": "+=", "sub": "-=", "mul": "*=", "quo": "/=", "rem": "%=", "and": "&=", "or": "|=",
	"xor": "^=", "andnot": "&^=", "shl": "<<=", "shr": ">>="}

// ---------- constants: pattern <-> Go source ----------

func c14fmtF(f float64, bits int) string {
	s := strconv.FormatFloat(f, 'g', -1, bits)
	return s
}

// c14constSrc renders the constant given by the words of an op (after "c") for kind k.
func c14constSrc(k string, w []string) (string, bool) {
	if len(w) == 0 {
		return "", false
	}
	switch w[0] {
	case "s":
		if k != "string" {
			return "", false
		}
		if len(w) == 1 {
			return `""`, true
		}
		return strconv.Quote(w[1]), true
	case "n2":
		if k != "complex128" || len(w) != 3 {
			return "", false
		}
		a, e1 := strconv.ParseUint(w[1], 10, 64)
		b, e2 := strconv.ParseUint(w[2], 10, 64)
		if e1 != nil || e2 != nil {
			return "", false
		}
		return "(" + c14fmtF(math.Float64frombits(a), 64) + "+" + c14fmtF(math.Float64frombits(b), 64) + "i)", true
	case "n":
		if len(w) != 2 || k == "string" || k == "complex128" {
			return "", false
		}
		a, err := strconv.ParseUint(w[1], 10, 64)
		if err != nil {
			return "", false
		}
		switch {
		case k == "bool":
			return strconv.FormatBool(a != 0), true
		case c14isInt(k) && c14signed(k):
			sh := 64 - c14bits(k)
			return strconv.FormatInt(int64(a<<sh)>>sh, 10), true
		case c14isInt(k):
			return strconv.FormatUint(a, 10), true
		case k == "float32":
			return c14fmtF(float64(math.Float32frombits(uint32(a))), 32), true
		case k == "float64":
			return c14fmtF(math.Float64frombits(a), 64), true
		case k == "complex64":
			re := math.Float32frombits(uint32(a))
			im := math.Float32frombits(uint32(a >> 32))
			return "(" + c14fmtF(float64(re), 32) + "+" + c14fmtF(float64(im), 32) + "i)", true
		}
	}
	return "", false
}

// c14pat renders a Go value as the model's pattern text
func c14pat(x interface{}) string {
	u := func(v uint64) string { return "= " + strconv.FormatUint(v, 10) }
	switch v := x.(type) {
	case bool:
		if v {
			return "= 1"
		}
		return "= 0"
	case int:
		return u(uint64(v))
	case int8:
		return u(uint64(uint8(v)))
	case int16:
		return u(uint64(uint16(v)))
	case int32:
		return u(uint64(uint32(v)))
	case int64:
		return u(uint64(v))
	case uint:
		return u(uint64(v))
	case uint8:
		return u(uint64(v))
	case uint16:
		return u(uint64(v))
	case uint32:
		return u(uint64(v))
	case uint64:
		return u(v)
	case uintptr:
		return u(uint64(v))
	case float32:
		return u(uint64(math.Float32bits(v)))
	case float64:
		return u(math.Float64bits(v))
	case complex64:
		return u(uint64(math.Float32bits(real(v))) | uint64(math.Float32bits(imag(v)))<<32)
	case complex128:
		return "= " + strconv.FormatUint(math.Float64bits(real(v)), 10) + " " + strconv.FormatUint(math.Float64bits(imag(v)), 10)
	case string:
		return "= s:" + v
	}
	return fmt.Sprintf("?%T", x)
}

// the same function as source text, for the compiled oracle programs
const c14patSrc = `
func pat(x interface{}) string {
	u := func(v uint64) string { return "= " + strconv.FormatUint(v, 10) }
	switch v := x.(type) {
	case bool:
		if v {
			return "= 1"
		}
		return "= 0"
	case int:
		return u(uint64(v))
	case int8:
		return u(uint64(uint8(v)))
	case int16:
		return u(uint64(uint16(v)))
	case int32:
		return u(uint64(uint32(v)))
	case int64:
		return u(uint64(v))
	case uint:
		return u(uint64(v))
	case uint8:
		return u(uint64(v))
	case uint16:
		return u(uint64(v))
	case uint32:
		return u(uint64(v))
	case uint64:
		return u(v)
	case uintptr:
		return u(uint64(v))
	case float32:
		return u(uint64(math.Float32bits(v)))
	case float64:
		return u(math.Float64bits(v))
	case complex64:
		return u(uint64(math.Float32bits(real(v))) | uint64(math.Float32bits(imag(v)))<<32)
	case complex128:
		return "= " + strconv.FormatUint(math.Float64bits(real(v)), 10) + " " + strconv.FormatUint(math.Float64bits(imag(v)), 10)
	case string:
		return "= s:" + v
	}
	return "?"
}
`

// ---------- symbol table shared by source rendering (real interpreter and oracle program) ----------

type c14var struct {
	kind      string
	ver       int    // number of redeclarations so far (the oracle program uses a fresh variable per declaration)
	lastWrite string // shape of the last write, for violation keys
}
type c14ptr struct {
	kind   string
	ver    int
	target int // variable name
	tver   int // version of the target when the address was taken
}
type c14syms struct {
	vars map[int]*c14var
	ptrs map[int]*c14ptr
}

func newC14syms() *c14syms { return &c14syms{map[int]*c14var{}, map[int]*c14ptr{}} }

type c14stmt struct {
	valid    bool   // the statement is valid Go w.r.t. the declarations so far
	src      string // source for the interpreter (names v<N>, p<N>)
	osrc     string // the same statement for the oracle program (fresh names)
	kind     string // kind of the value read / assigned
	isRead   bool
	mayPanic bool
	decl     string // oracle: name to mark used after a declaration
	shape    string // write shape
	wvar     int    // variable written (-1: none)
	wvar2    int    // second variable written by a range statement (0 value = none, stored as name+1)
	presrc   string // addrf: the function declaration evaluated first (interpreter)
	opresrc  string // addrf: the same for the oracle program
	viaPtr   bool
}

func (st *c14syms) vname(n int, oracle bool) string {
	if oracle {
		return fmt.Sprintf("v%d_%d", n, st.vars[n].ver)
	}
	return fmt.Sprintf("v%d", n)
}
func (st *c14syms) pname(p int, oracle bool) string {
	if oracle {
		return fmt.Sprintf("p%d_%d", p, st.ptrs[p].ver)
	}
	return fmt.Sprintf("p%d", p)
}

func c14atoi(s string) (int, bool) {
	n, err := strconv.Atoi(s)
	return n, err == nil && n >= 0
}

// rhs renders a right-hand side of kind k
func (st *c14syms) rhs(k string, w []string, oracle bool) (src string, ok bool, isConst bool, isZero bool, pow2 bool) {
	if len(w) < 2 {
		return "", false, false, false, false
	}
	switch w[0] {
	case "c":
		s, good := c14constSrc(k, w[1:])
		zero := len(w) == 3 && w[1] == "n" && w[2] == "0"
		p2 := false
		if good && c14isInt(k) && len(w) == 3 {
			a, _ := strconv.ParseUint(w[2], 10, 64)
			if c14signed(k) {
				sh := 64 - c14bits(k)
				sv := int64(a<<sh) >> sh
				if sv < 0 {
					a = uint64(-sv)
				} else {
					a = uint64(sv)
				}
			}
			p2 = a > 1 && a&(a-1) == 0
		}
		return s, good, true, zero, p2
	case "v":
		n, good := c14atoi(w[1])
		if !good || len(w) != 2 || st.vars[n] == nil || st.vars[n].kind != k {
			return "", false, false, false, false
		}
		return st.vname(n, oracle), true, false, false, false
	case "d":
		p, good := c14atoi(w[1])
		if !good || len(w) != 2 || st.ptrs[p] == nil || st.ptrs[p].kind != k {
			return "", false, false, false, false
		}
		return "*" + st.pname(p, oracle), true, false, false, false
	}
	return "", false, false, false, false
}

// compile translates one op into source text and updates the symbol table (declarations).
// Both the Exec side and the oracle-program side call it with the same op sequence.
func (st *c14syms) compile(op string) c14stmt {
	w := strings.Split(op, " ")
	bad := c14stmt{wvar: -1}
	switch w[0] {
	case "decl":
		if len(w) < 4 {
			return bad
		}
		n, ok := c14atoi(w[1])
		k := w[2]
		if !ok {
			return bad
		}
		init := ""
		if w[3] == "c" {
			s, good := c14constSrc(k, w[4:])
			if !good {
				return bad
			}
			init = " = " + s
		}
		v := st.vars[n]
		if v == nil {
			v = &c14var{kind: k, ver: 0}
			st.vars[n] = v
		} else {
			v.kind = k
			v.ver++
		}
		v.lastWrite = "decl"
		return c14stmt{valid: true, src: "var " + st.vname(n, false) + " " + k + init, osrc: "var " + st.vname(n, true) + " " + k + init,
			kind: k, decl: st.vname(n, true), shape: "decl", wvar: n}
	case "addr":
		if len(w) != 3 {
			return bad
		}
		p, ok1 := c14atoi(w[1])
		n, ok2 := c14atoi(w[2])
		if !ok1 || !ok2 {
			return bad
		}
		src := fmt.Sprintf("p%d := &v%d", p, n)
		if st.vars[n] == nil {
			return c14stmt{src: src, wvar: -1}
		}
		tv := st.vars[n]
		pp := st.ptrs[p]
		if pp == nil {
			pp = &c14ptr{}
			st.ptrs[p] = pp
		} else {
			pp.ver++
		}
		pp.kind, pp.target, pp.tver = tv.kind, n, tv.ver
		return c14stmt{valid: true, src: src, osrc: st.pname(p, true) + " := &" + st.vname(n, true), kind: tv.kind,
			decl: st.pname(p, true), wvar: -1}
	case "addrf":
		// addrf P N FID DEPTH: func f<FID>() *K { return &v<N> } (DEPTH-1 more closures around &v), then p<P> := f<FID>()
		if len(w) != 5 {
			return bad
		}
		p, ok1 := c14atoi(w[1])
		n, ok2 := c14atoi(w[2])
		fid, ok3 := c14atoi(w[3])
		depth, ok4 := c14atoi(w[4])
		if !ok1 || !ok2 || !ok3 || !ok4 || depth < 1 || depth > 6 {
			return bad
		}
		body := func(k, v string) string {
			e := "&" + v
			for d := 1; d < depth; d++ {
				e = "func() *" + k + " { return " + e + " }()"
			}
			return "() *" + k + " { return " + e + " }"
		}
		if st.vars[n] == nil {
			return c14stmt{src: fmt.Sprintf("p%d := f%d()", p, fid), presrc: fmt.Sprintf("func f%d%s", fid, body("int", fmt.Sprintf("v%d", n))), wvar: -1}
		}
		tv := st.vars[n]
		pp := st.ptrs[p]
		if pp == nil {
			pp = &c14ptr{}
			st.ptrs[p] = pp
		} else {
			pp.ver++
		}
		pp.kind, pp.target, pp.tver = tv.kind, n, tv.ver
		return c14stmt{valid: true, src: fmt.Sprintf("p%d := f%d()", p, fid), presrc: fmt.Sprintf("func f%d%s", fid, body(tv.kind, st.vname(n, false))),
			osrc: fmt.Sprintf("%s := f%d()", st.pname(p, true), fid), opresrc: fmt.Sprintf("f%d := func%s", fid, body(tv.kind, st.vname(n, true))),
			kind: tv.kind, decl: st.pname(p, true), wvar: -1, shape: fmt.Sprintf("addrf-depth%d", depth)}
	case "rngs", "rngl":
		// rngs KN VN TEXT | rngl KN VN KIND CONST...:  for v<KN>, v<VN> = range "TEXT" | []KIND{...} {}
		if len(w) < 4 {
			return bad
		}
		elem := "int32"
		var srcExpr string
		if w[0] == "rngs" {
			if len(w) != 4 {
				return bad
			}
			if w[3] == "-" {
				srcExpr = `""`
			} else {
				srcExpr = strconv.Quote(w[3])
			}
		} else {
			elem = w[3]
			var cs []string
			rest := w[4:]
			for len(rest) > 0 {
				n := 2
				if rest[0] == "n2" {
					n = 3
				}
				if len(rest) < n {
					return bad
				}
				c, ok := c14constSrc(elem, rest[:n])
				if !ok {
					return bad
				}
				cs = append(cs, c)
				rest = rest[n:]
			}
			srcExpr = "[]" + elem + "{" + strings.Join(cs, ", ") + "}"
		}
		valid := true
		name := func(word, kind string) (string, string, int) {
			if word == "-" {
				return "_", "_", -1
			}
			n, ok := c14atoi(word)
			if !ok {
				valid = false
				return "_", "_", -1
			}
			if st.vars[n] == nil || st.vars[n].kind != kind {
				valid = false
				return fmt.Sprintf("v%d", n), "_", -1
			}
			return st.vname(n, false), st.vname(n, true), n
		}
		ks, kos, kn := name(w[1], "int")
		vs, vos, vn := name(w[2], elem)
		src := fmt.Sprintf("for %s, %s = range %s {}", ks, vs, srcExpr)
		if !valid {
			return c14stmt{src: src, wvar: -1}
		}
		shape := "range-string"
		if w[0] == "rngl" {
			shape = "range-slice"
		}
		r := c14stmt{valid: true, src: src, osrc: fmt.Sprintf("for %s, %s = range %s {\n\t}", kos, vos, srcExpr), kind: elem, shape: shape, wvar: vn}
		if kn >= 0 {
			if vn < 0 {
				r.wvar = kn
			} else {
				r.wvar2 = kn + 1
			}
		}
		return r
	case "asg", "wrp":
		if len(w) < 5 {
			return bad
		}
		n, ok := c14atoi(w[1])
		tok := c14opTok[w[2]]
		if !ok || tok == "" {
			return bad
		}
		var lhs, olhs, k string
		wvar := n
		viaPtr := false
		if w[0] == "asg" {
			lhs = fmt.Sprintf("v%d", n)
			if v := st.vars[n]; v != nil {
				k, olhs = v.kind, st.vname(n, true)
			}
		} else {
			lhs = fmt.Sprintf("*p%d", n)
			viaPtr = true
			if p := st.ptrs[n]; p != nil {
				k, olhs = p.kind, "*"+st.pname(n, true)
				wvar = p.target
			} else {
				wvar = -1
			}
		}
		if k == "" {
			// unknown name: render the rhs somehow so that the interpreter sees a statement
			return c14stmt{src: lhs + " " + tok + " 1", wvar: -1}
		}
		rs, good, isConst, isZero, pow2 := st.rhs(k, w[3:], false)
		if !good {
			// kind mismatch / unknown name on the right: still give the interpreter the statement
			alt := "v999999"
			switch w[3] {
			case "v":
				alt = "v" + w[4]
			case "d":
				alt = "*p" + w[4]
			}
			return c14stmt{src: lhs + " " + tok + " " + alt, wvar: -1}
		}
		ors, _, _, _, _ := st.rhs(k, w[3:], true)
		divz := isConst && isZero && c14isInt(k) && (w[2] == "quo" || w[2] == "rem")
		shape := w[2] + "-" + w[3]
		if w[2] == "quo" && isConst && pow2 {
			shape = "quo-pow2-c"
		}
		s := c14stmt{valid: !divz, src: lhs + " " + tok + " " + rs, osrc: olhs + " " + tok + " " + ors, kind: k, shape: shape, wvar: wvar, viaPtr: viaPtr}
		s.mayPanic = c14isInt(k) && (w[2] == "quo" || w[2] == "rem") && !isConst
		if !s.valid {
			s.wvar = -1
		}
		return s
	case "read":
		if len(w) != 2 {
			return bad
		}
		n, ok := c14atoi(w[1])
		if !ok {
			return bad
		}
		src := fmt.Sprintf("v%d", n)
		if st.vars[n] == nil {
			return c14stmt{src: src, wvar: -1}
		}
		return c14stmt{valid: true, src: src, osrc: st.vname(n, true), kind: st.vars[n].kind, isRead: true, wvar: -1}
	case "rdp":
		if len(w) != 2 {
			return bad
		}
		p, ok := c14atoi(w[1])
		if !ok {
			return bad
		}
		src := fmt.Sprintf("*p%d", p)
		if st.ptrs[p] == nil {
			return c14stmt{src: src, wvar: -1}
		}
		return c14stmt{valid: true, src: src, osrc: "*" + st.pname(p, true), kind: st.ptrs[p].kind, isRead: true, wvar: -1, viaPtr: true}
	}
	return bad
}

// ---------- oracle: one compiled Go program per history ----------

var c14expect map[int]string // op index -> expected output ("ok", "cerr", "panic", "= ...")
var c14oracleErr string

func c14prepare(ops []string) {
	c14expect = map[int]string{}
	c14oracleErr = ""
	c14idx = 0
	var snippets []Snippet
	var body strings.Builder
	st := newC14syms()
	// every history is a closure of its own; several histories share one package (fewer, larger packages
	// build much faster than one package per history)
	var group strings.Builder
	flushGroup := func() {
		if group.Len() > 0 {
			snippets = append(snippets, Snippet{Imports: []string{"math", "strconv"}, Decls: c14patSrc + "\nvar _ = math.Abs\n", Body: group.String()})
		}
		group.Reset()
	}
	flush := func() {
		if body.Len() > 0 {
			group.WriteString("\tfunc() {\n")
			group.WriteString(body.String())
			group.WriteString("\t}()\n")
			if group.Len() > 150000 {
				flushGroup()
			}
		}
		body.Reset()
		st = newC14syms()
	}
	for i, op := range ops {
		if op == "reset" {
			flush()
			continue
		}
		if op == "box" || op == "stat" {
			continue
		}
		s := st.compile(op)
		if s.src == "" {
			continue // not an op of this property ("bad-op" on both sides)
		}
		if !s.valid {
			c14expect[i] = "cerr"
			continue
		}
		c14expect[i] = "ok"
		switch {
		case s.isRead:
			fmt.Fprintf(&body, "\temit(\"%d \" + pat(%s))\n", i, s.osrc)
		case s.mayPanic:
			fmt.Fprintf(&body, "\tfunc() {\n\t\tdefer func() {\n\t\t\tif recover() != nil {\n\t\t\t\temit(\"%d panic\")\n\t\t\t}\n\t\t}()\n\t\t%s\n\t}()\n", i, s.osrc)
		default:
			if s.opresrc != "" {
				fmt.Fprintf(&body, "\t%s\n", s.opresrc)
			}
			fmt.Fprintf(&body, "\t%s\n", s.osrc)
			if s.decl != "" {
				fmt.Fprintf(&body, "\t_ = %s\n", s.decl)
			}
		}
	}
	flush()
	flushGroup()
	if len(snippets) == 0 {
		return
	}
	outs, err := runGoBatch("C14", snippets)
	if err != nil {
		c14oracleErr = err.Error()
		return
	}
	for _, o := range outs {
		for _, l := range strings.Split(o, "\n") {
			idx, rest, ok := strings.Cut(l, " ")
			if !ok {
				continue
			}
			if i, err := strconv.Atoi(idx); err == nil {
				c14expect[i] = rest
			} else if strings.HasPrefix(l, "PANIC:") {
				c14oracleErr = "oracle program panicked: " + l
			}
		}
	}
}

// ---------- the real interpreter ----------

var c14ir *fast.Interp
var c14st = newC14syms()
var c14idx int

// once a history has diverged from the compiled program its later results are consequences of the
// first divergence: only the first one is reported as a violation (other histories go on searching)
var c14diverged bool

func c14class(ir *fast.Interp, name string) string {
	if b := ir.Comp.Binds[name]; b != nil {
		switch b.Desc.Class() {
		case fast.IntBind:
			return "IntBind"
		case fast.VarBind:
			return "VarBind"
		}
		return b.Desc.Class().String()
	}
	return "unbound"
}

func c14kindGroup(k string) string {
	switch {
	case c14isInt(k):
		return "int"
	case c14isFlt(k):
		return "float"
	case c14isCplx(k):
		return k
	}
	return k
}

// run one statement: Compile, then RunExpr (what Interp.Eval does), classifying the failure phase
func c14eval(ir *fast.Interp, src string) (out string, vals []reflect.Value) {
	var expr *fast.Expr
	cerr := func() (msg string) {
		defer func() {
			if e := recover(); e != nil {
				msg = "cerr " + fmt.Sprint(e)
			}
		}()
		expr = ir.Compile(src)
		return ""
	}()
	if cerr != "" {
		return "cerr", nil
	}
	rerr := func() (msg string) {
		defer func() {
			if e := recover(); e != nil {
				msg = fmt.Sprint(e)
				if msg == "" {
					msg = "panic"
				}
			}
		}()
		vs, _ := ir.RunExpr(expr)
		for _, v := range vs {
			vals = append(vals, v.ReflectValue())
		}
		return ""
	}()
	if rerr != "" {
		if strings.Contains(rerr, "internal error: attempt to reallocate") {
			return "ierr", nil
		}
		return "panic", nil
	}
	return "ok", vals
}

func c14exec(op string) Result {
	idx := c14idx
	c14idx++
	if c14oracleErr != "" {
		return Result{Out: "ORACLE-FAILED " + truncate(c14oracleErr, 1500), Viol: "the compiled-Go oracle could not be built/run: " + truncate(c14oracleErr, 600), Key: "oracle-build"}
	}
	if op == "reset" {
		c14ir = newQuietInterp()
		c14st = newC14syms()
		c14diverged = false
		return Result{Out: "ok", Tags: []string{"reset"}}
	}
	if c14ir == nil {
		c14ir = newQuietInterp()
	}
	ir := c14ir
	switch op {
	case "box":
		ir.Comp.IntBindMax = ir.Comp.IntBindNum
		return Result{Out: "ok", Tags: []string{"box"}}
	case "stat":
		out := func() (out string) {
			defer func() {
				if e := recover(); e != nil {
					out = "ierr"
				}
			}()
			env := ir.PrepareEnv()
			c := ir.Comp
			return fmt.Sprintf("stat bn=%d ibn=%d ibmax=%d capints=%d lenints=%d capvals=%d lenvals=%d", c.BindNum, c.IntBindNum, c.IntBindMax,
				cap(env.Ints), len(env.Ints), cap(env.Vals), len(env.Vals))
		}()
		r := Result{Out: out, Tags: []string{"stat"}}
		if out == "ierr" {
			if !c14diverged {
				r.Viol, r.Key = "PrepareEnv: internal error: attempt to reallocate Env.Ints[] after one of its addresses was taken", "ints-realloc-after-address"
				c14diverged = true
			}
		}
		return r
	}
	// class of the written variable BEFORE the statement (for tags/keys)
	pre := c14st
	var preTarget *c14ptr
	w := strings.Split(op, " ")
	if len(w) > 1 && (w[0] == "wrp" || w[0] == "rdp") {
		if p, ok := c14atoi(w[1]); ok && pre.ptrs[p] != nil {
			cp := *pre.ptrs[p]
			preTarget = &cp
		}
	}
	redecl := ""
	if w[0] == "decl" && len(w) > 2 {
		if n, ok := c14atoi(w[1]); ok && pre.vars[n] != nil {
			if pre.vars[n].kind == w[2] {
				redecl = "redeclare-same-kind"
			} else {
				redecl = "redeclare-other-kind"
			}
		}
	}
	s := c14st.compile(op)
	if s.src == "" {
		return Result{Out: "bad-op", Tags: []string{"bad-op"}}
	}
	capBefore := -1
	var status string
	var vals []reflect.Value
	if s.presrc != "" {
		// addrf: two evaluations; the second only if the first succeeded
		status, _ = c14eval(ir, s.presrc)
	}
	if s.presrc == "" || status == "ok" {
		status, vals = c14eval(ir, s.src)
	}
	out := status
	if status == "ok" && s.isRead {
		if len(vals) == 1 && vals[0].IsValid() {
			out = c14pat(vals[0].Interface())
		} else {
			out = "panic"
		}
	}
	_ = capBefore
	want, have := c14expect[idx]
	if !have {
		want = "cerr"
	}
	tags := []string{w[0]}
	cls := ""
	if s.wvar >= 0 {
		cls = c14class(ir, fmt.Sprintf("v%d", s.wvar))
	} else if s.isRead && !s.viaPtr && len(w) > 1 {
		cls = c14class(ir, "v"+w[1])
	} else if s.isRead && s.viaPtr && preTarget != nil {
		cls = c14class(ir, fmt.Sprintf("v%d", preTarget.target))
	}
	if s.kind != "" {
		tags = append(tags, "kind-"+s.kind)
	}
	if cls != "" {
		tags = append(tags, w[0]+"-"+cls)
		if cls == "VarBind" && s.kind != "string" && s.kind != "" {
			tags = append(tags, "boxed-"+c14kindGroup(s.kind), "boxed-"+w[0])
			if s.shape != "" {
				tags = append(tags, "boxed-"+s.shape)
			}
		}
	}
	if redecl != "" {
		tags = append(tags, redecl)
	}
	if s.shape != "" && w[0] != "decl" {
		tags = append(tags, "shape-"+s.shape)
	}
	tags = append(tags, "out-"+strings.Fields(out)[0])
	staleTarget := false
	if preTarget != nil {
		if v := c14st.vars[preTarget.target]; v != nil && v.ver != preTarget.tver {
			staleTarget = true
			tags = append(tags, "ptr-to-redeclared")
		}
	}
	if (w[0] == "addr" || w[0] == "addrf") && s.valid {
		tags = append(tags, "addr-"+c14class(ir, "v"+w[2]))
	}
	r := Result{Out: out, Tags: tags, Nontrivial: s.valid, Sig: ""}
	if s.valid {
		r.Sig = fmt.Sprintf("%s|%s|%s|%s|%v|%s", w[0], s.kind, s.shape, cls, staleTarget, redecl)
		if s.isRead {
			// reads are distinct by what they observe: (kind, class, last write shape)
			lw := ""
			if !s.viaPtr && len(w) > 1 {
				if n, ok := c14atoi(w[1]); ok && c14st.vars[n] != nil {
					lw = c14st.vars[n].lastWrite
				}
			} else if preTarget != nil && c14st.vars[preTarget.target] != nil {
				lw = c14st.vars[preTarget.target].lastWrite
			}
			r.Sig += "|" + lw
		}
	}
	// ---- the property: same observable result as the compiled program
	if out != want && c14diverged {
		r.Tags = append(r.Tags, "after-divergence")
	} else if out != want {
		c14diverged = true
		key := "mismatch:" + w[0]
		lastw := func(n int) string {
			if v := c14st.vars[n]; v != nil {
				return v.lastWrite
			}
			return "?"
		}
		// does the statement touch a variable that is (or whose earlier declaration is) the target of a
		// pointer taken before a redeclaration?
		aliased := func(n int) bool {
			v := c14st.vars[n]
			if v == nil {
				return false
			}
			for _, p := range c14st.ptrs {
				if p.target == n && p.tver != v.ver {
					return true
				}
			}
			return false
		}
		stalePtr := func(pn int) bool {
			p := c14st.ptrs[pn]
			return p != nil && c14st.vars[p.target] != nil && (c14st.vars[p.target].ver != p.tver || aliased(p.target))
		}
		touched := staleTarget
		if len(w) > 1 {
			if n, ok := c14atoi(w[1]); ok {
				if w[0] == "read" || w[0] == "asg" {
					touched = touched || aliased(n)
				} else if w[0] == "rdp" || w[0] == "wrp" {
					touched = touched || stalePtr(n)
				}
			}
		}
		if len(w) > 4 && (w[0] == "asg" || w[0] == "wrp") {
			if n, ok := c14atoi(w[4]); ok {
				if w[3] == "v" {
					touched = touched || aliased(n)
				} else if w[3] == "d" {
					touched = touched || stalePtr(n)
				}
			}
		}
		switch {
		case out == "ierr":
			key = "ints-realloc-after-address"
		case touched && w[0] != "addr" && w[0] != "decl":
			key = "ptr-aliases-redeclared:" + c14kindGroup(s.kind)
		case (w[0] == "addr" || w[0] == "addrf") && out == "cerr":
			key = "addr-unsupported:" + s.kind
		case (w[0] == "rdp" || w[0] == "wrp") && staleTarget:
			key = "ptr-aliases-redeclared:" + c14kindGroup(s.kind)
		case w[0] == "rdp" && preTarget != nil:
			key = "ptr-read-after:" + lastw(preTarget.target) + ":" + cls
		case w[0] == "read":
			n, _ := c14atoi(w[1])
			key = "var-read-after:" + lastw(n) + ":" + cls
		case w[0] == "asg" || w[0] == "wrp" || w[0] == "rngs" || w[0] == "rngl":
			key = "assign-" + out + ":" + s.shape + ":" + cls
		case w[0] == "decl":
			key = "decl-" + out + ":" + c14kindGroup(s.kind)
		}
		r.Viol = fmt.Sprintf("statement %q: interpreter gives %q, compiled Go (statements in order, redeclaration = fresh variable) gives %q", s.src, out, want)
		r.Key = key
		r.Tags = append(r.Tags, "viol:"+key)
	}
	// remember the shape of the last write (after the comparison, so that a read reports the write before it)
	if s.valid && s.wvar2 > 0 {
		if v := c14st.vars[s.wvar2-1]; v != nil {
			v.lastWrite = s.shape + "-key"
		}
	}
	if s.valid && s.wvar >= 0 && w[0] != "decl" {
		if v := c14st.vars[s.wvar]; v != nil && (!s.viaPtr || preTarget == nil || preTarget.tver == v.ver) {
			v.lastWrite = s.shape
			if s.viaPtr {
				v.lastWrite += "-via-ptr"
			}
		}
	}
	return r
}

// ---------- generator ----------

type c14gen struct {
	r    *rand.Rand
	emit func(string)
	vars map[int]string // name -> kind (generator's own view, to produce mostly valid ops)
	ptrs map[int]string
	vl   []int
	pl   []int
	fid  int // next helper function name
	// noIntAddr: never take the address of a variable that lives in env.Ints (the history must reallocate env.Ints)
	noIntAddr bool
	// onlyKind/onlyDepth: every address of a variable living in env.Ints is taken from inside a function at this
	// depth and only on variables of this kind (so that ONE arm of Var.Address carries the whole history)
	onlyKind  string
	onlyDepth int
}

func (g *c14gen) reset() {
	g.emit("reset")
	g.vars, g.ptrs, g.vl, g.pl = map[int]string{}, map[int]string{}, nil, nil
	g.fid, g.noIntAddr, g.onlyKind, g.onlyDepth = 0, false, "", 0
}

func (g *c14gen) fbits(k string, f float64) uint64 {
	if k == "float32" || k == "complex64" {
		return uint64(math.Float32bits(float32(f)))
	}
	return math.Float64bits(f)
}

func (g *c14gen) dyadic(nonzero bool) float64 {
	for {
		f := float64(g.r.Intn(129)-64) / 8
		if g.r.Intn(6) == 0 {
			f *= 1024
		}
		if f != 0 || !nonzero {
			return f
		}
	}
}

// constant words for kind k, suited to operator op
func (g *c14gen) konst(k, op string) string {
	r := g.r
	switch {
	case k == "bool":
		return fmt.Sprintf("n %d", r.Intn(2))
	case k == "string":
		n := r.Intn(4)
		if n == 0 {
			return "s"
		}
		b := make([]byte, n)
		for i := range b {
			b[i] = "abcxyz019_"[r.Intn(10)]
		}
		return "s " + string(b)
	case c14isFlt(k):
		switch op {
		case "mul", "quo":
			f := []float64{0.5, -1, 1.5, 0.25, 2, -2, 4, 3}[r.Intn(8)]
			return fmt.Sprintf("n %d", g.fbits(k, f))
		}
		return fmt.Sprintf("n %d", g.fbits(k, g.dyadic(op != "set")))
	case k == "complex64":
		re, im := g.dyadic(op != "set"), g.dyadic(false)
		return fmt.Sprintf("n %d", g.fbits(k, re)|g.fbits(k, im)<<32)
	case k == "complex128":
		re, im := g.dyadic(op != "set"), g.dyadic(false)
		return fmt.Sprintf("n2 %d %d", g.fbits(k, re), g.fbits(k, im))
	}
	// integers
	bits := c14bits(k)
	mask := uint64(1)<<bits - 1
	if bits == 64 {
		mask = ^uint64(0)
	}
	if op == "shl" || op == "shr" {
		return fmt.Sprintf("n %d", []int{0, 1, 2, 3, 7, 8, 15, 31, 32, 63, 64, 70}[r.Intn(12)])
	}
	var v uint64
	switch c := r.Intn(10); {
	case (op == "quo" || op == "rem") && c < 6:
		// ± power of two (the varQuoPow2 shortcut)
		j := uint(r.Intn(int(bits) - 1))
		v = uint64(1) << j
		if c14signed(k) && r.Intn(3) == 0 {
			v = (^v + 1) & mask
		}
		if c14signed(k) && j == bits-1 {
			v = uint64(1) << (bits - 1) // MinInt
		}
	case c < 2:
		v = []uint64{0, 1, mask, 2, mask >> 1, (mask >> 1) + 1}[r.Intn(6)]
	case c < 7:
		v = uint64(r.Intn(200))
		if c14signed(k) && r.Intn(3) == 0 {
			v = (^v + 1) & mask
		}
	default:
		v = r.Uint64() & mask
	}
	if (op == "quo" || op == "rem") && v == 0 && r.Intn(8) != 0 {
		v = 3
	}
	return fmt.Sprintf("n %d", v)
}

func c14opsFor(k string) []string {
	switch {
	case k == "bool":
		return []string{"set"}
	case k == "string":
		return []string{"set", "add"}
	case c14isFlt(k):
		return []string{"set", "add", "sub", "mul", "quo"}
	case c14isCplx(k):
		return []string{"set", "add", "sub"}
	}
	return []string{"set", "add", "sub", "mul", "quo", "rem", "and", "or", "xor", "andnot", "shl", "shr", "quo", "quo", "rem"}
}

func (g *c14gen) decl(n int, k string) {
	if _, ok := g.vars[n]; !ok {
		g.vl = append(g.vl, n)
	}
	g.vars[n] = k
	if g.r.Intn(4) == 0 {
		g.emit(fmt.Sprintf("decl %d %s -", n, k))
	} else {
		g.emit(fmt.Sprintf("decl %d %s c %s", n, k, g.konst(k, "set")))
	}
}

func (g *c14gen) addr(p, n int) {
	if g.noIntAddr && g.vars[n] != "string" {
		return
	}
	if g.onlyKind != "" && g.vars[n] != "string" {
		g.addrf(p, n, g.onlyDepth)
		return
	}
	if k, ok := g.vars[n]; ok {
		if _, ok := g.ptrs[p]; !ok {
			g.pl = append(g.pl, p)
		}
		g.ptrs[p] = k
	}
	g.emit(fmt.Sprintf("addr %d %d", p, n))
}

// addrf: the address is taken `depth` function frames below the top level
func (g *c14gen) addrf(p, n, depth int) {
	if g.noIntAddr && g.vars[n] != "string" {
		return
	}
	if g.onlyKind != "" && g.vars[n] != "string" {
		if g.vars[n] != g.onlyKind {
			return
		}
		depth = g.onlyDepth
	}
	if k, ok := g.vars[n]; ok {
		if _, ok := g.ptrs[p]; !ok {
			g.pl = append(g.pl, p)
		}
		g.ptrs[p] = k
	}
	g.emit(fmt.Sprintf("addrf %d %d %d %d", p, n, g.fid, depth))
	g.fid++
}

// rng: a range statement in assignment form whose value variable is v<n>; the key variable is a random
// variable of kind int, if any
func (g *c14gen) rng(n int) {
	k, ok := g.vars[n]
	if !ok || k == "bool" && g.r.Intn(2) == 0 {
		return
	}
	key := "-"
	var ints []int
	for _, m := range g.vl {
		if g.vars[m] == "int" && m != n {
			ints = append(ints, m)
		}
	}
	if len(ints) > 0 && g.r.Intn(3) != 0 {
		key = strconv.Itoa(ints[g.r.Intn(len(ints))])
	}
	if k == "int32" && g.r.Intn(3) != 0 {
		text := []string{"hello", "a", "Zz9", "-", "range"}[g.r.Intn(5)]
		g.emit(fmt.Sprintf("rngs %s %d %s", key, n, text))
	} else {
		cnt := g.r.Intn(4)
		var cs []string
		for i := 0; i < cnt; i++ {
			c := g.konst(k, "set")
			if c == "s" {
				c = "s e"
			}
			cs = append(cs, c)
		}
		g.emit(strings.TrimSpace(fmt.Sprintf("rngl %s %d %s %s", key, n, k, strings.Join(cs, " "))))
	}
	g.emit(fmt.Sprintf("read %d", n))
	if key != "-" {
		g.emit("read " + key)
	}
}

// a right-hand side of kind k for operator op
func (g *c14gen) rhs(k, op string) string {
	r := g.r
	constOnly := op == "shl" || op == "shr" || (c14isFlt(k) && (op == "quo" || op == "mul")) || (c14isFlt(k) && op != "set") || (c14isCplx(k) && op != "set")
	if !constOnly && r.Intn(3) == 0 {
		// another variable / a dereference of the same kind
		var cv, cp []int
		for _, n := range g.vl {
			if g.vars[n] == k {
				cv = append(cv, n)
			}
		}
		for _, p := range g.pl {
			if g.ptrs[p] == k {
				cp = append(cp, p)
			}
		}
		if len(cp) > 0 && r.Intn(2) == 0 {
			return fmt.Sprintf("d %d", cp[r.Intn(len(cp))])
		}
		if len(cv) > 0 {
			return fmt.Sprintf("v %d", cv[r.Intn(len(cv))])
		}
	}
	return "c " + g.konst(k, op)
}

func (g *c14gen) assign(n int) {
	k := g.vars[n]
	ops := c14opsFor(k)
	op := ops[g.r.Intn(len(ops))]
	g.emit(fmt.Sprintf("asg %d %s %s", n, op, g.rhs(k, op)))
}

// operators applied through a pointer: shifts are left out, fast/place_ops.go setPlace has no SHL/SHR
// case at all ("operator <<= is not implemented": a defect of C02's domain, see notes/C14.md)
func c14opsForPtr(k string) []string {
	var l []string
	for _, op := range c14opsFor(k) {
		if op != "shl" && op != "shr" {
			l = append(l, op)
		}
	}
	return l
}

func (g *c14gen) assignPtr(p int) {
	k := g.ptrs[p]
	ops := c14opsForPtr(k)
	op := ops[g.r.Intn(len(ops))]
	g.emit(fmt.Sprintf("wrp %d %s %s", p, op, g.rhs(k, op)))
}

func (g *c14gen) anyKind() string {
	// integer kinds are the interesting ones for the slot arrays
	if g.r.Intn(4) == 0 {
		return c14kinds[g.r.Intn(len(c14kinds))]
	}
	return c14kinds[g.r.Intn(16)]
}

// one random step over the current name pool (names < pool)
func (g *c14gen) randomStep(pool int) {
	r := g.r
	switch c := r.Intn(100); {
	case c < 14 || len(g.vl) == 0:
		n := r.Intn(pool)
		k := g.anyKind()
		if old, ok := g.vars[n]; ok && r.Intn(2) == 0 {
			k = old // redeclaration with the same type
		}
		g.decl(n, k)
	case c < 19:
		g.addr(r.Intn(pool/2+1), g.vl[r.Intn(len(g.vl))])
	case c < 22:
		g.addrf(r.Intn(pool/2+1), g.vl[r.Intn(len(g.vl))], 1+r.Intn(4))
	case c < 50:
		n := g.vl[r.Intn(len(g.vl))]
		g.assign(n)
		if r.Intn(3) != 0 {
			g.emit(fmt.Sprintf("read %d", n))
		}
	case c < 62 && len(g.pl) > 0:
		p := g.pl[r.Intn(len(g.pl))]
		g.assignPtr(p)
		if r.Intn(2) == 0 {
			g.emit(fmt.Sprintf("rdp %d", p))
		}
	case c < 66:
		g.rng(g.vl[r.Intn(len(g.vl))])
	case c < 78:
		g.emit(fmt.Sprintf("read %d", g.vl[r.Intn(len(g.vl))]))
	case c < 90 && len(g.pl) > 0:
		g.emit(fmt.Sprintf("rdp %d", g.pl[r.Intn(len(g.pl))]))
	case c < 93:
		g.emit("stat")
	case c < 97:
		// malformed stream: unknown names, kind mismatches, division by the constant zero
		switch r.Intn(6) {
		case 0:
			g.emit(fmt.Sprintf("read %d", pool+r.Intn(5)))
		case 1:
			g.emit(fmt.Sprintf("rdp %d", pool+r.Intn(5)))
		case 2:
			g.emit(fmt.Sprintf("addr %d %d", r.Intn(pool/2+1), pool+r.Intn(5)))
		case 3:
			n := g.vl[r.Intn(len(g.vl))]
			m := g.vl[r.Intn(len(g.vl))]
			g.emit(fmt.Sprintf("asg %d set v %d", n, m)) // mostly a kind mismatch
		case 4:
			n := g.vl[r.Intn(len(g.vl))]
			if c14isInt(g.vars[n]) {
				g.emit(fmt.Sprintf("asg %d %s c n 0", n, []string{"quo", "rem"}[r.Intn(2)]))
			}
		case 5:
			// (no malformed range statements here: a statement that fails to compile after it opened a scope leaves
			// a stale PushEnv in the code buffer, which the next declaration executes - C15's finding
			// `failed-input-code-runs-later`, see notes/C15.md)
			n := g.vl[r.Intn(len(g.vl))]
			g.emit(fmt.Sprintf("asg %d add d %d", n, pool+r.Intn(5)))
		}
	default:
		n := g.vl[r.Intn(len(g.vl))]
		g.emit(fmt.Sprintf("read %d", n))
	}
}

// readAll reads back every variable and every pointer
func (g *c14gen) readAll(maxn int) {
	for i, n := range g.vl {
		if maxn > 0 && i >= maxn {
			break
		}
		g.emit(fmt.Sprintf("read %d", n))
	}
	for _, p := range g.pl {
		g.emit(fmt.Sprintf("rdp %d", p))
	}
}

func c14generate(r *rand.Rand, tier string, emit func(string)) {
	g := &c14gen{r: r, emit: emit}
	thorough := tier == "thorough"
	// (1) systematic: for every kind k and every kind k2: declare, take the address, write through it,
	//     redeclare as k2, read old pointer and new variable; the same with boxing forced before.
	for _, boxed := range []bool{false, true} {
		for _, k := range c14kinds {
			g.reset()
			g.decl(100, "int") // something in env.Ints
			if boxed {
				emit("box")
			}
			g.decl(0, k)
			emit("read 0")
			g.addr(0, 0)
			emit("rdp 0")
			emit("wrp 0 set c " + g.konst(k, "set"))
			emit("read 0")
			for _, op := range c14opsFor(k) {
				emit(fmt.Sprintf("asg 0 %s c %s", op, g.konst(k, op)))
				emit("read 0")
				emit("rdp 0")
				if op != "shl" && op != "shr" {
					emit(fmt.Sprintf("wrp 0 %s c %s", op, g.konst(k, op)))
					emit("read 0")
				}
			}
			emit("stat")
			// the address taken 1, 2 and 3 function frames below the top level (every depth arm of Var.Address)
			g.decl(103, "int")
			for d := 1; d <= 3; d++ {
				g.addrf(20+d, 0, d)
				emit(fmt.Sprintf("rdp %d", 20+d))
				emit(fmt.Sprintf("wrp %d set c %s", 20+d, g.konst(k, "set")))
				emit("read 0")
				emit("rdp 0")
			}
			emit("stat")
			// range statements in assignment form over v0 (value) and v103 (key)
			if k == "int32" {
				emit("rngs 103 0 hello")
				emit("read 0")
				emit("read 103")
				emit("read 100")
				emit("rngs - 0 xy")
				emit("read 0")
				emit("rdp 0")
			}
			g.rng(0)
			g.rng(0)
			emit("read 100")
			emit("read 103")
			for j, k2 := range c14kinds {
				g.decl(0, k2)
				emit("read 0")
				emit("rdp 0")
				if k2 == "int32" {
					emit("rngs 103 0 world")
					emit("read 0")
					emit("read 103")
				}
				if j%3 == 1 {
					g.rng(0)
				}
				if j%4 == 0 {
					g.addr(1+j, 0)
					emit(fmt.Sprintf("rdp %d", 1+j))
				}
				g.assign(0)
				emit("read 0")
				emit("rdp 0")
				emit("read 100")
			}
			g.readAll(0)
			emit("stat")
		}
	}
	// (1a) every (kind, depth) arm of Var.Address alone: the FIRST address of the history is taken `depth` function
	//      frames below the top level; the counters (IntBindMax = cap(env.Ints)) show whether the right frame was flagged
	for _, k := range c14kinds {
		for d := 1; d <= 4; d++ {
			g.reset()
			g.decl(0, k)
			g.addrf(0, 0, d)
			emit("stat")
			emit("rdp 0")
			emit("wrp 0 set c " + g.konst(k, "set"))
			emit("read 0")
			g.decl(1, "int")
			emit("stat")
		}
	}
	// (1b) the same without any address and without boxing (a redeclaration may reuse the slot): for every
	//      pair of kinds, redeclare v0 (k -> k2) between two neighbours and check that the neighbours survive
	for _, k := range c14kinds {
		for _, k2 := range c14kinds {
			g.reset()
			g.decl(100, "int")
			g.decl(0, k)
			emit("decl 101 int64 c n 4242")
			g.decl(102, "string")
			g.decl(0, k2)
			emit("read 0")
			emit("read 101")
			g.assign(0)
			emit("read 0")
			emit("read 100")
			emit("read 101")
			emit("read 102")
			g.decl(0, k)
			emit("read 0")
			emit("read 101")
			emit("stat")
		}
	}
	// (2) random histories over a small name pool (many redeclarations and aliases)
	nh, nops := 30, 200
	if thorough {
		nh, nops = 600, 400
	}
	for h := 0; h < nh; h++ {
		g.reset()
		pool := 4 + r.Intn(24)
		boxAt := -1
		if r.Intn(3) != 0 {
			boxAt = r.Intn(nops / 2)
		}
		for i := 0; i < nops; i++ {
			if i == boxAt {
				emit("box")
			}
			g.randomStep(pool)
		}
		g.readAll(0)
		emit("stat")
	}
	// (3) long histories: an address is taken early / exactly when env.Ints is full or one slot short of full
	//     / never, then hundreds or thousands of declarations follow (env.Ints reaches its capacity: later
	//     integer variables are boxed), with assignments in between
	nbig, ndecl := 4, 1150
	if thorough {
		nbig, ndecl = 12, 3000
	}
	single := []string{"bool", "int", "int8", "int16", "int32", "int64", "uint", "uint8", "uint16", "uint32", "uint64", "uintptr", "float32", "float64", "complex64"}
	for h := 0; h < nbig; h++ {
		g.reset()
		typ := h % 4
		next := 0
		switch typ {
		case 0: // addresses taken early, ALL of them from inside a function at one depth on variables of one kind
			g.onlyKind, g.onlyDepth = "int", 1
			if h >= 4 {
				g.onlyKind, g.onlyDepth = c14kinds[r.Intn(16)], 1+r.Intn(4)
			}
			pre := 2 + r.Intn(40)
			g.decl(0, g.onlyKind)
			for next = 1; next < pre; next++ {
				if next%3 == 0 {
					g.decl(next, g.onlyKind)
				} else {
					g.decl(next, g.anyKind())
				}
			}
			g.addrf(0, 0, g.onlyDepth)
			emit("stat")
			for j := 1; j < 3; j++ {
				g.addr(j, r.Intn(pre))
			}
		case 1, 2: // env.Ints (capacity 1024) is full (2) or one slot short of full (1) when the first address is taken
			pre := 1022 + typ
			for ; next < pre; next++ {
				g.decl(next, single[r.Intn(len(single))])
			}
			emit("stat")
			g.addr(0, r.Intn(pre))
			g.decl(next, "complex128") // two slots
			next++
			g.decl(next, "int")
			next++
			emit("rdp 0")
			emit(fmt.Sprintf("read %d", next-1))
			emit(fmt.Sprintf("read %d", next-2))
		case 3: // pointers to string variables only (boxed places): env.Ints and env.Vals are reallocated, every value must survive
			g.noIntAddr = true
			pre := 1 + r.Intn(40)
			for ; next < pre; next++ {
				g.decl(next, g.anyKind())
			}
			g.decl(next, "string")
			g.addr(0, next)
			next++
		}
		early := typ != 3
		emit("stat")
		for next < ndecl {
			switch c := r.Intn(10); {
			case c < 6:
				if r.Intn(8) == 0 {
					g.decl(next, "complex128")
				} else {
					g.decl(next, g.anyKind())
				}
				next++
			case c < 7 && early:
				if r.Intn(3) == 0 {
					g.addrf(r.Intn(40), r.Intn(next), 1+r.Intn(3))
				} else {
					g.addr(r.Intn(40), r.Intn(next))
				}
			default:
				g.randomStep(next)
			}
			if next%97 == 0 && r.Intn(2) == 0 {
				emit("stat")
			}
		}
		// compound assignments on the most recent (boxed, if an address was taken) variables
		for j := 0; j < 150; j++ {
			n := next - 1 - r.Intn(60)
			if _, ok := g.vars[n]; ok {
				g.assign(n)
				emit(fmt.Sprintf("read %d", n))
				if j%3 == 0 {
					g.rng(n)
				}
			}
		}
		// range over a string into the most recent int32 variables (boxed once env.Ints is full)
		g.decl(next, "int32")
		g.decl(next+1, "int")
		emit(fmt.Sprintf("rngs %d %d hello", next+1, next))
		emit(fmt.Sprintf("read %d", next))
		emit(fmt.Sprintf("read %d", next+1))
		emit(fmt.Sprintf("rngs - %d go", next))
		emit(fmt.Sprintf("read %d", next))
		g.readAll(0)
		emit("stat")
	}
}

func init() {
	register(&Prop{
		ID:      "C14",
		Rule:    "histories of one-statement evaluations on one interpreter: (1) for every kind x {natural, boxing forced}: declare, &v, every applicable compound assignment directly and through the pointer, redeclaration as each of the 17 kinds with the old pointer read back; (2) random histories over small name pools (redeclarations, aliases, malformed statements); (3) long histories (1150 quick / 3000 thorough declarations) with addresses taken early / when env.Ints is nearly full / never. Non-trivial: valid statements; distinct by (op, kind, write shape, storage class, pointer-to-redeclared, last write seen by a read).",
		Gen:     c14generate,
		Exec:    c14exec,
		Prepare: c14prepare,
		Exhaustive: func(tier string) bool {
			return false
		},
	})
}
