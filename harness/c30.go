package main

// C30: types.Converter (standard go/types -> gomacro's go/types fork) preserves every exported object.
//
//	pkg <path>     import the standard package from source (go/importer "source"), convert it with the
//	               run-wide Converter (as xreflect.Importer does), compare every exported object:
//	               name, object kind, constant value, type string, method sets, parallel structure walk
//	               (named types pairwise through their underlying types and methods), identity of
//	               named types (one fork object per standard object and vice versa).  Lean: "ok".
//	ximp <path>    the same through xreflect.DefaultImporter (gc export data); skipped when the
//	               export data cannot be found offline.
//	syn <tokens>   a synthetic package (generated Go source, type-checked by go/types, serialised as
//	               declarations + objects in a prefix token grammar); converted by a FRESH Converter;
//	               output = canonical dump of the fork package in the same grammar.  The Lean model
//	               (Model/Converter.lean) converts the same input and prints the same dump.
//
// token grammar:  type ::= b <kind> '<name> | n <sid> | tp | N <label> <k> type^k
//	label ::= arr <n> | sl | pt | ch <dir> | mp | sg <variadic> <hasrecv> <nparams> '<name>^nparams
//	        | st <nf> ('<name> '<pkg> <anon> '<tag>)^nf | if <nm> ('<name> '<pkg>)^nm
//	op    ::= syn <ndecl> ('<pkg> '<name> type <nmeth> ('<name> type)^nmeth)^ndecl <nobj> (<kind> '<name> type)^nobj

import (
	"fmt"
	"go/ast"
	"go/constant"
	"go/importer"
	"go/parser"
	"go/token"
	gotypes "go/types"
	"math/rand"
	"os/exec"
	"regexp"
	"sort"
	"strconv"
	"strings"

	"github.com/cosmos72/gomacro/go/types"
	xr "github.com/cosmos72/gomacro/xreflect"
)

// ---------------------------------------------------------------- run-wide state

var c30fset = token.NewFileSet()
var c30imp gotypes.Importer
var c30conv *types.Converter
var c30s2f = map[*gotypes.TypeName]*types.Named{}
var c30f2s = map[*types.Named]*gotypes.TypeName{}

func c30init() {
	if c30imp == nil {
		c30imp = importer.ForCompiler(c30fset, "source", nil)
		c30conv = &types.Converter{}
		c30conv.Init(types.Universe)
	}
}

var c30anyRe = regexp.MustCompile(`\bany\b`)

func c30qs(p *gotypes.Package) string { return p.Path() }
func c30qf(p *types.Package) string   { return p.Path() }

// ---------------------------------------------------------------- generics

// c30generic reports whether t mentions a type parameter or an instantiated / generic named type
// without passing through a non-generic named type.
func c30generic(t gotypes.Type, depth int) bool {
	if depth > 50 {
		return false
	}
	switch t := t.(type) {
	case *gotypes.TypeParam:
		return true
	case *gotypes.Named:
		return t.TypeArgs().Len() > 0 || t.TypeParams().Len() > 0
	case *gotypes.Array:
		return c30generic(t.Elem(), depth+1)
	case *gotypes.Slice:
		return c30generic(t.Elem(), depth+1)
	case *gotypes.Pointer:
		return c30generic(t.Elem(), depth+1)
	case *gotypes.Chan:
		return c30generic(t.Elem(), depth+1)
	case *gotypes.Map:
		return c30generic(t.Key(), depth+1) || c30generic(t.Elem(), depth+1)
	case *gotypes.Tuple:
		for i := 0; i < t.Len(); i++ {
			if c30generic(t.At(i).Type(), depth+1) {
				return true
			}
		}
	case *gotypes.Signature:
		if t.TypeParams().Len() > 0 || t.RecvTypeParams().Len() > 0 {
			return true
		}
		return c30generic(t.Params(), depth+1) || c30generic(t.Results(), depth+1)
	case *gotypes.Struct:
		for i := 0; i < t.NumFields(); i++ {
			if c30generic(t.Field(i).Type(), depth+1) {
				return true
			}
		}
	case *gotypes.Interface:
		for i := 0; i < t.NumExplicitMethods(); i++ {
			if c30generic(t.ExplicitMethod(i).Type(), depth+1) {
				return true
			}
		}
		for i := 0; i < t.NumEmbeddeds(); i++ {
			if c30generic(t.EmbeddedType(i), depth+1) {
				return true
			}
		}
		return !t.IsMethodSet() // union / constraint interfaces
	}
	return false
}

// ---------------------------------------------------------------- parallel walk

type c30walker struct {
	add     func(key, format string, args ...interface{})
	seen    map[*gotypes.TypeName]bool
	generic int
	nodes   int
}

func (w *c30walker) walk(s gotypes.Type, f types.Type, path string) {
	w.nodes++
	if len(path) > 300 {
		return
	}
	if s == nil || f == nil {
		if (s == nil) != (f == nil) {
			w.add("nil-type", "%s: std %v fork %v", path, s, f)
		}
		return
	}
	if c30generic(s, 0) {
		w.generic++
		return
	}
	bad := func() {
		w.add("structure-kind", "%s: std %T %v, fork %T %v", path, s, s, f, f)
	}
	switch s := s.(type) {
	case *gotypes.Basic:
		f, ok := f.(*types.Basic)
		if !ok {
			bad()
			return
		}
		if int(s.Kind()) != int(f.Kind()) {
			w.add("basic-kind", "%s: std %v fork %v", path, s, f)
		} else if s.Name() != f.Name() {
			w.add("basic-alias-name:"+s.Name(), "%s: std %s, fork %s", path, s.Name(), f.Name())
		}
	case *gotypes.Array:
		f, ok := f.(*types.Array)
		if !ok {
			bad()
			return
		}
		if s.Len() != f.Len() {
			w.add("array-len", "%s: %d vs %d", path, s.Len(), f.Len())
		}
		w.walk(s.Elem(), f.Elem(), path+"[]")
	case *gotypes.Slice:
		f, ok := f.(*types.Slice)
		if !ok {
			bad()
			return
		}
		w.walk(s.Elem(), f.Elem(), path+"[]")
	case *gotypes.Pointer:
		f, ok := f.(*types.Pointer)
		if !ok {
			bad()
			return
		}
		w.walk(s.Elem(), f.Elem(), path+"*")
	case *gotypes.Chan:
		f, ok := f.(*types.Chan)
		if !ok {
			bad()
			return
		}
		if int(s.Dir()) != int(f.Dir()) {
			w.add("chan-dir", "%s: %v vs %v", path, s.Dir(), f.Dir())
		}
		w.walk(s.Elem(), f.Elem(), path+"<-")
	case *gotypes.Map:
		f, ok := f.(*types.Map)
		if !ok {
			bad()
			return
		}
		w.walk(s.Key(), f.Key(), path+".key")
		w.walk(s.Elem(), f.Elem(), path+".elem")
	case *gotypes.Signature:
		f, ok := f.(*types.Signature)
		if !ok {
			bad()
			return
		}
		w.sig(s, f, path)
	case *gotypes.Struct:
		f, ok := f.(*types.Struct)
		if !ok {
			bad()
			return
		}
		if s.NumFields() != f.NumFields() {
			w.add("struct-numfields", "%s: %d vs %d", path, s.NumFields(), f.NumFields())
			return
		}
		for i := 0; i < s.NumFields(); i++ {
			a, b := s.Field(i), f.Field(i)
			if a.Name() != b.Name() || a.Anonymous() != b.Anonymous() || s.Tag(i) != f.Tag(i) || a.Exported() != b.Exported() || c30pkgPath(a.Pkg()) != c30fpkgPath(b.Pkg()) {
				w.add("struct-field", "%s: field %d std %v (tag %q) fork %v (tag %q)", path, i, a, s.Tag(i), b, f.Tag(i))
			}
			w.walk(a.Type(), b.Type(), path+"."+a.Name())
		}
	case *gotypes.Interface:
		f, ok := f.(*types.Interface)
		if !ok {
			bad()
			return
		}
		if f.NumMethods() > s.NumMethods() && s.NumExplicitMethods() == f.NumExplicitMethods() && s.NumEmbeddeds() == f.NumEmbeddeds() {
			// the fork keeps one entry per embedded interface for a method that several of them declare
			ids := map[string]bool{}
			for i := 0; i < f.NumMethods(); i++ {
				ids[f.Method(i).Id()] = true
			}
			if len(ids) == s.NumMethods() {
				w.add("interface-overlapping-embedded-duplicates", "%s: %d methods, the fork lists %d (duplicates from overlapping embedded interfaces)", path, s.NumMethods(), f.NumMethods())
				return
			}
		}
		if s.NumMethods() != f.NumMethods() || s.NumExplicitMethods() != f.NumExplicitMethods() || s.NumEmbeddeds() != f.NumEmbeddeds() {
			w.add("interface-counts", "%s: methods %d/%d/%d vs %d/%d/%d", path, s.NumMethods(), s.NumExplicitMethods(), s.NumEmbeddeds(), f.NumMethods(), f.NumExplicitMethods(), f.NumEmbeddeds())
			return
		}
		// complete method sets are sorted by Id on both sides
		for i := 0; i < s.NumMethods(); i++ {
			a, b := s.Method(i), f.Method(i)
			if a.Name() != b.Name() || c30pkgPath(a.Pkg()) != c30fpkgPath(b.Pkg()) {
				w.add("interface-method", "%s: method %d std %v fork %v", path, i, a, b)
				continue
			}
			w.sig(a.Type().(*gotypes.Signature), b.Type().(*types.Signature), path+"."+a.Name())
		}
		// the fork sorts the embedded types by name, go/types keeps the source order: compare as sets
		se := make([]gotypes.Type, s.NumEmbeddeds())
		fe := make([]types.Type, f.NumEmbeddeds())
		for i := range se {
			se[i], fe[i] = s.EmbeddedType(i), f.EmbeddedType(i)
		}
		sort.SliceStable(se, func(i, j int) bool { return gotypes.TypeString(se[i], c30qs) < gotypes.TypeString(se[j], c30qs) })
		sort.SliceStable(fe, func(i, j int) bool { return types.TypeString(fe[i], c30qf) < types.TypeString(fe[j], c30qf) })
		for i := range se {
			w.walk(se[i], fe[i], path+".embedded")
		}
	case *gotypes.Named:
		f, ok := f.(*types.Named)
		if !ok {
			bad()
			return
		}
		w.named(s, f, path)
	default:
		w.add("unexpected-std-type", "%s: %T", path, s)
	}
}

func c30pkgPath(p *gotypes.Package) string {
	if p == nil {
		return ""
	}
	return p.Path()
}
func c30fpkgPath(p *types.Package) string {
	if p == nil {
		return ""
	}
	return p.Path()
}

func (w *c30walker) sig(s *gotypes.Signature, f *types.Signature, path string) {
	if c30generic(s, 0) {
		w.generic++
		return
	}
	if s.Variadic() != f.Variadic() {
		w.add("variadic", "%s: %v vs %v", path, s.Variadic(), f.Variadic())
	}
	tup := func(a *gotypes.Tuple, b *types.Tuple, what string) {
		if a.Len() != b.Len() {
			w.add("tuple-len", "%s %s: %d vs %d", path, what, a.Len(), b.Len())
			return
		}
		for i := 0; i < a.Len(); i++ {
			if a.At(i).Name() != b.At(i).Name() {
				w.add("param-name", "%s %s %d: std %q fork %q", path, what, i, a.At(i).Name(), b.At(i).Name())
			}
			w.walk(a.At(i).Type(), b.At(i).Type(), path+"("+strconv.Itoa(i)+")")
		}
	}
	tup(s.Params(), f.Params(), "param")
	tup(s.Results(), f.Results(), "result")
}

func (w *c30walker) named(s *gotypes.Named, f *types.Named, path string) {
	so, fo := s.Obj(), f.Obj()
	if so.Name() != fo.Name() || c30pkgPath(so.Pkg()) != c30fpkgPath(fo.Pkg()) {
		w.add("named-name", "%s: std %v fork %v", path, so, fo)
		return
	}
	// conv_named_once on the real code: one fork *Named per standard type name, and vice versa,
	// and the fork type name denotes exactly that *Named
	if old, ok := c30s2f[so]; ok && old != f {
		w.add("named-two-fork-objects", "%s: %v converted to two different fork *Named objects", path, so)
	}
	if old, ok := c30f2s[f]; ok && old != so {
		w.add("named-conflated", "%s: fork type %v stands for two standard type names", path, fo)
	}
	if fo.Type() != types.Type(f) {
		w.add("named-obj-type-mismatch", "%s: the fork type name %v denotes another *Named than the one found here", path, fo)
	}
	c30s2f[so] = f
	c30f2s[f] = so
	if w.seen[so] {
		return
	}
	w.seen[so] = true
	if f.Underlying() == nil {
		w.add("named-no-underlying", "%s: %v", path, fo)
		return
	}
	w.walk(s.Underlying(), f.Underlying(), path+"~"+so.Name())
	if _, isIface := s.Underlying().(*gotypes.Interface); isIface {
		return
	}
	if s.NumMethods() != f.NumMethods() {
		w.add("named-nummethods", "%s: %v has %d declared methods, fork has %d", path, so, s.NumMethods(), f.NumMethods())
		return
	}
	fm := map[string]*types.Func{}
	for i := 0; i < f.NumMethods(); i++ {
		fm[f.Method(i).Id()] = f.Method(i)
	}
	for i := 0; i < s.NumMethods(); i++ {
		m := s.Method(i)
		b := fm[m.Id()]
		if b == nil {
			w.add("named-method-missing", "%s: %v.%s", path, so, m.Name())
			continue
		}
		ss, bs := m.Type().(*gotypes.Signature), b.Type().(*types.Signature)
		if c30generic(ss, 0) {
			w.generic++
			continue
		}
		if (ss.Recv() == nil) != (bs.Recv() == nil) {
			w.add("method-recv", "%s: %v.%s", path, so, m.Name())
		} else if ss.Recv() != nil {
			w.walk(ss.Recv().Type(), bs.Recv().Type(), path+"."+m.Name()+".recv")
		}
		w.sig(ss, bs, path+"."+m.Name())
	}
}

// c30compare checks one converted package against its standard original.
func c30compare(sp *gotypes.Package, fp *types.Package, add func(string, string, ...interface{}), res *Result) {
	w := &c30walker{add: add, seen: map[*gotypes.TypeName]bool{}}
	if fp == nil {
		add("package-nil", "%s", sp.Path())
		return
	}
	if fp.Path() != sp.Path() || fp.Name() != sp.Name() {
		add("package-name", "std %s %s fork %s %s", sp.Path(), sp.Name(), fp.Path(), fp.Name())
	}
	nobj, ngen := 0, 0
	for _, name := range sp.Scope().Names() {
		so := sp.Scope().Lookup(name)
		if !so.Exported() {
			continue
		}
		if _, ok := so.(*gotypes.Builtin); ok {
			// package unsafe: built-in functions are not one of the four object kinds of the property
			res.Tags = append(res.Tags, "builtin-skipped")
			continue
		}
		nobj++
		fo := fp.Scope().Lookup(name)
		generic := false
		switch o := so.(type) {
		case *gotypes.Func:
			generic = c30generic(o.Type(), 0)
		case *gotypes.TypeName:
			if n, ok := o.Type().(*gotypes.Named); ok {
				// generic types, and constraint interfaces (unions, ~T): generic declarations
				generic = n.TypeParams().Len() > 0 || c30generic(n.Underlying(), 0)
			} else {
				generic = c30generic(o.Type(), 0)
			}
			if o.IsAlias() {
				if _, ok := o.Type().(*gotypes.Named); ok {
					// alias of a named type: converted as that named type
				}
			}
		default:
			generic = c30generic(so.Type(), 0)
		}
		if generic {
			ngen++
			continue
		}
		if fo == nil {
			add("object-missing:"+c30kind(so), "%s.%s (%s) is missing from the converted package", sp.Path(), name, c30kind(so))
			continue
		}
		if a, b := c30kind(so), c30fkind(fo); a != b {
			add("object-kind", "%s.%s: std %s fork %s", sp.Path(), name, a, b)
			continue
		}
		if sc, ok := so.(*gotypes.Const); ok {
			fc := fo.(*types.Const)
			if sc.Val().Kind() != fc.Val().Kind() || !constant.Compare(sc.Val(), token.EQL, fc.Val()) {
				add("const-value", "%s.%s: std %v fork %v", sp.Path(), name, sc.Val(), fc.Val())
			}
		}
		w.walk(so.Type(), fo.Type(), name)
		if tn, ok := so.(*gotypes.TypeName); ok && tn.IsAlias() != fo.(*types.TypeName).IsAlias() {
			// the fork predates alias declarations being recorded: an alias becomes the type it denotes
			res.Tags = append(res.Tags, "alias-object")
		}
		// printed form
		ss := c30anyRe.ReplaceAllString(gotypes.TypeString(so.Type(), c30qs), "interface{}")
		fs := types.TypeString(fo.Type(), c30qf)
		if ss != fs && !c30mentionsGenericDeep(so.Type()) {
			add("typestring:"+c30kind(so), "%s.%s: std %s | fork %s", sp.Path(), name, truncate(ss, 200), truncate(fs, 200))
		}
		// method sets
		if tn, ok := so.(*gotypes.TypeName); ok {
			c30methodSets(tn.Type(), fo.Type(), sp.Path()+"."+name, add, w)
		}
	}
	// nothing exported on the fork side that the standard package does not export
	for _, name := range fp.Scope().Names() {
		if fo := fp.Scope().Lookup(name); fo.Exported() {
			if so := sp.Scope().Lookup(name); so == nil {
				add("object-extra", "%s.%s exists only in the converted package", sp.Path(), name)
			}
		}
	}
	res.Tags = append(res.Tags, fmt.Sprintf("objects:%d", nobj/20*20))
	if ngen > 0 {
		res.Tags = append(res.Tags, "generic-skipped")
	}
	if w.generic > 0 {
		res.Tags = append(res.Tags, "generic-cut")
	}
}

var c30genericString = regexp.MustCompile(`\[[^\]0-9][^\]]*\]`)

// an instantiated generic type prints as pkg.Name[args]: its printed form cannot match
func c30mentionsGenericDeep(t gotypes.Type) bool {
	s := gotypes.TypeString(t, c30qs)
	for _, m := range c30genericString.FindAllString(s, -1) {
		if !strings.HasPrefix(m, "[]") && !strings.Contains(m, "map[") {
			return true
		}
	}
	return false
}

func c30methodSets(st gotypes.Type, ft types.Type, name string, add func(string, string, ...interface{}), w *c30walker) {
	for _, ptr := range []bool{false, true} {
		s, f := st, ft
		if ptr {
			if _, isIface := st.Underlying().(*gotypes.Interface); isIface {
				continue
			}
			s, f = gotypes.NewPointer(st), types.NewPointer(ft)
		}
		sm, fm := gotypes.NewMethodSet(s), types.NewMethodSet(f)
		var sn, fn []string
		gen := map[string]bool{} // methods whose signature mentions generics: excluded on both sides
		for i := 0; i < sm.Len(); i++ {
			if !c30generic(sm.At(i).Type(), 0) {
				sn = append(sn, sm.At(i).Obj().Id())
			} else {
				gen[sm.At(i).Obj().Id()] = true
			}
		}
		for i := 0; i < fm.Len(); i++ {
			if id := fm.At(i).Obj().Id(); !gen[id] {
				fn = append(fn, id)
			}
		}
		if strings.Join(sn, ",") != strings.Join(fn, ",") {
			// methods promoted from generic instances (e.g. atomic.Pointer[T]) cannot be converted
			if w.generic > 0 && len(fn) < len(sn) && c30subset(fn, sn) {
				continue
			}
			add("methodset", "%s (pointer=%v): std {%s} fork {%s}", name, ptr, truncate(strings.Join(sn, ","), 200), truncate(strings.Join(fn, ","), 200))
		}
	}
}

func c30subset(a, b []string) bool {
	m := map[string]bool{}
	for _, x := range b {
		m[x] = true
	}
	for _, x := range a {
		if !m[x] {
			return false
		}
	}
	return true
}

func c30kind(o gotypes.Object) string {
	switch o.(type) {
	case *gotypes.Const:
		return "const"
	case *gotypes.Var:
		return "var"
	case *gotypes.Func:
		return "func"
	case *gotypes.TypeName:
		return "type"
	}
	return fmt.Sprintf("%T", o)
}

func c30fkind(o types.Object) string {
	switch o.(type) {
	case *types.Const:
		return "const"
	case *types.Var:
		return "var"
	case *types.Func:
		return "func"
	case *types.TypeName:
		return "type"
	}
	return fmt.Sprintf("%T", o)
}

// ---------------------------------------------------------------- exec

func c30exec(op string) (res Result) {
	f := strings.SplitN(op, " ", 2)
	res = Result{Out: "ok", Tags: []string{"op:" + f[0]}, Nontrivial: true}
	var viol []c29viol
	add := func(key, format string, args ...interface{}) {
		if len(viol) < 12 {
			viol = append(viol, c29viol{key, fmt.Sprintf(format, args...)})
		}
	}
	defer func() {
		if e := recover(); e != nil {
			add(f[0]+"-panic", "%s: %v", truncate(op, 80), truncate(oneLine(fmt.Sprint(e)), 300))
		}
		res = c29finish(res, viol)
	}()
	c30init()
	switch f[0] {
	case "pkg":
		sp, err := c30imp.Import(f[1])
		if err != nil {
			res.Tags = append(res.Tags, "import-failed")
			res.Nontrivial = false
			return
		}
		fp := c30conv.Package(sp)
		c30compare(sp, fp, add, &res)
	case "ximp":
		imp := xr.DefaultImporter()
		fp, err := imp.Import(f[1])
		if err != nil || fp == nil {
			res.Tags = append(res.Tags, "ximp-unavailable")
			res.Nontrivial = false
			return
		}
		sp, err := c30imp.Import(f[1])
		if err != nil {
			res.Tags = append(res.Tags, "import-failed")
			return
		}
		// a different converter: the identity maps of the run-wide one do not apply
		s2f, f2s := c30s2f, c30f2s
		c30s2f, c30f2s = map[*gotypes.TypeName]*types.Named{}, map[*types.Named]*gotypes.TypeName{}
		c30compare(sp, fp, add, &res)
		c30s2f, c30f2s = s2f, f2s
	case "syn":
		res.Out = c30syn(f[1], add, &res)
	default:
		res.Out = "ok"
		res.Nontrivial = false
	}
	return
}

// ---------------------------------------------------------------- generator

func c30stdPackages() []string {
	cmd := exec.Command("go", "list", "std")
	cmd.Env = append(cmd.Environ(), "GOFLAGS=-mod=mod", "GOPROXY=off", "GOTOOLCHAIN=local")
	out, err := cmd.Output()
	if err != nil {
		return nil
	}
	var ps []string
	for _, l := range strings.Split(string(out), "\n") {
		l = strings.TrimSpace(l)
		if l == "" || strings.HasPrefix(l, "vendor/") || strings.Contains(l, "internal") {
			continue
		}
		ps = append(ps, l)
	}
	sort.Strings(ps)
	return ps
}

var c30always = []string{"errors", "io", "fmt", "sort", "strings", "strconv", "bytes", "bufio", "time", "sync", "sync/atomic", "reflect", "os", "math", "math/big",
	"encoding/json", "unicode", "context", "path/filepath", "log", "regexp", "container/list", "go/token", "net/http"}

func c30gen(r *rand.Rand, tier string, emit func(string)) {
	nsyn := 150
	if tier != "quick" {
		nsyn = 3000
	}
	for i := 0; i < nsyn; i++ {
		if op := c30genSyn(r, i); op != "" {
			emit(op)
		}
	}
	all := c30stdPackages()
	pick := map[string]bool{}
	for _, p := range c30always {
		pick[p] = true
	}
	if tier != "quick" {
		for _, p := range all {
			pick[p] = true
		}
	} else {
		for i := 0; i < 4 && len(all) > 0; i++ {
			pick[all[r.Intn(len(all))]] = true
		}
	}
	var sel []string
	for p := range pick {
		sel = append(sel, p)
	}
	sort.Strings(sel)
	// a seeded order: the converter is shared, so the order in which packages reach it matters
	r.Shuffle(len(sel), func(i, j int) { sel[i], sel[j] = sel[j], sel[i] })
	for _, p := range sel {
		emit("pkg " + p)
	}
	for _, p := range []string{"errors", "io", "sort", "time"} {
		emit("ximp " + p)
	}
}

func init() {
	register(&Prop{
		ID:   "C30",
		Rule: "synthetic packages (random named types with cycles, methods, interfaces with embedding, shared signatures) converted by a fresh Converter and dumped, compared with the Lean model; every exported object of standard packages (24 fixed + 4 seeded in quick, all in thorough) converted by one shared Converter in a seeded order and compared with the original: names, kinds, constant values, type strings, method sets, parallel structure walk, identity of named types",
		Gen:  c30gen,
		Exec: c30exec,
		Exhaustive: func(tier string) bool {
			return tier != "quick"
		},
	})
	_ = ast.IsExported
	_ = parser.ParseFile
}
