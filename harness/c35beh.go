package main

func c35behCount(tier string) int { return 0 }

func c35behPrepare(ops []string) {}

func c35behExec(arg string) Result { return Result{Out: "beh"} }
