package main

// C35 behavioural family: `beh SEED`.
//
// A random program is assembled from a library of generic functions and types written once with
// placeholders (`@{Name|args}` = reference to an instance, `%P` = parameter list) and rendered
//
//	(1) with gomacro generics          func Map#[T,U](...)  ... Map#[int,string](...)
//	(2) as hand-specialised copies     func Map__int_string(...)    (parameters textually replaced,
//	                                   transitively for the generics referenced by the bodies)
//	(3) as Go 1.18 type parameters     func Map[T any, U any](...)  ... Map[int,string](...)   (compiled Go)
//
// The calls are made at top level and from functions whose scopes rebind the parameter names
// (`type T = string` at one site, `type T = []int` at another) or declare local named types.
// (1) and (2) are evaluated by the real fast interpreter (two interpreters), (3) by the Go toolchain
// (runGoBatch, once for all ops).  Oracle: the three outputs agree call by call; after all calls of
// (1) the size of every Instances cache equals the number of distinct (generic, argument list)
// pairs of the program, computed from the program text: nothing instantiated twice.
// Programs with constant parameters have no rendering (3).  Two fixed programs pin defects found: seed 0 = constants
// of different named types with equal value share a cache key; seed 1 = the body of a local generic
// type sees declarations made after it.

import (
	"fmt"
	"math/rand"
	"regexp"
	"sort"
	"strconv"
	"strings"

	"github.com/cosmos72/gomacro/fast"
	etoken "github.com/cosmos72/gomacro/go/etoken"
)

type behGeneric struct {
	name   string
	params []string // type parameter names (constant parameters: upper-case N...)
	consts []bool   // parameter i is a constant
	goCons []string // Go constraint of parameter i
	isType bool
	alias  bool   // generic alias `type Name#[T] = ...` (no Go 1.21 rendering)
	decl   string // for a function: "(xs []T) T { ... }", for a type: "struct { V T }"
}

const behOrdered = "interface{ ~int | ~uint8 | ~float64 | ~string }"
const behNum = "interface{ ~int | ~uint8 | ~float64 }"

var behLib = []behGeneric{
	{name: "Id", params: []string{"T"}, goCons: []string{"any"}, decl: "(x T) T { return x }"},
	{name: "Box", params: []string{"T"}, goCons: []string{"any"}, isType: true, decl: "struct { V T }"},
	{name: "Pair", params: []string{"K", "V"}, goCons: []string{"any", "any"}, isType: true, decl: "struct { Key K; Val V }"},
	{name: "List", params: []string{"T"}, goCons: []string{"any"}, isType: true, decl: "struct { Head T; Tail *@{List|T} }"},
	{name: "Tree", params: []string{"K", "V"}, goCons: []string{behOrdered, "any"}, isType: true, decl: "struct { Key K; Val V; L, R *@{Tree|K,V} }"},
	{name: "Wrap", params: []string{"T"}, goCons: []string{"any"}, decl: "(x T) @{Box|T} { return @{Box|T}{x} }"},
	{name: "MkPair", params: []string{"K", "V"}, goCons: []string{"any", "any"}, decl: "(k K, v V) @{Pair|K,V} { return @{Pair|K,V}{k, v} }"},
	{name: "Swap", params: []string{"K", "V"}, goCons: []string{"any", "any"}, decl: "(p @{Pair|K,V}) @{Pair|V,K} { return @{MkPair|V,K}(p.Val, p.Key) }"},
	{name: "Sum", params: []string{"T"}, goCons: []string{behOrdered}, decl: "(xs []T) T { var s T; for _, x := range xs { s += x }; return s }"},
	{name: "MaxOf", params: []string{"T"}, goCons: []string{behOrdered}, decl: "(xs []T) T { var m T; for i, x := range xs { if i == 0 || x > m { m = x } }; return m }"},
	{name: "Map", params: []string{"T", "U"}, goCons: []string{"any", "any"}, decl: "(xs []T, f func(T) U) []U { r := make([]U, 0, len(xs)); for _, x := range xs { r = append(r, f(x)) }; return r }"},
	{name: "Filter", params: []string{"T"}, goCons: []string{"any"}, decl: "(xs []T, f func(T) bool) []T { var r []T; for _, x := range xs { if f(x) { r = append(r, x) } }; return r }"},
	{name: "Reduce", params: []string{"T", "U"}, goCons: []string{"any", "any"}, decl: "(xs []T, z U, f func(U, T) U) U { for _, x := range xs { z = f(z, x) }; return z }"},
	{name: "Boxes", params: []string{"T"}, goCons: []string{"any"}, decl: "(xs []T) []@{Box|T} { return @{Map|T,@{Box|T}}(xs, @{Wrap|T}) }"},
	{name: "Twice", params: []string{"T"}, goCons: []string{"any"}, decl: "(x T) []T { return []T{@{Id|T}(x), x} }"},
	{name: "Count", params: []string{"K", "V"}, goCons: []string{"comparable", "any"}, decl: "(m map[K]V) int { n := 0; for range m { n++ }; return n }"},
	{name: "Index", params: []string{"T"}, goCons: []string{"comparable"}, decl: "(xs []T, y T) int { for i, x := range xs { if x == y { return i } }; return -1 }"},
	{name: "Push", params: []string{"T"}, goCons: []string{"any"}, decl: "(l *@{List|T}, x T) *@{List|T} { return &@{List|T}{x, l} }"},
	{name: "Len", params: []string{"T"}, goCons: []string{"any"}, decl: "(l *@{List|T}) int { if l == nil { return 0 }; return 1 + @{Len|T}(l.Tail) }"},
	{name: "ToSlice", params: []string{"T"}, goCons: []string{"any"}, decl: "(l *@{List|T}) []T { var r []T; for ; l != nil; l = l.Tail { r = append(r, l.Head) }; return r }"},
	{name: "FromSlice", params: []string{"T"}, goCons: []string{"any"}, decl: "(xs []T) *@{List|T} { var l *@{List|T}; for _, x := range xs { l = @{Push|T}(l, x) }; return l }"},
	{name: "Insert", params: []string{"K", "V"}, goCons: []string{behOrdered, "any"}, decl: "(t *@{Tree|K,V}, k K, v V) *@{Tree|K,V} { if t == nil { return &@{Tree|K,V}{Key: k, Val: v} }; if k < t.Key { t.L = @{Insert|K,V}(t.L, k, v) } else if k > t.Key { t.R = @{Insert|K,V}(t.R, k, v) } else { t.Val = v }; return t }"},
	{name: "Walk", params: []string{"K", "V"}, goCons: []string{behOrdered, "any"}, decl: "(t *@{Tree|K,V}, f func(K, V)) { if t != nil { @{Walk|K,V}(t.L, f); f(t.Key, t.Val); @{Walk|K,V}(t.R, f) } }"},
	{name: "Fib", params: []string{"T"}, goCons: []string{behNum}, decl: "(n T) T { if n <= 2 { return 1 }; return @{Fib|T}(n-1) + @{Fib|T}(n-2) }"},
	{name: "Compose", params: []string{"A", "B", "C"}, goCons: []string{"any", "any", "any"}, decl: "(f func(A) B, g func(B) C) func(A) C { return func(a A) C { return g(f(a)) } }"},
	{name: "Apply2", params: []string{"T"}, goCons: []string{"any"}, decl: "(x T, f func(T) T) T { return @{Compose|T,T,T}(f, f)(x) }"},
	// bodies that read AND write file-scope variables and call file-scope functions: the instance must
	// be materialised in the Env of the declaring scope wherever it is referenced from
	{name: "Affine", params: []string{"T"}, goCons: []string{behNum}, decl: "(x T) T { return x*T(gScale) + T(gOffset) }"},
	{name: "Tally", params: []string{"T"}, goCons: []string{"any"}, decl: "(x T) int { gCount++; gLog = append(gLog, fmt.Sprint(x)); return gBump(len(gLog)) }"},
	{name: "Affine2", params: []string{"T"}, goCons: []string{behNum}, decl: "(x T) T { gOffset++; return @{Affine|T}(@{Affine|T}(x)) }"},
	{name: "Acc", params: []string{"T"}, goCons: []string{behNum}, decl: "(xs []T) T { var s T; for _, x := range xs { s += x * T(gScale); gCount++ }; return s }"},
	{name: "Stamp", params: []string{"K", "V"}, goCons: []string{"any", "any"}, decl: "(k K, v V) @{Pair|K,string} { return @{MkPair|K,string}(k, fmt.Sprint(v, \"#\", gBump(1), gScale)) }"},
	// constant parameters (no Go rendering)
	{name: "Vec", params: []string{"T", "N"}, consts: []bool{false, true}, isType: true, decl: "[N]T"},
	{name: "Fill", params: []string{"T", "N"}, consts: []bool{false, true}, decl: "(x T) @{Vec|T,N} { var a @{Vec|T,N}; for i := range a { a[i] = x }; return a }"},
	{name: "AddN", params: []string{"N"}, consts: []bool{true}, decl: "(x int) int { return x + N }"},
	// generic aliases (gomacro only: Go 1.21 has no generic aliases)
	{name: "Opt", params: []string{"T"}, consts: []bool{false}, isType: true, alias: true, decl: "struct { Ok bool; V T }"},
	{name: "Seq", params: []string{"T"}, consts: []bool{false}, isType: true, alias: true, decl: "[]T"},
	{name: "Some", params: []string{"T"}, consts: []bool{false}, decl: "(x T) @{Opt|T} { return @{Opt|T}{true, x} }"},
	{name: "Rev", params: []string{"T"}, consts: []bool{false}, decl: "(xs @{Seq|T}) @{Seq|T} { r := make(@{Seq|T}, 0, len(xs)); for i := len(xs) - 1; i >= 0; i-- { r = append(r, xs[i]) }; return r }"},
}

var behByName = map[string]*behGeneric{}

func init() {
	for i := range behLib {
		behByName[behLib[i].name] = &behLib[i]
	}
}

// innermost-first expansion of @{Name|args}: the last "@{" of the string has no placeholder inside
func behExpand(s string, f func(name string, args []string) string) string {
	for {
		i := strings.LastIndex(s, "@{")
		if i < 0 {
			return s
		}
		bar := strings.IndexByte(s[i:], '|')
		if bar < 0 {
			return s
		}
		name := s[i+2 : i+bar]
		depth := 0
		end := -1
		for j := i + bar + 1; j < len(s); j++ {
			switch s[j] {
			case '{':
				depth++
			case '}':
				if depth == 0 {
					end = j
				}
				depth--
			}
			if end >= 0 {
				break
			}
		}
		if end < 0 {
			return s
		}
		args := behSplitArgs(s[i+bar+1 : end])
		s = s[:i] + f(name, args) + s[end+1:]
	}
}

// split at top-level commas
func behSplitArgs(s string) []string {
	var out []string
	depth := 0
	cur := ""
	for _, c := range s {
		switch c {
		case '[', '(', '{':
			depth++
		case ']', ')', '}':
			depth--
		}
		if c == ',' && depth == 0 {
			out = append(out, strings.TrimSpace(cur))
			cur = ""
			continue
		}
		cur += string(c)
	}
	if strings.TrimSpace(cur) != "" {
		out = append(out, strings.TrimSpace(cur))
	}
	return out
}

func behMangle(name string, args []string) string {
	s := name + "__" + strings.Join(args, "_")
	var b strings.Builder
	for _, c := range s {
		switch {
		case c >= 'a' && c <= 'z', c >= 'A' && c <= 'Z', c >= '0' && c <= '9', c == '_':
			b.WriteRune(c)
		case c == '[':
			b.WriteString("L")
		case c == ']':
			b.WriteString("J")
		case c == '*':
			b.WriteString("P")
		default:
			b.WriteString("x")
		}
	}
	return b.String()
}

var behIdentRe = regexp.MustCompile(`\b[A-Za-z_]\w*\b`)

func behSubstParams(s string, params, args []string) string {
	// simultaneous replacement of the parameter identifiers (not of field selectors `.V`)
	m := map[string]string{}
	for i, p := range params {
		m[p] = args[i]
	}
	var b strings.Builder
	last := 0
	for _, loc := range behIdentRe.FindAllStringIndex(s, -1) {
		id := s[loc[0]:loc[1]]
		a, ok := m[id]
		if !ok || (loc[0] > 0 && s[loc[0]-1] == '.') {
			continue
		}
		b.WriteString(s[last:loc[0]])
		b.WriteString(a)
		last = loc[1]
	}
	b.WriteString(s[last:])
	return b.String()
}

type behCall struct {
	site   []string // local declarations of the site function ("" = top level)
	alias  map[string]string
	expr   string // with @{..} placeholders
	specOK bool   // the hand-specialised rendering exists (no local named types)
	shape  int    // where the instance is referenced from: see behShapes
}

type behProg struct {
	seed      int
	globals   string // non-generic global declarations
	gens      []string
	calls     []behCall
	hasC      bool // uses constant parameters: no compiled-Go rendering
	fixed     string
	specDecls string // fixed programs: the hand-specialised declarations
}

type behType struct {
	text string
	kind string // int, uint8, float64, string, other
	cmp  bool   // comparable
	vals []string
}

var behTypes = []behType{
	{"int", "int", true, []string{"3", "-7", "10"}},
	{"uint8", "uint8", true, []string{"uint8(2)", "uint8(200)", "uint8(9)"}},
	{"float64", "float64", true, []string{"1.5", "-2.25", "8.0"}},
	{"string", "string", true, []string{`"ab"`, `"z"`, `"hello"`}},
	{"MyInt", "int", true, []string{"MyInt(4)", "MyInt(-1)", "MyInt(6)"}},
	{"MyStr", "string", true, []string{`MyStr("q")`, `MyStr("rs")`, `MyStr("a")`}},
	{"bool", "other", true, []string{"true", "false", "true"}},
	{"[]int", "other", false, []string{"[]int{1, 2}", "[]int{}", "[]int{5}"}},
	{"map[string]int", "other", false, []string{`map[string]int{"a": 1}`, `map[string]int{}`, `map[string]int{"x": 2, "b": 3}`}},
	{"[2]string", "other", true, []string{`[2]string{"a", "b"}`, `[2]string{}`, `[2]string{"x", ""}`}},
	{"struct{ A int; B string }", "other", true, []string{`struct{ A int; B string }{1, "s"}`, `struct{ A int; B string }{}`, `struct{ A int; B string }{7, "t"}`}},
	{"Point", "other", true, []string{"Point{1, 2}", "Point{}", "Point{-3, 4}"}},
	{"@{Box|int}", "other", true, []string{"@{Box|int}{5}", "@{Box|int}{}", "@{Box|int}{-2}"}},
	{"@{Pair|string,[]int}", "other", false, []string{`@{Pair|string,[]int}{"k", []int{1}}`, `@{Pair|string,[]int}{}`, `@{Pair|string,[]int}{"m", nil}`}},
}

const behGlobals = `var gScale = 10
var gOffset = 1
var gCount = 0
var gLog []string
func gBump(n int) int { gCount += n; return gCount }
type MyInt int
type MyStr string
type Point struct{ X, Y int }
`

func (p *behProg) pickType(r *rand.Rand, pred func(behType) bool) behType {
	for {
		t := behTypes[r.Intn(len(behTypes))]
		if pred(t) {
			return t
		}
	}
}

func behSlice(t behType) string { return "[]" + t.text + "{" + strings.Join(t.vals, ", ") + "}" }

func behGenProg(seed int) *behProg {
	p := &behProg{seed: seed, globals: behGlobals}
	switch seed {
	case 0:
		// constants of two named types with the same value are different arguments
		p.fixed = "const-key-ignores-type"
		p.hasC = true
		p.globals += "type CA int\nfunc (CA) Name() string { return \"CA\" }\ntype CB int\nfunc (CB) Name() string { return \"CB\" }\nconst ca CA = 3\nconst cb CB = 3\n"
		p.gens = []string{"func Who#[N]() string { return N.Name() }"}
		p.calls = []behCall{{expr: "@{Who|ca}()", specOK: true}, {expr: "@{Who|cb}()", specOK: true}, {expr: "@{Who|ca}()", specOK: true}}
		p.specDecls = "func Who__ca() string { return ca.Name() }\nfunc Who__cb() string { return cb.Name() }\n"
		return p
	case 1:
		// a LOCAL generic type: names of its body are looked up when it is instantiated, in the scope as
		// it is then (later local declarations are visible), not where the declaration stands
		p.fixed = "local-generic-body-sees-later-declarations"
		p.hasC = true
		p.globals += "type X string\n"
		p.gens = []string{"func f() string { type L#[T] struct{ A T; B X }; type X int; var l L#[int]; return fmt.Sprintf(\"%T\", l.B) }"}
		p.specDecls = "func f() string { type L__int struct{ A int; B X }; type X int; var l L__int; return fmt.Sprintf(\"%T\", l.B) }\n"
		p.calls = []behCall{{expr: "f()", specOK: true}}
		return p
	}
	r := rand.New(rand.NewSource(int64(seed)))
	any := func(behType) bool { return true }
	num := func(t behType) bool { return t.kind == "int" || t.kind == "uint8" || t.kind == "float64" }
	ord := func(t behType) bool { return t.kind != "other" }
	cmp := func(t behType) bool { return t.cmp }
	ncalls := 4 + r.Intn(6)
	for i := 0; i < ncalls; i++ {
		var c behCall
		c.specOK = true
		t := p.pickType(r, any)
		u := p.pickType(r, any)
		// at a site, the types are reached through local aliases named like the parameters
		tn, un := t.text, u.text
		switch r.Intn(3) {
		case 0:
			names := [][2]string{{"T", "U"}, {"K", "V"}, {"U", "T"}, {"V", "K"}}[r.Intn(4)]
			c.alias = map[string]string{names[0]: t.text, names[1]: u.text}
			c.site = []string{"type " + names[0] + " = " + t.text, "type " + names[1] + " = " + u.text}
			tn, un = names[0], names[1]
		}
		k := r.Intn(21)
		if r.Intn(5) < 2 {
			// generics over file-scope state
			k = 21 + r.Intn(5)
		}
		if (k == 18 || k == 20) && r.Intn(3) != 0 {
			// programs with constant parameters or generic aliases have no compiled-Go rendering: keep them rarer
			k = r.Intn(18)
		}
		switch k {
		case 0:
			c.expr = fmt.Sprintf("@{Id|%s}(%s)", tn, t.vals[0])
		case 1:
			c.expr = fmt.Sprintf("@{Wrap|%s}(%s).V", tn, t.vals[1])
		case 2:
			c.expr = fmt.Sprintf("@{Swap|%s,%s}(@{MkPair|%s,%s}(%s, %s))", tn, un, tn, un, t.vals[0], u.vals[2])
		case 3:
			t = p.pickType(r, ord)
			c.alias, c.site = nil, nil
			c.expr = fmt.Sprintf("@{Sum|%s}(%s)", t.text, behSlice(t))
		case 4:
			t = p.pickType(r, ord)
			c.alias, c.site = nil, nil
			c.expr = fmt.Sprintf("@{MaxOf|%s}(%s)", t.text, behSlice(t))
		case 5:
			c.expr = fmt.Sprintf("@{Map|%s,string}(%s, func(x %s) string { return fmt.Sprint(x, \"!\") })", tn, behSlice(t), tn)
		case 6:
			c.expr = fmt.Sprintf("len(@{Filter|%s}(%s, func(x %s) bool { return fmt.Sprint(x) != fmt.Sprint(%s) }))", tn, behSlice(t), tn, t.vals[1])
		case 7:
			c.expr = fmt.Sprintf("@{Reduce|%s,string}(%s, \"\", func(z string, x %s) string { return z + fmt.Sprint(x) + \";\" })", tn, behSlice(t), tn)
		case 8:
			c.expr = fmt.Sprintf("@{Boxes|%s}(%s)", tn, behSlice(t))
		case 9:
			c.expr = fmt.Sprintf("@{Twice|%s}(%s)", tn, t.vals[2])
		case 10:
			t = p.pickType(r, cmp)
			c.alias, c.site = nil, nil
			c.expr = fmt.Sprintf("@{Count|%s,%s}(map[%s]%s{%s: %s, %s: %s})", t.text, u.text, t.text, u.text, t.vals[0], u.vals[0], t.vals[1], u.vals[1])
		case 11:
			t = p.pickType(r, cmp)
			c.alias, c.site = nil, nil
			c.expr = fmt.Sprintf("@{Index|%s}(%s, %s)", t.text, behSlice(t), t.vals[2])
		case 12:
			c.expr = fmt.Sprintf("@{ToSlice|%s}(@{FromSlice|%s}(%s))", tn, tn, behSlice(t))
		case 13:
			c.expr = fmt.Sprintf("@{Len|%s}(@{Push|%s}(@{FromSlice|%s}(%s), %s))", tn, tn, tn, behSlice(t), t.vals[0])
		case 14:
			t = p.pickType(r, ord)
			c.alias, c.site = nil, nil
			c.expr = fmt.Sprintf("func() string { var t *@{Tree|%s,%s}; for i, k := range %s { t = @{Insert|%s,%s}(t, k, %s[i]) }; s := \"\"; @{Walk|%s,%s}(t, func(k %s, v %s) { s += fmt.Sprint(k, \"=\", v, \" \") }); return s }()",
				t.text, u.text, behSlice(t), t.text, u.text, behSlice(u), t.text, u.text, t.text, u.text)
		case 15:
			t = p.pickType(r, num)
			c.alias, c.site = nil, nil
			c.expr = fmt.Sprintf("@{Fib|%s}(%d)", t.text, 5+r.Intn(6))
		case 16:
			c.expr = fmt.Sprintf("@{Compose|%s,string,int}(func(x %s) string { return fmt.Sprint(x) }, func(s string) int { return len(s) })(%s)", tn, tn, t.vals[0])
		case 17:
			t = p.pickType(r, num)
			c.alias, c.site = nil, nil
			c.expr = fmt.Sprintf("@{Apply2|%s}(%s, func(x %s) %s { return x + x })", t.text, t.vals[0], t.text, t.text)
		case 18:
			// constant parameter
			p.hasC = true
			n := 1 + r.Intn(3)
			c.expr = fmt.Sprintf("fmt.Sprint(@{Fill|%s,%d}(%s), @{AddN|%d}(10), len(@{Vec|%s,%d}{}))", tn, n, t.vals[0], n+1, tn, n)
		case 21:
			t = p.pickType(r, num)
			c.alias, c.site = nil, nil
			c.expr = fmt.Sprintf("@{Affine|%s}(%s)", t.text, t.vals[0])
		case 22:
			c.expr = fmt.Sprintf("fmt.Sprint(@{Tally|%s}(%s), gCount, len(gLog))", tn, t.vals[1])
		case 23:
			t = p.pickType(r, num)
			c.alias, c.site = nil, nil
			c.expr = fmt.Sprintf("fmt.Sprint(@{Affine2|%s}(%s), gOffset)", t.text, t.vals[2])
		case 24:
			t = p.pickType(r, num)
			c.alias, c.site = nil, nil
			c.expr = fmt.Sprintf("fmt.Sprint(@{Acc|%s}(%s), gCount)", t.text, behSlice(t))
		case 25:
			// the instance is taken as a value first, called later
			c.expr = fmt.Sprintf("func() string { h := @{Stamp|%s,%s}; p := h(%s, %s); return fmt.Sprint(p.Key, p.Val) }()", tn, un, t.vals[0], u.vals[1])
		case 20:
			// generic aliases: the instance IS the aliased type
			p.hasC = true
			c.expr = fmt.Sprintf("fmt.Sprint(@{Some|%s}(%s), @{Rev|%s}(%s), len(@{Seq|%s}{}), @{Opt|%s}{}.Ok)", tn, t.vals[0], tn, behSlice(t), tn, tn)
		case 19:
			// local named types, one per site, same name at every site
			c.specOK = false
			c.alias = nil
			under := [][2]string{{"int", "E(5)"}, {"string", `E("e")`}, {"[]int", "E{1}"}, {"struct{ A int }", "E{3}"}}[r.Intn(4)]
			c.site = []string{"type E " + under[0]}
			// (no nil literal for a pointer to a recursive type: gomacro fails on P(nil, x) even without generics)
			c.expr = fmt.Sprintf("fmt.Sprint(@{Twice|E}(%s), @{Wrap|E}(%s).V, len(@{ToSlice|E}(@{FromSlice|E}([]E{%s}))))", under[1], under[1], under[1])
		}
		c.shape = r.Intn(len(behShapes))
		if c.shape == 0 && len(c.site) > 0 {
			c.shape = 1 + r.Intn(len(behShapes)-1)
		}
		p.calls = append(p.calls, c)
		if r.Intn(3) == 0 {
			// the same instantiation again from the top level (must hit the cache)
			c2 := behCall{expr: behSubstParams(c.expr, keysOf(c.alias), valsOf(c.alias)), specOK: c.specOK, shape: r.Intn(len(behShapes))}
			if c.specOK && len(c.site) > 0 {
				p.calls = append(p.calls, c2)
			}
		}
	}
	// declaration order of the library is shuffled: the order must not matter
	perm := r.Perm(len(behLib))
	for _, i := range perm {
		g := behLib[i]
		if len(g.consts) > 0 && !p.hasC {
			continue
		}
		p.gens = append(p.gens, g.name)
	}
	return p
}

func keysOf(m map[string]string) []string {
	var ks []string
	for k := range m {
		ks = append(ks, k)
	}
	sort.Strings(ks)
	return ks
}

func valsOf(m map[string]string) []string {
	var vs []string
	for _, k := range keysOf(m) {
		vs = append(vs, m[k])
	}
	return vs
}

// rendering modes
const (
	behGomacro = iota
	behSpec
	behGo
)

func behRef(mode int, name string, args []string) string {
	switch mode {
	case behGomacro:
		return name + "#[" + strings.Join(args, ", ") + "]"
	case behGo:
		return name + "[" + strings.Join(args, ", ") + "]"
	}
	return behMangle(name, args)
}

func behDecl(mode int, g *behGeneric) string {
	kw, sep := "func ", ""
	if g.isType {
		kw, sep = "type ", " "
		if g.alias {
			sep = " = "
		}
	}
	body := behExpand(g.decl, func(n string, a []string) string { return behRef(mode, n, a) })
	switch mode {
	case behGomacro:
		return kw + g.name + "#[" + strings.Join(g.params, ", ") + "]" + sep + body
	default:
		var ps []string
		for i, p := range g.params {
			ps = append(ps, p+" "+g.goCons[i])
		}
		return kw + g.name + "[" + strings.Join(ps, ", ") + "]" + sep + body
	}
}

// hand-specialised copies: transitive closure from the calls; canon resolves site aliases
type behSpecSet struct {
	done  map[string]bool
	decls []string
	inst  map[string]map[string]bool // generic -> canonical argument lists (expected cache contents)
}

func (ss *behSpecSet) need(name string, args []string) string {
	m := behMangle(name, args)
	if ss.inst[name] == nil {
		ss.inst[name] = map[string]bool{}
	}
	ss.inst[name][strings.Join(args, ",")] = true
	if ss.done[m] {
		return m
	}
	ss.done[m] = true
	g := behByName[name]
	if g == nil {
		return m
	}
	body := behSubstParamsKeepRefs(g.decl, g.params, args)
	body = behExpand(body, func(n string, a []string) string { return ss.need(n, a) })
	if g.isType && g.alias {
		ss.decls = append(ss.decls, "type "+m+" = "+body)
	} else if g.isType {
		ss.decls = append(ss.decls, "type "+m+" "+body)
	} else {
		ss.decls = append(ss.decls, "func "+m+body)
	}
	return m
}

// substitute parameters everywhere, including inside @{...} argument lists
func behSubstParamsKeepRefs(s string, params, args []string) string {
	return behSubstParams(s, params, args)
}

// Where the instance is referenced from.  %D = local declarations of the site (type aliases named like
// the parameters, local named types), %E = the expression.  The enclosing function always has local int
// variables of its own, so that an instance materialised in the wrong Env computes with them.
// Env depth below the file scope: 0 file scope; 1 function body (and blocks without bindings);
// 2 for/range with :=, if/switch with init statement, block with a local variable, closure in a function
// body; 3 and 4 combinations (closure in a loop, if-init in a loop, loop in a closure in a loop ...).
var behShapes = []string{
	"", // file scope: the call is evaluated directly
	"%D; a, s := 7, 5; _, _ = a, s; return fmt.Sprint(%E)",
	"%D; a, s := 7, 5; _, _ = a, s; if a > 0 { return fmt.Sprint(%E) }; return \"\"",
	"%D; a, s := 7, \"\"; for i := 0; i < 2; i++ { s += fmt.Sprint(%E, i, a, \";\") }; return s",
	"%D; a, s := 7, 5; _ = s; if b := a + 1; b > 0 { return fmt.Sprint(%E, b) }; return \"\"",
	"%D; a, s := 7, 5; _ = s; g := func(b int) string { return fmt.Sprint(%E, b) }; return g(a)",
	"%D; a, s := 7, \"\"; for _, x := range []int{a, 2} { s += fmt.Sprint(%E, x, \";\") }; return s",
	"%D; a, s := 7, 5; _ = s; { c := a + 1; return fmt.Sprint(%E, c) }",
	"%D; a, s := 7, 5; _ = s; switch b := a * 2; b { case 14: return fmt.Sprint(%E, b) }; return \"\"",
	"%D; a, s := 7, \"\"; for i := 0; i < 2; i++ { g := func() string { return fmt.Sprint(%E, i, a) }; s += g() + \";\" }; return s",
	"%D; a, s := 7, \"\"; for i := 0; i < 2; i++ { if k := i + a; k > 0 { s += fmt.Sprint(%E, k, \";\") } }; return s",
	"%D; a, s := 7, 5; _ = s; g := func(b int) string { r := \"\"; for j := 0; j < 2; j++ { r += fmt.Sprint(%E, j, b, \";\") }; return r }; return g(a)",
	"%D; a, s := 7, \"\"; for i := 0; i < 2; i++ { j := i; if k := j + a; k >= 0 { g := func() string { return fmt.Sprint(%E, k) }; s += g() + \";\" } }; return s",
	"%D; a, s := 7, 5; _ = s; g := func(b int) func() string { c := b + 1; return func() string { d := c; if e := d + 1; e > 0 { return fmt.Sprint(%E, e) }; return \"\" } }; return g(a)()",
}

// the function wrapped around a call (shape 0: none)
func behWrap(name string, shape int, decls, expr string) (decl, call string) {
	if shape == 0 {
		return "", "fmt.Sprint(" + expr + ")"
	}
	body := strings.Replace(behShapes[shape], "%D", decls, 1)
	body = strings.TrimPrefix(body, "; ")
	body = strings.Replace(body, "%E", expr, 1)
	return "func " + name + "() string { " + body + " }\n", name + "()"
}

func (p *behProg) render(mode int) (decls string, calls []string, ss *behSpecSet) {
	var b strings.Builder
	b.WriteString(p.globals)
	ss = &behSpecSet{done: map[string]bool{}, inst: map[string]map[string]bool{}}
	if p.fixed != "" {
		for _, g := range p.gens {
			if mode == behGomacro {
				b.WriteString(g + "\n")
			}
		}
		for _, c := range p.calls {
			switch mode {
			case behGomacro:
				calls = append(calls, behExpand(c.expr, func(n string, a []string) string { return behRef(mode, n, a) }))
			case behSpec:
				calls = append(calls, behExpand(c.expr, func(n string, a []string) string { return behMangle(n, a) }))
			}
		}
		if mode == behSpec {
			b.WriteString(p.specDecls)
		}
		return b.String(), calls, ss
	}
	if mode != behSpec {
		for _, n := range p.gens {
			b.WriteString(behDecl(mode, behByName[n]) + "\n")
		}
	}
	for i, c := range p.calls {
		var expr string
		if mode == behSpec {
			if !c.specOK {
				calls = append(calls, "")
				continue
			}
			// canonical arguments: site aliases replaced by their targets (everywhere in the call)
			e := c.expr
			if len(c.alias) > 0 {
				e = behSubstParams(e, keysOf(c.alias), valsOf(c.alias))
			}
			expr = behExpand(e, func(n string, a []string) string { return ss.need(n, a) })
			d, call := behWrap("site"+strconv.Itoa(i), c.shape, "", expr)
			b.WriteString(d)
			calls = append(calls, call)
			continue
		}
		expr = behExpand(c.expr, func(n string, a []string) string { return behRef(mode, n, a) })
		site := behExpand(strings.Join(c.site, "; "), func(n string, a []string) string { return behRef(mode, n, a) })
		d, call := behWrap("site"+strconv.Itoa(i), c.shape, site, expr)
		b.WriteString(d)
		calls = append(calls, call)
	}
	if mode == behSpec {
		// specialised declarations (types and functions may refer to each other in any order:
		// evaluated as one chunk, gomacro sorts the declarations)
		for _, d := range ss.decls {
			b.WriteString(d + "\n")
		}
	}
	return b.String(), calls, ss
}

// expected cache contents: canonical (generic, args) pairs, computed on the spec rendering plus
// the calls that have no spec rendering (local named types: distinct per site)
func (p *behProg) expectedInstances() map[string]int {
	ss := &behSpecSet{done: map[string]bool{}, inst: map[string]map[string]bool{}}
	for i, c := range p.calls {
		e := c.expr
		if len(c.alias) > 0 {
			e = behSubstParams(e, keysOf(c.alias), valsOf(c.alias))
		}
		if !c.specOK {
			e = behSubstParams(e, []string{"E"}, []string{"E" + strconv.Itoa(i)})
		}
		behExpand(e, func(n string, a []string) string { return ss.need(n, a) })
		// the local declarations of the site instantiate too (even if the call does not use them)
		for _, d := range c.site {
			behExpand(d, func(n string, a []string) string { return ss.need(n, a) })
		}
	}
	out := map[string]int{}
	for n, m := range ss.inst {
		out[n] = len(m)
	}
	return out
}

var c35behGo = map[int]string{}
var c35behGoErr string

func c35behCount(tier string) int {
	if tier == "thorough" {
		return 400
	}
	return 40
}

func c35behSeeds(ops []string) []int {
	var seeds []int
	for _, op := range ops {
		if strings.HasPrefix(op, "beh ") {
			n, err := strconv.Atoi(strings.TrimSpace(op[4:]))
			if err == nil {
				seeds = append(seeds, n)
			}
		}
	}
	return seeds
}

func c35behPrepare(ops []string) {
	seeds := c35behSeeds(ops)
	var snips []Snippet
	var idx []int
	for _, s := range seeds {
		p := behGenProg(s)
		if p.hasC || p.fixed != "" {
			continue
		}
		decls, calls, _ := p.render(behGo)
		var body strings.Builder
		for _, c := range calls {
			body.WriteString("emit(" + c + ")\n")
		}
		snips = append(snips, Snippet{Decls: decls, Body: body.String()})
		idx = append(idx, s)
	}
	if len(snips) == 0 {
		return
	}
	outs, err := runGoBatch("C35", snips)
	if err != nil {
		c35behGoErr = oneLine(err.Error())
		return
	}
	for i, s := range idx {
		c35behGo[s] = outs[i]
	}
}

func behEvalAll(decls string, calls []string) (outs []string, ir *fast.Interp, errText string) {
	etoken.GENERICS = etoken.GENERICS_V2_CTI
	ir = newQuietInterp()
	if _, e := evalSrc(ir, "import \"fmt\""); e != "" {
		return nil, ir, "import: " + e
	}
	if _, e := evalSrc(ir, decls); e != "" {
		return nil, ir, "declarations: " + e
	}
	for _, c := range calls {
		if c == "" {
			outs = append(outs, "")
			continue
		}
		vals, e := evalSrc(ir, c)
		if e != "" {
			outs = append(outs, "ERR: "+e)
			continue
		}
		outs = append(outs, oneLine(showVals(vals, false)))
	}
	return outs, ir, ""
}

func c35behExec(arg string) Result {
	seed, err := strconv.Atoi(strings.TrimSpace(arg))
	if err != nil {
		return Result{Out: "bad-op"}
	}
	p := behGenProg(seed)
	res := Result{Out: "beh", Nontrivial: true, Tags: []string{"beh"}}
	fail := func(key, desc string) {
		if res.Viol == "" {
			res.Viol, res.Key = desc, key
		}
	}
	declsG, callsG, _ := p.render(behGomacro)
	outG, ir, e := behEvalAll(declsG, callsG)
	if e != "" {
		fail("beh-generic-program-rejected", "generic program does not evaluate: "+e+" // "+oneLine(declsG))
		return res
	}
	declsS, callsS, _ := p.render(behSpec)
	outS, _, e := behEvalAll(declsS, callsS)
	if e != "" {
		fail("beh-specialised-program-rejected", "specialised program does not evaluate: "+e+" // "+oneLine(declsS))
		return res
	}
	for i := range callsG {
		if callsS[i] != "" && outG[i] != outS[i] {
			key := "instance-differs-from-specialised-copy"
			if p.fixed != "" {
				key = p.fixed
			}
			fail(key, fmt.Sprintf("%s = %q, hand-specialised %s = %q", callsG[i], outG[i], callsS[i], outS[i]))
		}
	}
	if c35behGoErr != "" {
		fail("beh-go-oracle-build", c35behGoErr)
	} else if goOut, ok := c35behGo[seed]; ok {
		res.Tags = append(res.Tags, "beh-go")
		lines := strings.Split(goOut, "\n")
		for i := range callsG {
			if i >= len(lines) {
				fail("beh-go-oracle-short", "compiled Go printed "+strconv.Itoa(len(lines))+" lines: "+oneLine(goOut))
				break
			}
			if outG[i] != lines[i] {
				if callsS[i] != "" && outG[i] == outS[i] {
					// the hand-specialised copy evaluated by gomacro deviates from Go in the same way:
					// generic = specialised holds, the difference is not about generics (e.g. gomacro's
					// Push(l *L, x bool) on a recursive struct: "reflect.Value.Bool on struct Value")
					res.Tags = append(res.Tags, "beh-gomacro-differs-from-go-without-generics-too")
					continue
				}
				fail("instance-differs-from-compiled-go", fmt.Sprintf("%s = %q, compiled Go = %q", callsG[i], outG[i], lines[i]))
			}
		}
	} else if !p.hasC && p.fixed == "" {
		fail("beh-go-oracle-missing", "no compiled-Go output for this program")
	}
	if p.hasC {
		res.Tags = append(res.Tags, "beh-no-go-rendering")
	}
	seenShape := map[int]bool{}
	for _, c := range p.calls {
		if !seenShape[c.shape] && p.fixed == "" {
			seenShape[c.shape] = true
			res.Tags = append(res.Tags, "beh-shape-"+strconv.Itoa(c.shape))
		}
	}
	for _, n := range []string{"Affine#[", "Tally#[", "Affine2#[", "Acc#[", "Stamp#["} {
		if strings.Contains(strings.Join(callsG, " ")+declsG[strings.Index(declsG, "type MyInt"):], n) {
			res.Tags = append(res.Tags, "beh-file-scope-state")
			break
		}
	}
	if strings.Contains(declsG+strings.Join(callsG, " "), "Some#[") {
		res.Tags = append(res.Tags, "beh-generic-alias")
	}
	if strings.Contains(strings.Join(callsG, " "), "Fill#[") {
		res.Tags = append(res.Tags, "beh-const-param")
	}
	if strings.Contains(declsG, "type E ") {
		res.Tags = append(res.Tags, "beh-local-named-type")
	}
	if strings.Contains(declsG, "type T = ") || strings.Contains(declsG, "type U = ") || strings.Contains(declsG, "type K = ") {
		res.Tags = append(res.Tags, "beh-site-alias-shadows-parameter")
	}
	// memoisation: every cache holds exactly the distinct argument lists of the program
	if p.fixed == "" {
		want := p.expectedInstances()
		for _, n := range p.gens {
			b := ir.Comp.Binds[n]
			if b == nil {
				continue
			}
			got := -1
			switch g := b.Value.(type) {
			case *fast.GenericType:
				got = len(g.Instances)
			case *fast.GenericFunc:
				got = len(g.Instances)
			}
			if got != want[n] {
				key := "instances-count"
				if got > want[n] {
					key = "same-arguments-instantiated-twice"
				}
				fail(key, fmt.Sprintf("generic %s holds %d instances, the program uses %d distinct argument lists", n, got, want[n]))
			}
		}
	}
	return res
}
