package main

// C24: the forked parser (go/parser of gomacro) parses extension-free, non-generic Go exactly like GOROOT go/parser.
//
// Ops (Lean side: lean/Drv/C24.lean)
//   prec V                      go/token.Token(V).Precedence() of the LINKED library vs the extracted tables
//   top K1 K2 ...               one source item per kind, concatenated; the fork's Parser.Parse vs the model's loop
//                               (which production did every returned node come from)
//   bin TOK...                  an expression token list; the fork's and go/parser's tree vs the model's parseExpr
//   file ROOT REL M | KINDS     a real file; M=1: ParseComments.  KINDS = first tokens of the reference's package
//   src HEX M | KINDS           clause and declarations ("-" if the reference rejects the input): the model's loop
//   (src covers generated, mutated and erroneous inputs)  predicts the productions; the oracle compares both REAL parsers
//
// Oracle (c24compare): see notes/C24.md.

import (
	"encoding/hex"
	"fmt"
	"go/ast"
	stdparser "go/parser"
	goscanner "go/scanner"
	"go/token"
	"go/types"
	"math/rand"
	"sort"
	"strconv"
	"strings"

	"github.com/cosmos72/gomacro/go/etoken"
	"github.com/cosmos72/gomacro/go/parser"
	forkscanner "github.com/cosmos72/gomacro/go/scanner"
)

func init() {
	register(&Prop{
		ID:         "C24",
		Rule:       "prec: every token value; top: all sequences of <=2 item kinds then random ones; bin: all operator pairs/triples over a small operand set, random well-formed and malformed expression token lists; file/src: sampled (quick) or all (thorough) .go files of GOROOT/src and the repository, grammar-generated files, token- and byte-level mutations, truncations; non-trivial = both parsers accept and >= 1 declaration compared, or an expression with >= 2 operators",
		Gen:        c24gen,
		Exec:       c24exec,
		Exhaustive: func(string) bool { return false },
	})
}

// ---------------------------------------------------------------- running the two parsers

type c24forkRes struct {
	nodes []ast.Node
	fset  *etoken.FileSet
	err   error
	pan   string
}

func c24forkParse(name string, src []byte, mode parser.Mode) (res c24forkRes) {
	defer func() {
		if e := recover(); e != nil {
			res.pan = fmt.Sprint(e)
		}
	}()
	var p parser.Parser
	res.fset = etoken.NewFileSet()
	p.Configure(mode, '~')
	p.Init(res.fset, name, 0, src)
	res.nodes, res.err = p.Parse()
	return
}

func c24firstErr(err error) (pos token.Position, msg string, n int) {
	if el, ok := err.(goscanner.ErrorList); ok && len(el) > 0 {
		return el[0].Pos, el[0].Msg, len(el)
	}
	if el, ok := err.(forkscanner.ErrorList); ok && len(el) > 0 {
		return el[0].Pos, el[0].Msg, len(el)
	}
	if err != nil {
		return token.Position{}, err.Error(), 1
	}
	return
}

// c24isExt: does the reference TOKEN stream contain a lexical extension of gomacro (macro char '~', '#', the word
// `macro`)?  Decided on the reference scanner's tokens, as in C23 (a '#' inside a string is not an extension).
func c24isExt(src []byte) bool {
	fset := token.NewFileSet()
	f := fset.AddFile("", -1, len(src))
	var s goscanner.Scanner
	s.Init(f, src, func(token.Position, string) {}, 0)
	for {
		_, tok, lit := s.Scan()
		switch {
		case tok == token.EOF:
			return false
		case tok == token.TILDE:
			return true
		case tok == token.ILLEGAL && (lit == "#" || lit == "~"):
			return true
		case tok == token.IDENT && lit == "macro":
			return true
		}
	}
}

// c24usesGenerics reports which Go 1.18 type-parameter syntax the reference tree uses ("" if none).
// Instantiations are recognised in TYPE positions only: in expression position `f[T](x)` is an index expression
// for both parsers.
func c24usesGenerics(f *ast.File) (why string) {
	set := func(s string) {
		if why == "" {
			why = s
		}
	}
	var typeExpr func(e ast.Expr)
	typeExpr = func(e ast.Expr) {
		switch e := e.(type) {
		case *ast.IndexExpr, *ast.IndexListExpr:
			set("instantiation")
		case *ast.ParenExpr:
			typeExpr(e.X)
		case *ast.StarExpr:
			typeExpr(e.X)
		case *ast.ArrayType:
			typeExpr(e.Elt)
		case *ast.MapType:
			typeExpr(e.Key)
			typeExpr(e.Value)
		case *ast.ChanType:
			typeExpr(e.Value)
		case *ast.Ellipsis:
			typeExpr(e.Elt)
		}
	}
	fields := func(fl *ast.FieldList) {
		if fl == nil {
			return
		}
		for _, f := range fl.List {
			typeExpr(f.Type)
		}
	}
	ast.Inspect(f, func(n ast.Node) bool {
		switch n := n.(type) {
		case *ast.FuncType:
			if n.TypeParams != nil {
				set("typeparams-func")
			}
			fields(n.Params)
			fields(n.Results)
		case *ast.TypeSpec:
			if n.TypeParams != nil {
				set("typeparams-type")
			}
			typeExpr(n.Type)
		case *ast.FuncDecl:
			fields(n.Recv)
		case *ast.IndexListExpr:
			set("instantiation")
		case *ast.InterfaceType:
			if n.Methods != nil {
				for _, m := range n.Methods.List {
					if len(m.Names) == 0 {
						switch m.Type.(type) {
						case *ast.Ident, *ast.SelectorExpr:
						default:
							set("typeset-elem")
						}
					}
				}
			}
		case *ast.UnaryExpr:
			if n.Op == token.TILDE {
				set("typeset-elem")
			}
		case *ast.StructType:
			fields(n.Fields)
		case *ast.ValueSpec:
			typeExpr(n.Type)
		case *ast.CompositeLit:
			typeExpr(n.Type)
		case *ast.TypeAssertExpr:
			typeExpr(n.Type)
		case *ast.ArrayType:
			typeExpr(n.Elt)
		case *ast.MapType:
			typeExpr(n.Key)
			typeExpr(n.Value)
		case *ast.ChanType:
			typeExpr(n.Value)
		}
		return true
	})
	return why
}

// c24slug: stable key part of a parser message: what was expected, not what was found
func c24slug(msg string) string {
	if i := strings.Index(msg, ", found"); i >= 0 {
		msg = msg[:i]
	}
	if i := strings.Index(msg, ": "); i >= 0 && strings.HasPrefix(msg, "syntax error") {
		msg = msg[i+2:]
		if j := strings.Index(msg, ": "); j >= 0 {
			msg = msg[:j]
		}
	}
	var sb strings.Builder
	for _, c := range msg {
		switch {
		case c >= 'a' && c <= 'z' || c >= 'A' && c <= 'Z' || c >= '0' && c <= '9' || c == '_':
			sb.WriteRune(c)
		case c == ' ':
			sb.WriteByte('-')
		case c == '\'' || c == '"':
		default:
			fmt.Fprintf(&sb, "%%%02x", c)
		}
		if sb.Len() > 60 {
			break
		}
	}
	if sb.Len() == 0 {
		return "msg"
	}
	return sb.String()
}

func c24class(n ast.Node) string {
	switch d := n.(type) {
	case *ast.GenDecl:
		switch d.Tok {
		case token.PACKAGE:
			return "package"
		case token.IMPORT:
			return "import"
		}
		return "decl"
	case ast.Decl:
		return "decl"
	case nil:
		return "nil"
	}
	return "stmt"
}

func c24classes(nodes []ast.Node) string {
	var cs []string
	for _, n := range nodes {
		cs = append(cs, c24class(n))
	}
	return strings.Join(cs, " ")
}

// kinds letter of the reference's declarations (p package, i import, c const, t type, v var, f func)
func c24kinds(f *ast.File) string {
	var sb strings.Builder
	sb.WriteByte('p')
	for _, d := range f.Decls {
		switch d := d.(type) {
		case *ast.GenDecl:
			switch d.Tok {
			case token.IMPORT:
				sb.WriteByte('i')
			case token.CONST:
				sb.WriteByte('c')
			case token.TYPE:
				sb.WriteByte('t')
			case token.VAR:
				sb.WriteByte('v')
			default:
				sb.WriteByte('?')
			}
		case *ast.FuncDecl:
			sb.WriteByte('f')
		default:
			sb.WriteByte('?')
		}
	}
	return sb.String()
}

type c24verdict struct {
	out   string
	viol  string
	key   string
	tags  []string
	decls int
}

var c24keySeen = map[string]int{}

// c24compare runs both real parsers on src and checks the property.
func c24compare(name string, src []byte, withComments bool) (v c24verdict) {
	tag := func(t string) { v.tags = append(v.tags, t) }
	viol := func(key, desc string) {
		tag("diff:" + key)
		if v.viol == "" {
			v.viol, v.key = desc, key
		}
	}
	smode := stdparser.SkipObjectResolution
	var fmode parser.Mode
	if withComments {
		smode |= stdparser.ParseComments
		fmode |= parser.ParseComments
		tag("mode:comments")
	} else {
		tag("mode:plain")
	}
	fset := token.NewFileSet()
	sf, serr := stdparser.ParseFile(fset, name, src, smode)
	fr := c24forkParse(name, src, fmode)
	v.out = "-"
	if fr.pan != "" {
		// a panic escaping Parser.Parse is a failure whatever the input is
		tag("fork-panic")
		viol("panic:"+c24slug(strings.TrimPrefix(fr.pan, "go/parser internal error: ")), "Parser.Parse panics: "+fr.pan)
		v.out = "panic"
		return
	}
	if c24isExt(src) {
		tag("skip:lexical-extension")
		return
	}
	gen := ""
	if sf != nil {
		gen = c24usesGenerics(sf)
	}
	if gen != "" {
		tag("skip:generic:" + gen)
		if serr == nil && fr.err == nil {
			tag("generic-but-fork-accepts")
		}
		return
	}
	if serr != nil {
		spos, smsg, _ := c24firstErr(serr)
		tag("std-error:" + c24slug(smsg))
		if fr.err == nil {
			key := "err-missing:" + c24slug(smsg)
			if strings.HasSuffix(smsg, "expected operand, found '{'") {
				key += "-found-lbrace" // the fork's block-inside-an-expression extension
			}
			viol(key, fmt.Sprintf("go/parser reports %s: %s; the fork reports no error (%d nodes)", spos, smsg, len(fr.nodes)))
			return
		}
		fpos, fmsg, _ := c24firstErr(fr.err)
		tag("both-error")
		if fpos.Offset == spos.Offset {
			tag("first-error:same-position")
			if fmsg == smsg {
				tag("first-error:same-message")
			} else {
				tag("first-error:other-message")
			}
		} else {
			tag("first-error:other-position")
		}
		return
	}
	// the reference accepts the input
	tag("std-ok")
	v.out = c24classes(fr.nodes)
	if fr.err != nil {
		fpos, fmsg, n := c24firstErr(fr.err)
		// The statement is about VALID Go.  go/parser leaves some syntax-level checks of the go1.10 parser to the
		// type checker; if go/types rejects this file on the very line of the fork's first error, the input is
		// not valid Go and the fork's error is no violation (it is recorded in the tags).
		msg := c24typesRejects(name, src, fpos.Line)
		if msg == "" && fmsg == "expected expression" && c24typeLiteralAt(sf, fset, fpos.Offset) {
			// go1.10's checkExpr: a type literal / ellipsis / key:value pair where a VALUE is required is never valid
			// Go; go/parser since go1.17 leaves it to the type checker (which may not get that far in this file)
			msg = "type literal used as a value"
		}
		if msg != "" {
			tag("invalid-go:fork-rejects:" + c24slug(fmsg))
			tag("invalid-go:go/types:" + c24slug(msg))
			// no claim about the fork's nodes here: echo the productions of the reference's declarations
			var ws []string
			for _, c := range c24kinds(sf) {
				ws = append(ws, map[rune]string{'p': "package", 'i': "import"}[c])
				if ws[len(ws)-1] == "" {
					ws[len(ws)-1] = "decl"
				}
			}
			v.out = strings.Join(ws, " ")
			return
		}
		viol("fork-err-only:"+c24slug(fmsg), fmt.Sprintf("go/parser accepts the input, the fork reports %d error(s), first %s: %s", n, fpos, fmsg))
		return
	}
	if len(fr.nodes) != len(sf.Decls)+1 {
		viol("count", fmt.Sprintf("go/parser: package clause + %d declarations, fork: %d nodes", len(sf.Decls), len(fr.nodes)))
		return
	}
	// package clause
	pk, ok := fr.nodes[0].(*ast.GenDecl)
	if !ok || pk.Tok != token.PACKAGE || len(pk.Specs) != 1 {
		viol("package-clause:shape", fmt.Sprintf("first node is %T", fr.nodes[0]))
		return
	}
	vs, _ := pk.Specs[0].(*ast.ValueSpec)
	switch {
	case vs == nil || len(vs.Names) != 1:
		viol("package-clause:shape", "package GenDecl without a single-name ValueSpec")
	case pk.TokPos != sf.Package:
		viol("package-clause:pos", fmt.Sprintf("package keyword at %d, go/parser %d", pk.TokPos, sf.Package))
	case vs.Names[0].Name != sf.Name.Name || vs.Names[0].NamePos != sf.Name.NamePos:
		viol("package-clause:name", fmt.Sprintf("package name %s@%d, go/parser %s@%d", vs.Names[0].Name, vs.Names[0].NamePos, sf.Name.Name, sf.Name.NamePos))
	default:
		if d, _, _ := c24nodeDiff(&ast.GenDecl{Doc: sf.Doc}, &ast.GenDecl{Doc: vs.Doc}, true, 1); len(d) > 0 {
			viol("package-clause:doc", "package doc comment: "+d[0].desc)
		}
	}
	for i, d := range sf.Decls {
		diffs, _, _ := c24nodeDiff(d, fr.nodes[i+1], true, 4)
		seen := map[string]bool{}
		for _, df := range diffs {
			if strings.HasPrefix(df.key, "nil:") && strings.HasSuffix(df.key, ".Comment") && c24commentAfterMultilineString(src) {
				// the fork's scanner puts the automatic semicolon BEFORE a trailing comment (C23 finding
				// autosemi-before-comment), so a comment on the last line of a multi-line raw string counts as
				// "on the line of the previous token" and becomes the spec's line comment; go/parser (go1.20+)
				// compares with the line where the string STARTS and does not attach it
				df.key = "line-comment-after-multiline-raw-string"
			}
			if !seen[df.key] {
				seen[df.key] = true
				viol(df.key, fmt.Sprintf("declaration %d (%s at %s): %s", i, c24declName(d), fset.Position(d.Pos()), df.desc))
			}
		}
		// the line tables: Position of the declaration's ends
		for _, p := range []token.Pos{d.Pos(), d.End() - 1} {
			a, b := fset.Position(p), fr.fset.Position(p)
			if a.Line != b.Line || a.Column != b.Column || a.Filename != b.Filename {
				viol("linecol", fmt.Sprintf("position %d is %s for go/parser, %s for the fork", p, a, b))
				break
			}
		}
		v.decls++
	}
	if v.viol != "" {
		return
	}
	// identifier resolution, compared separately (reference parsed again WITH object resolution)
	fset2 := token.NewFileSet()
	sf2, err2 := stdparser.ParseFile(fset2, name, src, smode&^stdparser.SkipObjectResolution)
	if err2 == nil && sf2.Scope != nil {
		var stdTop []ast.Node
		for _, d := range sf2.Decls {
			stdTop = append(stdTop, d)
		}
		pkgLevel := c24topObjects(stdTop)
		c24forkTop = c24topObjects(fr.nodes)
		nloc := 0
		for i, d := range sf2.Decls {
			k, desc, n := c24objDiff(d, fr.nodes[i+1], pkgLevel)
			nloc += n
			if k != "" {
				viol(k, fmt.Sprintf("declaration %d (%s): %s", i, c24declName(d), desc))
				break
			}
		}
		if nloc > 0 {
			tag("obj:local-bindings-compared")
		}
	}
	return
}

// c24typeLiteralAt: does a node that go1.10's checkExpr rejects (type literal, ellipsis, key:value) start at offset?
func c24typeLiteralAt(f *ast.File, fset *token.FileSet, offset int) (found bool) {
	ast.Inspect(f, func(n ast.Node) bool {
		switch n.(type) {
		case *ast.ArrayType, *ast.MapType, *ast.ChanType, *ast.FuncType, *ast.StructType, *ast.InterfaceType, *ast.Ellipsis, *ast.KeyValueExpr:
			if fset.Position(n.Pos()).Offset == offset {
				found = true
			}
		}
		return !found
	})
	return
}

// c24commentAfterMultilineString: a string literal that spans lines is followed, on its last line, by a comment
func c24commentAfterMultilineString(src []byte) bool {
	fset := token.NewFileSet()
	f := fset.AddFile("", -1, len(src))
	var s goscanner.Scanner
	s.Init(f, src, func(token.Position, string) {}, goscanner.ScanComments)
	endLine := -1
	for {
		pos, tok, lit := s.Scan()
		switch {
		case tok == token.EOF:
			return false
		case tok == token.COMMENT:
			if endLine >= 0 && fset.Position(pos).Line == endLine {
				return true
			}
			endLine = -1
		case tok == token.STRING && strings.Contains(lit, "\n"):
			endLine = fset.Position(pos).Line + strings.Count(lit, "\n")
		case tok == token.SEMICOLON && lit == "\n":
			// automatic semicolon: position depends on the scanner version, keep looking on this line
		default:
			endLine = -1
		}
	}
}

type c24fakeImporter struct{}

func (c24fakeImporter) Import(path string) (*types.Package, error) {
	name := path
	if i := strings.LastIndexByte(path, '/'); i >= 0 {
		name = path[i+1:]
	}
	p := types.NewPackage(path, name)
	p.MarkComplete()
	return p, nil
}

// c24typesRejects: does go/types report an error on the given line (other than an undefined / unused name, which
// only reflects the missing imports)?  Returns that message.
func c24typesRejects(name string, src []byte, line int) (msg string) {
	defer func() {
		if e := recover(); e != nil {
			msg = ""
		}
	}()
	fset := token.NewFileSet()
	f, err := stdparser.ParseFile(fset, name, src, 0)
	if err != nil {
		return ""
	}
	conf := types.Config{Importer: c24fakeImporter{}, DisableUnusedImportCheck: true, Error: func(err error) {
		te, ok := err.(types.Error)
		if !ok || msg != "" {
			return
		}
		if strings.HasPrefix(te.Msg, "undefined:") || strings.Contains(te.Msg, "declared and not used") || strings.Contains(te.Msg, "not declared by package") {
			return
		}
		if fset.Position(te.Pos).Line == line {
			msg = te.Msg
		}
	}}
	conf.Check("p", fset, []*ast.File{f}, nil)
	return msg
}

func c24declName(d ast.Decl) string {
	switch d := d.(type) {
	case *ast.FuncDecl:
		return "func " + d.Name.Name
	case *ast.GenDecl:
		return d.Tok.String()
	}
	return fmt.Sprintf("%T", d)
}

// ---------------------------------------------------------------- top: item templates

var c24items = map[string]string{
	"PACKAGE": "package p\n", "IMPORT": "import \"x\"\n", "CONST": "const c = 1\n", "TYPE": "type t int\n", "VAR": "var v int\n",
	"FUNC": "func f() {}\n", "MACRO": "macro m() {}\n", "FUNCTION": "~func g() {}\n",
	"IDENT": "x\n", "INT": "1 + 2\n", "LPAREN": "(x)\n", "IF": "if x {}\n", "FOR": "for {}\n", "GO": "go f()\n", "RETURN": "return\n",
	"LBRACE": "{ }\n", "SUB": "-x\n", "SWITCH": "switch {}\n", "STRING": "\"s\"\n", "ASSIGNSTMT": "x = 1\n", "DEFINE": "y := 2\n",
	"SEMICOLON": ";\n", "LBRACK": "[]int{1}\n", "STRUCT": "struct{}{}\n", "QUOTE": "~quote{x}\n", "DEFER": "defer f()\n",
}

var c24itemOrder []string

func init() {
	for k := range c24items {
		c24itemOrder = append(c24itemOrder, k)
	}
	sort.Strings(c24itemOrder)
}

func c24execTop(kinds []string) Result {
	var sb strings.Builder
	for _, k := range kinds {
		it, ok := c24items[k]
		if !ok {
			return Result{Out: "bad-op"}
		}
		sb.WriteString(it)
	}
	fr := c24forkParse("top.go", []byte(sb.String()), 0)
	if fr.pan != "" {
		return Result{Out: "panic", Viol: "Parser.Parse panics: " + fr.pan, Key: "panic:top"}
	}
	nerr := 0
	if fr.err != nil {
		_, _, nerr = c24firstErr(fr.err)
	}
	return Result{Out: fmt.Sprintf("errs=%d %s", nerr, c24classes(fr.nodes)), Tags: []string{"top"}, Nontrivial: len(kinds) > 1}
}

// ---------------------------------------------------------------- bin: expressions

func c24sexpr(e ast.Expr) string {
	switch e := e.(type) {
	case *ast.Ident:
		return e.Name
	case *ast.BinaryExpr:
		return fmt.Sprintf("(b%d %s %s)", int(e.Op), c24sexpr(e.X), c24sexpr(e.Y))
	case *ast.UnaryExpr:
		return fmt.Sprintf("(u%d %s)", int(e.Op), c24sexpr(e.X))
	case *ast.StarExpr:
		return fmt.Sprintf("(u%d %s)", int(token.MUL), c24sexpr(e.X))
	case *ast.ParenExpr:
		return "(p " + c24sexpr(e.X) + ")"
	case *ast.SelectorExpr:
		return "(s " + c24sexpr(e.X) + " " + e.Sel.Name + ")"
	case *ast.IndexExpr:
		return "(i " + c24sexpr(e.X) + " " + c24sexpr(e.Index) + ")"
	case *ast.CallExpr:
		if len(e.Args) == 1 && !e.Ellipsis.IsValid() {
			return "(c " + c24sexpr(e.Fun) + " " + c24sexpr(e.Args[0]) + ")"
		}
	}
	return fmt.Sprintf("?%T", e)
}

// c24typeAsValue: does the expression use a type literal ([]T, [n]T, map, chan, func type, struct, interface) where
// a VALUE is required (operand of a unary / binary operator, parenthesised operand, selector / index base, call
// argument)?  Conversions `[]T(x)`, composite-literal types and type-assertion types are not values.
func c24typeAsValue(e ast.Expr) bool {
	isType := func(x ast.Expr) bool {
		switch x.(type) {
		case *ast.ArrayType, *ast.MapType, *ast.ChanType, *ast.FuncType, *ast.StructType, *ast.InterfaceType:
			return true
		}
		return false
	}
	found := isType(e) // the whole expression is a type
	ast.Inspect(e, func(n ast.Node) bool {
		switch x := n.(type) {
		case *ast.UnaryExpr:
			found = found || isType(x.X)
		case *ast.BinaryExpr:
			found = found || isType(x.X) || isType(x.Y)
		case *ast.ParenExpr:
			found = found || isType(x.X)
		case *ast.SelectorExpr:
			found = found || isType(x.X)
		case *ast.IndexExpr:
			found = found || isType(x.X)
		case *ast.CallExpr:
			for _, a := range x.Args {
				found = found || isType(a)
			}
		}
		return true
	})
	return found
}

func c24exprSrc(toks []string) (string, bool) {
	var parts []string
	for _, t := range toks {
		switch {
		case t == "(" || t == ")" || t == "[" || t == "]" || t == ".":
			parts = append(parts, t)
		case strings.HasPrefix(t, "a"):
			if _, err := strconv.Atoi(t[1:]); err != nil {
				return "", false
			}
			parts = append(parts, t)
		case strings.HasPrefix(t, "o"):
			n, err := strconv.Atoi(t[1:])
			if err != nil || n < 0 || n > 200 {
				return "", false
			}
			parts = append(parts, token.Token(n).String())
		default:
			return "", false
		}
	}
	return strings.Join(parts, " "), true
}

func c24execBin(toks []string) Result {
	src, ok := c24exprSrc(toks)
	if !ok {
		return Result{Out: "bad-op"}
	}
	res := Result{Tags: []string{"bin"}}
	// reference
	want := "none"
	stdTypeAsValue := false
	if e, err := stdparser.ParseExpr(src); err == nil {
		want = c24sexpr(e)
		stdTypeAsValue = c24typeAsValue(e)
	}
	forkMsg := ""
	// fork: `_ = <expr>` through Parser.Parse (the right-hand side goes through parseExpr)
	got := "none"
	fr := c24forkParse("e.go", []byte("_ = "+src), 0)
	switch {
	case fr.pan != "":
		got = "panic"
	case fr.err != nil:
		_, forkMsg, _ = c24firstErr(fr.err)
	case fr.err == nil && len(fr.nodes) == 1:
		if as, ok := fr.nodes[0].(*ast.AssignStmt); ok && len(as.Rhs) == 1 && len(as.Lhs) == 1 {
			got = c24sexpr(as.Rhs[0])
		}
	}
	res.Out = got
	if got != want {
		res.Viol = fmt.Sprintf("expression %q: go/parser builds %s, the fork %s", src, want, got)
		res.Key = "expr-shape"
		switch {
		case want == "none":
			res.Key = "expr-err-missing" // go/parser rejects, the fork accepts
		case got == "none" && stdTypeAsValue && strings.Contains(forkMsg, "expected expression"):
			// The statement is about VALID Go.  A type used as a value operand (`^[]a1`, `a + []a1`, `([]a1)`) is
			// never valid Go; go1.10's parser rejects it syntactically (checkExpr: "expected expression"), go/parser
			// since go1.17 leaves it to the type checker.  Not a violation; counted in the tags.
			res.Viol, res.Key = "", ""
			res.Tags = append(res.Tags, "invalid-go:type-as-value-operand")
		case got == "none":
			res.Key = "expr-fork-err-only:" + c24slug(forkMsg)
		}
	}
	nops := 0
	for _, t := range toks {
		if strings.HasPrefix(t, "o") {
			nops++
		}
	}
	if got == "none" {
		res.Tags = append(res.Tags, "bin:rejected")
	} else {
		res.Tags = append(res.Tags, "bin:parsed")
		res.Nontrivial = nops >= 2
	}
	return res
}

// ---------------------------------------------------------------- generation

func c24hx(b []byte) string {
	if len(b) == 0 {
		return "-"
	}
	return hex.EncodeToString(b)
}

// kinds field of an op, computed with the reference parser
func c24kindsOf(name string, src []byte) string {
	if c24isExt(src) {
		return "-"
	}
	fset := token.NewFileSet()
	sf, err := stdparser.ParseFile(fset, name, src, stdparser.SkipObjectResolution)
	if err != nil || sf == nil || c24usesGenerics(sf) != "" {
		return "-"
	}
	return c24kinds(sf)
}

var c24binTokens = []int{12, 13, 14, 15, 16, 17, 18, 19, 20, 21, 22, 34, 35, 39, 40, 41, 44, 45, 46} // the 19 binary operators
var c24otherOps = []int{36, 43, 42, 37, 47}                                                             // <- ! = ++ :=  (prefix-only or no expression operator)

// random WELL-FORMED expression token list (may need no / some / redundant parentheses)
func c24genExprToks(r *rand.Rand, d int, natom *int) []string {
	atom := func() []string { *natom++; return []string{fmt.Sprintf("a%d", (*natom-1)%7)} }
	if d <= 0 {
		return atom()
	}
	switch r.Intn(10) {
	case 0, 1, 2, 3:
		l := c24genExprToks(r, d-1, natom)
		op := c24binTokens[r.Intn(len(c24binTokens))]
		rr := c24genExprToks(r, d-1, natom)
		return append(append(l, fmt.Sprintf("o%d", op)), rr...)
	case 4:
		ops := []int{12, 13, 43, 19, 17, 14, 36}
		return append([]string{fmt.Sprintf("o%d", ops[r.Intn(len(ops))])}, c24genExprToks(r, d-1, natom)...)
	case 5:
		return append(append([]string{"("}, c24genExprToks(r, d-1, natom)...), ")")
	case 6:
		x := c24genPrimToks(r, d-1, natom)
		*natom++
		return append(x, ".", fmt.Sprintf("a%d", *natom%7))
	case 7:
		x := c24genPrimToks(r, d-1, natom)
		return append(append(append(x, "["), c24genExprToks(r, d-1, natom)...), "]")
	case 8:
		x := c24genPrimToks(r, d-1, natom)
		return append(append(append(x, "("), c24genExprToks(r, d-1, natom)...), ")")
	}
	return atom()
}

func c24genPrimToks(r *rand.Rand, d int, natom *int) []string {
	if d <= 0 || r.Intn(2) == 0 {
		*natom++
		return []string{fmt.Sprintf("a%d", (*natom-1)%7)}
	}
	if r.Intn(2) == 0 {
		return append(append([]string{"("}, c24genExprToks(r, d-1, natom)...), ")")
	}
	x := c24genPrimToks(r, d-1, natom)
	return append(append(append(x, "("), c24genExprToks(r, d-1, natom)...), ")")
}

func c24gen(r *rand.Rand, tier string, emit func(string)) {
	thorough := tier == "thorough"
	scale := 1
	if thorough {
		scale = 10
	}
	// 1. precedence of every token value (ties the extracted source table to the linked go/token)
	for v := 0; v < 90; v++ {
		emit(fmt.Sprintf("prec %d", v))
	}
	for _, v := range []int{128, 129, 130, 131, 132, 133, 134, 135, 136, 137, 200} {
		emit(fmt.Sprintf("prec %d", v))
	}
	// 2. top-level dispatch: all sequences of <= 2 items, then random longer ones
	for _, a := range c24itemOrder {
		emit("top " + a)
	}
	for _, a := range c24itemOrder {
		for _, b := range c24itemOrder {
			emit("top " + a + " " + b)
		}
	}
	for i := 0; i < 200*scale; i++ {
		n := 3 + r.Intn(8)
		ks := make([]string, n)
		for j := range ks {
			ks[j] = c24itemOrder[r.Intn(len(c24itemOrder))]
		}
		emit("top " + strings.Join(ks, " "))
	}
	// 3. expressions: all pairs (quick) / triples (thorough) of binary operators, every prefix operator in front
	for _, o1 := range c24binTokens {
		emit(fmt.Sprintf("bin a0 o%d a1", o1))
		for _, o2 := range c24binTokens {
			emit(fmt.Sprintf("bin a0 o%d a1 o%d a2", o1, o2))
			if thorough {
				for _, o3 := range c24binTokens {
					emit(fmt.Sprintf("bin a0 o%d a1 o%d a2 o%d a3", o1, o2, o3))
				}
			}
		}
	}
	for i := 0; i < 400*scale; i++ {
		// three random operators when not exhaustive
		emit(fmt.Sprintf("bin a0 o%d a1 o%d a2 o%d a3", c24binTokens[r.Intn(19)], c24binTokens[r.Intn(19)], c24binTokens[r.Intn(19)]))
	}
	for _, u := range []int{12, 13, 43, 19, 17, 14, 36, 15, 34, 42} {
		for _, o := range c24binTokens {
			emit(fmt.Sprintf("bin o%d a0 o%d a1", u, o))
			emit(fmt.Sprintf("bin a0 o%d o%d a1", o, u))
			emit(fmt.Sprintf("bin o%d o%d a0 o%d a1 . a2", u, u, o))
		}
	}
	for i := 0; i < 1500*scale; i++ {
		n := 0
		emit("bin " + strings.Join(c24genExprToks(r, 1+r.Intn(4), &n), " "))
	}
	// malformed / arbitrary token lists (never "( )" or ". (": call without argument and type assertion are
	// outside the model's language)
	alphabet := []string{"a0", "a1", "a2", "(", ")", "[", "]", ".", "o12", "o13", "o14", "o17", "o19", "o34", "o35", "o39", "o43", "o36", "o42", "o37", "o22", "o20"}
	for i := 0; i < 1200*scale; i++ {
		n := 1 + r.Intn(8)
		var ts []string
		for len(ts) < n {
			t := alphabet[r.Intn(len(alphabet))]
			if len(ts) > 0 && (ts[len(ts)-1] == "(" && t == ")" || ts[len(ts)-1] == "." && t == "(") {
				continue
			}
			// `[` only as an index bracket (after an operand): at operand-start position it opens an array TYPE
			// (`[]a1`, `[a0]a1`), which is outside the model's language (conversions `[]a1(a2)`, `*[]a1` are accepted
			// by both parsers; as a value operand see the fixed ops in corpus/C24/regress.txt)
			if t == "[" && (len(ts) == 0 || !(strings.HasPrefix(ts[len(ts)-1], "a") || ts[len(ts)-1] == ")" || ts[len(ts)-1] == "]")) {
				continue
			}
			ts = append(ts, t)
		}
		emit("bin " + strings.Join(ts, " "))
	}
	// 4. real files
	fileOp := func(root, rel string, m int) {
		src, err := c23read(root, rel)
		if err != nil {
			return
		}
		emit(fmt.Sprintf("file %s %s %d | %s", root, rel, m, c24kindsOf(rel, src)))
	}
	gl, rl := c23list("goroot"), c23list("repo")
	if thorough {
		for _, f := range gl {
			fileOp("goroot", f, 1)
		}
		for _, f := range rl {
			fileOp("repo", f, 1)
		}
		for i := 0; i < 1500; i++ {
			fileOp("goroot", gl[r.Intn(len(gl))], 0)
		}
	} else {
		// fixed members: the parser / printer / ast / types sources and testdata, then a seeded sample
		for _, f := range gl {
			if strings.HasPrefix(f, "go/parser/") || strings.HasPrefix(f, "go/printer/testdata/") || strings.HasPrefix(f, "go/ast/") {
				fileOp("goroot", f, 1)
			}
		}
		for i := 0; i < 700; i++ {
			fileOp("goroot", gl[r.Intn(len(gl))], 1-i%6/5)
		}
		for i := 0; i < 220; i++ {
			fileOp("repo", rl[r.Intn(len(rl))], 1-i%6/5)
		}
	}
	srcOp := func(name string, src []byte, m int) {
		if len(src) > 24000 {
			src = src[:24000]
		}
		emit(fmt.Sprintf("src %s %d | %s", c24hx(src), m, c24kindsOf(name, src)))
	}
	// 5. grammar-generated files
	for i := 0; i < 500*scale; i++ {
		src := c24genFile(r, 1+r.Intn(6), 1+r.Intn(3), i%3 != 0)
		srcOp("gen.go", []byte(src), 1-i%5/4)
	}
	// 6. mutations of real and generated files: token level, byte level, truncation
	for i := 0; i < 640*scale; i++ {
		var base []byte
		if i%3 == 0 {
			base = []byte(c24genFile(r, 1+r.Intn(4), 1+r.Intn(2), i%2 == 0))
		} else {
			root, l := "goroot", gl
			if i%7 == 0 {
				root, l = "repo", rl
			}
			b, err := c23read(root, l[r.Intn(len(l))])
			if err != nil || len(b) == 0 {
				continue
			}
			// keep the package clause: head of the file + a window
			head := b
			if len(head) > 600 {
				head = head[:600]
				if j := strings.LastIndexByte(string(head), '\n'); j > 0 {
					head = head[:j+1]
				}
			}
			base = append(append([]byte(nil), head...), c23window(r, b, 1500+r.Intn(2500))...)
		}
		var mut []byte
		switch i % 4 {
		case 0, 1:
			mut = c23mutTokens(r, base, 1+r.Intn(3))
		case 2:
			mut = c23mutBytes(r, base, 1+r.Intn(3))
		default:
			mut = base[:r.Intn(len(base)+1)]
		}
		srcOp("mut.go", mut, 1-i%5/4)
	}
	// 6b. statement-level mutations of VALID programs: one expression turned into an expression LIST in front of
	// an operator / delimiter that requires a single expression (`a, zz++`, `c, zz <- v`, `L, zz:`, `if x, zz {`,
	// `f(x), zz`), or an identifier duplicated into a list; exactly one mutation, so no other syntax error
	for i := 0; i < 700*scale; i++ {
		var base []byte
		if i%4 != 0 {
			base = []byte(c24genFile(r, 1+r.Intn(4), 2+r.Intn(2), false))
		} else {
			b, err := c23read("goroot", gl[r.Intn(len(gl))])
			if err != nil || len(b) == 0 || len(b) > 12000 {
				continue
			}
			base = b
		}
		srcOp("list.go", c24mutList(r, base), 1-i%5/4)
	}
	// 7. small erroneous inputs, hand-picked shapes x contexts
	bad := []string{"", "package", "package p; x := 1", "package p; func", "package p; func f( {}", "package p; var x = ", "package p; type T struct { a int b int }",
		"package p; func f() { if x { } else }", "package p; func f() { for i := range }", "package p; func f() { x = = 1 }", "package p; import x", "package p; const ( a = iota; b",
		"package p; func f() { switch x { foo() } }", "package p; func f() { import \"x\" }", "package p; func f() { a[1 }", "package p; var x [...]int", "package p; func () f() {}",
		"package p; type T interface { A; B() }", "package p; type T interface { io.Reader; m() }", "package p; type T interface { A }", "package p; func f() { L: }", "package p; func f() { x := 1; x := 2 }",
		"package p; func f() { a, b.c := 1, 2 }", "package p; const c", "package p; import \"\"", "package p; func f() { go func() {} }", "package p; func f() { defer x }", "package p; func f() { var x = map[string]int{1: } }",
		"package p; var x = [3]int{1,2,3}[:]", "package p; func f() (a, b int, c) {}", "package p; func f(a, b int, c) {}", "package p; func f(...int, x int) {}", "package p; type T struct { *int; T.x }",
		"package p; func f() { for ;; ; {} }", "package p; func f() { if x := 1 {} }", "package p; func f() { if ; {} }", "package p; var _ = func() {} ()", "package p; var _ = (x)", "package p; var _ = x.(type)",
		"package p; func f() { select { case x: } }", "package p; func f() { switch x.(type) { case 1+2: } }", "package p; func f() { break 1 }", "package p; func f() { goto }", "package p\nimport \"a\"\nvar x int\nimport \"b\"\n",
		"package p; func f() { x := T{a: 1, 2} }", "package p; var x = <-chan int(nil)", "package p; var x chan<- <-chan int", "package p; var x = <-<-c", "package p; var x <-chan<- int", "package _; var x int", "package p; func f() { _ = a = b }",
		"package p; func f() { a, b++ }", "package p; func f() { a, b-- }", "package p; func f() { c1, c2 <- 1 }", "package p; func f() { a, b: for {} }", "package p; func f() { a, b }",
		"package p; func f() { if a, b {} }", "package p; func f() { for a, b {} }", "package p; func f() { switch a, b {} }", "package p; func f() { go f(), g() }", "package p; func f() { defer f(), g() }",
		"package p; func f() { for a, b; ; {} }", "package p; func f() { switch x := a, b; x {} }", "package p; func f() { select { case a, b <- c: } }", "package p; func f() { a, b.c++ }", "package p; func f() { (a, b)++ }",
		"package p; func f() { if g := func() T { return T{1} }; g().x > 0 {} }", "package p; func f() { switch func() pkg.T { return pkg.T{} }().x {} }", "package p; func f() { for i := range func() []T { return []T{T{}} }() {} }",
		"package p; func f() { for f := func() T { return T{} }; ; {} }", "package p; func f() { if (T{}) == x {} }", "package p; func f() { if x == T{} {} }", "package p; func f() { if f(T{}) {} }", "package p; func f() { if a[T{}.i] {} }",
		"package p; func f() { if []T{T{}}[0] == x {} }", "package p; func f() { switch x := (T{}); x {} }", "package p; func f() { if x := struct{ a int }{1}; x.a > 0 {} }"}
	for _, b := range bad {
		srcOp("bad.go", []byte(b), 1)
		srcOp("bad.go", []byte(strings.ReplaceAll(b, "; ", "\n")), 0)
	}
}

// c24mutList applies ONE statement-level mutation that produces an expression list where a single expression is
// required (or duplicates an identifier into a list).
func c24mutList(r *rand.Rand, b []byte) []byte {
	fset := token.NewFileSet()
	f := fset.AddFile("", -1, len(b))
	var s goscanner.Scanner
	s.Init(f, b, func(token.Position, string) {}, 0)
	byKind := map[token.Token][]int{} // offsets in front of which ", zz" is inserted
	var idents [][2]int
	depth := 0 // brace depth: only inside function bodies / composite literals
	for {
		pos, tok, lit := s.Scan()
		if tok == token.EOF {
			break
		}
		off := f.Offset(pos)
		switch tok {
		case token.LBRACE:
			if depth > 0 {
				byKind[tok] = append(byKind[tok], off)
			}
			depth++
		case token.RBRACE:
			depth--
		case token.INC, token.DEC, token.ARROW, token.COLON, token.SEMICOLON, token.RPAREN, token.RBRACK,
			token.ASSIGN, token.ADD_ASSIGN, token.DEFINE:
			if depth > 0 && off > 0 {
				byKind[tok] = append(byKind[tok], off)
			}
		case token.IDENT:
			if depth > 0 && lit != "_" {
				idents = append(idents, [2]int{off, off + len(lit)})
			}
		}
	}
	ins := []string{", zz", ", zz, yy", ",zz"}[r.Intn(3)]
	var kinds []token.Token
	for _, k := range []token.Token{token.INC, token.DEC, token.ARROW, token.COLON, token.LBRACE, token.SEMICOLON, token.RPAREN, token.RBRACK, token.ASSIGN, token.ADD_ASSIGN, token.DEFINE} {
		if len(byKind[k]) > 0 {
			kinds = append(kinds, k)
		}
	}
	if len(kinds) > 0 && (len(idents) == 0 || r.Intn(5) != 0) {
		k := kinds[r.Intn(len(kinds))] // the kind first: rare operators are as likely as frequent ones
		off := byKind[k][r.Intn(len(byKind[k]))]
		// step back over white space so that the list ends where the expression ended
		for off > 0 && (b[off-1] == ' ' || b[off-1] == '\t') {
			off--
		}
		return append(append(append([]byte(nil), b[:off]...), ins...), b[off:]...)
	}
	if len(idents) > 0 {
		id := idents[r.Intn(len(idents))]
		return append(append(append([]byte(nil), b[:id[1]]...), ins...), b[id[1]:]...)
	}
	return b
}

// ---------------------------------------------------------------- execution

func c24exec(op string) Result {
	opPart, _, _ := strings.Cut(op, " | ")
	f := strings.Fields(opPart)
	if len(f) == 0 {
		return Result{Out: "bad-op"}
	}
	switch f[0] {
	case "prec":
		if len(f) != 2 {
			return Result{Out: "bad-op"}
		}
		v, err := strconv.Atoi(f[1])
		if err != nil {
			return Result{Out: "bad-op"}
		}
		return Result{Out: fmt.Sprintf("p=%d", token.Token(v).Precedence()), Tags: []string{"prec"}}
	case "top":
		return c24execTop(f[1:])
	case "bin":
		return c24execBin(f[1:])
	case "file", "src":
		var src []byte
		name := "src.go"
		var m string
		if f[0] == "file" {
			if len(f) != 4 {
				return Result{Out: "bad-op"}
			}
			b, err := c23read(f[1], f[2])
			if err != nil {
				return Result{Out: "unreadable"}
			}
			src, name, m = b, f[2], f[3]
		} else {
			if len(f) != 3 {
				return Result{Out: "bad-op"}
			}
			b, ok := c23unhex(f[1])
			if !ok {
				return Result{Out: "bad-op"}
			}
			src, m = b, f[2]
		}
		v := c24compare(name, src, m == "1")
		res := Result{Out: v.out, Tags: append(v.tags, f[0]), Nontrivial: v.decls > 0 && v.viol == ""}
		if v.viol != "" {
			res.Viol, res.Key = c23trunc(v.viol, 400), v.key
		}
		return res
	}
	return Result{Out: "bad-op"}
}
