package main

// S-expression serialisation of gomacro syntax trees as seen through the ast2 API
// (shared by C20 and C21).
//
//	nil                      _
//	node  (AstWithNode)      (Kind cat attr  <slot><child> ... )     one child per Get(i), i < Size()
//	list  (AstWithSlice)     [Kind cat attr eslot  <child> ... ]
//
// cat  : e expr, s stmt, d decl, p spec, o other node, z pure slice (no ast.Node behind it)
// attr : the non-child, non-position data of the node (operator, name, literal, flags), "-" if none
// slot : which conversion Set(i, child) / Append(child) applies (go/ast field type of the slot):
//
//	e ToExpr  s ToStmt  b ToBlockStmt  E ToExprSlice  S ToStmtSlice  I ToIdentSlice
//	i ToIdent d ToDecl  p ToSpec  f ToField  F ToFieldList  t ToFuncType  c ToCallExpr  l ToBasicLit
//	n ToNode (NodeSlice)  a none (AstSlice)
//
// The slot table below is the go/ast typing of every child slot, written down by hand from
// go/ast; the correspondence run validates it on every tree (a Set that converts differently
// makes model and implementation disagree).

import (
	"fmt"
	"go/ast"
	"go/token"
	"strings"

	"github.com/cosmos72/gomacro/ast2"
	etoken "github.com/cosmos72/gomacro/go/etoken"
)

var sxSlots = map[string]string{
	"ArrayType": "ee", "AssignStmt": "EE", "BinaryExpr": "ee", "BranchStmt": "i", "CallExpr": "eE",
	"CaseClause": "ES", "ChanType": "e", "CommClause": "sS", "CompositeLit": "eE", "DeclStmt": "d",
	"DeferStmt": "c", "Ellipsis": "e", "ExprStmt": "e", "Field": "Iel", "ForStmt": "sesb",
	"FuncDecl": "Fitb", "FuncLit": "tb", "FuncType": "FF", "GoStmt": "c", "IfStmt": "sebs",
	"ImportSpec": "il", "IncDecStmt": "e", "IndexExpr": "ee", "InterfaceType": "F", "KeyValueExpr": "ee",
	"LabeledStmt": "is", "MapType": "ee", "ParenExpr": "e", "RangeStmt": "eeeb", "SelectStmt": "b",
	"SelectorExpr": "ei", "SendStmt": "ee", "SliceExpr": "eeee", "StarExpr": "e", "StructType": "F",
	"SwitchStmt": "seb", "TypeAssertExpr": "ee", "TypeSpec": "ie", "TypeSwitchStmt": "ssb", "UnaryExpr": "e",
	"ValueSpec": "IeE",
	"BadDecl": "", "BadExpr": "", "BadStmt": "", "BasicLit": "", "EmptyStmt": "", "Ident": "",
}

var sxElemSlot = map[string]byte{
	"AstSlice": 'a', "NodeSlice": 'n', "ExprSlice": 'e', "FieldSlice": 'f', "DeclSlice": 'd',
	"IdentSlice": 'i', "StmtSlice": 's', "SpecSlice": 'p',
	"BlockStmt": 's', "FieldList": 'f', "GenDecl": 'p', "ReturnStmt": 'e',
}

func sxKind(a ast2.Ast) string {
	s := fmt.Sprintf("%T", a)
	return strings.TrimPrefix(s, "ast2.")
}

func sxCat(a ast2.Ast) byte {
	an, ok := a.(ast2.AstWithNode)
	if !ok {
		return 'z'
	}
	switch an.Node().(type) {
	case ast.Expr:
		return 'e'
	case ast.Stmt:
		return 's'
	case ast.Decl:
		return 'd'
	case ast.Spec:
		return 'p'
	}
	return 'o'
}

func sxEsc(s string) string {
	if s == "" {
		return "%e"
	}
	var sb strings.Builder
	for i := 0; i < len(s); i++ {
		c := s[i]
		switch {
		case c <= ' ' || c >= 0x7f || c == '(' || c == ')' || c == '[' || c == ']' || c == '%' || c == '_' || c == '-':
			fmt.Fprintf(&sb, "%%%02x", c)
		default:
			sb.WriteByte(c)
		}
	}
	return sb.String()
}

func sxUnesc(s string) string {
	if s == "%e" {
		return ""
	}
	var sb strings.Builder
	for i := 0; i < len(s); i++ {
		if s[i] == '%' && i+2 < len(s) {
			var v int
			fmt.Sscanf(s[i+1:i+3], "%02x", &v)
			sb.WriteByte(byte(v))
			i += 2
		} else {
			sb.WriteByte(s[i])
		}
	}
	return sb.String()
}

func sxTok(t token.Token) string { return sxEsc(etoken.String(t)) }

// attribute text of a node: everything New() must preserve that is not a position
func sxAttr(a ast2.Ast) string {
	switch x := a.Interface().(type) {
	case *ast.Ident:
		return "n" + sxEsc(x.Name)
	case *ast.BasicLit:
		return sxTok(x.Kind) + ":" + sxEsc(x.Value)
	case *ast.BinaryExpr:
		return sxTok(x.Op)
	case *ast.UnaryExpr:
		return sxTok(x.Op)
	case *ast.AssignStmt:
		return sxTok(x.Tok)
	case *ast.BranchStmt:
		return sxTok(x.Tok)
	case *ast.IncDecStmt:
		return sxTok(x.Tok)
	case *ast.RangeStmt:
		return sxTok(x.Tok)
	case *ast.GenDecl:
		return sxTok(x.Tok)
	case *ast.ChanType:
		return fmt.Sprintf("dir%d", int(x.Dir))
	case *ast.CallExpr:
		if x.Ellipsis != token.NoPos {
			return "ellipsis"
		}
	case *ast.TypeSpec:
		if x.Assign != token.NoPos {
			return "alias"
		}
	}
	return "-"
}

func sxIsNil(a ast2.Ast) bool {
	if a == nil {
		return true
	}
	if _, ok := a.(ast2.AstWithSlice); ok {
		if _, ok := a.(ast2.AstWithNode); !ok {
			return false // pure slices: a nil Go slice is an empty list
		}
	}
	return a.Interface() == nil
}

func sxWrite(sb *strings.Builder, a ast2.Ast) {
	if sxIsNil(a) {
		sb.WriteByte('_')
		return
	}
	kind := sxKind(a)
	if es, ok := sxElemSlot[kind]; ok {
		fmt.Fprintf(sb, "[%s %c %s %c", kind, sxCat(a), sxAttr(a), es)
		for i, n := 0, a.Size(); i < n; i++ {
			sb.WriteByte(' ')
			sxWrite(sb, a.Get(i))
		}
		sb.WriteByte(']')
		return
	}
	slots, ok := sxSlots[kind]
	if !ok {
		panic("sx: unsupported node kind " + kind)
	}
	n := a.Size()
	if n != len(slots) {
		panic(fmt.Sprintf("sx: %s has Size %d, slot table says %d", kind, n, len(slots)))
	}
	fmt.Fprintf(sb, "(%s %c %s", kind, sxCat(a), sxAttr(a))
	for i := 0; i < n; i++ {
		sb.WriteByte(' ')
		sb.WriteByte(slots[i])
		sb.WriteByte(' ')
		sxWrite(sb, a.Get(i))
	}
	sb.WriteByte(')')
}

// sxAst serialises a tree.
func sxAst(a ast2.Ast) string {
	var sb strings.Builder
	sxWrite(&sb, a)
	return sb.String()
}

// sxAny serialises whatever an interpreter returned as a syntax tree value
func sxAny(x interface{}) string {
	switch x := x.(type) {
	case nil:
		return "_"
	case ast2.Ast:
		return sxAst(x)
	case ast.Node:
		return sxAst(ast2.ToAst(x))
	}
	return sxAst(ast2.AnyToAst(x, "sx"))
}

// ---------------------------------------------------------------- reader

// generic S-expression: atom, (..) or [..]
type sxNode struct {
	atom string
	br   byte // '(' or '[' or 0 for atoms
	kids []*sxNode
}

type sxReader struct {
	s   string
	pos int
}

func (r *sxReader) skip() {
	for r.pos < len(r.s) && r.s[r.pos] == ' ' {
		r.pos++
	}
}

func (r *sxReader) node() *sxNode {
	r.skip()
	if r.pos >= len(r.s) {
		panic("sx: unexpected end")
	}
	c := r.s[r.pos]
	if c == '(' || c == '[' {
		cl := byte(')')
		if c == '[' {
			cl = ']'
		}
		r.pos++
		n := &sxNode{br: c}
		for {
			r.skip()
			if r.pos >= len(r.s) {
				panic("sx: unexpected end")
			}
			if r.s[r.pos] == cl {
				r.pos++
				return n
			}
			if r.s[r.pos] == ')' || r.s[r.pos] == ']' {
				panic("sx: mismatched bracket")
			}
			n.kids = append(n.kids, r.node())
		}
	}
	st := r.pos
	for r.pos < len(r.s) && !strings.ContainsRune(" ()[]", rune(r.s[r.pos])) {
		r.pos++
	}
	if st == r.pos {
		panic("sx: empty atom")
	}
	return &sxNode{atom: r.s[st:r.pos]}
}

// sxReadAll reads all top-level S-expressions of s
func sxReadAll(s string) []*sxNode {
	r := &sxReader{s: s}
	var out []*sxNode
	for {
		r.skip()
		if r.pos >= len(r.s) {
			return out
		}
		out = append(out, r.node())
	}
}

var sxTokByName = func() map[string]token.Token {
	m := map[string]token.Token{}
	for t := token.Token(0); t < 200; t++ {
		m[etoken.String(t)] = t
	}
	for t := etoken.QUOTE; t <= etoken.HASH; t++ {
		m[etoken.String(t)] = t
	}
	return m
}()

func sxTokOf(s string) token.Token {
	t, ok := sxTokByName[sxUnesc(s)]
	if !ok {
		panic("sx: unknown token " + s)
	}
	return t
}

var sxZero = map[string]func() ast.Node{
	"ArrayType": func() ast.Node { return &ast.ArrayType{} }, "AssignStmt": func() ast.Node { return &ast.AssignStmt{} },
	"BadDecl": func() ast.Node { return &ast.BadDecl{} }, "BadExpr": func() ast.Node { return &ast.BadExpr{} },
	"BadStmt": func() ast.Node { return &ast.BadStmt{} }, "BasicLit": func() ast.Node { return &ast.BasicLit{} },
	"BinaryExpr": func() ast.Node { return &ast.BinaryExpr{} }, "BranchStmt": func() ast.Node { return &ast.BranchStmt{} },
	"CallExpr": func() ast.Node { return &ast.CallExpr{} }, "CaseClause": func() ast.Node { return &ast.CaseClause{} },
	"ChanType": func() ast.Node { return &ast.ChanType{} }, "CommClause": func() ast.Node { return &ast.CommClause{} },
	"CompositeLit": func() ast.Node { return &ast.CompositeLit{} }, "DeclStmt": func() ast.Node { return &ast.DeclStmt{} },
	"DeferStmt": func() ast.Node { return &ast.DeferStmt{} }, "Ellipsis": func() ast.Node { return &ast.Ellipsis{} },
	"EmptyStmt": func() ast.Node { return &ast.EmptyStmt{} }, "ExprStmt": func() ast.Node { return &ast.ExprStmt{} },
	"Field": func() ast.Node { return &ast.Field{} }, "ForStmt": func() ast.Node { return &ast.ForStmt{} },
	"FuncDecl": func() ast.Node { return &ast.FuncDecl{} }, "FuncLit": func() ast.Node { return &ast.FuncLit{} },
	"FuncType": func() ast.Node { return &ast.FuncType{} }, "GoStmt": func() ast.Node { return &ast.GoStmt{} },
	"Ident": func() ast.Node { return &ast.Ident{} }, "IfStmt": func() ast.Node { return &ast.IfStmt{} },
	"ImportSpec": func() ast.Node { return &ast.ImportSpec{} }, "IncDecStmt": func() ast.Node { return &ast.IncDecStmt{} },
	"IndexExpr": func() ast.Node { return &ast.IndexExpr{} }, "InterfaceType": func() ast.Node { return &ast.InterfaceType{} },
	"KeyValueExpr": func() ast.Node { return &ast.KeyValueExpr{} }, "LabeledStmt": func() ast.Node { return &ast.LabeledStmt{} },
	"MapType": func() ast.Node { return &ast.MapType{} }, "ParenExpr": func() ast.Node { return &ast.ParenExpr{} },
	"RangeStmt": func() ast.Node { return &ast.RangeStmt{} }, "SelectStmt": func() ast.Node { return &ast.SelectStmt{} },
	"SelectorExpr": func() ast.Node { return &ast.SelectorExpr{} }, "SendStmt": func() ast.Node { return &ast.SendStmt{} },
	"SliceExpr": func() ast.Node { return &ast.SliceExpr{} }, "StarExpr": func() ast.Node { return &ast.StarExpr{} },
	"StructType": func() ast.Node { return &ast.StructType{} }, "SwitchStmt": func() ast.Node { return &ast.SwitchStmt{} },
	"TypeAssertExpr": func() ast.Node { return &ast.TypeAssertExpr{} }, "TypeSpec": func() ast.Node { return &ast.TypeSpec{} },
	"TypeSwitchStmt": func() ast.Node { return &ast.TypeSwitchStmt{} }, "UnaryExpr": func() ast.Node { return &ast.UnaryExpr{} },
	"ValueSpec": func() ast.Node { return &ast.ValueSpec{} },
	"BlockStmt": func() ast.Node { return &ast.BlockStmt{} }, "FieldList": func() ast.Node { return &ast.FieldList{} },
	"GenDecl": func() ast.Node { return &ast.GenDecl{} }, "ReturnStmt": func() ast.Node { return &ast.ReturnStmt{} },
}

func sxSetAttr(n ast.Node, attr string) {
	if attr == "-" {
		return
	}
	switch x := n.(type) {
	case *ast.Ident:
		x.Name = sxUnesc(attr[1:])
	case *ast.BasicLit:
		k, v, _ := strings.Cut(attr, ":")
		x.Kind = sxTokOf(k)
		x.Value = sxUnesc(v)
	case *ast.BinaryExpr:
		x.Op = sxTokOf(attr)
	case *ast.UnaryExpr:
		x.Op = sxTokOf(attr)
	case *ast.AssignStmt:
		x.Tok = sxTokOf(attr)
	case *ast.BranchStmt:
		x.Tok = sxTokOf(attr)
	case *ast.IncDecStmt:
		x.Tok = sxTokOf(attr)
	case *ast.RangeStmt:
		x.Tok = sxTokOf(attr)
	case *ast.GenDecl:
		x.Tok = sxTokOf(attr)
	case *ast.ChanType:
		var d int
		fmt.Sscanf(attr, "dir%d", &d)
		x.Dir = ast.ChanDir(d)
	case *ast.CallExpr:
		x.Ellipsis = 1
	case *ast.TypeSpec:
		x.Assign = 1
	}
}

func sxBuild(n *sxNode) ast2.Ast {
	switch n.br {
	case 0:
		if n.atom == "_" {
			return nil
		}
		panic("sx: unexpected atom " + n.atom)
	case '(':
		if len(n.kids) < 3 || len(n.kids)%2 != 1 {
			panic("sx: malformed node")
		}
		kind, attr := n.kids[0].atom, n.kids[2].atom
		mk := sxZero[kind]
		if mk == nil || sxElemSlot[kind] != 0 {
			panic("sx: unknown kind " + kind)
		}
		node := mk()
		sxSetAttr(node, attr)
		a := ast2.ToAst(node)
		for i := 0; 3+2*i+1 < len(n.kids); i++ {
			child := sxBuild(n.kids[3+2*i+1])
			if child != nil {
				a.Set(i, child)
			}
		}
		return a
	}
	if len(n.kids) < 4 {
		panic("sx: malformed list")
	}
	kind, attr := n.kids[0].atom, n.kids[2].atom
	var a ast2.AstWithSlice
	switch kind {
	case "AstSlice":
		a = ast2.AstSlice{}
	case "NodeSlice":
		a = ast2.NodeSlice{X: []ast.Node{}}
	case "ExprSlice":
		a = ast2.ExprSlice{X: []ast.Expr{}}
	case "FieldSlice":
		a = ast2.FieldSlice{X: []*ast.Field{}}
	case "DeclSlice":
		a = ast2.DeclSlice{X: []ast.Decl{}}
	case "IdentSlice":
		a = ast2.IdentSlice{X: []*ast.Ident{}}
	case "StmtSlice":
		a = ast2.StmtSlice{X: []ast.Stmt{}}
	case "SpecSlice":
		a = ast2.SpecSlice{X: []ast.Spec{}}
	default:
		mk := sxZero[kind]
		if mk == nil || sxElemSlot[kind] == 0 {
			panic("sx: unknown list kind " + kind)
		}
		node := mk()
		sxSetAttr(node, attr)
		a = ast2.ToAst(node).(ast2.AstWithSlice)
	}
	for _, k := range n.kids[4:] {
		a = a.Append(sxBuild(k))
	}
	return a
}

// sxParse rebuilds a tree from its serialisation (through the ast2 constructors).
func sxParse(s string) ast2.Ast {
	r := &sxReader{s: s}
	return sxBuild(r.node())
}

// sxCount = number of nodes and lists in a serialised tree
func sxCount(s string) int {
	return strings.Count(s, "(") + strings.Count(s, "[")
}
