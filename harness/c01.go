package main

// C01: typed expressions over basic types evaluate exactly as compiled Go.
//
// One op line = one expression compiled by the REAL fast interpreter + a list of operand values:
//
//	bin <OP> <xkind> <ykind> <shape> <stor> <consts> <vals...>
//	un  <OP> <xkind> -       <shape> <stor> <consts> <vals...>
//
//	shape  vv | vc | cv | cc   (bin)      v | c  (un)          v = variable operand, c = constant operand
//	stor   how the variable operands are stored / reached:
//	         g   package-level variables, expression compiled at top level
//	         gf  package-level variables read from inside a function (FileEnv arm)
//	         gb / gbf  the same with BOXED globals (Comp.IntBindMax forced: reflect.Value slots)
//	         l   parameters of the enclosing function
//	         c1..c4  variables captured from 1..4 enclosing functions
//	         m1  x local of the closure, y captured at depth 1
//	consts '-' | c | cx,cy     (canonical value text, see c01_kinds.go)
//	vals   vv: x,y pairs   vc: x values   cv: y values   cc/c: none
//
// Output: "<static type>: r1 r2 ..." with r = canonical value, "P:divide", "P:negShift",
// "P:<other panic>"; a compile error is "E:<msg>".
// Oracle (the property): every r must equal the NATIVE Go operator applied to the same operands
// (generic instantiation at exactly that type), the static type must be Go's result type, and a
// run-time panic must occur exactly when native Go panics.

import (
	"fmt"
	"math"
	"math/big"
	"math/rand"
	"os"
	"reflect"
	"sort"
	"strings"

	"github.com/cosmos72/gomacro/fast"
)

type c01op struct {
	isBin        bool
	op           string
	xk, yk       *bkind
	shape, stor  string
	cx, cy       bval
	hasCx, hasCy bool
	xs, ys       []bval
	prefix       string // everything up to and including consts (the compile cache key)
}

func c01parse(line string) (*c01op, error) {
	f := strings.Fields(line)
	if len(f) < 7 {
		return nil, fmt.Errorf("short op")
	}
	o := &c01op{op: f[1], shape: f[4], stor: f[5]}
	switch f[0] {
	case "bin":
		o.isBin = true
	case "un":
	default:
		return nil, fmt.Errorf("bad op class")
	}
	o.xk = bkinds[f[2]]
	if o.xk == nil {
		return nil, fmt.Errorf("bad kind")
	}
	o.yk = o.xk
	if o.isBin {
		o.yk = bkinds[f[3]]
		if o.yk == nil {
			return nil, fmt.Errorf("bad ykind")
		}
	}
	o.prefix = strings.Join(f[:7], " ")
	var err error
	cs := f[6]
	vals := f[7:]
	switch {
	case o.isBin && o.shape == "vv":
		for _, p := range vals {
			a, b, ok := strings.Cut(p, ",")
			if !ok {
				return nil, fmt.Errorf("bad pair")
			}
			x, e1 := o.xk.dec(a)
			y, e2 := o.yk.dec(b)
			if e1 != nil || e2 != nil {
				return nil, fmt.Errorf("bad value")
			}
			o.xs, o.ys = append(o.xs, x), append(o.ys, y)
		}
	case o.isBin && o.shape == "vc":
		if o.cy, err = o.yk.dec(cs); err != nil {
			return nil, err
		}
		o.hasCy = true
		for _, p := range vals {
			x, e := o.xk.dec(p)
			if e != nil {
				return nil, e
			}
			o.xs, o.ys = append(o.xs, x), append(o.ys, o.cy)
		}
	case o.isBin && o.shape == "cv":
		if o.cx, err = o.xk.dec(cs); err != nil {
			return nil, err
		}
		o.hasCx = true
		for _, p := range vals {
			y, e := o.yk.dec(p)
			if e != nil {
				return nil, e
			}
			o.xs, o.ys = append(o.xs, o.cx), append(o.ys, y)
		}
	case o.isBin && o.shape == "cc":
		a, b, ok := strings.Cut(cs, ",")
		if !ok {
			return nil, fmt.Errorf("bad const pair")
		}
		if o.cx, err = o.xk.dec(a); err != nil {
			return nil, err
		}
		if o.cy, err = o.yk.dec(b); err != nil {
			return nil, err
		}
		o.hasCx, o.hasCy = true, true
		o.xs, o.ys = []bval{o.cx}, []bval{o.cy}
	case !o.isBin && o.shape == "v":
		for _, p := range vals {
			x, e := o.xk.dec(p)
			if e != nil {
				return nil, e
			}
			o.xs = append(o.xs, x)
		}
	case !o.isBin && o.shape == "c":
		if o.cx, err = o.xk.dec(cs); err != nil {
			return nil, err
		}
		o.hasCx = true
		o.xs = []bval{o.cx}
	default:
		return nil, fmt.Errorf("bad shape")
	}
	return o, nil
}

// result kind of the operation per the Go specification
func (o *c01op) resKind() *bkind {
	if o.isBin && isCmpOp(o.op) {
		return bkinds["bool"]
	}
	return o.xk
}

// constant operand as Go source: an untyped literal, except where Go needs a typed constant
// (left operand of a shift by a variable: an untyped constant would take its type from the
// context, which gomacro documents as a known limitation — not part of this property).
func (o *c01op) constSrc(k *bkind, v bval, typed bool) string {
	l := k.lit(v)
	if l == "" {
		return ""
	}
	if typed {
		return k.name + "(" + l + ")"
	}
	if strings.HasPrefix(l, "-") {
		return "(" + l + ")"
	}
	return l
}

func (o *c01op) exprSrc(x, y string) string {
	if o.isBin {
		return x + " " + binOpTok[o.op] + " " + y
	}
	return unOpTok[o.op] + x
}

// ---- compiled expression cache ----

type c01prog struct {
	err  string
	call func(x, y bval) (res reflect.Value, typ string, panicText string)
}

var c01irs = map[bool]*fast.Interp{} // boxed? -> interpreter
var c01cache = map[string]*c01prog{}
var c01seq int
var c01count = map[bool]int{}

// c01interp returns the interpreter for unboxed / boxed globals.  Boxed globals are forced by
// Comp.IntBindMax = Comp.IntBindNum (no further uint64 slots: every new global is a reflect.Value).
// A fresh interpreter now and then keeps the global tables small.
func c01interp(boxed bool) *fast.Interp {
	c01count[boxed]++
	if c01irs[boxed] == nil || c01count[boxed]%3000 == 0 {
		ir := newQuietInterp()
		if boxed {
			c01evalDecl(ir, "var c01warm int")
			ir.Comp.IntBindMax = ir.Comp.IntBindNum
		}
		c01irs[boxed] = ir
	}
	return c01irs[boxed]
}

func c01evalDecl(ir *fast.Interp, src string) string {
	_, errText := evalSrc(ir, src)
	return errText
}

func callRecover(f func() reflect.Value) (res reflect.Value, panicText string) {
	defer func() {
		if e := recover(); e != nil {
			panicText = fmt.Sprint(e)
			if panicText == "" {
				panicText = "panic"
			}
		}
	}()
	return f(), ""
}

func c01compile(o *c01op) *c01prog {
	if p := c01cache[o.prefix]; p != nil {
		return p
	}
	if len(c01cache) > 50000 {
		c01cache = map[string]*c01prog{}
	}
	p := c01build(o)
	c01cache[o.prefix] = p
	return p
}

func c01build(o *c01op) *c01prog {
	c01seq++
	n := c01seq
	ir := c01interp(strings.HasPrefix(o.stor, "gb"))
	T, U, R := o.xk.name, o.yk.name, o.resKind().name
	X, Y := fmt.Sprintf("X%d", n), fmt.Sprintf("Y%d", n)
	F := fmt.Sprintf("F%d", n)
	xvar, yvar := true, o.isBin
	xs, ys := "x", "y"
	if o.hasCx {
		xvar = false
		typed := o.isBin && (isShiftOp(o.op) || o.shape == "cc") || !o.isBin
		if xs = o.constSrc(o.xk, o.cx, typed); xs == "" {
			return &c01prog{err: "no-such-constant"}
		}
	}
	if o.hasCy {
		yvar = false
		if ys = o.constSrc(o.yk, o.cy, false); ys == "" {
			return &c01prog{err: "no-such-constant"}
		}
	}
	var params, args []string
	if xvar {
		params = append(params, "x "+T)
	}
	if yvar {
		params = append(params, "y "+U)
	}
	plist := strings.Join(params, ", ")
	mkArgs := func(x, y bval) []reflect.Value {
		args := make([]reflect.Value, 0, 2)
		if xvar {
			args = append(args, o.xk.toRV(x))
		}
		if yvar {
			args = append(args, o.yk.toRV(y))
		}
		return args
	}
	_ = args
	var src string
	global := false
	switch o.stor {
	case "l":
		src = fmt.Sprintf("func %s(%s) %s { return %s }", F, plist, R, o.exprSrc(xs, ys))
	case "c1", "c2", "c3", "c4":
		depth := int(o.stor[1] - '0')
		body := "return " + o.exprSrc(xs, ys)
		for i := 0; i < depth; i++ {
			body = fmt.Sprintf("return func() %s { %s }()", R, body)
		}
		src = fmt.Sprintf("func %s(%s) %s { %s }", F, plist, R, body)
	case "m1":
		// x is a parameter of the closure itself, y is captured
		if !(xvar && yvar) {
			return &c01prog{err: "bad-stor"}
		}
		src = fmt.Sprintf("func %s(x %s, y %s) %s { return func(x %s) %s { return %s }(x) }", F, T, U, R, T, R, o.exprSrc("x", "y"))
	case "g", "gf", "gb", "gbf", "gc2", "gbc2":
		global = true
		var decl, set []string
		gx, gy := xs, ys
		if xvar {
			decl = append(decl, fmt.Sprintf("var %s %s", X, T))
			set = append(set, fmt.Sprintf("%s = x", X))
			gx = X
		}
		if yvar {
			decl = append(decl, fmt.Sprintf("var %s %s", Y, U))
			set = append(set, fmt.Sprintf("%s = y", Y))
			gy = Y
		}
		for _, d := range decl {
			if e := c01evalDecl(ir, d); e != "" {
				return &c01prog{err: e}
			}
		}
		if o.stor == "gc2" || o.stor == "gbc2" {
			// globals read from a closure nested two deep inside the function (upn = depth-1 = 3: FileEnv arm)
			global = false
			pre := strings.Join(set, "; ")
			if pre != "" {
				pre += "; "
			}
			src = fmt.Sprintf("func %s(%s) %s { %sreturn func() %s { return func() %s { return %s }() }() }", F, plist, R, pre, R, R, o.exprSrc(gx, gy))
		} else if o.stor == "gf" || o.stor == "gbf" {
			global = false
			src = fmt.Sprintf("func %s(%s) %s { %s; return %s }", F, plist, R, strings.Join(set, "; "), o.exprSrc(gx, gy))
		} else {
			// (the setter returns a value on purpose: a func(complex128) without results crashes
			// in fast/func1ret0.go — reported in notes/C01.md, outside this property)
			src = fmt.Sprintf("func %s(%s) int { %s; return 0 }", F, plist, strings.Join(set, "; "))
			if len(set) == 0 {
				src = fmt.Sprintf("func %s() int { return 0 }", F)
			}
			if e := c01evalDecl(ir, src); e != "" {
				return &c01prog{err: e}
			}
			var expr *fast.Expr
			_, perr := callRecover(func() reflect.Value {
				expr = ir.Compile(o.exprSrc(gx, gy))
				return reflect.Value{}
			})
			if perr != "" {
				return &c01prog{err: perr}
			}
			setter := ir.ValueOf(F).ReflectValue()
			return &c01prog{call: func(x, y bval) (reflect.Value, string, string) {
				var typ string
				res, pt := callRecover(func() reflect.Value {
					setter.Call(mkArgs(x, y))
					v, t := ir.RunExpr1(expr)
					if t != nil {
						typ = t.String()
					}
					return v.ReflectValue()
				})
				return res, typ, pt
			}}
		}
	default:
		return &c01prog{err: "bad-stor"}
	}
	_ = global
	if e := c01evalDecl(ir, src); e != "" {
		return &c01prog{err: e}
	}
	fn := ir.ValueOf(F).ReflectValue()
	if !fn.IsValid() || fn.Kind() != reflect.Func {
		return &c01prog{err: "function not declared"}
	}
	typ := "?"
	if fn.Type().NumOut() == 1 {
		typ = fn.Type().Out(0).String()
	}
	return &c01prog{call: func(x, y bval) (reflect.Value, string, string) {
		res, pt := callRecover(func() reflect.Value {
			out := fn.Call(mkArgs(x, y))
			if len(out) != 1 {
				return reflect.Value{}
			}
			return out[0]
		})
		return res, typ, pt
	}}
}

// ---- oracle: native Go ----

// expected result text for operands x, y
func (o *c01op) native(x, y bval) string {
	rk := o.resKind()
	if !o.isBin {
		return rk.enc(o.xk.un(o.op, x))
	}
	switch {
	case isCmpOp(o.op):
		return rk.enc(boolVal(o.xk.cmp(o.op, x, y)))
	case isShiftOp(o.op):
		r, pc := o.xk.shift[o.yk.name](o.op, x, y)
		if pc != "" {
			return "P:" + pc
		}
		return rk.enc(r)
	}
	r, pc := o.xk.bin(o.op, x, y)
	if pc != "" {
		return "P:" + pc
	}
	return rk.enc(r)
}

// Go constant expressions are evaluated exactly: an expression whose operands are all constants
// has no negative zero (and must not overflow — the generator only emits representable ones).
func (o *c01op) allConst() bool {
	if o.isBin {
		return o.shape == "cc"
	}
	return o.shape == "c"
}

func constNormalize(k *bkind, s string) string {
	// -0 -> +0 in every float component
	fix := func(p string, bits int) string {
		if bits == 32 && p == "80000000" || bits == 64 && p == "8000000000000000" {
			return "0"
		}
		return p
	}
	switch k.cat {
	case catFloat:
		return fix(s, k.bits)
	case catComplex:
		a, b, _ := strings.Cut(s, "_")
		return fix(a, k.bits/2) + "_" + fix(b, k.bits/2)
	}
	return s
}

func panicOut(pt string) string {
	switch {
	case strings.Contains(pt, "divide by zero"):
		return "P:divide"
	case strings.Contains(pt, "negative shift amount"):
		return "P:negShift"
	}
	if len(pt) > 60 {
		pt = pt[:60]
	}
	return "P:" + strings.ReplaceAll(pt, " ", "_")
}

func constClass(k *bkind, v bval) string {
	switch k.cat {
	case catInt, catUint:
		signed := k.cat == catInt
		u := v.u
		var neg bool
		if signed && k.bits < 64 && u>>(uint(k.bits)-1) != 0 {
			u = maskBits(-u, k.bits)
			neg = true
		} else if signed && k.bits == 64 && int64(u) < 0 {
			u = -u
			neg = true
		}
		switch {
		case u == 0:
			return "c0"
		case u == 1 && !neg:
			return "c1"
		case u == 1 && neg:
			return "cm1"
		case !signed && v.u == maskBits(^uint64(0), k.bits):
			return "cmax"
		case u&(u-1) == 0 && !neg:
			return "cpow2"
		case u&(u-1) == 0 && neg:
			return "cnegpow2"
		}
		return "cother"
	case catFloat:
		var f float64
		if k.bits == 32 {
			f = float64(f32(v))
		} else {
			f = f64(v)
		}
		switch f {
		case 0:
			return "c0"
		case 1:
			return "c1"
		case -1:
			return "cm1"
		}
		return "cother"
	case catComplex:
		var c complex128
		if k.bits == 64 {
			c = complex128(c64(v))
		} else {
			c = c128(v)
		}
		switch c {
		case 0:
			return "c0"
		case 1:
			return "c1"
		case -1:
			return "cm1"
		}
		return "cother"
	case catString:
		if v.s == "" {
			return "cempty"
		}
		return "cother"
	case catBool:
		if v.u != 0 {
			return "ctrue"
		}
		return "cfalse"
	}
	return "c"
}

func c01exec(line string) Result {
	if line == "prof-stop" {
		c01profStop()
		return Result{Out: "ok"}
	}
	o, err := c01parse(line)
	if err != nil {
		return Result{Out: "bad-op " + err.Error(), Tags: []string{"bad-op"}}
	}
	tags := []string{"op:" + o.op, "kind:" + o.xk.name, "shape:" + o.shape, "stor:" + o.stor}
	key := fmt.Sprintf("%s-%s-%s-%s", o.op, o.xk.name, o.shape, o.stor)
	if o.isBin && isShiftOp(o.op) {
		key = fmt.Sprintf("%s-%s.%s-%s-%s", o.op, o.xk.name, o.yk.name, o.shape, o.stor)
	}
	if o.hasCy {
		key += "-" + constClass(o.yk, o.cy)
		tags = append(tags, "const:"+constClass(o.yk, o.cy))
	} else if o.hasCx {
		key += "-" + constClass(o.xk, o.cx)
		tags = append(tags, "const:"+constClass(o.xk, o.cx))
	}
	defined := unDefinedOn(o.op, o.xk)
	if o.isBin {
		defined = binDefinedOn(o.op, o.xk)
		if isShiftOp(o.op) {
			defined = defined && o.yk.isInteger()
		} else {
			defined = defined && o.xk == o.yk
		}
	}
	p := c01compile(o)
	if p.err != "" {
		res := Result{Out: "E", Tags: append(tags, "compile-error"), Nontrivial: true}
		if defined && p.err != "no-such-constant" {
			res.Viol = fmt.Sprintf("gomacro rejects a well-typed expression (%s): %s", o.prefix, p.err)
			res.Key = key + "-rejected"
		}
		if !defined {
			res.Tags = append(res.Tags, "undefined-op-rejected")
		}
		return res
	}
	if !defined {
		return Result{Out: "ACCEPTED", Tags: append(tags, "undefined-op-accepted"), Nontrivial: true,
			Viol: "gomacro accepts an operator that Go does not define on this kind: " + o.prefix, Key: key + "-accepted"}
	}
	rk := o.resKind()
	var outs []string
	var viol string
	typ := ""
	for i := range o.xs {
		var y bval
		if o.isBin {
			y = o.ys[i]
		}
		res, t, pt := p.call(o.xs[i], y)
		var got string
		switch {
		case pt != "":
			got = panicOut(pt)
			tags = append(tags, "panic:"+strings.SplitN(got, "_", 2)[0])
		case !res.IsValid():
			got = "invalid"
		case res.Type() != rk.rt:
			got = "T:" + res.Type().String()
		default:
			got = rk.enc(rk.ofRV(res))
		}
		if pt == "" {
			typ = t
		}
		want := o.native(o.xs[i], y)
		if o.allConst() {
			want = constNormalize(rk, want)
		}
		if got != want && viol == "" {
			ys := ""
			if o.isBin {
				ys = " y=" + o.yk.encIn(y)
			}
			viol = fmt.Sprintf("%s: x=%s%s: gomacro gives %s, compiled Go gives %s", o.prefix, o.xk.encIn(o.xs[i]), ys, got, want)
		}
		outs = append(outs, got)
	}
	if typ == "" {
		typ = rk.name // every evaluation panicked: the static type is not observable
	}
	if typ != rk.name && viol == "" {
		viol = fmt.Sprintf("%s: static type is %s, Go says %s", o.prefix, typ, rk.name)
	}
	sort.Strings(tags)
	tags = uniqStrings(tags)
	if viol != "" && os.Getenv("C01_VLOG") != "" {
		if f, err := os.OpenFile(os.Getenv("C01_VLOG"), os.O_APPEND|os.O_CREATE|os.O_WRONLY, 0o644); err == nil {
			fmt.Fprintf(f, "%s | %s\n", key, viol)
			f.Close()
		}
	}
	return Result{Out: typ + ": " + strings.Join(outs, " "), Viol: viol, Key: key, Tags: tags, Nontrivial: true}
}

func uniqStrings(s []string) []string {
	out := s[:0]
	for i, x := range s {
		if i == 0 || x != s[i-1] {
			out = append(out, x)
		}
	}
	return out
}

// ---- value sets ----

func intBoundary(k *bkind) []bval {
	w := uint(k.bits)
	signed := k.cat == catInt
	set := map[uint64]bool{}
	add := func(u uint64) { set[maskBits(u, k.bits)] = true }
	for _, u := range []uint64{0, 1, 2, 3} {
		add(u)
		add(-u)
	}
	var min, max uint64
	if signed {
		min = uint64(1) << (w - 1)
		max = min - 1
	} else {
		min, max = 0, maskBits(^uint64(0), k.bits)
	}
	for _, u := range []uint64{min, min + 1, min + 2, max, max - 1, max - 2} {
		add(u)
	}
	for i := uint(1); i < w; i++ {
		p := uint64(1) << i
		add(p)
		add(p + 1)
		add(p - 1)
		if signed {
			add(-p)
			add(-p + 1)
			add(-p - 1)
		}
	}
	var us []uint64
	for u := range set {
		us = append(us, u)
	}
	sort.Slice(us, func(i, j int) bool { return us[i] < us[j] })
	out := make([]bval, len(us))
	for i, u := range us {
		out[i] = bval{u: u}
	}
	return out
}

func floatBoundary(bits int) []bval {
	var out []bval
	if bits == 32 {
		fs := []float32{0, float32(math.Copysign(0, -1)), 1, -1, 2, -2, 0.5, 3, 0.1, 1e10, -1e-10, math.MaxFloat32, -math.MaxFloat32,
			math.SmallestNonzeroFloat32, -math.SmallestNonzeroFloat32, 1.1754944e-38, 1.1754942e-38, float32(math.Inf(1)), float32(math.Inf(-1)),
			float32(math.NaN()), 16777216, 16777215, 1.0000001, 0.99999994, 1e38, 3.4e38, 255, 256, 65536, 1.5, 2.5, -0.75}
		for _, f := range fs {
			out = append(out, bval{u: of32(f)})
		}
		out = append(out, bval{u: 0x7fa00001}, bval{u: 0xffc00000}) // signalling / negative NaN
		return out
	}
	fs := []float64{0, math.Copysign(0, -1), 1, -1, 2, -2, 0.5, 3, 0.1, 1e10, -1e-10, math.MaxFloat64, -math.MaxFloat64,
		math.SmallestNonzeroFloat64, -math.SmallestNonzeroFloat64, 2.2250738585072014e-308, 2.225073858507201e-308, math.Inf(1), math.Inf(-1),
		math.NaN(), 9007199254740992, 9007199254740993, 9007199254740991, 1.0000000000000002, 0.9999999999999999, 1e308, 1.7e308, 255, 256, 65536, 1.5, 2.5, -0.75,
		math.Pi, 1.0 / 3}
	for _, f := range fs {
		out = append(out, bval{u: of64(f)})
	}
	out = append(out, bval{u: 0x7ff4000000000001}, bval{u: 0xfff8000000000000})
	return out
}

func complexBoundary(bits int) []bval {
	var parts []bval
	if bits == 64 {
		for _, f := range []float32{0, float32(math.Copysign(0, -1)), 1, -1, 2, 0.5, 3, -2.5, math.MaxFloat32, math.SmallestNonzeroFloat32, float32(math.Inf(1)), float32(math.Inf(-1)), float32(math.NaN()), 0.1} {
			parts = append(parts, bval{u: of32(f)})
		}
	} else {
		for _, f := range []float64{0, math.Copysign(0, -1), 1, -1, 2, 0.5, 3, -2.5, math.MaxFloat64, math.SmallestNonzeroFloat64, math.Inf(1), math.Inf(-1), math.NaN(), 0.1} {
			parts = append(parts, bval{u: of64(f)})
		}
	}
	var out []bval
	for _, a := range parts {
		for _, b := range parts {
			out = append(out, bval{u: a.u, u2: b.u})
		}
	}
	return out
}

var stringBoundary = []string{"", "a", "b", "ab", "abc", "aa", "a\x00", "\x00", "\xff", "\xfe\xff", "é", "B", "hello, world", "a b", "\n", "zzzzzzzzzzzzzzzzzzzzzzzzzzzzzzzzzzzzzzzz"}

func boundary(k *bkind) []bval {
	switch k.cat {
	case catBool:
		return []bval{{u: 0}, {u: 1}}
	case catInt, catUint:
		return intBoundary(k)
	case catFloat:
		return floatBoundary(k.bits)
	case catComplex:
		return complexBoundary(k.bits)
	}
	var out []bval
	for _, s := range stringBoundary {
		out = append(out, bval{s: s})
	}
	return out
}

func randomVal(r *rand.Rand, k *bkind) bval {
	switch k.cat {
	case catBool:
		return bval{u: uint64(r.Intn(2))}
	case catInt, catUint:
		u := r.Uint64()
		switch r.Intn(4) {
		case 0: // small magnitude
			u = uint64(int64(r.Intn(65)) - 32)
		case 1: // few bits set
			u = uint64(1)<<uint(r.Intn(64)) | uint64(1)<<uint(r.Intn(64))
			if r.Intn(2) == 0 {
				u = -u
			}
		}
		return bval{u: maskBits(u, k.bits)}
	case catFloat:
		if k.bits == 32 {
			if r.Intn(3) == 0 {
				return bval{u: of32(float32(r.NormFloat64() * 100))}
			}
			return bval{u: uint64(r.Uint32())}
		}
		if r.Intn(3) == 0 {
			return bval{u: of64(r.NormFloat64() * 100)}
		}
		return bval{u: r.Uint64()}
	case catComplex:
		h := bkinds["float64"]
		if k.bits == 64 {
			h = bkinds["float32"]
		}
		return bval{u: randomVal(r, h).u, u2: randomVal(r, h).u}
	}
	n := r.Intn(6)
	b := make([]byte, n)
	for i := range b {
		if r.Intn(3) == 0 {
			b[i] = byte(r.Intn(256))
		} else {
			b[i] = "ab\x00z"[r.Intn(4)]
		}
	}
	return bval{s: string(b)}
}

// constants (must be representable as a Go constant of the kind)
func constSet(r *rand.Rand, k *bkind, tier string) []bval { return constSet2(r, k, tier, false) }

// constSet2: allPow2 adds every power of two (and its negation) of the kind
func constSet2(r *rand.Rand, k *bkind, tier string, allPow2 bool) []bval {
	var out []bval
	switch k.cat {
	case catBool:
		return []bval{{u: 0}, {u: 1}}
	case catInt, catUint:
		w := uint(k.bits)
		signed := k.cat == catInt
		us := []uint64{0, 1, 2, 3, 4, 7, 8, 10, 16, 64, 1 << (w - 2), 1<<(w-2) + 1, 1<<(w-1) - 1}
		if signed {
			us = append(us, ^uint64(0), negU(2), negU(3), negU(4), negU(8), negU(1)<<(w-2), negU(1)<<(w-1), negU(1)<<(w-1)+1, negU(64))
		} else {
			us = append(us, 1<<(w-1), ^uint64(0), ^uint64(0)-1, 1<<(w-1)+1)
		}
		if tier != "quick" && allPow2 {
			for i := uint(3); i < w; i++ {
				us = append(us, 1<<i)
				if signed {
					us = append(us, negU(1)<<i)
				}
			}
		} else {
			i := uint(r.Intn(int(w)-1)) + 1
			us = append(us, 1<<i)
			if signed {
				us = append(us, negU(1)<<i)
			}
		}
		us = append(us, r.Uint64(), r.Uint64())
		seen := map[uint64]bool{}
		for _, u := range us {
			u = maskBits(u, k.bits)
			if !seen[u] {
				seen[u] = true
				out = append(out, bval{u: u})
			}
		}
		return out
	case catFloat:
		for _, v := range boundary(k) {
			if k.lit(v) != "" {
				out = append(out, v)
			}
		}
		if tier == "quick" && len(out) > 14 {
			out = out[:14]
		}
		return out
	case catComplex:
		fk := bkinds["float64"]
		if k.bits == 64 {
			fk = bkinds["float32"]
		}
		mk := func(a, b float64) bval {
			if k.bits == 64 {
				return bval{u: of32(float32(a)), u2: of32(float32(b))}
			}
			return bval{u: of64(a), u2: of64(b)}
		}
		_ = fk
		return []bval{mk(0, 0), mk(1, 0), mk(-1, 0), mk(2, 0), mk(0, 1), mk(1, 2), mk(0.5, -3), mk(4, 0), mk(0, -1), mk(0.1, 0.1)}
	}
	for _, s := range []string{"", "a", "ab", "\xff", "b\x00"} {
		out = append(out, bval{s: s})
	}
	return out
}

func shiftCounts(k *bkind, xw int) []bval {
	signed := k.cat == catInt
	set := map[uint64]bool{}
	var out []bval
	add := func(u uint64) {
		u = maskBits(u, k.bits)
		if !set[u] {
			set[u] = true
			out = append(out, bval{u: u})
		}
	}
	for _, u := range []uint64{0, 1, 2, 3, 7, 8, 9, 15, 16, 17, 31, 32, 33, 63, 64, 65, 127, 128, 255, uint64(xw - 1), uint64(xw), uint64(xw + 1)} {
		if u <= maskBits(^uint64(0), k.bits)>>1 || !signed && u <= maskBits(^uint64(0), k.bits) {
			add(u)
		}
	}
	add(maskBits(^uint64(0), k.bits) >> 1) // max signed / large unsigned
	add(^uint64(0))                        // -1 or max unsigned
	add(uint64(1) << uint(k.bits-1))       // min signed / 2^(w-1)
	return out
}

// ---- generator ----

var c01stors = []string{"g", "gf", "l", "c1", "c2", "c3", "c4", "gb", "gbf", "gc2", "gbc2"}

type c01gen struct {
	r     *rand.Rand
	tier  string
	quick bool
	emit  func(string)
	rot   int
}

func (g *c01gen) nextStor() string {
	s := c01stors[g.rot%len(c01stors)]
	g.rot++
	return s
}

func (g *c01gen) line(class, op string, xk, yk *bkind, shape, stor, consts string, vals []string) {
	yn := "-"
	if yk != nil {
		yn = yk.name
	}
	g.emit(strings.TrimRight(fmt.Sprintf("%s %s %s %s %s %s %s %s", class, op, xk.name, yn, shape, stor, consts, strings.Join(vals, " ")), " "))
}

func (g *c01gen) chunk(n int, vals []string, f func(part []string)) {
	for len(vals) > 0 {
		m := n
		if len(vals) < m {
			m = len(vals)
		}
		f(vals[:m])
		vals = vals[m:]
	}
}

func coreVals(b []bval, k *bkind) []bval {
	if len(b) <= 10 {
		return b
	}
	switch k.cat {
	case catInt, catUint:
		var out []bval
		w := uint(k.bits)
		for _, u := range []uint64{0, 1, 2, ^uint64(0), 1 << (w - 1), 1<<(w-1) - 1, 3, 1 << (w - 2)} {
			out = append(out, bval{u: maskBits(u, k.bits)})
		}
		return out
	case catComplex:
		// 0, -0 parts, 1, -1, i, inf, nan combinations
		idx := []int{0, 1, 14, 15, 2 * 14, 3 * 14, 2, 2*14 + 2, 10 * 14, 12, 12 * 14, 10}
		var out []bval
		for _, i := range idx {
			out = append(out, b[i])
		}
		return out
	}
	return b[:10]
}

// pairs for var-var: core x core (always), then a budgeted sample of boundary x core,
// core x boundary, boundary x boundary and random pairs (thorough: the full products)
func (g *c01gen) pairs(op string, xk, yk *bkind, budget int) []string {
	bx := boundary(xk)
	var by []bval
	if isShiftOp(op) {
		by = shiftCounts(yk, xk.bits)
	} else {
		by = boundary(yk)
	}
	seen := map[string]bool{}
	var out []string
	add := func(x, y bval) {
		s := xk.encIn(x) + "," + yk.encIn(y)
		if !seen[s] {
			seen[s] = true
			out = append(out, s)
		}
	}
	cx, cy := coreVals(bx, xk), coreVals(by, yk)
	for _, x := range cx {
		for _, y := range cy {
			add(x, y)
		}
	}
	var prod [][2]bval
	for _, x := range bx {
		for _, y := range cy {
			prod = append(prod, [2]bval{x, y})
		}
	}
	for _, x := range cx {
		for _, y := range by {
			prod = append(prod, [2]bval{x, y})
		}
	}
	if g.quick {
		for _, pi := range g.r.Perm(len(prod)) {
			if len(out) >= budget*5/10 {
				break
			}
			add(prod[pi][0], prod[pi][1])
		}
	} else {
		for _, p := range prod {
			add(p[0], p[1])
		}
	}
	nsample, nrand := budget/4, budget/4
	if !g.quick {
		nsample, nrand = 1500, 1000
	}
	for i := 0; i < nsample; i++ {
		add(bx[g.r.Intn(len(bx))], by[g.r.Intn(len(by))])
	}
	for i := 0; i < nrand; i++ {
		x, y := randomVal(g.r, xk), randomVal(g.r, yk)
		if isShiftOp(op) && g.r.Intn(2) == 0 {
			y = bval{u: maskBits(uint64(g.r.Intn(70)), yk.bits)}
		}
		add(x, y)
	}
	return out
}

func (g *c01gen) singles(k *bkind, full bool) []string {
	b := boundary(k)
	seen := map[string]bool{}
	var out []string
	add := func(v bval) {
		s := k.encIn(v)
		if !seen[s] {
			seen[s] = true
			out = append(out, s)
		}
	}
	if full || len(b) <= 36 {
		for _, v := range b {
			add(v)
		}
	} else {
		for _, v := range coreVals(b, k) {
			add(v)
		}
		for i := 0; i < 20; i++ {
			add(b[g.r.Intn(len(b))])
		}
	}
	n := 6
	if !g.quick {
		n = 64
	}
	for i := 0; i < n; i++ {
		add(randomVal(g.r, k))
	}
	return out
}

// exact representability of a constant expression (Go rejects overflowing constant expressions)
func (g *c01gen) constExprOK(op string, xk, yk *bkind, x, y bval) bool {
	switch xk.cat {
	case catInt, catUint:
		return constIntOK(op, xk, yk, x, y)
	case catFloat, catComplex:
		if op == "QUO" {
			if yk.cat == catFloat && (yk.bits == 32 && f32(y) == 0 || yk.bits == 64 && f64(y) == 0) {
				return false
			}
			if yk.cat == catComplex && (yk.bits == 64 && c64(y) == 0 || yk.bits == 128 && c128(y) == 0) {
				return false
			}
		}
		if isCmpOp(op) {
			return true
		}
		r, _ := xk.bin(op, x, y)
		// finite result required
		chk := func(u uint64, bits int) bool {
			if bits == 32 {
				f := math.Float32frombits(uint32(u))
				return !math.IsInf(float64(f), 0) && f == f
			}
			f := math.Float64frombits(u)
			return !math.IsInf(f, 0) && f == f
		}
		if xk.cat == catFloat {
			return chk(r.u, xk.bits)
		}
		return chk(r.u, xk.bits/2) && chk(r.u2, xk.bits/2)
	}
	return true
}

// quickConsts trims a constant set for the quick tier, always keeping the classes with shortcuts
func (g *c01gen) trimConsts(k *bkind, cs []bval, n int) []bval {
	if !g.quick || len(cs) <= n {
		return cs
	}
	var keep, rest []bval
	seen := map[string]bool{}
	for _, c := range cs {
		cl := constClass(k, c)
		if !seen[cl] || cl == "c0" || cl == "c1" || cl == "cm1" || cl == "cmax" {
			seen[cl] = true
			keep = append(keep, c)
		} else {
			rest = append(rest, c)
		}
	}
	for _, pi := range g.r.Perm(len(rest)) {
		if len(keep) >= n {
			break
		}
		keep = append(keep, rest[pi])
	}
	return keep
}

func c01gen1(r *rand.Rand, tier string, emit func(string)) {
	g := &c01gen{r: r, tier: tier, quick: tier == "quick", emit: emit}
	chunkN := 40
	// ---- unary operators; unary plus is the identity: its arm is the variable read itself,
	//      so PLUS x every storage class x full boundary set is the identifier-read stream
	for _, kn := range bkindNames {
		k := bkinds[kn]
		for _, op := range unOpNames {
			if !unDefinedOn(op, k) {
				// undefined-operator probes: must be rejected
				g.line("un", op, k, nil, "v", "l", "-", g.singles(k, false)[:1])
				continue
			}
			vals := g.singles(k, true)
			stors := c01stors
			if op != "PLUS" && g.quick {
				stors = []string{g.nextStor(), "l"}
			}
			for _, st := range stors {
				g.chunk(chunkN, vals, func(p []string) { g.line("un", op, k, nil, "v", st, "-", p) })
			}
			for _, c := range g.trimConsts(k, constSet(r, k, tier), 10) {
				if k.lit(c) != "" && unaryConstOK(op, k, c) {
					g.line("un", op, k, nil, "c", "l", k.encIn(c), nil)
				}
			}
		}
	}
	// ---- binary operators
	for _, op := range binOpNames {
		for _, kn := range bkindNames {
			xk := bkinds[kn]
			if !binDefinedOn(op, xk) {
				// undefined-operator probes (var-var and the constant shapes that have shortcuts): must be rejected
				b := boundary(xk)
				g.line("bin", op, xk, xk, "vv", "l", "-", []string{xk.encIn(b[0]) + "," + xk.encIn(b[len(b)-1])})
				if !isShiftOp(op) {
					for _, c := range constSet(r, xk, tier) {
						cl := constClass(xk, c)
						if xk.lit(c) == "" || !(cl == "c0" || cl == "c1" || cl == "cm1" || cl == "cempty" || cl == "ctrue" || cl == "cfalse") && g.r.Intn(6) != 0 {
							continue
						}
						g.line("bin", op, xk, xk, "vc", "l", xk.encIn(c), []string{xk.encIn(b[len(b)-1])})
						g.line("bin", op, xk, xk, "cv", "l", xk.encIn(c), []string{xk.encIn(b[len(b)-1])})
					}
				}
				continue
			}
			yks := []*bkind{xk}
			if isShiftOp(op) {
				yks = nil
				for _, yn := range bkindNames {
					if bkinds[yn].isInteger() {
						yks = append(yks, bkinds[yn])
					}
				}
			}
			for yi, yk := range yks {
				mainPair := !isShiftOp(op) || yk == xk || yk.name == "uint64" || yk.name == "int8" || !g.quick
				// var-var: every storage class
				budget := 280
				if !mainPair {
					budget = 70
				}
				pairs := g.pairs(op, xk, yk, budget)
				nst := len(c01stors) + 1
				if !mainPair {
					nst = 2
				}
				per := (len(pairs) + nst - 1) / nst
				if per > chunkN {
					per = chunkN
				}
				if per < 8 {
					per = 8
				}
				i := 0
				g.chunk(per, pairs, func(p []string) {
					st := g.nextStor()
					if mainPair {
						st = c01stors[i%len(c01stors)]
						if i%(len(c01stors)+1) == len(c01stors) {
							st = "m1"
						}
					}
					i++
					g.line("bin", op, xk, yk, "vv", st, "-", p)
				})
				// var-const: the constant is untyped, so the count kind is irrelevant for shifts
				if !isShiftOp(op) || yi == 0 {
					var cs []bval
					ck := yk
					if isShiftOp(op) {
						ck = bkinds["uint64"]
						for _, u := range []uint64{0, 1, 2, 7, 8, uint64(xk.bits - 1), uint64(xk.bits), uint64(xk.bits + 1), 63, 64, 65, 1000, 1 << 40} {
							cs = append(cs, bval{u: u})
						}
					} else {
						cs = g.trimConsts(ck, constSet2(r, yk, tier, op == "MUL" || op == "QUO" || op == "REM"), 12)
					}
					for _, c := range cs {
						if ck.lit(c) == "" {
							continue
						}
						if (op == "QUO" || op == "REM") && constClass(ck, c) == "c0" {
							continue // division by constant zero: rejected by Go and by gomacro alike
						}
						cc := constClass(ck, c)
						full := (op == "MUL" || op == "QUO" || op == "REM") && (cc == "cpow2" || cc == "cnegpow2") || !g.quick && (cc != "cother" || g.r.Intn(3) == 0)
						vals := g.singles(xk, full)
						g.chunk(chunkN, vals, func(p []string) {
							g.line("bin", op, xk, ck, "vc", g.nextStor(), ck.encIn(c), p)
						})
					}
				}
				// const-var
				{
					cs := g.trimConsts(xk, constSet2(r, xk, tier, op == "MUL"), 12)
					if isShiftOp(op) && (g.quick || yi > 0) && len(cs) > 4 {
						n := 4
						if !mainPair {
							n = 2
						}
						var sub []bval
						for _, pi := range r.Perm(len(cs))[:n] {
							sub = append(sub, cs[pi])
						}
						cs = sub
					}
					for _, c := range cs {
						if xk.lit(c) == "" {
							continue
						}
						cc := constClass(xk, c)
						full := op == "MUL" && (cc == "cpow2" || cc == "cnegpow2") || !g.quick && (cc != "cother" || g.r.Intn(3) == 0)
						var vals []string
						if isShiftOp(op) {
							for _, v := range shiftCounts(yk, xk.bits) {
								vals = append(vals, yk.encIn(v))
							}
						} else {
							vals = g.singles(yk, full)
						}
						g.chunk(chunkN, vals, func(p []string) {
							g.line("bin", op, xk, yk, "cv", g.nextStor(), xk.encIn(c), p)
						})
					}
				}
				// const-const (typed left constant, untyped right constant): folded by EvalConst
				if !isShiftOp(op) || yi == 0 {
					csx := constSet(r, xk, tier)
					csy := csx
					ck := yk
					if isShiftOp(op) {
						ck = bkinds["uint64"]
						csy = nil
						for _, u := range []uint64{0, 1, 2, 7, uint64(xk.bits - 1), uint64(xk.bits), 64, 100} {
							csy = append(csy, bval{u: u})
						}
					}
					n := 0
					limit := 12
					if !g.quick {
						limit = 150
					}
					perm := r.Perm(len(csx) * len(csy))
					for _, pi := range perm {
						x, y := csx[pi/len(csy)], csy[pi%len(csy)]
						if xk.lit(x) == "" || ck.lit(y) == "" || !g.constExprOK(op, xk, ck, x, y) {
							continue
						}
						g.line("bin", op, xk, ck, "cc", "l", xk.encIn(x)+","+ck.encIn(y), nil)
						if n++; n >= limit {
							break
						}
					}
				}
			}
		}
	}
}

func unaryConstOK(op string, k *bkind, c bval) bool {
	switch k.cat {
	case catInt:
		if op == "NEG" {
			return c.u != uint64(1)<<uint(k.bits-1) // -MinInt overflows
		}
	case catUint:
		if op == "NEG" {
			return c.u == 0 // -x of a positive unsigned constant overflows
		}
		if op == "XOR" {
			return true // ^x of an unsigned typed constant is defined with the mask of the type
		}
	}
	return true
}

func init() {
	register(&Prop{
		ID: "C01",
		Rule: "one op = one expression (operator x kind x operand shape x storage class) compiled by the real fast interpreter and run on a list of " +
			"boundary/random operand values; non-trivial = compiled and evaluated; distinct = distinct op line",
		Gen:        c01gen1,
		Exec:       c01exec,
		Exhaustive: func(string) bool { return false },
	})
}

func bigOf(k *bkind, v bval) *big.Int {
	if k.cat == catInt {
		sh := uint(64 - k.bits)
		return big.NewInt(int64(v.u<<sh) >> sh)
	}
	return new(big.Int).SetUint64(v.u)
}

// constIntOK: is the typed constant expression  T(x) op y  representable in T (else Go rejects it)?
func constIntOK(op string, xk, yk *bkind, x, y bval) bool {
	if isCmpOp(op) {
		return true
	}
	bx, by := bigOf(xk, x), bigOf(yk, y)
	r := new(big.Int)
	switch op {
	case "ADD":
		r.Add(bx, by)
	case "SUB":
		r.Sub(bx, by)
	case "MUL":
		r.Mul(bx, by)
	case "QUO", "REM":
		if by.Sign() == 0 {
			return false
		}
		if op == "QUO" {
			r.Quo(bx, by)
		} else {
			r.Rem(bx, by)
		}
	case "AND":
		r.And(bx, by)
	case "OR":
		r.Or(bx, by)
	case "XOR":
		r.Xor(bx, by)
	case "AND_NOT":
		r.AndNot(bx, by)
	case "SHL", "SHR":
		if by.Sign() < 0 || by.Cmp(big.NewInt(500)) > 0 {
			return false
		}
		if op == "SHL" {
			r.Lsh(bx, uint(by.Uint64()))
		} else {
			r.Rsh(bx, uint(by.Uint64()))
		}
	default:
		return false
	}
	var lo, hi *big.Int
	if xk.cat == catInt {
		hi = new(big.Int).Lsh(big.NewInt(1), uint(xk.bits-1))
		lo = new(big.Int).Neg(hi)
		hi.Sub(hi, big.NewInt(1))
	} else {
		lo = big.NewInt(0)
		hi = new(big.Int).Lsh(big.NewInt(1), uint(xk.bits))
		hi.Sub(hi, big.NewInt(1))
	}
	return r.Cmp(lo) >= 0 && r.Cmp(hi) <= 0
}

func negU(u uint64) uint64 { return -u }
