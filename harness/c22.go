package main

// C22: the uniform syntax-tree wrapper ast2 round-trips every node losslessly.
//
// Ops
//   node <T> F=v F=v ...   a shallow go/ast node of struct type T (children are fresh dummy nodes
//                          identified by number); the real ToAst/Size/Get/Set/New are run on it and
//                          the layout is printed -- the Lean model predicts the same line from the
//                          regenerated table.  Values: _ zero | a:<enc> atom | n<k> child | [e,..] list
//   slice <W> <list>       the same for the bare slice wrappers (ExprSlice, StmtSlice, ...)
//   tree file <G:|R:path>  every node of a file parsed by gomacro's parser fork: per-node checks +
//   tree src <enc>         deep clone through New/Get/Set/Append of the whole tree, compared with a
//   tree rnd <seed> <budget> <mode>   position-insensitive structural equality (oracle only)
// Oracle (the property, on the real code): relevant fields preserved by the rebuild, Op() unchanged,
// ToNode(ToAst(n)) == n, Get(i) valid exactly for i < Size().

import (
	"fmt"
	"go/ast"
	"go/build"
	"go/token"
	"math/rand"
	"os"
	"path/filepath"
	"reflect"
	"sort"
	"strconv"
	"strings"

	"github.com/cosmos72/gomacro/ast2"
	"github.com/cosmos72/gomacro/go/etoken"
	mp "github.com/cosmos72/gomacro/go/parser"
)

// every node struct type of go/ast (checked against the go/ast source by c22Gen: op "typelist")
var c22TypeList = []interface{}{
	ast.ArrayType{}, ast.AssignStmt{}, ast.BadDecl{}, ast.BadExpr{}, ast.BadStmt{}, ast.BasicLit{}, ast.BinaryExpr{},
	ast.BlockStmt{}, ast.BranchStmt{}, ast.CallExpr{}, ast.CaseClause{}, ast.ChanType{}, ast.CommClause{},
	ast.Comment{}, ast.CommentGroup{}, ast.CompositeLit{}, ast.DeclStmt{}, ast.DeferStmt{}, ast.Ellipsis{}, ast.EmptyStmt{},
	ast.ExprStmt{}, ast.Field{}, ast.FieldList{}, ast.File{}, ast.ForStmt{}, ast.FuncDecl{}, ast.FuncLit{}, ast.FuncType{},
	ast.GenDecl{}, ast.GoStmt{}, ast.Ident{}, ast.IfStmt{}, ast.ImportSpec{}, ast.IncDecStmt{}, ast.IndexExpr{},
	ast.IndexListExpr{}, ast.InterfaceType{}, ast.KeyValueExpr{}, ast.LabeledStmt{}, ast.MapType{}, ast.Package{},
	ast.ParenExpr{}, ast.RangeStmt{}, ast.ReturnStmt{}, ast.SelectStmt{}, ast.SelectorExpr{}, ast.SendStmt{},
	ast.SliceExpr{}, ast.StarExpr{}, ast.StructType{}, ast.SwitchStmt{}, ast.TypeAssertExpr{}, ast.TypeSpec{},
	ast.TypeSwitchStmt{}, ast.UnaryExpr{}, ast.ValueSpec{},
}

var c22Types = map[string]reflect.Type{}
var c22Names []string
var (
	c22NodeIface = reflect.TypeOf((*ast.Node)(nil)).Elem()
	c22ExprIface = reflect.TypeOf((*ast.Expr)(nil)).Elem()
	c22StmtIface = reflect.TypeOf((*ast.Stmt)(nil)).Elem()
	c22DeclIface = reflect.TypeOf((*ast.Decl)(nil)).Elem()
	c22SpecIface = reflect.TypeOf((*ast.Spec)(nil)).Elem()
)

func init() {
	for _, v := range c22TypeList {
		t := reflect.TypeOf(v)
		c22Types[t.Name()] = t
		c22Names = append(c22Names, t.Name())
	}
	sort.Strings(c22Names)
	register(&Prop{
		ID:   "C22",
		Rule: "bounded-exhaustive: every go/ast node struct type x every nil/non-nil (lists: nil/empty/2 elements) assignment of its child fields (capped at 256 per type) as shallow `node` ops, every bare slice wrapper; nodes sampled from files parsed with gomacro's parser (quick: sample of GOROOT/src + ast2-related files of the repository, thorough: all of GOROOT/src and the repository) as `node` ops; the whole files, sources with macro/quote/template forms and random trees (valid stream + malformed stream with nil children, arbitrary tokens incl. extension tokens) as `tree` ops (every node checked, deep clone compared). Non-trivial: node/slice ops with at least one child, tree ops with >= 10 nodes; distinct by op text.",
		Gen:  c22Gen,
		Exec: c22Exec,
		Exhaustive: func(tier string) bool { return false },
	})
}

// ---------------------------------------------------------------- classification by reflect type

func c22Gty(t reflect.Type) string {
	s := t.String()
	return strings.ReplaceAll(s, "ast.", "")
}

func c22IsNodeName(n string) bool { _, ok := c22Types[n]; return ok }

func c22FieldClass(st reflect.Type, i int) string {
	f := st.Field(i)
	return c22Class(st.Name(), f.Name, c22Gty(f.Type), c22IsNodeName)
}

// ---------------------------------------------------------------- shallow encoding

func c22Enc(s string) string {
	var sb strings.Builder
	for i := 0; i < len(s); i++ {
		c := s[i]
		if c >= 'a' && c <= 'z' || c >= 'A' && c <= 'Z' || c >= '0' && c <= '9' || c == '_' || c == '.' || c == '-' {
			sb.WriteByte(c)
		} else {
			fmt.Fprintf(&sb, "%%%02X", c)
		}
	}
	return sb.String()
}

func c22Dec(s string) string {
	var sb strings.Builder
	for i := 0; i < len(s); i++ {
		if s[i] == '%' && i+2 < len(s) {
			n, err := strconv.ParseUint(s[i+1:i+3], 16, 8)
			if err == nil {
				sb.WriteByte(byte(n))
				i += 2
				continue
			}
		}
		sb.WriteByte(s[i])
	}
	return sb.String()
}

type c22ids struct {
	m    map[interface{}]int
	next int
}

func newC22ids() *c22ids { return &c22ids{m: map[interface{}]int{}, next: 1} }

type c22mapKey struct{ p uintptr }

// key of a pointer / interface / map value; nil if the value is nil
func c22Key(v reflect.Value) interface{} {
	switch v.Kind() {
	case reflect.Interface:
		if v.IsNil() {
			return nil
		}
		e := v.Elem()
		if e.Kind() == reflect.Ptr {
			if e.IsNil() {
				return nil
			}
			return e.Interface()
		}
		if a, ok := e.Interface().(ast2.Ast); ok { // AstSlice element
			x := a.Interface()
			if x == nil {
				return nil
			}
			return x
		}
		return e.Interface()
	case reflect.Ptr:
		if v.IsNil() {
			return nil
		}
		return v.Interface()
	case reflect.Map:
		if v.IsNil() {
			return nil
		}
		return c22mapKey{v.Pointer()}
	}
	return nil
}

func (ids *c22ids) ref(v reflect.Value, assign bool) string {
	k := c22Key(v)
	if k == nil {
		return "_"
	}
	if id, ok := ids.m[k]; ok {
		return "n" + strconv.Itoa(id)
	}
	if !assign {
		return "n?"
	}
	id := ids.next
	ids.next++
	ids.m[k] = id
	return "n" + strconv.Itoa(id)
}

func c22ShallowVal(v reflect.Value, ids *c22ids, assign bool) string {
	switch v.Kind() {
	case reflect.Int, reflect.Int64, reflect.Int32:
		if v.Int() == 0 {
			return "_"
		}
		return "a:" + strconv.FormatInt(v.Int(), 10)
	case reflect.Bool:
		if !v.Bool() {
			return "_"
		}
		return "a:true"
	case reflect.String:
		if v.String() == "" {
			return "_"
		}
		return "a:" + c22Enc(v.String())
	case reflect.Interface, reflect.Ptr, reflect.Map:
		return ids.ref(v, assign)
	case reflect.Slice:
		if v.IsNil() {
			return "_"
		}
		var es []string
		for i := 0; i < v.Len(); i++ {
			es = append(es, ids.ref(v.Index(i), assign))
		}
		return "[" + strings.Join(es, ",") + "]"
	}
	return "?" + v.Kind().String()
}

// c22Shallow renders all fields of the struct *p in declaration order
func c22Shallow(p reflect.Value, ids *c22ids, assign bool, sep string) string {
	s := p.Elem()
	var fs []string
	for i := 0; i < s.NumField(); i++ {
		fs = append(fs, s.Type().Field(i).Name+"="+c22ShallowVal(s.Field(i), ids, assign))
	}
	return strings.Join(fs, sep)
}

// dummy child of static type t, named by id
func c22Dummy(t reflect.Type, id string) reflect.Value {
	switch t.Kind() {
	case reflect.Interface:
		var n ast.Node
		switch t {
		case c22StmtIface:
			n = &ast.ExprStmt{X: &ast.Ident{Name: id}}
		case c22DeclIface:
			n = &ast.GenDecl{Tok: token.VAR}
		case c22SpecIface:
			n = &ast.ValueSpec{Names: []*ast.Ident{{Name: id}}}
		default:
			if t.Name() == "Ast" {
				return reflect.ValueOf(ast2.Ident{X: &ast.Ident{Name: id}})
			}
			n = &ast.Ident{Name: id}
		}
		return reflect.ValueOf(n)
	case reflect.Ptr:
		v := reflect.New(t.Elem())
		if id, ok := v.Interface().(*ast.Ident); ok {
			id.Name = "x"
		}
		return v
	case reflect.Map:
		return reflect.MakeMap(t)
	}
	panic("c22Dummy: " + t.String())
}

func c22SetVal(f reflect.Value, v string, ids *c22ids) error {
	t := f.Type()
	if v == "_" {
		f.Set(reflect.Zero(t))
		return nil
	}
	mk := func(t reflect.Type, e string) (reflect.Value, error) {
		if e == "_" {
			return reflect.Zero(t), nil
		}
		if !strings.HasPrefix(e, "n") {
			return reflect.Value{}, fmt.Errorf("bad element %q", e)
		}
		id, err := strconv.Atoi(e[1:])
		if err != nil {
			return reflect.Value{}, err
		}
		d := c22Dummy(t, e)
		ids.m[c22Key(d.Convert(t))] = id
		if id >= ids.next {
			ids.next = id + 1
		}
		return d, nil
	}
	switch t.Kind() {
	case reflect.Int, reflect.Int64, reflect.Int32:
		n, err := strconv.ParseInt(strings.TrimPrefix(v, "a:"), 10, 64)
		f.SetInt(n)
		return err
	case reflect.Bool:
		f.SetBool(v == "a:true")
		return nil
	case reflect.String:
		f.SetString(c22Dec(strings.TrimPrefix(v, "a:")))
		return nil
	case reflect.Interface, reflect.Ptr, reflect.Map:
		d, err := mk(t, v)
		if err != nil {
			return err
		}
		f.Set(d)
		return nil
	case reflect.Slice:
		if !strings.HasPrefix(v, "[") || !strings.HasSuffix(v, "]") {
			return fmt.Errorf("bad list %q", v)
		}
		body := v[1 : len(v)-1]
		sl := reflect.MakeSlice(t, 0, 4)
		if body != "" {
			for _, e := range strings.Split(body, ",") {
				d, err := mk(t.Elem(), e)
				if err != nil {
					return err
				}
				sl = reflect.Append(sl, d)
			}
		}
		f.Set(sl)
		return nil
	}
	return fmt.Errorf("field kind %v", t.Kind())
}

// ---------------------------------------------------------------- running the real code safely

func c22Try(f func()) (msg string) {
	defer func() {
		if e := recover(); e != nil {
			msg = oneLine(fmt.Sprint(e))
			if msg == "" {
				msg = "panic"
			}
		}
	}()
	f()
	return ""
}

func c22Rebuild(in ast2.Ast) (out ast2.Ast) {
	out = in.New()
	n := in.Size()
	if s, ok := out.(ast2.AstWithSlice); ok {
		for s.Size() < n {
			s = s.Append(nil)
		}
		out = s
	}
	for i := 0; i < n; i++ {
		out.Set(i, in.Get(i))
	}
	return out
}

// deep clone in the manner of fast/macroexpand.go macroExpandCodewalk (without trivial-node unwrapping)
func c22Clone(in ast2.Ast) ast2.Ast {
	if in == nil || in.Interface() == nil {
		return in
	}
	out := in.New()
	n := in.Size()
	if s, ok := out.(ast2.AstWithSlice); ok {
		for s.Size() < n {
			s = s.Append(nil)
		}
		out = s
	}
	for i := 0; i < n; i++ {
		child := in.Get(i)
		if child != nil {
			child = c22Clone(child)
		}
		out.Set(i, child)
	}
	return out
}

func c22AstStr(a ast2.Ast, ids *c22ids) string {
	if a == nil {
		return "nil"
	}
	if _, ok := a.(ast2.AstWithNode); ok {
		x := a.Interface()
		if x == nil {
			return "node(_)"
		}
		return "node(" + ids.ref(reflect.ValueOf(x), false) + ")"
	}
	name := reflect.TypeOf(a).Name()
	x := reflect.ValueOf(a).Field(0)
	return name + "(" + c22ShallowVal(x, ids, false) + ")"
}

// ---------------------------------------------------------------- per-node oracle

type c22viol struct{ key, desc string }

// c22PanicKey: a panic caused by ToAst's missing arm for type T is keyed by that root cause
func c22PanicKey(def, msg string) string {
	const u = "unsupported node type *ast."
	if i := strings.Index(msg, u); i >= 0 {
		t := msg[i+len(u):]
		if j := strings.IndexAny(t, " :,"); j >= 0 {
			t = t[:j]
		}
		return "toast-unsupported-" + t
	}
	return def
}

// c22Malformed: go/ast's own documented invariant that Set re-derives (precondition of the property)
func c22Malformed(n ast.Node) bool {
	if s, ok := n.(*ast.SliceExpr); ok {
		return s.Slice3 != (s.Max != nil)
	}
	return false
}

// c22Desc describes a child without printing addresses (violation texts must be reproducible)
func c22Desc(v reflect.Value) string {
	k := c22Key(v)
	if k == nil {
		return "<nil>"
	}
	if id, ok := k.(*ast.Ident); ok {
		return "*ast.Ident(" + id.Name + ")"
	}
	return fmt.Sprintf("%T", k)
}

func c22SameChild(a, b reflect.Value) bool {
	ka, kb := c22Key(a), c22Key(b)
	return ka == kb
}

// c22CompareShallow: orig vs rebuilt node of the same struct type; children by identity.
func c22CompareShallow(tn string, a, b reflect.Value, tags map[string]bool) *c22viol {
	st := a.Type()
	for i := 0; i < st.NumField(); i++ {
		cls := c22FieldClass(st, i)
		fa, fb := a.Field(i), b.Field(i)
		name := tn + "." + st.Field(i).Name
		switch cls {
		case "pos":
			if fa.Int() != fb.Int() {
				tags["posdrop-"+name] = true
			}
		case "comment", "resolve":
			if !reflect.DeepEqual(fa.Interface(), fb.Interface()) {
				tags["exemptdrop-"+name] = true
			}
		case "posflag":
			if (fa.Int() != 0) != (fb.Int() != 0) {
				return &c22viol{name + "-not-preserved", fmt.Sprintf("%s: position flag %v became %v", name, fa.Int(), fb.Int())}
			}
		case "tok", "flag", "lit":
			if !reflect.DeepEqual(fa.Interface(), fb.Interface()) {
				return &c22viol{name + "-not-preserved", fmt.Sprintf("%s: %v became %v", name, fa.Interface(), fb.Interface())}
			}
		case "child":
			if !c22SameChild(fa, fb) {
				return &c22viol{name + "-not-preserved", fmt.Sprintf("%s: child %s became %s", name, c22Desc(fa), c22Desc(fb))}
			}
		case "childList":
			if fa.Len() != fb.Len() {
				return &c22viol{name + "-not-preserved", fmt.Sprintf("%s: %d children became %d", name, fa.Len(), fb.Len())}
			}
			for j := 0; j < fa.Len(); j++ {
				if !c22SameChild(fa.Index(j), fb.Index(j)) {
					return &c22viol{name + "-not-preserved", fmt.Sprintf("%s[%d]: child changed", name, j)}
				}
			}
			if fa.Len() == 0 && fa.IsNil() != fb.IsNil() {
				tags["nil-vs-empty-list"] = true
			}
		case "childMap":
			if fa.Len() != fb.Len() || (fa.Len() != 0 && fa.Pointer() != fb.Pointer()) {
				return &c22viol{name + "-not-preserved", fmt.Sprintf("%s: map of %d children became %d", name, fa.Len(), fb.Len())}
			}
		default:
			return &c22viol{name + "-unclassified", name + ": field of unknown class " + cls}
		}
	}
	return nil
}

// c22CheckNode runs the property's checks on one real node.
func c22CheckNode(n ast.Node, tags map[string]bool) *c22viol {
	tn := reflect.TypeOf(n).Elem().Name()
	if tn == "Comment" || tn == "CommentGroup" {
		return nil
	}
	var in ast2.Ast
	if msg := c22Try(func() { in = ast2.ToAst(n) }); msg != "" {
		return &c22viol{"toast-unsupported-" + tn, "ToAst(*ast." + tn + "): " + msg}
	}
	if in == nil {
		return &c22viol{"toast-nil-" + tn, "ToAst(non-nil *ast." + tn + ") returned nil"}
	}
	// unwrap(wrap(n)) == n
	var back ast.Node
	if msg := c22Try(func() { back = ast2.ToNode(in) }); msg != "" || back != n || in.Interface() != interface{}(n) {
		return &c22viol{"unwrap-wrap-" + tn, fmt.Sprintf("ToNode(ToAst(n)) != n for *ast.%s (%s)", tn, msg)}
	}
	size := in.Size()
	// Get(i) valid exactly for i < Size
	for i := 0; i < size; i++ {
		if msg := c22Try(func() { in.Get(i) }); msg != "" {
			return &c22viol{c22PanicKey(tn+"-get-below-size-fails", msg), fmt.Sprintf("%s.Get(%d) with Size()=%d: %s", tn, i, size, msg)}
		}
	}
	if msg := c22Try(func() { in.Get(size) }); msg == "" {
		return &c22viol{tn + "-get-accepts-index-size", fmt.Sprintf("%s.Get(%d) succeeds although Size()=%d", tn, size, size)}
	}
	var out ast2.Ast
	if msg := c22Try(func() { out = c22Rebuild(in) }); msg != "" {
		return &c22viol{c22PanicKey(tn+"-rebuild-panics", msg), fmt.Sprintf("rebuild of *ast.%s panics: %s", tn, msg)}
	}
	if msg := c22Try(func() { out.New().Set(size, nil) }); msg == "" {
		return &c22viol{tn + "-set-accepts-index-size", fmt.Sprintf("%s.Set(%d, nil) succeeds although Size()=%d", tn, size, size)}
	}
	if out.Size() != size {
		return &c22viol{tn + "-size-changed", fmt.Sprintf("Size() %d became %d", size, out.Size())}
	}
	if c22Malformed(n) {
		tags["precond-malformed-slice3"] = true
		return nil
	}
	var opIn, opOut token.Token
	c22Try(func() { opIn = in.Op(); opOut = out.Op() })
	if opIn != opOut {
		return &c22viol{tn + "-op-changed", fmt.Sprintf("Op() %v became %v", opIn, opOut)}
	}
	on := ast2.ToNode(out)
	if on == nil || reflect.TypeOf(on) != reflect.TypeOf(n) {
		return &c22viol{tn + "-type-changed", fmt.Sprintf("rebuilt node is %T", on)}
	}
	return c22CompareShallow(tn, reflect.ValueOf(n).Elem(), reflect.ValueOf(on).Elem(), tags)
}

// ---------------------------------------------------------------- deep structural equality

func c22DeepEq(a, b reflect.Value, tags map[string]bool, depth int) *c22viol {
	if depth > 5000 {
		return nil
	}
	switch a.Kind() {
	case reflect.Interface, reflect.Ptr:
		an, bn := c22Key(a) == nil, c22Key(b) == nil
		if an || bn {
			if an != bn {
				return &c22viol{"deep-nil-mismatch", fmt.Sprintf("nil vs non-nil child (%v / %v)", a.Type(), b.Type())}
			}
			return nil
		}
		if a.Kind() == reflect.Interface {
			a, b = a.Elem(), b.Elem()
		}
		if a.Type() != b.Type() {
			return &c22viol{"deep-type-" + a.Type().Elem().Name(), fmt.Sprintf("%v became %v", a.Type(), b.Type())}
		}
		return c22DeepEqStruct(a.Elem(), b.Elem(), tags, depth+1)
	}
	return nil
}

func c22DeepEqStruct(a, b reflect.Value, tags map[string]bool, depth int) *c22viol {
	st := a.Type()
	tn := st.Name()
	for i := 0; i < st.NumField(); i++ {
		cls := c22FieldClass(st, i)
		fa, fb := a.Field(i), b.Field(i)
		name := tn + "." + st.Field(i).Name
		switch cls {
		case "pos":
			if fa.Int() != fb.Int() {
				tags["posdrop-"+name] = true
			}
		case "comment", "resolve":
		case "posflag":
			if (fa.Int() != 0) != (fb.Int() != 0) {
				return &c22viol{name + "-not-preserved", fmt.Sprintf("deep: %s: %v became %v", name, fa.Int(), fb.Int())}
			}
		case "tok", "flag", "lit":
			if !reflect.DeepEqual(fa.Interface(), fb.Interface()) {
				return &c22viol{name + "-not-preserved", fmt.Sprintf("deep: %s: %v became %v", name, fa.Interface(), fb.Interface())}
			}
		case "child":
			if v := c22DeepEq(fa, fb, tags, depth); v != nil {
				if strings.HasPrefix(v.key, "deep-") {
					v.key = name + "-not-preserved"
					v.desc = "deep: " + name + ": " + v.desc
				}
				return v
			}
		case "childList":
			if fa.Len() != fb.Len() {
				return &c22viol{name + "-not-preserved", fmt.Sprintf("deep: %s: %d children became %d", name, fa.Len(), fb.Len())}
			}
			for j := 0; j < fa.Len(); j++ {
				if v := c22DeepEq(fa.Index(j), fb.Index(j), tags, depth); v != nil {
					if strings.HasPrefix(v.key, "deep-") {
						v.key = name + "-not-preserved"
						v.desc = "deep: " + name + ": " + v.desc
					}
					return v
				}
			}
		case "childMap":
			if fa.Len() != fb.Len() {
				return &c22viol{name + "-not-preserved", fmt.Sprintf("deep: %s: map of %d children became %d", name, fa.Len(), fb.Len())}
			}
		}
	}
	return nil
}

// c22Walk visits every go/ast node reachable through child fields (pre-order)
func c22Walk(v reflect.Value, fn func(n ast.Node), depth int) {
	if depth > 5000 {
		return
	}
	switch v.Kind() {
	case reflect.Interface:
		if v.IsNil() {
			return
		}
		c22Walk(v.Elem(), fn, depth)
	case reflect.Ptr:
		if v.IsNil() || v.Elem().Kind() != reflect.Struct {
			return
		}
		n, ok := v.Interface().(ast.Node)
		if !ok {
			return
		}
		fn(n)
		s := v.Elem()
		st := s.Type()
		for i := 0; i < st.NumField(); i++ {
			switch c22FieldClass(st, i) {
			case "child":
				c22Walk(s.Field(i), fn, depth+1)
			case "childList":
				for j := 0; j < s.Field(i).Len(); j++ {
					c22Walk(s.Field(i).Index(j), fn, depth+1)
				}
			case "childMap":
				it := s.Field(i).MapRange()
				for it.Next() {
					c22Walk(it.Value(), fn, depth+1)
				}
			}
		}
	}
}

// ---------------------------------------------------------------- sources

func c22Path(p string) string {
	switch {
	case strings.HasPrefix(p, "G:"):
		return filepath.Join(build.Default.GOROOT, "src", p[2:])
	case strings.HasPrefix(p, "R:"):
		return filepath.Join(repoDir(), p[2:])
	}
	return p
}

func c22Parse(name string, src []byte) (nodes []ast.Node, perr string) {
	var p mp.Parser
	msg := c22Try(func() {
		p.Configure(mp.ParseComments, '~')
		p.Init(etoken.NewFileSet(), name, 0, src)
		var err error
		nodes, err = p.Parse()
		if err != nil {
			perr = "parse-errors"
		}
	})
	if msg != "" {
		perr = "parser-panic"
	}
	return nodes, perr
}

var c22TreeCacheKey string
var c22TreeCache []ast.Node

func c22Roots(kind, arg string) (roots []ast.Node, tag string) {
	key := kind + " " + arg
	if key == c22TreeCacheKey {
		return c22TreeCache, ""
	}
	switch kind {
	case "file":
		src, err := os.ReadFile(c22Path(arg))
		if err != nil {
			return nil, "unreadable"
		}
		roots, tag = c22Parse(arg, src)
	case "src":
		roots, tag = c22Parse("src", []byte(c22Dec(arg)))
	case "rnd":
		f := strings.Fields(arg)
		if len(f) != 3 {
			return nil, "bad-op"
		}
		seed, _ := strconv.ParseInt(f[0], 10, 64)
		budget, _ := strconv.Atoi(f[1])
		g := &c22rgen{r: rand.New(rand.NewSource(seed)), malformed: f[2] == "malformed", go118: f[2] == "go118"}
		for k := 0; k < 4; k++ {
			g.budget = budget / 4
			roots = append(roots, g.node(c22NodeIface, 0).Interface().(ast.Node))
		}
	}
	c22TreeCacheKey, c22TreeCache = key, roots
	return roots, tag
}

// ---------------------------------------------------------------- random trees

type c22rgen struct {
	r         *rand.Rand
	budget    int
	malformed bool
	go118     bool // also generate what only Go >= 1.18 syntax produces: IndexListExpr, TypeParams
}

var c22TokPool = []token.Token{token.ADD, token.SUB, token.MUL, token.AND, token.ARROW, token.LAND, token.EQL, token.ASSIGN, token.DEFINE,
	token.ADD_ASSIGN, token.INC, token.DEC, token.BREAK, token.CONTINUE, token.GOTO, token.FALLTHROUGH, token.VAR, token.CONST, token.TYPE,
	token.IMPORT, token.INT, token.STRING, token.CHAR, token.FLOAT, token.NOT, token.XOR, token.TILDE, token.PACKAGE, token.FUNC,
	etoken.QUOTE, etoken.QUASIQUOTE, etoken.UNQUOTE, etoken.UNQUOTE_SPLICE, etoken.MACRO, etoken.FUNCTION, etoken.LAMBDA, etoken.TYPECASE,
	etoken.TEMPLATE, etoken.HASH}
var c22StrPool = []string{"x", "y", "foo", "nil", "_", "main", "T", "1", "0x7f", `"s"`, "`raw\nstr`", "'c'", "1.5e3", "a b", "~quote", "go1.21", "é"}

// optional children per go/ast documentation ("or nil"); everything else is required in the valid stream
var c22Optional = map[string]bool{
	"ArrayType.Len": true, "Field.Tag": true, "Field.Type": true, "Ellipsis.Elt": true, "CompositeLit.Type": true,
	"SliceExpr.Low": true, "SliceExpr.High": true, "SliceExpr.Max": true, "TypeAssertExpr.Type": true,
	"FuncType.TypeParams": true, "FuncType.Results": true, "IfStmt.Init": true, "IfStmt.Else": true,
	"SwitchStmt.Init": true, "SwitchStmt.Tag": true, "TypeSwitchStmt.Init": true, "CommClause.Comm": true,
	"ForStmt.Init": true, "ForStmt.Cond": true, "ForStmt.Post": true, "RangeStmt.Key": true, "RangeStmt.Value": true,
	"BranchStmt.Label": true, "ImportSpec.Name": true, "ValueSpec.Type": true, "TypeSpec.TypeParams": true,
	"FuncDecl.Recv": true, "FuncDecl.Body": true, "FuncLit.Body": false, "ChanType.Value": false,
}

func (g *c22rgen) implementers(iface reflect.Type) []reflect.Type {
	var out []reflect.Type
	for _, n := range c22Names {
		if n == "Comment" || n == "CommentGroup" || n == "File" || n == "Package" || (n == "IndexListExpr" && !g.go118) {
			continue
		}
		if reflect.PtrTo(c22Types[n]).Implements(iface) {
			out = append(out, c22Types[n])
		}
	}
	return out
}

var c22Leaves = map[reflect.Type][]string{}

func (g *c22rgen) node(t reflect.Type, depth int) reflect.Value {
	g.budget--
	var st reflect.Type
	if t.Kind() == reflect.Interface {
		if g.budget <= 0 || depth > 12 {
			switch t {
			case c22StmtIface:
				st = c22Types[[]string{"EmptyStmt", "BranchStmt", "BadStmt"}[g.r.Intn(3)]]
			case c22DeclIface:
				st = c22Types["BadDecl"]
			case c22SpecIface:
				st = c22Types["ImportSpec"]
			default:
				st = c22Types[[]string{"Ident", "BasicLit", "BadExpr"}[g.r.Intn(3)]]
			}
		} else {
			im := g.implementers(t)
			st = im[g.r.Intn(len(im))]
		}
	} else {
		st = t.Elem()
	}
	p := reflect.New(st)
	s := p.Elem()
	for i := 0; i < st.NumField(); i++ {
		f := s.Field(i)
		ft := f.Type()
		name := st.Name() + "." + st.Field(i).Name
		cls := c22FieldClass(st, i)
		switch cls {
		case "pos", "posflag":
			if g.r.Intn(4) != 0 {
				f.SetInt(int64(1 + g.r.Intn(1000)))
			}
		case "tok":
			f.SetInt(int64(c22TokPool[g.r.Intn(len(c22TokPool))]))
		case "flag":
			if ft.Kind() == reflect.Bool {
				f.SetBool(g.r.Intn(2) == 0)
			} else {
				f.SetInt(int64(1 + g.r.Intn(3)))
			}
		case "lit":
			if g.r.Intn(8) != 0 {
				f.SetString(c22StrPool[g.r.Intn(len(c22StrPool))])
			}
		case "comment":
			if g.r.Intn(6) == 0 && ft.Kind() == reflect.Ptr {
				f.Set(reflect.ValueOf(&ast.CommentGroup{List: []*ast.Comment{{Text: "// c"}}}))
			}
		case "resolve":
			if g.r.Intn(6) == 0 && ft.Kind() == reflect.Ptr {
				f.Set(reflect.New(ft.Elem()))
			}
		case "child":
			if st.Field(i).Name == "TypeParams" && !g.go118 {
				continue
			}
			nilp := 0
			if c22Optional[name] {
				nilp = 3
			}
			if g.malformed {
				nilp = 4
			}
			if nilp != 0 && g.r.Intn(nilp) == 0 || (g.budget <= 0 && ft.Kind() == reflect.Ptr && c22Optional[name]) {
				continue
			}
			if ft.Kind() == reflect.Ptr && (g.budget <= 0 || depth > 12) {
				q := reflect.New(ft.Elem())
				if id, ok := q.Interface().(*ast.Ident); ok {
					id.Name = "z"
				}
				f.Set(q)
				continue
			}
			f.Set(g.node(ft, depth+1))
		case "childList":
			k := g.r.Intn(5) // 0: nil, 1: empty, else 1..3 elements
			if k == 0 {
				continue
			}
			sl := reflect.MakeSlice(ft, 0, 3)
			if g.budget > 0 && depth <= 12 {
				for j := 0; j < k-1; j++ {
					if g.malformed && g.r.Intn(5) == 0 {
						sl = reflect.Append(sl, reflect.Zero(ft.Elem()))
					} else {
						sl = reflect.Append(sl, g.node(ft.Elem(), depth+1))
					}
				}
			}
			f.Set(sl)
		case "childMap":
			if g.r.Intn(2) == 0 {
				m := reflect.MakeMap(ft)
				m.SetMapIndex(reflect.ValueOf("a.go"), reflect.New(ft.Elem().Elem()))
				f.Set(m)
			}
		}
	}
	// go/ast's documented invariant in the valid stream
	if se, ok := p.Interface().(*ast.SliceExpr); ok && !g.malformed {
		se.Slice3 = se.Max != nil
	}
	return p
}

// ---------------------------------------------------------------- Exec

// The shared harness keeps only the first 50 violations of a run.  So that a new kind of violation can
// never be crowded out by repetitions of an already reported one, each key is reported as a violation
// at most c22MaxPerKey times per run; further occurrences are counted under the tag "repeat-<key>".
const c22MaxPerKey = 2

var c22KeyCount = map[string]int{}

func c22Exec(op string) Result {
	res := c22Exec1(op)
	if res.Key != "" {
		c22KeyCount[res.Key]++
		if c22KeyCount[res.Key] > c22MaxPerKey {
			res.Tags = append(res.Tags, "repeat-"+res.Key)
			res.Viol, res.Key = "", ""
		}
	}
	return res
}

func c22Exec1(op string) Result {
	f := strings.Fields(op)
	if len(f) < 2 {
		return Result{Out: "bad-op"}
	}
	switch f[0] {
	case "node":
		return c22ExecNode(f[1], f[2:])
	case "slice":
		if len(f) != 3 {
			return Result{Out: "bad-op"}
		}
		return c22ExecSlice(f[1], f[2])
	case "tree":
		return c22ExecTree(f[1], strings.Join(f[2:], " "))
	case "typelist":
		// the node types known to the harness must be exactly those of the go/ast source
		want := strings.Join(c22Names, ",")
		r := Result{Out: "typelist", Tags: []string{"typelist"}}
		if f[1] != want {
			r.Viol, r.Key = "go/ast node struct types differ from the harness list: source has "+f[1], "harness-typelist-stale"
		}
		return r
	}
	return Result{Out: "bad-op"}
}

func c22TagList(tags map[string]bool) []string {
	var l []string
	for t := range tags {
		l = append(l, t)
	}
	sort.Strings(l)
	return l
}

func c22ExecNode(tn string, fields []string) Result {
	st, ok := c22Types[tn]
	if !ok {
		return Result{Out: "unknown-type"}
	}
	p := reflect.New(st)
	ids := newC22ids()
	nchild := 0
	for _, fv := range fields {
		name, v, ok := strings.Cut(fv, "=")
		fld := p.Elem().FieldByName(name)
		if !ok || !fld.IsValid() {
			return Result{Out: "bad-field " + name}
		}
		if err := c22SetVal(fld, v, ids); err != nil {
			return Result{Out: "bad-value " + name}
		}
		if strings.Contains(v, "n") && !strings.HasPrefix(v, "a:") {
			nchild++
		}
	}
	n := p.Interface().(ast.Node)
	tags := map[string]bool{"node-" + tn: true}
	res := Result{Nontrivial: nchild > 0}
	var in ast2.Ast
	if msg := c22Try(func() { in = ast2.ToAst(n) }); msg != "" || in == nil {
		res.Out = "unsupported"
	} else {
		res.Out = c22Layout(in, ids)
	}
	if v := c22CheckNode(n, tags); v != nil {
		res.Viol, res.Key = v.desc, v.key
	}
	res.Tags = c22TagList(tags)
	return res
}

// c22Layout prints what the model predicts: wrapper, Size, children, index check, New(), rebuilt node.
func c22Layout(in ast2.Ast, ids *c22ids) string {
	var sb strings.Builder
	size := -1
	c22Try(func() { size = in.Size() })
	fmt.Fprintf(&sb, "w=%s size=%d get=", reflect.TypeOf(in).Name(), size)
	for i := 0; i < size; i++ {
		if i > 0 {
			sb.WriteByte(';')
		}
		var a ast2.Ast
		if msg := c22Try(func() { a = in.Get(i) }); msg != "" {
			sb.WriteString("PANIC")
		} else {
			sb.WriteString(c22AstStr(a, ids))
		}
	}
	oorG, oorS := "ok", "ok"
	if c22Try(func() { in.Get(size) }) != "" {
		oorG = "bad"
	}
	var fresh ast2.Ast
	shallow := func(a ast2.Ast) string {
		if a == nil {
			return "nil"
		}
		if _, ok := a.(ast2.AstWithNode); ok {
			x := a.Interface()
			if x == nil {
				return "nil"
			}
			return c22Shallow(reflect.ValueOf(x), ids, false, "/")
		}
		return "X=" + c22ShallowVal(reflect.ValueOf(a).Field(0), ids, false)
	}
	newS, setS := "PANIC", "PANIC"
	if c22Try(func() { fresh = in.New() }) == "" {
		newS = shallow(fresh)
		var probe ast2.Ast
		if c22Try(func() { probe = in.New(); probe.Set(size, nil) }) != "" {
			oorS = "bad"
		}
	}
	var out ast2.Ast
	if c22Try(func() { out = c22Rebuild(in) }) == "" {
		setS = shallow(out)
	}
	fmt.Fprintf(&sb, " oor=%s,%s new=%s set=%s", oorG, oorS, newS, setS)
	return sb.String()
}

func c22ExecSlice(w, list string) Result {
	var ty reflect.Type
	switch w {
	case "AstSlice":
		ty = reflect.TypeOf([]ast2.Ast(nil))
	case "NodeSlice":
		ty = reflect.TypeOf([]ast.Node(nil))
	case "ExprSlice":
		ty = reflect.TypeOf([]ast.Expr(nil))
	case "FieldSlice":
		ty = reflect.TypeOf([]*ast.Field(nil))
	case "DeclSlice":
		ty = reflect.TypeOf([]ast.Decl(nil))
	case "IdentSlice":
		ty = reflect.TypeOf([]*ast.Ident(nil))
	case "StmtSlice":
		ty = reflect.TypeOf([]ast.Stmt(nil))
	case "SpecSlice":
		ty = reflect.TypeOf([]ast.Spec(nil))
	default:
		return Result{Out: "unknown-slice"}
	}
	ids := newC22ids()
	sl := reflect.New(ty).Elem()
	if err := c22SetVal(sl, list, ids); err != nil {
		return Result{Out: "bad-value"}
	}
	var in ast2.Ast
	if msg := c22Try(func() { in = ast2.AnyToAst(sl.Interface(), "c22") }); msg != "" || in == nil {
		return Result{Out: "unsupported", Viol: "AnyToAst(" + ty.String() + ") failed: " + msg, Key: "anytoast-" + w}
	}
	res := Result{Out: c22Layout(in, ids), Tags: []string{"slice-" + w}, Nontrivial: sl.Len() > 0}
	if got := reflect.TypeOf(in).Name(); got != w {
		res.Viol, res.Key = "AnyToAst gives "+got, "anytoast-"+w
		return res
	}
	// oracle: rebuilt list has the same elements
	var out ast2.Ast
	if msg := c22Try(func() { out = c22Rebuild(in) }); msg != "" {
		res.Viol, res.Key = "rebuild panics: "+msg, w+"-rebuild-panics"
		return res
	}
	a, b := reflect.ValueOf(in).Field(0), reflect.ValueOf(out).Field(0)
	if a.Len() != b.Len() {
		res.Viol, res.Key = fmt.Sprintf("%d elements became %d", a.Len(), b.Len()), w+".X-not-preserved"
		return res
	}
	for i := 0; i < a.Len(); i++ {
		if !c22SameChild(a.Index(i), b.Index(i)) {
			res.Viol, res.Key = fmt.Sprintf("element %d changed", i), w+".X-not-preserved"
			return res
		}
	}
	if c22Try(func() { in.Get(a.Len()) }) == "" {
		res.Viol, res.Key = "Get(Size) succeeds", w+"-get-accepts-index-size"
	}
	return res
}

func c22ExecTree(kind, arg string) Result {
	roots, ptag := c22Roots(kind, arg)
	tags := map[string]bool{"tree-" + kind: true}
	if ptag != "" {
		tags[ptag] = true
	}
	res := Result{Out: "tree"}
	count := 0
	var first *c22viol
	for _, root := range roots {
		if root == nil {
			continue
		}
		c22Walk(reflect.ValueOf(root), func(n ast.Node) {
			count++
			if first != nil {
				return
			}
			tn := reflect.TypeOf(n).Elem().Name()
			tags["kind-"+tn] = true
			if v := c22CheckNode(n, tags); v != nil {
				first = v
			}
		}, 0)
		if first != nil {
			break
		}
		// deep clone of the whole tree
		malformed := false
		c22Walk(reflect.ValueOf(root), func(n ast.Node) {
			if c22Malformed(n) {
				malformed = true
			}
		}, 0)
		var out ast.Node
		if msg := c22Try(func() { out = ast2.ToNode(c22Clone(ast2.ToAst(root))) }); msg != "" {
			first = &c22viol{c22PanicKey("deep-clone-panics", msg), "deep clone panics: " + msg}
			break
		}
		if malformed {
			tags["precond-malformed-slice3"] = true
			continue
		}
		if v := c22DeepEq(reflect.ValueOf(&root).Elem(), reflect.ValueOf(&out).Elem(), tags, 0); v != nil {
			first = v
			break
		}
	}
	if first != nil {
		res.Viol, res.Key = first.desc, first.key
	}
	res.Nontrivial = count >= 10
	res.Tags = c22TagList(tags)
	return res
}

// ---------------------------------------------------------------- Gen

func c22NodeOp(n ast.Node) string {
	p := reflect.ValueOf(n)
	return "node " + p.Elem().Type().Name() + " " + c22Shallow(p, newC22ids(), true, " ")
}

var c22ExtSources = []string{
	"~quote{x + 1}", "~quasiquote{a; ~unquote{b}; ~unquote_splice{c}}", "~'x", "~`{f(~,x, ~,@y)}",
	"macro m(a, b interface{}) interface{} { return ~`{~,a + ~,b} }", "~func f(x int) int { return x }",
	"~lambda(x int) int { return x }", "m; 1; 2", "{m; a; b}", "~quote{case 1: x}", "~quote{~typecase int: x}",
	"template[T] func sum(a []T) T { var s T; for _, x := range a { s += x }; return s }",
	"template[T,U] type Pair struct { A T; B U }", "template[] for[int] func sum(a []int) int { return 0 }",
	"sum#[int](v)", "var p Pair#[int,string]", "~quote{package foo}", "package \"a/b\"", "import ( \"fmt\"; x \"os\" )",
	"a[1:2:3]", "a[:]", "f(x...)", "type A = B", "type ( C int; D struct{ x, y int `tag`; E } )", "x.(type)", "x.(int)",
	"switch y := x.(type) { case int: default: }", "select { case <-c: case c <- 1: default: }", "for i := range x { continue }",
	"L: for { break L }", "func (r *T) m(a, b int, c ...string) (x int, err error) { defer f(); go g(); return 1, nil }",
	"var _ = map[string][]chan<- int{\"a\": {nil}}", "var f func(int) <-chan int", "if x := f(); x > 0 { } else if y { } else { }",
	"x++; y -= 2; z <- 3; a, b = b, a", "const ( a = iota; b )", "interface { m(); io.Reader }", "[...]int{1, 2}", "*p = &q",
	"goto L", "fallthrough", ";", "func() {}()", "struct{}{}", "~unquote", "~quote{}", "~macro",
}

func c22Gen(r *rand.Rand, tier string, emit func(string)) {
	thorough := tier == "thorough"
	// (0) the node struct types of the go/ast source
	if dir, err := c22AstDir(repoDir()); err == nil {
		if ss, err := c22ReadStructs(dir); err == nil {
			var names []string
			for _, s := range ss {
				names = append(names, s.Name)
			}
			sort.Strings(names)
			emit("typelist " + strings.Join(names, ","))
		}
	}
	// (1) bare slices
	for _, w := range []string{"AstSlice", "NodeSlice", "ExprSlice", "FieldSlice", "DeclSlice", "IdentSlice", "StmtSlice", "SpecSlice"} {
		for _, l := range []string{"_", "[]", "[n1]", "[n1,n2,n3]", "[_]", "[n1,_,n2]", "[_,_]"} {
			emit("slice " + w + " " + l)
		}
	}
	// (2) bounded-exhaustive shallow nodes: every type x every nil pattern of its child fields
	for _, tn := range c22Names {
		st := c22Types[tn]
		if tn == "Comment" || tn == "CommentGroup" {
			continue
		}
		var kids []int
		choices := 1
		for i := 0; i < st.NumField(); i++ {
			switch c22FieldClass(st, i) {
			case "child", "childMap":
				kids = append(kids, i)
				choices *= 2
			case "childList":
				kids = append(kids, i)
				choices *= 3
			}
		}
		limit := 256
		if thorough {
			limit = 4096
		}
		combos := choices
		if combos > limit {
			combos = limit
		}
		for c := 0; c < combos; c++ {
			code := c
			if choices > limit {
				code = r.Intn(choices)
			}
			p := reflect.New(st)
			s := p.Elem()
			g := &c22rgen{r: r, budget: 0}
			q := g.node(reflect.PtrTo(st), 99).Elem() // random atoms, shallow
			s.Set(q)
			for _, i := range kids {
				f := s.Field(i)
				ft := f.Type()
				switch ft.Kind() {
				case reflect.Slice:
					k := code % 3
					code /= 3
					switch k {
					case 0:
						f.Set(reflect.Zero(ft))
					case 1:
						f.Set(reflect.MakeSlice(ft, 0, 0))
					default:
						sl := reflect.MakeSlice(ft, 0, 2)
						sl = reflect.Append(sl, c22Dummy(ft.Elem(), "d"), c22Dummy(ft.Elem(), "d"))
						f.Set(sl)
					}
				default:
					k := code % 2
					code /= 2
					if k == 0 {
						f.Set(reflect.Zero(ft))
					} else {
						f.Set(c22Dummy(ft, "d"))
					}
				}
			}
			if se, ok := p.Interface().(*ast.SliceExpr); ok && r.Intn(8) != 0 {
				se.Slice3 = se.Max != nil
			}
			emit(c22NodeOp(p.Interface().(ast.Node)))
		}
	}
	// (3) extension sources
	for _, src := range c22ExtSources {
		emit("tree src " + c22Enc(src))
		c22EmitSample(r, "src", c22Enc(src), 6, emit)
	}
	// (4) files
	var files []string
	groot := filepath.Join(build.Default.GOROOT, "src")
	if rp, err := filepath.EvalSymlinks(groot); err == nil {
		filepath.WalkDir(rp, func(path string, d os.DirEntry, err error) error {
			if err == nil && !d.IsDir() && strings.HasSuffix(path, ".go") {
				rel, _ := filepath.Rel(rp, path)
				files = append(files, "G:"+filepath.ToSlash(rel))
			}
			return nil
		})
	}
	sort.Strings(files)
	var rfiles []string
	filepath.WalkDir(repoDir(), func(path string, d os.DirEntry, err error) error {
		if err == nil && d.IsDir() && (d.Name() == ".git" || d.Name() == "_example") {
			return filepath.SkipDir
		}
		if err == nil && !d.IsDir() && strings.HasSuffix(path, ".go") {
			rel, _ := filepath.Rel(repoDir(), path)
			rfiles = append(rfiles, "R:"+filepath.ToSlash(rel))
		}
		return nil
	})
	sort.Strings(rfiles)
	nG, nR, perFile := 120, 25, 8
	if thorough {
		nG, nR, perFile = len(files), len(rfiles), 3
	}
	pick := func(l []string, n int) []string {
		if n >= len(l) {
			return l
		}
		idx := r.Perm(len(l))[:n]
		sort.Ints(idx)
		var out []string
		for _, i := range idx {
			out = append(out, l[i])
		}
		return out
	}
	for _, f := range append(pick(rfiles, nR), pick(files, nG)...) {
		emit("tree file " + f)
		c22EmitSample(r, "file", f, perFile, emit)
	}
	// (5) random trees
	nt := 300
	if thorough {
		nt = 8000
	}
	for i := 0; i < nt; i++ {
		mode := "valid"
		if i%4 == 3 {
			mode = "malformed"
		} else if i%16 == 6 {
			mode = "go118"
		}
		arg := fmt.Sprintf("%d %d %s", r.Int63n(1<<40), 40+r.Intn(400), mode)
		emit("tree rnd " + arg)
		c22EmitSample(r, "rnd", arg, 4, emit)
	}
}

// c22EmitSample emits `node` ops for k nodes sampled from the tree of (kind, arg)
func c22EmitSample(r *rand.Rand, kind, arg string, k int, emit func(string)) {
	roots, _ := c22Roots(kind, arg)
	var all []ast.Node
	for _, root := range roots {
		if root != nil {
			c22Walk(reflect.ValueOf(root), func(n ast.Node) {
				tn := reflect.TypeOf(n).Elem().Name()
				if tn != "Comment" && tn != "CommentGroup" {
					all = append(all, n)
				}
			}, 0)
		}
	}
	for j := 0; j < k && len(all) > 0; j++ {
		emit(c22NodeOp(all[r.Intn(len(all))]))
	}
}
