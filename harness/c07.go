package main

// C07: defer, panic and recover follow Go semantics in interpreted code.
//
// Op kinds
//
//	T <cfg> <hint> <tok>...   a scripted call tree (see lean/Model/Defer.lean, lean/Drv/C07.lean):
//	                          rendered as Go source, run by the real fast interpreter (fresh
//	                          interpreter per op), by compiled Go (oracle, one batch) and by the model.
//	                          Out = canonical event log of the real interpreter.
//	Q <name>                  a hand-written program OUTSIDE the model (defer of builtins, callbacks of
//	                          compiled deferred functions, run-time error values, ...): oracle only,
//	                          Out = "q <name>".
//
// <cfg> = s<0|1>m<0|1> tells the MODEL which code it transcribes: s1 = executor saves/restores
// Run.Panic/Run.PanicFun per frame (fixes/C07-nested-recover-loses-outer-panic.diff applied),
// m1 = method values copy a value receiver (fixes/C07-method-value-receiver-copy.diff applied).
// It is not part of the input: Prepare() probes the code under test once and rewrites the field
// of every op in place (so corpus files and replays written against another tree stay usable).
// The oracle (compiled Go) never looks at it.

import (
	"fmt"
	"math/rand"
	"reflect"
	"regexp"
	"sort"
	"strconv"
	"strings"

	"github.com/cosmos72/gomacro/fast"
)

// ---------------------------------------------------------------- tree

type c07node struct {
	k    byte // e p r s a R V C D L M
	n    int  // value
	a, b int  // L: kind=n, count=a, base=b ; M: a,b
	body []*c07node
}

// strict decimal number (digits only, at most 7 of them)
func c07atoi(s string) (int, bool) {
	if len(s) == 0 || len(s) > 7 {
		return 0, false
	}
	for _, c := range s {
		if c < '0' || c > '9' {
			return 0, false
		}
	}
	v, _ := strconv.Atoi(s)
	return v, true
}

// c07parse parses a body; depth > 0: up to the matching ")".  Unbalanced input is rejected.
func c07parse(toks []string, depth int) (body []*c07node, rest []string, ok bool) {
	for len(toks) > 0 {
		t := toks[0]
		toks = toks[1:]
		if t == ")" {
			return body, toks, depth > 0
		}
		if t == "" {
			return nil, nil, false
		}
		nd := &c07node{k: t[0]}
		switch {
		case t == "r" || t == "R":
		case t == "C(" || t == "D(":
			var sub []*c07node
			var o bool
			sub, toks, o = c07parse(toks, depth+1)
			if !o {
				return nil, nil, false
			}
			nd.body = sub
		case t[0] == 'e' || t[0] == 'p' || t[0] == 's' || t[0] == 'a' || t[0] == 'V':
			v, o := c07atoi(t[1:])
			if !o {
				return nil, nil, false
			}
			nd.n = v
		case t[0] == 'L':
			f := strings.Split(t[1:], ",")
			if len(f) != 3 {
				return nil, nil, false
			}
			var o1, o2, o3 bool
			nd.n, o1 = c07atoi(f[0])
			nd.a, o2 = c07atoi(f[1])
			nd.b, o3 = c07atoi(f[2])
			if !o1 || !o2 || !o3 || nd.a > 8 {
				return nil, nil, false
			}
		case t[0] == 'M':
			f := strings.Split(t[1:], ",")
			if len(f) != 2 {
				return nil, nil, false
			}
			var o1, o2 bool
			nd.a, o1 = c07atoi(f[0])
			nd.b, o2 = c07atoi(f[1])
			if !o1 || !o2 {
				return nil, nil, false
			}
		default:
			return nil, nil, false
		}
		body = append(body, nd)
	}
	return body, nil, depth == 0
}

func c07toks(body []*c07node, out *[]string) {
	for _, n := range body {
		switch n.k {
		case 'r', 'R':
			*out = append(*out, string(n.k))
		case 'C', 'D':
			*out = append(*out, string(n.k)+"(")
			c07toks(n.body, out)
			*out = append(*out, ")")
		case 'L':
			*out = append(*out, fmt.Sprintf("L%d,%d,%d", n.n, n.a, n.b))
		case 'M':
			*out = append(*out, fmt.Sprintf("M%d,%d", n.a, n.b))
		default:
			*out = append(*out, fmt.Sprintf("%c%d", n.k, n.n))
		}
	}
}

// does the closure body (through nested deferred closures, not through calls) touch the named result?
func c07usesRes(body []*c07node) bool {
	for _, n := range body {
		switch n.k {
		case 's', 'a', 'V':
			return true
		case 'D':
			if c07usesRes(n.body) {
				return true
			}
		case 'L':
			if n.n == 1 {
				return true
			}
		}
	}
	return false
}

// may the function be rendered with an unnamed result?
func c07unnamedOK(body []*c07node) bool {
	for _, n := range body {
		switch n.k {
		case 's', 'a':
			return false
		case 'D':
			if c07usesRes(n.body) {
				return false
			}
		case 'L':
			if n.n == 1 {
				return false
			}
		}
	}
	return true
}

// feature used only to name a violation: a deferred call (or something it calls) contains an
// activation that both panics and recovers
func c07hasPanic(body []*c07node) bool {
	for _, n := range body {
		if n.k == 'p' || ((n.k == 'C' || n.k == 'D') && c07hasPanic(n.body)) {
			return true
		}
	}
	return false
}
func c07hasRecover(body []*c07node) bool {
	for _, n := range body {
		if n.k == 'r' || ((n.k == 'C' || n.k == 'D') && c07hasRecover(n.body)) {
			return true
		}
	}
	return false
}
func c07nestedRecovered(body []*c07node, inDefer bool) bool {
	for _, n := range body {
		switch n.k {
		case 'D':
			if c07hasPanic(n.body) && c07hasRecover(n.body) {
				return true
			}
			if c07nestedRecovered(n.body, true) {
				return true
			}
		case 'C':
			if c07nestedRecovered(n.body, inDefer) {
				return true
			}
		}
	}
	return false
}

// ---------------------------------------------------------------- rendering

type c07render struct {
	pfx   string // prefix of every top-level name of this op
	decls strings.Builder
	nfun  int
	nvar  int
	h     uint64 // rendering choices (from the hint)
}

func (r *c07render) choice(n int) int {
	r.h = r.h*6364136223846793005 + 1442695040888963407
	return int((r.h >> 33) % uint64(n))
}

const c07prelude = `
var LOG []string
func lg(s string) { LOG = append(LOG, s) }
func lgi(n int) { lg("e" + strconv.Itoa(n)) }
type PV struct{ n int }
func (t PV) Show() { lg("e" + strconv.Itoa(t.n)) }
func show(e interface{}) string {
	switch x := e.(type) {
	case nil:
		return "-"
	case int:
		return strconv.Itoa(x)
	case string:
		return "S:" + x
	case PV:
		return "T:" + strconv.Itoa(x.n)
	case error:
		return "E:" + x.Error()
	}
	return "?"
}
`

func (r *c07render) panicStmt(v int) string {
	switch {
	case v == 900:
		return "{ var m map[string]int; m[\"a\"] = 1 }"
	case v == 901:
		return "{ xs := []int{1, 2, 3}; i := 5; xs[i] = 1 }"
	case v == 902:
		return "{ a, b := 1, 0; a = a / b; lgi(a) }"
	case v == 903:
		return "{ var fn func(); fn() }"
	}
	switch v % 4 {
	case 0:
		return fmt.Sprintf("panic(%d)", v)
	case 1:
		return fmt.Sprintf("panic(\"s%d\")", v)
	case 2:
		return fmt.Sprintf("panic(fmt.Errorf(\"e%%d\", %d))", v)
	}
	return fmt.Sprintf("panic(PV{%d})", v)
}

// body renders the statements of one activation.  named: the enclosing function has the named
// result r (closures of it may use r); inCall: statements of the function itself (return v allowed)
func (r *c07render) body(sb *strings.Builder, body []*c07node, ind string, named bool, inCall bool) {
	for _, n := range body {
		switch n.k {
		case 'e':
			fmt.Fprintf(sb, "%slg(\"e%d\")\n", ind, n.n)
		case 'p':
			fmt.Fprintf(sb, "%s%s\n", ind, r.panicStmt(n.n))
		case 'r':
			if r.choice(3) == 0 {
				fmt.Fprintf(sb, "%sif x := recover(); x != nil { lg(\"r\" + show(x)) } else { lg(\"r-\") }\n", ind)
			} else {
				fmt.Fprintf(sb, "%slg(\"r\" + show(recover()))\n", ind)
			}
		case 's':
			fmt.Fprintf(sb, "%sr = %d\n", ind, n.n)
		case 'a':
			fmt.Fprintf(sb, "%sr = (r*10 + %d) %% 1000003\n", ind, n.n)
		case 'R':
			if inCall && !named {
				fmt.Fprintf(sb, "%sreturn 0\n", ind)
			} else {
				fmt.Fprintf(sb, "%sreturn\n", ind)
			}
		case 'V':
			if inCall {
				fmt.Fprintf(sb, "%sreturn %d\n", ind, n.n)
			} else {
				fmt.Fprintf(sb, "%sr = %d\n%sreturn\n", ind, n.n, ind)
			}
		case 'C':
			name := r.fun(n.body)
			if r.choice(4) == 0 {
				fmt.Fprintf(sb, "%s{ v := %s(); lg(\"c\" + strconv.Itoa(v)) }\n", ind, name)
			} else {
				fmt.Fprintf(sb, "%slg(\"c\" + strconv.Itoa(%s()))\n", ind, name)
			}
		case 'D':
			r.deferStmt(sb, n.body, ind, named)
		case 'L':
			r.nvar++
			i := fmt.Sprintf("i%d", r.nvar)
			switch n.n {
			case 0:
				fmt.Fprintf(sb, "%sfor %s := 0; %s < %d; %s++ {\n%s\tdefer func() { lgi(%d + %s) }()\n%s}\n", ind, i, i, n.a, i, ind, n.b, i, ind)
			case 1:
				fmt.Fprintf(sb, "%sfor %s := 0; %s < %d; %s++ {\n%s\tdefer func(j int) { lgi(%d + j); r = (r*10 + j%%10) %% 1000003 }(%s)\n%s}\n", ind, i, i, n.a, i, ind, n.b, i, ind)
			case 2:
				fmt.Fprintf(sb, "%sfor %s := 0; %s < %d; %s++ {\n%s\tdefer lgi(%d + %s)\n%s}\n", ind, i, i, n.a, i, ind, n.b, i, ind)
			default:
				fmt.Fprintf(sb, "%s{\n%s\tt%s := PV{0}\n%s\tfor %s := 0; %s < %d; %s++ {\n%s\t\tt%s.n = %d + %s\n%s\t\tdefer t%s.Show()\n%s\t}\n%s}\n",
					ind, ind, i, ind, i, i, n.a, i, ind, i, n.b, i, ind, i, ind, ind)
			}
		case 'M':
			r.nvar++
			fmt.Fprintf(sb, "%s{ t%d := PV{%d}; defer t%d.Show(); t%d.n = %d }\n", ind, r.nvar, n.a, r.nvar, r.nvar, n.b)
		}
	}
}

func (r *c07render) deferStmt(sb *strings.Builder, body []*c07node, ind string, named bool) {
	variant := 0
	if !c07usesRes(body) {
		variant = r.choice(7) // 0,1: closure  2: named function  3: value method  4: method value  5: pointer method 6: closure with argument
	} else if !named {
		panic("c07: closure uses result of a function rendered without named result")
	}
	if variant <= 1 || variant == 6 {
		if variant == 6 {
			fmt.Fprintf(sb, "%sdefer func(x int) {\n%s\t_ = x\n", ind, ind)
		} else {
			fmt.Fprintf(sb, "%sdefer func() {\n", ind)
		}
		r.body(sb, body, ind+"\t", named, false)
		if variant == 6 {
			fmt.Fprintf(sb, "%s}(7)\n", ind)
		} else {
			fmt.Fprintf(sb, "%s}()\n", ind)
		}
		return
	}
	r.nfun++
	k := r.nfun
	var fb strings.Builder
	switch variant {
	case 2:
		fmt.Fprintf(&fb, "func %sd%d() {\n", r.pfx, k)
	case 3, 4:
		fmt.Fprintf(&fb, "func (t PV) %sD%d() {\n", strings.ToUpper(r.pfx), k)
	case 5:
		fmt.Fprintf(&fb, "func (t *PV) %sD%d() {\n", strings.ToUpper(r.pfx), k)
	}
	r.body(&fb, body, "\t", false, false)
	fb.WriteString("}\n")
	r.decls.WriteString(fb.String())
	switch variant {
	case 2:
		fmt.Fprintf(sb, "%sdefer %sd%d()\n", ind, r.pfx, k)
	case 3:
		fmt.Fprintf(sb, "%sdefer PV{1}.%sD%d()\n", ind, strings.ToUpper(r.pfx), k)
	case 4:
		fmt.Fprintf(sb, "%s{ mv := PV{1}.%sD%d; defer mv() }\n", ind, strings.ToUpper(r.pfx), k)
	case 5:
		fmt.Fprintf(sb, "%sdefer (&PV{1}).%sD%d()\n", ind, strings.ToUpper(r.pfx), k)
	}
}

// fun declares the function of a `call` node and returns its name
func (r *c07render) fun(body []*c07node) string {
	r.nfun++
	name := fmt.Sprintf("%sf%d", r.pfx, r.nfun)
	named := true
	if c07unnamedOK(body) && r.choice(3) == 0 {
		named = false
	}
	var fb strings.Builder
	if named {
		fmt.Fprintf(&fb, "func %s() (r int) {\n", name)
	} else {
		fmt.Fprintf(&fb, "func %s() int {\n", name)
	}
	r.body(&fb, body, "\t", named, true)
	if named {
		fb.WriteString("\treturn\n}\n")
	} else {
		fb.WriteString("\treturn 0\n}\n")
	}
	r.decls.WriteString(fb.String())
	return name
}

// c07source returns the declarations of the op and the name of its root function
func c07source(body []*c07node, hint uint64, pfx string) (decls string, root string) {
	r := &c07render{pfx: pfx, h: hint*2654435761 + 12345}
	root = r.fun(body)
	return r.decls.String(), root
}

// ---------------------------------------------------------------- canonical log

// raw token of a value printed by show() -> model value ("?" if unknown)
func c07canonVal(s string) string {
	switch {
	case s == "-":
		return "-"
	case strings.HasPrefix(s, "S:s"), strings.HasPrefix(s, "E:e"):
		if _, err := strconv.Atoi(s[3:]); err == nil {
			return s[3:]
		}
	case strings.HasPrefix(s, "T:"):
		return s[2:]
	}
	if _, err := strconv.Atoi(s); err == nil {
		return s
	}
	switch {
	case strings.Contains(s, "nil map"):
		return "900"
	case strings.Contains(s, "index out of range"):
		return "901"
	case strings.Contains(s, "divide by zero"):
		return "902"
	case strings.Contains(s, "nil pointer dereference"):
		return "903"
	}
	return "?" + s
}

func c07canon(raw []string) string {
	out := make([]string, len(raw))
	for i, t := range raw {
		if len(t) > 0 && (t[0] == 'r' || t[0] == 'P') {
			out[i] = t[:1] + c07canonVal(t[1:])
		} else {
			out[i] = t
		}
	}
	return strings.Join(out, " ")
}

// value escaping Interp.Eval, rendered like show() does inside the program
func c07showEscaped(e interface{}) string {
	switch x := e.(type) {
	case nil:
		return "-"
	case int:
		return strconv.Itoa(x)
	case string:
		return "S:" + x
	case error:
		return "E:" + x.Error()
	}
	v := reflect.ValueOf(e)
	if v.Kind() == reflect.Struct && v.NumField() == 1 && v.Field(0).Kind() == reflect.Int {
		return "T:" + strconv.FormatInt(v.Field(0).Int(), 10)
	}
	return "?" + fmt.Sprint(e)
}

// ---------------------------------------------------------------- running the real interpreter

// One interpreter per epoch (op "reset" starts a new one): creating an interpreter costs far more
// than running a program.  Every op declares its functions under a prefix unique in the epoch.
var c07ir *fast.Interp
var c07count int

func c07interp() *fast.Interp {
	if c07ir == nil {
		c07ir = newQuietInterp()
		c07count = 0
		src := "import (\n\"fmt\"\n\"strconv\"\n\"sort\"\n\"runtime\"\n)\nvar _ = fmt.Sprint\n" + c07prelude
		if _, e := evalSrc(c07ir, src); e != "" {
			panic("c07: prelude rejected: " + e)
		}
	}
	return c07ir
}

// c07runReal evaluates decls in the epoch's interpreter, then `call`; returns the raw log
func c07runReal(decls, call string, rootIsInt bool) (raw []string, errText string) {
	ir := c07interp()
	if _, e := evalSrc(ir, "LOG = nil\n"+decls); e != "" {
		return nil, "DECL-ERROR " + e
	}
	var escaped interface{}
	var vals []reflect.Value
	func() {
		defer func() {
			if e := recover(); e != nil {
				escaped = e
			}
		}()
		vs, _ := ir.Eval(call)
		for _, v := range vs {
			vals = append(vals, v.ReflectValue())
		}
	}()
	lv, e := evalSrc(ir, "LOG")
	if e != "" || len(lv) != 1 {
		return nil, "LOG-ERROR " + e
	}
	raw, _ = lv[0].Interface().([]string)
	raw = append([]string(nil), raw...)
	if escaped != nil {
		raw = append(raw, "P"+c07showEscaped(escaped))
	} else if rootIsInt {
		if len(vals) != 1 {
			return nil, fmt.Sprintf("RESULT-ERROR %d values", len(vals))
		}
		raw = append(raw, "c"+fmt.Sprint(vals[0].Interface()))
	}
	return raw, ""
}

func c07pfx() string {
	c07interp()
	c07count++
	return fmt.Sprintf("o%d_", c07count)
}

// ---------------------------------------------------------------- Q programs (outside the model)

type c07q struct {
	name    string
	imports []string
	decls   string
	call    string // expression of type string, or a call statement; the log is LOG (+ result)
	key     string // key of a violation on this program
}

var c07qs = []c07q{
	{"defer-recover-builtin", nil, `
func q() (r int) {
	defer func() { lg("r" + show(recover())) }()
	defer recover()
	panic(8)
}`, "q()", "defer-recover-builtin"},
	{"callback-of-compiled-defer", []string{"sort"}, `
func q() (r int) {
	defer func() { lg("r" + show(recover())) }()
	defer sort.Slice([]int{3, 1, 2}, func(i, j int) bool { lg("cb" + show(recover())); return i < j })
	panic(7)
}`, "q()", "recover-in-callback-of-compiled-defer"},
	{"defer-builtins", nil, `
func q() (r int) {
	c := make(chan int, 1)
	m := map[string]int{"a": 1, "b": 2}
	defer func() { _, ok := <-c; lg(fmt.Sprint("closed=", !ok, " len=", len(m))) }()
	defer close(c)
	defer delete(m, "a")
	defer panic(12)
	defer func() { lg("r" + show(recover())) }()
	panic(4)
}`, "q()", "defer-builtin"},
	{"defer-args-evaluated-at-defer", nil, `
func qfa() { lg("fa") }
func qfb() { lg("fb") }
func q() (r int) {
	x := 1
	defer lgi(x)
	x = 2
	f := qfa
	defer f()
	f = qfb
	p := &x
	defer lgi(*p)
	*p = 3
	xs := []int{10, 20}
	defer func(a []int, n int) { lg(fmt.Sprint(a, n)) }(xs, len(xs))
	xs[0] = 11
	xs = append(xs, 30)
	return x
}`, "q()", "defer-args"},
	{"defer-interface-method", nil, `
type QShower interface{ Show() }
func q() (r int) {
	var s QShower = PV{1}
	defer s.Show()
	s = PV{2}
	defer s.Show()
	panic(16)
}`, "q()", "defer-interface-method"},
	{"defer-variadic", nil, `
func qvs(pre string, xs ...int) { lg(pre + fmt.Sprint(xs)) }
func q() (r int) {
	xs := []int{1, 2}
	defer qvs("a", xs...)
	defer qvs("b", 1, 2, 3)
	defer qvs("c")
	xs[0] = 9
	return 1
}`, "q()", "defer-variadic"},
	{"recursion", nil, `
func qrec(n int) (r int) {
	defer func() {
		lgi(n)
		if n%2 == 0 {
			if e := recover(); e != nil { lg("r" + show(e)); r = n; panic(n + 100) }
		}
	}()
	if n == 0 { panic(0) }
	return qrec(n-1) + 1
}
func q() (r int) {
	defer func() { lg("r" + show(recover())) }()
	return qrec(5)
}`, "q()", "recursion"},
	{"repanic-same-value", nil, `
func q1() (r int) {
	defer func() { e := recover(); lg("r" + show(e)); panic(e) }()
	panic(fmt.Errorf("e%d", 6))
}
func q() (r int) {
	defer func() { lg("r" + show(recover())); r = 5 }()
	return q1()
}`, "q()", "repanic"},
	{"runtime-error-type", []string{"runtime"}, `
func qtry(tag string, f func()) {
	defer func() {
		e := recover()
		_, isrt := e.(runtime.Error)
		_, iserr := e.(error)
		lg(fmt.Sprint(tag, " rt=", isrt, " err=", iserr))
	}()
	f()
}
func q() (r int) {
	qtry("nilmap", func() { var m map[string]int; m["a"] = 1 })
	qtry("div", func() { a, b := 1, 0; _ = a / b })
	qtry("nilfunc", func() { var f func(); f() })
	qtry("index", func() { s := []int{1, 2, 3}; i := 5; _ = s[i] })
	qtry("slice", func() { s := []int{1, 2, 3}; i := 5; _ = s[1:i] })
	qtry("nilptr", func() { var p *PV; _ = p.n })
	qtry("assert", func() { var x interface{} = 1; _ = x.(string) })
	return 0
}`, "q()", "runtime-panic-value-not-runtime-error"},
	{"panic-nil", nil, `
func q() (r int) {
	defer func() { e := recover(); lg(fmt.Sprint("nil=", e == nil)); if err, ok := e.(error); ok { lg(err.Error()) } }()
	panic(nil)
}`, "q()", "panic-nil"},
	{"recover-outside-defer", nil, `
func qh() interface{} { return recover() }
func q() (r int) {
	lg("r" + show(recover()))
	lg("r" + show(qh()))
	defer func() {
		lg("r" + show(qh()))
		func() { lg("r" + show(recover())) }()
		defer func() { lg("r" + show(recover())) }()
	}()
	panic(20)
}
func qq() (r int) { defer func() { lg("r" + show(recover())); r = 3 }(); return q() }`, "qq()", "recover-not-direct"},
	{"method-value-receiver", nil, `
func q() (r int) {
	t := PV{5}
	f := t.Show
	defer t.Show()
	t.n = 6
	f()
	p := &t
	g := p.Show
	t.n = 7
	g()
	return t.n
}`, "q()", "method-value-receiver-late"},
	{"defer-in-closure-var", nil, `
func q() (r int) {
	fs := []func(){}
	for i := 0; i < 3; i++ {
		j := i
		fs = append(fs, func() {
			defer func() { if e := recover(); e != nil { lg("r" + show(e)); r += j } }()
			if j != 1 { panic(j * 4) }
			lgi(j)
		})
	}
	for _, f := range fs { f() }
	return r + 100
}`, "q()", "defer-in-closure"},
	{"os-exit-free-deep-unwind", nil, `
func qd(n int) int {
	if n == 0 { var m map[int]int; m[1] = 1 }
	return qd(n-1) + 1
}
func q() (r int) {
	defer func() { e := recover(); lg("r" + show(e)); r = -1 }()
	for i := 0; i < 3; i++ {
		defer func(k int) { lgi(k) }(i)
	}
	return qd(50)
}`, "q()", "deep-unwind"},
}

// the names declared by the Q programs get the op's prefix
var c07qNames = regexp.MustCompile(`\b(qq|q1|q|qrec|qtry|qfa|qfb|qvs|qh|qd|QShower)\b`)

func c07qRename(src, pfx string) string {
	return c07qNames.ReplaceAllStringFunc(src, func(m string) string { return pfx + m })
}

func c07qByName(name string) *c07q {
	for i := range c07qs {
		if c07qs[i].name == name {
			return &c07qs[i]
		}
	}
	return nil
}

// ---------------------------------------------------------------- oracle batch + cfg probe

var c07oracle = map[string]string{} // op (without cfg) -> raw log of compiled Go joined by "|"
var c07oracleErr string
var c07cfg = ""

func c07opKey(op string) string {
	f := strings.SplitN(op, " ", 3)
	if len(f) == 3 && f[0] == "T" {
		return "T " + f[2]
	}
	return op
}

func c07split(op string) (hint uint64, body []*c07node, ok bool) {
	f := strings.Split(op, " ")
	if len(f) < 3 || f[0] != "T" {
		return 0, nil, false
	}
	hi, ok := c07atoi(f[2])
	if !ok {
		return 0, nil, false
	}
	body, _, ok = c07parse(f[3:], 0)
	if !ok {
		return 0, nil, false
	}
	return uint64(hi), body, true
}

// probe the code under test: which of the two repairs does it contain?
func c07probe() string {
	s, m := "s0", "m0"
	// nested recovered panic inside a deferred call must not drop the outer panic
	b, _, _ := c07parse(strings.Fields("D( C( D( r ) p8 ) ) p4"), 0)
	d, root := c07source(b, 0, c07pfx())
	raw, _ := c07runReal(d, root+"()", true)
	if len(raw) > 0 && raw[len(raw)-1] == "P4" {
		s = "s1"
	}
	b, _, _ = c07parse(strings.Fields("M4,5"), 0)
	d, root = c07source(b, 0, c07pfx())
	raw, _ = c07runReal(d, root+"()", true)
	if len(raw) > 0 && raw[0] == "e4" {

		m = "m1"
	}
	c07ir = nil
	return s + m
}

func c07prepare(ops []string) {
	c07cfg = c07probe()
	for i, op := range ops {
		f := strings.SplitN(op, " ", 3)
		if len(f) == 3 && f[0] == "T" {
			ops[i] = "T " + c07cfg + " " + f[2]
		}
	}
	// compiled-Go oracle: pack several ops into one package
	const per = 40
	type item struct {
		key   string
		decls string
		body  string
	}
	var items []item
	seen := map[string]bool{}
	imports := map[string]bool{}
	for _, op := range ops {
		k := c07opKey(op)
		if seen[k] {
			continue
		}
		seen[k] = true
		pfx := fmt.Sprintf("o%d_", len(items))
		if strings.HasPrefix(op, "T ") {
			h, body, ok := c07split(op)
			if !ok {
				continue
			}
			d, root := c07source(body, h, pfx)
			items = append(items, item{k, d, fmt.Sprintf("LOG = nil\nfunc() {\n\tdefer func() { if e := recover(); e != nil { lg(\"P\" + show(e)) } }()\n\tlg(\"c\" + strconv.Itoa(%s()))\n}()\nemit(strings.Join(LOG, \"|\"))\n", root)})
		}
	}
	var snippets []Snippet
	var owners [][]string
	for i := 0; i < len(items); i += per {
		j := i + per
		if j > len(items) {
			j = len(items)
		}
		var d, b strings.Builder
		d.WriteString("var _ = strconv.Itoa\nvar _ = strings.Join\n")
		d.WriteString(c07prelude)
		var own []string
		for _, it := range items[i:j] {
			d.WriteString(it.decls)
			b.WriteString(it.body)
			own = append(own, it.key)
		}
		snippets = append(snippets, Snippet{Imports: []string{"strconv", "strings"}, Decls: d.String(), Body: b.String()})
		owners = append(owners, own)
	}
	// Q programs: one package each (they declare the same names)
	for _, op := range ops {
		if !strings.HasPrefix(op, "Q ") || seen["done "+op] {
			continue
		}
		seen["done "+op] = true
		q := c07qByName(strings.TrimPrefix(op, "Q "))
		if q == nil {
			continue
		}
		im := append([]string{"strconv", "strings"}, q.imports...)
		for _, x := range im {
			imports[x] = true
		}
		decls := "var _ = strconv.Itoa\nvar _ = strings.Join\n" + c07prelude + q.decls
		body := fmt.Sprintf("LOG = nil\nfunc() {\n\tdefer func() { if e := recover(); e != nil { lg(\"P\" + show(e)) } }()\n\tlg(\"c\" + strconv.Itoa(%s))\n}()\nemit(strings.Join(LOG, \"|\"))\n", q.call)
		snippets = append(snippets, Snippet{Imports: im, Decls: decls, Body: body})
		owners = append(owners, []string{op})
	}
	if len(snippets) == 0 {
		return
	}
	outs, err := runGoBatch("C07", snippets)
	if err != nil {
		c07oracleErr = err.Error()
		return
	}
	for i, o := range outs {
		lines := strings.Split(o, "\n")
		for j, k := range owners[i] {
			if j < len(lines) {
				c07oracle[k] = lines[j]
			}
		}
	}
}

// ---------------------------------------------------------------- exec

func c07exec(op string) Result {
	if c07cfg == "" {
		c07cfg = c07probe()
	}
	if op == "reset" {
		c07ir = nil
		return Result{Out: "ok", Tags: []string{"reset"}}
	}
	if strings.HasPrefix(op, "Q ") {
		name := strings.TrimPrefix(op, "Q ")
		q := c07qByName(name)
		if q == nil {
			return Result{Out: "bad-op", Tags: []string{"bad-op"}}
		}
		res := Result{Out: "q " + name, Tags: []string{"q"}, Nontrivial: true}
		pfx := c07pfx()
		raw, e := c07runReal(c07qRename(q.decls, pfx), c07qRename(q.call, pfx), true)
		real := strings.Join(raw, "|")
		if e != "" {
			real = e
		}
		want, ok := c07oracle[op]
		switch {
		case !ok:
			res.Tags = append(res.Tags, "no-oracle")
			if c07oracleErr != "" {
				res.Viol, res.Key = "compiled-Go oracle unavailable: "+c07oracleErr, "oracle-unavailable"
			}
		case real != want:
			res.Viol = fmt.Sprintf("program %s: gomacro log %q, compiled Go log %q", name, real, want)
			res.Key = q.key
			res.Tags = append(res.Tags, "q-differs")
		}
		return res
	}
	h, body, ok := c07split(op)
	if !ok {
		return Result{Out: "bad-op", Tags: []string{"bad-op"}}
	}
	decls, root := c07source(body, h, c07pfx())
	raw, e := c07runReal(decls, root+"()", true)
	res := Result{Tags: []string{"T", "cfg-" + c07cfg}}
	if e != "" {
		res.Out = e
		res.Viol, res.Key = "gomacro rejects a valid program: "+e+"\n"+decls, "program-rejected"
		return res
	}
	res.Out = c07canon(raw)
	// distribution
	var tk []string
	c07toks(body, &tk)
	feat := map[string]bool{}
	for _, t := range tk {
		switch t[0] {
		case 'D':
			feat["defer"] = true
		case 'p':
			feat["panic"] = true
			if len(t) == 4 && t[1] == '9' {
				feat["runtime-panic"] = true
			}
		case 'L':
			feat["defer-in-loop"] = true
		case 'M':
			feat["defer-method-value"] = true
		}
	}
	for _, t := range raw {
		switch {
		case t == "r-":
			feat["recover-nil"] = true
		case strings.HasPrefix(t, "r"):
			feat["recover-value"] = true
		case strings.HasPrefix(t, "P"):
			feat["panic-escapes"] = true
		}
	}
	if c07nestedRecovered(body, false) {
		feat["nested-panic-recovered-in-defer"] = true
	}
	var fl []string
	for f := range feat {
		fl = append(fl, f)
	}
	sort.Strings(fl)
	res.Tags = append(res.Tags, fl...)
	res.Nontrivial = feat["defer"] || feat["defer-in-loop"] || feat["defer-method-value"] || feat["panic"]
	res.Sig = c07opKey(op)
	// oracle: compiled Go
	want, ok := c07oracle[c07opKey(op)]
	if !ok {
		res.Tags = append(res.Tags, "no-oracle")
		if c07oracleErr != "" {
			res.Viol, res.Key = "compiled-Go oracle unavailable: "+c07oracleErr, "oracle-unavailable"
		}
		return res
	}
	real := strings.Join(raw, "|")
	if real == want {
		return res
	}
	wantRaw := strings.Split(want, "|")
	cw := c07canon(wantRaw)
	switch {
	case cw == res.Out:
		// same events, a run-time panic value prints differently
		kind := "other"
		for i := range raw {
			if i < len(wantRaw) && raw[i] != wantRaw[i] {
				kind = strings.TrimLeft(c07canonVal(raw[i][1:]), "?")
				break
			}
		}
		res.Key = "runtime-panic-value-" + kind
	// the two specific keys are only used while the probe says the code under test lacks the repair
	case strings.Contains(c07cfg, "m0") && c07onlyEmitsDiffer(res.Out, cw) && (feat["defer-method-value"] || strings.Contains(op, "L3,")):
		res.Key = "method-value-receiver-late"
	case strings.Contains(c07cfg, "s0") && feat["nested-panic-recovered-in-defer"]:
		res.Key = "nested-recover-loses-outer-panic"
	default:
		res.Key = "event-log-differs"
	}
	res.Viol = fmt.Sprintf("event log differs from compiled Go: gomacro %q, compiled Go %q; program:\n%s", real, want, decls)
	return res
}

func c07onlyEmitsDiffer(a, b string) bool {
	x, y := strings.Fields(a), strings.Fields(b)
	if len(x) != len(y) {
		return false
	}
	for i := range x {
		if x[i] != y[i] && !(x[i][0] == 'e' && y[i][0] == 'e') {
			return false
		}
	}
	return true
}

// ---------------------------------------------------------------- generator

type c07gen struct {
	r     *rand.Rand
	left  int // node budget
	emitN int
}

func (g *c07gen) val() int {
	if g.r.Intn(9) == 0 {
		return 900 + g.r.Intn(4)
	}
	return 1 + g.r.Intn(60)
}

func (g *c07gen) bodyOf(depth int, inDefer bool, maxLen int) []*c07node {
	n := g.r.Intn(maxLen + 1)
	var out []*c07node
	if inDefer && g.r.Intn(100) < 45 {
		out = append(out, &c07node{k: 'r'})
		g.left--
	}
	for i := 0; i < n && g.left > 0; i++ {
		g.left--
		x := g.r.Intn(100)
		switch {
		case x < 14:
			g.emitN++
			out = append(out, &c07node{k: 'e', n: g.emitN})
		case x < 17:
			out = append(out, &c07node{k: 'p', n: g.val()}) // rest of the body is dead code
		case x < 27:
			out = append(out, &c07node{k: 'r'})
		case x < 33:
			out = append(out, &c07node{k: 's', n: g.r.Intn(50)})
		case x < 43:
			out = append(out, &c07node{k: 'a', n: g.r.Intn(10)})
		case x < 44:
			out = append(out, &c07node{k: 'R'})
		case x < 46:
			out = append(out, &c07node{k: 'V', n: g.r.Intn(50)})
		case x < 62 && depth > 0:
			out = append(out, &c07node{k: 'C', body: g.bodyOf(depth-1, false, 4)})
		case x < 92 && depth > 0:
			out = append(out, &c07node{k: 'D', body: g.bodyOf(depth-1, true, 4)})
		case x < 97:
			g.emitN += 10
			out = append(out, &c07node{k: 'L', n: g.r.Intn(4), a: 1 + g.r.Intn(3), b: g.emitN * 10})
		default:
			g.emitN += 2
			out = append(out, &c07node{k: 'M', a: g.emitN*10 + 1, b: g.emitN*10 + 2})
		}
	}
	// how the body ends
	switch x := g.r.Intn(100); {
	case x < 45:
		out = append(out, &c07node{k: 'p', n: g.val()})
	case x < 55:
		out = append(out, &c07node{k: 'V', n: g.r.Intn(50)})
	case x < 60:
		out = append(out, &c07node{k: 'R'})
	}
	return out
}

var c07alphabet = []string{"p5", "r", "a3", "V7", "D(", "C("}

// every body with at most n nodes over the small alphabet
func c07enum(n int) [][]string {
	// bodies(k) = list of token sequences using exactly k nodes
	memo := map[int][][]string{0: {{}}}
	var bodies func(k int) [][]string
	bodies = func(k int) [][]string {
		if v, ok := memo[k]; ok {
			return v
		}
		var out [][]string
		for _, a := range c07alphabet {
			if a == "D(" || a == "C(" {
				// first node is a compound with j inner nodes, rest has k-1-j
				for j := 0; j <= k-1; j++ {
					for _, in := range bodies(j) {
						for _, rest := range bodies(k - 1 - j) {
							s := append([]string{a}, in...)
							s = append(s, ")")
							s = append(s, rest...)
							out = append(out, s)
						}
					}
				}
			} else {
				for _, rest := range bodies(k - 1) {
					s := append([]string{a}, rest...)
					out = append(out, s)
				}
			}
		}
		memo[k] = out
		return out
	}
	var all [][]string
	for k := 1; k <= n; k++ {
		all = append(all, bodies(k)...)
	}
	return all
}

var c07scenarios = []string{
	// nested panic recovered inside a deferred call while panicking
	"D( r ) C( D( e1 ) D( C( D( r ) p2 ) e2 ) p1 ) s7",
	"D( r ) D( D( r ) p6 ) p5",
	"D( r ) D( C( D( r ) p8 ) ) p4",
	// recover in helper vs direct
	"D( a1 ) D( C( r ) r s7 ) p900 V3",
	"r C( r ) D( C( r ) D( r ) ) p20",
	// re-panic, panic in deferred function while panicking
	"D( r ) D( p9 ) p8",
	"D( r a2 ) D( r p9 ) D( p10 ) p8",
	"D( r ) D( p5 ) V5",
	// loops
	"L0,3,10 L1,3,20 L2,3,30 L3,3,40 M4,5 p6",
	"D( r s9 ) L1,3,20 p902",
	// run-time panics
	"D( r a1 ) p900", "D( r a1 ) p901", "D( r a1 ) p902", "D( r a1 ) p903",
	// named results
	"D( a5 ) D( r a4 ) s3 p7", "D( V9 ) V3", "D( r V9 ) C( p3 ) V3",
}

func c07genOps(r *rand.Rand, tier string, emit0 func(string)) {
	n := 0
	emit := func(op string) {
		if n%80 == 0 {
			emit0("reset")
		}
		n++
		emit0(op)
	}
	for _, q := range c07qs {
		emit("Q " + q.name)
	}
	for i, s := range c07scenarios {
		for h := 0; h < 3; h++ {
			emit(fmt.Sprintf("T s?m? %d %s", i*3+h, s))
		}
	}
	// bounded-exhaustive over the small alphabet
	size := 3
	if tier == "thorough" {
		size = 4
	}
	for _, toks := range c07enum(size) {
		emit(fmt.Sprintf("T s?m? %d %s", r.Intn(1000), strings.Join(toks, " ")))
	}
	// random trees
	count := 600
	if tier == "thorough" {
		count = 12000
	}
	for i := 0; i < count; i++ {
		g := &c07gen{r: r, left: 6 + r.Intn(30)}
		body := g.bodyOf(2+r.Intn(4), false, 6)
		var tk []string
		c07toks(body, &tk)
		if len(tk) == 0 {
			tk = []string{"e1"}
		}
		emit(fmt.Sprintf("T s?m? %d %s", r.Intn(1000000), strings.Join(tk, " ")))
	}
	// malformed stream
	for _, s := range []string{"T s?m? 1 D( e1", "T s?m? x e1", "T s?m? 1 z9", "X", "T s?m? 1 )", "T s?m? 1 C( e1 ) ) e2", "T s?m? 1 L1,2", "T s?m? 1 e-1"} {
		emit(s)
	}
}

func init() {
	register(&Prop{
		ID:   "C07",
		Rule: "Q: hand-written programs outside the model; T: scenario trees, every call tree with <= 3 (thorough 4) nodes over {p5,r,a3,V7,D(),C()}, then seeded random call trees (depth <= 6, <= 36 nodes, loops and method-value defers as sugar) rendered as Go source with random rendering variants; non-trivial = contains a defer or a panic",
		Gen:  c07genOps,
		Exec: c07exec,
		Exhaustive: func(tier string) bool {
			return false
		},
		Prepare: c07prepare,
	})
}
