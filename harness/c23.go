package main

// C23: the forked scanner (github.com/cosmos72/gomacro/go/scanner, a go1.13 go/scanner plus the
// gomacro patch) tokenizes extension-free input exactly like the Go scanner.
//
// Both REAL scanners run in-process on the same bytes, in the four scanning modes
// (ScanComments x dontInsertSemis).  The reference is the sandbox's GOROOT go/scanner.
// The oracle compares (offset, token, literal, adjusted line:col:file) sequences, error lists
// (position + message), ErrorCount and the line tables exactly.  See notes/C23.md for the op
// grammar, the semiBack transformation (the only normalisation applied) and the Keys.

import (
	"encoding/hex"
	"fmt"
	goscanner "go/scanner"
	"go/token"
	"hash/fnv"
	"math/rand"
	"os"
	"path/filepath"
	"runtime"
	"sort"
	"strconv"
	"strings"
	"unicode/utf8"

	"github.com/cosmos72/gomacro/go/etoken"
	mscanner "github.com/cosmos72/gomacro/go/scanner"
)

// ---------------------------------------------------------------- running the two scanners

type c23tok struct {
	off       int
	tok       token.Token
	lit       string
	line, col int
	file      string
}

type c23err struct {
	off       int
	line, col int
	file      string
	msg       string
}

type c23run struct {
	toks   []c23tok
	errs   []c23err
	nerr   int   // Scanner.ErrorCount
	lines  []int // line table of the file after the scan
	panic_ string
}

const c23file = "dir/f.go"

func c23scanStd(src []byte, mode uint) (r c23run) {
	defer func() {
		if e := recover(); e != nil {
			r.panic_ = oneLine(fmt.Sprint(e))
		}
	}()
	fset := token.NewFileSet()
	f := fset.AddFile(c23file, 1, len(src))
	var s goscanner.Scanner
	s.Init(f, src, func(p token.Position, msg string) {
		r.errs = append(r.errs, c23err{p.Offset, p.Line, p.Column, p.Filename, msg})
	}, goscanner.Mode(mode))
	limit := 2*len(src) + 16
	var poss []token.Pos
	for i := 0; i < limit; i++ {
		pos, tok, lit := s.Scan()
		poss = append(poss, pos)
		r.toks = append(r.toks, c23tok{off: int(pos) - 1, tok: tok, lit: lit})
		if tok == token.EOF {
			break
		}
	}
	for i, p := range poss {
		pp := f.PositionFor(p, true)
		r.toks[i].line, r.toks[i].col, r.toks[i].file = pp.Line, pp.Column, pp.Filename
	}
	r.nerr = s.ErrorCount
	r.lines = f.Lines()
	return
}

func c23scanFork(src []byte, mode uint, macroChar rune) (r c23run) {
	defer func() {
		if e := recover(); e != nil {
			r.panic_ = oneLine(fmt.Sprint(e))
		}
	}()
	fset := etoken.NewFileSet()
	f := fset.AddFile(c23file, 1, len(src), 0)
	var s mscanner.Scanner
	s.Init(f, src, func(p token.Position, msg string) {
		r.errs = append(r.errs, c23err{p.Offset, p.Line, p.Column, p.Filename, msg})
	}, mscanner.Mode(mode), macroChar)
	limit := 2*len(src) + 16
	var poss []token.Pos
	for i := 0; i < limit; i++ {
		pos, tok, lit := s.Scan()
		poss = append(poss, pos)
		r.toks = append(r.toks, c23tok{off: int(pos) - 1, tok: tok, lit: lit})
		if tok == token.EOF {
			break
		}
	}
	for i, p := range poss {
		pp := f.PositionFor(p, true)
		r.toks[i].line, r.toks[i].col, r.toks[i].file = pp.Line, pp.Column, pp.Filename
	}
	r.nerr = s.ErrorCount
	r.lines = f.File.Lines()
	return
}

// ---------------------------------------------------------------- semiBack (model: ScanDelta.semiBack)

// c23semiBack rewrites a token stream of the Go >= 1.20 scanner into the stream a go1.13-era scanner
// produces: an automatically inserted semicolon (literal "\n") that directly follows a run of COMMENT
// tokens is moved in front of that run and takes the position of the run's first comment.  Nothing
// else changes.  (Go 1.20, CL 429635 "emit implicit semicolon tokens in correct order", moved the
// semicolon behind the comments, to the position of the newline / EOF.)
func c23semiBack(in []c23tok) (out []c23tok, moved int) {
	out = make([]c23tok, 0, len(in))
	for _, t := range in {
		if t.tok == token.SEMICOLON && t.lit == "\n" {
			j := len(out)
			for j > 0 && out[j-1].tok == token.COMMENT {
				j--
			}
			if j < len(out) {
				c := out[j]
				t.off, t.line, t.col, t.file = c.off, c.line, c.col, c.file
				out = append(out, c23tok{})
				copy(out[j+1:], out[j:])
				out[j] = t
				moved++
				continue
			}
		}
		out = append(out, t)
	}
	return
}

func c23dropComments(in []c23tok) []c23tok {
	out := make([]c23tok, 0, len(in))
	for _, t := range in {
		if t.tok != token.COMMENT {
			out = append(out, t)
		}
	}
	return out
}

// ---------------------------------------------------------------- comparison

func c23tokName(t token.Token) string { return etoken.String(t) }

func c23slug(msg string) string {
	cut := len(msg)
	for i, c := range msg {
		if c == ':' || c == '\'' || c == '"' || c == '%' || (c >= '0' && c <= '9') || c == '(' {
			cut = i
			break
		}
		if c == 'U' && strings.HasPrefix(msg[i:], "U+") {
			cut = i
			break
		}
	}
	s := strings.TrimSpace(msg[:cut])
	s = strings.ReplaceAll(s, " ", "-")
	if s == "" {
		s = "msg"
	}
	return s
}

func c23showTok(t c23tok) string {
	lit := t.lit
	if len(lit) > 40 {
		lit = lit[:40] + "..."
	}
	return fmt.Sprintf("%d:%s:%q@%s:%d:%d", t.off, c23tokName(t.tok), lit, t.file, t.line, t.col)
}

// c23diffToks returns "" if equal, else (key, description) of the first difference.
func c23diffToks(want, got []c23tok) (key, desc string) {
	n := len(want)
	if len(got) < n {
		n = len(got)
	}
	for i := 0; i < n; i++ {
		w, g := want[i], got[i]
		if w == g {
			continue
		}
		switch {
		case w.tok != g.tok:
			key = "tok:" + c23tokName(w.tok) + "/" + c23tokName(g.tok)
		case w.lit != g.lit:
			key = "lit:" + c23tokName(w.tok)
		case w.off != g.off:
			key = "pos:" + c23tokName(w.tok)
			if w.tok == token.SEMICOLON && w.lit == "\n" {
				key = "pos:autosemi"
			}
		default:
			key = "linecol:" + c23tokName(w.tok)
		}
		return key, fmt.Sprintf("token #%d: go/scanner %s, fork %s", i, c23showTok(w), c23showTok(g))
	}
	if len(want) != len(got) {
		var extra c23tok
		if len(want) > len(got) {
			extra = want[n]
			return "len:missing-" + c23tokName(extra.tok), fmt.Sprintf("fork stream ends after %d tokens, go/scanner continues with %s", n, c23showTok(extra))
		}
		extra = got[n]
		return "len:extra-" + c23tokName(extra.tok), fmt.Sprintf("go/scanner stream ends after %d tokens, fork continues with %s", n, c23showTok(extra))
	}
	return "", ""
}

func c23showErr(e c23err) string {
	return fmt.Sprintf("%d(%s:%d:%d) %q", e.off, e.file, e.line, e.col, e.msg)
}

func c23diffErrs(want, got []c23err, wantN, gotN int) (key, desc string) {
	n := len(want)
	if len(got) < n {
		n = len(got)
	}
	for i := 0; i < n; i++ {
		w, g := want[i], got[i]
		if w == g {
			continue
		}
		switch {
		case w.off == g.off && w.msg != g.msg:
			key = "errmsg:" + c23slug(w.msg)
		case w.msg == g.msg && w.off != g.off:
			key = "errpos:" + c23slug(w.msg)
		case w.msg == g.msg:
			key = "errlinecol:" + c23slug(w.msg)
		case i > 0 && g == got[i-1]:
			key = "err-dup:" + c23slug(g.msg)
		case w.off < g.off:
			key = "err-missing:" + c23slug(w.msg)
		default:
			key = "err-extra:" + c23slug(g.msg)
		}
		return key, fmt.Sprintf("error #%d: go/scanner %s, fork %s", i, c23showErr(w), c23showErr(g))
	}
	if len(want) > len(got) {
		return "err-missing:" + c23slug(want[n].msg), fmt.Sprintf("go/scanner reports %d errors, fork %d; first missing: %s", len(want), len(got), c23showErr(want[n]))
	}
	if len(got) > len(want) {
		k := "err-extra:"
		if n > 0 && got[n] == got[n-1] {
			k = "err-dup:"
		}
		return k + c23slug(got[n].msg), fmt.Sprintf("go/scanner reports %d errors, fork %d; first extra: %s", len(want), len(got), c23showErr(got[n]))
	}
	if wantN != gotN {
		return "errorcount", fmt.Sprintf("ErrorCount: go/scanner %d, fork %d", wantN, gotN)
	}
	return "", ""
}

func c23diffLines(want, got []int) (key, desc string) {
	if len(want) != len(got) {
		return "linetable", fmt.Sprintf("line table: go/scanner has %d lines, fork %d", len(want), len(got))
	}
	for i := range want {
		if want[i] != got[i] {
			return "linetable", fmt.Sprintf("line table entry %d: go/scanner %d, fork %d", i, want[i], got[i])
		}
	}
	return "", ""
}

// ---------------------------------------------------------------- extension tokens (token level, as seen by go/scanner)

type c23cfg struct {
	mc       rune // macro character handed to the fork
	generics int  // etoken.GENERICS while scanning
}

func c23isExt(t c23tok, cfg c23cfg) bool {
	switch t.tok {
	case token.TILDE:
		return cfg.mc == '~'
	case token.ILLEGAL:
		return t.lit == "#" || t.lit == string(cfg.mc)
	case token.IDENT:
		return t.lit == "macro" || (cfg.generics == int(etoken.GENERICS_V1_CXX) && t.lit == "template")
	}
	return false
}

type c23verdict struct {
	key, desc string
	tags      []string
	extfree   bool
	ntoks     int
}

// c23compare runs both scanners in the 4 modes on src and applies the oracle.
func c23compare(src []byte, cfg c23cfg) (v c23verdict) {
	old := etoken.GENERICS
	etoken.GENERICS = etoken.Generics(cfg.generics)
	defer func() { etoken.GENERICS = old }()
	tagset := map[string]bool{}
	defer func() {
		for t := range tagset {
			v.tags = append(v.tags, t)
		}
		sort.Strings(v.tags)
	}()
	set := func(key, desc string, mode uint) bool {
		if key != "" && v.key == "" {
			v.key, v.desc = key, fmt.Sprintf("mode=%d: %s", mode, desc)
		}
		return key != ""
	}
	for _, semis := range []uint{0, 2} { // 2 = dontInsertSemis
		if semis == 2 && c23skipNoSemis {
			continue
		}
		stdC := c23scanStd(src, 1|semis)
		std0 := c23scanStd(src, semis)
		forkC := c23scanFork(src, 1|semis, cfg.mc)
		fork0 := c23scanFork(src, semis, cfg.mc)
		if stdC.panic_ != "" || std0.panic_ != "" {
			tagset["std-panic"] = true
			continue
		}
		if forkC.panic_ != "" || fork0.panic_ != "" {
			set("fork-panic", "fork scanner panics: "+forkC.panic_+fork0.panic_, semis)
			continue
		}
		if semis == 0 {
			v.ntoks = len(stdC.toks)
			for _, t := range stdC.toks {
				tagset["t:"+c23tokClass(t)] = true
			}
			for _, e := range stdC.errs {
				tagset["e:"+c23slug(e.msg)] = true
			}
		}
		// reference sanity: mode 0 of go/scanner = ScanComments stream minus comments
		if k, _ := c23diffToks(c23dropComments(stdC.toks), std0.toks); k != "" {
			tagset["std-mode0-not-drop-comments"] = true
		}
		back, moved := c23semiBack(stdC.toks)
		back0 := c23dropComments(back)
		extAt := -1
		for i, t := range back0 {
			if c23isExt(t, cfg) {
				extAt = i
				break
			}
		}
		if extAt < 0 {
			if semis == 0 {
				v.extfree = true
			}
			if len(stdC.errs) == 0 {
				tagset["extfree-noerr"] = true
			} else {
				tagset["extfree-err"] = true
			}
			exactC, _ := c23diffToks(stdC.toks, forkC.toks)
			exact0, _ := c23diffToks(std0.toks, fork0.toks)
			if exactC == "" && exact0 == "" {
				tagset["exact"] = true
			}
			d := false
			kC, dC := c23diffToks(back, forkC.toks)
			k0, d0 := c23diffToks(back0, fork0.toks)
			keC, deC := c23diffErrs(stdC.errs, forkC.errs, stdC.nerr, forkC.nerr)
			ke0, de0 := c23diffErrs(std0.errs, fork0.errs, std0.nerr, fork0.nerr)
			if strings.HasPrefix(kC, "linecol:") || kC == "" && strings.HasPrefix(k0, "linecol:") {
				// only line:col of a token differs: a differing error list (e.g. a line directive that one
				// scanner rejects) is the more telling key
				d = set(keC, deC, 1|semis) || d
				d = set(ke0, de0, semis) || d
			}
			d = set(kC, dC, 1|semis) || d
			d = set(k0, d0, semis) || d
			d = set(keC, deC, 1|semis) || d
			d = set(ke0, de0, semis) || d
			var k, ds string
			k, ds = c23diffLines(stdC.lines, forkC.lines)
			d = set(k, ds, 1|semis) || d
			k, ds = c23diffLines(std0.lines, fork0.lines)
			d = set(k, ds, semis) || d
			if !d && (exactC != "" || exact0 != "") {
				// equal only modulo semiBack: the Go 1.20 change of implicit semicolons next to comments
				tagset["semiback-needed"] = true
				if moved > 0 {
					kk, dd := c23diffToks(stdC.toks, forkC.toks)
					if kk == "" {
						kk, dd = c23diffToks(std0.toks, fork0.toks)
					}
					set("autosemi-before-comment", dd, 1|semis)
				}
			}
		} else {
			// the input uses an extension: only the prefix before the first extension token is comparable
			tagset["ext"] = true
			extOff := back0[extAt].off
			if len(fork0.toks) < extAt {
				set("prefix-len", fmt.Sprintf("fork stream has %d tokens, the first extension token is #%d", len(fork0.toks), extAt), semis)
			} else {
				k, ds := c23diffToks(back0[:extAt], fork0.toks[:extAt])
				if k != "" {
					set("prefix-"+k, ds, semis)
				}
			}
			var we, ge []c23err
			for _, e := range std0.errs {
				if e.off < extOff {
					we = append(we, e)
				}
			}
			for _, e := range fork0.errs {
				if e.off < extOff {
					ge = append(ge, e)
				}
			}
			k, ds := c23diffErrs(we, ge, 0, 0)
			if k != "" {
				set("prefix-"+k, ds, semis)
			}
		}
	}
	return
}

func c23tokClass(t c23tok) string {
	switch {
	case t.tok == token.SEMICOLON && t.lit == "\n":
		return "autosemi"
	case t.tok == token.STRING && strings.HasPrefix(t.lit, "`"):
		return "rawstring"
	case t.tok.IsKeyword():
		return "keyword"
	case t.tok.IsOperator():
		return "operator"
	}
	return t.tok.String()
}

// ---------------------------------------------------------------- corpus of Go files

var c23files = map[string][]string{} // root name -> sorted relative paths

func c23root(name string) string {
	switch name {
	case "goroot":
		r := filepath.Join(goroot(), "src")
		if p, err := filepath.EvalSymlinks(r); err == nil {
			return p
		}
		return r
	case "repo":
		return repoDir()
	}
	return ""
}

var c23goroot string

func goroot() string {
	if c23goroot == "" {
		c23goroot = os.Getenv("GOROOT")
		if c23goroot == "" {
			c23goroot = runtime.GOROOT()
		}
		if _, err := os.Stat(c23goroot + "/src/go/scanner/scanner.go"); err != nil {
			for _, c := range []string{"/usr/lib/go-1.23", "/usr/local/go", "/usr/lib/go"} {
				if _, err := os.Stat(c + "/src/go/scanner/scanner.go"); err == nil {
					c23goroot = c
					break
				}
			}
		}
	}
	return c23goroot
}

func c23list(name string) []string {
	if l, ok := c23files[name]; ok {
		return l
	}
	root := c23root(name)
	var l []string
	filepath.Walk(root, func(p string, info os.FileInfo, err error) error {
		if err != nil {
			return nil
		}
		if info.IsDir() {
			b := info.Name()
			if p != root && (strings.HasPrefix(b, ".") || b == "vendor" && name == "repo") {
				return filepath.SkipDir
			}
			return nil
		}
		if strings.HasSuffix(p, ".go") && info.Mode().IsRegular() && info.Size() < 3<<20 {
			rel, _ := filepath.Rel(root, p)
			l = append(l, rel)
		}
		return nil
	})
	sort.Strings(l)
	c23files[name] = l
	return l
}

func c23read(rootName, rel string) ([]byte, error) {
	return os.ReadFile(filepath.Join(c23root(rootName), rel))
}

// ---------------------------------------------------------------- generators of inputs

// vocabulary of extension-free Go lexemes for token soups
var c23vocab = []string{
	"a", "x", "_", "foo", "Bar9", "α", "日本", "if", "else", "for", "func", "return", "break", "continue", "fallthrough",
	"goto", "go", "defer", "chan", "map", "struct", "interface", "select", "switch", "case", "default", "type", "var",
	"const", "package", "import", "range", "macros", "Macro", "templat", "template", "quote", "/!", "/!=", "a/!b", "!/", "'/'", "lambda", "typecase", "unquote",
	"0", "1", "42", "007", "08", "0x1F", "0X_a", "0b101", "0B1_0", "0o17", "0O7", "1_000", "1__0", "_1", "1_", "0_7", "0x", "0b", "0o",
	"0b2", "0o8", "1.", ".5", "1.5", "1e3", "1E+3", "1e-3", "1e", "1e+", "0x1p4", "0x1.8p-1", "0x.p1", "0x1.8", "0x1e3", "1p3", "0b1e3",
	"0o1.5", "1i", "1.5i", "0x1p4i", "0b1i", "09i", "09.5", "0_9.5", "1_.5", "1._5", "1e_3", "0x_1", "0_x1", "1.e3",
	"'a'", "'\\n'", "'\\''", "'\\x41'", "'\\u00e9'", "'\\U0001F600'", "'\\101'", "''", "'ab'", "'\\q'", "'\\x4'", "'\\ud800'", "'\\U00110000'", "'\\400'", "'a", "'",
	"\"\"", "\"a b\"", "\"\\\"\"", "\"\\n\\t\\\\\"", "\"\\x41\\u00e9\"", "\"\\q\"", "\"abc", "\"a\\", "`raw`", "`r\nw`", "`r\r\nw`", "`abc",
	"+", "-", "*", "/", "%", "&", "|", "^", "<<", ">>", "&^", "+=", "-=", "*=", "/=", "%=", "&=", "|=", "^=", "<<=", ">>=", "&^=",
	"&&", "||", "<-", "++", "--", "==", "<", ">", "=", "!", "!=", "<=", ">=", ":=", "...", "..", ".", "(", ")", "[", "]", "{", "}", ",", ";", ":",
	"// c", "// c\n", "//\n", "/* c */", "/* c\n d */", "/**/", "/*/", "/* c", "/* *\r/ */", "// c\r\n", "/*\r*/", "//line f.go:10\n", "/*line g.go:3:4*/",
	"//line :7\n", "//line x:0\n", "//line x:y\n", "//line x:1:0\n", "\n//line h.go:99999\n", "\n//line h.go:1073741824\n", "\n//line h.go:1073741825\n", "\n//line h.go:5:1073741825\n", "\n//line c:\\d.go:12\n",
	" ", "  ", "\t", "\n", "\n\n", "\r", "\r\n",
	"@", "$", "?", "\\", "\x00", "\x01", "\x7f", "\xff", "\xc0\x80", "\xe2\x82", "\ufeff", "\u201c", "\u201d", "\u2028", "é", "٣", "a٣",
}

// extension lexemes (used only in streams that are meant to contain extensions)
var c23extVocab = []string{"~", "#", "#!", "#! c\n", "macro", "template", "~'", "~`", "~\"", "~,", "~,@", "~quote", "~macro", "~func", "~lambda", "~typecase", "~foo", "~quasiquote", "~unquote", "~unquote_splice", "#[", "~1"}

func c23soup(r *rand.Rand, n int, ext bool) []byte {
	var sb []byte
	for i := 0; i < n; i++ {
		var w string
		if ext && r.Intn(6) == 0 {
			w = c23extVocab[r.Intn(len(c23extVocab))]
		} else {
			w = c23vocab[r.Intn(len(c23vocab))]
		}
		sb = append(sb, w...)
		switch r.Intn(5) {
		case 0, 1:
			sb = append(sb, ' ')
		case 2:
			sb = append(sb, '\n')
		}
	}
	return sb
}

// structured literal edge cases: a body put into several contexts
var c23contexts = [][2]string{{"", ""}, {"x = ", "\n"}, {"", " // c\n"}, {"(", ")"}, {"\n", " /* c\n */ y"}, {"a ", " b"}, {"", "\n}"}}

func c23numLit(r *rand.Rand) string {
	const digs = "0123456789abcdefABCDEF_"
	var sb strings.Builder
	switch r.Intn(6) {
	case 0:
		sb.WriteString("0" + string("xXoObB"[r.Intn(6)]))
	case 1:
		sb.WriteString("0")
	case 2:
		sb.WriteString(".")
	}
	part := func(hexok bool) {
		n := r.Intn(5)
		for i := 0; i < n; i++ {
			if hexok {
				sb.WriteByte(digs[r.Intn(len(digs))])
			} else {
				k := r.Intn(12)
				if k >= 10 {
					sb.WriteByte('_')
				} else {
					sb.WriteByte(byte('0' + k))
				}
			}
		}
	}
	hexok := r.Intn(3) == 0
	part(hexok)
	if r.Intn(2) == 0 {
		sb.WriteByte('.')
		part(hexok)
	}
	if r.Intn(2) == 0 {
		sb.WriteByte("eEpP"[r.Intn(4)])
		if r.Intn(2) == 0 {
			sb.WriteByte("+-"[r.Intn(2)])
		}
		part(false)
	}
	if r.Intn(4) == 0 {
		sb.WriteByte('i')
	}
	return sb.String()
}

func c23quoted(r *rand.Rand) string {
	q := []string{"'", "\"", "`"}[r.Intn(3)]
	pieces := []string{"a", " ", "é", "日", "\\n", "\\t", "\\\\", "\\'", "\\\"", "\\x41", "\\x4", "\\xg1", "\\u00e9", "\\u12", "\\ud800", "\\U0001F600",
		"\\U00110000", "\\101", "\\400", "\\08", "\\q", "\\", "\n", "\r", "\r\n", "\x00", "\xff", "\xe2\x82", "\ufeff", "'", "\"", "`", "*/", "//"}
	var sb strings.Builder
	sb.WriteString(q)
	n := r.Intn(5)
	for i := 0; i < n; i++ {
		sb.WriteString(pieces[r.Intn(len(pieces))])
	}
	if r.Intn(5) != 0 {
		sb.WriteString(q)
	}
	return sb.String()
}

func c23comment(r *rand.Rand) string {
	pieces := []string{"c", " ", "line ", "line f.go:3", "line f.go:3:4", "line :5", "line x:0", "line x:1:0", "line a:b:7", "line f:1073741824", "line f:1073741825",
		"line f:2:1073741825", "line f:99999999999999999999", "line c:\\x.go:9", "*", "/", "*/", "/*", "//", "\r", "\n", "\r\n", "\x00", "\xff", "é", "\ufeff", ":", "1"}
	var sb strings.Builder
	block := r.Intn(2) == 0
	if r.Intn(3) == 0 {
		sb.WriteString("\n")
	}
	if block {
		sb.WriteString("/*")
	} else {
		sb.WriteString("//")
	}
	n := r.Intn(5)
	for i := 0; i < n; i++ {
		sb.WriteString(pieces[r.Intn(len(pieces))])
	}
	if block {
		if r.Intn(5) != 0 {
			sb.WriteString("*/")
		}
	} else if r.Intn(4) != 0 {
		sb.WriteString("\n")
	}
	return sb.String()
}

func c23semiCase(r *rand.Rand) string {
	last := []string{"x", "1", "1.5", "1i", "'a'", "\"s\"", "`r`", ")", "]", "}", "++", "--", "break", "continue", "fallthrough", "return",
		"+", "(", "if", "func", ",", ";", ":", ".", "...", "=", "go", "\x01", "@", "\u201c"}
	tail := []string{"\n", "", " ", " // c\n", " // c", " /* c */\n", " /* c */", " /* c\n */ y", " /* a */ /* b\n */ z", " /* a */ // b\n", " /* a */ + y\n", "\r\n", " /* c", " /* c\n", " //\n//\n", "\n/* a */\n", "/*a*//*b*/\n", " /* a */ /* b */ c\n"}
	return last[r.Intn(len(last))] + tail[r.Intn(len(tail))] + []string{"", "y", "\n", "}"}[r.Intn(4)]
}

// mutate applies n byte-level mutations
func c23mutBytes(r *rand.Rand, b []byte, n int) []byte {
	b = append([]byte(nil), b...)
	alphabet := []byte("\n\n  \t\r\"'`\\/*+-=<>&|^%!:.,;()[]{}0123456789_xXbBoOeEpPiaflin \x00\xff\xc3\xa9\xef\xbb\xbf")
	for i := 0; i < n; i++ {
		if len(b) == 0 {
			b = append(b, alphabet[r.Intn(len(alphabet))])
			continue
		}
		p := r.Intn(len(b))
		switch r.Intn(6) {
		case 0: // replace
			b[p] = alphabet[r.Intn(len(alphabet))]
		case 1: // insert
			b = append(b[:p], append([]byte{alphabet[r.Intn(len(alphabet))]}, b[p:]...)...)
		case 2: // delete
			b = append(b[:p], b[p+1:]...)
		case 3: // delete a run
			q := p + r.Intn(12)
			if q > len(b) {
				q = len(b)
			}
			b = append(b[:p], b[q:]...)
		case 4: // duplicate a run
			q := p + r.Intn(12)
			if q > len(b) {
				q = len(b)
			}
			b = append(b[:q], append(append([]byte(nil), b[p:q]...), b[q:]...)...)
		case 5: // truncate
			if r.Intn(4) == 0 {
				b = b[:p]
			}
		}
	}
	return b
}

// token-level mutation: rescan the window with go/scanner, then delete / swap / duplicate / replace / glue tokens
func c23mutTokens(r *rand.Rand, b []byte, n int) []byte {
	run := c23scanStd(b, 1)
	type seg struct{ a, b int }
	var segs []seg
	for i, t := range run.toks {
		if t.tok == token.EOF || (t.tok == token.SEMICOLON && t.lit == "\n") {
			continue
		}
		end := len(b)
		for j := i + 1; j < len(run.toks); j++ {
			if run.toks[j].off > t.off {
				end = run.toks[j].off
				break
			}
		}
		if t.off >= 0 && t.off < end && end <= len(b) {
			segs = append(segs, seg{t.off, end})
		}
	}
	if len(segs) < 2 {
		return c23mutBytes(r, b, n)
	}
	parts := make([][]byte, len(segs))
	for i, s := range segs {
		parts[i] = b[s.a:s.b] // token text with its trailing whitespace
	}
	head := b[:segs[0].a]
	for i := 0; i < n; i++ {
		p := r.Intn(len(parts))
		switch r.Intn(5) {
		case 0:
			parts = append(parts[:p], parts[p+1:]...)
		case 1:
			q := r.Intn(len(parts))
			parts[p], parts[q] = parts[q], parts[p]
		case 2:
			parts = append(parts[:p], append([][]byte{parts[p]}, parts[p:]...)...)
		case 3:
			parts[p] = []byte(c23vocab[r.Intn(len(c23vocab))])
		case 4:
			parts[p] = []byte(strings.TrimRight(string(parts[p]), " \t\r\n"))
		}
		if len(parts) == 0 {
			break
		}
	}
	out := append([]byte(nil), head...)
	for _, p := range parts {
		out = append(out, p...)
	}
	return out
}

func c23window(r *rand.Rand, b []byte, max int) []byte {
	if len(b) <= max {
		return b
	}
	p := r.Intn(len(b) - max)
	// start at a line start when possible
	for q := p; q < p+200 && q < len(b); q++ {
		if b[q] == '\n' {
			p = q + 1
			break
		}
	}
	if p+max > len(b) {
		return b[p:]
	}
	return b[p : p+max]
}

// ---------------------------------------------------------------- the mini language (tie with the Lean model)

// Lexemes of the sub-language scanned by the Lean model's executable base scanner (ASCII, no
// backslash, no '\r', no NUL, comments that cannot spell a line directive, numbers are plain
// decimal integers followed by a non-alphanumeric byte).
var c23miniVocab = []string{"a", "x1", "_", "foo", "macro", "macros", "template", "quote", "func", "return", "break", "if", "go", "continue", "fallthrough", "type",
	"0", "7", "42", "'a'", "''", "'ab'", "'a", "\"s t\"", "\"\"", "\"ab", "`r`", "`r\nw`", "`ab",
	"+", "-", "*", "/", "%", "&", "|", "^", "<<", ">>", "&^", "+=", "-=", "*=", "/=", "%=", "&=", "|=", "^=", "<<=", ">>=", "&^=", "&&", "||", "<-", "++", "--",
	"==", "<", ">", "=", "!", "!=", "<=", ">=", ":=", "...", "..", ".", "(", ")", "[", "]", "{", "}", ",", ";", ":",
	"// c", "// c\n", "//\n", "/* c */", "/* c\n d */", "/**/", "/*/", "/* c", "/* a */ /* b\n */", "/*a*//*b*/",
	" ", "\t", "\n", "\n\n", "@", "$", "?",
	"~", "#", "#!", "#! c\n", "#!/bin/x\n", "~'", "~`", "~\"", "~,", "~,@", "~quote", "~macro", "~func", "~lambda", "~typecase", "~foo", "~quasiquote", "~unquote", "~unquote_splice", "~ x", "#[", "~1", "~~", "##", "#/", "~/", "#*", "~#", "#~"}

func c23miniOK(b []byte) bool {
	isAl := func(c byte) bool { return c == '_' || c >= 'a' && c <= 'z' || c >= 'A' && c <= 'Z' }
	isDg := func(c byte) bool { return c >= '0' && c <= '9' }
	for i := 0; i < len(b); i++ {
		c := b[i]
		if c >= 0x80 || c == 0 || c == '\r' || c == '\\' || (c < 0x20 && c != '\n' && c != '\t') || c == 0x7f {
			return false
		}
		// a run of letters/digits that starts with a digit must be all digits and not be followed by '.'
		if (isAl(c) || isDg(c)) && (i == 0 || !(isAl(b[i-1]) || isDg(b[i-1]))) && isDg(c) {
			j := i
			for j < len(b) && (isAl(b[j]) || isDg(b[j])) {
				if !isDg(b[j]) {
					return false
				}
				j++
			}
			if j < len(b) && b[j] == '.' {
				return false
			}
		}
		if c == '.' && i+1 < len(b) && isDg(b[i+1]) {
			return false
		}
		// no line directives: "line " must not follow a comment opener
		if (c == '/' || c == '#') && i+1 < len(b) && (b[i+1] == '/' || b[i+1] == '*' || b[i+1] == '!') && strings.HasPrefix(string(b[i+2:]), "line ") {
			return false
		}
	}
	return true
}

func c23miniSoup(r *rand.Rand, n int) []byte {
	for {
		var sb []byte
		for i := 0; i < n; i++ {
			sb = append(sb, c23miniVocab[r.Intn(len(c23miniVocab))]...)
			switch r.Intn(4) {
			case 0:
				sb = append(sb, ' ')
			case 1:
				sb = append(sb, '\n')
			}
		}
		if c23miniOK(sb) {
			return sb
		}
	}
}

// c23miniOut renders the fork's streams in the 4 modes: "m0: off@tok@hexlit ... E off@hexmsg ... | m1: ..."
func c23miniOut(src []byte, cfg c23cfg) string {
	old := etoken.GENERICS
	etoken.GENERICS = etoken.Generics(cfg.generics)
	defer func() { etoken.GENERICS = old }()
	var sb strings.Builder
	for mode := uint(0); mode < 4; mode++ {
		if mode > 0 {
			sb.WriteString(" | ")
		}
		run := c23scanFork(src, mode, cfg.mc)
		fmt.Fprintf(&sb, "m%d:", mode)
		if run.panic_ != "" {
			sb.WriteString(" PANIC")
			continue
		}
		for _, t := range run.toks {
			fmt.Fprintf(&sb, " %d@%s@%s", t.off, c23tokName(t.tok), hex.EncodeToString([]byte(t.lit)))
		}
		for _, e := range run.errs {
			fmt.Fprintf(&sb, " E%d@%s", e.off, hex.EncodeToString([]byte(e.msg)))
		}
	}
	return sb.String()
}

// ---------------------------------------------------------------- ops

func c23mcName(mc rune) string { return strconv.Itoa(int(mc)) }

var c23macroChars = []rune{'~', '~', '~', '~', '$', '@', '?', '§', 'x', '+', '\\'}

func c23gen(r *rand.Rand, tier string, emit func(string)) {
	scale := 1
	if tier == "thorough" {
		scale = 20
	}
	hx := func(b []byte) string {
		if len(b) == 0 {
			return "-"
		}
		return hex.EncodeToString(b)
	}
	// 1. keyword lookups (model: lookup over the regenerated keyword tables)
	words := []string{"macro", "template", "#", "quote", "quasiquote", "unquote", "unquote_splice", "func", "lambda", "typecase", "~macro", "~quote", "", "a", "Macro", "macros", "templates", "MACRO"}
	for t := token.Token(0); t < 200; t++ {
		if t.IsKeyword() {
			words = append(words, t.String())
		}
	}
	for _, w := range words {
		for g := 0; g < 3; g++ {
			emit(fmt.Sprintf("kw %d %s", g, hx([]byte(w))))
		}
	}
	// 2. semiBack on abstract streams (ties the oracle's Go implementation to the Lean definition)
	for i := 0; i < 150*scale; i++ {
		n := r.Intn(9)
		var sb strings.Builder
		off := 0
		for j := 0; j < n; j++ {
			off += r.Intn(4)
			sb.WriteByte("tttccccssx"[r.Intn(10)])
			sb.WriteString(strconv.Itoa(off))
			sb.WriteByte(' ')
		}
		emit("semi " + strings.TrimSpace(sb.String()))
	}
	// 3. mini language, bounded-exhaustive over a critical alphabet, all 4 modes, then random soups
	alpha := []string{"a", "1", "~", "#", "!", "'", "`", "\"", ",", "@", "/", "*", "\n", " ", "macro", "~quote"}
	maxLen := 2
	if tier == "thorough" {
		maxLen = 3
	}
	var rec func(prefix []string)
	rec = func(prefix []string) {
		b := []byte(strings.Join(prefix, ""))
		if len(prefix) > 0 && c23miniOK(b) {
			emit("mini 126 0 " + hx(b))
		}
		if len(prefix) < maxLen {
			for _, a := range alpha {
				rec(append(prefix[:len(prefix):len(prefix)], a))
			}
		}
	}
	rec(nil)
	for i := 0; i < 700*scale; i++ {
		mc := c23macroChars[r.Intn(len(c23macroChars))]
		if mc == '§' || mc == '\\' {
			mc = '~'
		}
		g := 0
		if r.Intn(4) == 0 {
			g = 1 + r.Intn(2)
		}
		b := c23miniSoup(r, 1+r.Intn(10))
		if mc == '$' || mc == '@' || mc == '?' { // let the configured macro character occur
			b = []byte(strings.ReplaceAll(string(b), "~", string(mc)))
		}
		emit(fmt.Sprintf("mini %s %d %s", c23mcName(mc), g, hx(b)))
	}
	// 4. bounded-exhaustive numeric literals
	numAlpha := "019_.xboepi+-af"
	nmax := 3
	if tier == "thorough" {
		nmax = 4
	}
	var nrec func(prefix []byte)
	nrec = func(prefix []byte) {
		if len(prefix) > 0 {
			emit("lit 126 " + hx(prefix))
		}
		if len(prefix) < nmax {
			for i := 0; i < len(numAlpha); i++ {
				nrec(append(prefix[:len(prefix):len(prefix)], numAlpha[i]))
			}
		}
	}
	nrec(nil)
	// 5. structured literal / comment / semicolon edge cases in contexts
	for i := 0; i < 1200*scale; i++ {
		var body string
		switch i % 4 {
		case 0:
			body = c23numLit(r)
		case 1:
			body = c23quoted(r)
		case 2:
			body = c23comment(r)
		case 3:
			body = c23semiCase(r)
		}
		c := c23contexts[r.Intn(len(c23contexts))]
		src := c[0] + body + c[1]
		if r.Intn(12) == 0 {
			src = "\ufeff" + src
		}
		mc := c23macroChars[r.Intn(len(c23macroChars))]
		emit(fmt.Sprintf("lit %s %s", c23mcName(mc), hx([]byte(src))))
	}
	// 6. token soups: extension-free, and (1 in 5) with extensions for the prefix rule
	for i := 0; i < 1500*scale; i++ {
		mc := c23macroChars[r.Intn(len(c23macroChars))]
		g := 0
		if r.Intn(6) == 0 {
			g = 1 + r.Intn(2)
		}
		b := c23soup(r, 1+r.Intn(14), i%5 == 0)
		emit(fmt.Sprintf("soup %s %d %s", c23mcName(mc), g, hx(b)))
	}
	// 7. real Go files: the gomacro tree, and GOROOT/src (sample in quick, all in thorough)
	rl := c23list("repo")
	gl := c23list("goroot")
	if tier == "thorough" {
		for _, f := range rl {
			emit("file repo " + f)
		}
		for _, f := range gl {
			emit("file goroot " + f)
		}
	} else {
		for i := 0; i < 100 && len(rl) > 0; i++ {
			emit("file repo " + rl[r.Intn(len(rl))])
		}
		for i := 0; i < 120 && len(gl) > 0; i++ {
			emit("file goroot " + gl[r.Intn(len(gl))])
		}
		// always: the scanner's and parser's own test data
		for _, f := range gl {
			if strings.HasPrefix(f, "go/scanner/") || strings.HasPrefix(f, "go/parser/") || strings.HasPrefix(f, "go/printer/testdata/") {
				emit("file goroot " + f)
			}
		}
	}
	// 8. mutated windows of real files (byte level and token level)
	for i := 0; i < 800*scale && len(gl) > 0; i++ {
		root, l := "goroot", gl
		if i%4 == 0 {
			root, l = "repo", c23list("repo")
		}
		kind := "b"
		if i%2 == 1 {
			kind = "t"
		}
		emit(fmt.Sprintf("mut %s %s %d %s %d", root, l[r.Intn(len(l))], r.Int63n(1<<40), kind, 1+r.Intn(6)))
	}
}

var c23reported = map[string]int{}
var c23skipNoSemis bool

func fnvSum(s string) uint32 {
	h := fnv.New32a()
	h.Write([]byte(s))
	return h.Sum32()
}

func c23unhex(s string) ([]byte, bool) {
	if s == "-" || s == "" {
		return nil, true
	}
	b, err := hex.DecodeString(s)
	return b, err == nil
}

func c23exec(op string) Result {
	f := strings.Fields(op)
	if len(f) == 0 {
		return Result{Out: "bad-op"}
	}
	switch f[0] {
	case "kw":
		if len(f) != 3 {
			return Result{Out: "bad-op"}
		}
		g, _ := strconv.Atoi(f[1])
		w, ok := c23unhex(f[2])
		if !ok {
			return Result{Out: "bad-op"}
		}
		return c23execKw(g, string(w))
	case "semi":
		return c23execSemi(f[1:])
	case "mini":
		if len(f) != 4 {
			return Result{Out: "bad-op"}
		}
		mc, _ := strconv.Atoi(f[1])
		g, _ := strconv.Atoi(f[2])
		b, ok := c23unhex(f[3])
		if !ok || !c23miniOK(b) {
			return Result{Out: "bad-op"}
		}
		cfg := c23cfg{rune(mc), g}
		res := c23verdictResult(op, b, cfg, "mini")
		res.Out = c23miniOut(b, cfg)
		return res
	case "lit":
		if len(f) != 3 {
			return Result{Out: "bad-op"}
		}
		mc, _ := strconv.Atoi(f[1])
		b, ok := c23unhex(f[2])
		if !ok {
			return Result{Out: "bad-op"}
		}
		return c23verdictResult(op, b, c23cfg{rune(mc), 0}, "lit")
	case "soup":
		if len(f) != 4 {
			return Result{Out: "bad-op"}
		}
		mc, _ := strconv.Atoi(f[1])
		g, _ := strconv.Atoi(f[2])
		b, ok := c23unhex(f[3])
		if !ok {
			return Result{Out: "bad-op"}
		}
		return c23verdictResult(op, b, c23cfg{rune(mc), g}, "soup")
	case "file":
		if len(f) != 3 {
			return Result{Out: "bad-op"}
		}
		b, err := c23read(f[1], f[2])
		if err != nil {
			return Result{Out: "same", Tags: []string{"file-unreadable"}}
		}
		c23skipNoSemis = fnvSum(f[2])%8 != 0 // the two dontInsertSemis modes only for 1 file in 8 (cost)
		res := c23verdictResult(op, b, c23cfg{'~', 0}, "file")
		if res.Viol == "" && !c23hasTag(res.Tags, "extfree") {
			// the file uses '~' (type sets) or the word macro: with another macro character '~' is no extension
			res2 := c23verdictResult(op, b, c23cfg{'$', 0}, "file")
			res2.Tags = append(res2.Tags, "file-second-macrochar")
			res = res2
		}
		c23skipNoSemis = false
		return res
	case "mut":
		if len(f) != 6 {
			return Result{Out: "bad-op"}
		}
		b, err := c23read(f[1], f[2])
		if err != nil {
			return Result{Out: "same", Tags: []string{"file-unreadable"}}
		}
		seed, _ := strconv.ParseInt(f[3], 10, 64)
		n, _ := strconv.Atoi(f[5])
		r := rand.New(rand.NewSource(seed))
		w := c23window(r, b, 1500+r.Intn(3000))
		if f[4] == "t" {
			w = c23mutTokens(r, w, n)
		} else {
			w = c23mutBytes(r, w, n)
		}
		mc := c23macroChars[r.Intn(len(c23macroChars))]
		return c23verdictResult(op, w, c23cfg{mc, 0}, "mut-"+f[4])
	}
	return Result{Out: "bad-op"}
}

func c23verdictResult(op string, src []byte, cfg c23cfg, class string) Result {
	v := c23compare(src, cfg)
	res := Result{Out: "same", Tags: append(v.tags, "class:"+class), Nontrivial: v.ntoks >= 3}
	if !utf8.Valid(src) {
		res.Tags = append(res.Tags, "invalid-utf8")
	}
	if v.extfree {
		res.Tags = append(res.Tags, "extfree")
	}
	if v.key != "" {
		res.Tags = append(res.Tags, "diff:"+v.key)
		c23reported[v.key]++
		// every key is reported a few times only, so that a frequent one cannot exhaust the
		// report's violation list and hide the others (all occurrences are counted in the tags)
		if c23reported[v.key] <= 3 {
			res.Viol = v.desc + "  [input " + strconv.Quote(c23trunc(string(src), 200)) + " macroChar=" + strconv.QuoteRune(cfg.mc) + "]"
			res.Key = v.key
		}
	}
	return res
}

func c23hasTag(tags []string, t string) bool {
	for _, x := range tags {
		if x == t {
			return true
		}
	}
	return false
}

func c23trunc(s string, n int) string {
	if len(s) > n {
		return s[:n] + "..."
	}
	return s
}

func c23execKw(g int, w string) Result {
	old := etoken.GENERICS
	etoken.GENERICS = etoken.Generics(g)
	defer func() { etoken.GENERICS = old }()
	e := etoken.Lookup(w)
	s := token.Lookup(w)
	sp := etoken.LookupSpecial(w)
	res := Result{Out: fmt.Sprintf("%s %s %s", etoken.String(e), s.String(), etoken.String(sp)), Nontrivial: true}
	isExt := w == "macro" || w == "#" || (g == int(etoken.GENERICS_V1_CXX) && w == "template")
	if isExt {
		res.Tags = []string{"kw-ext"}
	} else {
		res.Tags = []string{"kw-plain"}
		if e != s {
			res.Viol = fmt.Sprintf("etoken.Lookup(%q) = %s but token.Lookup = %s", w, etoken.String(e), s)
			res.Key = "lookup:" + w
		}
	}
	return res
}

// semi ops: items <kind><offset>, kind t = token, c = comment, s = automatic semicolon, x = explicit semicolon
func c23execSemi(items []string) Result {
	var in []c23tok
	for _, it := range items {
		if len(it) < 2 {
			return Result{Out: "bad-op"}
		}
		off, err := strconv.Atoi(it[1:])
		if err != nil {
			return Result{Out: "bad-op"}
		}
		t := c23tok{off: off}
		switch it[0] {
		case 't':
			t.tok = token.IDENT
		case 'c':
			t.tok = token.COMMENT
		case 's':
			t.tok, t.lit = token.SEMICOLON, "\n"
		case 'x':
			t.tok, t.lit = token.SEMICOLON, ";"
		default:
			return Result{Out: "bad-op"}
		}
		in = append(in, t)
	}
	out, moved := c23semiBack(in)
	var sb strings.Builder
	for i, t := range out {
		if i > 0 {
			sb.WriteByte(' ')
		}
		k := byte('t')
		switch {
		case t.tok == token.COMMENT:
			k = 'c'
		case t.tok == token.SEMICOLON && t.lit == "\n":
			k = 's'
		case t.tok == token.SEMICOLON:
			k = 'x'
		}
		sb.WriteByte(k)
		sb.WriteString(strconv.Itoa(t.off))
	}
	tags := []string{"semi-same"}
	if moved > 0 {
		tags = []string{"semi-moved"}
	}
	return Result{Out: sb.String(), Tags: tags, Nontrivial: len(in) > 1}
}

func init() {
	register(&Prop{
		ID: "C23",
		Rule: "both real scanners (gomacro go/scanner fork, GOROOT go/scanner) on the same bytes in 4 modes: keyword lookups; bounded-exhaustive + random mini-language inputs " +
			"with and without extension characters (also run by the Lean model); bounded-exhaustive numeric literals; structured literal/comment/semicolon edge cases; token soups; " +
			"every .go file of the gomacro tree and a sample (thorough: all) of GOROOT/src; byte- and token-level mutated windows of those files. Non-trivial = at least 3 tokens.",
		Gen:        c23gen,
		Exec:       c23exec,
		Exhaustive: func(string) bool { return false },
	})
}
