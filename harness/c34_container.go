package main

// C34, container part: the CTI methods of slices, arrays (pointer receiver), maps, channels and byte slices
// (xreflect/cti_method.go, reflection based) against Go's builtins.
//
//	c slice <Meth> <route> <backing> <len> <args..>   backing = "nil" | "-" | e1,e2,..  (cap = number of elements)
//	c bytes <Meth> <route> <backing> <len> <hex string>
//	c array <Meth> <route> <elems> <args..>           receiver *[N]int, N = number of elements (0: "-")
//	c map   <Meth> <route> <contents> <args..>        contents = "nil" | "-" | k:v,k:v
//	c chan  <dir>  <route> <cap> <op> <op> ..         ops S<v> T<v> R Y C L P on ONE channel; dir b|ro|so
//
// Out: "<result> | <container after>" (chan: one token per op).  Elements are Go ints in decimal.
// The generator never emits an operation that blocks (it tracks the channel state).

import (
	"fmt"
	"reflect"
	"sort"
	"strconv"
	"strings"
)

type c34cm struct {
	params, ret, body string // $C = the container type
}

var c34sliceMeths = map[string]c34cm{
	"Len":       {"s $C", "int", "return s.Len()"},
	"Cap":       {"s $C", "int", "return s.Cap()"},
	"Index":     {"s $C, i int", "int", "return s.Index(i)"},
	"SetIndex":  {"s $C, i int, v int", "", "s.SetIndex(i, v)"},
	"AddrIndex": {"s $C, i int, v int", "", "*s.AddrIndex(i) = v"},
	"Slice":     {"s $C, i int, j int", "$S", "return s.Slice(i, j)"},
	"Slice3":    {"s $C, i int, j int, k int", "$S", "return s.Slice3(i, j, k)"},
	"Append":    {"s $C, x []int", "$C", "return s.Append(x...)"},
	"Append2":   {"s $C, a int, b int", "$C", "return s.Append(a, b)"},
	"Copy":      {"s $C, x []int", "", "s.Copy(x)"},
}

var c34bytesMeths = map[string]c34cm{
	"Len":          {"s $C", "int", "return s.Len()"},
	"AppendString": {"s $C, x string", "$C", "return s.AppendString(x)"},
	"CopyString":   {"s $C, x string", "", "s.CopyString(x)"},
	"Append":       {"s $C, x []byte", "$C", "return s.Append(x...)"},
	"Index":        {"s $C, i int", "byte", "return s.Index(i)"},
}

var c34mapMeths = map[string]c34cm{
	"Len":      {"m $C", "int", "return m.Len()"},
	"Index":    {"m $C, k int", "int", "return m.Index(k)"},
	"TryIndex": {"m $C, k int", "(int, bool)", "return m.TryIndex(k)"},
	"SetIndex": {"m $C, k int, v int", "", "m.SetIndex(k, v)"},
	"DelIndex": {"m $C, k int", "", "m.DelIndex(k)"},
}

var c34chanMeths = map[string]c34cm{
	"S": {"c $C, v int", "", "c.Send(v)"},
	"T": {"c $C, v int", "bool", "return c.TrySend(v)"},
	"R": {"c $C", "(int, bool)", "return c.Recv()"},
	"Y": {"c $C", "(int, bool)", "return c.TryRecv()"},
	"C": {"c $C", "", "c.Close()"},
	"L": {"c $C", "int", "return c.Len()"},
	"P": {"c $C", "int", "return c.Cap()"},
}

var c34chanNames = map[string]string{"S": "Send", "T": "TrySend", "R": "Recv", "Y": "TryRecv", "C": "Close", "L": "Len", "P": "Cap"}

// c34cfunc compiles (once) the function that calls the method, route d (concrete) or g (generic, T = container type)
func c34cfunc(class, meth, route, ctype, stype string, cm c34cm) *c34fn {
	key := "cont " + class + " " + meth + " " + route + " " + ctype
	if f, ok := c34cache[key]; ok {
		return f
	}
	f := &c34fn{}
	c34cache[key] = f
	c34seq++
	name := fmt.Sprintf("c34c%d", c34seq)
	sub := func(s, c string) string { return strings.ReplaceAll(strings.ReplaceAll(s, "$C", c), "$S", stype) }
	switch route {
	case "d":
		f.fn, f.errText = c34evalFn("func " + name + "(" + sub(cm.params, ctype) + ") " + sub(cm.ret, ctype) + " { " + cm.body + " }; " + name)
	case "g":
		st := stype
		if stype == ctype {
			stype = "T"
		}
		f.fn, f.errText = c34evalFn("func " + name + "#[T](" + sub(cm.params, "T") + ") " + sub(cm.ret, "T") + " { " + cm.body + " }; " + name + "#[" + ctype + "]")
		stype = st
	default:
		f.errText = "bad route"
	}
	return f
}

func c34ints(s string) ([]int, bool, error) { // (elements, isNil)
	switch s {
	case "nil":
		return nil, true, nil
	case "-":
		return []int{}, false, nil
	}
	var out []int
	for _, f := range strings.Split(s, ",") {
		n, err := strconv.Atoi(f)
		if err != nil {
			return nil, false, err
		}
		out = append(out, n)
	}
	return out, false, nil
}

func c34showInts(v []int) string {
	if len(v) == 0 {
		return "-"
	}
	var fs []string
	for _, x := range v {
		fs = append(fs, strconv.Itoa(x))
	}
	return strings.Join(fs, ",")
}

func c34showBytes(v []byte) string {
	if len(v) == 0 {
		return "-"
	}
	var fs []string
	for _, x := range v {
		fs = append(fs, strconv.Itoa(int(x)))
	}
	return strings.Join(fs, ",")
}

func c34showSlice(r []int) string {
	return fmt.Sprintf("%d:%d:%s", len(r), cap(r), c34showInts(r[:cap(r)]))
}

func c34atoi(s string) int {
	n, _ := strconv.Atoi(s)
	return n
}

// protect runs f and maps a panic to its class
func c34protect(f func() string) (out string) {
	defer func() {
		if e := recover(); e != nil {
			out = c34panicClass(fmt.Sprint(e))
		}
	}()
	return f()
}

func c34rvInts(v reflect.Value) []int {
	if v.Kind() != reflect.Slice || v.Type().Elem().Kind() != reflect.Int {
		return nil
	}
	return v.Interface().([]int)
}

// implCall: call the interpreted function; returns the results or the panic class
func c34implCall(f *c34fn, args ...interface{}) ([]reflect.Value, string) {
	if f.errText != "" {
		return nil, "E:" + f.errText
	}
	var rs []reflect.Value
	for i, a := range args {
		if rv, ok := a.(reflect.Value); ok {
			rs = append(rs, rv)
		} else if a == nil {
			rs = append(rs, reflect.Zero(f.fn.Type().In(i)))
		} else {
			rs = append(rs, reflect.ValueOf(a))
		}
	}
	out, pt := c34callRV(f.fn, rs)
	if pt != "" {
		return nil, c34panicClass(pt)
	}
	return out, ""
}

func c34contResult(class, meth, route, line, got, want string) Result {
	res := Result{Out: got, Nontrivial: !strings.HasPrefix(got, "E:"), Tags: []string{"cont", "class:" + class, "cmeth:" + class + "." + meth, "route:" + route}}
	if i := strings.Index(want, "P:"); i >= 0 {
		res.Tags = append(res.Tags, "c"+strings.Fields(want[i:])[0])
	}
	if got != want {
		diff := "value"
		switch {
		case strings.HasPrefix(got, "E:"):
			diff = "compile"
		case strings.Contains(got, "P:") || strings.Contains(want, "P:"):
			diff = "panic"
		}
		res.Key = "cont-" + class + "-" + meth + "-" + route + "-" + diff
		res.Viol = fmt.Sprintf("%s: gomacro %s, Go %s", line, got, want)
	}
	if strings.HasPrefix(got, "E:") {
		res.Out = "E"
	}
	return res
}

// ---- slices ----

func c34mkSlice(backing []int, isNil bool, n int) (b []int, s []int) {
	if isNil {
		return nil, nil
	}
	b = append(make([]int, 0, len(backing)), backing...)
	return b, b[:n:len(b)]
}

func c34sliceOp(meth string, s []int, b []int, args []string, impl *c34fn) string {
	after := func() string { return " | " + c34showInts(b) }
	call := func(a ...interface{}) ([]reflect.Value, string) {
		return c34implCall(impl, append([]interface{}{s}, a...)...)
	}
	intArgs := func(n int) []int {
		out := make([]int, n)
		for i := range out {
			out[i] = c34atoi(args[i])
		}
		return out
	}
	run := func(native func() string, nargs int, implArgs func() []interface{}, show func(out []reflect.Value) string) string {
		if impl == nil {
			return c34protect(native) + after()
		}
		out, pc := call(implArgs()...)
		if pc != "" {
			return pc + after()
		}
		return show(out) + after()
	}
	switch meth {
	case "Len":
		return run(func() string { return strconv.Itoa(len(s)) }, 0, func() []interface{} { return nil }, func(o []reflect.Value) string { return fmt.Sprint(o[0].Int()) })
	case "Cap":
		return run(func() string { return strconv.Itoa(cap(s)) }, 0, func() []interface{} { return nil }, func(o []reflect.Value) string { return fmt.Sprint(o[0].Int()) })
	case "Index":
		a := intArgs(1)
		return run(func() string { return strconv.Itoa(s[a[0]]) }, 1, func() []interface{} { return []interface{}{a[0]} }, func(o []reflect.Value) string { return fmt.Sprint(o[0].Int()) })
	case "SetIndex", "AddrIndex":
		a := intArgs(2)
		return run(func() string { s[a[0]] = a[1]; return "ok" }, 2, func() []interface{} { return []interface{}{a[0], a[1]} }, func(o []reflect.Value) string { return "ok" })
	case "Slice":
		a := intArgs(2)
		return run(func() string { return c34showSlice(s[a[0]:a[1]]) }, 2, func() []interface{} { return []interface{}{a[0], a[1]} },
			func(o []reflect.Value) string { return c34showSlice(c34rvInts(o[0])) })
	case "Slice3":
		a := intArgs(3)
		return run(func() string { return c34showSlice(s[a[0]:a[1]:a[2]]) }, 3, func() []interface{} { return []interface{}{a[0], a[1], a[2]} },
			func(o []reflect.Value) string { return c34showSlice(c34rvInts(o[0])) })
	case "Append":
		x, xnil, _ := c34ints(args[0])
		if xnil {
			x = nil
		}
		show := func(r []int) string { return fmt.Sprintf("%d:%s", len(r), c34showInts(r)) }
		return run(func() string { return show(append(s, x...)) }, 1, func() []interface{} {
			if x == nil {
				return []interface{}{reflect.Zero(reflect.TypeOf([]int(nil)))}
			}
			return []interface{}{x}
		}, func(o []reflect.Value) string { return show(c34rvInts(o[0])) })
	case "Append2":
		a := intArgs(2)
		show := func(r []int) string { return fmt.Sprintf("%d:%s", len(r), c34showInts(r)) }
		return run(func() string { return show(append(s, a[0], a[1])) }, 2, func() []interface{} { return []interface{}{a[0], a[1]} },
			func(o []reflect.Value) string { return show(c34rvInts(o[0])) })
	case "Copy":
		x, _, _ := c34ints(args[0])
		return run(func() string { copy(s, x); return "ok" }, 1, func() []interface{} { return []interface{}{x} }, func(o []reflect.Value) string { return "ok" })
	}
	return "bad-op"
}

func c34execSlice(f []string, line string) Result {
	if len(f) < 4 {
		return Result{Out: "bad-op"}
	}
	meth, route := f[0], f[1]
	cm, ok := c34sliceMeths[meth]
	backing, isNil, err := c34ints(f[2])
	n := c34atoi(f[3])
	if !ok || err != nil || n > len(backing) {
		return Result{Out: "bad-op"}
	}
	impl := c34cfunc("slice", meth, route, "[]int", "[]int", cm)
	b1, s1 := c34mkSlice(backing, isNil, n)
	b2, s2 := c34mkSlice(backing, isNil, n)
	got := c34sliceOp(meth, s1, b1, f[4:], impl)
	want := c34sliceOp(meth, s2, b2, f[4:], nil)
	if impl.errText != "" {
		got = "E:" + impl.errText
	}
	return c34contResult("slice", meth, route, line, got, want)
}

// ---- byte slices ----

func c34execBytes(f []string, line string) Result {
	if len(f) < 5 {
		return Result{Out: "bad-op"}
	}
	meth, route := f[0], f[1]
	cm, ok := c34bytesMeths[meth]
	backing, isNil, err := c34ints(f[2])
	n := c34atoi(f[3])
	arg, err2 := bkinds["string"].dec(f[4])
	if !ok || err != nil || err2 != nil || n > len(backing) {
		return Result{Out: "bad-op"}
	}
	mk := func() ([]byte, []byte) {
		if isNil {
			return nil, nil
		}
		b := make([]byte, len(backing))
		for i, x := range backing {
			b[i] = byte(x)
		}
		return b, b[:n:len(b)]
	}
	impl := c34cfunc("bytes", meth, route, "[]byte", "[]byte", cm)
	op := func(im *c34fn) string {
		b, s := mk()
		after := func() string { return " | " + c34showBytes(b) }
		show := func(r []byte) string { return fmt.Sprintf("%d:%s", len(r), c34showBytes(r)) }
		var implArg interface{} = arg.s
		if meth == "Append" {
			implArg = []byte(arg.s)
		}
		if meth == "Index" {
			implArg = len(arg.s)
		}
		if im != nil {
			var out []reflect.Value
			var pc string
			if meth == "Len" {
				out, pc = c34implCall(im, s)
			} else {
				out, pc = c34implCall(im, s, implArg)
			}
			if pc != "" {
				return pc + after()
			}
			switch meth {
			case "Len":
				return fmt.Sprint(out[0].Int()) + after()
			case "Index":
				return fmt.Sprint(out[0].Uint()) + after()
			case "AppendString", "Append":
				return show(out[0].Bytes()) + after()
			}
			return "ok" + after()
		}
		return c34protect(func() string {
			switch meth {
			case "Len":
				return strconv.Itoa(len(s))
			case "Index":
				return strconv.Itoa(int(s[len(arg.s)]))
			case "AppendString":
				return show(append(s, arg.s...))
			case "Append":
				return show(append(s, []byte(arg.s)...))
			case "CopyString":
				copy(s, arg.s)
				return "ok"
			}
			return "bad-op"
		}) + after()
	}
	got, want := op(impl), op(nil)
	if impl.errText != "" {
		got = "E:" + impl.errText
	}
	return c34contResult("bytes", meth, route, line, got, want)
}

// ---- arrays (pointer receiver) ----

func c34execArray(f []string, line string) Result {
	if len(f) < 3 {
		return Result{Out: "bad-op"}
	}
	meth, route := f[0], f[1]
	cm, ok := c34sliceMeths[meth]
	elems, _, err := c34ints(f[2])
	if !ok || err != nil || meth == "Append" || meth == "Append2" {
		return Result{Out: "bad-op"}
	}
	n := len(elems)
	ctype := fmt.Sprintf("*[%d]int", n)
	impl := c34cfunc("array", meth, route, ctype, "[]int", cm)
	mk := func() (reflect.Value, []int) { // pointer to a fresh array, and a slice aliasing it (native side works on the slice view)
		p := reflect.New(reflect.ArrayOf(n, reflect.TypeOf(0)))
		s := p.Elem().Slice(0, n).Interface().([]int)
		copy(s, elems)
		return p, s
	}
	p1, v1 := mk()
	_, v2 := mk()
	var got string
	{
		// reuse the slice driver: receiver = the pointer
		after := func() string { return " | " + c34showInts(v1) }
		args := f[3:]
		var ia []interface{}
		ia = append(ia, p1)
		switch meth {
		case "Copy":
			x, _, _ := c34ints(args[0])
			ia = append(ia, x)
		default:
			for _, a := range args {
				ia = append(ia, c34atoi(a))
			}
		}
		out, pc := c34implCall(impl, ia...)
		switch {
		case pc != "":
			got = pc + after()
		case meth == "Len" || meth == "Cap" || meth == "Index":
			got = fmt.Sprint(out[0].Int()) + after()
		case meth == "Slice" || meth == "Slice3":
			got = c34showSlice(c34rvInts(out[0])) + after()
		default:
			got = "ok" + after()
		}
	}
	want := c34sliceOp(meth, v2, v2, f[3:], nil)
	if impl.errText != "" {
		got = "E:" + impl.errText
	}
	return c34contResult("array", meth, route, line, got, want)
}

// ---- maps ----

func c34parseMap(s string) (map[int]int, error) {
	switch s {
	case "nil":
		return nil, nil
	case "-":
		return map[int]int{}, nil
	}
	m := map[int]int{}
	for _, kv := range strings.Split(s, ",") {
		k, v, ok := strings.Cut(kv, ":")
		if !ok {
			return nil, fmt.Errorf("bad map %q", s)
		}
		m[c34atoi(k)] = c34atoi(v)
	}
	return m, nil
}

func c34showMap(m map[int]int) string {
	if m == nil {
		return "nil"
	}
	if len(m) == 0 {
		return "-"
	}
	var ks []int
	for k := range m {
		ks = append(ks, k)
	}
	sort.Ints(ks)
	var fs []string
	for _, k := range ks {
		fs = append(fs, fmt.Sprintf("%d:%d", k, m[k]))
	}
	return strings.Join(fs, ",")
}

func c34execMap(f []string, line string) Result {
	if len(f) < 3 {
		return Result{Out: "bad-op"}
	}
	meth, route := f[0], f[1]
	cm, ok := c34mapMeths[meth]
	if !ok {
		return Result{Out: "bad-op"}
	}
	impl := c34cfunc("map", meth, route, "map[int]int", "", cm)
	var a []int
	for _, s := range f[3:] {
		a = append(a, c34atoi(s))
	}
	op := func(im *c34fn) string {
		m, err := c34parseMap(f[2])
		if err != nil {
			return "bad-op"
		}
		after := func() string { return " | " + c34showMap(m) }
		if im != nil {
			ia := []interface{}{reflect.ValueOf(m)}
			for _, x := range a {
				ia = append(ia, x)
			}
			out, pc := c34implCall(im, ia...)
			if pc != "" {
				return pc + after()
			}
			switch meth {
			case "Len", "Index":
				return fmt.Sprint(out[0].Int()) + after()
			case "TryIndex":
				return fmt.Sprintf("%d,%v", out[0].Int(), out[1].Bool()) + after()
			}
			return "ok" + after()
		}
		return c34protect(func() string {
			switch meth {
			case "Len":
				return strconv.Itoa(len(m))
			case "Index":
				return strconv.Itoa(m[a[0]])
			case "TryIndex":
				v, ok := m[a[0]]
				return fmt.Sprintf("%d,%v", v, ok)
			case "SetIndex":
				m[a[0]] = a[1]
			case "DelIndex":
				delete(m, a[0])
			}
			return "ok"
		}) + after()
	}
	got, want := op(impl), op(nil)
	if impl.errText != "" {
		got = "E:" + impl.errText
	}
	return c34contResult("map", meth, route, line, got, want)
}

// ---- channels: a sequence of operations on one channel ----

func c34execChan(f []string, line string) Result {
	if len(f) < 3 {
		return Result{Out: "bad-op"}
	}
	dir, route := f[0], f[1]
	capN := c34atoi(f[2])
	chI, chN := make(chan int, capN), make(chan int, capN)
	typeFor := func(op string) string {
		switch {
		case dir == "ro" && strings.Contains("RYLP", op):
			return "<-chan int"
		case dir == "so" && strings.Contains("STCLP", op):
			return "chan<- int"
		}
		return "chan int"
	}
	conv := func(t string) reflect.Value {
		switch t {
		case "<-chan int":
			return reflect.ValueOf((<-chan int)(chI))
		case "chan<- int":
			return reflect.ValueOf((chan<- int)(chI))
		}
		return reflect.ValueOf(chI)
	}
	res := Result{Nontrivial: true, Tags: []string{"cont", "class:chan", "route:" + route, "chandir:" + dir}}
	var gots []string
	for _, tok := range f[3:] {
		op := tok[:1]
		cm, ok := c34chanMeths[op]
		if !ok {
			return Result{Out: "bad-op"}
		}
		v := 0
		if len(tok) > 1 {
			v = c34atoi(tok[1:])
		}
		t := typeFor(op)
		impl := c34cfunc("chan", c34chanNames[op], route, t, "", cm)
		ia := []interface{}{conv(t)}
		if op == "S" || op == "T" {
			ia = append(ia, v)
		}
		var got string
		out, pc := c34implCall(impl, ia...)
		switch {
		case pc != "":
			got = pc
		case op == "T":
			got = map[bool]string{true: "t", false: "f"}[out[0].Bool()]
		case op == "R" || op == "Y":
			got = fmt.Sprintf("%d,%s", out[0].Int(), map[bool]string{true: "t", false: "f"}[out[1].Bool()])
		case op == "L" || op == "P":
			got = fmt.Sprint(out[0].Int())
		default:
			got = "ok"
		}
		want := c34protect(func() string {
			b2s := map[bool]string{true: "t", false: "f"}
			switch op {
			case "S":
				chN <- v
			case "T":
				select {
				case chN <- v:
					return "t"
				default:
					return "f"
				}
			case "R":
				x, ok := <-chN
				return fmt.Sprintf("%d,%s", x, b2s[ok])
			case "Y":
				select {
				case x, ok := <-chN:
					return fmt.Sprintf("%d,%s", x, b2s[ok])
				default:
					return "0,f"
				}
			case "C":
				close(chN)
			case "L":
				return strconv.Itoa(len(chN))
			case "P":
				return strconv.Itoa(cap(chN))
			}
			return "ok"
		})
		res.Tags = append(res.Tags, "cmeth:chan."+c34chanNames[op])
		if strings.HasPrefix(want, "P:") {
			res.Tags = append(res.Tags, "c"+want)
		}
		if got != want && res.Viol == "" {
			diff := "value"
			switch {
			case strings.HasPrefix(got, "E:"):
				diff = "compile"
			case strings.HasPrefix(got, "P:") || strings.HasPrefix(want, "P:"):
				diff = "panic"
			}
			res.Key = "cont-chan-" + c34chanNames[op] + "-" + route + "-" + diff
			res.Viol = fmt.Sprintf("%s: op %s: gomacro %s, Go %s", line, tok, got, want)
		}
		if strings.HasPrefix(got, "E:") {
			got = "E"
		}
		gots = append(gots, got)
		// keep the two channels in step even after a disagreement: if the implementation did not
		// perform an operation that the native side performed (or vice versa), stop here
		if got != want {
			break
		}
	}
	res.Out = strings.Join(gots, " ")
	return res
}

func c34execContainer(f []string) Result {
	if len(f) < 1 {
		return Result{Out: "bad-op"}
	}
	c34interp()
	line := "c " + strings.Join(f, " ")
	switch f[0] {
	case "slice":
		return c34execSlice(f[1:], line)
	case "bytes":
		return c34execBytes(f[1:], line)
	case "array":
		return c34execArray(f[1:], line)
	case "map":
		return c34execMap(f[1:], line)
	case "chan":
		return c34execChan(f[1:], line)
	}
	return Result{Out: "bad-op"}
}

// ---- generator ----

func (g *c34gen) emitc(parts ...string) {
	var fs []string
	for _, p := range parts {
		if p != "" {
			fs = append(fs, p)
		}
	}
	g.emit(strings.Join(fs, " "))
}

func (g *c34gen) smallInt() int { return g.r.Intn(19) - 9 }

func (g *c34gen) intList(n int) []int {
	out := make([]int, n)
	for i := range out {
		out[i] = g.smallInt()
	}
	return out
}

func (g *c34gen) idx(n int) int {
	switch g.r.Intn(8) {
	case 0:
		return -1
	case 1:
		return n
	case 2:
		return n + 1
	}
	if n == 0 {
		return 0
	}
	return g.r.Intn(n + 1)
}

func (g *c34gen) containers() {
	rounds := 6
	if g.tier == "thorough" {
		rounds = 150
	}
	routes := []string{"d", "g"}
	sliceMeths := []string{"Len", "Cap", "Index", "SetIndex", "AddrIndex", "Slice", "Slice3", "Append", "Append2", "Copy"}
	for round := 0; round < rounds; round++ {
		for _, route := range routes {
			// slices
			for _, meth := range sliceMeths {
				capN := g.r.Intn(6)
				n := 0
				if capN > 0 {
					n = g.r.Intn(capN + 1)
				}
				backing := c34showInts(g.intList(capN))
				if round%5 == 4 {
					backing, n = "nil", 0
				}
				var args []string
				switch meth {
				case "Index":
					args = []string{strconv.Itoa(g.idx(n))}
				case "SetIndex", "AddrIndex":
					args = []string{strconv.Itoa(g.idx(n)), strconv.Itoa(g.smallInt())}
				case "Slice":
					i := g.idx(capN)
					args = []string{strconv.Itoa(i), strconv.Itoa(i + g.r.Intn(3) - g.r.Intn(2))}
				case "Slice3":
					i := g.idx(capN)
					j := i + g.r.Intn(3) - g.r.Intn(2)
					args = []string{strconv.Itoa(i), strconv.Itoa(j), strconv.Itoa(j + g.r.Intn(3) - g.r.Intn(2))}
				case "Append", "Copy":
					x := c34showInts(g.intList(g.r.Intn(4)))
					if meth == "Append" && g.r.Intn(6) == 0 {
						x = "nil"
					}
					args = []string{x}
				case "Append2":
					args = []string{strconv.Itoa(g.smallInt()), strconv.Itoa(g.smallInt())}
				}
				g.emitc("c slice", meth, route, backing, strconv.Itoa(n), strings.Join(args, " "))
			}
			// arrays
			for _, meth := range []string{"Len", "Cap", "Index", "SetIndex", "AddrIndex", "Slice", "Slice3", "Copy"} {
				n := []int{0, 1, 4}[g.r.Intn(3)]
				elems := c34showInts(g.intList(n))
				var args []string
				switch meth {
				case "Index":
					args = []string{strconv.Itoa(g.idx(n))}
				case "SetIndex", "AddrIndex":
					args = []string{strconv.Itoa(g.idx(n)), strconv.Itoa(g.smallInt())}
				case "Slice":
					i := g.idx(n)
					args = []string{strconv.Itoa(i), strconv.Itoa(i + g.r.Intn(3) - g.r.Intn(2))}
				case "Slice3":
					i := g.idx(n)
					j := i + g.r.Intn(3) - g.r.Intn(2)
					args = []string{strconv.Itoa(i), strconv.Itoa(j), strconv.Itoa(j + g.r.Intn(3) - g.r.Intn(2))}
				case "Copy":
					args = []string{c34showInts(g.intList(g.r.Intn(6)))}
				}
				g.emitc("c array", meth, route, elems, strings.Join(args, " "))
			}
			// byte slices
			for _, meth := range []string{"Len", "AppendString", "CopyString", "Append", "Index"} {
				capN := g.r.Intn(6)
				n := 0
				if capN > 0 {
					n = g.r.Intn(capN + 1)
				}
				b := make([]int, capN)
				for i := range b {
					b[i] = g.r.Intn(256)
				}
				backing := c34showInts(b)
				if round%5 == 3 {
					backing, n = "nil", 0
				}
				s := randomVal(g.r, bkinds["string"])
				g.emit("c bytes " + meth + " " + route + " " + backing + " " + strconv.Itoa(n) + " " + bkinds["string"].enc(s))
			}
			// maps
			for _, meth := range []string{"Len", "Index", "TryIndex", "SetIndex", "DelIndex"} {
				m := map[int]int{}
				for i, n := 0, g.r.Intn(5); i < n; i++ {
					m[g.r.Intn(7)-3] = g.smallInt()
				}
				contents := c34showMap(m)
				if round%5 == 2 {
					contents = "nil"
				}
				var args []string
				switch meth {
				case "Index", "TryIndex", "DelIndex":
					args = []string{strconv.Itoa(g.r.Intn(7) - 3)}
				case "SetIndex":
					args = []string{strconv.Itoa(g.r.Intn(7) - 3), strconv.Itoa(g.smallInt())}
				}
				g.emitc("c map", meth, route, contents, strings.Join(args, " "))
			}
			// channels: a random non-blocking history
			for _, dir := range []string{"b", "ro", "so"} {
				capN := g.r.Intn(4)
				n, closed := 0, false
				var ops []string
				for i, steps := 0, 4+g.r.Intn(10); i < steps; i++ {
					switch g.r.Intn(9) {
					case 0, 1: // Send: only when it cannot block
						if closed || n < capN {
							ops = append(ops, "S"+strconv.Itoa(g.smallInt()))
							if closed {
								i = steps // panics; later ops still run on both sides
							} else {
								n++
							}
						}
					case 2, 3:
						ops = append(ops, "T"+strconv.Itoa(g.smallInt()))
						if !closed && n < capN {
							n++
						}
					case 4: // Recv: only when it cannot block
						if closed || n > 0 {
							ops = append(ops, "R")
							if n > 0 {
								n--
							}
						}
					case 5, 6:
						ops = append(ops, "Y")
						if n > 0 {
							n--
						}
					case 7:
						if g.r.Intn(3) == 0 {
							ops = append(ops, "C")
							closed = true
						} else {
							ops = append(ops, "L")
						}
					case 8:
						ops = append(ops, "P")
					}
				}
				if len(ops) > 0 {
					g.emit("c chan " + dir + " " + route + " " + strconv.Itoa(capN) + " " + strings.Join(ops, " "))
				}
			}
		}
	}
}
