package main

// Mini language of C18 (same grammar and the same validity rules as lean/Drv/C18.lean):
//
//	prog  := chunk (";;" chunk)*
//	chunk := "tog" bits | [":"] "def" k stmt* "ret" expr "end" | [":"] "do" stmt* [fin] "end"
//	fin   := "val" expr | "kint" int | "krune" int | "kbool" (0|1)
//	stmt  := "set" k expr | "emit" expr | "if" expr stmt* "else" stmt* "end" | "loop" n stmt* "end"
//	       | "panic" expr | "blk" expr stmt* "end" | "brk"
//	expr  := "n" int | "g" k | "p" | "l" | ("+"|"-"|"*"|"/"|"%") expr expr | "call" k expr
//
// Rendering: literals are calls of the identity function k() (no constant folding), `em` records a
// value, `brk` is the breakpoint statement "break", `blk e` is `{ l := e; _ = l; ... }`, loops are
// `for i := 0; i < n; i++ { _ = i; ... }`, functions are `func f<prefix><k>(p int) int`.

import (
	"fmt"
	"math/rand"
	"strconv"
	"strings"

	"github.com/cosmos72/gomacro/base"
)

type c18mchunk struct {
	tog    int
	forced bool
	def    int    // >= 0: function definition
	body   string // rendered statements, %F = function prefix
	fin    string // rendered final expression ("" = none)
}

type c18mprog struct{ chunks []c18mchunk }

type c18mp struct {
	toks  []string
	pos   int
	ok    bool
	calls map[int]bool // functions called
}

func (p *c18mp) peek() string {
	if p.pos < len(p.toks) {
		return p.toks[p.pos]
	}
	return ""
}
func (p *c18mp) next() string {
	t := p.peek()
	if p.pos < len(p.toks) {
		p.pos++
	} else {
		p.ok = false
	}
	return t
}

func c18nat(s string) (int, bool) {
	if s == "" || len(s) > 18 {
		return 0, false
	}
	for _, c := range s {
		if c < '0' || c > '9' {
			return 0, false
		}
	}
	n, err := strconv.Atoi(s)
	return n, err == nil
}

// decimal integer of any size (kint), as text
func c18bigint(s string) (string, bool) {
	t := strings.TrimPrefix(s, "-")
	if t == "" {
		return "", false
	}
	for _, c := range t {
		if c < '0' || c > '9' {
			return "", false
		}
	}
	// canonical: no leading zeros (Lean prints the Int)
	t = strings.TrimLeft(t, "0")
	if t == "" {
		return "0", true
	}
	if strings.HasPrefix(s, "-") {
		return "-" + t, true
	}
	return t, true
}

func (p *c18mp) expr(depth int) string {
	if depth > 60 {
		p.ok = false
		return ""
	}
	switch t := p.next(); t {
	case "n":
		c := p.next()
		neg := strings.HasPrefix(c, "-")
		n, ok := c18nat(strings.TrimPrefix(c, "-"))
		if !ok || n > 99 {
			p.ok = false
			return ""
		}
		if neg {
			n = -n
		}
		return fmt.Sprintf("k(%d)", n)
	case "g":
		k, ok := c18nat(p.next())
		if !ok || k >= 4 {
			p.ok = false
			return ""
		}
		return fmt.Sprintf("g%d", k)
	case "p", "l":
		return t
	case "call":
		k, ok := c18nat(p.next())
		if !ok || k >= 8 {
			p.ok = false
			return ""
		}
		if p.calls != nil {
			p.calls[k] = true
		}
		a := p.expr(depth + 1)
		return fmt.Sprintf("%%F%d(%s)", k, a)
	case "+", "-", "*", "/", "%":
		a := p.expr(depth + 1)
		b := p.expr(depth + 1)
		op := t
		if op == "%" {
			op = "%%"
		}
		return "(" + a + " " + op + " " + b + ")"
	}
	p.ok = false
	return ""
}

func c18isTerm(t string) bool {
	switch t {
	case "end", "else", "ret", "val", "kint", "krune", "kbool":
		return true
	}
	return false
}

// returns the rendered statements and whether the last one is a breakpoint
func (p *c18mp) stmts(depth int) ([]string, bool) {
	var out []string
	lastBrk := false
	for p.ok && p.pos < len(p.toks) && !c18isTerm(p.peek()) {
		if depth > 60 {
			p.ok = false
			break
		}
		lastBrk = false
		switch t := p.next(); t {
		case "set":
			k, ok := c18nat(p.next())
			if !ok || k >= 4 {
				p.ok = false
				break
			}
			out = append(out, fmt.Sprintf("g%d = %s", k, p.expr(0)))
		case "emit":
			out = append(out, "em("+p.expr(0)+")")
		case "panic":
			out = append(out, "panic("+p.expr(0)+")")
		case "brk":
			out = append(out, `_ = "break"`)
			lastBrk = true
		case "if":
			c := p.expr(0)
			a, _ := p.stmts(depth + 1)
			if p.next() != "else" {
				p.ok = false
				break
			}
			b, _ := p.stmts(depth + 1)
			if p.next() != "end" {
				p.ok = false
				break
			}
			out = append(out, "if "+c+" != 0 { "+strings.Join(a, "; ")+" } else { "+strings.Join(b, "; ")+" }")
		case "loop":
			n, ok := c18nat(p.next())
			if !ok || n > 6 {
				p.ok = false
				break
			}
			b, _ := p.stmts(depth + 1)
			if p.next() != "end" {
				p.ok = false
				break
			}
			out = append(out, fmt.Sprintf("for i := 0; i < %d; i++ { _ = i; %s }", n, strings.Join(b, "; ")))
		case "blk":
			e := p.expr(0)
			b, _ := p.stmts(depth + 1)
			if p.next() != "end" {
				p.ok = false
				break
			}
			out = append(out, "{ l := "+e+"; _ = l; "+strings.Join(b, "; ")+" }")
		default:
			p.ok = false
		}
	}
	return out, lastBrk
}

func c18miniParse(src string) *c18mprog {
	toks := strings.Fields(strings.ReplaceAll(src, "\t", " "))
	if strings.ContainsAny(src, "\t\r\n") {
		return nil
	}
	// split at ";;"
	var chunks [][]string
	cur := []string{}
	for _, t := range toks {
		if t == ";;" {
			chunks = append(chunks, cur)
			cur = []string{}
		} else {
			cur = append(cur, t)
		}
	}
	chunks = append(chunks, cur)
	prog := &c18mprog{}
	defs := map[int]bool{}
	for _, ct := range chunks {
		ch := c18mchunk{def: -1}
		if len(ct) > 0 && ct[0] == ":" {
			ch.forced = true
			ct = ct[1:]
		}
		if len(ct) == 0 {
			return nil
		}
		p := &c18mp{toks: ct[1:], ok: true, calls: map[int]bool{}}
		switch ct[0] {
		case "tog":
			if ch.forced || len(ct) != 2 {
				return nil
			}
			b, ok := c18nat(ct[1])
			if !ok || b >= 512 || b == 0 || b&(1<<5) != 0 {
				return nil
			}
			ch.tog = b
		case "def":
			k, ok := c18nat(p.next())
			if !ok || k >= 8 || defs[k] {
				return nil
			}
			defs[k] = true
			ch.def = k
			body, _ := p.stmts(0)
			if p.next() != "ret" {
				return nil
			}
			e := p.expr(0)
			if !p.ok || p.next() != "end" || p.pos != len(p.toks) || !p.ok {
				return nil
			}
			if p.calls[k] {
				return nil // a function that calls itself: unbounded recursion cannot be run
			}
			ch.body = strings.Join(append(body, "return "+e), "; ")
		case "do":
			body, lastBrk := p.stmts(0)
			if !p.ok {
				return nil
			}
			switch p.next() {
			case "end":
				if len(body) == 0 || lastBrk {
					return nil
				}
			case "val":
				ch.fin = "(" + p.expr(0) + ")"
				if p.next() != "end" {
					return nil
				}
			case "kint":
				c, ok := c18bigint(p.next())
				if !ok || p.next() != "end" {
					return nil
				}
				ch.fin = "(" + c + ")"
			case "krune":
				c, ok := c18nat(p.next())
				if !ok || c < 97 || c > 122 || p.next() != "end" {
					return nil
				}
				ch.fin = "('" + string(rune(c)) + "')"
			case "kbool":
				switch p.next() {
				case "0":
					ch.fin = "(false)"
				case "1":
					ch.fin = "(true)"
				default:
					return nil
				}
				if p.next() != "end" {
					return nil
				}
			default:
				return nil
			}
			if !p.ok || p.pos != len(p.toks) {
				return nil
			}
			ch.body = strings.Join(body, "; ")
		default:
			return nil
		}
		prog.chunks = append(prog.chunks, ch)
	}
	if len(prog.chunks) == 0 {
		return nil
	}
	return prog
}

func (mp *c18mprog) render(prefix string) *c18prog {
	pr := &c18prog{}
	for _, ch := range mp.chunks {
		if ch.tog != 0 {
			pr.chunks = append(pr.chunks, c18chunk{tog: c18optsOf(ch.tog) &^ (base.OptKeepUntyped | base.OptMacroExpandOnly)})
			continue
		}
		var src string
		if ch.def >= 0 {
			src = fmt.Sprintf("func %%F%d(p int) int { %s }", ch.def, ch.body)
		} else {
			src = ch.body
			if ch.fin != "" {
				if src != "" {
					src += "; "
				}
				src += ch.fin
			}
		}
		src = strings.ReplaceAll(src, "%F", prefix)
		src = strings.ReplaceAll(src, "%%", "%")
		if ch.forced {
			src = ":" + src
		}
		pr.chunks = append(pr.chunks, c18chunk{src: src})
	}
	return pr
}

// ---------------------------------------------------------------- generators

func c18miniSystematic() []string {
	progs := []string{
		"do set 0 n 5 emit g 0 end",
		"do set 0 + n 2 n 3 val * g 0 g 0 end",
		"do kint 7 end", "do krune 97 end", "do kbool 1 end", "do kbool 0 end", "do kint -3 end",
		"do kint 9223372036854775807 end", "do kint 9223372036854775808 end", "do kint -9223372036854775808 end",
		"do kint -9223372036854775809 end", "do kint 1180591620717411303424 end",
		"do set 1 n 4 kint 7 end", "do set 1 n 4 krune 122 end", "do emit n 1 kbool 1 end",
		"do set 1 n 4 kint 1180591620717411303424 end ;; do emit g 1 end",
		"do emit / n 7 g 0 end ;; do emit n 2 end",
		"do emit % n 7 g 1 end",
		"do set 0 - n 0 n 9 emit / g 0 n 2 emit % g 0 n 2 emit / n 9 - n 0 n 2 emit % n 9 - n 0 n 2 end",
		"do panic n 3 end ;; do emit n 4 end",
		"do emit n 1 panic + n 1 n 1 emit n 3 end ;; do val g 0 end",
		"def 0 emit p ret * p n 2 end ;; do emit call 0 n 21 end",
		"def 0 brk ret p end ;; do brk emit call 0 n 1 end",
		"def 0 brk ret p end ;; tog 1 ;; do brk emit call 0 n 1 end",
		"tog 1 ;; def 0 brk ret p end ;; tog 1 ;; do brk emit call 0 n 1 end",
		"def 0 blk p brk end loop 2 brk end ret l end ;; tog 1 ;; do blk n 5 brk emit l end loop 2 brk end emit call 0 n 3 end",
		"do emit call 3 n 1 end ;; do emit n 2 end",
		"def 1 ret call 0 p end ;; def 0 ret p end ;; def 1 ret call 0 p end",
		"def 0 ret p end ;; def 1 ret call 0 + p n 1 end ;; do val call 1 n 5 end",
		": do set 0 n 1 end ;; do emit g 0 end",
		": do set 0 n 1 end ;; do set 0 + g 0 n 1 end ;; do emit g 0 end",
		": def 0 ret + p n 1 end ;; do emit call 0 n 1 end",
		": do panic n 9 end ;; do emit n 1 end",
		": do kint 5 end", ": do val p end", ": do emit / n 1 g 3 end ;; : do emit n 2 end",
		"tog 6 ;; : do set 0 n 1 end ;; do emit g 0 end ;; def 0 ret p end",
		"do if g 0 emit n 1 else emit n 2 end end ;; do set 0 n 1 if g 0 emit n 1 else emit n 2 end end",
		"do loop 3 set 0 + g 0 n 1 emit g 0 end end",
		"do loop 2 loop 2 set 1 + g 1 n 1 end end val g 1 end",
		"do blk n 7 emit l blk + l n 1 emit l end emit l end emit l end",
		"do set 0 n 99 loop 6 set 0 * g 0 g 0 end emit g 0 end",
		"do set 0 * * * n 99 n 99 * n 99 n 99 * * n 99 n 99 * n 99 n 99 set 0 * g 0 g 0 set 0 * g 0 g 0 emit g 0 set 1 - n 0 g 0 emit / g 1 - n 0 n 1 end",
		"tog 8 ;; do emit n 1 end ;; do panic n 2 end ;; tog 8 ;; do emit n 3 end",
		"tog 64 ;; do val n 5 end ;; do kint 5 end ;; tog 128 ;; do val n 6 end ;; do krune 100 end ;; do kbool 1 end ;; do emit n 1 end",
		"tog 256 ;; do emit n 1 end ;; do panic n 1 end ;; do kint 1 end",
		"tog 24 ;; do panic n 1 end ;; tog 16 ;; do panic n 2 end ;; tog 8 ;; do panic n 3 end",
		"def 0 panic p ret p end ;; do emit n 1 emit call 0 n 7 emit n 2 end",
		"def 0 if p emit p else panic n 0 end ret - p n 1 end ;; do emit call 0 call 0 call 0 n 2 end",
	}
	var out []string
	cfgs := []int{0, 1, 6, 8, 24, 32, 64, 192, 256, 512, 33, 96, 224, 7 | 24 | 32 | 64 | 128 | 256, 512 | 6, 512 | 64}
	for i, p := range progs {
		for j := 0; j < 4; j++ {
			out = append(out, fmt.Sprintf("m %d | %s", cfgs[(i+j*5)%len(cfgs)], p))
		}
	}
	return out
}

type c18mg struct {
	r     *rand.Rand
	ndef  int
	inDef bool // generating the body of function ndef
	nodes int
}

func (g *c18mg) expr(d int) string {
	g.nodes++
	if d <= 0 || g.r.Intn(3) == 0 || g.nodes > 60 {
		switch g.r.Intn(6) {
		case 0, 1:
			return fmt.Sprintf("n %d", g.r.Intn(21)-10)
		case 2, 3:
			return fmt.Sprintf("g %d", g.r.Intn(4))
		case 4:
			return "p"
		default:
			return "l"
		}
	}
	switch g.r.Intn(8) {
	case 0:
		if g.ndef > 0 {
			return fmt.Sprintf("call %d %s", g.r.Intn(g.ndef), g.expr(d-1))
		}
		if g.r.Intn(12) == 0 {
			// undefined function (never the function being defined: no recursion)
			lo := g.ndef
			if g.inDef {
				lo++
			}
			if lo < 8 {
				return fmt.Sprintf("call %d %s", lo+g.r.Intn(8-lo), g.expr(d-1))
			}
		}
		fallthrough
	default:
		op := []string{"+", "-", "*", "/", "%", "+", "-", "*"}[g.r.Intn(8)]
		return op + " " + g.expr(d-1) + " " + g.expr(d-1)
	}
}

func (g *c18mg) stmts(n, d int) string {
	var out []string
	for i := 0; i < n; i++ {
		g.nodes++
		c := g.r.Intn(14)
		if d <= 0 && c >= 8 {
			c = g.r.Intn(8)
		}
		switch c {
		case 0, 1, 2:
			out = append(out, fmt.Sprintf("set %d %s", g.r.Intn(4), g.expr(2)))
		case 3, 4, 5:
			out = append(out, "emit "+g.expr(2))
		case 6:
			out = append(out, "brk")
		case 7:
			if g.r.Intn(3) == 0 {
				out = append(out, "panic "+g.expr(1))
			} else {
				out = append(out, "emit "+g.expr(3))
			}
		case 8, 9:
			out = append(out, "if "+g.expr(2)+" "+g.stmts(1+g.r.Intn(2), d-1)+" else "+g.stmts(g.r.Intn(2), d-1)+" end")
		case 10, 11:
			out = append(out, fmt.Sprintf("loop %d %s end", g.r.Intn(4), g.stmts(1+g.r.Intn(2), d-1)))
		default:
			out = append(out, "blk "+g.expr(1)+" "+g.stmts(1+g.r.Intn(3), d-1)+" end")
		}
	}
	return strings.Join(out, " ")
}

func c18miniRandom(r *rand.Rand) string {
	g := &c18mg{r: r}
	var chunks []string
	n := 1 + r.Intn(6)
	for i := 0; i < n; i++ {
		g.nodes = 0
		forced := ""
		if r.Intn(5) == 0 {
			forced = ": "
		}
		switch c := r.Intn(10); {
		case c == 0:
			bits := 0
			for bits == 0 {
				bits = r.Intn(512) &^ 32
				if r.Intn(2) == 0 {
					bits &= 1 << r.Intn(9)
				}
			}
			chunks = append(chunks, fmt.Sprintf("tog %d", bits))
		case c <= 2 && g.ndef < 8:
			// functions call only functions defined before them: no recursion
			g.inDef = true
			body := g.stmts(r.Intn(3), 2)
			chunks = append(chunks, strings.Join(strings.Fields(fmt.Sprintf("%sdef %d %s ret %s end", forced, g.ndef, body, g.expr(2))), " "))
			g.inDef = false
			g.ndef++
		default:
			body := g.stmts(r.Intn(4), 2)
			fin := ""
			switch r.Intn(8) {
			case 0, 1:
				fin = "val " + g.expr(2)
			case 2:
				fin = fmt.Sprintf("kint %d", r.Intn(2001)-1000)
			case 3:
				fin = []string{"kint 9223372036854775807", "kint 9223372036854775808", "kint -9223372036854775808", "kint 36893488147419103232"}[r.Intn(4)]
			case 4:
				fin = fmt.Sprintf("krune %d", 97+r.Intn(26))
			case 5:
				fin = fmt.Sprintf("kbool %d", r.Intn(2))
			}
			if fin == "" && (body == "" || strings.HasSuffix(body, "brk")) {
				body = strings.TrimSpace(body + " emit g 0")
			}
			chunks = append(chunks, strings.Join(strings.Fields(forced+"do "+body+" "+fin+" end"), " "))
		}
	}
	cfg := 0
	for i := 0; i < 10; i++ {
		if r.Intn(4) == 0 {
			cfg |= 1 << i
		}
	}
	if r.Intn(4) != 0 {
		cfg &^= 1 << 9 // macroexpand-only programs do nothing: keep them rare
	}
	return fmt.Sprintf("m %d | %s", cfg, strings.Join(chunks, " ;; "))
}
