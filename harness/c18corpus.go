package main

// Hand-written program corpus of C18.  One program = REPL inputs separated by a line "---".
// Programs report through out(...) (recorded by the harness), through their final values and
// through panics / compile errors.  They must not start goroutines and must not depend on
// addresses or map iteration order.

import (
	"math/rand"
	"strings"
)

const c18corpusText = `
1 + 2
===
x := 7; y := 3
---
x + y; x - y
---
x*y, x/y, x%y
===
var a, b = 10, 4
---
a <<= 2; b |= 3; a ^ b
===
3
===
x := 1; 3
===
x := 1; 'a'
===
x := 1; 1.5
===
x := 1; "s" + "t"
===
x := 1; 1 < 2
===
var u uint8 = 250; u += 10; u
===
const c = 1 << 70; c >> 60
===
1 << 70
===
x := 2; 1 << 70
===
'a' + 1
===
1.5 * 2
===
"ab" + "cd"
===
1 < 2 && 2 < 3
===
7 / 2.0
===
2i * 2i
===
x := 10
---
:x = x + 5
---
x = x * 2
---
out(x); x
===
:var q = 4
---
q + 1
===
:func sq(a int) int { return a * a }
---
sq(5)
===
: out("forced")
---
out("plain")
===
:inspect
---
out("after")
===
var i8 int8 = 127; i8++; i8
===
var f32 float32 = 1.0 / 3; float64(f32) > 0.33
===
x := 5
if x > 3 { out("big") } else { out("small") }
===
s := 0
for i := 0; i < 10; i++ { if i%2 == 0 { continue }; if i > 7 { break }; s += i }
s
===
s := ""
for i, c := range "héllo" { s += strconv.Itoa(i) + string(c) }
s
===
t := 0
for _, v := range []int{3, 4, 5} { t += v }
for k := range [3]int{} { t += k }
t
===
n := 0
outer:
for i := 0; i < 3; i++ {
	for j := 0; j < 3; j++ {
		if j == 2 { continue outer }
		if i == 2 { break outer }
		n += 10*i + j
	}
}
n
===
switch x := 5; {
case x > 3:
	out("a")
	fallthrough
case x > 10:
	out("b")
default:
	out("c")
}
===
f := func(v interface{}) string {
	switch t := v.(type) {
	case int:
		return "int" + strconv.Itoa(t)
	case string:
		return "str" + t
	case nil:
		return "nil"
	}
	return "other"
}
f(1) + f("x") + f(nil) + f(2.5)
===
i := 0
loop:
	if i < 3 { out(i); i++; goto loop }
i
===
func fib(n int) int { if n < 2 { return n }; return fib(n-1) + fib(n-2) }
---
fib(15)
===
func swap(a, b int) (int, int) { return b, a }
---
swap(1, 2)
===
func sum(xs ...int) (t int) { for _, x := range xs { t += x }; return }
---
sum(), sum(1), sum(1, 2, 3), sum([]int{4, 5}...)
===
func mk() func() int { c := 0; return func() int { c++; return c } }
---
a, b := mk(), mk()
---
a(); a(); b()
---
a() * 10 + b()
===
var fs []func() int
for i := 0; i < 3; i++ { j := i; fs = append(fs, func() int { return j * j }) }
fs[0]() + fs[1]() + fs[2]()
===
adder := func(n int) func(int) int { return func(m int) int { return n + m } }
adder(3)(4)
===
func apply(f func(int) int, xs []int) []int { r := make([]int, len(xs)); for i, x := range xs { r[i] = f(x) }; return r }
---
apply(func(x int) int { return x * x }, []int{1, 2, 3})
===
func d1() (r int) { defer func() { r *= 2 }(); return 21 }
---
d1()
===
func d2() { for i := 0; i < 3; i++ { defer out("d", i) }; out("body") }
---
d2()
===
func safe(f func()) (msg string) { defer func() { if e := recover(); e != nil { msg = fmt.Sprint("recovered: ", e) } }(); f(); return "ok" }
---
safe(func() { panic("boom") })
---
safe(func() {})
---
safe(func() { var m map[string]int; m["a"] = 1 })
---
safe(func() { a := []int{1}; i := 5; _ = a[i] })
---
safe(func() { var p *struct{ x int }; _ = p.x })
===
func nested() (s string) {
	defer func() { s += fmt.Sprint(recover()) }()
	defer func() { panic("second") }()
	panic("first")
}
---
nested()
===
func rethrow() { defer func() { e := recover(); panic(fmt.Sprint("re-", e)) }(); panic("x") }
---
rethrow()
---
out("still alive")
===
panic("top level")
---
out("next")
===
panic(errors.New("an error value"))
===
var np *int
*np
===
x := 0
10 / x
===
a := []int{1, 2, 3}
i := 3
a[i]
===
var e interface{} = "str"
e.(int)
===
var m map[string]int
m["k"] = 1
===
type P struct{ X, Y int }
---
p1 := P{1, 2}; p2 := &P{Y: 5}
---
p1.X + p2.Y, p1 == P{1, 2}
---
p2.X = 9; *p2
===
type P struct{ X, Y int }
func (p P) Sum() int { return p.X + p.Y }
func (p *P) Scale(k int) { p.X *= k; p.Y *= k }
---
v := P{1, 2}; v.Scale(3); v.Sum()
---
f := v.Sum; g := (*P).Scale; g(&v, 2); f(), v.Sum()
===
type Shape interface { Area() int }
type Sq struct{ s int }
type Rc struct{ w, h int }
func (s Sq) Area() int { return s.s * s.s }
func (r Rc) Area() int { return r.w * r.h }
---
shapes := []Shape{Sq{3}, Rc{2, 5}}
t := 0
for _, s := range shapes { t += s.Area() }
t
---
var s Shape = Sq{2}
_, isRc := s.(Rc)
isRc, s.Area()
===
type Base struct{ id int }
func (b Base) ID() int { return b.id }
func (b *Base) SetID(i int) { b.id = i }
type Derived struct { Base; name string }
---
d := Derived{Base{1}, "n"}; d.SetID(7); d.ID(), d.id, d.name
===
type Str string
func (s Str) String() string { return "<" + string(s) + ">" }
---
fmt.Sprint(Str("x")), fmt.Sprintf("%v|%s", Str("y"), Str("z"))
===
type E struct{ code int }
func (e E) Error() string { return "E" + strconv.Itoa(e.code) }
func mayFail(n int) error { if n > 1 { return E{n} }; return nil }
---
mayFail(1) == nil, mayFail(2)
---
err := mayFail(3)
if e, ok := err.(E); ok { out(e.code) }
===
type T int
type U struct{}
func (U) Add(a, b int) int { return a + b }
type S struct { T; U }
---
var s S
s.Add(1, 2)
===
type MyInt int
func (m MyInt) Add(o MyInt) MyInt { return m + o + 100 }
---
MyInt(1).Add(2)
===
type L []int
func (l L) Len() int { return len(l) + 1000 }
---
L{1, 2}.Len()
===
type Lener interface { Len() int }
type L2 []int
---
var x interface{} = L2{1, 2}
_, ok := x.(Lener)
ok
===
type Num int
type Adder interface { Add(Num) Num }
---
var x interface{} = Num(3)
_, ok := x.(Adder)
ok
===
arr := [5]int{1, 2, 3, 4, 5}
sl := arr[1:4]
sl = append(sl, 99)
arr, sl, len(sl), cap(sl)
===
s := make([]int, 2, 10); s2 := append(s, 1); s3 := append(s, 2); s2[2], s3[2], copy(s, []int{7, 8, 9}), s
===
m := map[string]int{"a": 1, "b": 2}
m["c"] = 3; delete(m, "a")
v, ok := m["a"]
keys := []string{}
for k := range m { keys = append(keys, k) }
sort.Strings(keys)
v, ok, len(m), keys
===
mm := map[[2]int][]string{}
mm[[2]int{1, 2}] = append(mm[[2]int{1, 2}], "x", "y")
mm[[2]int{1, 2}], len(mm[[2]int{0, 0}])
===
type Node struct { v int; next *Node }
var head *Node
for i := 3; i > 0; i-- { head = &Node{i, head} }
t := 0
for n := head; n != nil; n = n.next { t = t*10 + n.v }
t
===
ch := make(chan int, 3)
ch <- 1; ch <- 2
close(ch)
a, ok1 := <-ch; b := <-ch; c, ok3 := <-ch
a, ok1, b, c, ok3, len(ch), cap(ch)
===
ch := make(chan string, 1)
select {
case ch <- "sent":
	out("send")
default:
	out("full")
}
select {
case v := <-ch:
	out("got", v)
default:
	out("empty")
}
select {
case v, ok := <-ch:
	out(v, ok)
default:
	out("empty again")
}
===
ch := make(chan int, 5)
for i := 0; i < 5; i++ { ch <- i * i }
close(ch)
t := 0
for v := range ch { t += v }
t
===
var np chan int
len(np), cap(np), np == nil
===
x := 1
ptr := &x
*ptr = 5
pp := &ptr
**pp += 1
x
===
type Pt struct{ x, y int }
ps := []*Pt{{1, 2}, {3, 4}}
ps[1].x = 9
*ps[0], *ps[1]
===
var iface interface{} = 42
n, ok := iface.(int); s, ok2 := iface.(string)
n, ok, s, ok2
===
var arr [3][2]int
arr[1][1] = 5; arr[2] = [2]int{7, 8}
arr, len(arr), len(arr[0])
===
b := []byte("hey"); b[0] = 'H'; r := []rune("añb")
string(b), len(r), string(r[1])
===
strings.ToUpper("abc") + strings.Repeat("-", 3) + strconv.Quote("q")
===
fmt.Sprintf("%d %s %v %+v %q %5.2f %x %t", 1, "s", []int{1}, struct{ A int }{2}, "q", 3.14159, 255, true)
===
const ( A = iota; B; C = "s"; D )
A, B, C, D
===
const big = 1 << 100
big >> 98
===
const fl = 1.0 / 3
fl * 3 == 1
===
var x int = 1<<63 - 1
x + 1 < 0
===
var h uint = 1; h << 63 >> 63, ^uint8(0), -7 / 2, -7 % 3, 7 &^ 5
===
x := 3.0; y := float32(0.1); x / 2, y + y + y, 1e100 * 1e100 > 1e300
===
c := complex(1, 2); real(c * c), imag(c * c), c == 1+2i
===
undefinedName + 1
---
out("after compile error")
===
x := 1

y := undefinedName2
===
var x int = "str"
===
func bad() int { return "s" }
---
out(1)
===
x := 1
/* a
   comment */ y := undefinedz
===
for i := 0; i < 2; i++ {
	out(i)
	undefinedInLoop(i)
}
===
type T struct { A int }
---
T{1}.B
===
x := 1; x := 2
---
x
===
var unused int
---
import "os"
---
os.PathSeparator
===
import m "math"
---
m.Sqrt(16), m.MaxInt8, m.Pi > 3
===
import "math/bits"
---
bits.OnesCount(255)
===
import ( "unicode"; "unicode/utf8" )
---
unicode.IsUpper('A'), utf8.RuneLen('é')
===
package main
---
out("pkg")
===
func main() { out("main called") }
---
main()
===
macro twice(a interface{}) interface{} { return ~quasiquote{~unquote{a}; ~unquote{a}} }
---
n := 0
---
twice; n++
---
n
===
macro m1(a interface{}) interface{} { return a }
---
m1; 3
===
macro add1(a interface{}) interface{} { return ~quasiquote{~unquote{a} + 1} }
---
add1; 41
===
macro mlist(a, b interface{}) interface{} { return ~quasiquote{[]int{~unquote{a}, ~unquote{b}}} }
---
mlist; 1; 2
===
srcof(~quote{x + 1})
===
srcof(~quasiquote{1 + ~unquote{~quote{y}}})
===
a := ~quote{z * 2}
srcof(~quasiquote{f(~unquote{a}, ~unquote{a})})
===
l := ~quote{p; q}
srcof(~quasiquote{{ ~unquote_splice{l}; r }})
===
z := 21
srcof(MacroExpand(~quote{z * 2}))
===
z := 21
Eval(~quote{z * 2})
===
func f(n int) int { "break"; return n + 1 }
---
f(1)
---
_ = "break"
f(2)
===
type Stack struct { items []int }
func (s *Stack) Push(v int) { s.items = append(s.items, v) }
func (s *Stack) Pop() int { n := len(s.items) - 1; v := s.items[n]; s.items = s.items[:n]; return v }
---
var st Stack
for i := 0; i < 4; i++ { st.Push(i * i) }
st.Pop() + st.Pop(), len(st.items)
===
type Tree struct { l, r *Tree; v int }
func (t *Tree) Insert(v int) *Tree { if t == nil { return &Tree{v: v} }; if v < t.v { t.l = t.l.Insert(v) } else { t.r = t.r.Insert(v) }; return t }
func (t *Tree) Walk(f func(int)) { if t == nil { return }; t.l.Walk(f); f(t.v); t.r.Walk(f) }
---
var root *Tree
for _, v := range []int{5, 2, 8, 1, 9, 3} { root = root.Insert(v) }
var res []int
root.Walk(func(v int) { res = append(res, v) })
res
===
type Celsius float64
type Temp interface { K() float64 }
func (c Celsius) K() float64 { return float64(c) + 273.15 }
---
var t Temp = Celsius(26.85)
t.K() == 300
===
type Animal interface { Sound() string }
type Dog struct{}; type Cat struct{}
func (Dog) Sound() string { return "woof" }
func (*Cat) Sound() string { return "meow" }
---
as := []Animal{Dog{}, &Cat{}, &Dog{}}
s := ""
for _, a := range as { s += a.Sound() }
s
===
type RW interface { R() int; W(int) }
type Cell struct{ v int }
func (c *Cell) R() int { return c.v }
func (c *Cell) W(v int) { c.v = v }
---
var rw RW = &Cell{}
rw.W(5); rw.W(rw.R() * 2); rw.R()
===
type Op func(int, int) int
ops := map[string]Op{"+": func(a, b int) int { return a + b }, "*": func(a, b int) int { return a * b }}
ops["+"](2, 3) * ops["*"](2, 3)
===
var once bool
get := func() int { if once { panic("twice") }; once = true; return 1 }
x := []int{get()}
x
===
x, y := 1, 2
x, y = y, x+y
a := []int{0, 0}; i := 0
i, a[i] = 1, 9
x, y, i, a
===
var z struct{ a int; b string; c []int; d map[int]int; e *int; f func(); g interface{}; h chan int }
z.a, z.b, z.c == nil, z.d == nil, z.e == nil, z.f == nil, z.g == nil, z.h == nil
===
func multi() (int, string, error) { return 1, "a", nil }
---
n, s, err := multi()
_, s2, _ := multi()
n, s, err, s2
===
func named() (x, y int) { x = 1; defer func() { y = x * 10 }(); x = 2; return x + 1, 0 }
---
named()
===
func variadic(pre string, xs ...interface{}) string { return pre + fmt.Sprint(len(xs)) + fmt.Sprint(xs...) }
---
variadic("p"), variadic("p", 1, "a", nil)
===
func gen(n int) func() (int, bool) { i := 0; return func() (int, bool) { if i >= n { return 0, false }; i++; return i * i, true } }
---
it := gen(3); t := 0
for v, ok := it(); ok; v, ok = it() { t += v }
t
===
func ack(m, n int) int { if m == 0 { return n + 1 }; if n == 0 { return ack(m-1, 1) }; return ack(m-1, ack(m, n-1)) }
---
ack(2, 3)
===
func isEven(n int) bool { if n == 0 { return true }; return isOdd(n - 1) }
func isOdd(n int) bool { if n == 0 { return false }; return isEven(n - 1) }
---
isEven(10), isOdd(7)
===
func deep(n int) int { if n == 0 { panic("bottom") }; return deep(n-1) + 1 }
func catch(n int) (r string) { defer func() { r = fmt.Sprint(recover()) }(); deep(n); return "none" }
---
catch(50)
===
func lp() (n int) { for i := 0; i < 3; i++ { func() { defer func() { recover(); n++ }(); panic(i) }() }; return }
---
lp()
===
type Matrix [2][2]int
func (m Matrix) Mul(o Matrix) (r Matrix) { for i := 0; i < 2; i++ { for j := 0; j < 2; j++ { for k := 0; k < 2; k++ { r[i][j] += m[i][k] * o[k][j] } } }; return }
---
f := Matrix{{1, 1}, {1, 0}}; r := f
for i := 0; i < 10; i++ { r = r.Mul(f) }
r[0][0]
===
words := strings.Fields("the quick brown fox jumps over the lazy dog the end")
cnt := map[string]int{}
for _, w := range words { cnt[w]++ }
cnt["the"], len(cnt)
===
primes := []int{}
for n := 2; len(primes) < 10; n++ { ok := true; for _, p := range primes { if n%p == 0 { ok = false; break } }; if ok { primes = append(primes, n) } }
primes
===
s := []int{5, 2, 8, 1}
sort.Slice(s, func(i, j int) bool { return s[i] < s[j] })
s
===
type byLen []string
func (b byLen) Len() int { return len(b) }
func (b byLen) Less(i, j int) bool { return len(b[i]) < len(b[j]) }
func (b byLen) Swap(i, j int) { b[i], b[j] = b[j], b[i] }
---
w := byLen{"ccc", "a", "bb"}
sort.Sort(w)
w
===
var sb strings.Builder
for i := 0; i < 3; i++ { fmt.Fprintf(&sb, "%d,", i) }
sb.String()
===
x := 5
func() { x := 10; x++; out(x) }()
{ x := 20; _ = x }
x
===
v := 1
if v := v + 1; v > 1 { out("inner", v) }
switch v := v * 10; v { case 10: out("ten") }
v
===
type Inner struct{ a int }
type Outer struct{ Inner; b int }
o := Outer{Inner{1}, 2}
o.a + o.b + o.Inner.a
===
type Color int
const ( Red Color = iota; Green; Blue )
func (c Color) String() string { return [...]string{"R", "G", "B"}[c] }
---
fmt.Sprint(Green), Blue, Red == 0
===
var ifn func(int) int
ifn = func(n int) int { if n <= 1 { return 1 }; return n * ifn(n-1) }
ifn(6)
===
out(len("héllo"), len([]rune("héllo")), "héllo"[1], "abc" < "abd", "a"+"b" == "ab")
===
out(1); out("two", 3); out([]int{4}); out(map[string]int{"k": 5}); out(struct{ X int }{6}); out(nil)
===
println
===
len
===
nil
===
x := []int{1,2,3}; x[1:2][0], x[:0], x[3:]
===
x := "hello"; x[1:3], x[4], len(x[5:])
===
defer out("deferred at top level")
out("body")
===
func r1() interface{} { return recover() }
---
r1()
===
a := 1
a++
a--
a += 2
a -= 1
a *= 3
a /= 2
a %= 5
a &= 6
a |= 1
a ^= 2
a <<= 3
a >>= 1
a &^= 4
a
===
t := true; f := false
t && f, t || f, !t, t != f, t == !f
===
var i1, i2 interface{} = 1, 1
var i3 interface{} = "1"
i1 == i2, i1 == i3, i1 != nil
===
type K struct{ a int; b string }
mk := map[K]int{{1, "x"}: 10}
mk[K{1, "x"}] + mk[K{2, "y"}]
===
func ret3() (a, b, c int) { return 1, 2, 3 }
func take3(a, b, c int) int { return a*100 + b*10 + c }
---
take3(ret3())
===
x := 0
inc := func() int { x++; return x }
a := []int{inc(), inc(), inc()}
m := map[int]int{inc(): inc()}
a, m, x
===
type F func() F
var cnt int
var self F
self = func() F { cnt++; return self }
self()()()
cnt
`

func c18corpus() [][]string {
	var out [][]string
	for _, p := range strings.Split(c18corpusText, "\n===\n") {
		p = strings.Trim(p, "\n")
		if p == "" {
			continue
		}
		out = append(out, strings.Split(p, "\n---\n"))
	}
	return out
}

// programs of the C05 generator (structured control flow), as source: declaration + call
func c18fromC05(r *rand.Rand, n int) [][]string {
	var ops []string
	sub := rand.New(rand.NewSource(r.Int63()))
	c05gen(sub, "quick", func(op string) {
		if strings.HasPrefix(op, "prog ") || strings.HasPrefix(op, "gosrc ") {
			ops = append(ops, op)
		}
	})
	sub.Shuffle(len(ops), func(i, j int) { ops[i], ops[j] = ops[j], ops[i] })
	var out [][]string
	for i := 0; i < len(ops) && len(out) < n; i++ {
		src := c05opSource(ops[i], "f")
		if src == "" {
			continue
		}
		out = append(out, []string{src, "f()"})
	}
	return out
}

// programs of the C07 generator (defer / panic / recover call trees), as source
func c18fromC07(r *rand.Rand, n int) [][]string {
	var out [][]string
	for i := 0; i < n; i++ {
		g := &c07gen{r: r, left: 6 + r.Intn(30)}
		body := g.bodyOf(2+r.Intn(4), false, 6)
		if len(body) == 0 {
			continue
		}
		decls, root := c07source(body, uint64(r.Intn(1000000)), "q_")
		out = append(out, []string{decls, root})
	}
	return out
}
