package main

// C20: macro expansion rewrites exactly the macro calls and leaves other code unchanged.
//
// op lines (self-contained, one S-expression table + one tree, see c20sx.go):
//
//	cw  (tbl (mac NAME ARITY RES...) ...) TREE     Comp.MacroExpandCodewalk
//	me  (tbl ...) TREE                             Comp.MacroExpand
//	me1 (tbl ...) TREE                             Comp.MacroExpand1
//	RES ::= (arg J) | (node TREE) | (list TREE...) | (none)
//
// The macros are declared in a real interpreter from generated source
// (`~macro NAME(a0, a1 interface{}) (interface{}, ...) { return K(3), a1 }`; constants come from the
// Go function K registered with DeclFunc), the input tree is rebuilt from its serialisation and handed
// to the exported Go API, the result is serialised back.
// Output: "ok <expanded:bool> TREE" or "err".
//
// Go-side oracle (independent of the Lean model and of ast2.Get/Set):
//   * macro-free input (no identifier of the tree names a macro): the result, read with reflection
//     over go/ast, must equal the input after deleting ParenExpr/ExprStmt/DeclStmt wrappers,
//     one-statement blocks that hold no declaration, and `~macro` block expressions     (Key identity-*)
//   * every input: code below a ~quote at quasiquote depth 0 comes out untouched     (Key quote-changed)
//   * every input: the expanded flag is false for macro-free input                   (Key flag-on-macrofree)
//   * every input: walking the result again expands nothing and changes nothing: no macro call
//     remains at any position that is expanded                                       (Key not-fixpoint)

import (
	"fmt"
	"go/ast"
	"go/token"
	"math/rand"
	"os"
	"reflect"
	"sort"
	"strings"

	"github.com/cosmos72/gomacro/ast2"
	"github.com/cosmos72/gomacro/fast"
	etoken "github.com/cosmos72/gomacro/go/etoken"
)

func init() {
	register(&Prop{
		ID:         "C20",
		Rule:       "random Go/gomacro source (all statement, expression, declaration and type forms, parentheses, nested blocks, quote/quasiquote/unquote to depth 3, macro calls with 0..3 arguments in statement, expression, identifier and case lists, macro names used as variables/fields/labels/parameters, macros returning node/list/block/nothing/their arguments/other macro calls, too few arguments) parsed with the fork's parser; plus declarations of gomacro's own source files; non-trivial = tree with at least one list and 8 nodes",
		Gen:        c20gen,
		Exec:       c20exec,
		Exhaustive: func(string) bool { return false },
	})
}

// ------------------------------------------------------------------ macro tables

type c20res struct {
	kind  string // arg node list none
	arg   int
	trees []string
}
type c20mac struct {
	name  string
	arity int
	res   []c20res
}

type c20env struct {
	ir     *fast.Interp
	consts [][]string // K(i) -> trees (one = node, several/zero with list flag = list)
	isList []bool
	macros map[string]*c20mac
}

var c20envs = map[string]*c20env{}

func c20parseTbl(n *sxNode) []*c20mac {
	if n.br != '(' || len(n.kids) == 0 || n.kids[0].atom != "tbl" {
		panic("bad table")
	}
	var out []*c20mac
	for _, m := range n.kids[1:] {
		if m.br != '(' || len(m.kids) < 3 || m.kids[0].atom != "mac" {
			panic("bad mac")
		}
		mc := &c20mac{name: m.kids[1].atom}
		fmt.Sscanf(m.kids[2].atom, "%d", &mc.arity)
		for _, r := range m.kids[3:] {
			if r.br != '(' || len(r.kids) == 0 {
				panic("bad res")
			}
			res := c20res{kind: r.kids[0].atom}
			switch res.kind {
			case "arg":
				fmt.Sscanf(r.kids[1].atom, "%d", &res.arg)
				if res.arg >= mc.arity {
					panic("bad arg index")
				}
			case "node":
				res.trees = []string{sxShow(r.kids[1])}
			case "list":
				for _, t := range r.kids[1:] {
					res.trees = append(res.trees, sxShow(t))
				}
			case "none":
			default:
				panic("bad res kind")
			}
			mc.res = append(mc.res, res)
		}
		out = append(out, mc)
	}
	return out
}

// sxShow prints a generic S-expression back
func sxShow(n *sxNode) string {
	if n.br == 0 {
		return n.atom
	}
	var sb strings.Builder
	sb.WriteByte(n.br)
	for i, k := range n.kids {
		if i > 0 {
			sb.WriteByte(' ')
		}
		sb.WriteString(sxShow(k))
	}
	if n.br == '(' {
		sb.WriteByte(')')
	} else {
		sb.WriteByte(']')
	}
	return sb.String()
}

func c20getEnv(tblText string, tbl []*c20mac) *c20env {
	if e := c20envs[tblText]; e != nil {
		return e
	}
	if len(c20envs) > 64 {
		c20envs = map[string]*c20env{}
	}
	e := &c20env{ir: newQuietInterp(), macros: map[string]*c20mac{}}
	e.ir.DeclFunc("K", func(i int) interface{} {
		if e.isList[i] {
			out := make([]ast.Node, 0, len(e.consts[i]))
			for _, t := range e.consts[i] {
				out = append(out, ast2.ToNode(sxParse(t)))
			}
			return out
		}
		return ast2.ToNode(sxParse(e.consts[i][0]))
	})
	for _, m := range tbl {
		var sb strings.Builder
		fmt.Fprintf(&sb, "~macro %s(", m.name)
		for j := 0; j < m.arity; j++ {
			if j > 0 {
				sb.WriteString(", ")
			}
			fmt.Fprintf(&sb, "a%d interface{}", j)
		}
		sb.WriteString(") (")
		for j := range m.res {
			if j > 0 {
				sb.WriteString(", ")
			}
			sb.WriteString("interface{}")
		}
		sb.WriteString(") { ")
		if len(m.res) > 0 {
			sb.WriteString("return ")
		}
		for j, r := range m.res {
			if j > 0 {
				sb.WriteString(", ")
			}
			switch r.kind {
			case "arg":
				fmt.Fprintf(&sb, "a%d", r.arg)
			case "none":
				sb.WriteString("nil")
			default:
				e.consts = append(e.consts, r.trees)
				e.isList = append(e.isList, r.kind == "list")
				fmt.Fprintf(&sb, "K(%d)", len(e.consts)-1)
			}
		}
		sb.WriteString(" }")
		if _, errt := evalSrc(e.ir, sb.String()); errt != "" {
			panic("macro declaration failed: " + errt + ": " + sb.String())
		}
		e.macros[m.name] = m
	}
	c20envs[tblText] = e
	return e
}

// ------------------------------------------------------------------ reflection skeleton (oracle side)

// sk is a wrapper-free picture of a go/ast tree built by reflection (no ast2 involved)
type sk struct {
	kind string // go/ast type name, "list", "nil"
	attr string
	kids []*sk
}

func (s *sk) String() string {
	if s == nil {
		return "nil"
	}
	var sb strings.Builder
	s.write(&sb)
	return sb.String()
}
func (s *sk) write(sb *strings.Builder) {
	sb.WriteByte('(')
	sb.WriteString(s.kind)
	if s.attr != "" {
		sb.WriteByte(' ')
		sb.WriteString(s.attr)
	}
	for _, k := range s.kids {
		sb.WriteByte(' ')
		k.write(sb)
	}
	sb.WriteByte(')')
}

var skNil = &sk{kind: "nil"}
var skEmpty = &sk{kind: "empty"}

var rtNode = reflect.TypeOf((*ast.Node)(nil)).Elem()
var rtPos = reflect.TypeOf(token.NoPos)

func skIsDeclish(n ast.Node) bool {
	switch n := n.(type) {
	case *ast.DeclStmt:
		return true
	case *ast.AssignStmt:
		return n.Tok == token.DEFINE
	}
	return false
}

func skQuoteOp(n ast.Node) (token.Token, *ast.BlockStmt) {
	if u, ok := n.(*ast.UnaryExpr); ok {
		switch u.Op {
		case etoken.MACRO, etoken.QUOTE, etoken.QUASIQUOTE, etoken.UNQUOTE, etoken.UNQUOTE_SPLICE:
			if f, ok := u.X.(*ast.FuncLit); ok {
				return u.Op, f.Body
			}
		}
	}
	return token.ILLEGAL, nil
}

// skOf: skeleton with the meaning-free wrappers removed:
// ParenExpr, ExprStmt, DeclStmt, one-statement blocks without declaration, ~macro{block} expressions;
// {} / ; / nil in expression position are the same "no value".
func skOf(n ast.Node) *sk {
	if n == nil || reflect.ValueOf(n).IsNil() {
		return skNil
	}
	switch x := n.(type) {
	case *ast.ParenExpr:
		return skOf(x.X)
	case *ast.ExprStmt:
		return skOf(x.X)
	case *ast.DeclStmt:
		return skOf(x.Decl)
	case *ast.EmptyStmt:
		return skEmpty
	case *ast.Ident:
		if x.Name == "nil" {
			return skEmpty
		}
	case *ast.BlockStmt:
		if len(x.List) == 0 {
			return skEmpty
		}
		if len(x.List) == 1 && !skIsDeclish(x.List[0]) {
			return skOf(x.List[0])
		}
	}
	if op, body := skQuoteOp(n); op == etoken.MACRO && body != nil {
		return skOf(body)
	}
	v := reflect.ValueOf(n).Elem()
	t := v.Type()
	s := &sk{kind: t.Name()}
	for i := 0; i < t.NumField(); i++ {
		f := v.Field(i)
		ft := t.Field(i)
		switch {
		case ft.Name == "Doc" || ft.Name == "Comment" || ft.Name == "Obj" || ft.Name == "Implicit" || ft.Name == "Incomplete" || ft.Name == "Slice3":
		case ft.Type == rtPos:
			if (t.Name() == "CallExpr" && ft.Name == "Ellipsis") || (t.Name() == "TypeSpec" && ft.Name == "Assign") {
				if f.Int() != 0 {
					s.attr += " " + ft.Name
				}
			}
		case f.Kind() == reflect.String:
			s.attr += " " + fmt.Sprintf("%q", f.String())
		case f.Kind() == reflect.Int:
			if ft.Name == "Dir" {
				s.attr += fmt.Sprintf(" dir%d", f.Int())
			} else {
				s.attr += " " + etoken.String(token.Token(f.Int()))
			}
		case f.Kind() == reflect.Bool:
		case f.Kind() == reflect.Slice:
			l := &sk{kind: "list"}
			for j := 0; j < f.Len(); j++ {
				e := f.Index(j)
				if e.Kind() == reflect.Interface || e.Kind() == reflect.Ptr {
					if e.IsNil() {
						l.kids = append(l.kids, skNil)
						continue
					}
				}
				l.kids = append(l.kids, skOf(e.Interface().(ast.Node)))
			}
			s.kids = append(s.kids, l)
		case f.Kind() == reflect.Interface || f.Kind() == reflect.Ptr:
			if f.IsNil() {
				s.kids = append(s.kids, skNil)
			} else if nn, ok := f.Interface().(ast.Node); ok {
				s.kids = append(s.kids, skOf(nn))
			}
		}
	}
	return s
}

func skOfAst(a ast2.Ast) *sk {
	if sxIsNil(a) {
		return skNil
	}
	if an, ok := a.(ast2.AstWithNode); ok {
		return skOf(an.Node())
	}
	l := &sk{kind: "list"}
	for i, n := 0, a.Size(); i < n; i++ {
		l.kids = append(l.kids, skOfAst(a.Get(i)))
	}
	return l
}

// c20names collects every identifier of a tree (reflection)
func c20names(n interface{}, out map[string]bool) {
	v := reflect.ValueOf(n)
	c20namesV(v, out)
}
func c20namesV(v reflect.Value, out map[string]bool) {
	switch v.Kind() {
	case reflect.Interface, reflect.Ptr:
		if v.IsNil() {
			return
		}
		if id, ok := v.Interface().(*ast.Ident); ok {
			out[id.Name] = true
			return
		}
		if _, ok := v.Interface().(*ast.Object); ok {
			return
		}
		if _, ok := v.Interface().(*ast.Scope); ok {
			return
		}
		c20namesV(v.Elem(), out)
	case reflect.Struct:
		for i := 0; i < v.NumField(); i++ {
			c20namesV(v.Field(i), out)
		}
	case reflect.Slice:
		for i := 0; i < v.Len(); i++ {
			c20namesV(v.Index(i), out)
		}
	}
}

func c20astNames(a ast2.Ast, out map[string]bool) {
	if sxIsNil(a) {
		return
	}
	if an, ok := a.(ast2.AstWithNode); ok {
		c20names(an.Node(), out)
		return
	}
	for i, n := 0, a.Size(); i < n; i++ {
		c20astNames(a.Get(i), out)
	}
}

// quotes at quasiquote depth 0, in pre-order, as printed skeletons of the raw (not wrapper-free) body
func c20quotes(n ast.Node, depth int, out *[]string) {
	if n == nil || reflect.ValueOf(n).IsNil() {
		return
	}
	if op, body := skQuoteOp(n); body != nil {
		switch op {
		case etoken.QUOTE:
			if depth == 0 {
				*out = append(*out, sxAst(ast2.ToAst(body)))
				return
			}
		case etoken.QUASIQUOTE:
			depth++
		case etoken.UNQUOTE, etoken.UNQUOTE_SPLICE:
			depth--
		}
		c20quotes(body, depth, out)
		return
	}
	v := reflect.ValueOf(n).Elem()
	for i := 0; i < v.NumField(); i++ {
		f := v.Field(i)
		switch f.Kind() {
		case reflect.Slice:
			for j := 0; j < f.Len(); j++ {
				if nn, ok := f.Index(j).Interface().(ast.Node); ok {
					c20quotes(nn, depth, out)
				}
			}
		case reflect.Interface, reflect.Ptr:
			if !f.IsNil() {
				if nn, ok := f.Interface().(ast.Node); ok {
					if _, isObj := f.Interface().(*ast.Object); !isObj {
						c20quotes(nn, depth, out)
					}
				}
			}
		}
	}
}

// c20leftover: in a walked tree no element of any list at quasiquote depth <= 0 (outside ~quote)
// may still be a macro name: it would be a macro call that was not expanded (with enough following
// elements) or an error that was not raised (too few).  Returns the first offending name.
func c20leftover(n ast.Node, depth int, macros map[string]*c20mac) string {
	if n == nil || reflect.ValueOf(n).IsNil() {
		return ""
	}
	if op, body := skQuoteOp(n); body != nil {
		switch op {
		case etoken.QUOTE:
			if depth == 0 {
				return ""
			}
		case etoken.QUASIQUOTE:
			depth++
		case etoken.UNQUOTE, etoken.UNQUOTE_SPLICE:
			depth--
		}
		return c20leftover(body, depth, macros)
	}
	v := reflect.ValueOf(n).Elem()
	for i := 0; i < v.NumField(); i++ {
		f := v.Field(i)
		switch f.Kind() {
		case reflect.Slice:
			for j := 0; j < f.Len(); j++ {
				nn, ok := f.Index(j).Interface().(ast.Node)
				if !ok {
					continue
				}
				if depth <= 0 {
					if name := c20headName(nn); name != "" && macros[name] != nil {
						return name
					}
				}
				if r := c20leftover(nn, depth, macros); r != "" {
					return r
				}
			}
		case reflect.Interface, reflect.Ptr:
			if !f.IsNil() {
				if nn, ok := f.Interface().(ast.Node); ok {
					if _, isObj := f.Interface().(*ast.Object); !isObj {
						if r := c20leftover(nn, depth, macros); r != "" {
							return r
						}
					}
				}
			}
		}
	}
	return ""
}

// the identifier a list element is, after removing trivial wrappers
func c20headName(n ast.Node) string {
	for {
		if n == nil || reflect.ValueOf(n).IsNil() {
			return ""
		}
		switch x := n.(type) {
		case *ast.ParenExpr:
			n = x.X
		case *ast.ExprStmt:
			n = x.X
		case *ast.DeclStmt:
			n = x.Decl
		case *ast.BlockStmt:
			if len(x.List) != 1 || skIsDeclish(x.List[0]) {
				return ""
			}
			n = x.List[0]
		case *ast.Ident:
			return x.Name
		default:
			return ""
		}
	}
}

func c20astLeftover(a ast2.Ast, macros map[string]*c20mac) string {
	if sxIsNil(a) {
		return ""
	}
	if an, ok := a.(ast2.AstWithNode); ok {
		return c20leftover(an.Node(), 0, macros)
	}
	for i, n := 0, a.Size(); i < n; i++ {
		e := a.Get(i)
		if sxIsNil(e) {
			continue
		}
		if en, ok := e.(ast2.AstWithNode); ok {
			if name := c20headName(en.Node()); name != "" && macros[name] != nil {
				return name
			}
		}
		if r := c20astLeftover(e, macros); r != "" {
			return r
		}
	}
	return ""
}

func c20astQuotes(a ast2.Ast, out *[]string) {
	if sxIsNil(a) {
		return
	}
	if an, ok := a.(ast2.AstWithNode); ok {
		c20quotes(an.Node(), 0, out)
		return
	}
	for i, n := 0, a.Size(); i < n; i++ {
		c20astQuotes(a.Get(i), out)
	}
}

// ------------------------------------------------------------------ exec

func c20exec(op string) Result {
	f, rest, _ := strings.Cut(op, " ")
	var parts []*sxNode
	func() {
		defer func() {
			if recover() != nil {
				parts = nil
			}
		}()
		parts = sxReadAll(rest)
	}()
	if len(parts) != 2 || (f != "cw" && f != "me" && f != "me1") {
		return Result{Out: "bad-op", Tags: []string{"bad-op"}}
	}
	var tbl []*c20mac
	var in ast2.Ast
	bad := false
	func() {
		defer func() {
			if recover() != nil {
				bad = true
			}
		}()
		tbl = c20parseTbl(parts[0])
		in = sxBuild(parts[1])
	}()
	if bad {
		return Result{Out: "bad-op", Tags: []string{"bad-op"}}
	}
	inText := sxShow(parts[1])
	tags := []string{f}
	if back := sxAst(in); back != inText {
		// the serialisation does not describe a tree the ast2 constructors build as written
		// (ill-typed input of the malformed stream): still a legal input for both sides
		tags = append(tags, "input-renormalised")
		inText = back
		in = sxParse(back)
		if sxAst(in) != back {
			return Result{Out: "bad-op", Tags: []string{"bad-op"}}
		}
	}
	env := c20getEnv(sxShow(parts[0]), tbl)

	names := map[string]bool{}
	c20astNames(in, names)
	macroFree := true
	for n := range names {
		if env.macros[n] != nil {
			macroFree = false
		}
	}
	inSk := skOfAst(in).String()
	var inQuotes []string
	c20astQuotes(in, &inQuotes)

	var out ast2.Ast
	var expanded bool
	errText := ""
	func() {
		defer func() {
			if e := recover(); e != nil {
				errText = fmt.Sprint(e)
			}
		}()
		c := env.ir.Comp
		switch f {
		case "cw":
			out, expanded = c.MacroExpandCodewalk(in)
		case "me":
			out, expanded = c.MacroExpand(in)
		case "me1":
			out, expanded = c.MacroExpand1(in)
		}
	}()
	res := Result{Tags: tags, Nontrivial: sxCount(inText) >= 8 && strings.Contains(inText, "[")}
	if macroFree {
		res.Tags = append(res.Tags, "macro-free")
	} else {
		res.Tags = append(res.Tags, "macros")
	}
	if errText != "" {
		res.Out = "err"
		switch {
		case strings.Contains(errText, "not enough arguments"):
			res.Tags = append(res.Tags, "err-not-enough-args")
		case strings.Contains(errText, "cannot convert"), strings.Contains(errText, "unimplemented conversion"):
			res.Tags = append(res.Tags, "err-conversion")
		default:
			res.Tags = append(res.Tags, "err-other")
		}
		if macroFree && sxAst(in) == inText && !strings.Contains(strings.Join(tags, " "), "input-renormalised") {
			res.Viol = "macro expansion of macro-free code failed: " + truncate(errText, 200)
			res.Key = "identity-error"
		}
		return res
	}
	outText := sxAst(out)
	res.Out = fmt.Sprintf("ok %v %s", expanded, outText)
	if expanded {
		res.Tags = append(res.Tags, "expanded")
	}
	if len(inQuotes) > 0 {
		res.Tags = append(res.Tags, "has-quote")
	}
	if strings.Contains(inText, "~quasiquote") {
		res.Tags = append(res.Tags, "has-quasiquote")
	}
	if strings.Contains(inText, "~unquote") {
		res.Tags = append(res.Tags, "has-unquote")
	}
	// the input must not have been modified in place
	if sxAst(in) != inText {
		res.Viol = "the input tree was modified in place"
		res.Key = "input-mutated"
		return res
	}
	if f == "cw" {
		if macroFree {
			if expanded {
				res.Viol = "expanded flag set on macro-free code"
				res.Key = "flag-on-macrofree"
				return res
			}
			if outSk := skOfAst(out).String(); outSk != inSk {
				res.Viol = "macro-free code changed: " + truncate(inSk, 300) + " => " + truncate(outSk, 300)
				res.Key = "identity-" + c20diffKind(inSk, outSk)
				return res
			}
		}
		// quotes at depth 0 survive untouched, in order, unless a macro consumed or produced them
		if macroFree {
			var outQuotes []string
			c20astQuotes(out, &outQuotes)
			if strings.Join(inQuotes, "\x00") != strings.Join(outQuotes, "\x00") {
				res.Viol = "code inside ~quote changed"
				res.Key = "quote-changed"
				return res
			}
		}
		if !macroFree {
			if name := c20astLeftover(out, env.macros); name != "" {
				res.Viol = "macro call " + name + " left unexpanded in a list that is expanded: " + truncate(outText, 400)
				res.Key = "call-left-unexpanded"
				return res
			}
			if !expanded {
				if outSk := skOfAst(out).String(); outSk != inSk {
					res.Viol = "expanded flag is false but the code changed: " + truncate(inSk, 200) + " => " + truncate(outSk, 200)
					res.Key = "flag-false-but-changed"
					return res
				}
			}
		}
		// expansion ran to a fixpoint: a second walk finds nothing to do
		var out2 ast2.Ast
		var exp2 bool
		err2 := ""
		func() {
			defer func() {
				if e := recover(); e != nil {
					err2 = fmt.Sprint(e)
				}
			}()
			out2, exp2 = env.ir.Comp.MacroExpandCodewalk(out)
		}()
		if err2 != "" {
			res.Tags = append(res.Tags, "rewalk-error")
		} else if exp2 {
			res.Viol = "a second walk of the result still expands a macro call: " + truncate(outText, 300)
			res.Key = "not-fixpoint"
			return res
		} else if a, b := skOfAst(out).String(), skOfAst(out2).String(); a != b {
			res.Viol = "a second walk of the result changes it: " + truncate(a, 200) + " => " + truncate(b, 200)
			res.Key = "rewalk-" + c20diffKind(a, b)
			return res
		}
	}
	return res
}

// first node kind at which two printed skeletons differ
func c20diffKind(a, b string) string {
	i := 0
	for i < len(a) && i < len(b) && a[i] == b[i] {
		i++
	}
	j := strings.LastIndexByte(a[:i], '(')
	if j < 0 {
		return "top"
	}
	k := j + 1
	for k < len(a) && a[k] != ' ' && a[k] != ')' {
		k++
	}
	return a[j+1 : k]
}

// ------------------------------------------------------------------ generator (source text)

type c20g struct {
	r      *rand.Rand
	macros []string // macro names that may be sprinkled in
	arity  map[string]int
	pMacro float64
	pQuote float64
	depth  int
	uqNode []string // C21: operands of ~unquote are these variable names
	uqList []string // C21: operands of ~unquote_splice
}

var c20vars = []string{"a", "b", "c", "x", "y", "z", "f", "g", "n", "s", "v", "w"}
var c20types = []string{"int", "string", "T", "float64", "[]int", "map[string]int", "*T", "chan int", "func(int) int",
	"struct{ A int; B string }", "interface{ M() int }", "[3]int", "<-chan int", "chan<- string", "interface{}", "[]*T", "func(...int)"}

func (g *c20g) pick(xs []string) string { return xs[g.r.Intn(len(xs))] }
func (g *c20g) ident() string {
	if len(g.macros) > 0 && g.r.Float64() < g.pMacro/2 {
		return g.pick(g.macros)
	}
	return g.pick(c20vars)
}

func (g *c20g) expr(d int) string {
	if d <= 0 || g.r.Intn(5) == 0 {
		switch g.r.Intn(6) {
		case 0:
			return fmt.Sprint(g.r.Intn(100))
		case 1:
			return fmt.Sprintf("%q", g.pick([]string{"s", "a b", "(x)", "", "~quote"}))
		case 2:
			return g.pick([]string{"1.5", "'c'", "2i", "nil", "true"})
		}
		return g.ident()
	}
	d--
	switch g.r.Intn(22) {
	case 0, 1:
		return g.expr(d) + " " + g.pick([]string{"+", "-", "*", "/", "==", "<", "&&", "||", "&^", "<<", "%", "!="}) + " " + g.expr(d)
	case 2, 3:
		return "(" + g.expr(d) + ")"
	case 4:
		return "((" + g.expr(d) + "))"
	case 5:
		return g.pick([]string{"-", "!", "^", "&", "*", "<-", "+"}) + g.expr(d)
	case 6, 7:
		return g.ident() + "(" + g.exprList(d, 0, 3) + ")"
	case 8:
		return g.expr(d) + "[" + g.expr(d) + "]"
	case 9:
		switch g.r.Intn(4) {
		case 0:
			return g.ident() + "[" + g.expr(d) + ":" + g.expr(d) + "]"
		case 1:
			return g.ident() + "[:" + g.expr(d) + "]"
		case 2:
			return g.ident() + "[" + g.expr(d) + ":]"
		}
		return g.ident() + "[" + g.expr(d) + ":" + g.expr(d) + ":" + g.expr(d) + "]"
	case 10:
		return g.ident() + "." + g.ident()
	case 11:
		return g.ident() + ".(" + g.typ(d) + ")"
	case 12:
		return g.pick([]string{"[]int", "T", "map[string]int", "[...]string", "struct{ A, B int }"}) + "{" + g.litElems(d) + "}"
	case 13:
		return "func(" + g.params(d) + ") " + g.pick([]string{"", "int ", "(int, string) ", "(r int) "}) + g.block(d)
	case 14:
		return g.ident() + "(" + g.exprList(d, 1, 2) + "...)"
	case 15:
		return g.quote(d)
	case 16:
		return "(" + g.typ(d) + ")(" + g.expr(d) + ")"
	case 17:
		return "(" + g.expr(d) + ")." + g.ident() + "(" + g.exprList(d, 0, 2) + ")"
	case 18:
		return "{" + g.stmts(d, 0, 3) + "}" // block used as expression (fork syntax)
	}
	return g.ident()
}

func (g *c20g) exprList(d, lo, hi int) string {
	n := lo + g.r.Intn(hi-lo+1)
	var xs []string
	for i := 0; i < n; i++ {
		xs = append(xs, g.expr(d))
	}
	if len(g.macros) > 0 && g.r.Float64() < g.pMacro/3 {
		// a macro name inside an expression list, followed by enough (or too few) expressions
		m := g.pick(g.macros)
		k := g.arity[m]
		if g.r.Intn(8) == 0 && k > 0 {
			k--
		}
		call := []string{m}
		for i := 0; i < k; i++ {
			call = append(call, g.expr(d))
		}
		p := g.r.Intn(len(xs) + 1)
		xs = append(xs[:p:p], append(call, xs[p:]...)...)
	}
	return strings.Join(xs, ", ")
}

func (g *c20g) litElems(d int) string {
	n := g.r.Intn(4)
	var xs []string
	kv := g.r.Intn(2) == 0
	for i := 0; i < n; i++ {
		if kv {
			xs = append(xs, g.expr(0)+": "+g.expr(d))
		} else {
			xs = append(xs, g.expr(d))
		}
	}
	return strings.Join(xs, ", ")
}

func (g *c20g) typ(d int) string {
	if d <= 0 || g.r.Intn(3) > 0 {
		return g.pick(c20types)
	}
	d--
	switch g.r.Intn(7) {
	case 0:
		return "[]" + g.typ(d)
	case 1:
		return "map[" + g.typ(d) + "]" + g.typ(d)
	case 2:
		return "*" + g.typ(d)
	case 3:
		return "func(" + g.params(d) + ") " + g.typ(d)
	case 4:
		return "struct{ " + g.ident() + " " + g.typ(d) + "; " + g.ident() + ", " + g.ident() + " " + g.typ(d) + " `tag`; T }"
	case 5:
		return "interface{ " + g.ident() + "(" + g.params(d) + ") " + g.typ(d) + "; T }"
	}
	return "[" + g.expr(0) + "]" + g.typ(d)
}

func (g *c20g) params(d int) string {
	n := g.r.Intn(3)
	var xs []string
	for i := 0; i < n; i++ {
		switch g.r.Intn(3) {
		case 0:
			xs = append(xs, g.ident()+" "+g.typ(d))
		case 1:
			xs = append(xs, g.ident()+", "+g.ident()+" "+g.typ(d))
		default:
			xs = append(xs, g.ident()+" ..."+g.typ(d))
			return strings.Join(xs, ", ")
		}
	}
	return strings.Join(xs, ", ")
}

func (g *c20g) quote(d int) string {
	switch g.r.Intn(9) {
	case 0, 1:
		return "~quote{" + g.stmts(d, 0, 3) + "}"
	case 2, 3:
		g.depth++
		s := "~quasiquote{" + g.stmts(d, 0, 3) + "}"
		g.depth--
		return s
	case 4, 5:
		if g.depth > 0 || g.r.Intn(6) == 0 {
			if g.uqNode != nil {
				return g.unquoteVar("~unquote", g.uqNode)
			}
			g.depth--
			s := "~unquote{" + g.stmts(d, 1, 2) + "}"
			g.depth++
			return s
		}
		return "~quote{" + g.expr(d) + "}"
	case 6:
		if g.depth > 0 || g.r.Intn(6) == 0 {
			if g.uqNode != nil {
				return g.unquoteVar("~unquote_splice", g.uqList)
			}
			g.depth--
			s := "~unquote_splice{" + g.stmts(d, 1, 2) + "}"
			g.depth++
			return s
		}
		return "~quasiquote{" + g.expr(d) + "}"
	case 7:
		return g.pick([]string{"~quote", "~quasiquote"}) + " " + g.pick([]string{"x", "7", "\"s\""})
	}
	if g.uqNode != nil {
		g.depth++
		s := "~quasiquote{" + g.stmts(d, 1, 2) + "; " + g.unquoteVar("~unquote", g.uqNode) + "}"
		g.depth--
		return s
	}
	return "~quasiquote{~quasiquote{" + g.stmts(d, 1, 2) + "; ~unquote{~unquote{" + g.expr(d) + "}}}}"
}

// C21: an unquote chain as long as the current quasiquote depth (sometimes shorter), ending in a variable;
// the innermost operator is the given one, the outer ones are ~unquote
func (g *c20g) unquoteVar(inner string, vars []string) string {
	n := g.depth
	if n < 1 {
		n = 1
	}
	if n > 1 && g.r.Intn(4) == 0 {
		n--
	}
	s := inner + "{" + g.pick(vars) + "}"
	for i := 1; i < n; i++ {
		if g.r.Intn(5) == 0 {
			s = "~unquote_splice{" + s + "}"
		} else {
			s = "~unquote{" + s + "}"
		}
	}
	return s
}

func (g *c20g) block(d int) string { return "{ " + g.stmts(d, 0, 3) + " }" }

func (g *c20g) macroCall(d int) string {
	m := g.pick(g.macros)
	k := g.arity[m]
	if g.r.Intn(10) == 0 && k > 0 {
		k-- // too few arguments (only an error when the list ends here)
	}
	parts := []string{m}
	for i := 0; i < k; i++ {
		switch g.r.Intn(5) {
		case 0:
			parts = append(parts, g.block(d))
		case 1:
			parts = append(parts, g.stmt(d))
		default:
			parts = append(parts, g.expr(d))
		}
	}
	return strings.Join(parts, "; ")
}

func (g *c20g) stmts(d, lo, hi int) string {
	n := lo + g.r.Intn(hi-lo+1)
	var xs []string
	for i := 0; i < n; i++ {
		if len(g.macros) > 0 && g.r.Float64() < g.pMacro {
			xs = append(xs, g.macroCall(d))
		} else {
			xs = append(xs, g.stmt(d))
		}
	}
	return strings.Join(xs, "; ")
}

func (g *c20g) stmt(d int) string {
	if d <= 0 {
		switch g.r.Intn(4) {
		case 0:
			return g.ident() + " = " + g.expr(0)
		case 1:
			return g.ident() + "++"
		}
		return g.expr(0)
	}
	d--
	if g.r.Float64() < g.pQuote {
		return g.quote(d)
	}
	switch g.r.Intn(30) {
	case 0:
		return g.ident() + ", " + g.ident() + " = " + g.expr(d) + ", " + g.expr(d)
	case 1:
		return g.ident() + " := " + g.expr(d)
	case 2:
		return g.ident() + " " + g.pick([]string{"+=", "-=", "<<=", "&^="}) + " " + g.expr(d)
	case 3:
		return "if " + g.expr(d) + " " + g.block(d)
	case 4:
		return "if " + g.ident() + " := " + g.expr(d) + "; " + g.expr(d) + " " + g.block(d) + " else " + g.block(d)
	case 5:
		return "if " + g.expr(d) + " " + g.block(d) + " else if " + g.expr(d) + " " + g.block(d) + " else " + g.block(d)
	case 6:
		return "for " + g.ident() + " := 0; " + g.expr(d) + "; " + g.ident() + "++ " + g.block(d)
	case 7:
		return "for " + g.pick([]string{"", g.expr(d) + " "}) + g.block(d)
	case 8:
		return "for " + g.pick([]string{"k, v := ", "k := ", "_, v = ", ""}) + "range " + g.expr(d) + " " + g.block(d)
	case 9:
		return "switch " + g.pick([]string{"", g.expr(d) + " ", "x := " + g.expr(d) + "; x "}) + "{ case " + g.exprList(d, 1, 2) + ": " + g.stmts(d, 0, 2) + "; default: " + g.stmts(d, 0, 2) + " }"
	case 10:
		return "switch " + g.pick([]string{"y := ", ""}) + g.ident() + ".(type) { case " + g.typ(d) + ", " + g.typ(d) + ": " + g.stmts(d, 0, 2) + "; default: }"
	case 11:
		return "select { case " + g.ident() + " := <-" + g.ident() + ": " + g.stmts(d, 0, 2) + "; case " + g.ident() + " <- " + g.expr(d) + ": ; default: " + g.stmts(d, 0, 1) + " }"
	case 12:
		return "go " + g.ident() + "(" + g.exprList(d, 0, 2) + ")"
	case 13:
		return "defer " + g.ident() + "." + g.ident() + "(" + g.exprList(d, 0, 2) + ")"
	case 14:
		return "return " + g.exprList(d, 0, 3)
	case 15:
		return g.pick([]string{"break", "continue", "goto L", "fallthrough", "break L"})
	case 16:
		return "L: " + g.stmt(d)
	case 17:
		return g.block(d)
	case 18:
		return "{ " + g.stmt(d) + " }" // one-statement block
	case 19:
		return "var " + g.ident() + pickS(g.r, " int", " "+g.typ(d), "") + " = " + g.expr(d)
	case 20:
		return "var " + g.ident() + ", " + g.ident() + " " + g.typ(d)
	case 21:
		return "const ( " + g.ident() + " = iota; " + g.ident() + "; " + g.ident() + " " + g.typ(0) + " = " + g.expr(d) + " )"
	case 22:
		return "type " + g.pick([]string{"T", "U"}) + pickS(g.r, " ", " = ") + g.typ(d)
	case 23:
		return g.ident() + " <- " + g.expr(d)
	case 24:
		return g.ident() + g.pick([]string{"++", "--"})
	case 25:
		return ";"
	case 26:
		return "{ " + g.ident() + " := " + g.expr(d) + " }" // declaration block: must be kept
	case 27:
		return "{ var " + g.ident() + " = " + g.expr(d) + " }"
	}
	return g.expr(d)
}

func pickS(r *rand.Rand, xs ...string) string { return xs[r.Intn(len(xs))] }

func (g *c20g) decl(d int) string {
	switch g.r.Intn(6) {
	case 0:
		return "func " + g.ident() + "(" + g.params(d) + ") " + pickS(g.r, "", "int ", "(int, error) ") + g.block(d)
	case 1:
		return "func (" + g.ident() + " *T) " + g.ident() + "(" + g.params(d) + ") " + g.block(d)
	case 2:
		return "import ( \"fmt\"; m \"math\" )"
	case 3:
		return "var ( " + g.ident() + " = " + g.expr(d) + "; " + g.ident() + ", " + g.ident() + " int )"
	case 4:
		return "type ( T " + g.typ(d) + "; U = " + g.typ(d) + " )"
	}
	return "func " + g.ident() + "(" + g.params(d) + ")"
}

func (g *c20g) program(d int) string {
	n := 1 + g.r.Intn(3)
	var xs []string
	for i := 0; i < n; i++ {
		switch g.r.Intn(4) {
		case 0:
			xs = append(xs, g.decl(d))
		default:
			xs = append(xs, g.stmts(d, 1, 3))
		}
	}
	return strings.Join(xs, "\n")
}

// c20parse parses source text with the fork's parser; nil on error
func c20parse(ir *fast.Interp, src string) (out ast2.Ast) {
	defer func() {
		if recover() != nil {
			out = nil
		}
	}()
	ir.Comp.Globals.Line = 0
	nodes := ir.Comp.ParseBytes([]byte(src))
	if len(nodes) == 0 {
		return nil
	}
	if len(nodes) == 1 {
		return ast2.ToAst(nodes[0])
	}
	return ast2.NodeSlice{X: nodes}
}

var c20fixedSrc = []string{
	"(a+b)*c", "((x))", "{ x }", "{ x := 1 }", "{ var x = 1 }", "{ { a; b } }", "{ L: x := 1 }",
	"if (a) { (b) } else { c }", "f((a), (b)...)", "x = {}", "x = { ; }", "x = { a; b }", "x = { y }",
	"~quote{m1; a; b}", "~quasiquote{m1; ~unquote{m1; a}; b}", "~quasiquote{~quote{m0}; ~unquote{~quote{m0}}}",
	"~quasiquote{~quasiquote{~unquote{~unquote{m0}}; ~unquote{m0}}}", "~quote x", "~quasiquote 7",
	"m0", "m1; a", "m2; a; b", "m3; a; b; c", "m2; a", "m1; m1; a", "m1; {m1; a}", "{m2; a; b}; c",
	"f(m1, a, b)", "var m0, a int", "m0 := 1", "x.m0", "m0: for { break m0 }", "func f(m1 int) { m1; x }",
	"switch { case m1, a: m0; default: m2; a; b }", "return m1, a", "func m0() {}", "[]int{m1, 2, 3}",
	"type S struct { m0, a int }", "for m0; m1; a { }", "go m0(m1, a)", "a; m0; b", "m0; m0; m0",
	"~quasiquote{a; ~unquote_splice{m2; x; y}; ~unquote{~quasiquote{m0; ~unquote{m0}}}}",
	"{ m0 }", "func f() { m0 }", "if a { m0 } else { m0 }", "for { m0 }", "{ { m0; y } }", "if a { { m1; x } }",
	"{ { m1; { { m0; y } } } }", "func f() { { { m0 } } }", "~quasiquote{~unquote{m0}}", "~quasiquote{~unquote{m1; ~quasiquote{x}}}",
	"x = { m0 }", "x = { m1; ~quasiquote{y} }", "switch { case a: m0 }", "{ (m0) }", "{ x := m0 }", "{ var m0 = 1 }",
}

func c20tables(r *rand.Rand, ir *fast.Interp) []string {
	mk := func(src string) string {
		a := c20parse(ir, src)
		if a == nil {
			panic("c20: cannot parse constant " + src)
		}
		return sxAst(a)
	}
	// Termination of the real expander (it has no step limit): every macro uses each argument at most
	// once and its constants mention only macros of smaller index.
	type kc struct {
		src  string
		rank int // largest macro index mentioned, -1 if none
	}
	consts := []kc{{"x", -1}, {"1+2", -1}, {"{ a; b }", -1}, {"{ c }", -1}, {"f(x)", -1}, {"x := 1", -1}, {"var v int", -1},
		{"if a { b }", -1}, {"{}", -1}, {";", -1}, {"~quote{m0}", -1}, {"return 1, 2", -1}, {"(y)", -1}, {"m0", 0}, {"m1; q", 1},
		{"{ m2; p; q }", 2}, {"~quasiquote{~unquote{m0}}", 0}, {"func g() {}", -1}, {"{ m0 }", 0}, {"~quasiquote{z}", -1},
		{"~quasiquote{~unquote{m1; ~quote{u}}}", 1}, {"{ x := 1 }", -1}, {"m0; m0", 0}}
	pickConst := func(k int) string {
		for {
			c := consts[r.Intn(len(consts))]
			if c.rank < k {
				return mk(c.src)
			}
		}
	}
	// several top-level nodes are a list result, one node a node result
	nodeRes := func(t string) string {
		if strings.HasPrefix(t, "[NodeSlice z - n") {
			return "(list" + strings.TrimSuffix(strings.TrimPrefix(t, "[NodeSlice z - n"), "]") + ")"
		}
		return "(node " + t + ")"
	}
	listRes := func(ts []string) string {
		var sb strings.Builder
		sb.WriteString("(list")
		for _, t := range ts {
			if strings.HasPrefix(t, "[NodeSlice z - n") {
				sb.WriteString(strings.TrimSuffix(strings.TrimPrefix(t, "[NodeSlice z - n"), "]"))
			} else {
				sb.WriteString(" " + t)
			}
		}
		sb.WriteString(")")
		return sb.String()
	}
	tbls := []string{"(tbl)"}
	// fixed table: m<k> has arity k
	tbls = append(tbls, "(tbl (mac m0 0 (node "+mk("z")+")) (mac m1 1 (arg 0)) (mac m2 2 (arg 1) (arg 0)) (mac m3 3 (list "+mk("p")+" "+mk("q+1")+") (arg 2)))")
	tbls = append(tbls, "(tbl (mac m0 0) (mac m1 1 (none)) (mac m2 2 (node "+mk("{ a; b }")+")) (mac m3 3 "+nodeRes(mk("m1; w"))+" (arg 0)))")
	tbls = append(tbls, "(tbl (mac m0 0 (node "+mk("~quasiquote{z}")+")) (mac m1 1 (node "+mk("m0")+")) (mac m2 2 (arg 0)) (mac m3 3 (node "+mk("{ m0 }")+") (arg 1)))")
	for i := 0; i < 6; i++ {
		var sb strings.Builder
		sb.WriteString("(tbl")
		for k := 0; k <= 3; k++ {
			if r.Intn(5) == 0 {
				continue // name not a macro in this table
			}
			fmt.Fprintf(&sb, " (mac m%d %d", k, k)
			nres := r.Intn(3)
			if r.Intn(3) == 0 {
				nres = 1
			}
			used := map[int]bool{}
			for j := 0; j < nres; j++ {
				switch c := r.Intn(8); {
				case c < 3 && k > 0:
					a := r.Intn(k)
					if used[a] {
						sb.WriteString(" (none)")
					} else {
						used[a] = true
						fmt.Fprintf(&sb, " (arg %d)", a)
					}
				case c < 5:
					sb.WriteString(" " + nodeRes(pickConst(k)))
				case c < 6:
					var ts []string
					for n := r.Intn(3); n > 0; n-- {
						ts = append(ts, pickConst(k))
					}
					sb.WriteString(" " + listRes(ts))
				case c < 7:
					sb.WriteString(" (none)")
				default:
					sb.WriteString(" " + nodeRes(pickConst(k)))
				}
			}
			sb.WriteString(")")
		}
		sb.WriteString(")")
		tbls = append(tbls, sb.String())
	}
	return tbls
}

func c20gen(r *rand.Rand, tier string, emit func(string)) {
	ir := newQuietInterp()
	tbls := c20tables(r, ir)
	scale := 1
	if tier == "thorough" {
		scale = 12
	}
	seen := map[string]bool{}
	put := func(op, tbl string, a ast2.Ast) {
		if a == nil {
			return
		}
		t := sxAst(a)
		if n := sxCount(t); n > 700 {
			return
		}
		line := op + " " + tbl + " " + t
		if !seen[line] {
			seen[line] = true
			emit(line)
		}
	}
	// 1. fixed shapes against every table, all three entry points
	for _, src := range c20fixedSrc {
		a := c20parse(ir, src)
		for i, tbl := range tbls {
			put("cw", tbl, a)
			if i < 4 {
				put("me", tbl, a)
				put("me1", tbl, a)
			}
		}
	}
	// 2. macro-free: declarations of gomacro's own sources (all node kinds the project itself uses)
	files := c20sourceFiles()
	nfiles := 6 * scale
	for i := 0; i < nfiles && len(files) > 0; i++ {
		f := files[r.Intn(len(files))]
		for _, a := range c20fileDecls(ir, f) {
			if r.Intn(3) == 0 {
				put("cw", tbls[r.Intn(2)], a)
			}
		}
	}
	// 3. random source, macro-free tables and macro tables
	for i := 0; i < 700*scale; i++ {
		g := &c20g{r: r, arity: map[string]int{"m0": 0, "m1": 1, "m2": 2, "m3": 3}}
		tbl := tbls[r.Intn(len(tbls))]
		switch r.Intn(4) {
		case 0: // no macro names in the text at all
			g.pQuote = 0.1
		default:
			g.macros = []string{"m0", "m1", "m2", "m3"}
			g.pMacro = []float64{0.08, 0.2, 0.4}[r.Intn(3)]
			g.pQuote = []float64{0.05, 0.25}[r.Intn(2)]
		}
		src := g.program(1 + r.Intn(4))
		a := c20parse(ir, src)
		op := "cw"
		switch r.Intn(10) {
		case 0:
			op = "me"
		case 1:
			op = "me1"
		}
		put(op, tbl, a)
	}
	// 4. malformed stream
	for _, l := range []string{"cw", "cw (tbl) (", "cw (tbl) (Nope e -)", "xx (tbl) _", "cw (tbl (mac m0 0 (arg 3))) _",
		"cw (tbl) (ExprStmt s - e [StmtSlice z - s])", "cw (tbl) (IfStmt s - s _ e _ b (Ident e nx) s _)", "cw (tbl) _", "cw (tbl) [NodeSlice z - n]",
		"me (tbl) _", "me1 (tbl) (Ident e nx)"} {
		emit(l)
	}
}

func c20sourceFiles() []string {
	var out []string
	for _, dir := range []string{"fast", "base", "ast2", "classic", "xreflect", "go/parser", "go/printer", "base/dep"} {
		ents, _ := c20readDir(repoDir() + "/" + dir)
		for _, e := range ents {
			if strings.HasSuffix(e, ".go") && !strings.HasSuffix(e, "_test.go") {
				out = append(out, repoDir()+"/"+dir+"/"+e)
			}
		}
	}
	sort.Strings(out)
	return out
}

func c20readDir(dir string) ([]string, error) {
	ents, err := os.ReadDir(dir)
	var out []string
	for _, e := range ents {
		out = append(out, e.Name())
	}
	return out, err
}

func c20fileDecls(ir *fast.Interp, path string) []ast2.Ast {
	b, err := os.ReadFile(path)
	if err != nil {
		return nil
	}
	var out []ast2.Ast
	func() {
		defer func() { recover() }()
		ir.Comp.Globals.Line = 0
		for _, n := range ir.Comp.ParseBytes(b) {
			out = append(out, ast2.ToAst(n))
		}
	}()
	return out
}
