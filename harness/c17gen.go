package main

// C17 generator: dependency graphs rendered as declarations (see c17.go for the op grammar).

import (
	"fmt"
	"math/rand"
	"strings"
)

type c17gen struct {
	r   *rand.Rand
	aux int
}

func (g *c17gen) fresh() int { g.aux++; return 100 + g.aux%40 }

func c17j(parts ...interface{}) string {
	ss := make([]string, len(parts))
	for i, p := range parts {
		ss[i] = fmt.Sprint(p)
	}
	return strings.Join(ss, " ")
}

// list of n items, prefixed by the count
func c17list(items []string) string {
	if len(items) == 0 {
		return "0"
	}
	return c17j(len(items), strings.Join(items, " "))
}

type c17target struct {
	name int
	kind byte // 'c' const, 'v' var, 't' type, 'f' func, '?' unknown/undeclared
}

// an expression whose only free name is t
func (g *c17gen) refExpr(t c17target) string {
	switch t.kind {
	case 'f':
		return c17j("a i", t.name, 0)
	case 't':
		if g.r.Intn(2) == 0 {
			return c17j("n i", t.name)
		}
		return c17j("k i", t.name, 0)
	}
	return c17j("i", t.name)
}

// a type whose only free name is t
func (g *c17gen) refType(t c17target) string {
	if t.kind == 't' {
		switch g.r.Intn(4) {
		case 0:
			return c17j("i", t.name)
		case 1:
			return c17j("m int p i", t.name)
		case 2:
			return c17j("u 1 0 i", t.name, 0)
		}
		return c17j("p i", t.name)
	}
	// not a bare identifier: go/types does not record the use of a non-constant identifier as array length
	return c17j("r b l", g.refExpr(t), "int")
}

var c17arr = "k r l int 0" // ([1]int{})

// wrap the statements into `depth` nested scopes
func (g *c17gen) wrap(stmts []string, depth int) []string {
	for ; depth > 0; depth-- {
		body := c17list(stmts)
		var s string
		switch g.r.Intn(8) {
		case 0:
			s = c17j("blk", body)
		case 1:
			s = c17j("if 0 l", body, 0)
		case 2:
			s = c17j("if 0 l 0 1", body)
		case 3:
			s = c17j("for 0 0 0", body)
		case 4:
			s = c17j("sw 0 0 2 1 l 0 0", body) // switch { case 1: default: <body> }
		case 5:
			s = c17j("e a f 0 0", body, 0) // _ = func() { body }()
		case 6:
			s = c17j("rng 0 0 0", c17arr, body)
		default:
			s = c17j("sw 0 1 l 1 1 l", body)
		}
		stmts = []string{s}
	}
	return stmts
}

// statements mentioning name j without a free occurrence of it (kind = which binding shadows it)
func (g *c17gen) shadowStmts(j int) (params, results, stmts []string) {
	use := c17j("e i", j)
	d2 := g.r.Intn(3)
	inner := g.wrap([]string{use}, d2)
	switch g.r.Intn(18) {
	case 16: // struct{ f int }{f: y.xj}
		f := g.fresh()
		stmts = []string{c17j("e k st 1 1", f, "int 1 kv i", f, "s i", g.fresh(), j)}
	case 17: // struct{ f func(int) }{f: func(xj int) { _ = xj }}
		f := g.fresh()
		stmts = []string{c17j("e k st 1 1", f, "u 1 0 int 0 1 kv i", f, "f 1 1", j, "int 0", c17list(inner))}
	case 0:
		params = []string{c17j(1, j, "int")}
		stmts = inner
	case 1:
		results = []string{c17j(1, j, "int")}
		stmts = inner
	case 2:
		stmts = append([]string{c17j("var 1", j, "0 1 l")}, inner...)
	case 3:
		stmts = append([]string{c17j("def 1", j, "1 l")}, inner...)
	case 4:
		stmts = append([]string{c17j("con 1", j, "0 1 l")}, inner...)
	case 5:
		stmts = append([]string{c17j("typ", j, "int")}, c17j("var 1", g.fresh(), "1 i", j, 0))
	case 6:
		if g.r.Intn(2) == 0 {
			stmts = []string{c17j("rng 1 1 i", j, 0, c17arr, c17list(inner))}
		} else {
			stmts = []string{c17j("rng 1 1 i", g.fresh(), "1 i", j, c17arr, c17list(inner))}
		}
	case 7:
		stmts = []string{c17j("e a f 1 1", j, "int 0", c17list(inner), "1 l")}
	case 8:
		stmts = []string{c17j("lbl", j, "for 0 0 0 1 brk", j)}
	case 9:
		stmts = []string{c17j("for 1 def 1", j, "1 l 1 i", j, 0, c17list(inner))}
	case 10:
		stmts = []string{c17j("if 1 def 1", j, "1 l i", j, c17list(inner), 1, c17list(inner))}
	case 11:
		stmts = []string{c17j("sw 1 def 1", j, "1 l 1 i", j, "1 1 l", c17list(inner))}
	case 12:
		stmts = []string{c17j("e s k st 1 1", j, "int 0", j)}
	case 13:
		stmts = []string{c17j("e k st 1 1", j, "int 1 kv i", j, "l")}
	case 14:
		stmts = []string{c17j("var 2", j, g.fresh(), "0 2 l l"), use}
	default:
		stmts = []string{c17j("def 2", g.fresh(), j, "2 l l"), use}
	}
	return
}

// statements with a free occurrence of t next to bindings of the same name that do not cover it
func (g *c17gen) decoyStmts(t c17target) []string {
	ref := c17j("e", g.refExpr(t))
	j := t.name
	switch g.r.Intn(9) {
	case 0: // use before the local declaration
		return []string{ref, c17j("def 1", j, "1 l"), c17j("e i", j)}
	case 1: // binding in a sibling scope that is closed
		return []string{c17j("blk 2 def 1", j, "1 l e i", j), ref}
	case 2: // var xj, y = 1, xj : the initializer sees the outer xj
		return []string{c17j("var 2", j, g.fresh(), "0 2 l", g.refExpr(t))}
	case 3:
		return []string{c17j("if 1 def 1", j, "1 l i", j, "0 0"), ref}
	case 4:
		return []string{c17j("rng 1 1 i", j, 0, c17arr, 0), ref}
	case 5: // xj := xj
		return []string{c17j("def 1", j, 1, g.refExpr(t))}
	case 6:
		return []string{c17j("e a f 1 1", j, "int 0 0 1 l"), ref}
	case 7:
		return []string{c17j("for 1 def 1", j, "1 l 0 0 0"), ref}
	default: // range expression is evaluated outside the scope of the range variables
		return []string{c17j("rng 1 1 i", j, 0, "k r l int 1 e", g.refExpr(t), 0)}
	}
}

// an expression mentioning j without a free occurrence
func (g *c17gen) shadowExpr(j int, constant bool) string {
	n := 4
	if constant {
		n = 1
	}
	switch g.r.Intn(n) {
	case 0:
		return c17j("n st 1 1", j, "int")
	case 1:
		return c17j("a f 1 1", j, "int 1 0 int 1 ret 1 i", j, "1 l")
	case 2:
		return c17j("s k st 1 1", j, "int 1 kv i", j, "l", j)
	default:
		return c17j("a f 0 1 1", j, "int 2 asg i", j, "l ret 0 0")
	}
}

type c17node struct {
	kind     byte // 'c' 'v' 't' 'f'
	name     int
	refs     []c17target
	mentions []int
	self     bool
	iota     bool // const: use iota in the expression
	multi    int  // var: 1 = `var a, b = e, 1`, 2 = `var b, a = f(e)`
	blank    bool // var: declared name is _
}

func c17sum(es []string) string {
	e := es[0]
	for _, x := range es[1:] {
		e = c17j("b", e, x)
	}
	return e
}

// render one declaration (a complete item)
func (g *c17gen) decl(nd c17node) string {
	switch nd.kind {
	case 'c', 'v':
		es := []string{"l"}
		if nd.iota {
			es[0] = "i 901"
		}
		ht := "0"
		for _, t := range nd.refs {
			// (typed constants only in constGroup, with integer types: go/types skips the initializer of a
			// constant whose declared type is not a constant type, so its uses would be missing from the reference)
			if nd.kind == 'v' && t.kind == 't' && ht == "0" && g.r.Intn(2) == 0 {
				ht = c17j(1, g.refType(t))
				continue
			}
			es = append(es, g.refExpr(t))
		}
		for _, j := range nd.mentions {
			es = append(es, g.shadowExpr(j, nd.kind == 'c'))
		}
		if nd.self {
			es = append(es, c17j("i", nd.name))
		}
		kw := "C"
		if nd.kind == 'v' {
			kw = "V"
		}
		name := nd.name
		if nd.blank {
			name = 900
		}
		switch {
		case nd.kind == 'v' && nd.multi == 1:
			return c17j(kw, 1, 2, name, 400+g.fresh(), ht, 2, c17sum(es), "l")
		case nd.kind == 'v' && nd.multi == 2:
			return c17j(kw, 1, 2, 400+g.fresh(), name, ht, "1 a i 350 1", c17sum(es))
		}
		return c17j(kw, 1, 1, name, ht, 1, c17sum(es))
	case 't':
		var fs []string
		for _, t := range nd.refs {
			fs = append(fs, c17j(1, g.fresh(), g.refType(t)))
		}
		for _, j := range nd.mentions {
			switch g.r.Intn(3) {
			case 0:
				fs = append(fs, c17j(1, j, "int"))
			case 1:
				fs = append(fs, c17j(1, g.fresh(), "it 1", j, "0 0"))
			default:
				fs = append(fs, c17j(1, g.fresh(), "u 1 1", j, "int 0"))
			}
		}
		if nd.self {
			fs = append(fs, c17j(1, g.fresh(), "p i", nd.name))
		}
		if len(fs) == 1 && len(nd.refs) == 1 && g.r.Intn(3) == 0 {
			return c17j("T 1", nd.name, g.refType(nd.refs[0]))
		}
		return c17j("T 1", nd.name, "st", c17list(fs))
	}
	// func
	var params, results []string
	var units [][]string // statement sequences whose internal order matters
	for _, t := range nd.refs {
		switch k := g.r.Intn(10); {
		case k == 0:
			params = append(params, c17j(1, g.fresh(), g.refType(t)))
		case k == 1:
			results = append(results, c17j(1, g.fresh(), g.refType(t)))
		case k <= 3:
			units = append(units, g.wrap(g.decoyStmts(t), g.r.Intn(3)))
		case k == 4:
			units = append(units, g.wrap([]string{c17j("var 1", g.fresh(), 1, g.refType(t), 0)}, g.r.Intn(3)))
		default:
			units = append(units, g.wrap([]string{c17j("e", g.refExpr(t))}, g.r.Intn(4)))
		}
	}
	for _, j := range nd.mentions {
		p, rs, ss := g.shadowStmts(j)
		if (len(p) > 0 || len(rs) > 0) && (c17has(params, j) || c17has(results, j)) {
			continue
		}
		params = append(params, p...)
		results = append(results, rs...)
		if len(p) > 0 || len(rs) > 0 {
			units = append(units, ss)
		} else {
			units = append(units, g.wrap(ss, g.r.Intn(3)))
		}
	}
	if nd.self {
		units = append(units, []string{c17j("e a i", nd.name, 0)})
	}
	// every name occurs in one unit only, so a binding at the top level of the body cannot capture another unit's reference
	g.r.Shuffle(len(units), func(a, b int) { units[a], units[b] = units[b], units[a] })
	var body []string
	for _, u := range units {
		body = append(body, u...)
	}
	return c17j("F", nd.name, c17list(params), c17list(results), c17list(body))
}

func c17has(fields []string, j int) bool {
	for _, f := range fields {
		if strings.HasPrefix(f, c17j(1, j)+" ") {
			return true
		}
	}
	return false
}

// turn a graph into one op.  adj[i][j]: 0 nothing, 1 free reference, 2 bound/non-reference mention
func (g *c17gen) graphOp(reps int, kinds []byte, names []int, adj [][]int) string {
	n := len(kinds)
	var items []string
	for i := 0; i < n; i++ {
		nd := c17node{kind: kinds[i], name: names[i]}
		for j := 0; j < n; j++ {
			if i == j {
				nd.self = adj[i][j] == 1
				continue
			}
			switch adj[i][j] {
			case 1:
				nd.refs = append(nd.refs, c17target{names[j], kinds[j]})
			case 2:
				// a parameter or local named like a free reference of the same function would capture it
				nd.mentions = append(nd.mentions, names[j])
			}
		}
		items = append(items, g.decl(nd))
	}
	return c17j("sort", reps, strings.Join(items, " "))
}

func (g *c17gen) exhaustive(n int, emit func(string), variants int, full bool) {
	pairs := n * (n - 1)
	kindsAll := []byte{'c', 'v', 't', 'f'}
	for mask := 0; mask < 1<<pairs; mask++ {
		for v := 0; v < variants; v++ {
			kinds := make([]byte, n)
			switch {
			case v == 0:
				for i := range kinds {
					kinds[i] = kindsAll[g.r.Intn(4)]
				}
			case v == 1:
				k := kindsAll[(mask+mask/4)%4]
				for i := range kinds {
					kinds[i] = k
				}
			default:
				for i := range kinds {
					kinds[i] = "tttf"[g.r.Intn(4)]
				}
			}
			names := g.r.Perm(n)
			adj := make([][]int, n)
			b := 0
			for i := 0; i < n; i++ {
				adj[i] = make([]int, n)
				for j := 0; j < n; j++ {
					if i == j {
						if (kinds[i] == 'f' || kinds[i] == 't') && g.r.Intn(6) == 0 {
							adj[i][j] = 1
						}
						continue
					}
					if mask&(1<<b) != 0 {
						adj[i][j] = 1
					} else if g.r.Intn(4) == 0 {
						adj[i][j] = 2
					}
					b++
				}
			}
			reps := 3
			if v == 1 && kinds[0] == 't' {
				reps = 6
			}
			if !full {
				reps = 2
			}
			emit(g.graphOp(reps, kinds, names, adj))
		}
	}
}

// random larger inputs: sparse graphs, type clusters, phases, groups, methods, duplicates, blank
func (g *c17gen) random(maxn int) string {
	r := g.r
	n := 3 + r.Intn(maxn-2)
	kinds := make([]byte, n)
	kindsAll := []byte{'c', 'v', 't', 'f'}
	allTypes := r.Intn(5) == 0
	for i := range kinds {
		kinds[i] = kindsAll[r.Intn(4)]
		if allTypes {
			kinds[i] = 't'
		}
	}
	names := r.Perm(n)
	if r.Intn(12) == 0 { // malformed: a duplicate name
		names[r.Intn(n)] = names[r.Intn(n)]
	}
	cyclic := r.Intn(3) == 0
	adj := make([][]int, n)
	for i := 0; i < n; i++ {
		adj[i] = make([]int, n)
		for j := 0; j < n; j++ {
			if i == j {
				if r.Intn(8) == 0 && kinds[i] != 'c' && kinds[i] != 'v' || r.Intn(60) == 0 {
					adj[i][j] = 1
				}
				continue
			}
			p := r.Intn(2 * n)
			switch {
			case p < 3 && (cyclic && (kinds[i] == 't' && kinds[j] == 't' || r.Intn(10) == 0) || names[j] < names[i]):
				adj[i][j] = 1
			case p == 4:
				adj[i][j] = 2
			}
		}
	}
	var items []string
	if r.Intn(4) == 0 {
		items = append(items, "P")
		if r.Intn(3) == 0 {
			items = append(items, "P")
		}
	}
	for k := r.Intn(3); k > 0 && r.Intn(2) == 0; k-- {
		items = append(items, c17j("I", 200+r.Intn(5)))
	}
	var pendingConst []string // specs of a const group being collected
	flush := func() {
		if len(pendingConst) > 0 {
			items = append(items, c17j("C", c17list(pendingConst)))
			pendingConst = nil
		}
	}
	for i := 0; i < n; i++ {
		nd := c17node{kind: kinds[i], name: names[i]}
		for j := 0; j < n; j++ {
			if i == j {
				nd.self = adj[i][j] == 1
			} else if adj[i][j] == 1 {
				nd.refs = append(nd.refs, c17target{names[j], kinds[j]})
			} else if adj[i][j] == 2 {
				nd.mentions = append(nd.mentions, names[j])
			}
		}
		if r.Intn(25) == 0 {
			nd.refs = append(nd.refs, c17target{300 + r.Intn(3), '?'}) // undeclared name
		}
		if nd.kind == 'c' && r.Intn(2) == 0 {
			// member of a const group: "C 1 <spec>" -> spec; sometimes followed by specs inheriting the expressions
			nd.iota = r.Intn(3) == 0
			pendingConst = append(pendingConst, strings.TrimPrefix(g.decl(nd), "C 1 "))
			for r.Intn(3) == 0 {
				pendingConst = append(pendingConst, c17j(1, 400+g.fresh(), "0 0"))
			}
			continue
		}
		flush()
		if nd.kind == 'v' {
			switch r.Intn(12) {
			case 0:
				nd.multi = 1
			case 1:
				nd.multi = 2
			case 2:
				nd.blank = true
			}
		}
		d := g.decl(nd)
		items = append(items, d)
		if nd.kind == 't' && r.Intn(4) == 0 { // a method of the type just declared (or of another one)
			m := c17node{kind: 'f', name: 500 + r.Intn(3)}
			for j := 0; j < n; j++ {
				if r.Intn(n) == 0 && j != i {
					m.refs = append(m.refs, c17target{names[j], kinds[j]})
				} else if r.Intn(2*n) == 0 {
					m.mentions = append(m.mentions, names[j])
				}
			}
			fd := strings.TrimPrefix(g.decl(m), "F ")
			rn := g.fresh()
			if r.Intn(3) == 0 && n > 1 { // receiver named like a declaration
				rn = names[r.Intn(n)]
				fd = c17j(strings.SplitN(fd, " ", 2)[0], "0 0 1 e s i", rn, g.fresh())
			}
			items = append(items, c17j("M", rn, r.Intn(2), nd.name, fd))
		}
		if r.Intn(9) == 0 { // statement or expression: splits the declarations into separately sorted runs
			flush()
			if r.Intn(2) == 0 {
				items = append(items, c17j("S asg i", names[r.Intn(n)], "l"))
			} else {
				items = append(items, c17j("X a i", names[r.Intn(n)], 0))
			}
			if r.Intn(3) == 0 {
				items = append(items, c17j("I", 200+r.Intn(5)))
			}
		}
	}
	flush()
	reps := 2
	if allTypes {
		reps = 8
	}
	return c17j("sort", reps, strings.Join(items, " "))
}

// const groups with implicit repetition: `const ( A T = f(iota) + c; B; C )`, the type, the functions and the
// constants the repeated type and expression mention being declared before or AFTER the group: every
// constant that inherits type and expression depends on everything they mention
func (g *c17gen) constGroup() string {
	r := g.r
	names := r.Perm(12)
	next := 0
	fresh := func() int { x := names[next]; next++; return x }
	var others []string // the declarations the group refers to
	var pool []c17target
	for i, n := 0, 1+r.Intn(3); i < n; i++ {
		x := fresh()
		switch r.Intn(4) {
		case 0:
			others = append(others, c17j("F", x, "0 0 0"))
			pool = append(pool, c17target{x, 'f'})
		case 1:
			others = append(others, c17j("C 1 1", x, "0 1 l"))
			pool = append(pool, c17target{x, 'c'})
		case 2:
			others = append(others, c17j("V 1 1", x, "0 1 l"))
			pool = append(pool, c17target{x, 'v'})
		default:
			others = append(others, c17j("T 1", x, "int"))
			pool = append(pool, c17target{x, 't'})
		}
	}
	var types []int
	for i, n := 0, 1+r.Intn(2); i < n; i++ {
		x := fresh()
		if len(types) > 0 && r.Intn(3) == 0 {
			others = append(others, c17j("T 1", x, "i", types[0])) // type x2 x1
		} else {
			others = append(others, c17j("T 1", x, "int"))
		}
		types = append(types, x)
	}
	ownSpec := func(nnames int) string {
		var ns, vals []string
		for i := 0; i < nnames; i++ {
			ns = append(ns, fmt.Sprint(fresh()))
			es := []string{"i 901"}
			for _, t := range pool {
				if r.Intn(3) == 0 {
					es = append(es, g.refExpr(t))
				}
			}
			if r.Intn(4) == 0 {
				es = append(es, g.shadowExpr(pool[r.Intn(len(pool))].name, true))
			}
			vals = append(vals, c17sum(es))
		}
		ht := "0"
		if r.Intn(4) != 0 {
			ht = c17j("1 i", types[r.Intn(len(types))])
		}
		return c17j(nnames, strings.Join(ns, " "), ht, nnames, strings.Join(vals, " "))
	}
	inherit := func(nnames int) string {
		var ns []string
		for i := 0; i < nnames; i++ {
			ns = append(ns, fmt.Sprint(fresh()))
		}
		return c17j(nnames, strings.Join(ns, " "), "0 0")
	}
	var specs []string
	width := 1
	if r.Intn(5) == 0 {
		width = 2
	}
	specs = append(specs, ownSpec(width))
	for i, n := 0, 1+r.Intn(3); i < n && next < len(names)-2*width; i++ {
		if i > 0 && r.Intn(4) == 0 {
			specs = append(specs, ownSpec(width))
		} else {
			specs = append(specs, inherit(width))
		}
	}
	items := append(others, c17j("C", c17list(specs)))
	r.Shuffle(len(items), func(a, b int) { items[a], items[b] = items[b], items[a] })
	if r.Intn(3) != 0 { // most often the group comes first: everything it mentions is declared after it
		for i, it := range items {
			if strings.HasPrefix(it, "C ") && strings.Contains(it, " 0 0") {
				items[0], items[i] = items[i], items[0]
				break
			}
		}
	}
	return c17j("sort 2", strings.Join(items, " "))
}

func c17generate(r *rand.Rand, tier string, emit func(string)) {
	g := &c17gen{r: r}
	maxn := 4
	if tier == "thorough" {
		maxn = 5
	}
	for n := 1; n <= maxn; n++ {
		switch {
		case n <= 3:
			g.exhaustive(n, emit, 8, true)
		case n == 4:
			g.exhaustive(n, emit, 2, true)
		default:
			g.exhaustive(n, emit, 1, false)
		}
	}
	nr, big, ng := 1500, 12, 400
	if tier == "thorough" {
		nr, big, ng = 30000, 40, 8000
	}
	for i := 0; i < ng; i++ {
		emit(g.constGroup())
	}
	for i := 0; i < nr; i++ {
		if i%3 == 0 {
			emit(g.random(big))
		} else {
			emit(g.random(7))
		}
	}
}

func init() {
	register(&Prop{
		ID: "C17",
		Rule: "bounded-exhaustive: every dependency graph (every subset of the ordered pairs) over n<=4 (quick) / n<=5 (thorough) declarations, " +
			"each rendered to Go source with seeded-random kinds (const/var/type/func; one variant with uniform kinds), names permuted against source order, " +
			"references placed in initializers, types, signatures and bodies at block depth 0-3, absent pairs turned with probability 1/4 into a bound mention " +
			"(parameter, result, local var/const/type, :=, range, func literal parameter, label, init statements, field, struct key) and present pairs with probability 1/5 " +
			"accompanied by a non-covering binding of the same name; plus 400 / 8000 const groups with implicit repetition (typed or untyped first spec, 1-2 names per spec, later specs inheriting type and iota expression, " +
			"the types, functions, constants and variables they mention declared before or after the group); plus random larger inputs (up to 12 / 40 declarations) with type clusters, const groups with iota and " +
			"inherited expressions, multi-name and multi-value var specs, methods, blank variables, duplicate and undeclared names, package/import clauses and statements splitting the runs. " +
			"Every input is sorted 2-8 times by the real dep.Sorter. Non-trivial: every op (distinct by op text).",
		Gen:        c17generate,
		Exec:       c17exec,
		Exhaustive: func(tier string) bool { return true },
	})
}
