package main

import (
	"fmt"
	"go/ast"
	"go/build"
	"go/constant"
	"go/importer"
	"go/parser"
	"go/token"
	"go/types"
	"math/big"
	"math/rand"
	"path/filepath"
	"sort"
	"strconv"
	"strings"

	"github.com/cosmos72/gomacro/base/untyped"
)

// C32: untyped constant serialisation round-trips exactly.
//
// ops (one line each, ASCII only; bytes outside 0x21..0x7e and '\\' are written \xHH):
//   rt b true|false | rt i N | rt c N | rt f FLT | rt z FLT FLT | rt s ESC | rt n
//        build the constant, untyped.Marshal it, untyped.Unmarshal the text
//        Out = "<esc marshal text> => <canonical decoded value>"
//   un ESC        untyped.Unmarshal of an arbitrary (malformed) text
//   tab PKG.NAME ESC   an entry of an imports Untypeds table: decode; oracle = go/types constant
// FLT = r:N:D (ratVal N/D, lowest terms) | i:N (int64Val/intVal) | g:M:E (floatVal M*2^E, |M| < 2^512)
//
// Oracle (exact, independent of ExactString): the decoded constant has the same kind and is the
// same rational number (math/big comparison); additionally go/constant.Compare must say equal.

const c32MaxExp = 4096

func c32esc(s string) string {
	var sb strings.Builder
	for i := 0; i < len(s); i++ {
		c := s[i]
		if c > 0x20 && c < 0x7f && c != '\\' {
			sb.WriteByte(c)
		} else {
			fmt.Fprintf(&sb, "\\x%02x", c)
		}
	}
	return sb.String()
}

func c32unesc(s string) string {
	var sb strings.Builder
	for i := 0; i < len(s); i++ {
		if s[i] == '\\' && i+3 < len(s) && s[i+1] == 'x' {
			if v, err := strconv.ParseUint(s[i+2:i+4], 16, 8); err == nil {
				sb.WriteByte(byte(v))
				i += 3
				continue
			}
		}
		sb.WriteByte(s[i])
	}
	return sb.String()
}

// ---------- model grammar (mirror of Model/Marshal.lean: which literals the model transcribes)

func c32allDigits(s string) bool {
	if s == "" {
		return false
	}
	for i := 0; i < len(s); i++ {
		if s[i] < '0' || s[i] > '9' {
			return false
		}
	}
	return true
}

func c32splitSign(s string) string {
	if s != "" && (s[0] == '-' || s[0] == '+') {
		return s[1:]
	}
	return s
}

func c32all(s string, set string) bool {
	for i := 0; i < len(s); i++ {
		if strings.IndexByte(set, s[i]) < 0 {
			return false
		}
	}
	return true
}

const c32digits = "0123456789"
const c32lower = "abcdefghijklmnopqrstuvwxyz"
const c32intAlphabet = c32digits + "abcdefABCDEFxXoObB_+-"
const c32floatAlphabet = c32digits + c32lower + "ABCDEFGHIJKLMNOPQRSTUVWXYZ_.+-"

// true: the model abstains on this INT literal
func c32intAbstains(s string) bool {
	b := c32splitSign(s)
	if c32allDigits(b) && (len(b) == 1 || b[0] != '0') {
		return false
	}
	if s == "" || !c32all(s, c32intAlphabet) {
		return false // unknown on both sides
	}
	return true
}

func c32isHexP(b string) bool {
	if !strings.HasPrefix(b, "0x.") {
		return false
	}
	b = b[3:]
	i := 0
	for i < len(b) && strings.IndexByte("0123456789abcdef", b[i]) >= 0 {
		i++
	}
	if i == 0 || i > 128 || i >= len(b) || b[i] != 'p' {
		return false
	}
	e := c32splitSign(b[i+1:])
	return c32allDigits(e) && len(e) <= 9
}

func c32floatLitAbstains(s string) bool {
	b := c32splitSign(s)
	if c32allDigits(b) || c32isHexP(b) {
		return false
	}
	if s == "" || !c32all(s, c32floatAlphabet) {
		return false
	}
	return true
}

func c32floatAbstains(s string) bool {
	if i := strings.IndexByte(s, '/'); i >= 0 {
		return c32floatLitAbstains(s[:i]) || c32floatLitAbstains(s[i+1:])
	}
	return c32floatLitAbstains(s)
}

func c32abstains(m string) bool {
	kind, str, _ := strings.Cut(m, ":")
	switch kind {
	case "int", "rune":
		return c32intAbstains(str)
	case "float":
		return c32floatAbstains(str)
	case "complex":
		if i := strings.IndexByte(str, ':'); i >= 0 {
			return c32floatAbstains(str[:i]) || c32floatAbstains(str[i+1:])
		}
		return c32floatAbstains(str)
	}
	return false
}

// ---------- canonical rendering of the real result

func c32kindName(k untyped.Kind) string {
	switch k {
	case untyped.None:
		return "nil"
	case untyped.Bool:
		return "bool"
	case untyped.Int:
		return "int"
	case untyped.Rune:
		return "rune"
	case untyped.Float:
		return "float"
	case untyped.Complex:
		return "complex"
	case untyped.String:
		return "string"
	}
	return fmt.Sprintf("kind%d", int(k))
}

func c32canon(k untyped.Kind, v constant.Value) string {
	if k == untyped.None {
		if v != nil {
			return "nil-with-value"
		}
		return "nil"
	}
	if v == nil {
		return "novalue " + c32kindName(k)
	}
	if v.Kind() == constant.Unknown {
		return "unknown " + c32kindName(k)
	}
	switch k {
	case untyped.Bool:
		return "bool " + fmt.Sprint(constant.BoolVal(v))
	case untyped.Int, untyped.Rune, untyped.Float:
		return c32kindName(k) + " " + v.ExactString()
	case untyped.Complex:
		return "complex " + constant.Real(v).ExactString() + " " + constant.Imag(v).ExactString()
	case untyped.String:
		return "string " + c32esc(constant.StringVal(v))
	}
	return "?"
}

// real Unmarshal, panics turned into "panic"
func c32unmarshal(s string) (k untyped.Kind, v constant.Value, out string, panicked bool) {
	defer func() {
		if e := recover(); e != nil {
			out, panicked = "panic", true
		}
	}()
	k, v = untyped.Unmarshal(s)
	return k, v, c32canon(k, v), false
}

// ---------- exact comparison, independent of go/constant's own conversions

func c32rat(v constant.Value) *big.Rat {
	switch x := constant.Val(v).(type) {
	case int64:
		return new(big.Rat).SetInt64(x)
	case *big.Int:
		return new(big.Rat).SetInt(x)
	case *big.Rat:
		return x
	case *big.Float:
		r, _ := x.Rat(nil)
		return r
	}
	return nil
}

func c32numEqual(a, b constant.Value) bool {
	fa, oka := constant.Val(a).(*big.Float)
	fb, okb := constant.Val(b).(*big.Float)
	if oka && okb {
		return fa.Cmp(fb) == 0
	}
	ra, rb := c32rat(a), c32rat(b)
	return ra != nil && rb != nil && ra.Cmp(rb) == 0
}

func c32maxBits(v constant.Value) int {
	switch x := constant.Val(v).(type) {
	case int64:
		return 64
	case *big.Int:
		return x.BitLen()
	case *big.Rat:
		n, d := x.Num().BitLen(), x.Denom().BitLen()
		if d > n {
			n = d
		}
		return n
	}
	return 0
}

func c32isExactRepr(v constant.Value) bool {
	switch constant.Val(v).(type) {
	case int64, *big.Int, *big.Rat:
		return true
	}
	return false
}

// why a numeric part changed: classification used as violation key
func c32partKey(a, b constant.Value) string {
	if b == nil || b.Kind() == constant.Unknown {
		return "decoded-unknown"
	}
	if c32numEqual(a, b) {
		return ""
	}
	if c32isExactRepr(a) {
		if c32maxBits(a) < c32MaxExp {
			return "exact-rat-lt-4096-bits-rounded"
		}
		return "exact-rat-ge-4096-bits-rounded"
	}
	return "bigfloat-changed"
}

// ---------- building constants from the op text

func c32bigInt(s string) *big.Int {
	i, ok := new(big.Int).SetString(s, 10)
	if !ok {
		panic("bad integer in op: " + s)
	}
	return i
}

var c32ten = big.NewInt(10)

// ratVal n/d with components of 4096 bits or more exists only as the value of a decimal literal
func c32ratFromLiteral(n, d *big.Int) constant.Value {
	// d must divide 10^k
	k := 0
	p := big.NewInt(1)
	for new(big.Int).Mod(p, d).Sign() != 0 {
		p.Mul(p, c32ten)
		k++
		if k > 20000 {
			return nil
		}
	}
	N := new(big.Int).Mul(n, new(big.Int).Div(p, d))
	neg := N.Sign() < 0
	ds := new(big.Int).Abs(N).String()
	for len(ds) <= k {
		ds = "0" + ds
	}
	lit := ds[:len(ds)-k] + "." + ds[len(ds)-k:]
	if neg {
		lit = "-" + lit
	}
	v := constant.MakeFromLiteral(lit, token.FLOAT, 0)
	if r, ok := constant.Val(v).(*big.Rat); ok && r.Cmp(new(big.Rat).SetFrac(n, d)) == 0 {
		return v
	}
	return nil
}

func c32flt(spec string) constant.Value {
	f := strings.Split(spec, ":")
	switch {
	case f[0] == "i" && len(f) == 2:
		return constant.Make(c32bigInt(f[1]))
	case f[0] == "r" && len(f) == 3:
		n, d := c32bigInt(f[1]), c32bigInt(f[2])
		if n.BitLen() < c32MaxExp && d.BitLen() < c32MaxExp {
			return constant.Make(new(big.Rat).SetFrac(n, d))
		}
		return c32ratFromLiteral(n, d)
	case f[0] == "g" && len(f) == 3:
		m, e := c32bigInt(f[1]), c32bigInt(f[2])
		x := new(big.Float).SetPrec(512).SetInt(m)
		x.SetMantExp(x, int(e.Int64()))
		return constant.Make(x)
	}
	return nil
}

func c32complex(re, im constant.Value, respec, imspec string) constant.Value {
	if imspec == "i:0" {
		return constant.ToComplex(re)
	}
	if respec == "i:0" {
		return constant.MakeImag(im)
	}
	v := constant.BinaryOp(constant.ToComplex(re), token.ADD, constant.MakeImag(im))
	if constant.Real(v).ExactString() != re.ExactString() || constant.Imag(v).ExactString() != im.ExactString() {
		return nil // the op describes a complex constant go/constant cannot hold
	}
	return v
}

// ---------- go/types oracle for the import tables

type c32tabEntry struct{ pkg, name, str string }

var c32tabCache []c32tabEntry
var c32types = map[string]*types.Package{}
var c32typesErr = map[string]bool{}
var c32importer types.Importer

func c32tables() []c32tabEntry {
	if c32tabCache != nil {
		return c32tabCache
	}
	var files []string
	for _, pat := range []string{"imports/*.go", "imports/syscall/*.go", "imports/thirdparty/*.go", "base/*/x_package.go", "fast/x_package.go", "classic/x_package.go", "xreflect/x_package.go"} {
		m, _ := filepath.Glob(filepath.Join(repoDir(), pat))
		files = append(files, m...)
	}
	sort.Strings(files)
	seen := map[c32tabEntry]bool{}
	fset := token.NewFileSet()
	for _, fn := range files {
		f, err := parser.ParseFile(fset, fn, nil, 0)
		if err != nil {
			continue
		}
		pkgpath := ""
		ast.Inspect(f, func(n ast.Node) bool {
			switch x := n.(type) {
			case *ast.IndexExpr:
				if id, ok := x.X.(*ast.Ident); ok && id.Name == "Packages" && pkgpath == "" {
					if bl, ok := x.Index.(*ast.BasicLit); ok {
						pkgpath, _ = strconv.Unquote(bl.Value)
					}
				}
			case *ast.KeyValueExpr:
				if id, ok := x.Key.(*ast.Ident); ok && id.Name == "Untypeds" {
					if cl, ok := x.Value.(*ast.CompositeLit); ok {
						for _, e := range cl.Elts {
							kv, ok := e.(*ast.KeyValueExpr)
							if !ok {
								continue
							}
							kb, ok1 := kv.Key.(*ast.BasicLit)
							vb, ok2 := kv.Value.(*ast.BasicLit)
							if !ok1 || !ok2 {
								continue
							}
							name, _ := strconv.Unquote(kb.Value)
							str, _ := strconv.Unquote(vb.Value)
							p := pkgpath
							if strings.Contains(fn, "/imports/syscall/") {
								p = "syscall@" + strings.TrimSuffix(filepath.Base(fn), ".go")
							}
							ent := c32tabEntry{p, name, str}
							if !seen[ent] {
								seen[ent] = true
								c32tabCache = append(c32tabCache, ent)
							}
						}
					}
				}
			}
			return true
		})
	}
	return c32tabCache
}

func c32lookupConst(pkg, name string) *types.Const {
	if strings.Contains(pkg, "@") || strings.Contains(pkg, "gomacro") {
		return nil
	}
	if c32importer == nil {
		build.Default.CgoEnabled = false
		c32importer = importer.ForCompiler(token.NewFileSet(), "source", nil)
	}
	p := c32types[pkg]
	if p == nil && !c32typesErr[pkg] {
		func() {
			defer func() {
				if e := recover(); e != nil {
					c32typesErr[pkg] = true
				}
			}()
			var err error
			p, err = c32importer.Import(pkg)
			if err != nil || p == nil {
				c32typesErr[pkg] = true
				p = nil
				return
			}
			c32types[pkg] = p
		}()
	}
	if p == nil {
		return nil
	}
	c, _ := p.Scope().Lookup(name).(*types.Const)
	return c
}

// ---------- Exec

func c32exec(op string) Result {
	f, arg, _ := strings.Cut(op, " ")
	switch f {
	case "rt":
		return c32rt(arg)
	case "un":
		s := c32unesc(arg)
		if c32abstains(s) {
			return Result{Out: "abstain", Tags: []string{"un", "un-abstain"}}
		}
		k, v, out, pan := c32unmarshal(s)
		tags := []string{"un", "un-" + strings.Fields(out)[0]}
		_ = k
		_ = v
		if pan {
			tags = append(tags, "un-panic")
		}
		return Result{Out: out, Tags: tags, Nontrivial: true}
	case "tab":
		id, esc, _ := strings.Cut(arg, " ")
		s := c32unesc(esc)
		if c32abstains(s) {
			return Result{Out: "abstain", Tags: []string{"tab", "tab-abstain"}}
		}
		k, v, out, _ := c32unmarshal(s)
		r := Result{Out: out, Tags: []string{"tab", "tab-" + strings.Fields(out)[0]}, Nontrivial: true}
		// property on the table text itself: re-encoding the decoded constant gives the table text
		if out != "panic" {
			if back := untyped.Marshal(k, v); back != s {
				r.Viol, r.Key = fmt.Sprintf("table entry %s = %q decodes to %s which marshals to %q", id, s, out, back), "tab-not-canonical"
			}
		}
		i := strings.LastIndexByte(id, '.')
		pkg, name := id[:i], id[i+1:]
		c := c32lookupConst(pkg, name)
		if c == nil {
			r.Tags = append(r.Tags, "tab-no-gotypes")
			return r
		}
		b, ok := c.Type().(*types.Basic)
		if !ok || b.Info()&types.IsUntyped == 0 {
			r.Tags = append(r.Tags, "tab-gotypes-typed")
			return r
		}
		wk := untyped.GoUntypedToKind(b.Kind())
		r.Tags = append(r.Tags, "tab-gotypes")
		if r.Viol == "" {
			if key := c32compare(wk, c.Val(), k, v, out == "panic"); key != "" {
				// the tables were generated with an older Go release: a constant whose value changed
				// in the standard library is staleness of the table, not a decoding error
				if want := untyped.Marshal(wk, c.Val()); want != s {
					r.Tags = append(r.Tags, "tab-stale", "tab-stale:"+id)
				} else {
					r.Viol, r.Key = fmt.Sprintf("table entry %s = %q decodes to %s, go/types has %v", id, s, out, c.Val().ExactString()), "tab-"+key
				}
			}
		}
		return r
	}
	return Result{Out: "bad-op"}
}

// compare want (kind wk, value a) with got (kind k, value b); "" if the same
func c32compare(wk untyped.Kind, a constant.Value, k untyped.Kind, b constant.Value, panicked bool) string {
	kn := c32kindName(wk)
	if panicked {
		return kn + "-decode-panic"
	}
	if k != wk {
		return kn + "-kind-changed"
	}
	switch wk {
	case untyped.None:
		if b != nil {
			return "nil-has-value"
		}
		return ""
	case untyped.Bool:
		if b == nil || b.Kind() != constant.Bool || constant.BoolVal(a) != constant.BoolVal(b) {
			return "bool-changed"
		}
	case untyped.String:
		if b == nil || b.Kind() != constant.String || constant.StringVal(a) != constant.StringVal(b) {
			return "string-changed"
		}
	case untyped.Int, untyped.Rune:
		if b == nil || b.Kind() != constant.Int {
			return kn + "-decoded-not-int"
		}
		if !c32numEqual(a, b) {
			return kn + "-changed"
		}
	case untyped.Float:
		if key := c32partKey(a, b); key != "" {
			return "float-" + key
		}
	case untyped.Complex:
		if b == nil || b.Kind() == constant.Unknown {
			return "complex-decoded-unknown"
		}
		if key := c32partKey(constant.Real(a), constant.Real(b)); key != "" {
			return "complex-" + key
		}
		if key := c32partKey(constant.Imag(a), constant.Imag(b)); key != "" {
			return "complex-" + key
		}
	}
	if b != nil && a != nil && !constant.Compare(a, token.EQL, b) {
		return kn + "-compare-neq"
	}
	return ""
}

func c32rt(arg string) Result {
	kindc, rest, _ := strings.Cut(arg, " ")
	var k untyped.Kind
	var v constant.Value
	tags := []string{"rt", "rt-" + kindc}
	switch kindc {
	case "n":
		k = untyped.None
	case "b":
		k, v = untyped.Bool, constant.MakeBool(rest == "true")
	case "i":
		k, v = untyped.Int, constant.Make(c32bigInt(rest))
	case "c":
		k, v = untyped.Rune, constant.Make(c32bigInt(rest))
	case "s":
		k, v = untyped.String, constant.MakeString(c32unesc(rest))
	case "f":
		k, v = untyped.Float, c32flt(rest)
		if v == nil {
			return Result{Out: "bad-spec", Tags: []string{"bad-spec"}}
		}
		tags = append(tags, "rt-f-"+rest[:1])
	case "z":
		a, b, _ := strings.Cut(rest, " ")
		re, im := c32flt(a), c32flt(b)
		if re == nil || im == nil {
			return Result{Out: "bad-spec", Tags: []string{"bad-spec"}}
		}
		k, v = untyped.Complex, c32complex(re, im, a, b)
		if v == nil {
			return Result{Out: "bad-spec", Tags: []string{"bad-spec"}}
		}
		tags = append(tags, "rt-z-"+a[:1]+b[:1])
	default:
		return Result{Out: "bad-op"}
	}
	m := untyped.Marshal(k, v)
	k2, v2, out, pan := c32unmarshal(m)
	r := Result{Out: c32esc(m) + " => " + out, Tags: tags, Nontrivial: true}
	if key := c32compare(k, v, k2, v2, pan); key != "" {
		r.Viol = fmt.Sprintf("Marshal(%s, %s) = %q; Unmarshal gives %s", c32kindName(k), c32short(c32valStr(v)), c32short(m), c32short(out))
		r.Key = key
		r.Tags = append(r.Tags, "viol-"+key)
	}
	if c32abstains(m) {
		// Marshal must stay inside the literal grammar the model transcribes (and proves the round trip for)
		r.Out = c32esc(m) + " => abstain"
		r.Tags = append(r.Tags, "rt-abstain")
		if r.Viol == "" {
			r.Viol, r.Key = "Marshal produced a literal outside the modelled grammar: "+c32esc(c32short(m)), "marshal-outside-grammar"
		}
	}
	if v != nil && v2 != nil {
		if _, ok := constant.Val(v2).(*big.Float); ok {
			r.Tags = append(r.Tags, "decoded-bigfloat")
		}
	}
	return r
}

func c32valStr(v constant.Value) string {
	if v == nil {
		return "<nil>"
	}
	return v.ExactString()
}

func c32short(s string) string {
	if len(s) > 120 {
		return fmt.Sprintf("%s...%s(%d bytes)", s[:60], s[len(s)-30:], len(s))
	}
	return s
}

// ---------- generator

func c32randBig(r *rand.Rand, bits int) *big.Int {
	if bits <= 0 {
		return new(big.Int)
	}
	b := make([]byte, (bits+7)/8)
	for i := range b {
		b[i] = byte(r.Intn(256))
	}
	x := new(big.Int).SetBytes(b)
	x.Rsh(x, uint(len(b)*8-bits))
	x.SetBit(x, bits-1, 1)
	switch r.Intn(6) {
	case 0: // all ones
		x.Lsh(big.NewInt(1), uint(bits))
		x.Sub(x, big.NewInt(1))
	case 1: // power of two
		x.Lsh(big.NewInt(1), uint(bits-1))
	}
	return x
}

func c32bits(r *rand.Rand) int {
	switch r.Intn(10) {
	case 0:
		return 1 + r.Intn(8)
	case 1, 2:
		return 1 + r.Intn(64)
	case 3, 4:
		return 60 + r.Intn(10)
	case 5:
		return 1 + r.Intn(600)
	case 6:
		return 500 + r.Intn(30)
	case 7:
		return 4080 + r.Intn(30)
	case 8:
		return 1 + r.Intn(4090)
	}
	return 1 + r.Intn(6000)
}

func c32sign(r *rand.Rand, x *big.Int) *big.Int {
	if r.Intn(2) == 0 {
		return new(big.Int).Neg(x)
	}
	return x
}

// a random FLT spec; small: only representations that survive BinaryOp ADD 0 (parts of a complex)
func c32randFlt(r *rand.Rand, small bool) string {
	switch c := r.Intn(10); {
	case c == 0:
		return "i:" + c32sign(r, c32randBig(r, c32bits(r))).String()
	case c <= 2: // dyadic or decimal fraction
		n := c32sign(r, c32randBig(r, c32bits(r)))
		var d *big.Int
		if r.Intn(2) == 0 {
			d = new(big.Int).Lsh(big.NewInt(1), uint(1+r.Intn(1200)))
		} else {
			d = new(big.Int).Exp(c32ten, big.NewInt(int64(1+r.Intn(400))), nil)
			if !small && r.Intn(4) == 0 {
				d = new(big.Int).Exp(c32ten, big.NewInt(int64(1200+r.Intn(700))), nil)
			}
		}
		return c32ratSpec(n, d, small)
	case c <= 6:
		n := c32sign(r, c32randBig(r, c32bits(r)))
		d := c32randBig(r, c32bits(r))
		if d.BitLen() >= c32MaxExp {
			d.Rsh(d, uint(d.BitLen()-c32MaxExp+1+r.Intn(3)))
		}
		if n.BitLen() >= c32MaxExp {
			n.Rsh(n, uint(n.BitLen()-c32MaxExp+1))
		}
		return c32ratSpec(n, d, small)
	default:
		m := c32sign(r, c32randBig(r, 1+r.Intn(512)))
		var e int
		switch r.Intn(5) {
		case 0:
			e = r.Intn(200) - 100
		case 1:
			e = 3500 + r.Intn(1200)
		case 2:
			e = -(3500 + r.Intn(1200))
		case 3:
			e = r.Intn(200000) - 100000
		default:
			e = r.Intn(2000000) - 1000000
			if r.Intn(4) == 0 {
				e = r.Intn(1999990000) - 999995000
			}
		}
		return fmt.Sprintf("g:%s:%d", m, e)
	}
}

func c32ratSpec(n, d *big.Int, small bool) string {
	if d.Sign() == 0 {
		d = big.NewInt(1)
	}
	q := new(big.Rat).SetFrac(n, d)
	if small && (q.Num().BitLen() >= c32MaxExp || q.Denom().BitLen() >= c32MaxExp) {
		return "r:1:3"
	}
	// a fraction with a huge component must be small in magnitude to exist as ratVal
	if q.Num().BitLen() >= c32MaxExp || q.Denom().BitLen() >= c32MaxExp {
		diff := q.Num().BitLen() - q.Denom().BitLen()
		if diff > 4000 || diff < -4000 || !c32smooth(q.Denom()) {
			return "r:-7:22"
		}
	}
	return "r:" + q.Num().String() + ":" + q.Denom().String()
}

// only 2 and 5 as prime factors (denominator of a decimal literal)
func c32smooth(d *big.Int) bool {
	x := new(big.Int).Set(d)
	if x.Sign() <= 0 {
		return false
	}
	x.Rsh(x, x.TrailingZeroBits())
	five, m := big.NewInt(5), new(big.Int)
	for x.Cmp(big.NewInt(1)) > 0 {
		q, _ := new(big.Int).QuoRem(x, five, m)
		if m.Sign() != 0 {
			return false
		}
		x = q
	}
	return true
}

func c32randString(r *rand.Rand) string {
	n := r.Intn(24)
	if r.Intn(8) == 0 {
		n = r.Intn(300)
	}
	b := make([]byte, n)
	for i := range b {
		switch r.Intn(8) {
		case 0:
			b[i] = ':'
		case 1:
			b[i] = byte(r.Intn(256))
		case 2:
			b[i] = "\n\r\t\x00 /\\\"'"[r.Intn(9)]
		case 3:
			b[i] = byte(0x80 + r.Intn(128))
		default:
			b[i] = byte(0x20 + r.Intn(0x5f))
		}
	}
	if r.Intn(6) == 0 {
		return []string{"nil", "bool:true", "int:5", "float:1/2", "string:", "é:ü", "日本:語"}[r.Intn(7)] + string(b)
	}
	return string(b)
}

func c32pow2(k int) *big.Int { return new(big.Int).Lsh(big.NewInt(1), uint(k)) }

func c32edges(emit func(string)) {
	emit("rt n")
	emit("rt b true")
	emit("rt b false")
	var ints []*big.Int
	ints = append(ints, big.NewInt(0), big.NewInt(1), big.NewInt(9), big.NewInt(10), big.NewInt(11), big.NewInt(99), big.NewInt(100), big.NewInt(101))
	for _, k := range []int{7, 8, 15, 16, 31, 32, 53, 62, 63, 64, 65, 127, 128, 511, 512, 513, 1023, 1024, 4094, 4095, 4096, 5000, 10000} {
		p := c32pow2(k)
		ints = append(ints, p, new(big.Int).Sub(p, big.NewInt(1)), new(big.Int).Add(p, big.NewInt(1)))
	}
	for _, k := range []int{1, 2, 18, 19, 20, 100, 1232, 1233, 1234, 3000} {
		p := new(big.Int).Exp(c32ten, big.NewInt(int64(k)), nil)
		ints = append(ints, p, new(big.Int).Sub(p, big.NewInt(1)))
	}
	// the rounding band below 2^4095
	band := new(big.Int).Sub(c32pow2(4095), c32pow2(3582))
	ints = append(ints, band, new(big.Int).Sub(band, big.NewInt(1)), new(big.Int).Add(band, big.NewInt(1)),
		new(big.Int).Sub(c32pow2(4095), c32pow2(3583)))
	for _, x := range ints {
		for _, s := range []*big.Int{x, new(big.Int).Neg(x)} {
			emit("rt i " + s.String())
			emit("rt f i:" + s.String())
			emit("rt f " + c32ratSpec(s, big.NewInt(1), false))
			if s.Sign() != 0 {
				emit("rt f " + c32ratSpec(big.NewInt(1), s, false))
				emit("rt f " + c32ratSpec(new(big.Int).Add(s, big.NewInt(1)), s, false))
			}
			emit("rt z i:0 " + c32ratSpec(s, big.NewInt(1), false))
			emit("rt z i:" + s.String() + " i:0")
		}
		if x.BitLen() < 70 {
			emit("rt c " + x.String())
			emit("rt c -" + x.String())
		}
	}
	for _, c := range []string{"97", "1114111", "1114112", "65533", "55296", "-1", "2147483647", "2147483648", "-2147483648"} {
		emit("rt c " + c)
	}
	fl := []string{"r:1:3", "r:-1:3", "r:22:7", "r:1:10", "r:-3:2", "r:0:1", "i:0", "g:0:0", "g:1:0", "g:3:-1", "g:-3:-1", "g:1:4095", "g:1:4096", "g:1:-4096", "g:1:-4097",
		"g:1:5000", "g:-1:5000", "g:3:-5000", "g:5:16610", "g:7:-16610", "g:1:100000", "g:1:-100000", "g:9:1000000", "g:-11:-1000000", "g:1:9999999", "g:1:10000000", "g:-5:99999999", "g:3:-100000000", "g:7:999999000", "g:7:-999999000", "g:1:4094", "g:255:4088", "g:15:4091", "g:15:4092",
		"g:" + new(big.Int).Sub(c32pow2(512), big.NewInt(1)).String() + ":4000", "g:" + new(big.Int).Sub(c32pow2(512), big.NewInt(1)).String() + ":-5000",
		"g:" + new(big.Int).Sub(c32pow2(511), big.NewInt(1)).String() + ":3584", "g:" + new(big.Int).Add(c32pow2(511), big.NewInt(1)).String() + ":3583",
		"r:1:" + c32pow2(1074).String(), "r:1:" + c32pow2(149).String(), "r:1:" + c32pow2(4094).String(), "r:1:" + c32pow2(4095).String(), c32ratSpec(c32pow2(4000), c32pow2(4600), false),
		c32ratSpec(new(big.Int).Add(c32pow2(4200), big.NewInt(1)), c32pow2(4300), false), "r:" + new(big.Int).Sub(c32pow2(1024), c32pow2(971)).String() + ":1",
	}
	for _, k := range []int{1, 5, 62, 400, 1200, 1232, 1233, 1234, 1300, 1500, 2000} {
		d := new(big.Int).Exp(c32ten, big.NewInt(int64(k)), nil)
		fl = append(fl, c32ratSpec(new(big.Int).Add(d, big.NewInt(1)), d, false), c32ratSpec(big.NewInt(-1), d, false),
			c32ratSpec(new(big.Int).Sub(d, big.NewInt(3)), d, false))
	}
	for _, f := range fl {
		emit("rt f " + f)
	}
	small := []string{"i:0", "r:0:1", "i:1", "i:-1", "r:1:2", "r:-7:3", "g:1:5000", "g:-3:-6000", "g:0:0", "g:5:-2", "r:1:" + c32pow2(1074).String(), "i:" + c32pow2(4000).String()}
	for _, a := range small {
		for _, b := range small {
			emit("rt z " + a + " " + b)
		}
	}
	for _, s := range []string{"", ":", "a:b", "::", ":::x", "\n", "a\nb", "\x00", "\xff\xfe", "nil", "true", "bool:true", "string:x", "h\xc3\xa9llo", "\xe6\x97\xa5\xe6\x9c\xac", " ", "  x  ", "\\", "\\x41", "a/b", "1/2", "\"q\"", strings.Repeat(":", 50), strings.Repeat("ab:\xf0", 100)} {
		emit("rt s " + c32esc(s))
	}
	for _, s := range []string{"", "nil", "nil:", "nil:x", "bool", "bool:", "bool:true", "bool:false", "bool:True", "bool:true ", "bool:1", "int", "int:", "int:0", "int:-0", "int:+7", "int:007", "int:0x10", "int:1_000", "int:12a", "int:1 2", "int:-", "int:--1", "int:1.5", "int:1e3",
		"rune:97", "rune:", "rune:x", "float", "float:", "float:1", "float:-1", "float:007", "float:1/2", "float:1/0", "float:0/0", "float:0/5", "float:-0", "float:1/-2", "float:-1/-2", "float:/", "float:1/", "float:/2", "float:1/2/3", "float:1.5", "float:1e3", "float:inf", "float:Inf", "float:NaN",
		"float:0x.8p+1", "float:0x.8p1", "float:-0x.cp-3", "float:0x.8p+5000", "float:0x.8p-5000", "float:0x.0p+5", "float:0x.p+5", "float:0x.8p", "float:0x.8", "float:0x1p3", "float:0X.8P+1", "float:0x.8p+4095", "float:0x.8p+4096", "float:0x.8p-4095", "float:0x.8p-4096", "float:0x.ffp+4095",
		"float:0x.8p+5000/3", "float:3/0x.8p+5000", "float:0x.8p+5000/0", "float:0/0x.8p+5000", "float:0x.8p+5000/0x.8p+5000", "float:0x.8p+5000/0x.cp-5000", "float:1:2", "float: 1", "float:1 ", "float:+1", "float:+", "float:-",
		"complex", "complex:", "complex:1", "complex:1:2", "complex:1/2:3/4", "complex::", "complex:1:", "complex::1", "complex:1:2:3", "complex:1/0:1", "complex:1:1/0", "complex:x:1/0", "complex:0x.8p+5000:0x.8p-5000", "complex:1/0", "complex:0x.8p-4090:1", "complex:0x.8p-3500:1", "complex:0x.8p-3590:1",
		"string", "string:", "string:abc", "string::", "String:abc", "strin:abc", ":", "::", ":int:5", "int :5", " int:5", "INT:5", "uint:5", "float64:1", "complex128:1:2", "nil:int:5", "x"} {
		emit("un " + c32esc(s))
	}
}

var c32mutAlphabet = []byte(":/-+ ._xpe0123456789abfnilt\n")

func c32mutate(r *rand.Rand, s string) string {
	b := []byte(s)
	for n := 1 + r.Intn(2); n > 0; n-- {
		switch r.Intn(7) {
		case 0: // drop a byte
			if len(b) > 0 {
				i := r.Intn(len(b))
				b = append(b[:i:i], b[i+1:]...)
			}
		case 1: // insert
			i := r.Intn(len(b) + 1)
			c := c32mutAlphabet[r.Intn(len(c32mutAlphabet))]
			b = append(b[:i:i], append([]byte{c}, b[i:]...)...)
		case 2: // truncate
			if len(b) > 0 {
				b = b[:r.Intn(len(b))]
			}
		case 3: // replace kind tag
			if i := strings.IndexByte(string(b), ':'); i >= 0 {
				tags := []string{"nil", "bool", "int", "rune", "float", "complex", "string", "", "float64", "Int"}
				b = append([]byte(tags[r.Intn(len(tags))]), b[i:]...)
			}
		case 4: // replace a byte
			if len(b) > 0 {
				b[r.Intn(len(b))] = c32mutAlphabet[r.Intn(len(c32mutAlphabet))]
			}
		case 5: // near the head, where kind and separators are
			if len(b) > 0 {
				i := r.Intn(min(len(b), 12))
				b[i] = c32mutAlphabet[r.Intn(len(c32mutAlphabet))]
			}
		case 6: // swap '/' and ':'
			for i := range b {
				if b[i] == '/' && r.Intn(2) == 0 {
					b[i] = ':'
				} else if b[i] == ':' && r.Intn(3) == 0 {
					b[i] = '/'
				}
			}
		}
	}
	return string(b)
}

func c32randRt(r *rand.Rand) string {
	switch c := r.Intn(20); {
	case c == 0:
		return "rt b " + []string{"true", "false"}[r.Intn(2)]
	case c == 1:
		return "rt n"
	case c <= 4:
		return "rt i " + c32sign(r, c32randBig(r, c32bits(r))).String()
	case c <= 6:
		bits := 1 + r.Intn(33)
		return "rt c " + c32sign(r, c32randBig(r, bits)).String()
	case c <= 12:
		return "rt f " + c32randFlt(r, false)
	case c <= 16:
		switch r.Intn(4) {
		case 0:
			return "rt z i:0 " + c32randFlt(r, false)
		case 1:
			return "rt z " + c32randFlt(r, false) + " i:0"
		}
		return "rt z " + c32randFlt(r, true) + " " + c32randFlt(r, true)
	}
	return "rt s " + c32esc(c32randString(r))
}

func c32gen(r *rand.Rand, tier string, emit func(string)) {
	c32edges(emit)
	for _, e := range c32tables() {
		emit("tab " + e.pkg + "." + e.name + " " + c32esc(e.str))
	}
	n := 2500
	if tier == "thorough" {
		n = 60000
	}
	for i := 0; i < n; i++ {
		op := c32randRt(r)
		emit(op)
		if r.Intn(2) == 0 {
			// malformed stream: mutate the text the real Marshal produced for that constant
			res := c32rt(strings.TrimPrefix(op, "rt "))
			if m, _, ok := strings.Cut(res.Out, " => "); ok {
				emit("un " + c32esc(c32mutate(r, c32unesc(m))))
			}
		}
		if r.Intn(8) == 0 {
			b := make([]byte, r.Intn(14))
			for j := range b {
				b[j] = c32mutAlphabet[r.Intn(len(c32mutAlphabet))]
			}
			tags := []string{"nil", "bool:", "int:", "rune:", "float:", "complex:", "string:", ""}
			emit("un " + c32esc(tags[r.Intn(len(tags))]+string(b)))
		}
	}
}

func init() {
	register(&Prop{
		ID: "C32",
		Rule: "edge constants of every kind (0, powers of two and ten +-1, the 4095/4096-bit thresholds of go/constant, huge and tiny exponents, " +
			"non-dyadic fractions, strings with ':' / newline / non-UTF-8 bytes), every Untypeds entry of the import tables (oracle: go/types source importer), " +
			"then seeded random constants (rt) and mutated marshal texts (un); non-trivial = the text reached the real Unmarshal",
		Gen:        c32gen,
		Exec:       c32exec,
		Exhaustive: func(string) bool { return false },
	})
}
