//go:build race

package main

// With the race-detector build (props/C10.json, props/C33.json "race": true) the harness restarts itself once with
// GORACE="exitcode=0 log_path=<out>/race": reports go to a file that c10exec reads after every op
// (so that a report is attributed to the program that was running) and do not change the exit status.

import (
	"os"
	"path/filepath"
	"syscall"
)

func init() {
	if os.Getenv("GORACE") != "" || len(os.Args) < 3 || os.Args[1] != "run" {
		return
	}
	prop, out := "", ""
	for i := 2; i+1 < len(os.Args); i++ {
		switch os.Args[i] {
		case "-prop":
			prop = os.Args[i+1]
		case "-out":
			out = os.Args[i+1]
		}
	}
	if (prop != "C10" && prop != "C33") || out == "" {
		return
	}
	self, err := os.Executable()
	if err != nil {
		return
	}
	os.MkdirAll(out, 0o755)
	logp := filepath.Join(out, "race")
	old, _ := filepath.Glob(logp + ".*")
	for _, f := range old {
		os.Remove(f)
	}
	env := append(os.Environ(), "GORACE=exitcode=0 log_path="+logp, "C10_RACE_LOG="+logp)
	syscall.Exec(self, os.Args, env)
}
