package main

// C30: synthetic packages, serialisation of standard and fork type graphs.

import (
	"fmt"
	"go/ast"
	"go/parser"
	"go/token"
	gotypes "go/types"
	"math/rand"
	"sort"
	"strconv"
	"strings"

	"github.com/cosmos72/gomacro/go/types"
)

func c30q(s string) string { return "'" + strings.ReplaceAll(s, " ", "~") }

// ---------------------------------------------------------------- standard side -> op tokens

type c30enc struct {
	sid   map[*gotypes.TypeName]int
	decls []*gotypes.TypeName
}

func (e *c30enc) typ(t gotypes.Type, out *[]string) {
	put := func(s ...string) { *out = append(*out, s...) }
	switch t := t.(type) {
	case *gotypes.Basic:
		put("b", strconv.Itoa(int(t.Kind())), c30q(t.Name()))
	case *gotypes.Named:
		o := t.Obj()
		id, ok := e.sid[o]
		if !ok {
			id = len(e.decls)
			e.sid[o] = id
			e.decls = append(e.decls, o)
		}
		put("n", strconv.Itoa(id))
	case *gotypes.TypeParam:
		put("tp")
	case *gotypes.Array:
		put("N", "arr", strconv.FormatInt(t.Len(), 10), "1")
		e.typ(t.Elem(), out)
	case *gotypes.Slice:
		put("N", "sl", "1")
		e.typ(t.Elem(), out)
	case *gotypes.Pointer:
		put("N", "pt", "1")
		e.typ(t.Elem(), out)
	case *gotypes.Chan:
		put("N", "ch", strconv.Itoa(int(t.Dir())), "1")
		e.typ(t.Elem(), out)
	case *gotypes.Map:
		put("N", "mp", "2")
		e.typ(t.Key(), out)
		e.typ(t.Elem(), out)
	case *gotypes.Signature:
		e.sig(t, true, out)
	case *gotypes.Struct:
		put("N", "st", strconv.Itoa(t.NumFields()))
		for i := 0; i < t.NumFields(); i++ {
			f := t.Field(i)
			put(c30q(f.Name()), c30q(c30pkgPath(f.Pkg())), c30b(f.Anonymous()), c30q(t.Tag(i)))
		}
		put(strconv.Itoa(t.NumFields()))
		for i := 0; i < t.NumFields(); i++ {
			e.typ(t.Field(i).Type(), out)
		}
	case *gotypes.Interface:
		n := t.NumExplicitMethods()
		put("N", "if", strconv.Itoa(n))
		for i := 0; i < n; i++ {
			m := t.ExplicitMethod(i)
			put(c30q(m.Name()), c30q(c30pkgPath(m.Pkg())))
		}
		put(strconv.Itoa(n + t.NumEmbeddeds()))
		for i := 0; i < n; i++ {
			e.sig(t.ExplicitMethod(i).Type().(*gotypes.Signature), false, out)
		}
		for i := 0; i < t.NumEmbeddeds(); i++ {
			e.typ(t.EmbeddedType(i), out)
		}
	default:
		panic(fmt.Sprintf("c30enc: %T", t))
	}
}

func c30b(b bool) string {
	if b {
		return "1"
	}
	return "0"
}

func (e *c30enc) sig(t *gotypes.Signature, withRecv bool, out *[]string) {
	put := func(s ...string) { *out = append(*out, s...) }
	recv := withRecv && t.Recv() != nil
	np, nr := t.Params().Len(), t.Results().Len()
	put("N", "sg", c30b(t.Variadic()), c30b(recv), strconv.Itoa(np))
	k := np + nr
	if recv {
		put(c30q(t.Recv().Name()))
		k++
	}
	for i := 0; i < np; i++ {
		put(c30q(t.Params().At(i).Name()))
	}
	for i := 0; i < nr; i++ {
		put(c30q(t.Results().At(i).Name()))
	}
	put(strconv.Itoa(k))
	if recv {
		e.typ(t.Recv().Type(), out)
	}
	for i := 0; i < np; i++ {
		e.typ(t.Params().At(i).Type(), out)
	}
	for i := 0; i < nr; i++ {
		e.typ(t.Results().At(i).Type(), out)
	}
}

// c30encode serialises a type-checked package: declarations (closed under reference) and objects.
func c30encode(p *gotypes.Package) string {
	e := &c30enc{sid: map[*gotypes.TypeName]int{}}
	var objs []string
	nobj := 0
	for _, name := range p.Scope().Names() {
		o := p.Scope().Lookup(name)
		nobj++
		objs = append(objs, c30kind(o), c30q(name))
		e.typ(o.Type(), &objs)
	}
	var decls []string
	for i := 0; i < len(e.decls); i++ { // grows while we go
		o := e.decls[i]
		n := o.Type().(*gotypes.Named)
		decls = append(decls, c30q(c30pkgPath(o.Pkg())), c30q(o.Name()))
		e.typ(n.Underlying(), &decls)
		nm := n.NumMethods()
		if _, isIface := n.Underlying().(*gotypes.Interface); isIface {
			nm = 0
		}
		decls = append(decls, strconv.Itoa(nm))
		for j := 0; j < nm; j++ {
			m := n.Method(j)
			decls = append(decls, c30q(m.Name()))
			e.sig(m.Type().(*gotypes.Signature), true, &decls)
		}
	}
	return strconv.Itoa(len(e.decls)) + " " + strings.Join(decls, " ") + " " + strconv.Itoa(nobj) + " " + strings.Join(objs, " ")
}

// ---------------------------------------------------------------- fork side -> dump tokens

type c30dump struct {
	seen  map[*types.TypeName]bool
	order []*types.Named
}

func (d *c30dump) typ(t types.Type, out *[]string) {
	put := func(s ...string) { *out = append(*out, s...) }
	switch t := t.(type) {
	case *types.Basic:
		put("b", strconv.Itoa(int(t.Kind())), c30q(t.Name()))
	case *types.Named:
		o := t.Obj()
		put("n", c30fpkgPath(o.Pkg())+"."+o.Name())
		if !d.seen[o] && o.Pkg() != nil {
			d.seen[o] = true
			d.order = append(d.order, t)
		}
	case *types.Array:
		put("N", "arr", strconv.FormatInt(t.Len(), 10), "1")
		d.typ(t.Elem(), out)
	case *types.Slice:
		put("N", "sl", "1")
		d.typ(t.Elem(), out)
	case *types.Pointer:
		put("N", "pt", "1")
		d.typ(t.Elem(), out)
	case *types.Chan:
		put("N", "ch", strconv.Itoa(int(t.Dir())), "1")
		d.typ(t.Elem(), out)
	case *types.Map:
		put("N", "mp", "2")
		d.typ(t.Key(), out)
		d.typ(t.Elem(), out)
	case *types.Signature:
		d.sig(t, true, out)
	case *types.Struct:
		put("N", "st", strconv.Itoa(t.NumFields()))
		for i := 0; i < t.NumFields(); i++ {
			f := t.Field(i)
			put(c30q(f.Name()), c30q(c30fpkgPath(f.Pkg())), c30b(f.Anonymous()), c30q(t.Tag(i)))
		}
		put(strconv.Itoa(t.NumFields()))
		for i := 0; i < t.NumFields(); i++ {
			d.typ(t.Field(i).Type(), out)
		}
	case *types.Interface:
		n := t.NumExplicitMethods()
		put("N", "if", strconv.Itoa(n))
		for i := 0; i < n; i++ {
			m := t.ExplicitMethod(i)
			put(c30q(m.Name()), c30q(c30fpkgPath(m.Pkg())))
		}
		put(strconv.Itoa(n + t.NumEmbeddeds()))
		for i := 0; i < n; i++ {
			d.sig(t.ExplicitMethod(i).Type().(*types.Signature), false, out)
		}
		for i := 0; i < t.NumEmbeddeds(); i++ {
			d.typ(t.EmbeddedType(i), out)
		}
	case nil:
		put("nil")
	default:
		panic(fmt.Sprintf("c30dump: %T", t))
	}
}

func (d *c30dump) sig(t *types.Signature, withRecv bool, out *[]string) {
	put := func(s ...string) { *out = append(*out, s...) }
	recv := withRecv && t.Recv() != nil
	np, nr := t.Params().Len(), t.Results().Len()
	put("N", "sg", c30b(t.Variadic()), c30b(recv), strconv.Itoa(np))
	k := np + nr
	if recv {
		put(c30q(t.Recv().Name()))
		k++
	}
	for i := 0; i < np; i++ {
		put(c30q(t.Params().At(i).Name()))
	}
	for i := 0; i < nr; i++ {
		put(c30q(t.Results().At(i).Name()))
	}
	put(strconv.Itoa(k))
	if recv {
		d.typ(t.Recv().Type(), out)
	}
	for i := 0; i < np; i++ {
		d.typ(t.Params().At(i).Type(), out)
	}
	for i := 0; i < nr; i++ {
		d.typ(t.Results().At(i).Type(), out)
	}
}

// c30dumpPackage prints the converted objects (sorted by name, like Scope.Names) and then every
// reachable named type in first-visit order with its underlying type and declared methods.
func c30dumpPackage(p *types.Package, names []string) string {
	d := &c30dump{seen: map[*types.TypeName]bool{}}
	var out []string
	for _, name := range names {
		o := p.Scope().Lookup(name)
		if o == nil {
			continue
		}
		out = append(out, c30fkind(o), c30q(name))
		d.typ(o.Type(), &out)
	}
	for i := 0; i < len(d.order); i++ {
		n := d.order[i]
		out = append(out, "|", "T", c30q(c30fpkgPath(n.Obj().Pkg())), c30q(n.Obj().Name()))
		d.typ(n.Underlying(), &out)
		nm := n.NumMethods()
		if _, isIface := n.Underlying().(*types.Interface); isIface {
			nm = 0
		}
		out = append(out, strconv.Itoa(nm))
		for j := 0; j < nm; j++ {
			m := n.Method(j)
			out = append(out, c30q(m.Name()))
			d.sig(m.Type().(*types.Signature), true, &out)
		}
	}
	return strings.Join(out, " ")
}

// ---------------------------------------------------------------- syn op

func c30check(src string) (*gotypes.Package, error) {
	fset := token.NewFileSet()
	file, err := parser.ParseFile(fset, "p.go", strings.ReplaceAll(src, "; ", "\n"), 0)
	if err != nil {
		return nil, err
	}
	return (&gotypes.Config{}).Check("p", fset, []*ast.File{file}, nil)
}

func c30syn(arg string, add func(string, string, ...interface{}), res *Result) string {
	i := strings.Index(arg, " ## ")
	if i < 0 {
		return "bad-op"
	}
	tokens, src := arg[:i], arg[i+4:]
	sp, err := c30check(src)
	if err != nil {
		return "bad-source " + oneLine(err.Error())
	}
	if enc := c30encode(sp); enc != tokens {
		add("harness-syn-encoding", "the op tokens are not the encoding of its source")
	}
	conv := &types.Converter{}
	conv.Init(types.Universe)
	fp := conv.Package(sp)
	// the generic oracle on the synthetic package as well
	s2f, f2s := c30s2f, c30f2s
	c30s2f, c30f2s = map[*gotypes.TypeName]*types.Named{}, map[*types.Named]*gotypes.TypeName{}
	c30compareAll(sp, fp, add, res)
	c30s2f, c30f2s = s2f, f2s
	return c30dumpPackage(fp, sp.Scope().Names())
}

// c30compareAll: like c30compare but over every object of the scope (synthetic packages also declare
// unexported objects, which Package converts too)
func c30compareAll(sp *gotypes.Package, fp *types.Package, add func(string, string, ...interface{}), res *Result) {
	w := &c30walker{add: add, seen: map[*gotypes.TypeName]bool{}}
	for _, name := range sp.Scope().Names() {
		so := sp.Scope().Lookup(name)
		fo := fp.Scope().Lookup(name)
		if fo == nil {
			add("object-missing:"+c30kind(so), "%s", name)
			continue
		}
		if a, b := c30kind(so), c30fkind(fo); a != b {
			add("object-kind", "%s: std %s fork %s", name, a, b)
			continue
		}
		w.walk(so.Type(), fo.Type(), name)
		ss := c30anyRe.ReplaceAllString(gotypes.TypeString(so.Type(), c30qs), "interface{}")
		if fs := types.TypeString(fo.Type(), c30qf); ss != fs {
			add("typestring:"+c30kind(so), "%s: std %s | fork %s", name, truncate(ss, 200), truncate(fs, 200))
		}
		if tn, ok := so.(*gotypes.TypeName); ok {
			c30methodSets(tn.Type(), fo.Type(), name, add, w)
		}
	}
}

// ---------------------------------------------------------------- synthetic source

type c30src struct {
	r      *rand.Rand
	ntypes int
	kinds  []string // per type: struct, iface, other
}

var c30basics = []string{"int", "string", "byte", "rune", "bool", "float64", "uint8", "int32", "error", "uintptr", "complex128"}

func (g *c30src) basic() string { return c30basics[g.r.Intn(len(c30basics))] }

// ref returns a reference to a declared type usable anywhere (through indirection when needed by the caller)
func (g *c30src) named() string { return "T" + strconv.Itoa(g.r.Intn(g.ntypes)) }

// texpr: a type expression of bounded depth; named types occur freely below pointer/slice/map/chan/func
func (g *c30src) texpr(depth int, indirect bool) string {
	r := g.r
	if depth <= 0 {
		if indirect && r.Intn(2) == 0 {
			return g.named()
		}
		return g.basic()
	}
	switch r.Intn(9) {
	case 0:
		return "*" + g.texpr(depth-1, true)
	case 1:
		return "[]" + g.texpr(depth-1, true)
	case 2:
		return "[" + strconv.Itoa(r.Intn(4)) + "]" + g.texpr(depth-1, indirect)
	case 3:
		keys := []string{"int", "string", "byte", "rune", "bool", "[2]int", "*T0", "struct{ K int }", "interface{}"}
		return "map[" + keys[r.Intn(len(keys))] + "]" + g.texpr(depth-1, true)
	case 4:
		return []string{"chan ", "chan<- ", "<-chan "}[r.Intn(3)] + g.texpr(depth-1, true)
	case 5:
		return "func" + g.sig(depth-1)
	case 6:
		return g.structT(depth-1, -1)
	case 7:
		if indirect {
			return g.named()
		}
		return g.basic()
	default:
		return g.basic()
	}
}

var c30pnames = []string{"a", "b", "x", "y", "n", "s", "_", ""}

func (g *c30src) sig(depth int) string {
	r := g.r
	np, nr := r.Intn(3), r.Intn(3)
	named := r.Intn(2) == 0
	var ps, rs []string
	for i := 0; i < np; i++ {
		t := g.texpr(depth, true)
		if i == np-1 && r.Intn(4) == 0 {
			t = "..." + t
		}
		if named {
			t = c30pnames[r.Intn(6)] + strconv.Itoa(i) + " " + t
		}
		ps = append(ps, t)
	}
	rnamed := r.Intn(3) == 0
	for i := 0; i < nr; i++ {
		t := g.texpr(depth, true)
		if rnamed {
			t = "r" + strconv.Itoa(i) + " " + t
		}
		rs = append(rs, t)
	}
	s := "(" + strings.Join(ps, ", ") + ")"
	if nr == 1 && !rnamed {
		s += " " + rs[0]
	} else if nr > 0 {
		s += " (" + strings.Join(rs, ", ") + ")"
	}
	return s
}

// structT: self = index of the type being declared (embedding / by-value fields only of earlier types)
func (g *c30src) structT(depth int, self int) string {
	r := g.r
	nf := r.Intn(4)
	var fs []string
	used := map[string]bool{}
	for i := 0; i < nf; i++ {
		name := []string{"A", "B", "c", "Dd", "e", "_"}[r.Intn(6)]
		if r.Intn(5) == 0 && self > 0 {
			// embedded earlier struct type, by value or by pointer
			j := r.Intn(self)
			if g.kinds[j] == "struct" || g.kinds[j] == "iface" {
				name = "T" + strconv.Itoa(j)
				if used[name] {
					continue
				}
				used[name] = true
				if g.kinds[j] == "struct" && r.Intn(2) == 0 {
					fs = append(fs, "*"+name)
				} else {
					fs = append(fs, name)
				}
				continue
			}
		}
		if name != "_" && used[name] {
			continue
		}
		used[name] = true
		f := name + " " + g.texpr(depth, true)
		if self >= 0 && r.Intn(6) == 0 && self > 0 {
			f = name + " T" + strconv.Itoa(r.Intn(self)) // by value: earlier types only
			if k := g.kinds[r.Intn(self)]; k == "" {
				_ = k
			}
		}
		if r.Intn(4) == 0 {
			f += " `k:\"" + name + "\"`"
		}
		fs = append(fs, f)
	}
	return "struct{ " + strings.Join(fs, "; ") + " }"
}

// c30genSyn builds one synthetic package and its op line ("" if go/types rejects the source).
func c30genSyn(r *rand.Rand, idx int) string {
	g := &c30src{r: r, ntypes: 2 + r.Intn(5)}
	g.kinds = make([]string, g.ntypes)
	var decls []string
	var ifaces []int
	for i := 0; i < g.ntypes; i++ {
		switch k := r.Intn(6); {
		case k <= 1:
			g.kinds[i] = "struct"
		case k == 2:
			g.kinds[i] = "iface"
			ifaces = append(ifaces, i)
		default:
			g.kinds[i] = "other"
		}
	}
	mnames := []string{"M", "N", "p", "Q"}
	for i := 0; i < g.ntypes; i++ {
		name := "T" + strconv.Itoa(i)
		switch g.kinds[i] {
		case "struct":
			decls = append(decls, "type "+name+" "+g.structT(2, i))
		case "iface":
			var ms []string
			used := map[string]bool{}
			for j := 0; j < r.Intn(3); j++ {
				m := mnames[r.Intn(len(mnames))]
				if !used[m] {
					used[m] = true
					ms = append(ms, m+g.sig(1))
				}
			}
			// embedded interfaces: earlier ones, in name order (go/types keeps source order, the fork sorts)
			var emb []int
			for _, j := range ifaces {
				if j < i && r.Intn(3) == 0 {
					emb = append(emb, j)
				}
			}
			sort.Ints(emb)
			for _, j := range emb {
				ms = append(ms, "T"+strconv.Itoa(j))
			}
			decls = append(decls, "type "+name+" interface{ "+strings.Join(ms, "; ")+" }")
		default:
			decls = append(decls, "type "+name+" "+g.texpr(2, true))
		}
	}
	// methods on non-interface, non-pointer named types
	for i := 0; i < g.ntypes; i++ {
		if g.kinds[i] == "iface" {
			continue
		}
		used := map[string]bool{}
		for j := 0; j < r.Intn(3); j++ {
			m := mnames[r.Intn(len(mnames))] + "m"
			if used[m] {
				continue
			}
			used[m] = true
			recv := "T" + strconv.Itoa(i)
			if r.Intn(2) == 0 {
				recv = "*" + recv
			}
			rn := []string{"t ", "_ ", ""}[r.Intn(3)]
			decls = append(decls, "func ("+rn+recv+") "+m+g.sig(1)+" { panic(0) }")
		}
	}
	for i := 0; i < 1+r.Intn(3); i++ {
		decls = append(decls, "var V"+strconv.Itoa(i)+" "+g.texpr(2, true))
	}
	// functions: pairs with identical signatures but different parameter names
	for i := 0; i < 1+r.Intn(2); i++ {
		t := g.texpr(1, true)
		decls = append(decls, fmt.Sprintf("func F%d(a %s, b int) (r %s) { panic(0) }", i, t, t))
		decls = append(decls, fmt.Sprintf("func G%d(x %s, y int) %s { panic(0) }", i, t, t))
	}
	decls = append(decls, "const C0 = 1 << 70", "const C1 float32 = 1.5", "const c2 = \"s\"", "const C3 rune = 'x'")
	src := "package p; " + strings.Join(decls, "; ")
	sp, err := c30check(src)
	if err != nil {
		return ""
	}
	return "syn " + c30encode(sp) + " ## " + src
}
