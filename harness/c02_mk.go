package main

// C02, fourth part: place operands that are NON-BASIC variables assigned by another place of the
// same multi-assignment (phase 1 must snapshot them).
//
//	mk <kind> <stor> <lhs>... = <rhs>...
//
//	kind  arr ([2]int key)  str (struct key)  ifc (interface{} key)  ptr (*struct key)  deref (the place is *K, K a *int)
//	stor  G (statement in a function, package-level state)  T (statement at top level)  L (locals)
//	lhs   K (the key / pointer variable)  X (an int variable)  MK (the place M[K], for deref: *K)
//	rhs   k1 k2 k3 (the three key constants)  #<n> (int)
//
// Output: "<id of K> <M[K1]> <M[K2]> <M[K3]> <len(M)> <X>" (deref: the three targets, len 0).
// Oracle: the same source compiled by Go (runGoBatch).

import (
	"fmt"
	"strings"
)

var c02mkKinds = map[string][5]string{
	// key type, extra decls, K1, K2, K3
	"arr":   {"[2]int", "", "[2]int{1, 1}", "[2]int{2, 2}", "[2]int{3, 3}"},
	"str":   {"KS%s", "type KS%s struct { A, B int }\n", "KS%s{1, 1}", "KS%s{2, 2}", "KS%s{3, 3}"},
	"ifc":   {"interface{}", "", "interface{}(\"a\")", "interface{}(2)", "interface{}(3.5)"},
	"ptr":   {"*KP%s", "type KP%s struct { A int }\nvar s1%s, s2%s, s3%s KP%s\n", "&s1%s", "&s2%s", "&s3%s"},
	"deref": {"*int", "var T1%s, T2%s, T3%s int\n", "&T1%s", "&T2%s", "&T3%s"},
}

type c02mk struct {
	kind, stor string
	lhs, rhs   []string
}

func c02mkParse(line string) (*c02mk, bool) {
	f := strings.Fields(line)
	if len(f) < 6 || f[0] != "mk" {
		return nil, false
	}
	m := &c02mk{kind: f[1], stor: f[2]}
	if _, ok := c02mkKinds[m.kind]; !ok {
		return nil, false
	}
	if m.stor != "G" && m.stor != "T" && m.stor != "L" {
		return nil, false
	}
	eq := -1
	for i, t := range f[3:] {
		if t == "=" {
			eq = i + 3
		}
	}
	if eq < 0 {
		return nil, false
	}
	m.lhs, m.rhs = f[3:eq], f[eq+1:]
	if len(m.lhs) != len(m.rhs) || len(m.lhs) < 2 || len(m.lhs) > 4 {
		return nil, false
	}
	for i, t := range m.lhs {
		r := m.rhs[i]
		switch t {
		case "K":
			if r != "k1" && r != "k2" && r != "k3" {
				return nil, false
			}
		case "X", "MK":
			if !strings.HasPrefix(r, "#") || len(r) < 2 || len(r) > 4 {
				return nil, false
			}
			for _, ch := range r[1:] {
				if ch < '0' || ch > '9' {
					return nil, false
				}
			}
		default:
			return nil, false
		}
	}
	return m, true
}

func (m *c02mk) stmt(n string) string {
	var l, r []string
	for i, t := range m.lhs {
		switch t {
		case "K":
			l = append(l, "K"+n)
		case "X":
			l = append(l, "X"+n)
		case "MK":
			if m.kind == "deref" {
				l = append(l, "*K"+n)
			} else {
				l = append(l, "M"+n+"[K"+n+"]")
			}
		}
		switch x := m.rhs[i]; x {
		case "k1", "k2", "k3":
			r = append(r, "K"+x[1:]+"c"+n)
		default:
			r = append(r, x[1:])
		}
	}
	return strings.Join(l, ", ") + " = " + strings.Join(r, ", ")
}

func (m *c02mk) decls(n string) string {
	k := c02mkKinds[m.kind]
	fill := func(s string) string { return strings.ReplaceAll(s, "%s", n) }
	KT := fill(k[0])
	var b strings.Builder
	b.WriteString(fill(k[1]))
	fmt.Fprintf(&b, "var K1c%s, K2c%s, K3c%s %s = %s, %s, %s\n", n, n, n, KT, fill(k[2]), fill(k[3]), fill(k[4]))
	id := fmt.Sprintf("kid := 0; if K%s == K1c%s { kid = 1 } else if K%s == K2c%s { kid = 2 } else if K%s == K3c%s { kid = 3 }", n, n, n, n, n, n)
	var res string
	if m.kind == "deref" {
		res = fmt.Sprintf("kid, T1%s, T2%s, T3%s, 0, X%s", n, n, n, n)
	} else {
		res = fmt.Sprintf("kid, M%s[K1c%s], M%s[K2c%s], M%s[K3c%s], len(M%s), X%s", n, n, n, n, n, n, n, n)
	}
	if m.stor == "L" {
		fmt.Fprintf(&b, "func F%s() (int, int, int, int, int, int) {\n\tK%s := K1c%s; M%s := map[%s]int{}; X%s := 0\n\t_ = M%s\n", n, n, n, n, mapKey(m.kind, KT), n, n)
		if m.kind == "deref" {
			fmt.Fprintf(&b, "\tT1%s, T2%s, T3%s = 0, 0, 0\n", n, n, n)
		}
		fmt.Fprintf(&b, "\t%s\n\t%s\n\treturn %s\n}\n", m.stmt(n), id, res)
		return b.String()
	}
	fmt.Fprintf(&b, "var K%s %s\nvar M%s map[%s]int\nvar X%s int\n", n, KT, n, mapKey(m.kind, KT), n)
	fmt.Fprintf(&b, "func Init%s() int {\n\tK%s = K1c%s; M%s = map[%s]int{}; X%s = 0\n", n, n, n, n, mapKey(m.kind, KT), n)
	if m.kind == "deref" {
		fmt.Fprintf(&b, "\tT1%s, T2%s, T3%s = 0, 0, 0\n", n, n, n)
	}
	b.WriteString("\treturn 0\n}\n")
	fmt.Fprintf(&b, "func Get%s() (int, int, int, int, int, int) {\n\t%s\n\treturn %s\n}\n", n, id, res)
	if m.stor == "G" {
		fmt.Fprintf(&b, "func F%s() int {\n\t%s\n\treturn 0\n}\n", n, m.stmt(n))
	}
	return b.String()
}

func mapKey(kind, KT string) string {
	if kind == "deref" {
		return "int"
	}
	return KT
}

func c02mkSnippet(line string) (Snippet, bool) {
	m, ok := c02mkParse(line)
	if !ok {
		return Snippet{}, false
	}
	mm := *m
	if mm.stor == "T" {
		mm.stor = "G"
	}
	body := "\tInit()\n\tF()\n\ta, b, c, d, e, f := Get()\n\temit(fmt.Sprint(a, b, c, d, e, f))\n"
	if mm.stor == "L" {
		body = "\ta, b, c, d, e, f := F()\n\temit(fmt.Sprint(a, b, c, d, e, f))\n"
	}
	return Snippet{Decls: mm.decls(""), Body: body}, true
}

func c02execMk(line string) Result {
	m, ok := c02mkParse(line)
	if !ok {
		return Result{Out: "bad-op", Tags: []string{"bad-op"}}
	}
	tags := []string{"class:mk", "kind:" + m.kind, "stor:" + m.stor}
	key := "mk-" + m.kind + "-" + m.stor + "-" + strings.Join(m.lhs, ",")
	if c02goErr != "" {
		return Result{Out: "oracle-error", Viol: "compiled-Go oracle failed: " + c02goErr, Key: "oracle-build", Tags: tags}
	}
	c02seq++
	n := fmt.Sprint(c02seq)
	ir := c02interp(false)
	if _, e := evalSrc(ir, m.decls(n)); e != "" {
		return Result{Out: "E", Viol: "gomacro rejects valid declarations (" + line + "): " + e, Key: key + "-rejected", Tags: tags, Nontrivial: true}
	}
	var src string
	switch m.stor {
	case "L":
		src = "F" + n + "()"
	case "G":
		src = "Init" + n + "(); F" + n + "(); Get" + n + "()"
	default:
		src = "Init" + n + "(); " + m.stmt(n) + "; Get" + n + "()"
	}
	vals, e := evalSrc(ir, src)
	var got string
	if e != "" {
		got = "P:" + c02panicNorm(e)
	} else {
		var s []string
		for _, v := range vals {
			s = append(s, fmt.Sprint(v.Int()))
		}
		got = strings.Join(s, " ")
	}
	res := Result{Out: got, Tags: tags, Nontrivial: true, Key: key}
	if want, ok := c02goOut[line]; ok && len(want) > 0 {
		if w := strings.TrimSpace(want[0]); w != got {
			res.Viol = fmt.Sprintf("%s: gomacro gives [%s], compiled Go gives [%s] (id of K, M[K1], M[K2], M[K3], len(M), X): the operands of a place must be evaluated before any assignment of the statement", line, got, w)
		}
	} else {
		res.Viol = "no compiled-Go output for " + line
		res.Key = "oracle-missing"
	}
	return res
}

var c02mkPatterns = []string{
	"K MK = k2 #7",
	"MK K = #7 k2",
	"X K MK = #1 k2 #7",
	"K MK MK = k3 #7 #8",
	"K MK K = k2 #7 k3",
	"MK K MK = #5 k2 #6",
	"X MK = #4 #9",
	"K X MK K = k2 #3 #7 k1",
}

func c02genMk(g *c02gen) {
	for _, kind := range []string{"arr", "str", "ifc", "ptr", "deref"} {
		for _, st := range []string{"G", "T", "L"} {
			for _, p := range c02mkPatterns {
				g.emit("mk " + kind + " " + st + " " + p)
			}
		}
	}
}
