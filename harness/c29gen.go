package main

// C29 generator: type terms -> constructor histories.

import (
	"fmt"
	"math/rand"
	"sort"
	"strconv"
	"strings"

	"github.com/cosmos72/gomacro/imports"
)

// c29term is a type expression to be built through the universe constructors.
type c29term struct {
	op       string // basic special arr slice ptr chan map func struct named(ref to a prelude line)
	n        int
	variadic bool
	nin      int
	kids     []*c29term
	fnames   []string
	ftags    []string
	key      string
}

func (t *c29term) String() string {
	if t.key != "" {
		return t.key
	}
	var sb strings.Builder
	sb.WriteString(t.op)
	sb.WriteString(strconv.Itoa(t.n))
	if t.variadic {
		sb.WriteByte('v')
	}
	sb.WriteString(strconv.Itoa(t.nin))
	sb.WriteByte('(')
	for i, k := range t.kids {
		if i > 0 {
			sb.WriteByte(',')
		}
		if t.op == "struct" {
			sb.WriteString(t.fnames[i] + ":" + t.ftags[i] + ":")
		}
		sb.WriteString(k.String())
	}
	sb.WriteByte(')')
	t.key = sb.String()
	return t.key
}

func (t *c29term) depth() int {
	d := 0
	for _, k := range t.kids {
		if kd := k.depth(); kd > d {
			d = kd
		}
	}
	if len(t.kids) == 0 && t.op != "struct" && t.op != "func" {
		return 0
	}
	return d + 1
}

// comparable as Go defines it for the term (named preludes: see c29prelude)
func (t *c29term) comparable() bool {
	switch t.op {
	case "slice", "map", "func":
		return false
	case "arr":
		return t.kids[0].comparable()
	case "struct":
		for _, k := range t.kids {
			if !k.comparable() {
				return false
			}
		}
	case "named":
		return c29prelude[t.n].comparable
	}
	return true
}

func (t *c29term) embeddable() bool {
	switch t.op {
	case "basic":
		return t.n != 26 // unsafe.Pointer cannot be embedded
	case "named":
		return c29prelude[t.n].under != "ptr"
	case "ptr":
		k := t.kids[0]
		return (k.op == "basic" && k.n != 26) || (k.op == "named" && c29prelude[k.n].under != "ptr" && c29prelude[k.n].under != "iface")
	}
	return false
}

func (t *c29term) embName() string {
	switch t.op {
	case "basic":
		return strings.TrimPrefix(c29basicNames[t.n], "unsafe.")
	case "named":
		return c29prelude[t.n].name
	case "ptr":
		return t.kids[0].embName()
	}
	return ""
}

// named types every history may declare up front: ops with %N = the name, lines relative
var c29prelude = []struct {
	name       string
	under      string
	ops        []string // appended after `named`; $N = the named line, $+k = k-th line after it
	comparable bool
}{
	{"Ni", "int", []string{"basic 2", "setu $N $+1"}, true},
	{"Ns", "struct", []string{"basic 3", "basic 6", "struct A::ta:$+1;B:::$+2", "setu $N $+3"}, true},
	{"Nl", "slice", []string{"basic 24", "slice $+1", "setu $N $+2"}, false},
	{"Np", "ptr", []string{"basic 2", "ptr $+1", "setu $N $+2"}, true},
	{"Nf", "func", []string{"func 0 - -", "setu $N $+1"}, false},
}

// c29lin linearises terms into op lines of one history.
type c29lin struct {
	ops    []string
	n      int // number of tracked lines so far
	memo   map[string]int
	named  map[int]int // prelude index -> line
	r      *rand.Rand
	refsOf []int
}

func (l *c29lin) emit(op string) int {
	l.ops = append(l.ops, op)
	if c29tracked(op) {
		l.n++
		return l.n - 1
	}
	return -1
}

func (l *c29lin) declare(i int) int {
	if ln, ok := l.named[i]; ok {
		return ln
	}
	p := c29prelude[i]
	base := l.emit("named " + p.name)
	l.named[i] = base
	for _, op := range p.ops {
		op = strings.ReplaceAll(op, "$N", "$"+strconv.Itoa(base))
		for k := 9; k >= 1; k-- {
			op = strings.ReplaceAll(op, "$+"+strconv.Itoa(k), "$"+strconv.Itoa(base+k))
		}
		l.emit(op)
	}
	return base
}

// build emits the ops constructing t (post-order); share = reuse lines of equal subterms.
func (l *c29lin) build(t *c29term, share bool) int {
	key := t.String()
	if share {
		if ln, ok := l.memo[key]; ok {
			return ln
		}
	}
	var ln int
	switch t.op {
	case "named":
		ln = l.declare(t.n)
	case "basic", "special":
		ln = l.emit(fmt.Sprintf("%s %d", t.op, t.n))
	default:
		refs := make([]string, len(t.kids))
		for i, k := range t.kids {
			refs[i] = "$" + strconv.Itoa(l.build(k, share))
		}
		switch t.op {
		case "arr", "chan":
			ln = l.emit(fmt.Sprintf("%s %d %s", t.op, t.n, refs[0]))
		case "slice", "ptr":
			ln = l.emit(t.op + " " + refs[0])
		case "map":
			ln = l.emit("map " + refs[0] + " " + refs[1])
		case "func":
			in, out := "-", "-"
			if t.nin > 0 {
				in = strings.Join(refs[:t.nin], ",")
			}
			if len(refs) > t.nin {
				out = strings.Join(refs[t.nin:], ",")
			}
			v := "0"
			if t.variadic {
				v = "1"
			}
			ln = l.emit("func " + v + " " + in + " " + out)
		case "struct":
			var fs []string
			for i := range t.kids {
				pkg := ""
				if n := t.fnames[i]; n != "" && !(n[0] >= 'A' && n[0] <= 'Z') {
					pkg = "p"
				}
				if t.fnames[i] == "" {
					if en := t.kids[i].embName(); en != "" && !(en[0] >= 'A' && en[0] <= 'Z') {
						pkg = "p"
					}
				}
				fs = append(fs, t.fnames[i]+":"+pkg+":"+t.ftags[i]+":"+refs[i])
			}
			if len(fs) == 0 {
				ln = l.emit("struct -")
			} else {
				ln = l.emit("struct " + strings.Join(fs, ";"))
			}
		}
	}
	l.memo[key] = ln
	return ln
}

// accessors emits the accessor calls on a built term: they must return the component objects.
func (l *c29lin) accessors(t *c29term, ln int) {
	ref := "$" + strconv.Itoa(ln)
	switch t.op {
	case "arr", "slice", "ptr", "chan":
		l.emit("elem " + ref)
	case "map":
		l.emit("key " + ref)
		l.emit("elem " + ref)
	case "func":
		for i := 0; i < t.nin; i++ {
			l.emit(fmt.Sprintf("in %s %d", ref, i))
		}
		for i := t.nin; i < len(t.kids); i++ {
			l.emit(fmt.Sprintf("out %s %d", ref, i-t.nin))
		}
	case "struct":
		for i := range t.kids {
			l.emit(fmt.Sprintf("field %s %d", ref, i))
		}
	case "named":
		switch c29prelude[t.n].under {
		case "slice", "ptr":
			l.emit("elem " + ref)
		case "struct":
			l.emit("field " + ref + " 1")
		}
	}
}

func c29leaves(tier string) []*c29term {
	ks := []int{3, 6, 24, 13}
	if tier != "quick" {
		ks = []int{1, 2, 3, 4, 5, 6, 8, 9, 12, 13, 14, 15, 16, 24, 26}
	}
	var out []*c29term
	for _, k := range ks {
		out = append(out, &c29term{op: "basic", n: k})
	}
	out = append(out, &c29term{op: "special", n: 1}, &c29term{op: "special", n: 2})
	np := 2
	if tier != "quick" {
		np = len(c29prelude)
	}
	for i := 0; i < np; i++ {
		out = append(out, &c29term{op: "named", n: i})
	}
	return out
}

func c29unary(k *c29term) []*c29term {
	return []*c29term{
		{op: "ptr", kids: []*c29term{k}}, {op: "slice", kids: []*c29term{k}},
		{op: "arr", n: 0, kids: []*c29term{k}}, {op: "arr", n: 3, kids: []*c29term{k}},
		{op: "chan", n: 1, kids: []*c29term{k}}, {op: "chan", n: 2, kids: []*c29term{k}}, {op: "chan", n: 3, kids: []*c29term{k}},
	}
}

// c29structs: field shapes over the given component pool
func c29structs(r *rand.Rand, pool []*c29term, count int) []*c29term {
	var out []*c29term
	out = append(out, &c29term{op: "struct"})
	names := []string{"A", "B", "c", "Dd", "e"}
	tags := []string{"", "", "", "tg", "k"}
	for i := 0; i < count; i++ {
		nf := 1 + r.Intn(3)
		t := &c29term{op: "struct"}
		used := map[string]bool{}
		for j := 0; j < nf; j++ {
			k := pool[r.Intn(len(pool))]
			name := names[r.Intn(len(names))]
			if r.Intn(4) == 0 {
				// embedded field
				cands := []*c29term{}
				for _, c := range pool {
					if c.embeddable() {
						cands = append(cands, c)
					}
				}
				if len(cands) > 0 {
					k = cands[r.Intn(len(cands))]
					name = ""
				}
			}
			nm := name
			if nm == "" {
				nm = k.embName()
			}
			if used[nm] {
				continue
			}
			used[nm] = true
			t.kids = append(t.kids, k)
			t.fnames = append(t.fnames, name)
			t.ftags = append(t.ftags, tags[r.Intn(len(tags))])
		}
		out = append(out, t)
	}
	return out
}

func c29funcs(r *rand.Rand, pool []*c29term, count int) []*c29term {
	out := []*c29term{{op: "func"}}
	for i := 0; i < count; i++ {
		nin, nout := r.Intn(3), r.Intn(3)
		t := &c29term{op: "func", nin: nin}
		for j := 0; j < nin+nout; j++ {
			t.kids = append(t.kids, pool[r.Intn(len(pool))])
		}
		if nin > 0 && r.Intn(3) == 0 {
			t.variadic = true
			t.kids[nin-1] = &c29term{op: "slice", kids: []*c29term{pool[r.Intn(len(pool))]}}
		}
		out = append(out, t)
	}
	return out
}

func c29dedup(ts []*c29term) []*c29term {
	seen := map[string]bool{}
	var out []*c29term
	for _, t := range ts {
		if !seen[t.String()] {
			seen[t.String()] = true
			out = append(out, t)
		}
	}
	return out
}

// c29universe enumerates the terms of one run: depth 1 exhaustively for the unary constructors and
// maps over the leaves, depth 2 (3 in thorough) exhaustively for the unary constructors over
// everything below, seeded samples of maps, funcs and structs over everything below.
func c29universe(r *rand.Rand, tier string) []*c29term {
	leaves := c29leaves(tier)
	var d1 []*c29term
	for _, l := range leaves {
		d1 = append(d1, c29unary(l)...)
	}
	for _, k := range leaves {
		if !k.comparable() {
			continue
		}
		for _, e := range leaves {
			d1 = append(d1, &c29term{op: "map", kids: []*c29term{k, e}})
		}
	}
	nf, ns := 40, 50
	if tier != "quick" {
		nf, ns = 300, 400
	}
	d1 = append(d1, c29funcs(r, leaves, nf)...)
	d1 = append(d1, c29structs(r, leaves, ns)...)
	d1 = c29dedup(d1)
	below := append(append([]*c29term{}, leaves...), d1...)
	var d2 []*c29term
	for _, k := range d1 {
		d2 = append(d2, c29unary(k)...)
	}
	nm := 150
	if tier != "quick" {
		nm = 2000
	}
	for i := 0; i < nm; i++ {
		k := below[r.Intn(len(below))]
		if !k.comparable() {
			continue
		}
		d2 = append(d2, &c29term{op: "map", kids: []*c29term{k, below[r.Intn(len(below))]}})
	}
	d2 = append(d2, c29funcs(r, below, nf*3)...)
	d2 = append(d2, c29structs(r, below, ns*3)...)
	d2 = c29dedup(d2)
	all := append(append([]*c29term{}, d1...), d2...)
	if tier != "quick" {
		// depth 3: unary constructors over a seeded sample of depth 2, plus composites
		below2 := append(append([]*c29term{}, below...), d2...)
		var d3 []*c29term
		for i := 0; i < 3000; i++ {
			d3 = append(d3, c29unary(d2[r.Intn(len(d2))])[r.Intn(7)])
		}
		d3 = append(d3, c29funcs(r, below2, 1500)...)
		d3 = append(d3, c29structs(r, below2, 1500)...)
		all = append(all, c29dedup(d3)...)
	}
	return all
}

// c29recursive: histories with named types used before SetUnderlying (Forward reflect types)
var c29recursive = [][]string{
	// type L struct{ V int; Next *L }
	{"named L", "ptr $0", "basic 2", "struct V:::$2;Next:::$1", "setu $0 $3", "elem $1", "ptr $0", "field $0 1", "field $0 0", "elem $1", "rel $5 $0", "slice $0", "elem $11"},
	// type T []T
	{"named T", "slice $0", "setu $0 $1", "elem $0", "elem $1", "slice $0", "rel $3 $0"},
	// type M map[string]M
	{"named M", "basic 24", "map $1 $0", "setu $0 $2", "elem $0", "key $0", "map $1 $0", "elem $2"},
	// type F func(F) ; type C chan C
	{"named F", "func 0 $0 -", "setu $0 $1", "in $0 0", "func 0 $0 -", "named C", "chan 3 $5", "setu $5 $6", "elem $5", "elem $6"},
	// mutually recursive: type A struct{ B *B }; type B struct{ A *A; N int }
	{"named A", "named B", "ptr $0", "ptr $1", "basic 2", "struct B:::$3", "struct A:::$2;N:::$4", "setu $0 $5", "setu $1 $6", "field $0 0", "elem $9", "field $10 0", "elem $11", "rel $12 $0", "ptr $0", "ptr $1"},
	// array of pointers, named used after completion only through a forward pointer
	{"named P", "ptr $0", "arr 2 $1", "basic 6", "struct X:::$3;Ps:::$2", "setu $0 $4", "field $0 1", "elem $6", "elem $7", "arr 2 $1", "ptr $0"},
}

// c29malformed: calls the API rejects (or must reject)
var c29malformed = []string{
	"basic 2", "basic 24", "slice $0", "func 0 - -", "map $2 $0", "map $3 $0", "elem $0", "key $2", "field $0 0", "in $3 0", "out $3 0",
	"struct A:::$0;A:::$1", "struct -", "field $12 0", "arr 3 $99", "func 1 $0 -", "func 1 - -", "func 1 $0,$2 -", "setu $0 $1", "basic 17", "basic 25", "basic 0",
	"special 3", "chan 0 $0", "chan 4 $0", "chan 3 $0", "elem $25", "key $25", "named X", "elem $28", "field $28 0", "struct :::$2", "struct :::$28", "ptr $28", "struct :::$33",
	"map $28 $0", "key $35", "struct a:p::$0;a:p::$1", "struct A:::$0;b:p:t:$1;:p::$0", "field $38 2", "field $38 3", "rel $0 $1", "rel $0 $0", "rel $99 $0",
}

func c29gen(r *rand.Rand, tier string, emit func(string)) {
	emit("reset")
	emit("kinds")
	for _, op := range c29malformed {
		emit(op)
	}
	for _, h := range c29recursive {
		emit("reset")
		for _, op := range h {
			emit(op)
		}
	}
	terms := c29universe(r, tier)
	r.Shuffle(len(terms), func(i, j int) { terms[i], terms[j] = terms[j], terms[i] })
	per := 14
	for start, hn := 0, 0; start < len(terms); start, hn = start+per, hn+1 {
		end := start + per
		if end > len(terms) {
			end = len(terms)
		}
		chunk := terms[start:end]
		emit("reset")
		l := &c29lin{memo: map[string]int{}, named: map[int]int{}, r: r}
		mode := hn % 4
		type built struct {
			t  *c29term
			ln int
		}
		var done []built
		switch mode {
		case 0: // every term twice in a row, nothing shared
			for _, t := range chunk {
				a := l.build(t, false)
				b := l.build(t, false)
				done = append(done, built{t, a}, built{t, b})
			}
		case 1: // shared subterms, second copies afterwards in reverse order
			for _, t := range chunk {
				done = append(done, built{t, l.build(t, true)})
			}
			for i := len(chunk) - 1; i >= 0; i-- {
				done = append(done, built{chunk[i], l.build(chunk[i], false)})
			}
		case 2: // all components first (shuffled, shared), then the tops twice
			var kids []*c29term
			for _, t := range chunk {
				kids = append(kids, t.kids...)
			}
			r.Shuffle(len(kids), func(i, j int) { kids[i], kids[j] = kids[j], kids[i] })
			for _, k := range kids {
				l.build(k, true)
			}
			for rep := 0; rep < 2; rep++ {
				order := r.Perm(len(chunk))
				for _, i := range order {
					t := chunk[i]
					key := t.String()
					delete(l.memo, key)
					done = append(done, built{t, l.build(t, true)})
				}
			}
		default: // random order, random sharing, accessors interleaved
			items := append(append([]*c29term{}, chunk...), chunk...)
			r.Shuffle(len(items), func(i, j int) { items[i], items[j] = items[j], items[i] })
			for _, t := range items {
				share := r.Intn(2) == 0
				if share {
					delete(l.memo, t.String())
				}
				ln := l.build(t, share)
				done = append(done, built{t, ln})
				if r.Intn(2) == 0 {
					l.accessors(t, ln)
				}
			}
		}
		for i, d := range done {
			if mode != 3 && i%2 == 0 {
				l.accessors(d.t, d.ln)
			}
		}
		// relations between results
		npairs := 10
		for i := 0; i < npairs && len(done) > 1; i++ {
			a, b := done[r.Intn(len(done))], done[r.Intn(len(done))]
			l.emit(fmt.Sprintf("rel $%d $%d", a.ln, b.ln))
		}
		// components against each other (assignability between leaves and composites)
		if l.n > 4 {
			for i := 0; i < 6; i++ {
				l.emit(fmt.Sprintf("rel $%d $%d", r.Intn(l.n), r.Intn(l.n)))
			}
		}
		for i := 0; i < 4 && len(done) > 0; i++ {
			l.emit(fmt.Sprintf("fromr $%d", done[r.Intn(len(done))].ln))
		}
		for _, op := range l.ops {
			emit(op)
		}
	}
	// relations on a dedicated history: all ordered pairs of a small set (leaves, named, composites)
	emit("reset")
	{
		l := &c29lin{memo: map[string]int{}, named: map[int]int{}, r: r}
		var lines []int
		set := c29leaves("thorough")
		for _, t := range set[:] {
			lines = append(lines, l.build(t, true))
		}
		extra := []*c29term{}
		for _, k := range []*c29term{{op: "basic", n: 2}, {op: "named", n: 0}, {op: "named", n: 1}, {op: "special", n: 1}} {
			extra = append(extra, c29unary(k)...)
		}
		extra = append(extra, &c29term{op: "struct", kids: []*c29term{{op: "basic", n: 3}, {op: "basic", n: 6}}, fnames: []string{"A", "B"}, ftags: []string{"ta", ""}},
			&c29term{op: "struct", kids: []*c29term{{op: "basic", n: 3}, {op: "basic", n: 6}}, fnames: []string{"A", "B"}, ftags: []string{"", ""}},
			&c29term{op: "func"}, &c29term{op: "slice", kids: []*c29term{{op: "basic", n: 24}}}, &c29term{op: "slice", kids: []*c29term{{op: "basic", n: 8}}},
			&c29term{op: "slice", kids: []*c29term{{op: "basic", n: 5}}}, &c29term{op: "ptr", kids: []*c29term{{op: "basic", n: 2}}})
		for _, t := range extra {
			lines = append(lines, l.build(t, true))
		}
		sort.Ints(lines)
		stride := 1
		if tier == "quick" {
			stride = 3
		}
		cnt := 0
		for _, a := range lines {
			for _, b := range lines {
				cnt++
				if cnt%stride == 0 || a == b {
					l.emit(fmt.Sprintf("rel $%d $%d", a, b))
				}
			}
		}
		for _, op := range l.ops {
			emit(op)
		}
	}
	// named types with methods against interfaces: bounded-exhaustive over small method sets
	tms := []string{"-", "Av0", "Ap0", "Av1", "Av0,Bv1", "Av0,Bp1", "Ap0,bv0", "bv0", "bp1,Av0", "Av2", "Ap2,Bv1"}
	ims := []string{"-", "A0", "A1", "A0,B1", "b0", "A0,b0", "B1", "A2", "A2,B1"}
	for _, k := range []string{"i", "s", "e", "p"} {
		for _, tm := range tms {
			for _, im := range ims {
				emit("impl " + k + " " + tm + " " + im)
			}
		}
	}
	// field and method lookup through embedded fields
	c29lookGen(tier, emit)
	// precompiled import tables
	var paths []string
	for p := range imports.Packages {
		paths = append(paths, p)
	}
	sort.Strings(paths)
	if tier == "quick" {
		always := []string{"fmt", "io", "time", "sync", "reflect", "os", "sort", "strings", "errors", "bytes", "testing", "log"}
		pick := map[string]bool{}
		for _, p := range always {
			pick[p] = true
		}
		for i := 0; i < 8; i++ {
			pick[paths[r.Intn(len(paths))]] = true
		}
		var sel []string
		for _, p := range paths {
			if pick[p] {
				sel = append(sel, p)
			}
		}
		paths = sel
	}
	for _, p := range paths {
		emit("imp " + p)
	}
}
