package main

// C03: conversions T(x) between basic, string and byte/rune slice types.
//
// One op line:   cv <mode> <srcType> <dstType> <value>*
//
//	mode v  operand is a variable (function parameter):     func F(x S) D { return D(x) }
//	mode e  operand is a call with a side effect:           D(B()) with func B() S { Cnt++; return G }
//	        (a rejected conversion must leave Cnt untouched, also in `Cnt++; D(B())`;
//	         an accepted one must evaluate the operand exactly once)
//	mode c  operand is a typed constant:                    const C S = lit; D(C)
//	mode u  operand is an untyped constant:                 D(lit)      (srcType u:int|rune|float|complex|bool|string)
//
// Types: [N.|M.|E.]kind with kind = 17 basic kinds, bytes, runes; N./M. are two different named
// types with that underlying type, E. (slices) is a slice of a named element type.
// Values use the C01 codec (+ b<hex> for []byte, r<hex>,... for []rune); untyped constants are
// exact: decimal integer, n/d, n/d,n/d, t/f, s<hex>.
//
// Out = one token per value: rej | undef | encoded result (what the interpreter did; `undef` where
// the Go specification leaves a float->integer result implementation-dependent: such values are
// NOT compared).  Oracles: (1) go/types on the same declarations + expression: accepted or not,
// and the VALUE of every constant conversion; (2) native Go conversions instantiated per type pair
// through generics (= what the Go compiler emits) for non-constant operands; (3) compiled Go
// (runGoBatch) for the constant conversions go/types accepts.

import (
	"fmt"
	"go/ast"
	"go/constant"
	"go/importer"
	"go/parser"
	"go/token"
	"go/types"
	"math"
	"math/big"
	"math/rand"
	"reflect"
	"sort"
	"strconv"
	"strings"

	"github.com/cosmos72/gomacro/fast"
)

// ---------------------------------------------------------------- types

type c03type struct {
	tag  string // "", "N", "M", "E"
	kind string // basic kind name, "bytes", "runes"
}

func c03parseType(s string) (c03type, bool) {
	t := c03type{kind: s}
	if i := strings.IndexByte(s, '.'); i >= 0 {
		t.tag, t.kind = s[:i], s[i+1:]
	}
	switch t.tag {
	case "", "N", "M":
	case "E":
		if t.kind != "bytes" && t.kind != "runes" {
			return t, false
		}
	default:
		return t, false
	}
	if t.kind != "bytes" && t.kind != "runes" && bkinds[t.kind] == nil {
		return t, false
	}
	return t, true
}

func (t c03type) String() string {
	if t.tag == "" {
		return t.kind
	}
	return t.tag + "." + t.kind
}

// Go source of the type
func (t c03type) src() string {
	switch t.tag {
	case "N", "M":
		return t.tag + "_" + t.kind
	case "E":
		if t.kind == "bytes" {
			return "[]Ebyte"
		}
		return "[]Erune"
	}
	switch t.kind {
	case "bytes":
		return "[]byte"
	case "runes":
		return "[]rune"
	}
	return t.kind
}

var c03kinds = append(append([]string{}, bkindNames...), "bytes", "runes")

// declarations of every named type used by the ops (same text for gomacro, go/types, gc)
func c03decls() string {
	var sb strings.Builder
	for _, k := range c03kinds {
		u := k
		if k == "bytes" {
			u = "[]byte"
		} else if k == "runes" {
			u = "[]rune"
		}
		fmt.Fprintf(&sb, "type N_%s %s\ntype M_%s %s\n", k, u, k, u)
	}
	sb.WriteString("type Ebyte byte\ntype Erune rune\n")
	return sb.String()
}

// ---------------------------------------------------------------- values

// c03val: a value of a type in scope
type c03val struct {
	bval
	bs []byte
	rs []int32
}

func c03enc(kind string, v c03val) string {
	switch kind {
	case "bytes":
		return "b" + fmt.Sprintf("%x", v.bs)
	case "runes":
		p := make([]string, len(v.rs))
		for i, r := range v.rs {
			p[i] = strconv.FormatUint(uint64(uint32(r)), 16)
		}
		return "r" + strings.Join(p, ",")
	}
	return bkinds[kind].enc(v.bval)
}

func c03encIn(kind string, v c03val) string {
	if kind == "bytes" || kind == "runes" {
		return c03enc(kind, v)
	}
	return bkinds[kind].encIn(v.bval)
}

func c03dec(kind, s string) (c03val, error) {
	switch kind {
	case "bytes":
		if !strings.HasPrefix(s, "b") {
			return c03val{}, fmt.Errorf("bad bytes %q", s)
		}
		var b []byte
		_, err := fmt.Sscanf(s[1:], "%x", &b)
		if len(s) == 1 {
			return c03val{bs: []byte{}}, nil
		}
		return c03val{bs: b}, err
	case "runes":
		if !strings.HasPrefix(s, "r") {
			return c03val{}, fmt.Errorf("bad runes %q", s)
		}
		v := c03val{rs: []int32{}}
		if len(s) == 1 {
			return v, nil
		}
		for _, p := range strings.Split(s[1:], ",") {
			u, err := strconv.ParseUint(p, 16, 32)
			if err != nil {
				return v, err
			}
			v.rs = append(v.rs, int32(uint32(u)))
		}
		return v, nil
	}
	b, err := bkinds[kind].dec(s)
	return c03val{bval: b}, err
}

func c03toRV(kind string, v c03val) reflect.Value {
	switch kind {
	case "bytes":
		return reflect.ValueOf(append([]byte{}, v.bs...))
	case "runes":
		return reflect.ValueOf(append([]int32{}, v.rs...))
	}
	return bkinds[kind].toRV(v.bval)
}

func c03ofRV(kind string, rv reflect.Value) (c03val, bool) {
	if !rv.IsValid() {
		return c03val{}, false
	}
	if rv.Kind() == reflect.Interface {
		rv = rv.Elem()
	}
	switch kind {
	case "bytes":
		if rv.Kind() != reflect.Slice || rv.Type().Elem().Kind() != reflect.Uint8 {
			return c03val{}, false
		}
		return c03val{bs: append([]byte{}, rv.Bytes()...)}, true
	case "runes":
		if rv.Kind() != reflect.Slice || rv.Type().Elem().Kind() != reflect.Int32 {
			return c03val{}, false
		}
		out := make([]int32, rv.Len())
		for i := range out {
			out[i] = int32(rv.Index(i).Int())
		}
		return c03val{rs: out}, true
	}
	k := bkinds[kind]
	if rv.Kind() != k.rt.Kind() {
		return c03val{}, false
	}
	return c03val{bval: k.ofRV(rv)}, true
}

// Go source of a constant of the given basic kind ("" if there is none)
func c03lit(kind string, v c03val) string {
	if kind == "bytes" || kind == "runes" {
		return ""
	}
	return bkinds[kind].lit(v.bval)
}

// ---------------------------------------------------------------- native conversions (the specification side)

type c03num interface {
	~int | ~int8 | ~int16 | ~int32 | ~int64 | ~uint | ~uint8 | ~uint16 | ~uint32 | ~uint64 | ~uintptr | ~float32 | ~float64
}

// c03native[src][dst](x) = D(x) as the Go compiler emits it for exactly these types
var c03native = map[string]map[string]func(c03val) c03val{}

func c03reg(src, dst string, f func(c03val) c03val) {
	if c03native[src] == nil {
		c03native[src] = map[string]func(c03val) c03val{}
	}
	c03native[src][dst] = f
}

func c03get[T c03num](v c03val) T {
	var z T
	switch any(z).(type) {
	case float32:
		return T(math.Float32frombits(uint32(v.u)))
	case float64:
		return T(math.Float64frombits(v.u))
	}
	// integer: reinterpret the bit pattern at the type's width (T(v.u) truncates)
	var x uint64 = v.u
	return T(x)
}

func c03put[T c03num](kind string, x T) c03val {
	switch y := any(x).(type) {
	case float32:
		return c03val{bval: bval{u: of32(y)}}
	case float64:
		return c03val{bval: bval{u: of64(y)}}
	}
	return c03val{bval: bval{u: maskBits(uint64(x), bkinds[kind].bits)}}
}

func c03regNum[S, D c03num](src, dst string) {
	c03reg(src, dst, func(v c03val) c03val { return c03put[D](dst, D(c03get[S](v))) })
}

func c03regFrom[S c03num](src string) {
	c03regNum[S, int](src, "int")
	c03regNum[S, int8](src, "int8")
	c03regNum[S, int16](src, "int16")
	c03regNum[S, int32](src, "int32")
	c03regNum[S, int64](src, "int64")
	c03regNum[S, uint](src, "uint")
	c03regNum[S, uint8](src, "uint8")
	c03regNum[S, uint16](src, "uint16")
	c03regNum[S, uint32](src, "uint32")
	c03regNum[S, uint64](src, "uint64")
	c03regNum[S, uintptr](src, "uintptr")
	c03regNum[S, float32](src, "float32")
	c03regNum[S, float64](src, "float64")
}

func c03regIntString[S integer](src string) {
	c03reg(src, "string", func(v c03val) c03val {
		var x uint64 = v.u
		return c03val{bval: bval{s: c03intString(S(x))}}
	})
}

// string(x) for a non-constant integer x of type S (go vet dislikes the direct spelling; the
// generic instantiation is exactly the compiler's conversion)
func c03intString[S integer](x S) string { return string(x) }

func init() {
	c03regFrom[int]("int")
	c03regFrom[int8]("int8")
	c03regFrom[int16]("int16")
	c03regFrom[int32]("int32")
	c03regFrom[int64]("int64")
	c03regFrom[uint]("uint")
	c03regFrom[uint8]("uint8")
	c03regFrom[uint16]("uint16")
	c03regFrom[uint32]("uint32")
	c03regFrom[uint64]("uint64")
	c03regFrom[uintptr]("uintptr")
	c03regFrom[float32]("float32")
	c03regFrom[float64]("float64")
	c03regIntString[int]("int")
	c03regIntString[int8]("int8")
	c03regIntString[int16]("int16")
	c03regIntString[int32]("int32")
	c03regIntString[int64]("int64")
	c03regIntString[uint]("uint")
	c03regIntString[uint8]("uint8")
	c03regIntString[uint16]("uint16")
	c03regIntString[uint32]("uint32")
	c03regIntString[uint64]("uint64")
	c03regIntString[uintptr]("uintptr")
	c03reg("complex64", "complex64", func(v c03val) c03val { return v })
	c03reg("complex128", "complex128", func(v c03val) c03val { return v })
	c03reg("complex64", "complex128", func(v c03val) c03val { return c03val{bval: ofc128(complex128(c64(v.bval)))} })
	c03reg("complex128", "complex64", func(v c03val) c03val { return c03val{bval: ofc64(complex64(c128(v.bval)))} })
	c03reg("bool", "bool", func(v c03val) c03val { return v })
	c03reg("string", "string", func(v c03val) c03val { return v })
	c03reg("string", "bytes", func(v c03val) c03val { return c03val{bs: []byte(v.s)} })
	c03reg("string", "runes", func(v c03val) c03val { return c03val{rs: []rune(v.s)} })
	c03reg("bytes", "string", func(v c03val) c03val { return c03val{bval: bval{s: string(v.bs)}} })
	c03reg("runes", "string", func(v c03val) c03val { return c03val{bval: bval{s: string(v.rs)}} })
	c03reg("bytes", "bytes", func(v c03val) c03val { return v })
	c03reg("runes", "runes", func(v c03val) c03val { return v })
}

// float -> integer: is the truncated value representable in the result type?  (exact, math/big)
func c03floatIntDefined(src, dst string, v c03val) bool {
	sk, dk := bkinds[src], bkinds[dst]
	if sk == nil || dk == nil || sk.cat != catFloat || !dk.isInteger() {
		return true
	}
	var f float64
	if src == "float32" {
		f = float64(f32(v.bval))
	} else {
		f = f64(v.bval)
	}
	if math.IsNaN(f) || math.IsInf(f, 0) {
		return false
	}
	i, _ := new(big.Float).SetFloat64(f).Int(nil) // truncates toward zero
	lo, hi := new(big.Int), new(big.Int)
	if dk.cat == catInt {
		lo.Lsh(big.NewInt(1), uint(dk.bits-1)).Neg(lo)
		hi.Lsh(big.NewInt(1), uint(dk.bits-1)).Sub(hi, big.NewInt(1))
	} else {
		hi.Lsh(big.NewInt(1), uint(dk.bits)).Sub(hi, big.NewInt(1))
	}
	return i.Cmp(lo) >= 0 && i.Cmp(hi) <= 0
}

// ---------------------------------------------------------------- go/types oracle

var c03fset = token.NewFileSet()
var c03pre *types.Package

type c03importer struct{}

func (c03importer) Import(path string) (*types.Package, error) {
	if path == "pre" {
		return c03pre, nil
	}
	return importer.Default().Import(path)
}

func c03initTypes() {
	if c03pre != nil {
		return
	}
	f, err := parser.ParseFile(c03fset, "pre.go", "package pre\n"+c03decls(), 0)
	if err != nil {
		panic(err)
	}
	conf := types.Config{}
	c03pre, err = conf.Check("pre", c03fset, []*ast.File{f}, nil)
	if err != nil {
		panic(err)
	}
}

// c03typecheck checks `decls; var _ = expr` and returns (accepted, constant value of expr or nil, first error)
func c03typecheck(decls, expr string) (bool, constant.Value, string) {
	c03initTypes()
	src := "package p\nimport . \"pre\"\ntype _ = N_int\n" + decls + "\nvar Result = " + expr + "\n"
	f, err := parser.ParseFile(c03fset, "p.go", src, 0)
	if err != nil {
		return false, nil, "parse: " + err.Error()
	}
	var first string
	conf := types.Config{Importer: c03importer{}, Error: func(e error) {
		if first == "" {
			first = e.Error()
		}
	}}
	info := &types.Info{Types: map[ast.Expr]types.TypeAndValue{}}
	conf.Check("p", c03fset, []*ast.File{f}, info)
	if first != "" {
		return false, nil, first
	}
	var val constant.Value
	for _, d := range f.Decls {
		if gd, ok := d.(*ast.GenDecl); ok && gd.Tok == token.VAR {
			for _, sp := range gd.Specs {
				vs := sp.(*ast.ValueSpec)
				if len(vs.Names) == 1 && vs.Names[0].Name == "Result" {
					val = info.Types[vs.Values[0]].Value
				}
			}
		}
	}
	return true, val, ""
}

// the typed value of a constant.Value of basic kind `kind`
func c03ofConst(kind string, cv constant.Value) (c03val, bool) {
	k := bkinds[kind]
	if k == nil || cv == nil {
		return c03val{}, false
	}
	switch k.cat {
	case catBool:
		if cv.Kind() != constant.Bool {
			return c03val{}, false
		}
		return c03val{bval: boolVal(constant.BoolVal(cv))}, true
	case catString:
		if cv.Kind() != constant.String {
			return c03val{}, false
		}
		return c03val{bval: bval{s: constant.StringVal(cv)}}, true
	case catInt:
		i, ok := constant.Int64Val(constant.ToInt(cv))
		return c03val{bval: bval{u: maskBits(uint64(i), k.bits)}}, ok
	case catUint:
		u, ok := constant.Uint64Val(constant.ToInt(cv))
		return c03val{bval: bval{u: maskBits(u, k.bits)}}, ok
	case catFloat:
		if k.bits == 32 {
			f, _ := constant.Float32Val(cv)
			return c03val{bval: bval{u: of32(f)}}, true
		}
		f, _ := constant.Float64Val(cv)
		return c03val{bval: bval{u: of64(f)}}, true
	case catComplex:
		re, im := constant.Real(cv), constant.Imag(cv)
		if k.bits == 64 {
			a, _ := constant.Float32Val(re)
			b, _ := constant.Float32Val(im)
			return c03val{bval: bval{u: of32(a), u2: of32(b)}}, true
		}
		a, _ := constant.Float64Val(re)
		b, _ := constant.Float64Val(im)
		return c03val{bval: bval{u: of64(a), u2: of64(b)}}, true
	}
	return c03val{}, false
}

// ---------------------------------------------------------------- untyped constants

// Go source + description of an untyped constant given exactly
func c03untypedSrc(uk, s string) (string, bool) {
	ratSrc := func(q string) (string, bool) {
		n, d, has := strings.Cut(q, "/")
		if _, ok := new(big.Int).SetString(n, 10); !ok {
			return "", false
		}
		if !has {
			return "(" + n + ".0)", true
		}
		if dd, ok := new(big.Int).SetString(d, 10); !ok || dd.Sign() <= 0 {
			return "", false
		}
		return "(" + n + ".0/" + d + ".0)", true
	}
	switch uk {
	case "u:int":
		if _, ok := new(big.Int).SetString(s, 10); !ok {
			return "", false
		}
		return "(" + s + ")", true
	case "u:rune":
		if _, ok := new(big.Int).SetString(s, 10); !ok {
			return "", false
		}
		if strings.HasPrefix(s, "-") {
			return "('\\x00' - " + s[1:] + ")", true
		}
		return "('\\x00' + " + s + ")", true
	case "u:float":
		return ratSrc(s)
	case "u:complex":
		a, b, ok := strings.Cut(s, ",")
		if !ok {
			return "", false
		}
		x, ok1 := ratSrc(a)
		y, ok2 := ratSrc(b)
		return "(" + x + " + " + y + "*1i)", ok1 && ok2
	case "u:bool":
		switch s {
		case "t":
			return "true", true
		case "f":
			return "false", true
		}
	case "u:string":
		v, err := bkinds["string"].dec(s)
		return strconv.Quote(v.s), err == nil
	}
	return "", false
}

// ---------------------------------------------------------------- interpreter side

var c03ir *fast.Interp
var c03irCount int
var c03seq int

func c03interp() *fast.Interp {
	c03irCount++
	if c03ir == nil || c03irCount%2500 == 0 {
		c03ir = newQuietInterp()
		if _, e := evalSrc(c03ir, c03decls()); e != "" {
			panic("c03: declarations rejected: " + e)
		}
	}
	return c03ir
}

type c03op struct {
	mode     string
	src, dst c03type
	usrc     string // mode u: u:int ...
	vals     []string
}

func c03parse(line string) (*c03op, error) {
	f := strings.Split(line, " ")
	if len(f) < 4 || f[0] != "cv" {
		return nil, fmt.Errorf("bad-op")
	}
	o := &c03op{mode: f[1], vals: f[4:]}
	var ok bool
	if o.dst, ok = c03parseType(f[3]); !ok {
		return nil, fmt.Errorf("bad-type")
	}
	switch o.mode {
	case "u":
		o.usrc = f[2]
		switch o.usrc {
		case "u:int", "u:rune", "u:float", "u:complex", "u:bool", "u:string":
		default:
			return nil, fmt.Errorf("bad-type")
		}
	case "v", "e", "c":
		if o.src, ok = c03parseType(f[2]); !ok {
			return nil, fmt.Errorf("bad-type")
		}
	default:
		return nil, fmt.Errorf("bad-op")
	}
	return o, nil
}

func c03catName(kind string) string {
	switch kind {
	case "bytes", "runes":
		return kind
	}
	switch bkinds[kind].cat {
	case catBool:
		return "bool"
	case catInt:
		return "int"
	case catUint:
		return "uint"
	case catFloat:
		return "float"
	case catComplex:
		return "complex"
	}
	return "string"
}

type c03viol struct {
	key, desc string
}

func (o *c03op) keyPrefix() string {
	s := o.usrc
	if o.mode != "u" {
		s = o.src.kind
		if o.src.tag != "" {
			s = o.src.tag + "." + s
		}
	}
	d := o.dst.kind
	if o.dst.tag != "" {
		d = o.dst.tag + "." + d
	}
	return o.mode + "-" + s + "-" + d
}

// expected result of one value according to the oracles: "rej", "undef" or the encoded value
func (o *c03op) expectVar(accepted bool, v c03val) string {
	if !accepted {
		return "rej"
	}
	if !c03floatIntDefined(o.src.kind, o.dst.kind, v) {
		return "undef"
	}
	f := c03native[o.src.kind][o.dst.kind]
	if f == nil {
		return "no-native"
	}
	return c03enc(o.dst.kind, f(v))
}

func c03exec(line string) Result {
	o, err := c03parse(line)
	if err != nil {
		return Result{Out: err.Error(), Tags: []string{"malformed"}}
	}
	ir := c03interp()
	c03seq++
	n := c03seq
	S, D := o.src.src(), o.dst.src()
	var outs []string
	var viols []c03viol
	tags := []string{"mode-" + o.mode}
	addViol := func(what, desc string) {
		viols = append(viols, c03viol{o.keyPrefix() + "-" + what, desc})
	}
	switch o.mode {
	case "v", "e":
		accepted, _, terr := c03typecheck("var x "+S, D+"(x)")
		var vals []c03val
		for _, s := range o.vals {
			v, err := c03dec(o.src.kind, s)
			if err != nil {
				return Result{Out: "bad-value", Tags: []string{"malformed"}}
			}
			vals = append(vals, v)
		}
		var call func(v c03val) (reflect.Value, string, int)
		var cerr string
		if o.mode == "v" {
			F := fmt.Sprintf("F%d", n)
			_, cerr = evalSrc(ir, fmt.Sprintf("func %s(x %s) %s { return %s(x) }", F, S, D, D))
			if cerr == "" {
				fn := ir.ValueOf(F).ReflectValue()
				call = func(v c03val) (reflect.Value, string, int) {
					res, pt := callRecover(func() reflect.Value {
						out := fn.Call([]reflect.Value{c03toRV(o.src.kind, v)})
						return out[0]
					})
					return res, pt, 1
				}
			}
		} else {
			G, C, B, Set := fmt.Sprintf("G%d", n), fmt.Sprintf("Cnt%d", n), fmt.Sprintf("B%d", n), fmt.Sprintf("Set%d", n)
			pre := fmt.Sprintf("var %s %s; var %s int; func %s() %s { %s++; return %s }; func %s(x %s) int { %s = x; %s = 0; return 0 }",
				G, S, C, B, S, C, G, Set, S, G, C)
			if _, e := evalSrc(ir, pre); e != "" {
				return Result{Out: "HARNESS-ERROR " + e, Tags: []string{"harness-error"}}
			}
			var expr *fast.Expr
			_, cerr = callRecover(func() reflect.Value {
				expr = ir.Compile(fmt.Sprintf("%s(%s())", D, B))
				return reflect.Value{}
			})
			readCnt := func() int {
				vs, e := evalSrc(ir, C)
				if e != "" || len(vs) != 1 {
					return -1
				}
				return int(vs[0].Int())
			}
			if cerr != "" {
				// rejected: also as the second statement of a source text — the first statement
				// must not have run either (Go rejects the whole program)
				_, e2 := evalSrc(ir, fmt.Sprintf("%s++; %s(%s())", C, D, B))
				if c := readCnt(); c != 0 {
					addViol("executed-before-reject", fmt.Sprintf("`%s++; %s(%s())` was rejected (%s) but the counter is %d", C, D, B, e2, c))
				}
			} else {
				setter := ir.ValueOf(Set).ReflectValue()
				call = func(v c03val) (reflect.Value, string, int) {
					cnt := -1
					res, pt := callRecover(func() reflect.Value {
						setter.Call([]reflect.Value{c03toRV(o.src.kind, v)})
						r, _ := ir.RunExpr1(expr)
						return r.ReflectValue()
					})
					cnt = readCnt()
					return res, pt, cnt
				}
			}
		}
		if cerr != "" {
			tags = append(tags, "rejected")
			if accepted {
				addViol("rejects-valid", fmt.Sprintf("%s(x) with x %s is valid Go but gomacro says: %s", D, S, cerr))
			}
			for range vals {
				outs = append(outs, "rej")
			}
			break
		}
		tags = append(tags, "accepted", "pair-"+c03catName(o.src.kind)+"-"+c03catName(o.dst.kind))
		if !accepted {
			addViol("accepts-invalid", fmt.Sprintf("%s(x) with x %s compiles in gomacro; go/types: %s", D, S, terr))
		}
		for _, v := range vals {
			res, pt, cnt := call(v)
			want := o.expectVar(accepted, v)
			if pt != "" {
				outs = append(outs, "PANIC:"+truncate(oneLine(pt), 60))
				addViol("panic", fmt.Sprintf("%s(%s): run-time panic %s (Go: %s)", D, c03encIn(o.src.kind, v), pt, want))
				continue
			}
			got, ok := c03ofRV(o.dst.kind, res)
			if !ok {
				outs = append(outs, "BADTYPE")
				addViol("type", fmt.Sprintf("%s(%s): result is not of kind %s", D, c03encIn(o.src.kind, v), o.dst.kind))
				continue
			}
			gs := c03enc(o.dst.kind, got)
			if cnt != 1 {
				addViol("operand-evaluations", fmt.Sprintf("%s(B()): operand evaluated %d times", D, cnt))
			}
			if want == "undef" {
				outs = append(outs, "undef")
				tags = append(tags, "undef")
				continue
			}
			outs = append(outs, gs)
			if accepted && gs != want {
				addViol("value", fmt.Sprintf("%s(x) with x %s = %s: gomacro %s, Go %s", D, S, c03encIn(o.src.kind, v), gs, want))
			}
		}
	case "c", "u":
		for _, s := range o.vals {
			var decl, expr, gsrc, bkey string
			var vin c03val
			if o.mode == "c" {
				v, err := c03dec(o.src.kind, s)
				if err != nil {
					return Result{Out: "bad-value", Tags: []string{"malformed"}}
				}
				vin = v
				lit := c03lit(o.src.kind, v)
				if lit == "" {
					outs = append(outs, "no-such-constant")
					continue
				}
				c03seq++
				C := fmt.Sprintf("C%d", c03seq)
				decl = fmt.Sprintf("const %s %s = %s", C, S, lit)
				expr = fmt.Sprintf("%s(%s)", D, C)
				gsrc = decl + "; " + expr
				bkey = fmt.Sprintf("const C %s = %s; %s(C)", S, lit, D)
			} else {
				lit, ok := c03untypedSrc(o.usrc, s)
				if !ok {
					return Result{Out: "bad-value", Tags: []string{"malformed"}}
				}
				expr = fmt.Sprintf("%s(%s)", D, lit)
				gsrc = expr
				bkey = expr
			}
			accepted, cval, terr := c03typecheck(decl, expr)
			vals, gerr := evalSrc(ir, gsrc)
			if gerr != "" {
				outs = append(outs, "rej")
				tags = append(tags, "rejected")
				if accepted {
					addViol("rejects-valid", fmt.Sprintf("`%s` is valid Go but gomacro says: %s", gsrc, gerr))
				}
				continue
			}
			tags = append(tags, "accepted")
			if !accepted {
				addViol("accepts-invalid", fmt.Sprintf("`%s` compiles in gomacro (value %s); go/types: %s", gsrc, showVals(vals, true), terr))
			}
			if len(vals) != 1 {
				outs = append(outs, "BADTYPE")
				continue
			}
			got, ok := c03ofRV(o.dst.kind, vals[0])
			if !ok {
				outs = append(outs, "BADTYPE")
				addViol("type", fmt.Sprintf("`%s`: result %s is not of kind %s", gsrc, showVals(vals, true), o.dst.kind))
				continue
			}
			gs := c03enc(o.dst.kind, got)
			outs = append(outs, gs)
			if !accepted {
				continue
			}
			// expected value: the constant go/types computed, or (non-constant result: slices) native Go
			var want string
			if w, ok := c03ofConst(o.dst.kind, cval); ok {
				want = c03enc(o.dst.kind, w)
			} else if o.mode == "c" {
				if f := c03native[o.src.kind][o.dst.kind]; f != nil {
					want = c03enc(o.dst.kind, f(vin))
				}
			} else if o.usrc == "u:string" {
				sv, _ := bkinds["string"].dec(s)
				if f := c03native["string"][o.dst.kind]; f != nil {
					want = c03enc(o.dst.kind, f(c03val{bval: sv}))
				}
			}
			if want != "" && gs != want {
				addViol("value", fmt.Sprintf("`%s`: gomacro %s, Go %s", gsrc, gs, want))
			}
			if want != "" {
				c03batchCheck(bkey, gsrc, gs, addViol)
			}
		}
	}
	if c03batchHits > c03batchSeen {
		tags = append(tags, "compared-with-compiled-go")
		c03batchSeen = c03batchHits
	}
	if c03batchErr != "" && !c03batchErrTagged {
		tags = append(tags, "compiled-go-batch-unavailable")
		c03batchErrTagged = true
	}
	r := Result{Out: strings.Join(outs, " "), Tags: tags, Nontrivial: len(outs) > 0}
	if len(viols) > 0 {
		r.Viol, r.Key = viols[0].desc, viols[0].key
		if len(viols) > 1 {
			r.Viol += fmt.Sprintf(" (+%d more on this line, e.g. %s)", len(viols)-1, viols[len(viols)-1].key)
		}
	}
	return r
}

// ---------------------------------------------------------------- compiled-Go oracle (constant conversions)

var c03batch map[string]string // expr source -> value printed by compiled Go

func c03fmtVerb(kind string) string {
	switch kind {
	case "bytes":
		return `fmt.Sprintf("b%x", V)`
	case "runes":
		return `func() string { s := "r"; for i, r := range V { if i > 0 { s += "," }; s += fmt.Sprintf("%x", uint32(r)) }; return s }()`
	}
	k := bkinds[kind]
	switch k.cat {
	case catBool:
		return `map[bool]string{true: "t", false: "f"}[bool(V)]`
	case catString:
		return `fmt.Sprintf("s%x", string(V))`
	case catInt:
		// two's complement bit pattern at the type's width
		u := map[int]string{8: "uint8", 16: "uint16", 32: "uint32", 64: "uint64"}[k.bits]
		return fmt.Sprintf(`fmt.Sprintf("%%x", %s(%s(V)))`, u, k.name)
	case catUint:
		return fmt.Sprintf(`fmt.Sprintf("%%x", %s(V))`, k.name)
	case catFloat:
		if k.bits == 32 {
			return `fmt.Sprintf("%x", math.Float32bits(float32(V)))`
		}
		return `fmt.Sprintf("%x", math.Float64bits(float64(V)))`
	case catComplex:
		if k.bits == 64 {
			return `fmt.Sprintf("%x_%x", math.Float32bits(real(complex64(V))), math.Float32bits(imag(complex64(V))))`
		}
		return `fmt.Sprintf("%x_%x", math.Float64bits(real(complex128(V))), math.Float64bits(imag(complex128(V))))`
	}
	return `"?"`
}

func c03batchCheck(bkey, gsrc, gs string, addViol func(what, desc string)) {
	if c03batch == nil {
		return
	}
	want, ok := c03batch[bkey]
	if ok {
		c03batchHits++
	}
	if ok && want != gs {
		addViol("value-compiled", fmt.Sprintf("`%s`: gomacro %s, compiled Go %s", gsrc, gs, want))
	}
}

// Prepare: every constant conversion of the op list that go/types accepts is compiled by gc in one
// batch (a few packages with many emit lines) and its printed value cached.
func c03prepare(ops []string) {
	type item struct{ gsrc, decl, expr, dkind string }
	var items []item
	seen := map[string]bool{}
	seq := 0
	for _, line := range ops {
		o, err := c03parse(line)
		if err != nil || (o.mode != "c" && o.mode != "u") {
			continue
		}
		S, D := o.src.src(), o.dst.src()
		for _, s := range o.vals {
			var decl, expr, key string
			if o.mode == "c" {
				v, err := c03dec(o.src.kind, s)
				if err != nil {
					continue
				}
				lit := c03lit(o.src.kind, v)
				if lit == "" {
					continue
				}
				seq++
				C := fmt.Sprintf("K%d", seq)
				decl = fmt.Sprintf("const %s %s = %s", C, S, lit)
				expr = fmt.Sprintf("%s(%s)", D, C)
				key = fmt.Sprintf("const C %s = %s; %s(C)", S, lit, D)
			} else {
				lit, ok := c03untypedSrc(o.usrc, s)
				if !ok {
					continue
				}
				expr = fmt.Sprintf("%s(%s)", D, lit)
				key = expr
			}
			if seen[key] {
				continue
			}
			seen[key] = true
			if ok, _, _ := c03typecheck(decl, expr); !ok {
				continue
			}
			items = append(items, item{key, decl, expr, o.dst.kind})
		}
	}
	if len(items) == 0 {
		return
	}
	// thin the batch: compiled Go is a cross-check of go/types, every 3rd item is enough
	var sel []item
	for i, it := range items {
		if i%3 == 0 {
			sel = append(sel, it)
		}
	}
	const per = 400
	var snippets []Snippet
	for i := 0; i < len(sel); i += per {
		j := i + per
		if j > len(sel) {
			j = len(sel)
		}
		var decls, body strings.Builder
		decls.WriteString(c03decls())
		decls.WriteString("var _ = math.Pi\n")
		for k, it := range sel[i:j] {
			if it.decl != "" {
				decls.WriteString(it.decl + "\n")
			}
			// a variable keeps the compiler from complaining about constant string(int) vet checks
			fmt.Fprintf(&body, "{ V := %s; emit(%s) }\n", it.expr, c03fmtVerb(it.dkind))
			_ = k
		}
		snippets = append(snippets, Snippet{Imports: []string{"math"}, Decls: decls.String(), Body: body.String()})
	}
	outs, err := runGoBatch("C03", snippets)
	if err != nil {
		// the oracle batch is an extra cross-check; without it go/types remains the oracle
		c03batchErr = err.Error()
		return
	}
	c03batch = map[string]string{}
	for si, out := range outs {
		lines := strings.Split(out, "\n")
		lo := si * per
		for k, l := range lines {
			if lo+k < len(sel) {
				c03batch[sel[lo+k].gsrc] = l
			}
		}
	}
}

var c03batchErr string
var c03batchHits int // constant conversions compared with compiled Go so far
var c03batchSeen int
var c03batchErrTagged bool


// ---------------------------------------------------------------- generator

var c03strings = []string{"", "a", "abc", "\x00", "a\x00b", "\xff", "a\xffb", "\xc0\x80", "\xed\xa0\x80", "\xed\x9f\xbf", "\xf4\x90\x80\x80", "\xf4\x8f\xbf\xbf",
	"\xe2\x82", "€", "a€b", "\U0010ffff", "\xf0\x9f\x98\x80", "\x80", "\xc2", "\xc2\x80", "\xdf\xbf", "\xe0\xa0\x80", "\xe0\x9f\xbf", "\xef\xbf\xbd", "\xf0\x90\x80\x80",
	"\xf0\x8f\xbf\xbf", "\xf5\x80\x80\x80", "é", "hello, world", "\xe2\x82\xac\xe2\x82", "\xfe\xff", "12"}

var c03runes = [][]int32{{}, {65}, {0xD800}, {0xDFFF}, {0xD7FF}, {0xE000}, {0x110000}, {-1}, {0x10FFFF}, {0xFFFD}, {0x7F, 0x80, 0x7FF, 0x800, 0xFFFF, 0x10000},
	{math.MinInt32}, {math.MaxInt32}, {65, 0xD800, 66, 0x110000, 67, -1, 0x20AC}, {0}, {0x20AC, 0x1F600}}

func c03boundary(kind string) []c03val {
	var out []c03val
	switch kind {
	case "bytes":
		for _, s := range c03strings {
			out = append(out, c03val{bs: []byte(s)})
		}
		return out
	case "runes":
		for _, r := range c03runes {
			out = append(out, c03val{rs: r})
		}
		return out
	case "string":
		for _, s := range c03strings {
			out = append(out, c03val{bval: bval{s: s}})
		}
		return out
	}
	k := bkinds[kind]
	for _, b := range boundary(k) {
		out = append(out, c03val{bval: b})
	}
	switch k.cat {
	case catInt, catUint:
		if k.bits == 64 {
			// double-rounding witnesses for integer -> float32 (through float64), code points
			for _, u := range []uint64{1<<60 + 1<<36 + 1, 1<<60 + 1<<36, 1<<60 + 1<<36 - 1, 1<<62 + 1<<38 + 1, 1<<53 + 1, 1<<24 + 1, 0xD800, 0xDFFF, 0xD7FF, 0xE000, 0x10FFFF, 0x110000, 0xFFFD, 65, 0x20AC} {
				out = append(out, c03val{bval: bval{u: u}})
				if k.cat == catInt {
					out = append(out, c03val{bval: bval{u: -u}})
				}
			}
			if k.cat == catUint {
				out = append(out, c03val{bval: bval{u: 1<<63 + 1<<39 + 1}}, c03val{bval: bval{u: 1<<63 + 1025}}, c03val{bval: bval{u: 1<<63 + 1024}})
			}
		} else if k.bits >= 16 {
			for _, u := range []uint64{0xD800, 0xDFFF, 0xD7FF, 0xE000, 0x10FFFF, 0x110000, 0xFFFD, 65, 0x20AC} {
				out = append(out, c03val{bval: bval{u: maskBits(u, k.bits)}})
			}
		}
	case catFloat:
		// around the integer ranges
		for _, e := range []int{7, 8, 15, 16, 31, 32, 63, 64} {
			p := math.Ldexp(1, e)
			for _, f := range []float64{p, p - 1, p + 1, p - 0.5, p + 0.5, -p, -p - 1, -p + 1, -p - 0.5, -p + 0.5, math.Nextafter(p, 0), math.Nextafter(p, math.Inf(1)), -math.Nextafter(p, 0), -math.Nextafter(p, math.Inf(1))} {
				if k.bits == 32 {
					out = append(out, c03val{bval: bval{u: of32(float32(f))}})
				} else {
					out = append(out, c03val{bval: bval{u: of64(f)}})
				}
			}
		}
		for _, f := range []float64{0.99, -0.99, 0.5, -0.5, 65, 1e19, -1e19, 1e100, -1e100, 3.4028235677973366e38, 3.4028235e38, 1e-46, 1.401298464324817e-45, 7.006492321624085e-46, 7.0064923216240862e-46, 1.0000000596046448, 1.0000000596046447} {
			if k.bits == 32 {
				out = append(out, c03val{bval: bval{u: of32(float32(f))}})
			} else {
				out = append(out, c03val{bval: bval{u: of64(f)}})
			}
		}
	}
	return out
}

func c03random(r *rand.Rand, kind string) c03val {
	switch kind {
	case "bytes", "string":
		n := r.Intn(8)
		b := make([]byte, 0, n*4)
		for i := 0; i < n; i++ {
			switch r.Intn(4) {
			case 0:
				b = append(b, byte(r.Intn(256)))
			case 1:
				b = append(b, []byte(string(rune(r.Intn(0x110000))))...)
			case 2:
				b = append(b, byte(0x80+r.Intn(0x80)))
			default:
				b = append(b, byte(32+r.Intn(95)))
			}
		}
		if kind == "bytes" {
			return c03val{bs: b}
		}
		return c03val{bval: bval{s: string(b)}}
	case "runes":
		n := r.Intn(6)
		rs := make([]int32, n)
		for i := range rs {
			switch r.Intn(4) {
			case 0:
				rs[i] = int32(r.Uint32())
			case 1:
				rs[i] = int32(0xD700 + r.Intn(0xA00))
			case 2:
				rs[i] = int32(0x10FF00 + r.Intn(0x200))
			default:
				rs[i] = int32(r.Intn(0x3000))
			}
		}
		return c03val{rs: rs}
	}
	return c03val{bval: randomVal(r, bkinds[kind])}
}

// exact untyped constants per kind (text as the driver parses it)
func c03untypedVals(uk string) []string {
	switch uk {
	case "u:bool":
		return []string{"t", "f"}
	case "u:string":
		var out []string
		for _, s := range c03strings {
			out = append(out, "s"+fmt.Sprintf("%x", s))
		}
		return out
	case "u:int", "u:rune":
		set := map[string]bool{}
		add := func(b *big.Int) { set[b.String()] = true }
		for _, e := range []uint{0, 7, 8, 15, 16, 24, 31, 32, 53, 63, 64, 70, 127, 128} {
			p := new(big.Int).Lsh(big.NewInt(1), e)
			for _, d := range []int64{-1, 0, 1} {
				q := new(big.Int).Add(p, big.NewInt(d))
				add(q)
				add(new(big.Int).Neg(q))
			}
		}
		for _, v := range []int64{0, 2, 3, 65, 0xD7FF, 0xD800, 0xDFFF, 0xE000, 0xFFFD, 0x10FFFF, 0x110000, 0x20AC, 1<<60 + 1<<36 + 1, 16777217} {
			add(big.NewInt(v))
		}
		var out []string
		for s := range set {
			out = append(out, s)
		}
		sort.Strings(out)
		return out
	case "u:float":
		return []string{"0", "1", "-1", "3/2", "-3/2", "1/2", "-1/2", "1/10", "3", "65", "255", "256", "127", "128", "-128", "-129", "255/2", "32767", "32768", "65535", "65536",
			"2147483647", "2147483648", "4294967295", "4294967296", "9223372036854775807", "9223372036854775808", "-9223372036854775808", "-9223372036854775809",
			"18446744073709551615", "18446744073709551616", "9007199254740993", "16777217", "1152921573326323713",
			"340282346638528859811704183484516925440", "340282356779733661637539395458142568447", "340282356779733661637539395458142568448",
			"1" + strings.Repeat("0", 100), "-1" + strings.Repeat("0", 100), "1" + strings.Repeat("0", 400),
			"179769313486231570814527423731704356798070567525844996598917476803157260780028538760589558632766878171540458953514382464234321326889464182768467546703537516986049910576551282076245490090389328944075868508455133942304583236903222948165808559332123348274797826204144723168738177180919299881250404026184124858368",
			"179769313486231580793728971405303415079934132710037826936173778980444968292764750946649017977587207096330286416692887910946555547851940402630657488671505820681908902000708383676273854845817711531764475730270069855571366959622842914819860834936475292719074168444365510704342711559699508093042880177904174497791",
			"179769313486231580793728971405303415079934132710037826936173778980444968292764750946649017977587207096330286416692887910946555547851940402630657488671505820681908902000708383676273854845817711531764475730270069855571366959622842914819860834936475292719074168444365510704342711559699508093042880177904174497792",
			"1/" + new(big.Int).Lsh(big.NewInt(1), 149).String(), "1/" + new(big.Int).Lsh(big.NewInt(1), 150).String(), "3/" + new(big.Int).Lsh(big.NewInt(1), 151).String(),
			"-1/" + new(big.Int).Lsh(big.NewInt(1), 1100).String(), "1/" + new(big.Int).Lsh(big.NewInt(1), 1074).String(), "1/" + new(big.Int).Lsh(big.NewInt(1), 1075).String(), "1/3", "2/3"}
	case "u:complex":
		return []string{"0,0", "1,0", "3/2,0", "3,0", "-1,0", "256,0", "1,1", "0,1", "3/2,-1/2", "1" + strings.Repeat("0", 100) + ",0", "1,1" + strings.Repeat("0", 100), "1/10,1/10", "65,0", "-129,0", "9223372036854775808,0"}
	}
	return nil
}

func c03chunks(vals []string, n int, f func(part []string)) {
	for i := 0; i < len(vals); i += n {
		j := i + n
		if j > len(vals) {
			j = len(vals)
		}
		f(vals[i:j])
	}
}

func c03gen(r *rand.Rand, tier string, emit func(string)) {
	thorough := tier == "thorough"
	encAll := func(kind string, vs []c03val) []string {
		out := make([]string, len(vs))
		for i, v := range vs {
			out[i] = c03encIn(kind, v)
		}
		return out
	}
	bnd := map[string][]c03val{}
	for _, k := range c03kinds {
		bnd[k] = c03boundary(k)
	}
	goAccepts := func(s, d string) bool {
		ok, _, _ := c03typecheck("var x "+c03type{kind: s}.src(), c03type{kind: d}.src()+"(x)")
		return ok
	}
	tagCombos := [][2]string{{"", ""}, {"N", ""}, {"", "N"}, {"N", "M"}, {"N", "N"}}
	// 1. exhaustive: 19 x 19 kind pairs x named variants, variable operand, all boundary values
	for _, s := range c03kinds {
		for _, d := range c03kinds {
			acc := goAccepts(s, d)
			for ci, tc := range tagCombos {
				if ci > 0 && !acc && !thorough && (len(s)+len(d)+ci)%3 != 0 {
					continue // rejected pairs: the named variants are thinned in the quick tier
				}
				st, dt := c03type{tag: tc[0], kind: s}, c03type{tag: tc[1], kind: d}
				vals := encAll(s, bnd[s])
				if !acc {
					vals = vals[:1]
				} else if ci > 0 && !thorough {
					// named variants: every 3rd boundary value
					var t []string
					for i := ci % 3; i < len(vals); i += 3 {
						t = append(t, vals[i])
					}
					vals = t
				}
				c03chunks(vals, 64, func(part []string) {
					emit("cv v " + st.String() + " " + dt.String() + " " + strings.Join(part, " "))
				})
			}
		}
	}
	// slices of named element types
	for _, p := range [][2]string{{"string", "E.bytes"}, {"string", "E.runes"}, {"E.bytes", "string"}, {"E.runes", "string"}, {"E.bytes", "bytes"}, {"bytes", "E.bytes"},
		{"E.runes", "runes"}, {"N.string", "E.bytes"}, {"E.runes", "N.string"}, {"E.bytes", "N.bytes"}, {"N.bytes", "E.bytes"}, {"E.bytes", "runes"}, {"E.bytes", "int"}, {"int", "E.bytes"}} {
		st, _ := c03parseType(p[0])
		emit("cv v " + p[0] + " " + p[1] + " " + strings.Join(encAll(st.kind, bnd[st.kind]), " "))
	}
	// 2. operand with a side effect: all pairs
	for _, s := range c03kinds {
		for _, d := range c03kinds {
			vs := bnd[s]
			if len(vs) > 3 {
				vs = []c03val{vs[0], vs[len(vs)/2], vs[len(vs)-1]}
			}
			emit("cv e " + s + " " + d + " " + strings.Join(encAll(s, vs), " "))
		}
	}
	// 3. typed constants: 17 x 19 kind pairs, boundary values that have a literal
	for _, s := range bkindNames {
		var cs []c03val
		for _, v := range bnd[s] {
			if c03lit(s, v) != "" {
				cs = append(cs, v)
			}
		}
		for _, d := range c03kinds {
			acc := goAccepts(s, d)
			sk, dk := bkinds[s], bkinds[d]
			numeric := func(k *bkind) bool { return k != nil && k.cat != catBool && k.cat != catString }
			vals := encAll(s, cs)
			if !acc && !(numeric(sk) && numeric(dk)) {
				vals = vals[:2]
			} else if !thorough && len(vals) > 48 {
				// thin: keep both ends and every 3rd value
				var t []string
				for i, v := range vals {
					if i < 6 || i >= len(vals)-6 || i%3 == 0 {
						t = append(t, v)
					}
				}
				vals = t
			}
			c03chunks(vals, 48, func(part []string) {
				emit("cv c " + s + " " + d + " " + strings.Join(part, " "))
			})
			// named variants on a few values
			few := vals
			if len(few) > 6 {
				few = []string{vals[0], vals[1], vals[len(vals)/3], vals[len(vals)/2], vals[len(vals)-2], vals[len(vals)-1]}
			}
			emit("cv c N." + s + " " + d + " " + strings.Join(few, " "))
			emit("cv c " + s + " N." + d + " " + strings.Join(few, " "))
			emit("cv c N." + s + " M." + d + " " + strings.Join(few, " "))
		}
	}
	// 4. untyped constants: 6 kinds x 19 targets (+ named targets)
	for _, uk := range []string{"u:bool", "u:int", "u:rune", "u:float", "u:complex", "u:string"} {
		vals := c03untypedVals(uk)
		for _, d := range c03kinds {
			for _, tag := range []string{"", "N", "E"} {
				dt := c03type{tag: tag, kind: d}
				if tag == "E" && d != "bytes" && d != "runes" {
					continue
				}
				vs := vals
				if tag != "" && len(vs) > 8 {
					vs = vs[:8]
				}
				c03chunks(vs, 48, func(part []string) {
					emit("cv u " + uk + " " + dt.String() + " " + strings.Join(part, " "))
				})
			}
		}
	}
	// 5. random: random accepted pairs with random values, a few random rejected/malformed lines
	n := 1500
	if thorough {
		n = 40000
	}
	tags := []string{"", "", "", "N", "M"}
	for i := 0; i < n; i++ {
		s, d := c03kinds[r.Intn(len(c03kinds))], c03kinds[r.Intn(len(c03kinds))]
		if !goAccepts(s, d) && r.Intn(8) != 0 {
			// prefer pairs Go accepts: numeric x numeric, or string-ish
			switch r.Intn(3) {
			case 0:
				num := bkindNames[1:14]
				s, d = num[r.Intn(len(num))], num[r.Intn(len(num))]
			case 1:
				p := [][2]string{{"string", "bytes"}, {"string", "runes"}, {"bytes", "string"}, {"runes", "string"}, {"int32", "string"}, {"uint64", "string"}, {"int", "string"}, {"complex64", "complex128"}, {"complex128", "complex64"}}[r.Intn(9)]
				s, d = p[0], p[1]
			default:
				d = s
			}
		}
		st, dt := c03type{tag: tags[r.Intn(len(tags))], kind: s}, c03type{tag: tags[r.Intn(len(tags))], kind: d}
		m := 1 + r.Intn(12)
		vs := make([]c03val, m)
		for j := range vs {
			if r.Intn(3) == 0 {
				vs[j] = bnd[s][r.Intn(len(bnd[s]))]
			} else {
				vs[j] = c03random(r, s)
			}
		}
		mode := "v"
		switch r.Intn(6) {
		case 0:
			mode = "e"
			st.tag, dt.tag = "", ""
		case 1, 2:
			if s != "bytes" && s != "runes" {
				mode = "c"
				var t []c03val
				for _, v := range vs {
					if c03lit(s, v) != "" {
						t = append(t, v)
					}
				}
				vs = t
			}
		}
		if len(vs) == 0 {
			continue
		}
		emit("cv " + mode + " " + st.String() + " " + dt.String() + " " + strings.Join(encAll(s, vs), " "))
	}
	// malformed stream
	for _, l := range []string{"cv", "cv v int", "cv x int int 1", "cv v int8 int zz", "cv v foo int 1", "cv u u:int int8 1x", "cv v E.int int 1", "cv u u:float int8 1/0x", "xx 1 2 3"} {
		emit(l)
	}
}

func init() {
	register(&Prop{
		ID:   "C03",
		Rule: "bounded-exhaustive: 19x19 kind pairs (17 basic kinds, []byte, []rune) x {unnamed, named} x {variable, side-effect call, typed constant, untyped constant} x boundary values (min, max, -1, 0, 2^k, 2^k+-1, NaN, +-Inf, floats around every integer range, surrogates, 0x110000, invalid UTF-8), then random pairs/values; non-trivial = at least one value converted or rejected",
		Gen:  c03gen,
		Exec: c03exec,
		Exhaustive: func(tier string) bool {
			return true // the kind-pair x mode space is enumerated completely; values are boundary + random
		},
		Prepare: c03prepare,
	})
}
