package main

// C06: function calls and closures behave as in Go regardless of frame recycling.
//
// Every generated program (harness/c06gen.go) is run by the real interpreter with the frame
// pool hook of hooks/C06.diff (build tag verif): an event sink for allocation / release /
// MarkUsedByClosure and poison-on-free (the slots of a frame entering Run.Pool are overwritten,
// so a read through a stale reference produces a wrong value or an error).
//
//   * oracle (the failing-input search): the value of main1() must equal compiled Go
//     (runGoBatch, go 1.21 semantics);
//   * monitor (the tie to the Lean model): the event stream is translated into operations
//     "call o nb ni | block o nb ni | ret e | bexit e | clos e | addr e | jump n | unwind n | end"
//     naming frames by serial number, one op per line; the real observations (frame identity
//     returned by the allocator, from-pool flag, pool size, flags seen by freeEnv, pooled,
//     Ints dropped) are the output line; lean/Drv/C06.lean replays the ops on Model/Frames.lean
//     (PoolMachine) and must print the same lines; "disabled" = the real event is not an
//     enabled transition of the model.
//
// The hook is reached through an interface assertion, so the harness also builds against a
// checkout without the hook; then only the oracle runs (tag "nohook") and no event ops are emitted.

import (
	"fmt"
	"math/rand"
	"os"
	"reflect"
	"strings"
	"time"
	"unsafe"

	"github.com/cosmos72/gomacro/fast"
)

type c06Hook interface {
	VerifC06(sink func(kind int, run *fast.Run, env *fast.Env, outer *fast.Env, a int, b int, flag bool), poison bool)
	VerifC06Env() *fast.Env
}

const (
	c06AllocFunc  = 1
	c06AllocBlock = 2
	c06AllocOther = 3
	c06Free       = 4
	c06Pooled     = 5
	c06Mark       = 6
)

type c06Event struct {
	kind       int
	env, outer *fast.Env
	a, b       int
	flag       bool
	pool       int // Run.PoolSize when the hook was called
	otherRun   bool
}

// c06Trace is the result of running one program on the real code
type c06Trace struct {
	result string   // fmt.Sprint of main1(), or "ERROR: ..."
	ops    []string // monitor operations
	outs   []string // real observations, one per op
	tags   map[string]bool
	anom   []string // events the translation could not explain
	hook   bool
	leak   bool // a function returned normally without releasing its frame
	audit  string // non-empty: an escaped pointer refers to the Ints of a frame that is pooled or not flagged IntAddressTaken
}

// c06PtrGlobals are the package-level slices in which generated programs keep escaped pointers
// to integer-like variables (variables of these kinds live in Env.Ints)
var c06PtrGlobals = []string{"gp", "gpk", "gp8", "gpf"}

// c06AuditPointers checks on the REAL heap, after the program has run, the clause of the model's
// invariant that protects &env.Ints[i]: a frame whose Ints backing array is the target of a live
// pointer has IntAddressTaken set and is not in the pool (freeEnv drops the Ints of such a frame
// before pooling it, and only then).
func c06AuditPointers(ir *fast.Interp, base *fast.Env, envs map[*fast.Env]int) string {
	run := base.Run
	pooled := map[*fast.Env]bool{}
	for i := 0; i < run.PoolSize; i++ {
		pooled[run.Pool[i]] = true
	}
	for _, name := range c06PtrGlobals {
		vals, errText := evalSrc(ir, name)
		if errText != "" || len(vals) != 1 || vals[0].Kind() != reflect.Slice {
			continue
		}
		sl := vals[0]
		for i := 0; i < sl.Len(); i++ {
			pv := sl.Index(i)
			if pv.Kind() != reflect.Ptr || pv.IsNil() {
				continue
			}
			addr := pv.Pointer()
			for env, id := range envs {
				ints := env.Ints[:cap(env.Ints)]
				if len(ints) == 0 {
					continue
				}
				lo := uintptr(unsafe.Pointer(&ints[0]))
				if addr < lo || addr >= lo+8*uintptr(len(ints)) {
					continue
				}
				switch {
				case pooled[env]:
					return fmt.Sprintf("%s[%d] points into the Ints of frame %d, which is in Run.Pool", name, i, id)
				case !env.IntAddressTaken:
					return fmt.Sprintf("%s[%d] points into the Ints of frame %d, which does not have IntAddressTaken set", name, i, id)
				}
			}
		}
	}
	return ""
}

// c06Run evaluates the program (declarations, then main1()) in a fresh interpreter
func c06Run(decls []string, poison bool) *c06Trace {
	tr := &c06Trace{tags: map[string]bool{}}
	ir := newQuietInterp()
	var events []c06Event
	var hook c06Hook
	if h, ok := interface{}(ir).(c06Hook); ok {
		hook = h
		tr.hook = true
	}
	var base *fast.Env
	if hook != nil {
		base = hook.VerifC06Env()
		mainRun := base.Run
		hook.VerifC06(func(kind int, run *fast.Run, env *fast.Env, outer *fast.Env, a int, b int, flag bool) {
			events = append(events, c06Event{kind, env, outer, a, b, flag, run.PoolSize, run != mainRun})
		}, poison)
		defer hook.VerifC06(nil, false)
	}
	src := strings.Join(decls, "\n") + "\nmain1()"
	if os.Getenv("C06_DEBUG") != "" {
		os.WriteFile(os.Getenv("C06_DEBUG"), []byte(strings.Join(decls, "\n")+"\nmain1()\n"), 0o644)
	}
	vals, errText := evalSrc(ir, src)
	if errText != "" {
		tr.result = "ERROR: " + errText
	} else {
		tr.result = showVals(vals, false)
	}
	if hook != nil {
		hook.VerifC06(nil, false)
		envs := c06Translate(tr, base, events)
		if errText == "" {
			tr.audit = c06AuditPointers(ir, base, envs)
			if tr.audit != "" && os.Getenv("C06_DEBUG") != "" {
				fmt.Fprintf(os.Stderr, "C06 audit (poison=%v): %s\n", poison, tr.audit)
			}
		}
		if tr.tags["unwind"] && !strings.Contains(src, "panic(") && errText == "" {
			// activations can only be left behind by a panic; the program has none:
			// some function frame was never released (no freeEnv4Func on a normal return)
			tr.leak = true
		}
	}
	return tr
}

type c06Mon struct {
	tr    *c06Trace
	ids   map[*fast.Env]int
	stack [][]int // activations, last = current; each innermost frame first
	nclos int
	nptrs int
}

func (m *c06Mon) emit(op, out string) {
	m.tr.ops = append(m.tr.ops, op)
	m.tr.outs = append(m.tr.outs, out)
}

func (m *c06Mon) id(e *fast.Env) int {
	if n, ok := m.ids[e]; ok {
		return n
	}
	n := len(m.ids)
	m.ids[e] = n
	return n
}

func (m *c06Mon) live() int {
	n := 0
	for _, a := range m.stack {
		n += len(a)
	}
	return n
}

// inv is the suffix the Lean driver prints when it evaluates poolInvB (small states only)
func (m *c06Mon) inv(pool int) string {
	if m.nclos+m.live()+pool <= 40 {
		return " inv=1"
	}
	return ""
}

// focus makes frame id the current env: the real executor got there by a panic that left
// activations (unwind) and/or by break/continue/goto/return out of block frames (jump)
func (m *c06Mon) focus(id int, pool int, asFunc bool) bool {
	for j := 0; j < len(m.stack); j++ {
		act := m.stack[len(m.stack)-1-j]
		for n, f := range act {
			if f != id {
				continue
			}
			if asFunc && n != len(act)-1 {
				return false
			}
			if j > 0 {
				m.emit(fmt.Sprintf("unwind %d", j), fmt.Sprintf("ok pool=%d", pool))
				m.stack = m.stack[:len(m.stack)-j]
				m.tr.tags["unwind"] = true
			}
			if n > 0 && !asFunc {
				m.emit(fmt.Sprintf("jump %d", n), fmt.Sprintf("ok pool=%d", pool))
				top := len(m.stack) - 1
				m.stack[top] = m.stack[top][n:]
				m.tr.tags["jump"] = true
			}
			return true
		}
	}
	return false
}

func (m *c06Mon) isFunc(id int) bool {
	for _, act := range m.stack {
		if act[len(act)-1] == id {
			return true
		}
	}
	return false
}

func c06b(b bool) int {
	if b {
		return 1
	}
	return 0
}

func c06Translate(tr *c06Trace, base *fast.Env, events []c06Event) map[*fast.Env]int {
	m := &c06Mon{tr: tr, ids: map[*fast.Env]int{}}
	m.id(base.Outer) // 0 = top env
	m.id(base)       // 1 = file env
	m.stack = [][]int{{1}}
	anom := func(format string, args ...interface{}) {
		if len(tr.anom) < 5 {
			tr.anom = append(tr.anom, fmt.Sprintf(format, args...))
		}
	}
	for i := 0; i < len(events); i++ {
		ev := events[i]
		if ev.otherRun {
			anom("event %d on another Run", i)
		}
		switch ev.kind {
		case c06AllocFunc, c06AllocBlock:
			_, known := m.ids[ev.env]
			if known != ev.flag {
				anom("alloc: frame known=%v but fromPool=%v", known, ev.flag)
			}
			if _, ok := m.ids[ev.outer]; !ok {
				anom("alloc: unknown outer frame")
			}
			o := m.id(ev.outer)
			e := m.id(ev.env)
			before := ev.pool + c06b(ev.flag)
			var op string
			if ev.kind == c06AllocFunc {
				op = fmt.Sprintf("call %d %d %d", o, ev.a, ev.b)
				m.stack = append(m.stack, []int{e})
				tr.tags["call"] = true
			} else {
				if !m.focus(o, before, false) {
					anom("block: outer %d is not on the interpreted stack", o)
				}
				op = fmt.Sprintf("block %d %d %d", o, ev.a, ev.b)
				top := len(m.stack) - 1
				m.stack[top] = append([]int{e}, m.stack[top]...)
				tr.tags["block"] = true
			}
			if ev.flag {
				tr.tags["reuse"] = true
			}
			m.emit(op, fmt.Sprintf("id=%d fp=%d pool=%d%s", e, c06b(ev.flag), ev.pool, m.inv(ev.pool)))
		case c06AllocOther:
			anom("newEnv (go statement) is outside the generated programs")
			m.emit(fmt.Sprintf("other %d", m.id(ev.env)), "unexpected")
		case c06Free:
			if _, ok := m.ids[ev.env]; !ok {
				anom("free: unknown frame")
			}
			e := m.id(ev.env)
			pooled := i+1 < len(events) && events[i+1].kind == c06Pooled && events[i+1].env == ev.env
			isFunc := m.isFunc(e)
			if !m.focus(e, ev.pool, isFunc) {
				anom("free: frame %d is not on the interpreted stack", e)
			}
			if ev.b != 0 {
				// IntAddressTaken: some &env.Ints[i] was executed while the frame was live
				m.emit(fmt.Sprintf("addr %d", e), "ok")
				m.nptrs++
				tr.tags["addr"] = true
			}
			after := ev.pool
			suffix := ""
			if pooled {
				pe := events[i+1]
				if pe.a != ev.pool {
					anom("pooled at index %d but PoolSize was %d", pe.a, ev.pool)
				}
				after = pe.a + 1
				suffix = fmt.Sprintf(" intsnil=%d", pe.b)
				tr.tags["pooled"] = true
				if pe.b != 0 && ev.b != 0 {
					tr.tags["ints-dropped"] = true
				}
				i++
			} else if ev.a != 0 {
				tr.tags["kept-used"] = true
			} else {
				tr.tags["pool-full"] = true
			}
			var op string
			if len(m.stack) > 0 {
				top := len(m.stack) - 1
				if isFunc {
					op = fmt.Sprintf("ret %d", e)
					if len(m.stack[top]) > 1 {
						tr.tags["ret-in-block"] = true
					}
					m.stack = m.stack[:top]
				} else {
					op = fmt.Sprintf("bexit %d", e)
					if len(m.stack[top]) > 1 {
						m.stack[top] = m.stack[top][1:]
					}
				}
			} else {
				op = fmt.Sprintf("ret %d", e)
			}
			m.emit(op, fmt.Sprintf("used=%d addr=%d pooled=%d pool=%d%s%s", ev.a, ev.b, c06b(pooled), after, suffix, m.inv(after)))
		case c06Pooled:
			anom("pooled event without a preceding free of the same frame")
		case c06Mark:
			if _, ok := m.ids[ev.env]; !ok {
				anom("mark: unknown frame")
			}
			e := m.id(ev.env)
			if !m.focus(e, ev.pool, false) {
				anom("mark: frame %d is not on the interpreted stack", e)
			}
			m.emit(fmt.Sprintf("clos %d", e), fmt.Sprintf("ok pool=%d marked=%d", ev.pool, c06b(ev.flag)))
			m.nclos++
			if !ev.flag {
				tr.tags["mark-new"] = true
			}
		}
	}
	pool := base.Run.PoolSize
	m.emit("end", fmt.Sprintf("end inv=1 pool=%d clos=%d ptrs=%d heap=%d depth=%d", pool, m.nclos, m.nptrs, len(m.ids), len(m.stack)))
	if len(m.ids) > 2+poolCapacityC06 {
		tr.tags["deep"] = true
	}
	return m.ids
}

const poolCapacityC06 = 32

// ---------------------------------------------------------------------------------------------

func c06ProgOp(name string, decls []string) string {
	return "prog " + name + " :: " + strings.Join(decls, " ;; ")
}

func c06ParseProg(op string) (name string, decls []string) {
	rest := strings.TrimPrefix(op, "prog ")
	i := strings.Index(rest, " :: ")
	if i < 0 {
		return rest, nil
	}
	return rest[:i], strings.Split(rest[i+4:], " ;; ")
}

var c06expected = map[string]string{} // prog op -> output of compiled Go
var c06oracleErr string
var c06cur *c06Trace
var c06pos int

func c06Prepare(ops []string) {
	var progs []string
	var snips []Snippet
	seen := map[string]bool{}
	for _, op := range ops {
		if strings.HasPrefix(op, "prog ") && !seen[op] {
			seen[op] = true
			_, decls := c06ParseProg(op)
			progs = append(progs, op)
			snips = append(snips, Snippet{Decls: strings.Join(decls, "\n"), Body: "emit(fmt.Sprint(main1()))"})
		}
	}
	if len(snips) == 0 {
		return
	}
	t0 := time.Now()
	outs, err := runGoBatch("C06", snips)
	if os.Getenv("C06_DEBUG") != "" {
		fmt.Fprintf(os.Stderr, "C06 oracle batch: %d programs in %v err=%v\n", len(snips), time.Since(t0), err)
	}
	if err != nil {
		c06oracleErr = err.Error()
		return
	}
	for i, op := range progs {
		c06expected[op] = outs[i]
	}
}

func c06Exec(op string) Result {
	switch {
	case op == "reset":
		c06cur, c06pos = nil, 0
		return Result{Out: "ok"}
	case strings.HasPrefix(op, "prog "):
		name, decls := c06ParseProg(op)
		tr := c06Run(decls, true)
		c06cur, c06pos = tr, 0
		// second run without poisoning: poison overwrites the stale content of recycled frames,
		// which is exactly what some defects (in-place reuse of a stale variable cell) need
		var plain *c06Trace
		if tr.hook {
			plain = c06Run(decls, false)
		}
		res := Result{Out: "prog", Nontrivial: true, Tags: []string{"prog", "t:" + name}}
		for t := range tr.tags {
			res.Tags = append(res.Tags, t)
		}
		if !tr.hook {
			res.Tags = append(res.Tags, "nohook")
		}
		if c06oracleErr != "" {
			res.Out = "prog ORACLE-ERROR " + c06oracleErr
			return res
		}
		want, ok := c06expected[op]
		if !ok {
			res.Out = "prog ORACLE-MISSING"
			return res
		}
		if strings.HasPrefix(tr.result, "ERROR: ") {
			res.Tags = append(res.Tags, "interp-error")
		}
		if tr.result != want {
			mode := "frames poisoned on release"
			if !tr.hook {
				mode = "no hook in this tree: frames not poisoned, no monitor"
			}
			res.Viol = fmt.Sprintf("program %s: gomacro (%s) returns %q, compiled Go returns %q", name, mode, truncate(tr.result, 200), truncate(want, 200))
			res.Key = "C06-result-" + name
		} else if plain != nil && plain.result != want {
			res.Viol = fmt.Sprintf("program %s: gomacro (frames not poisoned) returns %q, compiled Go returns %q", name, truncate(plain.result, 200), truncate(want, 200))
			res.Key = "C06-result-" + name
		} else if tr.audit != "" || (plain != nil && plain.audit != "") {
			a := tr.audit
			if a == "" {
				a = plain.audit
			}
			res.Viol = fmt.Sprintf("program %s: %s (a variable whose address was taken can be overwritten when the frame is recycled)", name, a)
			res.Key = "C06-ptr-owner-" + name
		} else if tr.leak {
			res.Viol = fmt.Sprintf("program %s: a function returned normally but its frame was never released (freeEnv4Func not called): the monitor needs a panic-style unwind in a program without panic", name)
			res.Key = "C06-frame-not-released-" + name
		} else if len(tr.anom) > 0 {
			res.Viol = fmt.Sprintf("program %s: frame event not explained by the call/block structure: %s", name, strings.Join(tr.anom, "; "))
			res.Key = "C06-monitor-" + name
		}
		return res
	default:
		if c06cur == nil || c06pos >= len(c06cur.ops) {
			return Result{Out: "DESYNC no-such-event", Tags: []string{"desync"}}
		}
		want, out := c06cur.ops[c06pos], c06cur.outs[c06pos]
		c06pos++
		if want != op {
			return Result{Out: "DESYNC real-run-gives " + want, Tags: []string{"desync"}}
		}
		return Result{Out: out, Tags: []string{"ev:" + strings.SplitN(op, " ", 2)[0]}}
	}
}

// c06Emit runs the program and emits reset + prog + its monitor ops; with maxOps > 0 a
// program with more monitor ops is dropped (nothing emitted, false returned)
func c06Emit(emit func(string), name string, decls []string, maxOps int) bool {
	tr := c06Run(decls, true)
	if maxOps > 0 && len(tr.ops) > maxOps {
		return false
	}
	emit("reset")
	emit(c06ProgOp(name, decls))
	for _, op := range tr.ops {
		emit(op)
	}
	return true
}

func init() {
	register(&Prop{
		ID:   "C06",
		Rule: "fixed escape-pattern programs x parameter grid first, then seeded random programs (functions with named/multiple/variadic results, methods, nested closures escaping through results/slices/globals/callbacks, closures in loops, &local on int-like variables, recursion deeper than the pool, break/continue/return out of blocks, panics through frames with recover); each program = reset + prog + its monitor ops. Non-trivial: prog ops; distinct by program text.",
		Gen: func(r *rand.Rand, tier string, emit func(string)) {
			t0 := time.Now()
			c06Gen(r, tier, func(name string, decls []string, maxOps int) bool { return c06Emit(emit, name, decls, maxOps) })
			if os.Getenv("C06_DEBUG") != "" {
				fmt.Fprintf(os.Stderr, "C06 gen: %v\n", time.Since(t0))
			}
		},
		Exec:       c06Exec,
		Prepare:    c06Prepare,
		Exhaustive: func(tier string) bool { return false },
	})
}
