package main

import (
	"fmt"
	"math/big"
	"math/rand"
	"strconv"
	"strings"

	"github.com/cosmos72/gomacro/fast"
)

// C08: composite data types and builtins behave as in Go.
//
// Every op is one small Go function body.  The SAME text is (a) compiled with the Go toolchain
// (runGoBatch, the property oracle), (b) evaluated by gomacro as `func() (out string) {...}()`.
// For the op classes idx / midx / slc / lit / heap the Lean model (Drv/C08.lean) predicts the
// output as well (correspondence); `rich` programs are outside the model (the driver echoes).
//
//   idx  <cont> <ekind> <L> <C> <ikind> <c|v> <val> <r|w>     a[i]  /  a[i] = 77
//   midx <ekind> <c|v> <0|1>                                   m[k], key constant/variable, present?
//   slc  <cont> <L> <C> <lo> <hi> <max>                        a[lo:hi(:max)]  bound = - | kind:c|v:val
//   lit  <arr N|ell|slice> <elt>...                            elt = p | k<kind>:<key> | n
//   heap <stmt>;<stmt>;...                                     mini-language over slices / arrays of int
//   rich <name> <go function body>                             compiled Go vs gomacro only
//   rej  <name> <go function body>                             compiled Go rejects it: gomacro must not yield a value
//
// Out: "ok <text>" | "panic" | "panic@<stmt>" (heap) | "cerr" (rejected at compile time).
// Ops that compiled Go rejects (constant index out of range, duplicate literal index, ...) are not
// sent to the batch; for them the property only demands that gomacro does not produce a value.

var c08kindList = []string{"int", "int8", "int16", "int32", "int64", "uint", "uint8", "uint16", "uint32", "uint64", "uintptr", "untyped"}
var c08ekindList = []string{"bool", "int", "int8", "int16", "int32", "int64", "uint", "uint8", "uint16", "uint32", "uint64", "uintptr",
	"float32", "float64", "complex64", "complex128", "string", "other"}
var c08contList = []string{"slice", "array", "parray", "nilparray", "str", "cstr"}

var c08maxInt = new(big.Int).SetInt64(1<<63 - 1)
var c08minInt = new(big.Int).SetInt64(-1 << 63)

func c08bi(s string) *big.Int {
	z, ok := new(big.Int).SetString(s, 10)
	if !ok {
		return nil
	}
	return z
}

func c08range(kind string) (lo, hi *big.Int) {
	switch kind {
	case "int", "int64":
		return c08minInt, c08maxInt
	case "int8":
		return big.NewInt(-128), big.NewInt(127)
	case "int16":
		return big.NewInt(-32768), big.NewInt(32767)
	case "int32":
		return big.NewInt(-1 << 31), big.NewInt(1<<31 - 1)
	case "uint8":
		return big.NewInt(0), big.NewInt(255)
	case "uint16":
		return big.NewInt(0), big.NewInt(65535)
	case "uint32":
		return big.NewInt(0), big.NewInt(1<<32 - 1)
	case "uint", "uint64", "uintptr":
		return big.NewInt(0), new(big.Int).SetUint64(1<<64 - 1)
	}
	return nil, nil // untyped: unbounded
}

func c08fits(kind string, v *big.Int) bool {
	lo, hi := c08range(kind)
	if lo == nil {
		return true
	}
	return v.Cmp(lo) >= 0 && v.Cmp(hi) <= 0
}

// ---------------------------------------------------------------- element values

// c08elemInt: integer element at position j of a container of element kind ek: near the ends of the range
func c08elemInt(ek string, j int) *big.Int {
	lo, hi := c08range(ek)
	if j%2 == 0 {
		return new(big.Int).Sub(hi, big.NewInt(int64(j)))
	}
	return new(big.Int).Add(lo, big.NewInt(int64(j)))
}

// c08elemSrc: Go source of the element at position j
func c08elemSrc(ek string, j int) string {
	switch ek {
	case "bool":
		return strconv.FormatBool(j%2 == 0)
	case "float32":
		return fmt.Sprintf("%d.5", j)
	case "float64":
		return fmt.Sprintf("%d.25", j)
	case "complex64":
		return fmt.Sprintf("(%d.5+1i)", j)
	case "complex128":
		return fmt.Sprintf("(%d.25+2i)", j)
	case "string":
		return fmt.Sprintf("\"s%d\"", j)
	case "other":
		return fmt.Sprintf("P{%d, %d}", j, j+1)
	}
	return c08elemInt(ek, j).String()
}

func c08typeSrc(ek string) string {
	if ek == "other" {
		return "P"
	}
	return ek
}

// ---------------------------------------------------------------- arguments

type c08arg struct {
	kind string
	cnst bool
	val  *big.Int
}

func c08parseArg(s string) (a c08arg, ok bool) {
	f := strings.Split(s, ":")
	if len(f) != 3 {
		return a, false
	}
	a.kind, a.cnst, a.val = f[0], f[1] == "c", c08bi(f[2])
	return a, a.val != nil && (f[1] == "c" || f[1] == "v")
}

func (a c08arg) String() string {
	cv := "v"
	if a.cnst {
		cv = "c"
	}
	return a.kind + ":" + cv + ":" + a.val.String()
}

// decl renders the declaration of the argument under `name`
func (a c08arg) decl(name string) string {
	kw := "var"
	if a.cnst {
		kw = "const"
	}
	if a.kind == "untyped" {
		return fmt.Sprintf("const %s = %s; ", name, a.val)
	}
	return fmt.Sprintf("%s %s %s = %s; ", kw, name, a.kind, a.val)
}

// goConstOK: a constant index/bound Go accepts (non-negative, representable as int)
func (a c08arg) goConstOK() bool {
	return a.val.Sign() >= 0 && a.val.Cmp(c08maxInt) <= 0
}

// ---------------------------------------------------------------- op -> function body

type c08case struct {
	body    string // Go function body (result variable `out`, statement counter `pc`)
	goValid bool   // compiled Go accepts the program
	class   string
	tags    []string
	bad     bool // unparsable op
}

const c08letters = "abcdefghijklmnopqrstuvwxyz"

func c08container(cont, ek string, L, C int) (setup, name string) {
	var elems []string
	n := L
	if cont == "slice" {
		n = C
	}
	for j := 0; j < n; j++ {
		elems = append(elems, c08elemSrc(ek, j))
	}
	t := c08typeSrc(ek)
	el := strings.Join(elems, ", ")
	switch cont {
	case "slice":
		return fmt.Sprintf("base := []%s{%s}; a := base[:%d]; ", t, el, L), "a"
	case "array":
		return fmt.Sprintf("a := [%d]%s{%s}; ", L, t, el), "a"
	case "parray":
		return fmt.Sprintf("arr := [%d]%s{%s}; a := &arr; ", L, t, el), "a"
	case "nilparray":
		return fmt.Sprintf("var a *[%d]%s; ", L, t), "a"
	case "str":
		return fmt.Sprintf("a := %q; ", c08letters[:L]), "a"
	case "cstr":
		return fmt.Sprintf("const a = %q; ", c08letters[:L]), "a"
	}
	return "", ""
}

func c08idxCase(f []string) c08case {
	if len(f) != 8 {
		return c08case{bad: true}
	}
	cont, ek := f[0], f[1]
	L, e1 := strconv.Atoi(f[2])
	C, e2 := strconv.Atoi(f[3])
	a, ok := c08parseArg(f[4] + ":" + f[5] + ":" + f[6])
	rw := f[7]
	if e1 != nil || e2 != nil || !ok || L > C || C > 26 || (rw != "r" && rw != "w") {
		return c08case{bad: true}
	}
	isStr := cont == "str" || cont == "cstr"
	setup, _ := c08container(cont, ek, L, C)
	body := setup + a.decl("k")
	if rw == "r" {
		body += "return fmt.Sprint(a[k])"
	} else {
		dump := "a"
		if cont == "parray" || cont == "nilparray" {
			dump = "*a"
		}
		body += fmt.Sprintf("a[k] = 77; return fmt.Sprint(%s)", dump)
	}
	valid := c08fits(a.kind, a.val) && !(rw == "w" && isStr)
	if a.cnst {
		valid = valid && a.goConstOK()
		if cont == "array" || cont == "parray" || cont == "nilparray" || cont == "cstr" {
			valid = valid && a.val.Cmp(big.NewInt(int64(L))) < 0
		}
	}
	cv := "var"
	if a.cnst {
		cv = "const"
	}
	return c08case{body: body, goValid: valid, class: "idx", tags: []string{"idx-" + cont, "idx-kind-" + a.kind, "idx-" + cv, "idx-" + rw, "idx-elem-" + ek}}
}

func c08midxCase(f []string) c08case {
	if len(f) != 3 {
		return c08case{bad: true}
	}
	ek, cv, present := f[0], f[1], f[2]
	key := "5"
	if present == "1" {
		key = "2"
	}
	body := fmt.Sprintf("m := map[int]%s{1: %s, 2: %s, 3: %s}; ", c08typeSrc(ek), c08elemSrc(ek, 1), c08elemSrc(ek, 2), c08elemSrc(ek, 3))
	if cv == "c" {
		body += "const k = " + key + "; "
	} else {
		body += "var k int = " + key + "; "
	}
	body += "v := m[k]; return fmt.Sprint(v)"
	return c08case{body: body, goValid: true, class: "midx", tags: []string{"midx-" + ek, "midx-" + cv, "midx-present-" + present}}
}

func c08slcCase(f []string) c08case {
	if len(f) != 6 {
		return c08case{bad: true}
	}
	cont := f[0]
	L, e1 := strconv.Atoi(f[1])
	C, e2 := strconv.Atoi(f[2])
	if e1 != nil || e2 != nil || L > C || C > 26 {
		return c08case{bad: true}
	}
	var args [3]*c08arg
	for i := 0; i < 3; i++ {
		if f[3+i] != "-" {
			a, ok := c08parseArg(f[3+i])
			if !ok {
				return c08case{bad: true}
			}
			args[i] = &a
		}
	}
	isStr := cont == "str" || cont == "cstr"
	setup, _ := c08container(cont, "int", L, C)
	body := setup
	names := []string{"lo", "hi", "mx"}
	expr := "a["
	valid := true
	var consts []*big.Int
	for i, a := range args {
		if i == 2 && a == nil {
			break
		}
		if i > 0 {
			expr += ":"
		}
		if a != nil {
			body += a.decl(names[i])
			expr += names[i]
			valid = valid && c08fits(a.kind, a.val)
			if a.cnst {
				valid = valid && a.goConstOK()
				if cont != "slice" && cont != "str" {
					valid = valid && a.val.Cmp(big.NewInt(int64(L))) <= 0
				}
				for _, c := range consts { // constant bounds must be ordered
					valid = valid && c.Cmp(a.val) <= 0
				}
				consts = append(consts, a.val)
			}
		}
	}
	expr += "]"
	three := args[2] != nil
	if three && (isStr || args[1] == nil) {
		valid = false
	}
	if isStr {
		body += fmt.Sprintf("t := %s; return fmt.Sprintf(\"%%d %%q\", len(t), t)", expr)
	} else {
		body += fmt.Sprintf("t := %s; return fmt.Sprint(len(t), cap(t), t[:cap(t)])", expr)
	}
	tags := []string{"slc-" + cont}
	if three {
		tags = append(tags, "slc-3index")
	} else {
		tags = append(tags, "slc-2index")
	}
	for i, a := range args {
		if a != nil {
			tags = append(tags, "slc-kind-"+a.kind)
			if a.cnst {
				tags = append(tags, "slc-const-"+names[i])
			}
		} else if i < 2 {
			tags = append(tags, "slc-omitted-"+names[i])
		}
	}
	return c08case{body: body, goValid: valid, class: "slc", tags: tags}
}

func c08litCase(f []string) c08case {
	if len(f) < 1 {
		return c08case{bad: true}
	}
	var typ string
	arrLen := -1
	i := 1
	switch f[0] {
	case "arr":
		if len(f) < 2 {
			return c08case{bad: true}
		}
		n, err := strconv.Atoi(f[1])
		if err != nil || n > 64 {
			return c08case{bad: true}
		}
		arrLen, typ, i = n, fmt.Sprintf("[%d]int", n), 2
	case "ell":
		typ = "[...]int"
	case "slice":
		typ = "[]int"
	default:
		return c08case{bad: true}
	}
	// Go's rule, computed independently of the model: running index, validity
	valid := true
	seen := map[string]bool{}
	prev := big.NewInt(-1)
	var elts []string
	tags := []string{"lit-" + f[0]}
	for j, e := range f[i:] {
		val := strconv.Itoa(100 + j)
		var idx *big.Int
		switch {
		case e == "p":
			idx = new(big.Int).Add(prev, big.NewInt(1))
			elts = append(elts, val)
			tags = append(tags, "lit-positional")
		case e == "n":
			valid = false
			elts = append(elts, "x: "+val)
			idx = new(big.Int).Add(prev, big.NewInt(1))
			tags = append(tags, "lit-nonconst-key")
		case strings.HasPrefix(e, "k"):
			kind, keys, ok := strings.Cut(e[1:], ":")
			key := c08bi(keys)
			if !ok || key == nil {
				return c08case{bad: true}
			}
			if kind == "untyped" {
				elts = append(elts, keys+": "+val)
			} else {
				elts = append(elts, fmt.Sprintf("%s(%s): %s", kind, keys, val))
				valid = valid && c08fits(kind, key)
			}
			idx = key
			tags = append(tags, "lit-keyed", "lit-key-"+kind)
		default:
			return c08case{bad: true}
		}
		if idx.Sign() < 0 || idx.Cmp(big.NewInt(1<<20)) > 0 || seen[idx.String()] || (arrLen >= 0 && idx.Cmp(big.NewInt(int64(arrLen))) >= 0) {
			valid = false
		}
		seen[idx.String()] = true
		prev = idx
	}
	body := fmt.Sprintf("x := 1; _ = x; t := %s{%s}; return fmt.Sprint(len(t), t)", typ, strings.Join(elts, ", "))
	return c08case{body: body, goValid: valid, class: "lit", tags: tags}
}

// ---- heap mini-language

func c08heapCase(arg string) c08case {
	var b strings.Builder
	b.WriteString("var a0, a1 [4]int; var s0, s1, s2, s3 []int; n, ix, iy, iz := 0, 0, 0, 0; _, _, _, _ = n, ix, iy, iz; ")
	tags := map[string]bool{}
	num := func(s string) (string, bool) {
		if _, err := strconv.Atoi(s); err != nil {
			return "", false
		}
		return s, true
	}
	v := func(s string, max int) (string, bool) { // variable number
		k, err := strconv.Atoi(s)
		return s, err == nil && k >= 0 && k < max
	}
	for k, st := range strings.Split(arg, ";") {
		f := strings.Split(st, ":")
		fmt.Fprintf(&b, "pc = %d; ", k)
		okAll := true
		chk := func(s string, ok bool) string {
			okAll = okAll && ok
			return s
		}
		need := map[string]int{"mk": 4, "lit": 3, "sl": 5, "sl3": 6, "sa": 5, "app": 4, "apps": 4, "cp": 3, "set": 4, "seta": 4, "asg": 3, "nil": 2, "get": 3}
		if need[f[0]] != len(f) {
			return c08case{bad: true}
		}
		tags["heap-"+f[0]] = true
		bound := func(s, name string) string {
			if s == "_" {
				return ""
			}
			fmt.Fprintf(&b, "%s = %s; ", name, chk(num(s)))
			return name
		}
		vals := func(s string) string {
			if s == "" {
				return ""
			}
			for _, x := range strings.Split(s, ",") {
				chk(num(x))
			}
			return strings.ReplaceAll(s, ",", ", ")
		}
		switch f[0] {
		case "mk":
			fmt.Fprintf(&b, "ix, iy = %s, %s; s%s = make([]int, ix, iy); ", chk(num(f[2])), chk(num(f[3])), chk(v(f[1], 4)))
		case "lit":
			fmt.Fprintf(&b, "s%s = []int{%s}; ", chk(v(f[1], 4)), vals(f[2]))
		case "sl":
			x, y := chk(v(f[1], 4)), chk(v(f[2], 4))
			lo, hi := bound(f[3], "ix"), bound(f[4], "iy")
			fmt.Fprintf(&b, "s%s = s%s[%s:%s]; ", x, y, lo, hi)
		case "sl3":
			x, y := chk(v(f[1], 4)), chk(v(f[2], 4))
			lo, hi, mx := bound(f[3], "ix"), bound(f[4], "iy"), bound(f[5], "iz")
			if hi == "" || mx == "" {
				return c08case{bad: true}
			}
			fmt.Fprintf(&b, "s%s = s%s[%s:%s:%s]; ", x, y, lo, hi, mx)
		case "sa":
			x, y := chk(v(f[1], 4)), chk(v(f[2], 2))
			lo, hi := bound(f[3], "ix"), bound(f[4], "iy")
			fmt.Fprintf(&b, "s%s = a%s[%s:%s]; ", x, y, lo, hi)
		case "app":
			if f[3] == "" {
				fmt.Fprintf(&b, "s%s = append(s%s); ", chk(v(f[1], 4)), chk(v(f[2], 4)))
			} else {
				fmt.Fprintf(&b, "s%s = append(s%s, %s); ", chk(v(f[1], 4)), chk(v(f[2], 4)), vals(f[3]))
			}
		case "apps":
			fmt.Fprintf(&b, "s%s = append(s%s, s%s...); ", chk(v(f[1], 4)), chk(v(f[2], 4)), chk(v(f[3], 4)))
		case "cp":
			fmt.Fprintf(&b, "n = copy(s%s, s%s); ", chk(v(f[1], 4)), chk(v(f[2], 4)))
		case "set":
			fmt.Fprintf(&b, "ix = %s; s%s[ix] = %s; ", chk(num(f[2])), chk(v(f[1], 4)), chk(num(f[3])))
		case "seta":
			fmt.Fprintf(&b, "ix = %s; a%s[ix] = %s; ", chk(num(f[2])), chk(v(f[1], 2)), chk(num(f[3])))
		case "get":
			fmt.Fprintf(&b, "ix = %s; n = s%s[ix]; ", chk(num(f[2])), chk(v(f[1], 4)))
		case "asg":
			fmt.Fprintf(&b, "a%s = a%s; ", chk(v(f[1], 2)), chk(v(f[2], 2)))
		case "nil":
			fmt.Fprintf(&b, "s%s = nil; ", chk(v(f[1], 4)))
		}
		if !okAll {
			return c08case{bad: true}
		}
	}
	b.WriteString("return fmt.Sprint(a0, a1, n, \"|\", len(s0), cap(s0), s0[:cap(s0)], \"|\", len(s1), cap(s1), s1[:cap(s1)], \"|\", len(s2), cap(s2), s2[:cap(s2)], \"|\", len(s3), cap(s3), s3[:cap(s3)])")
	var tl []string
	for t := range tags {
		tl = append(tl, t)
	}
	return c08case{body: b.String(), goValid: true, class: "heap", tags: tl}
}

func c08parse(op string) c08case {
	cls, rest, _ := strings.Cut(op, " ")
	switch cls {
	case "idx":
		return c08idxCase(strings.Fields(rest))
	case "midx":
		return c08midxCase(strings.Fields(rest))
	case "slc":
		return c08slcCase(strings.Fields(rest))
	case "lit":
		return c08litCase(strings.Fields(rest))
	case "heap":
		return c08heapCase(rest)
	case "rich":
		name, body, _ := strings.Cut(rest, " ")
		return c08case{body: body, goValid: true, class: "rich", tags: []string{"rich-" + name}}
	case "rej": // a program compiled Go rejects: gomacro must not evaluate it to a value
		name, body, _ := strings.Cut(rest, " ")
		return c08case{body: body, goValid: false, class: "rej", tags: []string{"rej-" + name}}
	}
	return c08case{bad: true}
}

// ---------------------------------------------------------------- shared declarations

const c08decls = `
type P struct{ X, Y int }
type MyInt int
type N struct {
	V    int
	Next *N
}
type Q struct {
	P
	S []int
	M map[string]int
	A [3]int
}
type T struct {
	A int
	S string
	R [2]int
	Q P
}
type In struct {
	A [2]int
	S []int
}
type Out struct {
	I In
	P *In
	M map[string]In
}
type IS []int
func modArr(x [3]int) [3]int { x[0] = 9; return x }
func modPtr(x *[3]int) { x[0] = 9 }
func modSlice(x []int) { x[0] = 9 }
func modStruct(q Q) Q { q.X = 9; q.A[1] = 9; q.S[0] = 9; return q }
func three() [3]int { return [3]int{1, 2, 3} }
`

const c08prolog = "pc := 0; _ = pc; defer func() { if e := recover(); e != nil { out = fmt.Sprint(\"panic@\", pc) } }(); "

// ---------------------------------------------------------------- compiled-Go oracle

var c08oracle = map[string]string{}
var c08oracleErr string

func c08prepare(ops []string) {
	var bodies []string
	var owners []string
	seen := map[string]bool{}
	for _, op := range ops {
		if seen[op] {
			continue
		}
		seen[op] = true
		c := c08parse(op)
		if c.bad || !c.goValid {
			continue
		}
		bodies = append(bodies, c.body)
		owners = append(owners, op)
	}
	const per = 60
	var snippets []Snippet
	for i := 0; i < len(bodies); i += per {
		j := i + per
		if j > len(bodies) {
			j = len(bodies)
		}
		var d, b strings.Builder
		d.WriteString(c08decls)
		for k := i; k < j; k++ {
			fmt.Fprintf(&d, "func c%d() (out string) { %s%s }\n", k, c08prolog, bodies[k])
			fmt.Fprintf(&b, "emit(c%d())\n", k)
		}
		snippets = append(snippets, Snippet{Imports: []string{"sort", "strings"}, Decls: "var _ = sort.Ints\nvar _ = strings.Join\n" + d.String(), Body: b.String()})
	}
	if len(snippets) == 0 {
		return
	}
	outs, err := runGoBatch("C08", snippets)
	if err != nil {
		c08oracleErr = err.Error()
		return
	}
	for si, o := range outs {
		lines := strings.Split(o, "\n")
		for k := 0; k < per && si*per+k < len(owners); k++ {
			if k < len(lines) {
				c08oracle[owners[si*per+k]] = lines[k]
			}
		}
	}
}

// ---------------------------------------------------------------- the real code

var c08ir *fast.Interp
var c08irUses int

func c08interp() *fast.Interp {
	if c08ir == nil || c08irUses > 500 {
		c08ir = newQuietInterp()
		c08irUses = 0
		if _, e := evalSrc(c08ir, "import (\"fmt\"; \"sort\"; \"strings\")\n"+c08decls); e != "" {
			panic("C08 prelude rejected by gomacro: " + e)
		}
	}
	c08irUses++
	return c08ir
}

// c08real evaluates the function body: "cerr <msg>" if Compile fails, else the string the function returns
func c08real(body string) (res string) {
	ir := c08interp()
	src := "(func() (out string) { " + c08prolog + body + " })()"
	var expr *fast.Expr
	func() {
		defer func() {
			if e := recover(); e != nil {
				res = "cerr " + oneLine(fmt.Sprint(e))
			}
		}()
		expr = ir.Compile(src)
	}()
	if expr == nil {
		if res == "" {
			res = "cerr nil-expr"
		}
		return res
	}
	defer func() {
		if e := recover(); e != nil {
			c08ir = nil // interpreter state unknown after an escaped panic
			res = "escaped " + oneLine(fmt.Sprint(e))
		}
	}()
	vals, _ := ir.RunExpr(expr)
	if len(vals) != 1 {
		return fmt.Sprintf("escaped %d values", len(vals))
	}
	s, ok := vals[0].ReflectValue().Interface().(string)
	if !ok {
		return "escaped non-string result"
	}
	return s
}

// canonical output
func c08canon(class, raw string) string {
	switch {
	case strings.HasPrefix(raw, "cerr"):
		return "cerr"
	case strings.HasPrefix(raw, "escaped"):
		return "escaped"
	case strings.HasPrefix(raw, "panic@"):
		if class == "heap" {
			return raw
		}
		return "panic"
	}
	return "ok " + raw
}

func c08key(c c08case, op, got, want string) string {
	f := strings.Fields(op)
	gk, wk := strings.Fields(got)[0], strings.Fields(want)[0]
	if strings.HasPrefix(gk, "panic") {
		gk = "panic"
	}
	if strings.HasPrefix(wk, "panic") {
		wk = "panic"
	}
	shape := gk + "-for-" + wk
	if gk == "cerr" && c.class == "heap" {
		// (the message of a compile error inside a function literal is masked by gomacro:
		// "unimplemented type: func() ..."; it cannot serve as key)
		return "heap-" + shape
	}
	switch c.class {
	case "idx":
		// container, read/write, kind class of the index
		return fmt.Sprintf("idx-%s-%s-%s-%s", f[8], c08kindClass(f[5]), map[string]string{"c": "const", "v": "var"}[f[6]], shape)
	case "midx":
		return "midx-" + f[1] + "-" + shape
	case "slc":
		kc := "int"
		for _, b := range f[4:7] {
			if b != "-" {
				if k := c08kindClass(strings.Split(b, ":")[0]); k != "int" && k != "untyped" {
					kc = k
				}
			}
		}
		return fmt.Sprintf("slc-%s-%s-%s", f[1], kc, shape)
	case "lit":
		return "lit-" + f[1] + "-" + shape
	case "heap":
		ks := []string{}
		for _, t := range []string{"apps", "cp", "app", "sl3", "sa", "asg"} {
			if strings.Contains(op, t+":") {
				ks = append(ks, t)
			}
		}
		return "heap-" + shape + "-" + strings.Join(ks, "+")
	}
	return c.class + "-" + f[1] + "-" + shape
}

var c08lastErr string

// c08errSlug: first words of a compile error message, positions / numbers / quoted text dropped
func c08errSlug(msg string) string {
	msg = strings.TrimPrefix(msg, "cerr ")
	for i := 0; i < 3; i++ { // repl.go:1:23:
		if j := strings.Index(msg, ":"); j >= 0 && j < 12 {
			msg = strings.TrimSpace(msg[j+1:])
		}
	}
	var words []string
	cur := ""
	for _, r := range msg {
		if (r >= 'a' && r <= 'z') || (r >= 'A' && r <= 'Z') {
			cur += string(r)
			continue
		}
		if cur != "" {
			words = append(words, cur)
			cur = ""
		}
		if len(words) == 5 {
			break
		}
	}
	if cur != "" && len(words) < 5 {
		words = append(words, cur)
	}
	return strings.Join(words, "-")
}

func c08kindClass(k string) string {
	switch k {
	case "int", "untyped":
		return k
	}
	return "otherint"
}

func c08exec(op string) Result {
	c := c08parse(op)
	if c.bad {
		return Result{Out: "bad-op", Tags: []string{"bad-op"}}
	}
	raw := c08real(c.body)
	c08lastErr = raw
	got := c08canon(c.class, raw)
	res := Result{Out: got, Tags: append(c.tags, c.class, c.class+"-"+strings.Fields(got)[0]), Nontrivial: true}
	if c.class == "rich" || c.class == "rej" {
		res.Out = c.class
	}
	if got == "escaped" {
		res.Viol, res.Key = "panic escaped the interpreted recover: "+raw, c.class+"-escaped-panic"
		return res
	}
	if !c.goValid {
		res.Tags = append(res.Tags, c.class+"-go-rejects")
		// compiled Go rejects the program: gomacro must not produce a value
		if strings.HasPrefix(got, "ok") {
			res.Viol = "Go rejects this program at compile time, gomacro evaluates it to " + got
			res.Key = c08key(c, op, got, "cerr x")
		}
		return res
	}
	if c08oracleErr != "" {
		res.Viol, res.Key = "oracle batch failed: "+c08oracleErr, "oracle-batch-failed"
		return res
	}
	wantRaw, ok := c08oracle[op]
	if !ok {
		res.Viol, res.Key = "no oracle output for this op", "oracle-missing"
		return res
	}
	want := c08canon(c.class, wantRaw)
	if got != want {
		msg := raw
		if len(msg) > 300 {
			msg = msg[:300]
		}
		res.Viol = fmt.Sprintf("gomacro: %s   compiled Go: %s   [%s]", msg, want, c.body)
		res.Key = c08key(c, op, got, want)
	}
	return res
}

// ---------------------------------------------------------------- generator

func c08around(r *rand.Rand, L, C int) *big.Int {
	switch r.Intn(14) {
	case 0:
		return big.NewInt(-1)
	case 1:
		return big.NewInt(0)
	case 2:
		return big.NewInt(int64(L - 1))
	case 3:
		return big.NewInt(int64(L))
	case 4:
		return big.NewInt(int64(L + 1))
	case 5:
		return big.NewInt(int64(C))
	case 6:
		return big.NewInt(int64(C + 1))
	case 7:
		return big.NewInt(int64(C - 1))
	case 8:
		return new(big.Int).SetUint64(1 << 63)
	case 9:
		return new(big.Int).SetUint64(1<<64 - 1)
	case 10:
		return new(big.Int).Add(new(big.Int).SetUint64(1<<63), big.NewInt(int64(r.Intn(3))))
	case 11:
		return big.NewInt(int64(r.Intn(C + 2)))
	case 12:
		return big.NewInt(255 - int64(r.Intn(2)))
	}
	return big.NewInt(int64(r.Intn(L + 1)))
}

func c08pickKind(r *rand.Rand, v *big.Int, cnst bool) string {
	for tries := 0; tries < 30; tries++ {
		k := c08kindList[r.Intn(len(c08kindList))]
		if k == "untyped" && !cnst {
			continue
		}
		if c08fits(k, v) {
			return k
		}
	}
	if cnst {
		return "untyped"
	}
	if v.Sign() < 0 {
		return "int"
	}
	return "uint64"
}

func c08genArg(r *rand.Rand, L, C int) c08arg {
	v := c08around(r, L, C)
	cnst := r.Intn(3) == 0
	return c08arg{kind: c08pickKind(r, v, cnst), cnst: cnst, val: v}
}

func c08gen(r *rand.Rand, tier string, emit func(string)) {
	mult := 1
	if tier == "thorough" {
		mult = 12
	}
	// (1) bounded-exhaustive: every element kind x constant/variable index x vector/map (arm table)
	for _, ek := range c08ekindList {
		for _, cv := range []string{"c", "v"} {
			emit(fmt.Sprintf("idx slice %s 4 6 int %s 2 r", ek, cv))
			emit(fmt.Sprintf("idx array %s 4 4 uint8 %s 3 r", ek, cv))
			emit(fmt.Sprintf("idx parray %s 3 3 int64 %s 1 r", ek, cv))
			emit(fmt.Sprintf("midx %s %s 1", ek, cv))
			emit(fmt.Sprintf("midx %s %s 0", ek, cv))
		}
	}
	// (2) bounded-exhaustive: container x index kind x constant/variable x boundary values x read/write
	for _, cont := range c08contList {
		L, C := 3, 3
		if cont == "slice" {
			C = 5
		}
		vals := []string{"-9223372036854775808", "-1", "0", "2", "3", "4", "5", "6", "127", "255", "9223372036854775807", "9223372036854775808", "18446744073709551615", "18446744073709551616"}
		for _, k := range c08kindList {
			for _, cv := range []string{"c", "v"} {
				if k == "untyped" && cv == "v" {
					continue
				}
				for _, v := range vals {
					if !c08fits(k, c08bi(v)) {
						continue
					}
					for _, rw := range []string{"r", "w"} {
						emit(fmt.Sprintf("idx %s int %d %d %s %s %s %s", cont, L, C, k, cv, v, rw))
					}
				}
			}
		}
	}
	// (3) slice expressions: exhaustive small int bounds on every container, then random kinds
	for _, cont := range c08contList {
		L, C := 2, 2
		if cont == "slice" {
			C = 3
		}
		bs := []string{"-", "int:v:-1", "int:v:0", "int:v:1", "int:v:2", "int:v:3", "int:v:4", "untyped:c:1", "untyped:c:3"}
		for _, lo := range bs {
			for _, hi := range bs {
				emit(fmt.Sprintf("slc %s %d %d %s %s -", cont, L, C, lo, hi))
				if hi != "-" && cont != "cstr" {
					for _, mx := range []string{"int:v:1", "int:v:2", "int:v:3", "int:v:4", "untyped:c:2"} {
						emit(fmt.Sprintf("slc %s %d %d %s %s %s", cont, L, C, lo, hi, mx))
					}
				}
			}
		}
	}
	// typed constant bounds that are not representable as int / negative
	for _, cont := range c08contList {
		for _, b := range []string{"uint64:c:18446744073709551615", "uint:c:9223372036854775808", "int64:c:-9223372036854775808", "uintptr:c:9223372036854775807", "int8:c:-1", "uint8:c:1"} {
			emit(fmt.Sprintf("slc %s 2 2 %s - -", cont, b))
			emit(fmt.Sprintf("slc %s 2 2 - %s -", cont, b))
			emit(fmt.Sprintf("slc %s 2 2 int:v:0 int:v:1 %s", cont, b))
		}
	}
	for i := 0; i < 450*mult; i++ {
		cont := c08contList[r.Intn(len(c08contList))]
		L := r.Intn(6)
		C := L
		if cont == "slice" {
			C = L + r.Intn(4)
		}
		b := func(p int) string {
			if r.Intn(p) == 0 {
				return "-"
			}
			return c08genArg(r, L, C).String()
		}
		mx := "-"
		hi := b(5)
		if r.Intn(3) == 0 && hi != "-" {
			mx = c08genArg(r, L, C).String()
		}
		emit(fmt.Sprintf("slc %s %d %d %s %s %s", cont, L, C, b(4), hi, mx))
	}
	// (4) composite literals
	for _, fixed := range []string{
		"slice p p p", "slice kuntyped:2 p kuntyped:0 p", "ell kuntyped:5 p", "arr 4 kuntyped:3 kuntyped:0 p p",
		"slice kuntyped:1 kuntyped:1", "slice kuntyped:1 kuntyped:0 p", "arr 2 p p p", "arr 3 kuntyped:3", "slice kuntyped:-1",
		"slice kuint8:2 p", "slice kint64:3 kuint64:1 p", "slice kuntyped:9223372036854775807", "slice kuntyped:9223372036854775808",
		"slice kuntyped:18446744073709551616", "ell kint8:-1", "slice n", "slice p n", "arr 0", "slice", "ell", "ell kuntyped:0 kuntyped:0",
		"slice kuntyped:9223372036854775806 p", "arr 5 kuntyped:4 p",
	} {
		emit("lit " + fixed)
	}
	for i := 0; i < 300*mult; i++ {
		var f []string
		switch r.Intn(3) {
		case 0:
			f = append(f, "arr", strconv.Itoa(r.Intn(9)))
		case 1:
			f = append(f, "ell")
		default:
			f = append(f, "slice")
		}
		n := r.Intn(6)
		for j := 0; j < n; j++ {
			switch x := r.Intn(20); {
			case x < 9:
				f = append(f, "p")
			case x < 18:
				key := big.NewInt(int64(r.Intn(10)))
				if r.Intn(15) == 0 {
					key = big.NewInt(-int64(r.Intn(3)) - 1)
				}
				k := "untyped"
				if r.Intn(3) == 0 {
					k = c08pickKind(r, key, true)
				}
				f = append(f, "k"+k+":"+key.String())
			case x == 18:
				f = append(f, "kuntyped:"+[]string{"9223372036854775807", "9223372036854775808", "-9223372036854775809", "9223372036854775806"}[r.Intn(4)])
			default:
				f = append(f, "n")
			}
		}
		emit("lit " + strings.Join(f, " "))
	}
	// (5) heap programs
	for _, fixed := range []string{
		"lit:0:0,1,2,3,4;sl:1:0:_:2;sl:2:0:1:4;apps:3:1:2", // overlapping append (shift right)
		"lit:0:0,1,2,3,4;sl:1:0:_:1;sl:2:0:2:_;apps:3:1:2", // delete idiom (shift left)
		"lit:0:1,2,3,4,5;sl:1:0:1:_;cp:1:0",                // copy overlap forward
		"lit:0:1,2,3,4,5;sl:1:0:2:_;cp:0:1",                // copy overlap backward
		"mk:0:3:10;app:1:0:4;app:2:0:5;get:1:3",            // append within capacity aliases
		"lit:0:1,2,3;app:1:0:4;app:2:0:5;get:1:3",          // append beyond capacity reallocates
		"seta:0:1:5;asg:1:0;seta:1:1:6;sa:0:0:1:3;set:0:0:9",
		"lit:0:1,2,3,4;sl3:1:0:1:2:3;app:1:1:9;app:1:1:8;set:1:0:7",
		"nil:0;app:0:0:;apps:1:0:0;app:1:1:1,2,3,4,5",
		"lit:0:1,2,3;apps:0:0:0;apps:0:0:0",
		"mk:0:2:1", "mk:0:-1:1", "lit:0:1,2;sl:1:0:1:3", "lit:0:1,2;sl3:1:0:0:1:3", "sa:0:0:2:5", "lit:0:1;set:0:1:5", "seta:1:4:1",
	} {
		emit("heap " + fixed)
	}
	for i := 0; i < 300*mult; i++ {
		emit("heap " + c08genHeap(r))
	}
	for _, p := range c08rejected {
		emit("rej " + p)
	}
	// (6) rich programs (outside the model)
	for i := 0; i < 8*mult; i++ {
		for _, g := range c08rich {
			emit("rich " + g.name + " " + g.gen(r))
		}
	}
}

// c08genHeap: the generator simulates lengths/capacities loosely so that most statements are valid
func c08genHeap(r *rand.Rand) string {
	type sl struct{ len, cap int }
	var s [4]sl
	var out []string
	n := 3 + r.Intn(8)
	pick := func() int { return r.Intn(4) }
	near := func(a int) int { // value around a bound, mostly valid
		switch r.Intn(8) {
		case 0:
			return a + 1
		case 1:
			return -1
		}
		if a <= 0 {
			return 0
		}
		return r.Intn(a + 1)
	}
	vals := func(k int) string {
		var v []string
		for i := 0; i < k; i++ {
			v = append(v, strconv.Itoa(10+r.Intn(90)))
		}
		return strings.Join(v, ",")
	}
	grow := func(oldCap, newLen int) int {
		c := oldCap * 2
		if newLen > c {
			c = newLen
		}
		return c // approximation, only steers the generator
	}
	for i := 0; i < n; i++ {
		x, y := pick(), pick()
		switch k := r.Intn(20); {
		case k < 2:
			l := r.Intn(5)
			c := l + r.Intn(5)
			out = append(out, fmt.Sprintf("mk:%d:%d:%d", x, l, c))
			s[x] = sl{l, c}
		case k < 4:
			l := r.Intn(6)
			out = append(out, fmt.Sprintf("lit:%d:%s", x, vals(l)))
			s[x] = sl{l, l}
		case k < 7:
			lo := near(s[y].len)
			hi := lo + near(s[y].cap-lo)
			f1, f2 := strconv.Itoa(lo), strconv.Itoa(hi)
			if r.Intn(5) == 0 {
				f1, lo = "_", 0
			}
			if r.Intn(5) == 0 {
				f2, hi = "_", s[y].len
			}
			out = append(out, fmt.Sprintf("sl:%d:%d:%s:%s", x, y, f1, f2))
			if lo >= 0 && lo <= hi && hi <= s[y].cap {
				s[x] = sl{hi - lo, s[y].cap - lo}
			}
		case k < 8:
			lo := near(s[y].len)
			hi := lo + near(s[y].cap-lo)
			mx := hi + near(s[y].cap-hi)
			out = append(out, fmt.Sprintf("sl3:%d:%d:%d:%d:%d", x, y, lo, hi, mx))
			if lo >= 0 && lo <= hi && hi <= mx && mx <= s[y].cap {
				s[x] = sl{hi - lo, mx - lo}
			}
		case k < 9:
			lo := near(4)
			hi := lo + near(4-lo)
			out = append(out, fmt.Sprintf("sa:%d:%d:%d:%d", x, r.Intn(2), lo, hi))
			if lo >= 0 && lo <= hi && hi <= 4 {
				s[x] = sl{hi - lo, 4 - lo}
			}
		case k < 12:
			c := r.Intn(4)
			out = append(out, fmt.Sprintf("app:%d:%d:%s", x, y, vals(c)))
			nl := s[y].len + c
			if nl <= s[y].cap {
				s[x] = sl{nl, s[y].cap}
			} else {
				s[x] = sl{nl, grow(s[y].cap, nl)}
			}
		case k < 14:
			z := pick()
			out = append(out, fmt.Sprintf("apps:%d:%d:%d", x, y, z))
			nl := s[y].len + s[z].len
			if nl <= s[y].cap {
				s[x] = sl{nl, s[y].cap}
			} else {
				s[x] = sl{nl, grow(s[y].cap, nl)}
			}
		case k < 16:
			out = append(out, fmt.Sprintf("cp:%d:%d", x, y))
		case k < 18:
			out = append(out, fmt.Sprintf("set:%d:%d:%d", x, near(s[x].len-1), 100+r.Intn(100)))
		case k < 19:
			if r.Intn(2) == 0 {
				out = append(out, fmt.Sprintf("seta:%d:%d:%d", r.Intn(2), near(3), 200+r.Intn(100)))
			} else {
				out = append(out, fmt.Sprintf("asg:%d:%d", r.Intn(2), r.Intn(2)))
			}
		default:
			if r.Intn(2) == 0 {
				out = append(out, fmt.Sprintf("nil:%d", x))
				s[x] = sl{}
			} else {
				out = append(out, fmt.Sprintf("get:%d:%d", x, near(s[x].len-1)))
			}
		}
	}
	return strings.Join(out, ";")
}

func init() {
	register(&Prop{
		ID: "C08",
		Rule: "every op is a Go function body run by compiled Go (oracle), gomacro and - for idx/midx/slc/lit/heap - the Lean model; " +
			"bounded-exhaustive over container x index kind x constant/variable x boundary value, element kind x arm, small slice bounds; " +
			"random slice bounds of every integer kind around {-1,0,len,cap,cap+1,2^63,2^64-1}, literals with keys/gaps/duplicates, heap programs " +
			"(append aliasing/reallocation, overlapping copy/append, array assignment), rich programs (maps of structs, nested literals, value semantics, pointers, strings)",
		Gen:        c08gen,
		Exec:       c08exec,
		Prepare:    c08prepare,
		Exhaustive: func(string) bool { return false },
	})
}
