package main

// C39: preprocessor mode (`gomacro -m -w file.gomacro`) writes the collected declarations as
// equivalent, compilable Go.
//
// Ops
//
//	ast  <d><s> <pkg0> <tokens>    Globals.CollectAst called directly on one synthesized tree (every class of node
//	                               CollectNode's type switch distinguishes, nested slices, nil forms, both option bits)
//	file <d><s> <seed> <descr>     a generated program (seed) written as <pkg>.gomacro and run through cmd.Cmd.Main
//	                               ["-m" "-w" "-f" file] in-process; <descr> is the form stream of the source
//	dir  <d><s> <seed> <descr> || <descr> ...   a directory with several .gomacro files (one Cmd, one Main call)
//
// Out (compared with the Lean model): package, imports, declarations (kind + names, as found by the STANDARD
// go/parser in the written file) and the number of statements inside the writer's `func init`.
//
// Go-side oracles (the property on the real code), all independent of the model:
//
//	1. the written file parses with go/parser, compiles (one `go build` per run, every written file its own package),
//	   and `Run()` of the written package returns what `Run()` of the reference package returns: the reference is the
//	   source itself for pure Go sources, the hand-expanded source for macro / top-level-statement sources;
//	2. pure Go sources: position-free structural equality (reflection over go/ast, modulo ParenExpr) of the written
//	   file's imports and declarations with those of the source parsed by the standard go/parser; every valid source:
//	   the import specs of the written file are those of the reference, in order;
//	3. nothing is printed on the interpreter's stderr/stdout while preprocessing a valid source;
//	4. the interpreter itself (fresh fast.Interp, EvalFile, `Run()`) is a third opinion: recorded as tag only.

import (
	"bytes"
	"fmt"
	"go/ast"
	"go/parser"
	"go/token"
	"math/rand"
	"os"
	"os/exec"
	"path/filepath"
	"reflect"
	"regexp"
	"sort"
	"strconv"
	"strings"

	"github.com/cosmos72/gomacro/ast2"
	"github.com/cosmos72/gomacro/base"
	gcmd "github.com/cosmos72/gomacro/cmd"
	"github.com/cosmos72/gomacro/fast"
)

// ------------------------------------------------------------------ ast ops

type c39specOther struct{ ast.Spec } // an ast.Spec that is none of ImportSpec/TypeSpec/ValueSpec

func (c39specOther) Pos() token.Pos { return token.NoPos }
func (c39specOther) End() token.Pos { return token.NoPos }

type c39astBuild struct {
	nodes map[interface{}]int // node pointer -> id
	rhs   map[ast.Expr]int    // first Rhs of a := statement -> id
	exprs map[ast.Expr]int    // expression -> id
}

func c39ident(s string) *ast.Ident { return &ast.Ident{Name: s} }
func c39lit(s string) *ast.BasicLit {
	return &ast.BasicLit{Kind: token.INT, Value: s}
}

func (b *c39astBuild) leaf(t string) (ast.Node, bool) {
	f := strings.Split(t, ":")
	id, _ := strconv.Atoi(f[len(f)-1])
	reg := func(n ast.Node) (ast.Node, bool) { b.nodes[n] = id; return n, true }
	switch {
	case f[0] == "G" && len(f) == 3:
		var d *ast.GenDecl
		switch f[1] {
		case "import":
			d = &ast.GenDecl{Tok: token.IMPORT, Specs: []ast.Spec{&ast.ImportSpec{Path: &ast.BasicLit{Kind: token.STRING, Value: `"fmt"`}}}}
		case "type":
			d = &ast.GenDecl{Tok: token.TYPE, Specs: []ast.Spec{&ast.TypeSpec{Name: c39ident("T"), Type: c39ident("int")}}}
		case "var":
			d = &ast.GenDecl{Tok: token.VAR, Specs: []ast.Spec{&ast.ValueSpec{Names: []*ast.Ident{c39ident("v")}, Type: c39ident("int")}}}
		case "const":
			d = &ast.GenDecl{Tok: token.CONST, Specs: []ast.Spec{&ast.ValueSpec{Names: []*ast.Ident{c39ident("c")}, Values: []ast.Expr{c39lit("1")}}}}
		case "package": // package clause the three nested tests reject, three ways
			switch id % 3 {
			case 0:
				d = &ast.GenDecl{Tok: token.PACKAGE}
			case 1:
				d = &ast.GenDecl{Tok: token.PACKAGE, Specs: []ast.Spec{&ast.ValueSpec{Names: []*ast.Ident{c39ident("a"), c39ident("b")}}}}
			default:
				d = &ast.GenDecl{Tok: token.PACKAGE, Specs: []ast.Spec{&ast.TypeSpec{Name: c39ident("a")}}}
			}
		default:
			d = &ast.GenDecl{Tok: []token.Token{token.FUNC, token.ILLEGAL, token.DEFINE}[id%3]}
		}
		return reg(d)
	case f[0] == "GP" && len(f) == 3:
		return reg(&ast.GenDecl{Tok: token.PACKAGE, Specs: []ast.Spec{&ast.ValueSpec{Names: []*ast.Ident{c39ident(f[1])}}}})
	case f[0] == "F" && len(f) == 3:
		d := &ast.FuncDecl{Name: c39ident("f"), Type: &ast.FuncType{Params: &ast.FieldList{}}, Body: &ast.BlockStmt{}}
		switch f[1] {
		case "empty":
			d.Recv = &ast.FieldList{}
		case "nonempty":
			d.Recv = &ast.FieldList{List: []*ast.Field{{Names: []*ast.Ident{c39ident("r")}, Type: c39ident("T")}}}
		}
		return reg(d)
	case f[0] == "SP" && len(f) == 3:
		switch f[1] {
		case "import":
			return reg(&ast.ImportSpec{Path: &ast.BasicLit{Kind: token.STRING, Value: `"os"`}})
		case "type":
			return reg(&ast.TypeSpec{Name: c39ident("T"), Type: c39ident("int")})
		case "value":
			return reg(&ast.ValueSpec{Names: []*ast.Ident{c39ident("v")}, Type: c39ident("int")})
		}
		return reg(&c39specOther{})
	case f[0] == "BD":
		return reg(&ast.BadDecl{})
	case f[0] == "A" && len(f) == 4:
		a := &ast.AssignStmt{Tok: token.ASSIGN, Rhs: []ast.Expr{c39lit("1")}}
		if f[1] == "d" {
			a.Tok = token.DEFINE
		}
		if f[2] == "i" {
			a.Lhs = []ast.Expr{c39ident("x")}
			if id%2 == 0 {
				a.Lhs = append(a.Lhs, c39ident("y"))
				a.Rhs = append(a.Rhs, c39lit("2"))
			}
		} else {
			a.Lhs = []ast.Expr{c39ident("x"), &ast.IndexExpr{X: c39ident("a"), Index: c39lit("0")}}
			a.Rhs = append(a.Rhs, c39lit("2"))
		}
		b.rhs[a.Rhs[0]] = id
		return reg(a)
	case f[0] == "ST":
		switch id % 4 {
		case 0:
			return reg(&ast.ExprStmt{X: &ast.CallExpr{Fun: c39ident("f")}})
		case 1:
			return reg(&ast.IfStmt{Cond: c39ident("c"), Body: &ast.BlockStmt{}})
		case 2:
			return reg(&ast.BlockStmt{})
		}
		return reg(&ast.DeclStmt{Decl: &ast.GenDecl{Tok: token.VAR, Specs: []ast.Spec{&ast.ValueSpec{Names: []*ast.Ident{c39ident("v")}, Type: c39ident("int")}}}})
	case f[0] == "PE" && len(f) == 3:
		u := &ast.UnaryExpr{Op: token.PACKAGE}
		if f[1] != "-" {
			u.X = c39ident(f[1])
		} else if id%2 == 0 {
			u.X = &ast.BasicLit{Kind: token.STRING, Value: `"p"`}
		}
		b.exprs[u] = id
		return reg(u)
	case f[0] == "U":
		u := &ast.UnaryExpr{Op: token.SUB, X: c39ident("x")}
		b.exprs[u] = id
		return reg(u)
	case f[0] == "E":
		var e ast.Expr
		switch id % 3 {
		case 0:
			e = &ast.CallExpr{Fun: c39ident("f")}
		case 1:
			e = c39ident("x")
		default:
			e = &ast.BinaryExpr{X: c39ident("x"), Op: token.ADD, Y: c39lit("1")}
		}
		b.exprs[e] = id
		return reg(e)
	case f[0] == "O":
		switch id % 3 {
		case 0:
			return reg(&ast.Field{Type: c39ident("int")})
		case 1:
			return reg(&ast.File{Name: c39ident("p")})
		}
		return reg(&ast.Comment{Text: "// c"})
	}
	return nil, false
}

// tree parses the token list; returns the Ast of ONE tree
func (b *c39astBuild) seq(toks []string) ([]ast2.Ast, []string, bool) {
	var out []ast2.Ast
	for len(toks) > 0 {
		t := toks[0]
		switch t {
		case "]":
			return out, toks, true
		case "[":
			inner, rest, ok := b.seq(toks[1:])
			if !ok || len(rest) == 0 || rest[0] != "]" {
				return nil, nil, false
			}
			// pure slices: NodeSlice when every element is a node (what the parser returns for a chunk),
			// AstSlice otherwise
			allNodes := len(inner) > 0
			ns := make([]ast.Node, len(inner))
			for i, a := range inner {
				an, isNode := a.(ast2.AstWithNode)
				if _, wrapped := a.(c39wrap); !isNode || a == nil || wrapped {
					allNodes = false
					break
				}
				if _, isSlice := a.(ast2.AstWithSlice); isSlice {
					// BlockStmt, GenDecl, ...: keep as Ast, ToAst(node) would give the same wrapper
				}
				ns[i] = an.Node()
			}
			if allNodes && len(inner)%2 == 0 {
				out = append(out, ast2.NodeSlice{X: ns})
			} else {
				out = append(out, ast2.AstSlice{X: inner})
			}
			toks = rest[1:]
		case "BAD":
			out = append(out, nil)
			toks = toks[1:]
		default:
			n, ok := b.leaf(t)
			if !ok {
				return nil, nil, false
			}
			out = append(out, c39toAst(n))
			toks = toks[1:]
		}
	}
	return out, nil, true
}

// an AstWithNode around a node ast2.ToAst has no wrapper for
type c39wrap struct{ n ast.Node }

func (w c39wrap) Interface() interface{} { return w.n }
func (w c39wrap) Op() token.Token        { return token.ILLEGAL }
func (w c39wrap) Size() int              { return 0 }
func (w c39wrap) Get(i int) ast2.Ast     { return nil }
func (w c39wrap) Set(i int, c ast2.Ast)  {}
func (w c39wrap) New() ast2.Ast          { return w }
func (w c39wrap) Node() ast.Node         { return w.n }

func c39toAst(n ast.Node) (a ast2.Ast) {
	defer func() {
		if recover() != nil {
			a = c39wrap{n}
		}
	}()
	return ast2.ToAst(n)
}

var c39g *base.Globals

func c39tokName(t token.Token) string {
	switch t {
	case token.IMPORT:
		return "import"
	case token.TYPE:
		return "type"
	case token.VAR:
		return "var"
	case token.CONST:
		return "const"
	case token.PACKAGE:
		return "package"
	}
	return "other"
}

func (b *c39astBuild) item(n ast.Node) string {
	if id, ok := b.nodes[n]; ok {
		return "o" + strconv.Itoa(id)
	}
	switch n := n.(type) {
	case *ast.GenDecl:
		if len(n.Specs) == 1 {
			if id, ok := b.nodes[n.Specs[0]]; ok {
				return "w" + c39tokName(n.Tok) + strconv.Itoa(id)
			}
			if vs, ok := n.Specs[0].(*ast.ValueSpec); ok && len(vs.Values) > 0 {
				if id, ok := b.rhs[vs.Values[0]]; ok && n.Tok == token.VAR && vs.Type == nil {
					return "d" + strconv.Itoa(id)
				}
			}
		}
	case *ast.ExprStmt:
		if id, ok := b.exprs[n.X]; ok {
			return "e" + strconv.Itoa(id)
		}
	}
	return fmt.Sprintf("?%T", n)
}

func c39optsOf(s string) base.Options {
	var o base.Options
	if len(s) > 0 && s[0] == '1' {
		o |= base.OptCollectDeclarations
	}
	if len(s) > 1 && s[1] == '1' {
		o |= base.OptCollectStatements
	}
	return o
}

func c39execAst(arg string) Result {
	w := strings.Fields(arg)
	if len(w) < 3 {
		return Result{Out: "bad-op"}
	}
	b := &c39astBuild{nodes: map[interface{}]int{}, rhs: map[ast.Expr]int{}, exprs: map[ast.Expr]int{}}
	trees, rest, ok := b.seq(w[2:])
	if !ok || len(rest) != 0 || len(trees) != 1 {
		return Result{Out: "bad-tree"}
	}
	if c39g == nil {
		c39g = base.NewGlobals()
		c39g.Stdout, c39g.Stderr = &bytes.Buffer{}, &bytes.Buffer{}
	}
	g := c39g
	g.Options = c39optsOf(w[0])
	g.PackagePath = w[1]
	g.Imports, g.Declarations, g.Statements = nil, nil, nil
	errKind := "-"
	func() {
		defer func() {
			if e := recover(); e != nil {
				msg := fmt.Sprint(e)
				switch {
				case strings.Contains(msg, "unable to collect AST declaration"):
					errKind = "badTok"
				case strings.Contains(msg, "unable to collect AST spec type"):
					errKind = "badSpec"
				case strings.Contains(msg, "unable to collect AST node type"):
					errKind = "badNode"
				case strings.Contains(msg, "unable to collect AST type"):
					errKind = "badAst"
				case strings.Contains(msg, "interface conversion"):
					errKind = "lhsNotIdent"
				default:
					errKind = "panic:" + truncate(oneLine(msg), 80)
				}
			}
		}()
		g.CollectAst(trees[0])
	}()
	var is, ds, ss []string
	for _, n := range g.Imports {
		is = append(is, b.item(n))
	}
	for _, n := range g.Declarations {
		ds = append(ds, b.item(n))
	}
	for _, n := range g.Statements {
		ss = append(ss, b.item(n))
	}
	out := fmt.Sprintf("pkg=%s I=%s D=%s S=%s err=%s", g.PackagePath, strings.Join(is, ","), strings.Join(ds, ","), strings.Join(ss, ","), errKind)
	res := Result{Out: out, Nontrivial: len(w) > 4, Tags: []string{"ast", "ast-err-" + errKind, "ast-opts-" + w[0]}}
	// property on this level: nothing is collected twice, macro declarations never, with the options off nothing
	seen := map[string]bool{}
	for _, l := range [][]string{is, ds, ss} {
		for _, it := range l {
			if seen[it] || strings.HasPrefix(it, "?") {
				res.Viol, res.Key = "collected twice or unknown node: "+it+" in "+out, "ast-collected-twice"
			}
			seen[it] = true
		}
	}
	if w[0] == "00" && len(is)+len(ds)+len(ss) > 0 {
		res.Viol, res.Key = "collected although both options are off: "+out, "ast-collected-with-options-off"
	}
	for _, t := range w[2:] {
		if strings.HasPrefix(t, "F:empty:") {
			id := strings.TrimPrefix(t, "F:empty:")
			if seen["o"+id] {
				res.Viol, res.Key = "macro declaration collected: "+out, "ast-macro-decl-collected"
			}
		}
	}
	return res
}

var c39leafKinds = []string{
	"G:import", "G:type", "G:var", "G:const", "G:package", "G:other", "GP:foo", "GP:bar",
	"F:none", "F:empty", "F:nonempty", "SP:import", "SP:type", "SP:value", "SP:other", "BD",
	"A:d:i", "A:d:x", "A:a:i", "A:a:x", "ST", "PE:pk", "PE:-", "U", "E", "O",
}

func c39genAst(r *rand.Rand, tier string, emit func(string)) {
	opts := []string{"11", "10", "01", "00"}
	// every leaf kind alone (three identities each: the id selects the variant), under every option setting
	for _, o := range opts {
		for _, k := range c39leafKinds {
			for id := 1; id <= 3; id++ {
				emit(fmt.Sprintf("ast %s main %s:%d", o, k, id))
			}
		}
		emit("ast " + o + " main BAD")
		emit("ast " + o + " main [ ]")
	}
	// every ordered pair of leaf kinds in one slice (the second sees the state / the error of the first)
	for _, k1 := range c39leafKinds {
		for _, k2 := range c39leafKinds {
			emit(fmt.Sprintf("ast 11 main [ %s:1 %s:2 ]", k1, k2))
		}
	}
	// random nested trees
	n := 1500
	if tier == "thorough" {
		n = 40000
	}
	for i := 0; i < n; i++ {
		id := 0
		var gen func(depth int) string
		gen = func(depth int) string {
			if depth > 0 && r.Intn(3) == 0 {
				k := r.Intn(5)
				parts := []string{"["}
				for j := 0; j < k; j++ {
					parts = append(parts, gen(depth-1))
				}
				parts = append(parts, "]")
				return strings.Join(parts, " ")
			}
			if r.Intn(40) == 0 {
				return "BAD"
			}
			id++
			k := c39leafKinds[r.Intn(len(c39leafKinds))]
			// error kinds are rarer than the rest, so that long prefixes are collected
			if (k == "G:other" || k == "SP:other" || k == "O" || k == "A:d:x") && r.Intn(3) != 0 {
				k = []string{"G:var", "F:none", "G:import", "ST", "E", "A:d:i"}[r.Intn(6)]
			}
			return fmt.Sprintf("%s:%d", k, id)
		}
		k := 1 + r.Intn(7)
		parts := []string{"["}
		for j := 0; j < k; j++ {
			parts = append(parts, gen(3))
		}
		parts = append(parts, "]")
		o := opts[0]
		if r.Intn(4) == 0 {
			o = opts[r.Intn(4)]
		}
		emit("ast " + o + " " + []string{"main", "p0"}[r.Intn(2)] + " " + strings.Join(parts, " "))
	}
}

// ------------------------------------------------------------------ file / dir ops

type c39fileRes struct {
	out      string // Out line
	viol     string
	key      string
	tags     []string
	wpkgDir  string // directory of the written file inside the batch module ("" = none)
	refDir   string
	nfiles   int
	compiled bool
}

var (
	c39results  = map[string]*c39fileRes{} // op -> result prepared in c39prepare
	c39batchOut = map[string]string{}      // package dir -> Run() output / error
	c39batchErr = map[string]string{}      // package dir -> compile errors
)

var c39posRe = regexp.MustCompile(`^[^:\s]+\.gomacro:\d+:\d+: `)

// c39preprocess writes the sources into dir and runs the real command-line driver on `target`
// (a file or the directory).  Returns what was printed.
func c39preprocess(dir string, files []*c39file, target string, flags []string) (string, error) {
	for _, f := range files {
		if err := os.WriteFile(filepath.Join(dir, f.name+".gomacro"), []byte(f.source()), 0o644); err != nil {
			return "", err
		}
	}
	cmd := gcmd.New()
	g := &cmd.Interp.Comp.Globals
	var buf bytes.Buffer
	g.Stdout, g.Stderr = &buf, &buf
	args := append(append([]string{}, flags...), target)
	var err error
	func() {
		defer func() {
			if e := recover(); e != nil {
				err = fmt.Errorf("panic: %v", e)
			}
		}()
		err = cmd.Main(args)
	}()
	return buf.String(), err
}

// in a directory the later files define the same macros and import go/ast again: those warnings are expected
func c39dropWarnings(printed string, dir bool) string {
	if !dir {
		return printed
	}
	var keep []string
	for _, l := range strings.Split(printed, "\n") {
		if !strings.HasPrefix(l, "// warning: redefined identifier: ") {
			keep = append(keep, l)
		}
	}
	return strings.Join(keep, "\n")
}

// summary of a written file, by the standard parser
func c39summary(path string) (sum string, f *ast.File, fset *token.FileSet, err error) {
	fset = token.NewFileSet()
	f, err = parser.ParseFile(fset, path, nil, parser.SkipObjectResolution)
	if f == nil || f.Name == nil {
		return "", nil, nil, err
	}
	if err != nil {
		// a syntax error inside one declaration derails the parser for the rest of the file.  The writer puts every
		// declaration on lines of its own, starting in column 0 with its keyword: parse them one by one (the error is
		// reported by the caller; the summary still says which declarations were written)
		src, _ := os.ReadFile(path)
		var chunks []string
		for _, l := range strings.SplitAfter(string(src), "\n") {
			start := false
			for _, kw := range []string{"func ", "type ", "var ", "const ", "import ", "type(", "var(", "const(", "import("} {
				if strings.HasPrefix(l, kw) {
					start = true
				}
			}
			if start || len(chunks) == 0 {
				chunks = append(chunks, l)
			} else {
				chunks[len(chunks)-1] += l
			}
		}
		var decls []ast.Decl
		for _, c := range chunks[1:] {
			cf, _ := parser.ParseFile(token.NewFileSet(), "c.go", "package p\n"+c, parser.SkipObjectResolution)
			if cf != nil && len(cf.Decls) > 0 {
				decls = append(decls, cf.Decls[0])
			}
		}
		f.Decls = decls
	}
	var is, ds []string
	nstmt := 0
	for i, d := range f.Decls {
		switch d := d.(type) {
		case *ast.GenDecl:
			var names []string
			for _, sp := range d.Specs {
				switch sp := sp.(type) {
				case *ast.ImportSpec:
					p, _ := strconv.Unquote(sp.Path.Value)
					if sp.Name != nil {
						p = sp.Name.Name + "=" + p
					}
					names = append(names, p)
				case *ast.TypeSpec:
					names = append(names, sp.Name.Name)
				case *ast.ValueSpec:
					for _, n := range sp.Names {
						names = append(names, n.Name)
					}
				}
			}
			s := d.Tok.String() + "(" + strings.Join(names, ",") + ")"
			if d.Tok == token.IMPORT {
				is = append(is, s)
			} else {
				ds = append(ds, s)
			}
		case *ast.FuncDecl:
			if d.Recv == nil && d.Name.Name == "init" && i == len(f.Decls)-1 {
				nstmt = len(d.Body.List) // the writer's statement block (the generators never declare init)
				continue
			}
			if d.Recv != nil && len(d.Recv.List) > 0 {
				t := d.Recv.List[0].Type
				if st, ok := t.(*ast.StarExpr); ok {
					t = st.X
				}
				ds = append(ds, "method("+fmt.Sprint(t)+"."+d.Name.Name+")")
			} else {
				ds = append(ds, "func("+d.Name.Name+")")
			}
		}
	}
	return fmt.Sprintf("pkg=%s I=%s D=%s S=%d", f.Name.Name, strings.Join(is, ";"), strings.Join(ds, ";"), nstmt), f, fset, nil
}

// position-free structural dump of a go/ast tree
func c39dump(sb *strings.Builder, v reflect.Value) {
	switch v.Kind() {
	case reflect.Interface, reflect.Ptr:
		if v.IsNil() {
			sb.WriteString("nil")
			return
		}
		if v.Kind() == reflect.Interface {
			// a one-statement block standing where any statement may stand (`else { if .. }`, `{ { f() } }`) is unwrapped by
			// the macro expander unless it holds a declaration (UnwrapTrivialAst): compare modulo such blocks
			for {
				b, ok := v.Interface().(*ast.BlockStmt)
				if !ok || b == nil || len(b.List) != 1 {
					break
				}
				if _, isDecl := b.List[0].(*ast.DeclStmt); isDecl {
					break
				}
				if as, isAssign := b.List[0].(*ast.AssignStmt); isAssign && as.Tok == token.DEFINE {
					break
				}
				v = reflect.ValueOf(&b.List[0]).Elem()
			}
		}
		c39dump(sb, v.Elem())
	case reflect.Struct:
		t := v.Type()
		if t.Name() == "ParenExpr" {
			// the macro expander removes every ParenExpr (UnwrapTrivialAst), the printer puts back the ones operator
			// precedence needs: compare modulo parentheses; the SHAPE of the tree still tells whether grouping survived
			c39dump(sb, v.FieldByName("X"))
			return
		}
		sb.WriteString(t.Name())
		sb.WriteByte('{')
		for i := 0; i < v.NumField(); i++ {
			ft := t.Field(i)
			switch ft.Type.String() {
			case "token.Pos", "*ast.Object", "*ast.Scope", "*ast.CommentGroup":
				if ft.Type.String() == "token.Pos" && (ft.Name == "Lparen" || ft.Name == "Rparen" || ft.Name == "Ellipsis" || ft.Name == "Arrow" || ft.Name == "Assign") {
					// presence matters (grouping parentheses of a declaration, variadic call, alias), the value does not
					fmt.Fprintf(sb, "%s=%v ", ft.Name, v.Field(i).Int() != 0)
				}
				continue
			}
			sb.WriteString(ft.Name)
			sb.WriteByte('=')
			c39dump(sb, v.Field(i))
			sb.WriteByte(' ')
		}
		sb.WriteByte('}')
	case reflect.Slice:
		sb.WriteByte('[')
		for i := 0; i < v.Len(); i++ {
			c39dump(sb, v.Index(i))
			sb.WriteByte(',')
		}
		sb.WriteByte(']')
	default:
		fmt.Fprintf(sb, "%v", v.Interface())
	}
}

func c39dumpDecl(d ast.Decl) string {
	var sb strings.Builder
	c39dump(&sb, reflect.ValueOf(d))
	return sb.String()
}

func c39firstDiff(a, b string) string {
	i := 0
	for i < len(a) && i < len(b) && a[i] == b[i] {
		i++
	}
	lo := i - 60
	if lo < 0 {
		lo = 0
	}
	return fmt.Sprintf("...%s  <>  ...%s", truncate(a[lo:], 160), truncate(b[lo:], 160))
}

// c39prepare runs every file/dir op through the real preprocessor, then compiles all written files and all
// reference programs in ONE module and runs them in one process.
func c39prepare(ops []string) {
	root := workDir("C39")
	os.RemoveAll(root)
	os.MkdirAll(root, 0o755)
	batch := filepath.Join(root, "batch")
	os.MkdirAll(batch, 0o755)
	var pkgs []string // package dirs inside the batch module
	nprog := 0
	for _, op := range ops {
		kind, arg, _ := strings.Cut(op, " ")
		if kind != "file" && kind != "dir" {
			continue
		}
		if _, done := c39results[op]; done {
			continue
		}
		w := strings.Fields(arg)
		res := &c39fileRes{}
		c39results[op] = res
		if len(w) < 3 {
			res.out = "bad-op"
			continue
		}
		seed, _ := strconv.ParseInt(w[1], 10, 64)
		files := c39makeFiles(kind, seed)
		descr := c39descr(files)
		if descr != strings.Join(w[2:], " ") {
			res.out = "descriptor-mismatch " + descr
			continue
		}
		nprog++
		dir := filepath.Join(root, fmt.Sprintf("src%d", nprog))
		os.MkdirAll(dir, 0o755)
		flags := []string{"-m", "-w", "-f"}
		switch w[0] {
		case "10", "01", "00":
			// -w implies both bits; other settings are exercised through the ast ops only
		}
		target := dir
		if kind == "file" {
			target = filepath.Join(dir, files[0].name+".gomacro")
		}
		// regeneration: the output file may exist already (-f).  One third of the programs is written over a longer junk
		// FILE.go, one third is preprocessed twice into the same directory, the first time from a LONGER source
		// (extra declarations at the end): whatever survives of the old output shows up in the oracles below
		switch seed % 3 {
		case 1:
			for _, f := range files {
				var junk strings.Builder
				junk.WriteString("package junk\n\n")
				for i := 0; junk.Len() < 3*len(f.source())+4096; i++ {
					fmt.Fprintf(&junk, "var junk%d = %d // left over from an older, longer output file\n", i, i)
				}
				os.WriteFile(filepath.Join(dir, f.name+".go"), []byte(junk.String()), 0o644)
			}
			res.tags = append(res.tags, "regen-over-junk")
		case 2:
			var longer []*c39file
			for _, f := range files {
				l := *f
				l.chunks = append([][]c39form{}, f.chunks...)
				for i := 0; i < 12; i++ {
					l.chunks = append(l.chunks, []c39form{{desc: "V:x", src: fmt.Sprintf("var regenExtra%d = []string{\"only in the first, longer version of the source\", \"%d\"}", i, i)}})
				}
				longer = append(longer, &l)
			}
			c39preprocess(dir, longer, target, flags)
			res.tags = append(res.tags, "regen-twice")
		}
		printed, err := c39preprocess(dir, files, target, flags)
		res.nfiles = len(files)
		opDefect := "" // what is printed belongs to the whole run: a recorded defect family of ANY file of the directory explains it
		for _, f := range files {
			if f.defect != "" && opDefect == "" {
				opDefect = f.defect
			}
		}
		var outs []string
		for fi, f := range files {
			tag := func(t string) { res.tags = append(res.tags, t) }
			viol := func(key, msg string) {
				if res.viol == "" {
					res.viol, res.key = msg, key
				}
			}
			for _, t := range f.tags {
				tag(t)
			}
			wpath := filepath.Join(dir, f.name+".go")
			sum, wf, _, perr := c39summary(wpath)
			if perr != nil {
				wsrc, _ := os.ReadFile(wpath)
				viol(c39keyFor(f, "written-file-does-not-parse"), fmt.Sprintf("written file is not Go: %v\n--- source\n%s\n--- written\n%s", perr, f.source(), wsrc))
				if wf == nil {
					outs = append(outs, "unparsable")
					continue
				}
			}
			outs = append(outs, sum)
			if err != nil {
				viol("preprocess-error", fmt.Sprintf("cmd.Main returned %v", err))
			}
			if f.valid && strings.TrimSpace(c39dropWarnings(printed, kind == "dir")) != "" {
				key := "preprocess-prints-error"
				if opDefect != "" {
					key = opDefect
				}
				viol(key, fmt.Sprintf("preprocessing a valid source printed: %s\n--- source\n%s", truncate(printed, 600), f.source()))
			}
			// imports preserved (every valid source, macro-generated imports included)
			if f.valid {
				rf, rerr := parser.ParseFile(token.NewFileSet(), "r.go", f.reference(), parser.ImportsOnly)
				if rerr == nil {
					imps := func(x *ast.File) string {
						var l []string
						for _, im := range x.Imports {
							s := im.Path.Value
							if im.Name != nil {
								s = im.Name.Name + " " + s
							}
							l = append(l, s)
						}
						return strings.Join(l, ", ")
					}
					if a, b := imps(rf), imps(wf); a != b {
						key := "imports-differ"
						if fi > 0 {
							key = "dir-imports-leak"
						}
						viol(c39keyFor(f, key), fmt.Sprintf("imports of the source: [%s]; imports written: [%s]\n--- source\n%s", a, b, f.source()))
					}
				}
			}
			// oracle 2: AST equality for pure Go sources
			if f.pure {
				sfset := token.NewFileSet()
				sf, serr := parser.ParseFile(sfset, f.name+".go", f.source(), parser.SkipObjectResolution)
				if serr != nil {
					viol("generator-invalid-go", fmt.Sprintf("generated pure source is not Go: %v\n%s", serr, f.source()))
				} else {
					if len(sf.Decls) != len(wf.Decls) {
						viol(c39keyFor(f, "decl-count-differs"), fmt.Sprintf("source has %d declarations, written file %d\n--- source\n%s", len(sf.Decls), len(wf.Decls), f.source()))
					} else {
						for i := range sf.Decls {
							a, b := c39dumpDecl(sf.Decls[i]), c39dumpDecl(wf.Decls[i])
							if a != b {
								viol(c39keyFor(f, "decl-ast-differs"), fmt.Sprintf("declaration #%d differs (source <> written): %s\n--- source\n%s", i, c39firstDiff(a, b), f.source()))
								break
							}
						}
					}
					if sf.Name.Name != wf.Name.Name {
						viol("package-name-differs", sf.Name.Name+" <> "+wf.Name.Name)
					}
				}
			}
			// oracle 1: compile + run, against the reference
			if f.valid {
				wd := fmt.Sprintf("w%d_%d", nprog, fi)
				rd := fmt.Sprintf("r%d_%d", nprog, fi)
				os.MkdirAll(filepath.Join(batch, wd), 0o755)
				os.MkdirAll(filepath.Join(batch, rd), 0o755)
				wsrc, _ := os.ReadFile(wpath)
				os.WriteFile(filepath.Join(batch, wd, "w.go"), wsrc, 0o644)
				os.WriteFile(filepath.Join(batch, rd, "r.go"), []byte(f.reference()), 0o644)
				pkgs = append(pkgs, wd, rd)
				f.wdir, f.rdir = wd, rd
			}
			// third opinion: the interpreter itself
			if f.valid && fi == 0 && kind == "file" {
				f.interp = c39interpret(filepath.Join(dir, f.name+".gomacro"))
				if lf, e := os.OpenFile(filepath.Join(root, "interp.log"), os.O_APPEND|os.O_CREATE|os.O_WRONLY, 0o644); e == nil {
					fmt.Fprintf(lf, "%s %s\n", f.name, f.interp)
					lf.Close()
				}
			}
		}
		res.out = strings.Join(outs, " ## ")
		c39pending = append(c39pending, c39pend{op, res, files})
	}
	if len(pkgs) > 0 {
		c39buildBatch(batch, pkgs)
	}
	for _, p := range c39pending {
		for _, f := range p.files {
			if f.wdir == "" || p.res.viol != "" {
				continue
			}
			if e := c39batchErr[f.rdir]; e != "" {
				p.res.viol, p.res.key = "reference program does not compile (generator bug): "+e+"\n"+f.reference(), "generator-reference-invalid"
				continue
			}
			if e := c39batchErr[f.wdir]; e != "" {
				wsrc, _ := os.ReadFile(filepath.Join(batch, f.wdir, "w.go"))
				p.res.viol, p.res.key = fmt.Sprintf("written file does not compile: %s\n--- source\n%s\n--- written\n%s", truncate(e, 500), f.source(), wsrc), c39keyFor(f, "written-file-does-not-compile")
				continue
			}
			wo, ro := c39batchOut[f.wdir], c39batchOut[f.rdir]
			if wo != ro {
				p.res.viol, p.res.key = fmt.Sprintf("written program prints %q, reference prints %q\n--- source\n%s", truncate(wo, 300), truncate(ro, 300), f.source()), c39keyFor(f, "output-differs")
				continue
			}
			p.res.compiled = true
			if f.interp != "" {
				if f.interp == "OUT "+wo {
					p.res.tags = append(p.res.tags, "interp-agrees")
				} else if strings.HasPrefix(f.interp, "OUT ") {
					p.res.tags = append(p.res.tags, "interp-output-differs")
				} else {
					p.res.tags = append(p.res.tags, "interp-fails")
				}
			}
		}
	}
}

type c39pend struct {
	op    string
	res   *c39fileRes
	files []*c39file
}

var c39pending []c39pend

// a violation that is caused by one of the recorded defect families gets that family's key
func c39keyFor(f *c39file, generic string) string {
	if f.defect != "" {
		return f.defect
	}
	return generic
}

func c39interpret(path string) (out string) {
	defer func() {
		if e := recover(); e != nil {
			out = "PANIC " + truncate(oneLine(fmt.Sprint(e)), 200)
		}
	}()
	ir := fast.New()
	var buf bytes.Buffer
	ir.Comp.Globals.Stdout, ir.Comp.Globals.Stderr = &buf, &buf
	ir.Comp.Globals.Options |= base.OptTrapPanic
	if _, err := ir.EvalFile(path); err != nil {
		return "ERR " + truncate(oneLine(err.Error()), 200)
	}
	if s := strings.TrimSpace(buf.String()); s != "" {
		return "ERR " + truncate(oneLine(s), 200)
	}
	vs, _ := ir.Eval("Run()")
	if len(vs) != 1 {
		return "ERR no value"
	}
	return "OUT " + fmt.Sprint(vs[0].ReflectValue().Interface())
}

var c39errLine = regexp.MustCompile(`^(?:\./)?([wr]\d+_\d+)/[wr]\.go:\d+`)

func c39buildBatch(batch string, pkgs []string) {
	os.WriteFile(filepath.Join(batch, "go.mod"), []byte("module batch\n\ngo 1.21\n"), 0o644)
	env := append(os.Environ(), "GOFLAGS=-mod=mod", "GOPROXY=off", "GOSUMDB=off", "GOTOOLCHAIN=local", "GO111MODULE=on")
	// 1. which packages compile?  go vet is not needed: `go build ./...` reports per package
	bad := map[string]bool{}
	for round := 0; round < 40; round++ { // go build stops scheduling after some failures: repeat until everything left compiles
		build := exec.Command("go", "build", "./...")
		build.Dir = batch
		build.Env = env
		out, err := build.CombinedOutput()
		if err == nil {
			break
		}
		cur := ""
		found := false
		for _, l := range strings.Split(string(out), "\n") {
			if strings.HasPrefix(l, "# batch/") {
				cur = strings.TrimPrefix(l, "# batch/")
				continue
			}
			if m := c39errLine.FindStringSubmatch(l); m != nil {
				cur = m[1]
			}
			if cur != "" && strings.TrimSpace(l) != "" {
				if !bad[cur] {
					found = true
				}
				bad[cur] = true
				c39batchErr[cur] += l + "\n"
			}
		}
		if !found {
			for _, p := range pkgs {
				if !bad[p] {
					c39batchErr[p] = "go build failed: " + truncate(string(out), 1000)
					bad[p] = true
				}
			}
			return
		}
		for p := range bad {
			os.RemoveAll(filepath.Join(batch, p))
		}
	}
	// 2. main program over the packages that compile
	var main bytes.Buffer
	main.WriteString("package main\n\nimport (\n\t\"fmt\"\n\t\"os\"\n\t\"bufio\"\n")
	var good []string
	for _, p := range pkgs {
		if !bad[p] {
			good = append(good, p)
			fmt.Fprintf(&main, "\t%s \"batch/%s\"\n", p, p)
		}
	}
	sort.Strings(good)
	main.WriteString(")\n\nvar w = bufio.NewWriter(os.Stdout)\n\nfunc run1(name string, f func() string) {\n\tdefer func() {\n\t\tif e := recover(); e != nil {\n\t\t\tfmt.Fprintf(w, \"#RES %s %q\\n\", name, fmt.Sprint(\"PANIC: \", e))\n\t\t}\n\t}()\n\tfmt.Fprintf(w, \"#RES %s %q\\n\", name, f())\n}\n\nfunc main() {\n\tdefer w.Flush()\n")
	for _, p := range good {
		fmt.Fprintf(&main, "\trun1(%q, %s.Run)\n", p, p)
	}
	main.WriteString("}\n")
	os.MkdirAll(filepath.Join(batch, "cmdmain"), 0o755)
	os.WriteFile(filepath.Join(batch, "cmdmain", "main.go"), main.Bytes(), 0o644)
	build := exec.Command("go", "build", "-o", "batch.bin", "./cmdmain")
	build.Dir = batch
	build.Env = env
	if out, err := build.CombinedOutput(); err != nil {
		for _, p := range good {
			c39batchErr[p] = "link failed: " + truncate(string(out), 1000)
		}
		return
	}
	run := exec.Command(filepath.Join(batch, "batch.bin"))
	run.Dir = batch
	out, _ := run.CombinedOutput()
	for _, l := range strings.Split(string(out), "\n") {
		if strings.HasPrefix(l, "#RES ") {
			f := strings.SplitN(l, " ", 3)
			if len(f) == 3 {
				s, _ := strconv.Unquote(f[2])
				c39batchOut[f[1]] = s
			}
		}
	}
	for _, p := range good {
		if _, ok := c39batchOut[p]; !ok {
			c39batchOut[p] = "<no output: the batch program died>"
		}
	}
}

// which Cmd.EvalFile is under test: does it empty g.Imports before reading the file?
func c39evalFileResetsImports() (resets bool) {
	defer func() {
		if recover() != nil {
			resets = false
		}
	}()
	dir := workDir("C39probe")
	path := filepath.Join(dir, "probe.gomacro")
	os.WriteFile(path, []byte("package probe\n"), 0o644)
	cmd := gcmd.New()
	g := &cmd.Interp.Comp.Globals
	g.Stdout, g.Stderr = &bytes.Buffer{}, &bytes.Buffer{}
	g.Imports = []*ast.GenDecl{{Tok: token.IMPORT}}
	cmd.EvalFile(path)
	return len(g.Imports) == 0
}

func c39execFile(op string) Result {
	res := c39results[op]
	if res == nil {
		// replay of a single op without Prepare
		c39prepare([]string{op})
		res = c39results[op]
	}
	r := Result{Out: res.out, Viol: res.viol, Key: res.key, Nontrivial: true, Tags: append([]string{strings.Fields(op)[0]}, res.tags...)}
	if res.compiled {
		r.Tags = append(r.Tags, "compiled-and-run-equal")
	}
	return r
}

func c39exec(op string) Result {
	kind, arg, _ := strings.Cut(op, " ")
	switch kind {
	case "ast":
		return c39execAst(arg)
	case "file", "dir":
		return c39execFile(op)
	}
	return Result{Out: "bad-op"}
}

func c39gen(r *rand.Rand, tier string, emit func(string)) {
	c39genAst(r, tier, emit)
	nfile, ndir := 110, 12
	if tier == "thorough" {
		nfile, ndir = 2500, 200
	}
	for i := 0; i < nfile; i++ {
		seed := r.Int63n(1 << 40)
		emit(fmt.Sprintf("file 11 %d %s", seed, c39descr(c39makeFiles("file", seed))))
	}
	dopts := "11"
	if !c39evalFileResetsImports() {
		dopts = "11u" // the EvalFile under test is the one that keeps g.Imports: the model has both transcriptions
	}
	for i := 0; i < ndir; i++ {
		seed := r.Int63n(1 << 40)
		emit(fmt.Sprintf("dir %s %d %s", dopts, seed, c39descr(c39makeFiles("dir", seed))))
	}
}

func init() {
	register(&Prop{
		ID:         "C39",
		Rule:       "ast ops: every class of node of CollectNode's type switch alone (x3 variants x4 option settings), every ordered pair, random nested trees; file ops: random programs (structs, enums with iota, interfaces, consts, vars with side-effecting initialisers, functions with random control flow, methods, closures, defer/recover, goroutines, imports with aliases / dot / blank, grouped and single declarations, several declarations per line), plain Go / with top-level statements and := / with macros generating functions, variables, types, imports and statements, plus malformed chunks and :quit; dir ops: 2-3 files in one directory. Non-trivial: every file/dir op, ast ops with more than one leaf.",
		Gen:        c39gen,
		Exec:       c39exec,
		Prepare:    c39prepare,
		Exhaustive: func(tier string) bool { return false },
	})
}
