package main

// C21: quote and quasiquote build the documented syntax trees in both interpreters.
//
// op line:   qq (env (v NAME VALUE)...) TEMPLATE
//   VALUE    ::= (node TREE) | (list TREE...) | (int N TREE) | (str ESC TREE) | (bool true|false TREE) | (nil)
//               (TREE of a scalar = what ast2.AnyToAst makes of it: the literal the model substitutes)
//   TEMPLATE ::= the tree of a `~quote{..}` or `~quasiquote{..}` expression (see c20sx.go)
//
// The variables are declared in a fresh fast and a fresh classic interpreter (DeclVar / DefineVar), the
// template tree is rebuilt and evaluated by both (fast: CompileNode + RunExpr, classic: EvalNode1).
// Output:  "qq RES": the result of the classic interpreter (the direct recursion the model transcribes),
// serialised without parentheses and without empty statements in blocks, or "err".
// The fast interpreter is compared with the classic one by the oracle below.
//
// Go-side oracle:
//   * the two interpreters return structurally identical trees (or both fail)      Key fast-classic-differ-*
//   * each evaluation returns a fresh tree: two results of the same compiled template share no
//     go/ast node with each other, and overwriting every identifier / literal of the first result does
//     not change what the next evaluation returns                                  Key shared-node-* / template-mutated-*
//     (differences that are only parentheses / empty statements: Key fast-classic-differ-trivia)

import (
	"fmt"
	"go/ast"
	"go/token"
	"math/rand"
	"os"
	"reflect"
	"strings"

	"github.com/cosmos72/gomacro/ast2"
	"github.com/cosmos72/gomacro/classic"
	"github.com/cosmos72/gomacro/fast"
	etoken "github.com/cosmos72/gomacro/go/etoken"
)

func init() {
	register(&Prop{
		ID:         "C21",
		Rule:       "random quote / quasiquote templates (all statement and expression forms of the C20 generator) with ~unquote of node, literal and non-AST values and ~unquote_splice of empty / one-element / longer lists in statement lists, call arguments, composite literals, return values, case lists; nesting depth 1..4 with the innermost-unquote-pairs-with-outermost-quasiquote forms, bounded-exhaustive over all operator stacks of length <= 4 (also broken by a second statement in a body); through the fast and the classic interpreter; non-trivial = template with at least one unquote",
		Gen:        c21gen,
		Exec:       c21exec,
		Exhaustive: func(string) bool { return false },
	})
}

type c21val struct {
	name string
	kind string
	arg  string   // int/str/bool text
	tree []string // node: 1, list: n
}

func c21parseEnv(n *sxNode) []c21val {
	if n.br != '(' || len(n.kids) == 0 || n.kids[0].atom != "env" {
		panic("bad env")
	}
	var out []c21val
	for _, v := range n.kids[1:] {
		if v.br != '(' || len(v.kids) != 3 || v.kids[0].atom != "v" || v.kids[2].br != '(' || len(v.kids[2].kids) == 0 {
			panic("bad var")
		}
		val := c21val{name: v.kids[1].atom, kind: v.kids[2].kids[0].atom}
		rest := v.kids[2].kids[1:]
		switch val.kind {
		case "node":
			if len(rest) != 1 {
				panic("bad node")
			}
			val.tree = []string{sxShow(rest[0])}
		case "list":
			for _, t := range rest {
				val.tree = append(val.tree, sxShow(t))
			}
		case "int", "str", "bool":
			if len(rest) != 2 || rest[0].br != 0 {
				panic("bad scalar")
			}
			val.arg = rest[0].atom
			val.tree = []string{sxShow(rest[1])}
		case "nil":
		default:
			panic("bad value kind")
		}
		out = append(out, val)
	}
	return out
}

func c21goValue(v c21val) interface{} {
	switch v.kind {
	case "node":
		return ast2.ToNode(sxParse(v.tree[0]))
	case "list":
		out := make([]ast.Node, 0, len(v.tree))
		for _, t := range v.tree {
			out = append(out, ast2.ToNode(sxParse(t)))
		}
		return out
	case "int":
		var n int
		fmt.Sscanf(v.arg, "%d", &n)
		return n
	case "str":
		return sxUnesc(v.arg)
	case "bool":
		return v.arg == "true"
	}
	return nil
}

var rtAstNode = reflect.TypeOf((*ast.Node)(nil)).Elem()
var rtNodeSlice = reflect.TypeOf([]ast.Node(nil))

func c21fast(env []c21val) *fast.Interp {
	ir := newQuietInterp()
	for _, v := range env {
		switch v.kind {
		case "node", "nil":
			var x ast.Node
			if v.kind == "node" {
				x = c21goValue(v).(ast.Node)
			}
			ir.DeclVar(v.name, ir.Comp.Universe.FromReflectType(rtAstNode), x)
		default:
			ir.DeclVar(v.name, nil, c21goValue(v))
		}
	}
	return ir
}

func c21classic(env []c21val) *classic.Interp {
	ir := classic.New()
	for _, v := range env {
		switch v.kind {
		case "node", "nil":
			val := reflect.New(rtAstNode).Elem()
			if v.kind == "node" {
				val.Set(reflect.ValueOf(c21goValue(v)))
			}
			ir.DefineVar(v.name, rtAstNode, val)
		default:
			x := c21goValue(v)
			ir.DefineVar(v.name, reflect.TypeOf(x), reflect.ValueOf(x))
		}
	}
	return ir
}

// pointers of all go/ast nodes reachable from x
func c21ptrs(x interface{}, out map[uintptr]string) {
	c21ptrsV(reflect.ValueOf(x), out)
}
func c21ptrsV(v reflect.Value, out map[uintptr]string) {
	switch v.Kind() {
	case reflect.Interface:
		if !v.IsNil() {
			c21ptrsV(v.Elem(), out)
		}
	case reflect.Ptr:
		if v.IsNil() {
			return
		}
		if _, ok := v.Interface().(*ast.Object); ok {
			return
		}
		if _, ok := v.Interface().(*ast.Scope); ok {
			return
		}
		if _, ok := v.Interface().(ast.Node); ok {
			if _, seen := out[v.Pointer()]; seen {
				return
			}
			out[v.Pointer()] = v.Elem().Type().Name()
		}
		c21ptrsV(v.Elem(), out)
	case reflect.Struct:
		for i := 0; i < v.NumField(); i++ {
			c21ptrsV(v.Field(i), out)
		}
	case reflect.Slice:
		for i := 0; i < v.Len(); i++ {
			c21ptrsV(v.Index(i), out)
		}
	}
}

// overwrite every identifier and literal reachable from x
func c21scribble(x interface{}) {
	seen := map[uintptr]string{}
	c21ptrs(x, seen)
	var walk func(v reflect.Value)
	done := map[uintptr]bool{}
	walk = func(v reflect.Value) {
		switch v.Kind() {
		case reflect.Interface:
			if !v.IsNil() {
				walk(v.Elem())
			}
		case reflect.Ptr:
			if v.IsNil() || done[v.Pointer()] {
				return
			}
			done[v.Pointer()] = true
			switch n := v.Interface().(type) {
			case *ast.Object, *ast.Scope:
				return
			case *ast.Ident:
				n.Name = "SCRIBBLED"
				return
			case *ast.BasicLit:
				n.Value = "666"
				return
			case *ast.BlockStmt:
				n.List = append(n.List, &ast.EmptyStmt{}, &ast.EmptyStmt{})
			case *ast.CallExpr:
				n.Args = append(n.Args, &ast.Ident{Name: "SCRIBBLED"})
			case *ast.BinaryExpr:
				n.Op = token.XOR
			}
			walk(v.Elem())
		case reflect.Struct:
			for i := 0; i < v.NumField(); i++ {
				walk(v.Field(i))
			}
		case reflect.Slice:
			for i := 0; i < v.Len(); i++ {
				walk(v.Index(i))
			}
		}
	}
	walk(reflect.ValueOf(x))
}

// serialisation without ParenExpr and without EmptyStmt elements of blocks
func sxWriteNorm(sb *strings.Builder, a ast2.Ast) {
	if sxIsNil(a) {
		sb.WriteByte('_')
		return
	}
	kind := sxKind(a)
	if kind == "ParenExpr" {
		sxWriteNorm(sb, a.Get(0))
		return
	}
	if es, ok := sxElemSlot[kind]; ok {
		fmt.Fprintf(sb, "[%s %c %s %c", kind, sxCat(a), sxAttr(a), es)
		for i, n := 0, a.Size(); i < n; i++ {
			e := a.Get(i)
			if kind == "BlockStmt" && !sxIsNil(e) && sxKind(e) == "EmptyStmt" {
				continue
			}
			sb.WriteByte(' ')
			sxWriteNorm(sb, e)
		}
		sb.WriteByte(']')
		return
	}
	slots := sxSlots[kind]
	fmt.Fprintf(sb, "(%s %c %s", kind, sxCat(a), sxAttr(a))
	for i, n := 0, a.Size(); i < n; i++ {
		sb.WriteByte(' ')
		sb.WriteByte(slots[i])
		sb.WriteByte(' ')
		sxWriteNorm(sb, a.Get(i))
	}
	sb.WriteByte(')')
}

func c21showNorm(x interface{}) (s string) {
	s = "err"
	defer func() { recover() }()
	var a ast2.Ast
	switch x := x.(type) {
	case nil:
		return "_"
	case ast2.Ast:
		a = x
	case ast.Node:
		a = ast2.ToAst(x)
	default:
		a = ast2.AnyToAst(x, "c21")
	}
	var sb strings.Builder
	sxWriteNorm(&sb, a)
	return sb.String()
}

func c21show(x interface{}, errText string) string {
	if errText != "" {
		return "err"
	}
	s := "err"
	func() {
		defer func() { recover() }()
		s = sxAny(x)
	}()
	return s
}

// evaluate the template n times with one compilation (fast) / n evaluations (classic)
func c21runFast(ir *fast.Interp, node ast.Node, n int) (vals []interface{}, errText string) {
	defer func() {
		if e := recover(); e != nil {
			errText = oneLine(fmt.Sprint(e))
			if errText == "" {
				errText = "panic"
			}
		}
	}()
	e := ir.CompileNode(node)
	for i := 0; i < n; i++ {
		vs, _ := ir.RunExpr(e)
		if len(vs) == 0 {
			vals = append(vals, nil)
			continue
		}
		v := vs[0].ReflectValue()
		if !v.IsValid() || (v.Kind() == reflect.Interface && v.IsNil()) {
			vals = append(vals, nil)
		} else {
			vals = append(vals, v.Interface())
		}
	}
	return vals, ""
}

func c21runClassic(ir *classic.Interp, node ast.Node, n int) (vals []interface{}, errText string) {
	defer func() {
		if e := recover(); e != nil {
			errText = oneLine(fmt.Sprint(e))
			if errText == "" {
				errText = "panic"
			}
		}
	}()
	for i := 0; i < n; i++ {
		v := ir.EvalNode1(node)
		if !v.IsValid() || v == classicNone() || (v.Kind() == reflect.Interface && v.IsNil()) {
			vals = append(vals, nil)
		} else {
			vals = append(vals, v.Interface())
		}
	}
	return vals, ""
}

func classicNone() reflect.Value { return reflect.Value{} }

func c21exec(op string) Result {
	f, rest, _ := strings.Cut(op, " ")
	var parts []*sxNode
	func() {
		defer func() {
			if recover() != nil {
				parts = nil
			}
		}()
		parts = sxReadAll(rest)
	}()
	if len(parts) != 2 || f != "qq" {
		return Result{Out: "bad-op", Tags: []string{"bad-op"}}
	}
	var env []c21val
	var tmpl ast2.Ast
	bad := false
	func() {
		defer func() {
			if recover() != nil {
				bad = true
			}
		}()
		env = c21parseEnv(parts[0])
		for _, v := range env {
			x := c21goValue(v)
			if v.kind == "int" || v.kind == "str" || v.kind == "bool" {
				if sxAst(ast2.AnyToAst(x, "c21")) != v.tree[0] {
					panic("scalar and its tree disagree")
				}
			}
		}
		tmpl = sxBuild(parts[1])
	}()
	if bad || sxIsNil(tmpl) {
		return Result{Out: "bad-op", Tags: []string{"bad-op"}}
	}
	tn, ok := tmpl.(ast2.AstWithNode)
	if !ok {
		return Result{Out: "bad-op", Tags: []string{"bad-op"}}
	}
	text := sxAst(tmpl)
	if text != sxShow(parts[1]) {
		return Result{Out: "bad-op", Tags: []string{"bad-op"}}
	}
	op0, _ := skQuoteOp(tn.Node())
	if op0 != etoken.QUOTE && op0 != etoken.QUASIQUOTE {
		return Result{Out: "bad-op", Tags: []string{"bad-op"}}
	}
	res := Result{Tags: []string{etoken.String(op0)}}
	nunq := strings.Count(text, "~unquote")
	nspl := strings.Count(text, "~unquote%5fsplice")
	res.Nontrivial = nunq > 0
	if nunq-nspl > 0 {
		res.Tags = append(res.Tags, "unquote")
	}
	if nspl > 0 {
		res.Tags = append(res.Tags, "splice")
	}
	depth := c21maxDepth(tn.Node())
	res.Tags = append(res.Tags, fmt.Sprintf("depth%d", depth))

	// fast: compile once, run three times; classic: three evaluations of a fresh copy of the template
	fi := c21fast(env)
	fvals, ferr := c21runFast(fi, ast2.ToNode(sxParse(text)), 2)
	ci := c21classic(env)
	ctmpl := ast2.ToNode(sxParse(text))
	cvals, cerr := c21runClassic(ci, ctmpl, 2)

	var fs, cs string
	if ferr == "" {
		fs = c21show(fvals[0], "")
	} else {
		fs = "err"
	}
	if cerr == "" {
		cs = c21show(cvals[0], "")
	} else {
		cs = "err"
	}
	if cerr == "" {
		res.Out = "qq " + c21showNorm(cvals[0])
	} else {
		res.Out = "qq err"
	}
	if fs == "err" {
		res.Tags = append(res.Tags, "fast-err")
	}
	if cs == "err" {
		res.Tags = append(res.Tags, "classic-err")
	}
	shape := fmt.Sprintf("depth%d", depth)
	if nspl > 0 {
		shape += "-splice"
	}
	if fs != cs {
		if d := os.Getenv("C21_DUMP"); d != "" {
			os.WriteFile(d+"/fast.txt", []byte(fs), 0o644)
			os.WriteFile(d+"/classic.txt", []byte(cs), 0o644)
		}
		res.Viol = "fast and classic disagree: fast " + truncate(fs, 300) + " | classic " + truncate(cs, 300) + " | fasterr=" + truncate(ferr, 120) + " classicerr=" + truncate(cerr, 120)
		switch {
		case fs != "err" && cs != "err" && c21trivia(fvals[0], false) == c21trivia(cvals[0], false):
			// same tree up to parentheses and empty statements
			res.Key = "fast-classic-differ-trivia"
		case fs != "err" && cs != "err" && c21trivia(fvals[0], true) == c21trivia(cvals[0], true):
			// ... and up to a block that is the only statement of a block (a block value unquoted at depth > 1
			// becomes the body of the rebuilt ~unquote in fast, a statement of that body in classic)
			res.Key = "fast-classic-differ-nested-block"
		case fs != "err" && cs == "err" && c21deepSpliceSingle(tn.Node()) == 1:
			// a plain ~unquote_splice at evaluation depth outside any list: classic rejects it
			// ("cannot splice in single-statement context"), fast inserts the value like ~unquote
			res.Key = "fast-classic-differ-splice-single-slot"
		case fs != "err" && cs != "err" && c21deepSpliceSingle(tn.Node()) >= 2:
			// the template has a stack of unquotes ending in ~unquote_splice, as long as the quasiquote depth,
			// in a position that is not a list element (label target, if/for body statement, operand ...)
			res.Key = "fast-classic-differ-deep-splice-single-slot"
		case fs == "err":
			res.Key = "fast-classic-differ-fast-fails-" + shape
		case cs == "err":
			res.Key = "fast-classic-differ-classic-fails-" + shape
		default:
			res.Key = "fast-classic-differ-" + shape
		}
		return res
	}
	// freshness
	check := func(who string, vals []interface{}, again func() (interface{}, string)) bool {
		if len(vals) < 2 || vals[0] == nil {
			return true
		}
		s0 := c21show(vals[0], "")
		p0, p1 := map[uintptr]string{}, map[uintptr]string{}
		c21ptrs(vals[0], p0)
		c21ptrs(vals[1], p1)
		for p, k := range p0 {
			if _, shared := p1[p]; shared {
				res.Viol = who + ": two evaluations share a " + k + " node"
				res.Key = "shared-node-" + who + "-" + k
				return false
			}
		}
		c21scribble(vals[0])
		v2, e2 := again()
		if s2 := c21show(v2, e2); s2 != s0 {
			res.Viol = who + ": after overwriting the first result the next evaluation returns " + truncate(s2, 300) + " instead of " + truncate(s0, 300)
			res.Key = "template-mutated-" + who
			return false
		}
		return true
	}
	// values held by the variables are inserted by reference (documented: unquote inserts the value), so
	// sharing is only checked for templates whose variables are not nodes: use a separate run without node/list variables
	if op0 == etoken.QUASIQUOTE && !c21usesTreeVars(text, env) {
		if ferr == "" {
			e := fi.CompileNode(ast2.ToNode(sxParse(text)))
			if !check("fast", fvals, func() (interface{}, string) {
				vs, er := c21runExpr(fi, e)
				return vs, er
			}) {
				return res
			}
		}
		if cerr == "" {
			if !check("classic", cvals, func() (interface{}, string) {
				vs, er := c21runClassic(ci, ctmpl, 1)
				if er != "" || len(vs) == 0 {
					return nil, "err"
				}
				return vs[0], ""
			}) {
				return res
			}
		}
	}
	return res
}

// c21trivia prints a result with ParenExpr and EmptyStmt removed (reflection over go/ast)
func c21trivia(x interface{}, flattenBlocks bool) string {
	var sb strings.Builder
	var walk func(v reflect.Value)
	walk = func(v reflect.Value) {
		switch v.Kind() {
		case reflect.Interface:
			if v.IsNil() {
				sb.WriteString("nil ")
				return
			}
			walk(v.Elem())
		case reflect.Ptr:
			if v.IsNil() {
				sb.WriteString("nil ")
				return
			}
			switch n := v.Interface().(type) {
			case *ast.Object, *ast.Scope:
				return
			case *ast.ParenExpr:
				walk(reflect.ValueOf(n.X))
				return
			case *ast.BlockStmt:
				if flattenBlocks && len(n.List) == 1 {
					if inner, ok := n.List[0].(*ast.BlockStmt); ok {
						walk(reflect.ValueOf(inner))
						return
					}
				}
			}
			sb.WriteString("(" + v.Elem().Type().Name() + " ")
			walk(v.Elem())
			sb.WriteString(")")
		case reflect.Struct:
			for i := 0; i < v.NumField(); i++ {
				if v.Type().Field(i).Type == rtPos {
					continue
				}
				walk(v.Field(i))
			}
		case reflect.Slice:
			sb.WriteString("[")
			for i := 0; i < v.Len(); i++ {
				e := v.Index(i)
				if e.Kind() == reflect.Interface && !e.IsNil() {
					if _, ok := e.Interface().(*ast.EmptyStmt); ok {
						continue
					}
				}
				walk(e)
			}
			sb.WriteString("]")
		case reflect.String:
			fmt.Fprintf(&sb, "%q ", v.String())
		case reflect.Int, reflect.Bool:
			fmt.Fprintf(&sb, "%v ", v.Interface())
		}
	}
	walk(reflect.ValueOf(x))
	return sb.String()
}

func c21runExpr(ir *fast.Interp, e *fast.Expr) (val interface{}, errText string) {
	defer func() {
		if x := recover(); x != nil {
			errText = "panic"
		}
	}()
	vs, _ := ir.RunExpr(e)
	if len(vs) == 0 {
		return nil, ""
	}
	v := vs[0].ReflectValue()
	if !v.IsValid() || (v.Kind() == reflect.Interface && v.IsNil()) {
		return nil, ""
	}
	return v.Interface(), ""
}

func c21usesTreeVars(text string, env []c21val) bool {
	for _, v := range env {
		if (v.kind == "node" || v.kind == "list") && strings.Contains(text, "(Ident e n"+sxEsc(v.name)+")") {
			return true
		}
	}
	return false
}

// c21deepSpliceSingle: does the template contain, outside any list, a stack of >= 2 directly nested unquotes
// whose innermost operator is ~unquote_splice and which is at least as long as the quasiquote depth there
// (returns the length of the longest such stack; 1 = a plain ~unquote_splice at evaluation depth outside a list; 0 = none)
func c21deepSpliceSingle(root ast.Node) int {
	found := 0
	var walk func(v reflect.Value, d int, inList bool)
	chain := func(u *ast.UnaryExpr) (int, token.Token) {
		n := 1
		for {
			f, ok := u.X.(*ast.FuncLit)
			if !ok || f.Body == nil || len(f.Body.List) != 1 {
				return n, u.Op
			}
			var x ast.Node = f.Body.List[0]
			for {
				switch y := x.(type) {
				case *ast.ExprStmt:
					x = y.X
					continue
				case *ast.ParenExpr:
					x = y.X
					continue
				}
				break
			}
			in, ok := x.(*ast.UnaryExpr)
			if !ok || (in.Op != etoken.UNQUOTE && in.Op != etoken.UNQUOTE_SPLICE) {
				return n, u.Op
			}
			u = in
			n++
		}
	}
	walk = func(v reflect.Value, d int, inList bool) {
		switch v.Kind() {
		case reflect.Interface:
			if !v.IsNil() {
				walk(v.Elem(), d, inList)
			}
		case reflect.Ptr:
			if v.IsNil() {
				return
			}
			switch n := v.Interface().(type) {
			case *ast.Object, *ast.Scope:
				return
			case *ast.ExprStmt:
				walk(reflect.ValueOf(n.X), d, inList)
				return
			case *ast.ParenExpr:
				walk(reflect.ValueOf(n.X), d, inList)
				return
			case *ast.UnaryExpr:
				if f, ok := n.X.(*ast.FuncLit); ok && f.Body != nil {
					switch n.Op {
					case etoken.QUASIQUOTE:
						walk(reflect.ValueOf(f.Body), d+1, false)
						return
					case etoken.UNQUOTE, etoken.UNQUOTE_SPLICE:
						if !inList && d >= 1 {
							if k, op := chain(n); k >= d && op == etoken.UNQUOTE_SPLICE && k > found {
								found = k
							}
						}
						walk(reflect.ValueOf(f.Body), d-1, false)
						return
					}
				}
			}
			walk(v.Elem(), d, false)
		case reflect.Struct:
			for i := 0; i < v.NumField(); i++ {
				walk(v.Field(i), d, false)
			}
		case reflect.Slice:
			for i := 0; i < v.Len(); i++ {
				walk(v.Index(i), d, true)
			}
		}
	}
	walk(reflect.ValueOf(root), 0, false)
	return found
}

func c21maxDepth(n ast.Node) int {
	max := 0
	var walk func(n ast.Node, d int)
	walk = func(n ast.Node, d int) {
		if n == nil || reflect.ValueOf(n).IsNil() {
			return
		}
		if op, body := skQuoteOp(n); body != nil {
			if op == etoken.QUASIQUOTE {
				d++
				if d > max {
					max = d
				}
			}
			walk(body, d)
			return
		}
		v := reflect.ValueOf(n).Elem()
		for i := 0; i < v.NumField(); i++ {
			f := v.Field(i)
			switch f.Kind() {
			case reflect.Slice:
				for j := 0; j < f.Len(); j++ {
					if nn, ok := f.Index(j).Interface().(ast.Node); ok {
						walk(nn, d)
					}
				}
			case reflect.Interface, reflect.Ptr:
				if !f.IsNil() {
					if nn, ok := f.Interface().(ast.Node); ok {
						if _, isObj := f.Interface().(*ast.Object); !isObj {
							walk(nn, d)
						}
					}
				}
			}
		}
	}
	walk(n, 0)
	return max
}

// ------------------------------------------------------------------ generator

var c21fixed = []string{
	"~quote{x}", "~quote{x; y}", "~quote{(x)}", "~quote{{x}}", "~quote{}", "~quote{x := 1}", "~quote{{x := 1}}", "~quote 7",
	"~quasiquote{x}", "~quasiquote{~unquote{x0}}", "~quasiquote{~unquote{n0}}", "~quasiquote{~unquote{s0}}", "~quasiquote{~unquote{b0}}",
	"~quasiquote{a + ~unquote{x0}}", "~quasiquote{f(~unquote{x0}, ~unquote{x1})}", "~quasiquote{a; ~unquote{x0}; b}",
	"~quasiquote{~unquote_splice{l2}}", "~quasiquote{a; ~unquote_splice{l2}; b}", "~quasiquote{a; ~unquote_splice{l0}; b}",
	"~quasiquote{a; ~unquote_splice{l1}; b}", "~quasiquote{f(a, ~unquote_splice{l2}, b)}", "~quasiquote{f(~unquote_splice{l0})}",
	"~quasiquote{[]int{~unquote_splice{l2}}}", "~quasiquote{return ~unquote_splice{l2}}", "~quasiquote{switch { case ~unquote_splice{l2}: a }}",
	"~quasiquote{if ~unquote{x0} { ~unquote_splice{l2} } else { ~unquote{x1} }}", "~quasiquote{func() { ~unquote_splice{l2} }}",
	"~quasiquote{x = ~unquote{x0} + ~unquote{x0}}", "~quasiquote{~unquote{bl}}", "~quasiquote{a; ~unquote{bl}; b}", "~quasiquote{~unquote_splice{bl}}",
	"~quasiquote{~quasiquote{x}}", "~quasiquote{~quasiquote{~unquote{x0}}}", "~quasiquote{~quasiquote{~unquote{~unquote{x0}}}}",
	"~quasiquote{~quasiquote{a; ~unquote{~unquote{x0}}; b}}", "~quasiquote{~quasiquote{a; ~unquote{~unquote_splice{l2}}; b}}",
	"~quasiquote{~quasiquote{1; ~unquote{2}; ~unquote{~unquote_splice{l2}}}}", "~quasiquote{~quasiquote{a; ~unquote_splice{~unquote{x0}}; b}}",
	"~quasiquote{~quasiquote{a; ~unquote_splice{~unquote_splice{l2}}; b}}", "~quasiquote{~quasiquote{f(~unquote{~unquote{x0}})}}",
	"~quasiquote{~quasiquote{f(a, ~unquote{~unquote_splice{l2}})}}", "~quasiquote{~quasiquote{~quasiquote{~unquote{~unquote{~unquote{x0}}}}}}",
	"~quasiquote{~quasiquote{~quasiquote{a; ~unquote{~unquote{~unquote_splice{l2}}}; b}}}", "~quasiquote{~quote{~unquote{x0}}}",
	"~quasiquote{~quasiquote{~unquote{x0}; ~unquote{~unquote{x1}}}}", "~quasiquote{~unquote{~quasiquote{~unquote{x0}}}}",
	"~quasiquote{a; ~unquote{x0}}", "~quasiquote{{~unquote{x0}}}", "~quasiquote{(~unquote{x0})}", "~quasiquote{~unquote{x0}; ~unquote{x1}}",
	"~quasiquote{var v = ~unquote{x0}}", "~quasiquote{~unquote{st}}", "~quasiquote{a; ~unquote{st}; b}", "~quasiquote{if a { ~unquote{st} }}",
	"~quasiquote{~unquote{x0}.f}", "~quasiquote{x.~unquote{x0}}", "~quasiquote{func ~unquote{x0}() {}}", "~quasiquote{type T struct { ~unquote{x0} int }}",
	"~quasiquote{~unquote{x0}: for { break }}", "~quasiquote{a[~unquote{x0}:~unquote{x1}]}", "~quasiquote{~unquote{x0} := ~unquote{x1}}",
	"~quasiquote{x <- ~unquote_splice{bl}}", "~quasiquote{~quasiquote{L: ~unquote{~unquote_splice{l2}}}}", "~quasiquote{~quasiquote{if a { ~unquote{~unquote_splice{l2}} }}}",
	"~quasiquote{L: var v, w int}", "~quasiquote{~quote{~unquote_splice{l2}}}", "~quasiquote{~quote{var b = w}}", "~quasiquote{~quasiquote{}}",
	"~quasiquote{~quasiquote{~unquote_splice{~unquote{bl}}}}", "~quasiquote{~quasiquote{a; ~unquote{~unquote{bl}}}}", "~quasiquote{((x))}",
	"~quasiquote{~unquote{x0}, y = 1, 2}", "~quasiquote{go ~unquote{call}}", "~quasiquote{defer ~unquote{call}}", "~quasiquote{~unquote{x0}++}",
}

func c21stacks(emit func(src string)) {
	opName := []string{"~unquote", "~unquote_splice"}
	wrapQQ := func(n int, body string) string {
		for i := 0; i < n; i++ {
			body = "~quasiquote{" + body + "}"
		}
		return body
	}
	for n := 1; n <= 4; n++ {
		for k := 1; k <= n; k++ {
			for mask := 0; mask < 1<<k; mask++ {
				// bit i of mask = operator at level i (0 = outermost)
				inner := opName[(mask>>(k-1))&1]
				v := "x0"
				if inner == "~unquote_splice" {
					v = "l2"
				}
				for brk := 0; brk < k; brk++ { // brk = 0: unbroken stack; else extra statement in the body of level brk-1
					if brk > 0 && n > 3 {
						continue
					}
					for _, lead := range []bool{false, true} {
						if lead && brk == 0 {
							continue
						}
						s := v
						for i := k - 1; i >= 0; i-- {
							if brk > 0 && i == brk-1 {
								if lead {
									s = "c; " + s
								} else {
									s = s + "; c"
								}
							}
							s = opName[(mask>>i)&1] + "{" + s + "}"
						}
						emit(wrapQQ(n, "a; "+s+"; b"))
						if brk == 0 {
							emit(wrapQQ(n, "f(a, "+s+", b)"))
							emit(wrapQQ(n, s))
						}
					}
				}
			}
		}
	}
}

func c21gen(r *rand.Rand, tier string, emit func(string)) {
	ir := newQuietInterp()
	mk := func(src string) string {
		a := c20parse(ir, src)
		if a == nil {
			panic("c21: cannot parse " + src)
		}
		return sxAst(a)
	}
	nodeVal := func(src string) string {
		t := mk(src)
		// what ~quote{src} evaluates to is the documented value; here the parsed node itself (ExprStmt unwrapped by the parser already)
		return "(node " + t + ")"
	}
	scalar := func(kind, arg string, x interface{}) string {
		return "(" + kind + " " + arg + " " + sxAst(ast2.AnyToAst(x, "c21")) + ")"
	}
	envs := []string{
		"(env (v x0 " + nodeVal("p") + ") (v x1 " + nodeVal("q+1") + ") (v st " + nodeVal("y = 2") + ") (v call " + nodeVal("g(1)") + ")" +
			" (v bl " + nodeVal("{ u; w }") + ") (v l0 (list)) (v l1 (list " + mk("k") + ")) (v l2 (list " + mk("7") + " " + mk("8") + "))" +
			" (v n0 " + scalar("int", "5", 5) + ") (v s0 " + scalar("str", sxEsc("a b"), "a b") + ") (v b0 " + scalar("bool", "true", true) + "))",
		"(env (v x0 " + nodeVal("f(a)") + ") (v x1 " + nodeVal("[]int{1}") + ") (v st " + nodeVal("if c { d }") + ") (v call " + nodeVal("h()") + ")" +
			" (v bl " + nodeVal("{ r }") + ") (v l0 (list " + mk("a1") + " " + mk("a2") + " " + mk("a3") + ")) (v l1 (list))" +
			" (v l2 (list " + mk("m = 1") + " " + mk("n++") + ")) (v n0 " + scalar("int", "-3", -3) + ") (v s0 " + scalar("str", "%e", "") + ") (v b0 " + scalar("bool", "false", false) + "))",
	}
	scale := 1
	if tier == "thorough" {
		scale = 12
	}
	seen := map[string]bool{}
	put := func(env, src string) {
		a := c20parse(ir, src)
		if a == nil {
			return
		}
		t := sxAst(a)
		if !strings.HasPrefix(t, "(UnaryExpr e ~qu") || sxCount(t) > 500 {
			return
		}
		line := "qq " + env + " " + t
		if !seen[line] {
			seen[line] = true
			emit(line)
		}
	}
	for _, src := range c21fixed {
		for _, e := range envs {
			put(e, src)
		}
	}
	// bounded-exhaustive: every stack of 1..4 directly nested ~unquote / ~unquote_splice operators (all 2^k
	// mixtures) around a variable, as element of a statement list and of a call argument list, below
	// 1..4 levels of ~quasiquote (stack as long as the depth: evaluated; shorter: one level peeled);
	// and the same stacks broken by a second statement in the body of one of the operators
	// (then the operators above the break are not part of the stack)
	c21stacks(func(src string) {
		for _, e := range envs {
			put(e, src)
		}
	})
	for i := 0; i < 500*scale; i++ {
		g := &c20g{r: r, arity: map[string]int{}, pQuote: []float64{0.1, 0.3}[r.Intn(2)]}
		g.uqNode = []string{"x0", "x1", "x0", "x1", "st", "n0", "s0", "b0", "bl", "call"}
		g.uqList = []string{"l0", "l1", "l2", "l2", "bl"}
		g.depth = 1
		var src string
		switch r.Intn(6) {
		case 0:
			src = "~quote{" + g.stmts(1+r.Intn(3), 0, 3) + "}"
		case 1:
			src = "~quasiquote{" + g.expr(1+r.Intn(3)) + "}"
		default:
			src = "~quasiquote{" + g.stmts(1+r.Intn(3), 1, 3) + "}"
		}
		put(envs[r.Intn(len(envs))], src)
	}
	for _, l := range []string{"qq", "qq (env) (", "qq (env) (Ident e nx)", "xx (env) _", "qq (env (v x0 (int z _))) _", "qq (env) _"} {
		emit(l)
	}
}
