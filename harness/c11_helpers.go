package main

// Compiled higher-order helpers for C11.  This very file is embedded (c11.go, go:embed) and spliced
// into every compiled-Go oracle snippet, and the same functions are bound as globals in the
// interpreter with Interp.DeclFunc: the interpreted program and the compiled program call the
// same compiled code with, respectively, interpreted and compiled callbacks.

import (
	"fmt"
	"io"
	"sync"
)

// hCallN calls f(0..n-1) on the calling goroutine.
func hCallN(f func(int) int, n int) []int {
	r := make([]int, 0, n)
	for i := 0; i < n; i++ {
		r = append(r, f(i))
	}
	return r
}

// hGoCall calls f(i) on n NEW goroutines running concurrently (foreign goroutines for an interpreter).
func hGoCall(f func(int) int, n int) []int {
	r := make([]int, n)
	var wg sync.WaitGroup
	for i := 0; i < n; i++ {
		wg.Add(1)
		go func(i int) {
			defer wg.Done()
			r[i] = f(i)
		}(i)
	}
	wg.Wait()
	return r
}

// hGoSeq calls f(i) on a fresh goroutine each time, one after the other.
func hGoSeq(f func(int) int, n int) []int {
	r := make([]int, n)
	for i := 0; i < n; i++ {
		done := make(chan struct{})
		go func(i int) {
			defer close(done)
			r[i] = f(i)
		}(i)
		<-done
	}
	return r
}

func hVariadic(f func(prefix string, xs ...int) (int, string, error), prefix string, xs []int) string {
	n, s, err := f(prefix, xs...)
	return fmt.Sprint(n, "|", s, "|", err)
}

func hMulti(f func(a int, b string, c []int) (string, int, bool, []int), a int, b string, c []int) string {
	s, n, ok, l := f(a, b, c)
	return fmt.Sprint(s, "|", n, "|", ok, "|", l)
}

// hRecover runs f and recovers, in compiled code, a panic raised by f.
func hRecover(f func()) (res string) {
	defer func() {
		if e := recover(); e != nil {
			res = fmt.Sprint("recovered: ", e)
		}
	}()
	f()
	return "no panic"
}

// hPanic panics in compiled code.
func hPanic(v string) { panic("compiled panic: " + v) }

// hApply calls f, which may panic; the panic crosses this compiled frame.
func hApply(f func(int) int, x int) int { return f(x) + 1 }

func hStringer(s fmt.Stringer) string { return "<" + s.String() + ">" }

func hError(e error) string { return "E(" + e.Error() + ")" }

func hReadAll(r io.Reader) string {
	b, err := io.ReadAll(r)
	return fmt.Sprint(string(b), "|", err)
}

// hFold threads an accumulator through a callback with two results.
func hFold(f func(acc, x int) (int, bool), xs []int) (int, int) {
	acc, n := 0, 0
	for _, x := range xs {
		var ok bool
		acc, ok = f(acc, x)
		if !ok {
			break
		}
		n++
	}
	return acc, n
}

// hGoSafe calls f(i) on a fresh (foreign) goroutine each time, one after the other; a panic that escapes
// from f into this compiled frame is recovered HERE and reported in the result.
func hGoSafe(f func(int) int, n int) []string {
	r := make([]string, n)
	for i := 0; i < n; i++ {
		done := make(chan struct{})
		go func(i int) {
			defer close(done)
			defer func() {
				if e := recover(); e != nil {
					r[i] = fmt.Sprint("ESCAPED: ", e)
				}
			}()
			r[i] = fmt.Sprint(f(i))
		}(i)
		<-done
	}
	return r
}

// hGoMany runs all callbacks one after the other on ONE new (foreign) goroutine.
func hGoMany(fs []func() string) []string {
	r := make([]string, len(fs))
	done := make(chan struct{})
	go func() {
		defer close(done)
		for i, f := range fs {
			func() {
				defer func() {
					if e := recover(); e != nil {
						r[i] = fmt.Sprint("ESCAPED: ", e)
					}
				}()
				r[i] = f()
			}()
		}
	}()
	<-done
	return r
}
