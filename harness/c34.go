package main

// C34 — the pre-declared "contracts are interfaces" methods (generics v2, etoken.GENERICS_V2_CTI) of the
// basic types (xreflect/cti_basic_method.go) and of slices/arrays/maps/chans/strings (xreflect/cti_method.go)
// agree with Go's operators and builtins.
//
// op lines
//
//	b <kind> <Method> <route> <tuple> <tuple> ...      tuple = argument values (c01 codec), comma separated,
//	                                                  receiver first — exactly the parameters of the arm
//	c slice|bytes|array|map|chan ...                   container methods, see c34_container.go
//	n <kind> <Method>                                  a method Go gives no meaning to on the kind: must not compile
//
// routes (how the method is reached through the REAL interpreter):
//
//	d  ordinary function  func(p0 K, p1 K, ..) R { return p0.M(p1, ..) }
//	g  generic function   func G#[T](p0 T, ..) R { return p0.M(..) } instantiated at K
//	t  generic function with zero-value receiver  T().M(a, b)   (methods that ignore the receiver)
//	e  method expression  K.M  called as a function
//	v  method value       p0.M  bound first, called later
//	c  constant operands  K(c0).M(K(c1), K(c2)) compiled per tuple
//
// Out = "<result kind>: r1 r2 ..", r = value | P:divide | P:index | P:slice ; compared with the Lean
// evaluation of the regenerated arm.  Oracle: native Go operators of harness/c01_kinds.go (instantiated per
// type by the Go compiler) and Go's string builtins.

import (
	"fmt"
	"math/rand"
	"reflect"
	"strconv"
	"strings"

	"github.com/cosmos72/gomacro/fast"
	"github.com/cosmos72/gomacro/go/etoken"
)

var c34methods = []string{"Equal", "Cmp", "Less", "Add", "Sub", "Mul", "Quo", "Neg", "Rem", "And", "AndNot", "Or", "Xor", "Not", "Lsh", "Rsh",
	"Real", "Imag", "Index", "Len", "Slice"}

// c34declared: the methods Go's operators give a meaning to on the kind (the property's domain)
func c34declared(k *bkind, m string) bool {
	switch m {
	case "Equal":
		return true
	case "Cmp", "Less":
		return k.cat != catBool && k.cat != catComplex
	case "Add":
		return k.cat != catBool
	case "Sub", "Mul", "Quo", "Neg":
		return k.cat != catBool && k.cat != catString
	case "Rem", "And", "AndNot", "Or", "Xor", "Lsh", "Rsh":
		return k.isInteger()
	case "Not":
		return k.isInteger() || k.cat == catBool
	case "Real", "Imag":
		return k.cat == catComplex
	case "Index", "Len", "Slice":
		return k.cat == catString
	}
	return false
}

// parameter kinds (receiver first) and result kind of a method at kind k
func c34sig(k *bkind, m string) (params []*bkind, ret *bkind) {
	switch m {
	case "Equal", "Less":
		return []*bkind{k, k}, bkinds["bool"]
	case "Cmp":
		return []*bkind{k, k}, bkinds["int"]
	case "Add", "Sub", "Mul", "Quo", "Rem", "And", "AndNot", "Or", "Xor":
		return []*bkind{k, k, k}, k
	case "Neg", "Not":
		return []*bkind{k, k}, k
	case "Lsh", "Rsh":
		return []*bkind{k, k, bkinds["uint8"]}, k
	case "Real", "Imag":
		if k.bits == 64 {
			return []*bkind{k}, bkinds["float32"]
		}
		return []*bkind{k}, bkinds["float64"]
	case "Index":
		return []*bkind{k, bkinds["int"]}, bkinds["uint8"]
	case "Len":
		return []*bkind{k}, bkinds["int"]
	case "Slice":
		return []*bkind{k, bkinds["int"], bkinds["int"]}, k
	}
	return nil, nil
}

// ignoresReceiver: the method takes all operands as arguments (receiver z unused)
func c34ignoresReceiver(m string) bool {
	switch m {
	case "Add", "Sub", "Mul", "Quo", "Rem", "And", "AndNot", "Or", "Xor", "Neg", "Not", "Lsh", "Rsh":
		return true
	}
	return false
}

var c34binOp = map[string]string{"Add": "ADD", "Sub": "SUB", "Mul": "MUL", "Quo": "QUO", "Rem": "REM", "And": "AND", "AndNot": "AND_NOT", "Or": "OR", "Xor": "XOR"}

func c34strIndex(s string, i int) (r string) {
	defer func() {
		if recover() != nil {
			r = "P:index"
		}
	}()
	return strconv.FormatUint(uint64(s[i]), 16)
}

func c34strSlice(s string, i, j int) (r string) {
	defer func() {
		if recover() != nil {
			r = "P:slice"
		}
	}()
	return bkinds["string"].enc(bval{s: s[i:j]})
}

// c34native: the Go operator / builtin the method name denotes, computed by compiled Go
func c34native(k *bkind, m string, a []bval) string {
	_, ret := c34sig(k, m)
	switch m {
	case "Equal":
		return ret.enc(boolVal(k.cmp("EQL", a[0], a[1])))
	case "Less":
		return ret.enc(boolVal(k.cmp("LSS", a[0], a[1])))
	case "Cmp":
		switch {
		case k.cmp("LSS", a[0], a[1]):
			return ret.enc(bval{u: ^uint64(0)})
		case k.cmp("GTR", a[0], a[1]):
			return ret.enc(bval{u: 1})
		}
		return ret.enc(bval{})
	case "Add", "Sub", "Mul", "Quo", "Rem", "And", "AndNot", "Or", "Xor":
		r, pc := k.bin(c34binOp[m], a[1], a[2])
		if pc != "" {
			return "P:" + pc
		}
		return ret.enc(r)
	case "Neg":
		return ret.enc(k.un("NEG", a[1]))
	case "Not":
		if k.cat == catBool {
			return ret.enc(k.un("NOT", a[1]))
		}
		return ret.enc(k.un("XOR", a[1]))
	case "Lsh", "Rsh":
		op := "SHL"
		if m == "Rsh" {
			op = "SHR"
		}
		r, pc := k.shift["uint8"](op, a[1], a[2])
		if pc != "" {
			return "P:" + pc
		}
		return ret.enc(r)
	case "Real":
		if k.bits == 64 {
			return ret.enc(bval{u: of32(real(c64(a[0])))})
		}
		return ret.enc(bval{u: of64(real(c128(a[0])))})
	case "Imag":
		if k.bits == 64 {
			return ret.enc(bval{u: of32(imag(c64(a[0])))})
		}
		return ret.enc(bval{u: of64(imag(c128(a[0])))})
	case "Len":
		return ret.enc(bval{u: uint64(len(a[0].s))})
	case "Index":
		return c34strIndex(a[0].s, int(a[1].u))
	case "Slice":
		return c34strSlice(a[0].s, int(a[1].u), int(a[2].u))
	}
	return "?"
}

// ---- the real interpreter ----

var c34ir *fast.Interp

func c34interp() *fast.Interp {
	etoken.GENERICS = etoken.GENERICS_V2_CTI
	if c34ir == nil {
		c34ir = newQuietInterp()
	}
	return c34ir
}

// c34reset discards the interpreter and every compiled function.  A panic that unwinds out of an
// interpreted function called from compiled code (reflect.Value.Call) can leave gomacro's pooled
// call frames in a state where LATER calls of unrelated functions fail ("reflect.Set: value of type
// []int is not assignable to type *[1]int"); that is not what C34 is about, so after an unexpected
// panic the next operation starts from a fresh interpreter.
func c34reset() {
	c34ir = nil
	c34cache = map[string]*c34fn{}
}

type c34fn struct {
	fn      reflect.Value
	errText string
	// how the call is made
	dropRecv bool // route t: the receiver operand is not passed
	curried  bool // route v: fn(recv) returns the bound method
}

var c34cache = map[string]*c34fn{}
var c34seq int

func c34evalFn(src string) (reflect.Value, string) {
	vals, errText := evalSrc(c34interp(), src)
	if errText != "" {
		return reflect.Value{}, errText
	}
	if len(vals) != 1 || !vals[0].IsValid() || vals[0].Kind() != reflect.Func {
		return reflect.Value{}, "not a function: " + showVals(vals, true)
	}
	return vals[0], ""
}

func c34build(k *bkind, m, route string) *c34fn {
	key := k.name + " " + m + " " + route
	if f, ok := c34cache[key]; ok {
		return f
	}
	f := &c34fn{}
	c34cache[key] = f
	params, ret := c34sig(k, m)
	c34seq++
	name := fmt.Sprintf("c34f%d", c34seq)
	var ps, as []string
	for i, p := range params {
		ps = append(ps, fmt.Sprintf("p%d %s", i, p.name))
		if i > 0 {
			as = append(as, fmt.Sprintf("p%d", i))
		}
	}
	call := "p0." + m + "(" + strings.Join(as, ", ") + ")"
	switch route {
	case "d":
		f.fn, f.errText = c34evalFn("func " + name + "(" + strings.Join(ps, ", ") + ") " + ret.name + " { return " + call + " }; " + name)
	case "g", "t":
		// type parameters: T = k; the other parameter/result types are written out, except the
		// result of Real/Imag, which is a second type parameter
		var gps []string
		for i, p := range params {
			t := p.name
			if p == k {
				t = "T"
			}
			if route == "t" && i == 0 {
				continue
			}
			gps = append(gps, fmt.Sprintf("p%d %s", i, t))
		}
		rt := ret.name
		targs, inst := "T", k.name
		if ret == k {
			rt = "T"
		} else if m == "Real" || m == "Imag" {
			rt, targs, inst = "R", "T, R", k.name+", "+ret.name
		}
		if route == "t" {
			call = "T()." + m + "(" + strings.Join(as, ", ") + ")"
			f.dropRecv = true
		}
		f.fn, f.errText = c34evalFn("func " + name + "#[" + targs + "](" + strings.Join(gps, ", ") + ") " + rt + " { return " + call + " }; " + name + "#[" + inst + "]")
	case "e":
		f.fn, f.errText = c34evalFn(k.name + "." + m)
	case "v":
		var rest, restT []string
		for i, p := range params[1:] {
			rest = append(rest, fmt.Sprintf("p%d %s", i+1, p.name))
			restT = append(restT, p.name)
		}
		f.curried = true
		f.fn, f.errText = c34evalFn("func " + name + "(p0 " + k.name + ") func(" + strings.Join(restT, ", ") + ") " + ret.name + " { return p0." + m + " }; " + name)
	case "c":
		// compiled per tuple in c34call
	default:
		f.errText = "bad route " + route
	}
	return f
}

func c34panicClass(s string) string {
	switch {
	case strings.Contains(s, "divide by zero"):
		return "P:divide"
	case strings.Contains(s, "negative shift"):
		return "P:negShift"
	case strings.Contains(s, "slice bounds out of range"), strings.Contains(s, "slice index out of bounds"):
		return "P:slice"
	case strings.Contains(s, "index out of range"):
		return "P:index"
	case strings.Contains(s, "assignment to entry in nil map"):
		return "P:nilmap"
	case strings.Contains(s, "closed channel"), strings.Contains(s, "close of nil channel"):
		return "P:closed"
	}
	return "P:other:" + strings.ReplaceAll(oneLine(s), " ", "_")
}

func c34callRV(fn reflect.Value, args []reflect.Value) (out []reflect.Value, panicText string) {
	defer func() {
		if e := recover(); e != nil {
			out, panicText = nil, fmt.Sprint(e)
			if panicText == "" {
				panicText = "panic"
			}
		}
	}()
	return fn.Call(args), ""
}

// c34call runs the method on one tuple through the real interpreter; returns the canonical result
// ("E:<text>" when the source does not compile)
func c34call(k *bkind, m, route string, f *c34fn, a []bval) string {
	params, ret := c34sig(k, m)
	var res reflect.Value
	if route == "c" {
		var lits []string
		for i, p := range params {
			l := p.lit(a[i])
			if l == "" {
				return "skip"
			}
			lits = append(lits, p.name+"("+l+")")
		}
		vals, errText := evalSrc(c34interp(), "("+lits[0]+")."+m+"("+strings.Join(lits[1:], ", ")+")")
		if errText != "" {
			if pc := c34panicClass(errText); !strings.HasPrefix(pc, "P:other") {
				return pc
			}
			return "E:" + errText
		}
		if len(vals) != 1 {
			return "E:values:" + showVals(vals, true)
		}
		res = vals[0]
	} else {
		if f.errText != "" {
			return "E:" + f.errText
		}
		var args []reflect.Value
		for i, p := range params {
			args = append(args, p.toRV(a[i]))
		}
		fn := f.fn
		if f.dropRecv {
			args = args[1:]
		}
		if f.curried {
			out, pt := c34callRV(fn, args[:1])
			if pt != "" {
				return c34panicClass(pt)
			}
			fn, args = out[0], args[1:]
		}
		out, pt := c34callRV(fn, args)
		if pt != "" {
			return c34panicClass(pt)
		}
		if len(out) != 1 {
			return fmt.Sprintf("E:%d results", len(out))
		}
		res = out[0]
	}
	if !res.IsValid() {
		return "E:invalid result"
	}
	if res.Type() != ret.rt {
		return "T:" + res.Type().String()
	}
	return ret.enc(ret.ofRV(res))
}

func c34decTuple(params []*bkind, t string) ([]bval, error) {
	fs := strings.Split(t, ",")
	if len(fs) != len(params) {
		return nil, fmt.Errorf("tuple %q: %d values for %d parameters", t, len(fs), len(params))
	}
	out := make([]bval, len(fs))
	for i, s := range fs {
		v, err := params[i].dec(s)
		if err != nil {
			return nil, err
		}
		out[i] = v
	}
	return out, nil
}

func c34execBasic(f []string) Result {
	if len(f) < 3 {
		return Result{Out: "bad-op"}
	}
	k, m, route := bkinds[f[0]], f[1], f[2]
	if k == nil {
		return Result{Out: "bad-op"}
	}
	params, ret := c34sig(k, m)
	if params == nil {
		return Result{Out: "bad-op"}
	}
	fn := c34build(k, m, route)
	keyBase := "basic-" + k.name + "-" + m + "-" + route
	var outs []string
	res := Result{Tags: []string{"basic", "kind:" + k.name, "meth:" + m, "route:" + route}}
	tagged := map[string]bool{}
	for _, t := range f[3:] {
		a, err := c34decTuple(params, t)
		if err != nil {
			return Result{Out: "bad-op"}
		}
		got := c34call(k, m, route, fn, a)
		want := c34native(k, m, a)
		if got == "skip" {
			got = want // no constant with this value exists: not evaluated
			if !tagged["const-skip"] {
				tagged["const-skip"] = true
				res.Tags = append(res.Tags, "const-skip")
			}
		} else {
			res.Nontrivial = true
		}
		if strings.HasPrefix(want, "P:") && !tagged[want] {
			tagged[want] = true
			res.Tags = append(res.Tags, want)
		}
		if got != want && res.Viol == "" {
			class := "value"
			switch {
			case strings.HasPrefix(got, "E:"):
				class = "compile"
			case strings.HasPrefix(got, "T:"):
				class = "type"
			case strings.HasPrefix(got, "P:") || strings.HasPrefix(want, "P:"):
				class = "panic"
			}
			res.Key = keyBase + "-" + class
			res.Viol = fmt.Sprintf("%s.%s route %s on (%s): gomacro %s, Go %s", k.name, m, route, t, got, want)
		}
		if strings.HasPrefix(got, "E:") {
			got = "E"
		}
		outs = append(outs, got)
	}
	res.Out = ret.name + ": " + strings.Join(outs, " ")
	return res
}

// c34exec: an operation that ends in an UNEXPECTED panic or compile error is repeated once on a fresh
// interpreter (see c34reset) and the second outcome is the one reported; the interpreter is then
// discarded again so that the failure cannot cascade into later operations.
func c34exec(line string) Result {
	res := c34exec1(line)
	if res.Viol != "" && (strings.Contains(res.Viol, "gomacro P:other") || strings.Contains(res.Viol, "gomacro E:")) {
		c34reset()
		res = c34exec1(line)
		if res.Viol != "" {
			c34reset()
		}
	}
	return res
}

func c34exec1(line string) Result {
	f := strings.Fields(line)
	if len(f) == 0 {
		return Result{Out: "bad-op"}
	}
	switch f[0] {
	case "b":
		return c34execBasic(f[1:])
	case "c":
		return c34execContainer(f[1:])
	case "n":
		return c34execNeg(f[1:])
	}
	return Result{Out: "bad-op"}
}

// c34execNeg: "n <kind> <Method>" — a method the table does NOT declare for the kind (Go defines no such operator
// on it: bool + bool, float % float, complex < complex, string - string, ...) must not compile.
func c34execNeg(f []string) Result {
	if len(f) != 2 || bkinds[f[0]] == nil {
		return Result{Out: "bad-op"}
	}
	k, m := bkinds[f[0]], f[1]
	fn := c34build(k, m, "d")
	res := Result{Out: "rejected", Nontrivial: true, Tags: []string{"neg", "kind:" + k.name, "meth:" + m}}
	if fn.errText == "" {
		res.Out = "accepted"
		if !c34declared(k, m) {
			res.Key = "neg-" + k.name + "-" + m + "-accepted"
			res.Viol = k.name + "." + m + " compiles although Go defines no such operator on " + k.name
		}
	} else if c34declared(k, m) {
		res.Key = "neg-" + k.name + "-" + m + "-rejected"
		res.Viol = k.name + "." + m + " does not compile: " + fn.errText
	}
	return res
}

// ---- generator ----

func c34core(k *bkind) []bval {
	b := boundary(k)
	if len(b) <= 16 {
		return b
	}
	switch k.cat {
	case catInt, catUint:
		w := uint(k.bits)
		var min, max uint64
		if k.cat == catInt {
			min = uint64(1) << (w - 1)
			max = min - 1
		} else {
			max = maskBits(^uint64(0), k.bits)
		}
		us := []uint64{0, 1, maskBits(^uint64(0), k.bits), 2, 3, maskBits(^uint64(1), k.bits), min, max, maskBits(min+1, k.bits), max - 1, 7, 10, uint64(1) << (w / 2)}
		var out []bval
		for _, u := range us {
			out = append(out, bval{u: u})
		}
		return out
	}
	// floats/complex: every 3rd boundary value, always including the specials at the front
	var out []bval
	for i, v := range b {
		if i < 8 || i%3 == 0 {
			out = append(out, v)
		}
	}
	return out
}

func c34shiftCounts(w int) []bval {
	var out []bval
	seen := map[int]bool{}
	for _, c := range []int{0, 1, 2, 3, 7, 8, 9, w - 1, w, w + 1, 15, 16, 17, 31, 32, 33, 63, 64, 65, 127, 128, 129, 200, 254, 255} {
		if c >= 0 && c <= 255 && !seen[c] {
			seen[c] = true
			out = append(out, bval{u: uint64(c)})
		}
	}
	return out
}

type c34gen struct {
	r    *rand.Rand
	tier string
	emit func(string)
}

func (g *c34gen) pick(vs []bval) bval { return vs[g.r.Intn(len(vs))] }

// tuples for one (kind, method): boundary x core, core x boundary, random; receivers that are ignored by
// the method are drawn independently (so that an arm using z instead of a or b is seen)
func (g *c34gen) tuples(k *bkind, m string, budget int) []string {
	params, _ := c34sig(k, m)
	B, C := boundary(k), c34core(k)
	var out []string
	seen := map[string]bool{}
	add := func(vs ...bval) {
		var fs []string
		for i, v := range vs {
			fs = append(fs, params[i].encIn(v))
		}
		t := strings.Join(fs, ",")
		if !seen[t] {
			seen[t] = true
			out = append(out, t)
		}
	}
	rv := func() bval {
		if g.r.Intn(3) == 0 {
			return g.pick(B)
		}
		return randomVal(g.r, k)
	}
	nrand := budget / 4
	switch m {
	case "Equal", "Less", "Cmp":
		for _, x := range B {
			for _, y := range C {
				add(x, y)
				add(y, x)
			}
			add(x, x)
		}
		for i := 0; i < nrand; i++ {
			x := rv()
			add(x, rv())
			add(x, x)
		}
	case "Add", "Sub", "Mul", "Quo", "Rem", "And", "AndNot", "Or", "Xor":
		for _, x := range B {
			for _, y := range C {
				add(rv(), x, y)
				add(rv(), y, x)
			}
		}
		for i := 0; i < nrand; i++ {
			add(rv(), rv(), rv())
		}
	case "Neg", "Not":
		for _, x := range B {
			add(rv(), x)
		}
		for i := 0; i < nrand; i++ {
			add(rv(), rv())
		}
	case "Lsh", "Rsh":
		cs := c34shiftCounts(k.bits)
		for _, x := range B {
			for _, c := range cs {
				add(rv(), x, c)
			}
		}
		for i := 0; i < nrand; i++ {
			add(rv(), rv(), bval{u: uint64(g.r.Intn(256))})
		}
	case "Real", "Imag", "Len":
		for _, x := range B {
			add(x)
		}
		for i := 0; i < nrand; i++ {
			add(rv())
		}
	case "Index", "Slice":
		for _, x := range B {
			n := len(x.s)
			var is []bval
			for _, i := range []int{-1, 0, 1, 2, n - 1, n, n + 1, -1 << 63, 1<<63 - 1, n / 2} {
				is = append(is, bval{u: uint64(i)})
			}
			for _, i := range is {
				if m == "Index" {
					add(x, i)
					continue
				}
				for _, j := range is {
					add(x, i, j)
				}
			}
		}
		for i := 0; i < nrand; i++ {
			x := rv()
			a, b := bval{u: uint64(g.r.Intn(8) - 1)}, bval{u: uint64(g.r.Intn(8) - 1)}
			if m == "Index" {
				add(x, a)
			} else {
				add(x, a, b)
			}
		}
	}
	// trim to the budget keeping a deterministic, seed-dependent sample (the head — the systematic part — first)
	if len(out) > budget {
		head := out[:budget/2]
		tail := out[budget/2:]
		g.r.Shuffle(len(tail), func(i, j int) { tail[i], tail[j] = tail[j], tail[i] })
		out = append(append([]string(nil), head...), tail[:budget-budget/2]...)
	}
	return out
}

func (g *c34gen) basic() {
	budget := 260
	cbudget := 10
	if g.tier == "thorough" {
		budget, cbudget = 4000, 120
	}
	for _, kn := range bkindNames {
		k := bkinds[kn]
		for _, m := range c34methods {
			if !c34declared(k, m) {
				continue
			}
			routes := []string{"d", "g", "e", "v"}
			if c34ignoresReceiver(m) {
				routes = append(routes, "t")
			}
			ts := g.tuples(k, m, budget)
			for ri, route := range routes {
				// every route sees the systematic head; the tail is split between the routes
				var part []string
				for i, t := range ts {
					if i < budget/4 || i%len(routes) == ri {
						part = append(part, t)
					}
				}
				for len(part) > 0 {
					n := len(part)
					if n > 120 {
						n = 120
					}
					g.emit("b " + k.name + " " + m + " " + route + " " + strings.Join(part[:n], " "))
					part = part[n:]
				}
			}
			// constants: a few tuples, compiled one by one
			cs := g.tuples(k, m, cbudget*4)
			g.r.Shuffle(len(cs), func(i, j int) { cs[i], cs[j] = cs[j], cs[i] })
			if len(cs) > cbudget {
				cs = cs[:cbudget]
			}
			if len(cs) > 0 {
				g.emit("b " + k.name + " " + m + " c " + strings.Join(cs, " "))
			}
		}
	}
}

func c34gen1(r *rand.Rand, tier string, emit func(string)) {
	g := &c34gen{r: r, tier: tier, emit: emit}
	for _, kn := range bkindNames {
		for _, m := range c34methods {
			if !c34declared(bkinds[kn], m) {
				emit("n " + kn + " " + m)
			}
		}
	}
	g.basic()
	g.containers()
}

func init() {
	register(&Prop{
		ID: "C34",
		Rule: "basic: every (kind, method) of the CTI method table x route (direct, generic, zero receiver, method expression, method value, constants) " +
			"on boundary x core + random operand tuples (ignored receivers drawn independently), vs native Go operators; containers: random slices/arrays/" +
			"maps/chans/byte slices x every method, vs Go builtins; non-trivial = compiled and called; distinct = distinct op line",
		Gen:        c34gen1,
		Exec:       c34exec,
		Exhaustive: func(string) bool { return false },
	})
}
