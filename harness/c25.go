package main

// C25: printing a syntax tree with the forked printer and reparsing the text yields the same tree, and printing the
// reparsed tree yields the same text.
//
// Ops (Lean side: lean/Drv/C25.lean)
//   pp TREE            expression tree in Polish notation (b<op> L R | u<op> X | p X | s X a<n> | i X I | c F A | a<n>):
//                      build the go/ast tree (no ParenExpr except where `p`), print it with the REAL printer, scan the
//                      text into tokens, reparse it with the fork's parser; Out = "<tokens> => <tree>".
//                      Lean: print / normalize of Model/PrintPrec.lean.
//   file ROOT REL      a real file      } reference parse -> fork printer -> reparse (go/parser and fork) -> compare ->
//   src HEX            generated file   } print again -> compare texts; and per declaration with the fork's parser
//   ext HEX            source with the interpreter's extensions (quote, macro, ~func, ...): fork parser only
//   tree NAME          a tree built programmatically (statement level, types in expressions, ...), see c25trees
//                      Lean answers "same" to these four.

import (
	"bytes"
	"fmt"
	"go/ast"
	stdparser "go/parser"
	goscanner "go/scanner"
	"go/token"
	"math/rand"
	"sort"
	"strconv"
	"strings"

	"github.com/cosmos72/gomacro/base/output"
	"github.com/cosmos72/gomacro/go/etoken"
	"github.com/cosmos72/gomacro/go/parser"
	"github.com/cosmos72/gomacro/go/printer"
)

func init() {
	register(&Prop{
		ID:         "C25",
		Rule:       "pp: all expression trees of depth <= 2 over one operator per precedence level and every prefix operator, every pair of binary operators in both nestings, every prefix operator against every binary operator, random deeper trees; file/src: sampled (quick) or all (thorough) files of GOROOT/src and the repository and grammar-generated files; ext: sources with quote/macro forms; tree: catalogue of programmatically built trees; non-trivial = a tree with >= 2 operators or a file with >= 1 declaration round-tripped",
		Gen:        c25gen,
		Exec:       c25exec,
		Exhaustive: func(string) bool { return false },
	})
	extractors["C25"] = c25extract
}

var c25config = printer.Config{Mode: printer.UseSpaces | printer.TabIndent, Tabwidth: 8} // as base/output/output.go

func c25print(fset *token.FileSet, node interface{}) (text string, err error) {
	defer func() {
		if e := recover(); e != nil {
			err = fmt.Errorf("printer panics: %v", e)
		}
	}()
	var buf bytes.Buffer
	err = c25config.Fprint(&buf, fset, node)
	return buf.String(), err
}

// ---------------------------------------------------------------- pp: expression trees

type c25tree struct {
	k    byte // a b u p s i c
	n    int  // atom number / operator
	l, r *c25tree
}

func c25parsePolish(ws []string, i *int) *c25tree {
	if *i >= len(ws) {
		return nil
	}
	w := ws[*i]
	*i++
	num := func(s string) int { n, err := strconv.Atoi(s); if err != nil { return -1 }; return n }
	switch {
	case w == "p":
		x := c25parsePolish(ws, i)
		if x == nil {
			return nil
		}
		return &c25tree{k: 'p', l: x}
	case w == "s":
		x := c25parsePolish(ws, i)
		y := c25parsePolish(ws, i)
		if x == nil || y == nil || y.k != 'a' {
			return nil
		}
		return &c25tree{k: 's', l: x, n: y.n}
	case w == "i" || w == "c":
		x := c25parsePolish(ws, i)
		y := c25parsePolish(ws, i)
		if x == nil || y == nil {
			return nil
		}
		return &c25tree{k: w[0], l: x, r: y}
	case strings.HasPrefix(w, "a") && num(w[1:]) >= 0:
		return &c25tree{k: 'a', n: num(w[1:])}
	case strings.HasPrefix(w, "b") && num(w[1:]) >= 0:
		x := c25parsePolish(ws, i)
		y := c25parsePolish(ws, i)
		if x == nil || y == nil {
			return nil
		}
		return &c25tree{k: 'b', n: num(w[1:]), l: x, r: y}
	case strings.HasPrefix(w, "u") && num(w[1:]) >= 0:
		x := c25parsePolish(ws, i)
		if x == nil {
			return nil
		}
		return &c25tree{k: 'u', n: num(w[1:]), l: x}
	}
	return nil
}

func (t *c25tree) ast() ast.Expr {
	switch t.k {
	case 'a':
		return &ast.Ident{Name: fmt.Sprintf("a%d", t.n)}
	case 'b':
		return &ast.BinaryExpr{X: t.l.ast(), Op: token.Token(t.n), Y: t.r.ast()}
	case 'u':
		if token.Token(t.n) == token.MUL {
			return &ast.StarExpr{X: t.l.ast()}
		}
		return &ast.UnaryExpr{Op: token.Token(t.n), X: t.l.ast()}
	case 'p':
		return &ast.ParenExpr{X: t.l.ast()}
	case 's':
		return &ast.SelectorExpr{X: t.l.ast(), Sel: &ast.Ident{Name: fmt.Sprintf("a%d", t.n)}}
	case 'i':
		return &ast.IndexExpr{X: t.l.ast(), Index: t.r.ast()}
	case 'c':
		return &ast.CallExpr{Fun: t.l.ast(), Args: []ast.Expr{t.r.ast()}}
	}
	return nil
}

func (t *c25tree) nops() int {
	if t == nil {
		return 0
	}
	n := t.l.nops() + t.r.nops()
	if t.k == 'b' || t.k == 'u' {
		n++
	}
	return n
}

// c25unparen: s-expression with every ParenExpr removed (the oracle's notion of "same tree" for constructed trees:
// the printer may only ADD or DROP parentheses)
func c25unparen(e ast.Expr) string {
	switch e := e.(type) {
	case *ast.Ident:
		return e.Name
	case *ast.BinaryExpr:
		return fmt.Sprintf("(b%d %s %s)", int(e.Op), c25unparen(e.X), c25unparen(e.Y))
	case *ast.UnaryExpr:
		return fmt.Sprintf("(u%d %s)", int(e.Op), c25unparen(e.X))
	case *ast.StarExpr:
		return fmt.Sprintf("(u%d %s)", int(token.MUL), c25unparen(e.X))
	case *ast.ParenExpr:
		return c25unparen(e.X)
	case *ast.SelectorExpr:
		return "(s " + c25unparen(e.X) + " " + e.Sel.Name + ")"
	case *ast.IndexExpr:
		return "(i " + c25unparen(e.X) + " " + c25unparen(e.Index) + ")"
	case *ast.CallExpr:
		if len(e.Args) == 1 {
			return "(c " + c25unparen(e.Fun) + " " + c25unparen(e.Args[0]) + ")"
		}
	}
	return fmt.Sprintf("?%T", e)
}

// tokens of an expression text in the notation of the `bin` ops
func c25tokens(text string) string {
	fset := token.NewFileSet()
	f := fset.AddFile("", -1, len(text))
	var s goscanner.Scanner
	s.Init(f, []byte(text), func(token.Position, string) {}, 0)
	var out []string
	for {
		_, tok, lit := s.Scan()
		switch tok {
		case token.EOF:
			return strings.Join(out, " ")
		case token.SEMICOLON:
			if lit == "\n" {
				continue
			}
			out = append(out, ";")
		case token.IDENT:
			out = append(out, lit)
		case token.LPAREN:
			out = append(out, "(")
		case token.RPAREN:
			out = append(out, ")")
		case token.LBRACK:
			out = append(out, "[")
		case token.RBRACK:
			out = append(out, "]")
		case token.PERIOD:
			out = append(out, ".")
		default:
			out = append(out, fmt.Sprintf("o%d", int(tok)))
		}
	}
}

func c25forkParseExpr(text string) (ast.Expr, string) {
	fr := c24forkParse("e.go", []byte("_ = "+text), 0)
	if fr.pan != "" {
		return nil, "panic: " + fr.pan
	}
	if fr.err != nil {
		_, msg, _ := c24firstErr(fr.err)
		return nil, msg
	}
	if len(fr.nodes) == 1 {
		if as, ok := fr.nodes[0].(*ast.AssignStmt); ok && len(as.Rhs) == 1 && len(as.Lhs) == 1 {
			return as.Rhs[0], ""
		}
	}
	return nil, "not a single expression"
}

func c25execPP(ws []string) Result {
	i := 0
	t := c25parsePolish(ws, &i)
	if t == nil || i != len(ws) {
		return Result{Out: "bad-op"}
	}
	res := Result{Tags: []string{"pp"}, Nontrivial: t.nops() >= 2}
	orig := t.ast()
	text, err := c25print(token.NewFileSet(), orig)
	if err != nil {
		res.Out = "print-error"
		res.Viol, res.Key = "printer fails: "+err.Error(), "pp-print-error"
		return res
	}
	toks := c25tokens(text)
	// base/output: the interpreter's pretty-printing of nodes (Stringer, %v) must be this printer's text
	var st output.Stringer
	if shown := st.Sprintf("%v", orig); shown != text {
		res.Out = toks
		res.Viol, res.Key = fmt.Sprintf("output.Stringer prints %q, the printer %q", shown, text), "stringer-differs"
		return res
	}
	re, msg := c25forkParseExpr(text)
	if re == nil {
		res.Out = toks + " => none"
		res.Viol, res.Key = fmt.Sprintf("printed text %q does not parse back: %s", text, msg), "pp-reparse-error"
		return res
	}
	res.Out = toks + " => " + c24sexpr(re)
	switch {
	case c25unparen(re) != c25unparen(orig):
		res.Viol, res.Key = fmt.Sprintf("tree %s printed as %q parses back to %s", c24sexpr(orig), text, c24sexpr(re)), "pp-shape"
	default:
		if se, err := stdparser.ParseExpr(text); err != nil || c24sexpr(se) != c24sexpr(re) {
			res.Viol, res.Key = fmt.Sprintf("printed text %q: go/parser and the fork disagree", text), "pp-std-vs-fork"
		} else if text2, err := c25print(token.NewFileSet(), re); err != nil || text2 != text {
			res.Viol, res.Key = fmt.Sprintf("printing the reparsed tree gives %q, first print %q", text2, text), "pp-reprint-text:tokens"
			if err == nil && c25tokens(text2) == toks {
				res.Key = "pp-reprint-text:layout-only"
			}
		}
	}
	if strings.Contains(text, "(") {
		res.Tags = append(res.Tags, "pp:has-parens")
	}
	return res
}

// ---------------------------------------------------------------- files

// comment texts with white space collapsed (the printer re-indents comments)
func c25commentTexts(f *ast.File) []string {
	var out []string
	for _, g := range f.Comments {
		for _, c := range g.List {
			out = append(out, strings.Join(strings.Fields(c.Text), " "))
		}
	}
	return out
}

type c25verdict struct {
	viol, key string
	tags      []string
	decls     int
}

func (v *c25verdict) add(key, desc string) {
	v.tags = append(v.tags, "diff:"+key)
	if v.viol == "" {
		v.viol, v.key = desc, key
	}
}

// c25roundtripFile: reference parse (with comments) -> fork printer -> reparse -> compare -> print again.
func c25roundtripFile(name string, src []byte) (v c25verdict) {
	fset := token.NewFileSet()
	f1, err := stdparser.ParseFile(fset, name, src, stdparser.ParseComments|stdparser.SkipObjectResolution)
	if err != nil {
		v.tags = append(v.tags, "skip:does-not-parse")
		return
	}
	if c24isExt(src) {
		v.tags = append(v.tags, "skip:lexical-extension")
		return
	}
	if g := c24usesGenerics(f1); g != "" {
		v.tags = append(v.tags, "skip:generic:"+g)
		return
	}
	// `func () f() {}` is accepted by go/parser (the type checker rejects it); an empty receiver list is the
	// fork's marker of a macro declaration, the fork's own parser never builds it for a function (C24 finding
	// nil:FuncDecl.Recv).  Such a tree is not a tree "obtained by parsing valid Go".
	for _, d := range f1.Decls {
		if fd, ok := d.(*ast.FuncDecl); ok && fd.Recv != nil && len(fd.Recv.List) == 0 {
			v.tags = append(v.tags, "skip:empty-receiver-list")
			return
		}
	}
	text1, err := c25print(fset, f1)
	if err != nil {
		v.add("print-error", "printer fails: "+err.Error())
		return
	}
	fset2 := token.NewFileSet()
	f2, err := stdparser.ParseFile(fset2, name, text1, stdparser.ParseComments|stdparser.SkipObjectResolution)
	if err != nil {
		v.add("reparse-error:"+c24slug(firstMsg(err)), fmt.Sprintf("printed file does not parse: %v", err))
		return
	}
	if f1.Name.Name != f2.Name.Name {
		v.add("reparse:package-name", "package name changed")
	}
	if len(f1.Decls) != len(f2.Decls) {
		v.add("reparse:decl-count", fmt.Sprintf("%d declarations printed, %d parsed back", len(f1.Decls), len(f2.Decls)))
		return
	}
	for i, d := range f1.Decls {
		c25compareCanon(&v, "reparse", d, f2.Decls[i], fmt.Sprintf("declaration %d (%s at %s)", i, c24declName(d), fset.Position(d.Pos())))
		v.decls++
	}
	c1, c2 := c25commentTexts(f1), c25commentTexts(f2)
	if len(c1) != len(c2) {
		v.add("comments:count", fmt.Sprintf("%d comments in the source, %d after printing", len(c1), len(c2)))
	} else {
		for i := range c1 {
			if c1[i] != c2[i] {
				v.add("comments:text", fmt.Sprintf("comment %d: %q became %q", i, c24trunc(c1[i], 80), c24trunc(c2[i], 80)))
				break
			}
		}
	}
	// (that the fork's parser reads the printed text like go/parser is C24's business)
	if v.viol != "" {
		return
	}
	// f2 was canonicalised in place: parse the printed text again for the second print
	fset2 = token.NewFileSet()
	f2, err = stdparser.ParseFile(fset2, name, text1, stdparser.ParseComments|stdparser.SkipObjectResolution)
	if err != nil {
		return
	}
	text2, err := c25print(fset2, f2)
	if err != nil {
		v.add("print-error", "second print fails: "+err.Error())
		return
	}
	if text2 != text1 {
		a, b := c25firstDiffLine(text1, text2)
		v.add(c25reprintKey("reprint-text", text1, text2), fmt.Sprintf("printing the reparsed file changes the text: %q -> %q", a, b))
	}
	return
}

// layout-only: the two texts have the same tokens and comments, only white space differs
func c25reprintKey(prefix, t1, t2 string) string {
	if c25allTokens(t1) == c25allTokens(t2) {
		return prefix + ":layout-only"
	}
	return prefix + ":tokens"
}

func c25allTokens(text string) string {
	fset := token.NewFileSet()
	f := fset.AddFile("", -1, len(text))
	var s goscanner.Scanner
	s.Init(f, []byte(text), func(token.Position, string) {}, goscanner.ScanComments)
	var sb strings.Builder
	for {
		_, tok, lit := s.Scan()
		if tok == token.EOF {
			return sb.String()
		}
		if tok == token.SEMICOLON && lit == "\n" {
			continue
		}
		sb.WriteString(tok.String())
		sb.WriteByte(' ')
		sb.WriteString(strings.Join(strings.Fields(lit), " "))
		sb.WriteByte('\n')
	}
}

// c25compareCanon: what the printer deliberately simplifies is reported by rule (Keys gofmt:* / printer:*), then
// both trees are canonicalised and must be equal (Keys <prefix>:<kind>:<Struct.Field>).
func c25compareCanon(v *c25verdict, prefix string, want, got ast.Node, where string) {
	c25compareCanon2(v, prefix, want, got, where, false)
}

// built: the wanted tree was built programmatically: it has no positions, and the parentheses the printer adds are
// what it is supposed to add (only the canonical shapes are compared)
func c25compareCanon2(v *c25verdict, prefix string, want, got ast.Node, where string, built bool) {
	s1 := c25canon(want)
	s2 := c25canon(got)
	if built {
		for _, df := range c24nodeDiffNoPos(want, got, 3) {
			v.add(prefix+":"+df.key, where+": "+df.desc)
		}
		return
	}
	if s2.parens < s1.parens {
		v.add("gofmt:parens-removed", fmt.Sprintf("%s: %d ParenExpr in the tree, %d after print+parse", where, s1.parens, s2.parens))
	}
	if s2.parens > s1.parens {
		v.add("printer:parens-added", fmt.Sprintf("%s: %d ParenExpr in the tree, %d after print+parse", where, s1.parens, s2.parens))
	}
	if s2.emptyStmts != s1.emptyStmts {
		v.add("gofmt:empty-stmt-dropped", fmt.Sprintf("%s: %d empty statements in the tree, %d after print+parse", where, s1.emptyStmts, s2.emptyStmts))
	}
	if s2.emptyResults != s1.emptyResults {
		v.add("gofmt:empty-result-list-dropped", fmt.Sprintf("%s: %d empty result lists `()`, %d after print+parse", where, s1.emptyResults, s2.emptyResults))
	}
	if s2.resultParens != s1.resultParens {
		v.add("gofmt:result-parens-removed", fmt.Sprintf("%s: %d parenthesised single results, %d after print+parse", where, s1.resultParens, s2.resultParens))
	}
	diffs, _ := c24nodeDiffShape(want, got, 3)
	seen := map[string]bool{}
	for _, df := range diffs {
		if !seen[df.key] {
			seen[df.key] = true
			v.add(prefix+":"+df.key, where+": "+df.desc)
		}
	}
}

func firstMsg(err error) string {
	_, msg, _ := c24firstErr(err)
	return msg
}

func c25firstDiffLine(a, b string) (string, string) {
	la, lb := strings.Split(a, "\n"), strings.Split(b, "\n")
	for i := 0; i < len(la) || i < len(lb); i++ {
		x, y := "<eof>", "<eof>"
		if i < len(la) {
			x = la[i]
		}
		if i < len(lb) {
			y = lb[i]
		}
		if x != y {
			return c24trunc(x, 100), c24trunc(y, 100)
		}
	}
	return "", ""
}

// c25roundtripNodes: the fork's parser -> every returned node printed alone -> reparsed by the fork (in the same
// context: after a package clause, at top level) -> compared -> printed again.  Works for extension sources.
func c25roundtripNodes(name string, src []byte, onlyExt bool) (v c25verdict) {
	fr := c24forkParse(name, src, parser.ParseComments)
	if fr.pan != "" || fr.err != nil {
		v.tags = append(v.tags, "skip:fork-does-not-parse")
		return
	}
	for i, n := range fr.nodes {
		text1, err := c25print(&fr.fset.FileSet, n)
		if err != nil {
			v.add("node-print-error", fmt.Sprintf("node %d (%T): %v", i, n, err))
			continue
		}
		fr2 := c24forkParse(name, []byte(text1), parser.ParseComments)
		if fr2.pan != "" || fr2.err != nil {
			v.add("node-reparse-error:"+c24slug(firstMsg(fr2.err)+fr2.pan), fmt.Sprintf("node %d (%T) printed as %q does not parse: %v %s", i, n, c24trunc(text1, 200), fr2.err, fr2.pan))
			continue
		}
		if len(fr2.nodes) != 1 {
			v.add("node-reparse:count", fmt.Sprintf("node %d (%T) printed as %q parses to %d nodes", i, n, c24trunc(text1, 200), len(fr2.nodes)))
			continue
		}
		before := len(v.tags)
		c25compareCanon(&v, "node-reparse", n, fr2.nodes[0], fmt.Sprintf("node %d (%T) printed as %q", i, n, c24trunc(text1, 160)))
		diffs := 0
		for _, t := range v.tags[before:] {
			if strings.HasPrefix(t, "diff:node-reparse:") {
				diffs++
			}
		}
		if diffs == 0 {
			// (the reparsed node was canonicalised in place: reparse once more for the second print)
			fr3 := c24forkParse(name, []byte(text1), parser.ParseComments)
			if fr3.err == nil && fr3.pan == "" && len(fr3.nodes) == 1 {
				text2, err := c25print(&fr3.fset.FileSet, fr3.nodes[0])
				if err != nil || text2 != text1 {
					a, b := c25firstDiffLine(text1, text2)
					v.add(c25reprintKey("node-reprint-text", text1, text2), fmt.Sprintf("node %d (%T): %q -> %q", i, n, a, b))
				}
			}
		}
		v.decls++
	}
	return
}

// ---------------------------------------------------------------- extension sources

var c25extSources = []string{
	"~quote{x + y}", "~quasiquote{x + ~unquote{y}}", "~'{a; b}", "~`{f(~,x, ~,@ys)}", "macro m(a, b ast.Node) ast.Node { return ~`{~,a + ~,b} }",
	"~func f(x int) int { return x }", "~lambda(x int) int { return x }", "x := ~quote{1}", "~quote{if a { b } else { c }}", "~quote{for i := range x { f(i) }}",
	"~`{~,{x}}", "~quote{~quote{z}}", "~'x", "~'7", "~`{func() { ~,body }}", "~quote{type T struct { a int }}", "~quote{package p}", "~quote{import \"fmt\"}",
	"macro second(a, b, c interface{}) interface{} { return b }", "~quote{switch x { case 1: a; default: b }}", "~typecase x.(type) { }", "~quote{L: for { break L }}",
	"~quote{x.y[z](w)}", "~quote{-a * (b + c)}", "~quote{<-ch}", "~quote{ch <- v}", "~quote{go f()}", "~quote{defer f()}", "~quote{return a, b}", "~quote{var x, y = 1, 2}",
	"~quote{const c = iota}", "~quote{a, b = b, a}", "~quote{x++}", "~quote{*p = 1}", "~quote{&T{a: 1}}", "~quote{[]int{1, 2}}", "~quote{map[string]int{\"a\": 1}}",
	"~quote{func(x int) (y int) { return }}", "~quasiquote{~unquote_splice{xs}}", "{ x; y }", "x + { y }",
}

// ---------------------------------------------------------------- programmatically built trees

type c25built struct {
	name string
	node func() ast.Node
	// stmt: print inside "func _() {" ... "}" when reparsing
}

func c25id(s string) *ast.Ident { return &ast.Ident{Name: s} }
func c25bin(x ast.Expr, op token.Token, y ast.Expr) ast.Expr {
	return &ast.BinaryExpr{X: x, Op: op, Y: y}
}
func c25un(op token.Token, x ast.Expr) ast.Expr { return &ast.UnaryExpr{Op: op, X: x} }
func c25lit(t string) ast.Expr {
	return &ast.CompositeLit{Type: c25id(t), Elts: []ast.Expr{&ast.KeyValueExpr{Key: c25id("a"), Value: &ast.BasicLit{Kind: token.INT, Value: "1"}}}}
}
func c25block(ss ...ast.Stmt) *ast.BlockStmt { return &ast.BlockStmt{List: ss} }
func c25call(f ast.Expr, args ...ast.Expr) *ast.CallExpr { return &ast.CallExpr{Fun: f, Args: args} }
func c25es(e ast.Expr) ast.Stmt                     { return &ast.ExprStmt{X: e} }

var c25trees = []c25built{
	{"neg-neg", func() ast.Node { return c25un(token.SUB, c25un(token.SUB, c25id("x"))) }},
	{"plus-plus", func() ast.Node { return c25un(token.ADD, c25un(token.ADD, c25id("x"))) }},
	{"sub-neg", func() ast.Node { return c25bin(c25id("a"), token.SUB, c25un(token.SUB, c25id("x"))) }},
	{"add-plus", func() ast.Node { return c25bin(c25id("a"), token.ADD, c25un(token.ADD, c25id("x"))) }},
	{"and-addr", func() ast.Node { return c25bin(c25id("a"), token.AND, c25un(token.AND, c25id("x"))) }},
	{"and-xor", func() ast.Node { return c25bin(c25id("a"), token.AND, c25un(token.XOR, c25id("x"))) }},
	{"andnot", func() ast.Node { return c25bin(c25id("a"), token.AND_NOT, c25id("x")) }},
	{"quo-star", func() ast.Node { return c25bin(c25id("a"), token.QUO, &ast.StarExpr{X: c25id("p")}) }},
	{"mul-star", func() ast.Node { return c25bin(c25id("a"), token.MUL, &ast.StarExpr{X: c25id("p")}) }},
	{"star-mul", func() ast.Node { return &ast.StarExpr{X: c25bin(c25id("a"), token.MUL, c25id("b"))} }},
	{"star-star", func() ast.Node { return &ast.StarExpr{X: &ast.StarExpr{X: c25id("p")}} }},
	{"star-call", func() ast.Node { return c25call(&ast.StarExpr{X: c25id("T")}, c25id("x")) }},
	{"star-sel", func() ast.Node { return &ast.SelectorExpr{X: &ast.StarExpr{X: c25id("p")}, Sel: c25id("f")} }},
	{"lss-recv", func() ast.Node { return c25bin(c25id("a"), token.LSS, c25un(token.ARROW, c25id("c"))) }},
	{"recv-recv", func() ast.Node { return c25un(token.ARROW, c25un(token.ARROW, c25id("c"))) }},
	{"sub-recv", func() ast.Node { return c25bin(c25id("a"), token.SUB, c25un(token.ARROW, c25id("c"))) }},
	{"recv-chan-conv", func() ast.Node {
		return c25call(&ast.ChanType{Dir: ast.RECV, Value: c25id("int")}, c25id("x"))
	}},
	{"send-chan-conv", func() ast.Node {
		return c25call(&ast.ChanType{Dir: ast.SEND, Value: c25id("int")}, c25id("x"))
	}},
	{"func-conv", func() ast.Node {
		return c25call(&ast.FuncType{Params: &ast.FieldList{}}, c25id("x"))
	}},
	{"chan-of-recv-chan", func() ast.Node {
		return &ast.ChanType{Dir: ast.SEND | ast.RECV, Value: &ast.ChanType{Dir: ast.RECV, Value: c25id("int")}}
	}},
	{"send-chan-of-chan", func() ast.Node {
		return &ast.ChanType{Dir: ast.SEND, Value: &ast.ChanType{Dir: ast.SEND | ast.RECV, Value: c25id("int")}}
	}},
	{"if-complit", func() ast.Node {
		return &ast.IfStmt{Cond: c25bin(c25id("x"), token.EQL, c25lit("T")), Body: c25block()}
	}},
	{"if-complit-paren", func() ast.Node {
		return &ast.IfStmt{Cond: c25bin(c25id("x"), token.EQL, &ast.ParenExpr{X: c25lit("T")}), Body: c25block()}
	}},
	{"for-complit", func() ast.Node {
		return &ast.ForStmt{Cond: c25bin(c25id("x"), token.EQL, c25lit("T")), Body: c25block()}
	}},
	{"switch-complit", func() ast.Node {
		return &ast.SwitchStmt{Tag: c25lit("T"), Body: c25block()}
	}},
	{"range-complit", func() ast.Node {
		return &ast.RangeStmt{Key: c25id("i"), Tok: token.DEFINE, X: &ast.CompositeLit{Type: &ast.ArrayType{Elt: c25id("int")}}, Body: c25block()}
	}},
	{"range-named-complit", func() ast.Node {
		return &ast.RangeStmt{Key: c25id("i"), Tok: token.DEFINE, X: c25lit("T"), Body: c25block()}
	}},
	{"if-funclit", func() ast.Node {
		fl := &ast.FuncLit{Type: &ast.FuncType{Params: &ast.FieldList{}, Results: &ast.FieldList{List: []*ast.Field{{Type: c25id("bool")}}}}, Body: c25block(&ast.ReturnStmt{Results: []ast.Expr{c25id("true")}})}
		return &ast.IfStmt{Cond: c25call(fl), Body: c25block()}
	}},
	{"funclit-call", func() ast.Node {
		return c25call(&ast.FuncLit{Type: &ast.FuncType{Params: &ast.FieldList{}}, Body: c25block()})
	}},
	{"labeled", func() ast.Node {
		return &ast.LabeledStmt{Label: c25id("L"), Stmt: &ast.ForStmt{Body: c25block(&ast.BranchStmt{Tok: token.BREAK, Label: c25id("L")})}}
	}},
	{"labeled-empty", func() ast.Node {
		return c25block(&ast.LabeledStmt{Label: c25id("L"), Stmt: &ast.EmptyStmt{}})
	}},
	{"labeled-block-end", func() ast.Node {
		return c25block(c25es(c25call(c25id("f"))), &ast.LabeledStmt{Label: c25id("L"), Stmt: &ast.EmptyStmt{Implicit: true}})
	}},
	{"struct-type-expr", func() ast.Node {
		st := &ast.StructType{Fields: &ast.FieldList{List: []*ast.Field{{Names: []*ast.Ident{c25id("a")}, Type: c25id("int")}}}}
		return c25call(c25id("f"), &ast.CompositeLit{Type: st, Elts: []ast.Expr{&ast.BasicLit{Kind: token.INT, Value: "1"}}})
	}},
	{"interface-type-conv", func() ast.Node {
		return c25call(&ast.InterfaceType{Methods: &ast.FieldList{}}, c25id("x"))
	}},
	{"interface-embedded", func() ast.Node {
		it := &ast.InterfaceType{Methods: &ast.FieldList{List: []*ast.Field{{Type: c25id("A")},
			{Names: []*ast.Ident{c25id("m")}, Type: &ast.FuncType{Params: &ast.FieldList{}}}}}}
		return &ast.GenDecl{Tok: token.TYPE, Specs: []ast.Spec{&ast.TypeSpec{Name: c25id("T"), Type: it}}}
	}},
	{"typeassert-paren-star", func() ast.Node {
		return &ast.TypeAssertExpr{X: c25id("x"), Type: &ast.StarExpr{X: c25id("T")}}
	}},
	{"index-binary", func() ast.Node {
		return &ast.IndexExpr{X: c25bin(c25id("a"), token.ADD, c25id("b")), Index: c25id("i")}
	}},
	{"slice-unary", func() ast.Node {
		return &ast.SliceExpr{X: c25un(token.SUB, c25id("a")), Low: c25id("i")}
	}},
	{"call-binary-fun", func() ast.Node {
		return c25call(c25bin(c25id("a"), token.MUL, c25id("b")), c25id("x"))
	}},
	{"sel-unary", func() ast.Node {
		return &ast.SelectorExpr{X: c25un(token.AND, c25id("a")), Sel: c25id("f")}
	}},
	{"addr-complit", func() ast.Node { return c25un(token.AND, c25lit("T")) }},
	{"not-eq", func() ast.Node { return c25un(token.NOT, c25bin(c25id("a"), token.EQL, c25id("b"))) }},
	{"land-lor", func() ast.Node {
		return c25bin(c25bin(c25id("a"), token.LOR, c25id("b")), token.LAND, c25bin(c25id("c"), token.LOR, c25id("d")))
	}},
	{"right-nested-sub", func() ast.Node {
		return c25bin(c25id("a"), token.SUB, c25bin(c25id("b"), token.SUB, c25id("c")))
	}},
	{"shift-mix", func() ast.Node {
		return c25bin(c25bin(c25id("a"), token.ADD, c25id("b")), token.SHL, c25bin(c25id("c"), token.SUB, c25id("d")))
	}},
	{"int-dot", func() ast.Node {
		return &ast.SelectorExpr{X: &ast.BasicLit{Kind: token.INT, Value: "1"}, Sel: c25id("f")}
	}},
	{"keyvalue-complit-nested", func() ast.Node {
		inner := &ast.CompositeLit{Elts: []ast.Expr{&ast.BasicLit{Kind: token.INT, Value: "1"}}}
		return &ast.CompositeLit{Type: &ast.ArrayType{Elt: c25id("T")}, Elts: []ast.Expr{inner, &ast.KeyValueExpr{Key: &ast.BasicLit{Kind: token.INT, Value: "3"}, Value: inner}}}
	}},
	{"defer-funclit", func() ast.Node {
		return &ast.DeferStmt{Call: c25call(&ast.FuncLit{Type: &ast.FuncType{Params: &ast.FieldList{}}, Body: c25block(c25es(c25call(c25id("g"))))})}
	}},
	{"incdec-star", func() ast.Node { return &ast.IncDecStmt{X: &ast.StarExpr{X: c25id("p")}, Tok: token.INC} }},
	{"send-recv", func() ast.Node {
		return &ast.SendStmt{Chan: c25id("c"), Value: c25un(token.ARROW, c25id("d"))}
	}},
	{"ellipsis-call", func() ast.Node {
		return &ast.CallExpr{Fun: c25id("f"), Args: []ast.Expr{c25id("a"), c25id("b")}, Ellipsis: 1}
	}},
	{"macro-call-block", func() ast.Node {
		// what the fork's parser builds for `x + {y}`: a block inside an expression
		blk := &ast.UnaryExpr{Op: etoken.MACRO, X: &ast.FuncLit{Type: &ast.FuncType{Params: &ast.FieldList{}}, Body: c25block(c25es(c25id("y")))}}
		return c25bin(c25id("x"), token.ADD, blk)
	}},
	{"quote-binary", func() ast.Node {
		q, _ := parser.MakeQuote(nil, etoken.QUOTE, token.NoPos, c25bin(c25id("a"), token.ADD, c25id("b")))
		return q
	}},
	{"unquote-in-binary", func() ast.Node {
		q, _ := parser.MakeQuote(nil, etoken.UNQUOTE, token.NoPos, c25id("b"))
		return c25bin(c25id("a"), token.MUL, q)
	}},
}

// c25execTree: print the built tree, reparse it with the fork in a fitting context, compare modulo parentheses the
// printer may add (expressions) / exactly (statements, declarations), print again.
func c25execTree(name string) Result {
	var bt *c25built
	for i := range c25trees {
		if c25trees[i].name == name {
			bt = &c25trees[i]
		}
	}
	if bt == nil {
		return Result{Out: "bad-op"}
	}
	res := Result{Out: "same", Tags: []string{"tree"}, Nontrivial: true}
	fail := func(key, desc string) Result {
		res.Viol, res.Key = desc, "tree-"+key+":"+name
		return res
	}
	n := bt.node()
	text, err := c25print(token.NewFileSet(), n)
	if err != nil {
		return fail("print-error", err.Error())
	}
	src := text
	if _, isExpr := n.(ast.Expr); isExpr {
		if _, isType := n.(*ast.ChanType); isType {
			src = "var _ " + text
		} else {
			src = "_ = " + text
		}
	}
	wrap := func(n ast.Node) ast.Node { // the node as the fork's parser returns it in that context
		if e, ok := n.(ast.Expr); ok {
			if _, isType := n.(*ast.ChanType); isType {
				return &ast.GenDecl{Tok: token.VAR, Specs: []ast.Spec{&ast.ValueSpec{Names: []*ast.Ident{c25id("_")}, Type: e}}}
			}
			return &ast.AssignStmt{Lhs: []ast.Expr{c25id("_")}, Tok: token.ASSIGN, Rhs: []ast.Expr{e}}
		}
		return n
	}
	fr := c24forkParse("t.go", []byte(src), 0)
	if fr.pan != "" || fr.err != nil || len(fr.nodes) != 1 {
		return fail("reparse-error", fmt.Sprintf("printed as %q: does not parse back (%v %s, %d nodes)", text, fr.err, fr.pan, len(fr.nodes)))
	}
	// second print first: the comparison below canonicalises the reparsed tree in place
	text2, err2 := c25print(token.NewFileSet(), fr.nodes[0])
	if _, isExpr := n.(ast.Expr); isExpr && err2 == nil {
		text2 = strings.TrimPrefix(strings.TrimPrefix(text2, "_ = "), "var _ ")
	}
	var v c25verdict
	c25compareCanon2(&v, "shape", wrap(n), fr.nodes[0], fmt.Sprintf("printed as %q", text), true)
	for _, t := range v.tags {
		if strings.HasPrefix(t, "diff:shape:") {
			return fail("shape", v.viol+" "+t)
		}
	}
	if err2 != nil || text2 != text {
		if err2 == nil && c25allTokens(text) == c25allTokens(text2) {
			res.Viol, res.Key = fmt.Sprintf("tree %s: %q -> %q", name, text, text2), "tree-reprint-text:layout-only"
			return res
		}
		return fail("reprint-text", fmt.Sprintf("%q -> %q", text, text2))
	}
	return res
}

// c25stripParens returns a copy of the tree without ParenExpr nodes (and with positions untouched)
func c25stripParens(n ast.Node) ast.Node {
	return c25rewrite(n)
}

// a small deep copy by reflection-free recursion over the node kinds used in c25trees: done with ast.Inspect-based
// mutation on a tree we own (the built trees are fresh; the reparsed tree is ours too)
func c25rewrite(n ast.Node) ast.Node {
	var fix func(e ast.Expr) ast.Expr
	fix = func(e ast.Expr) ast.Expr {
		for {
			p, ok := e.(*ast.ParenExpr)
			if !ok {
				return e
			}
			e = p.X
		}
	}
	ast.Inspect(n, func(m ast.Node) bool {
		switch x := m.(type) {
		case *ast.BinaryExpr:
			x.X, x.Y = fix(x.X), fix(x.Y)
		case *ast.UnaryExpr:
			x.X = fix(x.X)
		case *ast.StarExpr:
			x.X = fix(x.X)
		case *ast.SelectorExpr:
			x.X = fix(x.X)
		case *ast.IndexExpr:
			x.X, x.Index = fix(x.X), fix(x.Index)
		case *ast.SliceExpr:
			x.X = fix(x.X)
		case *ast.CallExpr:
			x.Fun = fix(x.Fun)
			for i := range x.Args {
				x.Args[i] = fix(x.Args[i])
			}
		case *ast.TypeAssertExpr:
			x.X, x.Type = fix(x.X), fix(x.Type)
		case *ast.AssignStmt:
			for i := range x.Rhs {
				x.Rhs[i] = fix(x.Rhs[i])
			}
		case *ast.IfStmt:
			x.Cond = fix(x.Cond)
		case *ast.ForStmt:
			if x.Cond != nil {
				x.Cond = fix(x.Cond)
			}
		case *ast.SwitchStmt:
			if x.Tag != nil {
				x.Tag = fix(x.Tag)
			}
		case *ast.RangeStmt:
			x.X = fix(x.X)
		case *ast.ChanType:
			x.Value = fix(x.Value)
		case *ast.ValueSpec:
			if x.Type != nil {
				x.Type = fix(x.Type)
			}
		case *ast.KeyValueExpr:
			x.Value = fix(x.Value)
		case *ast.ExprStmt:
			x.X = fix(x.X)
		}
		return true
	})
	return n
}

// ---------------------------------------------------------------- generation

func (t *c25tree) polish() string {
	switch t.k {
	case 'a':
		return fmt.Sprintf("a%d", t.n)
	case 'b':
		return fmt.Sprintf("b%d %s %s", t.n, t.l.polish(), t.r.polish())
	case 'u':
		return fmt.Sprintf("u%d %s", t.n, t.l.polish())
	case 'p':
		return "p " + t.l.polish()
	case 's':
		return fmt.Sprintf("s %s a%d", t.l.polish(), t.n)
	case 'i':
		return "i " + t.l.polish() + " " + t.r.polish()
	case 'c':
		return "c " + t.l.polish() + " " + t.r.polish()
	}
	return "?"
}

var c25unaryOps = []int{12, 13, 43, 19, 17, 14, 36} // + - ! ^ & * <-

// all trees of exactly the given depth budget over the given operators
func c25allTrees(d int, bops, uops []int, natom *int) []*c25tree {
	atom := func() *c25tree { return &c25tree{k: 'a', n: 0} }
	if d == 0 {
		return []*c25tree{atom()}
	}
	sub := c25allTrees(d-1, bops, uops, natom)
	out := []*c25tree{atom()}
	for _, x := range sub {
		for _, o := range uops {
			out = append(out, &c25tree{k: 'u', n: o, l: x})
		}
		out = append(out, &c25tree{k: 'p', l: x}, &c25tree{k: 's', l: x, n: 9})
		for _, y := range sub {
			for _, o := range bops {
				out = append(out, &c25tree{k: 'b', n: o, l: x, r: y})
			}
			out = append(out, &c25tree{k: 'i', l: x, r: y}, &c25tree{k: 'c', l: x, r: y})
		}
	}
	return out
}

func c25randTree(r *rand.Rand, d int) *c25tree {
	if d <= 0 || r.Intn(6) == 0 {
		return &c25tree{k: 'a', n: r.Intn(7)}
	}
	switch r.Intn(10) {
	case 0, 1, 2, 3:
		return &c25tree{k: 'b', n: c24binTokens[r.Intn(len(c24binTokens))], l: c25randTree(r, d-1), r: c25randTree(r, d-1)}
	case 4, 5:
		return &c25tree{k: 'u', n: c25unaryOps[r.Intn(len(c25unaryOps))], l: c25randTree(r, d-1)}
	case 6:
		return &c25tree{k: 'p', l: c25randTree(r, d-1)}
	case 7:
		return &c25tree{k: 's', l: c25randTree(r, d-1), n: r.Intn(7)}
	case 8:
		return &c25tree{k: 'i', l: c25randTree(r, d-1), r: c25randTree(r, d-1)}
	}
	return &c25tree{k: 'c', l: c25randTree(r, d-1), r: c25randTree(r, d-1)}
}

func c25gen(r *rand.Rand, tier string, emit func(string)) {
	thorough := tier == "thorough"
	scale := 1
	if thorough {
		scale = 10
	}
	// 1. expression trees: bounded exhaustive
	n := 0
	repB := []int{35, 34, 39, 12, 14} // one operator per precedence level
	repU := []int{13, 14, 36}
	depth := 2
	for _, t := range c25allTrees(depth, repB, repU, &n) {
		emit("pp " + t.polish())
	}
	a := func(i int) *c25tree { return &c25tree{k: 'a', n: i} }
	for _, o1 := range c24binTokens {
		for _, o2 := range c24binTokens {
			emit("pp " + (&c25tree{k: 'b', n: o1, l: &c25tree{k: 'b', n: o2, l: a(0), r: a(1)}, r: a(2)}).polish())
			emit("pp " + (&c25tree{k: 'b', n: o1, l: a(0), r: &c25tree{k: 'b', n: o2, l: a(1), r: a(2)}}).polish())
		}
		for _, u := range c25unaryOps {
			emit("pp " + (&c25tree{k: 'b', n: o1, l: a(0), r: &c25tree{k: 'u', n: u, l: a(1)}}).polish())
			emit("pp " + (&c25tree{k: 'b', n: o1, l: &c25tree{k: 'u', n: u, l: a(0)}, r: a(1)}).polish())
			emit("pp " + (&c25tree{k: 'u', n: u, l: &c25tree{k: 'b', n: o1, l: a(0), r: a(1)}}).polish())
		}
	}
	for _, u1 := range c25unaryOps {
		for _, u2 := range c25unaryOps {
			emit("pp " + (&c25tree{k: 'u', n: u1, l: &c25tree{k: 'u', n: u2, l: a(0)}}).polish())
			for _, u3 := range c25unaryOps {
				emit("pp " + (&c25tree{k: 'u', n: u1, l: &c25tree{k: 'u', n: u2, l: &c25tree{k: 'u', n: u3, l: a(0)}}}).polish())
			}
		}
	}
	for i := 0; i < 2500*scale; i++ {
		emit("pp " + c25randTree(r, 2+r.Intn(4)).polish())
	}
	// 2. programmatically built trees
	for _, bt := range c25trees {
		emit("tree " + bt.name)
	}
	// 3. extension sources
	for _, s := range c25extSources {
		emit("ext " + c24hx([]byte(s)))
	}
	// 4. files
	gl, rl := c23list("goroot"), c23list("repo")
	if thorough {
		for _, f := range gl {
			emit("file goroot " + f)
		}
		for _, f := range rl {
			emit("file repo " + f)
		}
	} else {
		for _, f := range gl {
			if strings.HasPrefix(f, "go/printer/testdata/") || strings.HasPrefix(f, "go/parser/") {
				emit("file goroot " + f)
			}
		}
		for i := 0; i < 260; i++ {
			emit("file goroot " + gl[r.Intn(len(gl))])
		}
		for i := 0; i < 90; i++ {
			emit("file repo " + rl[r.Intn(len(rl))])
		}
	}
	// 5. grammar-generated files
	for i := 0; i < 300*scale; i++ {
		src := c24genFile(r, 1+r.Intn(6), 1+r.Intn(3), i%3 != 0)
		emit("src " + c24hx([]byte(src)))
	}
	_ = sort.Strings
}

// ---------------------------------------------------------------- execution

func c25exec(op string) Result {
	f := strings.Fields(op)
	if len(f) == 0 {
		return Result{Out: "bad-op"}
	}
	finish := func(v c25verdict, v2 c25verdict, kind string) Result {
		res := Result{Out: "same", Tags: append(append(v.tags, v2.tags...), kind), Nontrivial: v.decls+v2.decls > 0}
		if v.viol == "" {
			v.viol, v.key = v2.viol, v2.key
		}
		if v.viol != "" {
			res.Viol, res.Key = c23trunc(v.viol, 500), v.key
		}
		return res
	}
	switch f[0] {
	case "pp":
		return c25execPP(f[1:])
	case "tree":
		if len(f) != 2 {
			return Result{Out: "bad-op"}
		}
		return c25execTree(f[1])
	case "file":
		if len(f) != 3 {
			return Result{Out: "bad-op"}
		}
		src, err := c23read(f[1], f[2])
		if err != nil {
			return Result{Out: "same", Tags: []string{"unreadable"}}
		}
		v := c25roundtripFile(f[2], src)
		var v2 c25verdict
		if f[1] == "repo" || len(v.tags) > 0 && v.tags[0] == "skip:lexical-extension" {
			v2 = c25roundtripNodes(f[2], src, true)
		}
		return finish(v, v2, "file")
	case "src":
		if len(f) != 2 {
			return Result{Out: "bad-op"}
		}
		src, ok := c23unhex(f[1])
		if !ok {
			return Result{Out: "bad-op"}
		}
		return finish(c25roundtripFile("src.go", src), c25roundtripNodes("src.go", src, false), "src")
	case "ext":
		if len(f) != 2 {
			return Result{Out: "bad-op"}
		}
		src, ok := c23unhex(f[1])
		if !ok {
			return Result{Out: "bad-op"}
		}
		return finish(c25roundtripNodes("ext.go", src, true), c25verdict{}, "ext")
	}
	return Result{Out: "bad-op"}
}
