package main

// C24 / C25: grammar-directed generator of syntactically valid, extension-free, non-generic Go source files.
// The programs need not type-check (both parsers are purely syntactic).  One PRNG, bounded depth.

import (
	"fmt"
	"math/rand"
	"strings"
)

type c24g struct {
	r     *rand.Rand
	sb    strings.Builder
	ind   int
	nlab  int
	cmts  bool // sprinkle comments
	depth int
	// lev mirrors the parser's exprLev: -1 in the header of an if/for/switch statement (a composite literal of a
	// plain or qualified type NAME is not allowed there), +1 inside parentheses, brackets, call arguments,
	// composite-literal braces and function-literal bodies
	lev int
}

// in: generate inside a bracketing construct
func (g *c24g) in(f func() string) string {
	g.lev++
	s := f()
	g.lev--
	return s
}

// hdr: generate a control-clause header part
func (g *c24g) hdr(f func() string) string {
	old := g.lev
	g.lev = -1
	s := f()
	g.lev = old
	return s
}

func (g *c24g) pick(xs ...string) string { return xs[g.r.Intn(len(xs))] }
func (g *c24g) p(n int) bool             { return g.r.Intn(n) == 0 }

var c24idents = []string{"a", "b", "c", "x", "y", "z", "foo", "bar", "T", "S", "i", "j", "n", "err", "ok", "_", "buf", "ch", "f", "g", "αβ", "x1", "Type9", "macros", "quote", "lambda"}
var c24typeNames = []string{"int", "string", "bool", "float64", "byte", "error", "T", "S", "pkg.Type", "io.Reader", "uint8", "rune", "any"}

func (g *c24g) id() string     { return c24idents[g.r.Intn(len(c24idents))] }
func (g *c24g) nbid() string {
	for {
		if s := g.id(); s != "_" {
			return s
		}
	}
}

func (g *c24g) lit() string {
	switch g.r.Intn(12) {
	case 0:
		return g.pick("0", "1", "42", "007", "0x1F", "0b101", "0o17", "1_000", "0X_ff")
	case 1:
		return g.pick("1.5", ".5", "1.", "1e3", "1E-3", "0x1p4", "0x1.8p-1", "1_0.2_5")
	case 2:
		return g.pick("1i", "1.5i", "0x1p4i", "0b1i")
	case 3:
		return g.pick("'a'", "'\\n'", "'\\''", "'\\x41'", "'\\u00e9'", "'\\U0001F600'", "'\\101'", "'日'", "'\t'")
	case 4:
		return g.pick(`""`, `"a b"`, `"\""`, `"\n\t\\"`, `"\x41\u00e9"`, "`raw`", "`r\nw`", `"// not a comment"`, `"/* nor this */"`, "\"a\tb\"", "`a\tb`")
	case 5:
		return g.pick("nil", "true", "false", "iota")
	default:
		return g.id()
	}
}

func (g *c24g) typ(d int) string {
	if d <= 0 {
		return g.pick(c24typeNames...)
	}
	switch g.r.Intn(16) {
	case 0:
		return "*" + g.typ(d-1)
	case 1:
		return "[]" + g.typ(d-1)
	case 2:
		return "[" + g.in(func() string { return g.expr(1) }) + "]" + g.typ(d-1)
	case 3:
		return "map[" + g.typ(d-1) + "]" + g.typ(d-1)
	case 4:
		return g.pick("chan ", "chan<- ", "<-chan ") + g.typ(d-1)
	case 5:
		return "chan (" + g.pick("<-chan ", "chan<- ") + g.typ(d-1) + ")"
	case 6:
		return "func" + g.signature(d-1)
	case 7:
		return g.structType(d - 1)
	case 8:
		return g.interfaceType(d - 1)
	case 9:
		return "(" + g.typ(d-1) + ")"
	case 10:
		return "[...]" + g.typ(d-1) // valid only in composite literals; the parsers accept it anywhere a type may be
	default:
		return g.pick(c24typeNames...)
	}
}

// typDecl: the type of a type declaration: `type a [x[i]]T` is read as a type-parameter list by go1.18+ parsers
func (g *c24g) typDecl(d int) string {
	for {
		t := g.typND(d)
		if !strings.HasPrefix(t, "[") || strings.HasPrefix(t, "[]") {
			return t
		}
	}
}

// typNoDots: a type that never starts with [...] (go1.10's parser rejected it outside literals)
func (g *c24g) typND(d int) string {
	for {
		t := g.typ(d)
		if !strings.Contains(t, "[...]") {
			return t
		}
	}
}

func (g *c24g) params(d int, variadic bool) string {
	n := g.r.Intn(4)
	if n == 0 {
		return "()"
	}
	var ps []string
	named := g.p(2)
	for i := 0; i < n; i++ {
		t := g.typND(d)
		if variadic && i == n-1 && g.p(2) {
			t = "..." + t
		}
		if named {
			nm := g.id()
			if g.p(4) && i < n-1 {
				nm += ", " + g.id()
			}
			ps = append(ps, nm+" "+t)
		} else {
			ps = append(ps, t)
		}
	}
	s := "(" + strings.Join(ps, ", ")
	if g.p(8) {
		s += ","
	}
	return s + ")"
}

func (g *c24g) signature(d int) string {
	s := g.params(d, true)
	switch g.r.Intn(4) {
	case 0:
		s += " " + g.typND(d)
	case 1:
		s += " " + g.params(d, false)
	}
	return s
}

func (g *c24g) structType(d int) string {
	if g.p(6) {
		// one line, one field, with a tag
		return "struct{ " + g.id() + " " + g.pick("int", "T", "[]byte", "pkg.Type") + " " + g.pick("`json:\"id\"`", `"tag"`) + " }"
	}
	n := g.r.Intn(4)
	if n == 0 {
		return "struct{}"
	}
	var fs []string
	for i := 0; i < n; i++ {
		var f string
		switch g.r.Intn(5) {
		case 0:
			f = g.pick("T", "*T", "pkg.Type", "*pkg.Type")
		case 1:
			f = g.id() + ", " + g.id() + " " + g.typND(d)
		default:
			f = g.id() + " " + g.typND(d)
		}
		if g.p(3) {
			f += " " + g.pick("`json:\"x\"`", `"tag"`)
		}
		fs = append(fs, f)
	}
	if g.p(3) {
		return "struct { " + strings.Join(fs, "; ") + " }"
	}
	if g.cmts {
		for i := range fs {
			if g.p(4) {
				fs[i] += " // field comment"
			}
		}
	}
	return "struct {\n" + strings.Join(fs, "\n") + "\n}"
}

func (g *c24g) interfaceType(d int) string {
	n := g.r.Intn(4)
	if n == 0 {
		return "interface{}"
	}
	var ms []string
	for i := 0; i < n; i++ {
		switch g.r.Intn(4) {
		case 0:
			ms = append(ms, g.pick("T", "S", "io.Reader", "pkg.Type", "error"))
		default:
			m := g.nbid() + g.signature(d)
			if g.cmts && g.p(4) {
				m = "// method doc\n" + m
			}
			ms = append(ms, m)
		}
	}
	if g.p(3) {
		return "interface { " + strings.Join(ms, "; ") + " }"
	}
	return "interface {\n" + strings.Join(ms, "\n") + "\n}"
}

var c24binops = []string{"||", "&&", "==", "!=", "<", "<=", ">", ">=", "+", "-", "|", "^", "*", "/", "%", "<<", ">>", "&", "&^"}
var c24unops = []string{"+", "-", "!", "^", "*", "&", "<-"}

func (g *c24g) exprList(d, max int) string {
	n := 1 + g.r.Intn(max)
	var es []string
	for i := 0; i < n; i++ {
		es = append(es, g.expr(d))
	}
	return strings.Join(es, ", ")
}

// primary expression that is safe as the operand of a postfix form
func (g *c24g) operand(d int) string {
	if d <= 0 {
		return g.lit()
	}
	switch g.r.Intn(14) {
	case 0:
		return "(" + g.in(func() string { return g.expr(d - 1) }) + ")"
	case 1:
		return g.base(d-1) + "." + g.nbid()
	case 2:
		return g.operand(d-1) + "[" + g.in(func() string { return g.expr(d - 1) }) + "]"
	case 3:
		x := g.operand(d - 1)
		return x + g.in(func() string {
			lo, hi := "", ""
			if g.p(2) {
				lo = g.expr(d - 1)
			}
			if g.p(2) {
				hi = g.expr(d - 1)
			}
			if g.p(4) {
				return "[" + lo + ":" + g.expr(d-1) + ":" + g.expr(d-1) + "]"
			}
			return "[" + lo + ":" + hi + "]"
		})
	case 4:
		x := g.operand(d - 1)
		return x + g.in(func() string {
			args := ""
			if !g.p(4) {
				args = g.exprList(d-1, 3)
				if g.p(6) {
					args += " ..."
				}
				if g.p(8) {
					args += ","
				}
			}
			return "(" + args + ")"
		})
	case 5:
		return g.base(d-1) + ".(" + g.typND(1) + ")"
	case 6:
		return g.compositeLit(d - 1)
	case 7:
		return g.funcLit(d - 1)
	case 8:
		// conversion to a type that needs parentheses
		return g.pick("(*T)", "(func())", "(<-chan int)", "([]byte)", "(chan<- int)") + "(" + g.in(func() string { return g.expr(d - 1) }) + ")"
	case 9:
		return g.pick("[]byte", "map[string]int", "struct{ x int }", "interface{}", "chan int", "func() int") + "(" + g.in(func() string { return g.expr(d - 1) }) + ")"
	default:
		return g.lit()
	}
}

// base: operand of a selector / type assertion: a number directly before '.' would be read as a float
func (g *c24g) base(d int) string {
	x := g.operand(d)
	if len(x) > 0 && (x[0] >= '0' && x[0] <= '9' || x[0] == '.') {
		return "(" + x + ")"
	}
	return x
}

// funcLit: a function literal; its body is parsed with exprLev+1, whatever surrounds it
func (g *c24g) funcLit(d int) string {
	sig := g.signature(1)
	return "func" + sig + " " + g.in(func() string {
		if g.p(2) {
			// a body that holds composite literals of named types in several positions
			return "{\n" + g.pick("return ", "_ = ", "x := ") + g.namedLit(1) + "\n" + g.stmt(d) + "\n}"
		}
		return g.block(d)
	})
}

// namedLit: composite literal of a plain or qualified type name (only where exprLev >= 0)
func (g *c24g) namedLit(d int) string {
	t := g.pick("T", "pkg.Type", "S", "io.Reader")
	return t + g.in(func() string {
		switch g.r.Intn(4) {
		case 0:
			return "{}"
		case 1:
			return "{" + g.lit() + "}"
		case 2:
			return "{" + g.id() + ": " + g.expr(d) + "}"
		}
		return "{" + g.expr(d) + ", " + g.expr(d) + "}"
	})
}

func (g *c24g) compositeLit(d int) string {
	var t string
	if g.lev < 0 {
		// control-clause header: only literal types that are no type names
		t = g.pick("[]int", "[...]string", "map[string]T", "struct{ a, b int }", "[2][]T", "[]*T", "[]map[string]int", "[]T", "map[pkg.Type]S")
	} else {
		t = g.pick("T", "pkg.Type", "[]int", "[...]string", "map[string]T", "struct{ a, b int }", "[2][]T", "[]*T", "[]map[string]int")
	}
	g.lev++
	defer func() { g.lev-- }()
	n := g.r.Intn(4)
	var es []string
	for i := 0; i < n; i++ {
		e := ""
		switch g.r.Intn(4) {
		case 0:
			e = g.lit() + ": " + g.elem(d)
		case 1:
			e = g.elem(d)
		default:
			e = g.expr(d)
		}
		es = append(es, e)
	}
	s := strings.Join(es, ", ")
	if n > 0 && g.p(4) {
		return t + "{\n" + s + ",\n}"
	}
	return t + "{" + s + "}"
}

func (g *c24g) elem(d int) string {
	if d > 0 && g.p(3) {
		// elided type
		return "{" + g.exprList(d-1, 2) + "}"
	}
	if g.p(6) {
		return "&T{" + g.lit() + "}"
	}
	return g.expr(d)
}

func (g *c24g) expr(d int) string {
	if d <= 0 {
		return g.lit()
	}
	switch g.r.Intn(10) {
	case 0, 1, 2:
		return g.expr(d-1) + " " + c24binops[g.r.Intn(len(c24binops))] + " " + g.expr(d-1)
	case 3:
		op := c24unops[g.r.Intn(len(c24unops))]
		x := g.expr(d - 1)
		// "- -x", "+ +x", "& &x", "<- <-x": keep the tokens apart
		return op + " " + x
	case 4:
		return g.expr(d-1) + c24binops[g.r.Intn(len(c24binops))] + g.lit() // no blanks
	default:
		return g.operand(d)
	}
}

// expression for a control clause header (exprLev = -1): function literals, parenthesised / bracketed / argument
// positions may hold any composite literal, the header level only those whose type is no type name
func (g *c24g) hexpr(d int) string {
	return g.hdr(func() string {
		switch g.r.Intn(8) {
		case 0:
			// function literal directly in the header, called or compared
			return g.funcLit(1) + "(" + g.in(func() string { return g.exprList(1, 2) }) + ")" + g.pick("", " == "+g.lit(), ".x > 0")
		case 1:
			return "(" + g.in(func() string { return g.namedLit(1) }) + ")" + g.pick(" == "+g.id(), ".x != 0")
		case 2:
			return g.id() + "(" + g.in(func() string { return g.namedLit(1) }) + ")"
		}
		return g.expr(d)
	})
}

func (g *c24g) simpleStmt(d int) string {
	switch g.r.Intn(9) {
	case 0:
		return g.nbid() + " := " + g.expr(d)
	case 1:
		return g.id() + ", " + g.id() + " := " + g.expr(d) + ", " + g.expr(d)
	case 2:
		return g.operand(1) + " " + g.pick("=", "+=", "-=", "*=", "/=", "%=", "&=", "|=", "^=", "<<=", ">>=", "&^=") + " " + g.expr(d)
	case 3:
		return g.operand(1) + g.pick("++", "--")
	case 4:
		return g.operand(1) + " <- " + g.expr(d)
	case 5:
		return g.id() + ", " + g.operand(1) + " = " + g.expr(d) + ", " + g.expr(d)
	default:
		return g.operand(d) + "(" + g.exprList(d, 2) + ")"
	}
}

func (g *c24g) hsimple(d int) string {
	return g.hdr(func() string {
		switch g.r.Intn(6) {
		case 0:
			return g.nbid() + " := " + g.funcLit(1)
		case 1:
			return g.nbid() + " := " + g.funcLit(1) + "()"
		}
		return g.simpleStmt(d)
	})
}

func (g *c24g) block(d int) string {
	if d <= 0 {
		return g.pick("{}", "{ return }", "{ "+g.id()+"++ }")
	}
	n := g.r.Intn(4)
	var ss []string
	for i := 0; i < n; i++ {
		ss = append(ss, g.stmt(d-1))
	}
	return "{\n" + strings.Join(ss, "\n") + "\n}"
}

func (g *c24g) comment() string {
	return g.pick("// c", "/* c */", "// line one\n// line two", "/* multi\n line */", "//go:noinline", "/**/")
}

func (g *c24g) stmt(d int) string {
	s := g.stmt1(d)
	if g.cmts {
		switch g.r.Intn(8) {
		case 0:
			s = g.comment() + "\n" + s
		case 1:
			if !strings.HasSuffix(s, "\n") {
				s += " // trailing"
			}
		}
	}
	return s
}

func (g *c24g) stmt1(d int) string {
	if d <= 0 {
		return g.simpleStmt(1)
	}
	switch g.r.Intn(24) {
	case 0:
		s := "if "
		if g.p(3) {
			s += g.hsimple(1) + "; "
		}
		s += g.hexpr(d-1) + " " + g.block(d-1)
		for g.p(3) {
			s += " else if " + g.hexpr(1) + " " + g.block(d-1)
		}
		if g.p(2) {
			s += " else " + g.block(d-1)
		}
		return s
	case 1:
		switch g.r.Intn(6) {
		case 0:
			return "for " + g.block(d-1)
		case 1:
			return "for " + g.hexpr(d-1) + " " + g.block(d-1)
		case 2:
			init, cond, post := "", "", ""
			if g.p(2) {
				init = g.hsimple(1)
			}
			if g.p(2) {
				cond = g.hexpr(1)
			}
			if g.p(2) {
				post = g.hsimple(1)
			}
			return "for " + init + "; " + cond + "; " + post + " " + g.block(d-1)
		case 3:
			return "for " + g.id() + ", " + g.id() + " := range " + g.hexpr(d-1) + " " + g.block(d-1)
		case 4:
			return "for " + g.id() + " = range " + g.hexpr(1) + " " + g.block(d-1)
		default:
			return "for range " + g.hexpr(1) + " " + g.block(d-1)
		}
	case 2:
		s := "switch "
		if g.p(3) {
			s += g.hsimple(1) + "; "
		}
		if g.p(2) {
			s += g.hexpr(d-1) + " "
		}
		s += "{\n"
		n := g.r.Intn(4)
		for i := 0; i < n; i++ {
			if g.p(5) {
				s += "default:\n"
			} else {
				s += "case " + g.exprList(1, 3) + ":\n"
			}
			for j := g.r.Intn(3); j > 0; j-- {
				s += g.stmt(d-1) + "\n"
			}
			if g.p(6) && i < n-1 {
				s += "fallthrough\n"
			}
		}
		return s + "}"
	case 3:
		s := "switch "
		if g.p(3) {
			s += g.hsimple(1) + "; "
		}
		if g.p(2) {
			s += g.id() + " := "
		}
		s += g.hdr(func() string { return g.base(1) }) + ".(type) {\n"
		n := g.r.Intn(4)
		for i := 0; i < n; i++ {
			if g.p(5) {
				s += "default:\n"
			} else {
				ts := []string{}
				for k := 1 + g.r.Intn(3); k > 0; k-- {
					ts = append(ts, g.pick("int", "*T", "[]byte", "nil", "pkg.Type", "func()", "map[string]int", "chan int", "interface{}", "struct{}"))
				}
				s += "case " + strings.Join(ts, ", ") + ":\n"
			}
			for j := g.r.Intn(3); j > 0; j-- {
				s += g.stmt(d-1) + "\n"
			}
		}
		return s + "}"
	case 4:
		s := "select {\n"
		for i := g.r.Intn(4); i > 0; i-- {
			switch g.r.Intn(5) {
			case 0:
				s += "default:\n"
			case 1:
				s += "case " + g.operand(1) + " <- " + g.expr(1) + ":\n"
			case 2:
				s += "case " + g.id() + " := <-" + g.operand(1) + ":\n"
			case 3:
				s += "case " + g.id() + ", " + g.id() + " = <-" + g.operand(1) + ":\n"
			default:
				s += "case <-" + g.operand(1) + ":\n"
			}
			for j := g.r.Intn(3); j > 0; j-- {
				s += g.stmt(d-1) + "\n"
			}
		}
		return s + "}"
	case 5:
		g.nlab++
		return fmt.Sprintf("L%d:\n%s", g.nlab, g.stmt1(d-1))
	case 6:
		return g.pick("break", "continue", "goto L1", "break L1", "continue L1", "return")
	case 7:
		return "return " + g.exprList(d-1, 3)
	case 8:
		return g.pick("go ", "defer ") + g.operand(d-1) + "(" + g.exprList(1, 2) + ")"
	case 9:
		return g.pick("go ", "defer ") + "func() " + g.block(d-1) + "()"
	case 10:
		return g.block(d - 1)
	case 11:
		return "var " + g.id() + " " + g.typND(d-1)
	case 12:
		return "var " + g.id() + ", " + g.id() + " = " + g.expr(d-1) + ", " + g.expr(1)
	case 13:
		return "const " + g.id() + " = " + g.expr(1)
	case 14:
		return "type " + g.nbid() + " " + g.typDecl(d-1)
	case 15:
		return "var (\n" + g.id() + " = " + g.expr(1) + "\n" + g.id() + " " + g.typND(1) + " = " + g.expr(1) + "\n)"
	case 16:
		return ";"
	default:
		return g.simpleStmt(d)
	}
}

func (g *c24g) decl(d int) string {
	doc := ""
	if g.cmts && g.p(3) {
		doc = g.comment() + "\n"
	}
	switch g.r.Intn(12) {
	case 0:
		return doc + "const " + g.id() + " = " + g.expr(d)
	case 1:
		s := doc + "const (\n"
		first := true
		for i := 1 + g.r.Intn(4); i > 0; i-- {
			k := g.r.Intn(3)
			if first {
				k = 1 + g.r.Intn(2) // the first ConstSpec needs values
				first = false
			}
			switch k {
			case 0:
				s += g.id()
			case 1:
				s += g.id() + " " + g.pick("int", "T") + " = " + g.expr(1)
			default:
				s += g.id() + ", " + g.id() + " = " + g.expr(1) + ", " + g.expr(1)
			}
			if g.cmts && g.p(3) {
				s += " // spec comment"
			}
			s += "\n"
		}
		return s + ")"
	case 2:
		return doc + "var " + g.id() + " " + g.typND(d) + " = " + g.expr(d)
	case 3:
		return doc + "var (\n" + g.id() + ", " + g.id() + " " + g.typND(1) + "\n" + g.id() + " = " + g.expr(d) + "\n)"
	case 4:
		return doc + "type " + g.nbid() + " " + g.typDecl(d+1)
	case 5:
		return doc + "type " + g.nbid() + " = " + g.typND(d)
	case 6:
		return doc + "type (\n" + g.nbid() + " " + g.typDecl(d) + "\n" + g.nbid() + " = " + g.typND(1) + "\n)"
	case 7:
		recv := g.pick("(t T)", "(t *T)", "(T)", "(*T)", "(_ T)")
		return doc + "func " + recv + " " + g.nbid() + g.signature(1) + " " + g.block(d)
	case 8:
		return doc + "func " + g.nbid() + g.signature(1) // no body (external function)
	case 9:
		return doc + "var _ = " + g.expr(d+1)
	default:
		return doc + "func " + g.nbid() + g.signature(1) + " " + g.block(d)
	}
}

// c24genFile returns a random valid Go file.
func c24genFile(r *rand.Rand, ndecl, depth int, comments bool) string {
	g := &c24g{r: r, cmts: comments}
	var sb strings.Builder
	if comments && g.p(2) {
		sb.WriteString("// Package p is generated.\n")
	}
	sb.WriteString("package " + g.pick("p", "main", "foo_test") + "\n\n")
	switch g.r.Intn(4) {
	case 0:
		sb.WriteString("import \"fmt\"\n")
	case 1:
		sb.WriteString("import (\n\t\"io\"\n\tpkg \"a/b\"\n\t. \"c\"\n\t_ \"d\"\n)\n")
	case 2:
		sb.WriteString("import \"io\"; import pkg \"x/y\"\n")
	}
	for i := 0; i < ndecl; i++ {
		sb.WriteString("\n" + g.decl(depth) + "\n")
	}
	if comments && g.p(3) {
		sb.WriteString("\n// trailing comment at EOF")
		if g.p(2) {
			sb.WriteString("\n")
		}
	}
	return sb.String()
}
