package main

// C05, part 2: constructs outside the Lean model (select, type switch, range over array / map / channel,
// closures capturing per-loop variables).  Op = `gosrc <function body with newlines written as ¶>`.
// Only the real interpreter and compiled Go are compared (Out is the constant "unmodelled").

import (
	"fmt"
	"strings"
)

func c05srcPrograms() []string {
	type outer struct{ pre, hdr string }
	outers := []outer{
		{"", "for i := 0; i < 3; i++ {"},
		{"", "for i := range [3]int{} {"},
		{"", "for i := range &[3]int{} {"},
		{"", "for i, c := range \"aé!\" {\n_ = c"},
		{"", "for k := range map[int]bool{1: true} {\ni := k"},
		{"ch := make(chan int, 3)\nch <- 0\nch <- 1\nch <- 2\nclose(ch)", "for i := range ch {"},
		{"i := 0", "for ; ; i++ {\nif i >= 3 {\nbreak\n}"},
	}
	middles := []string{
		"{\ny := i\n_ = y\nINNER\n}",
		"switch x := interface{}(i).(type) {\ncase string:\nemit(50, 0)\ncase int:\n_ = x\nINNER\nemit(54, x)\n}",
		"switch interface{}(i).(type) {\ncase int, int8:\nINNER\ndefault:\nemit(50, 0)\n}",
		"c1 <- i\nselect {\ncase v := <-c1:\nemit(55, v)\nINNER\nemit(56, v)\ndefault:\nemit(51, 0)\n}",
		"select {\ncase v, ok := <-c1:\nemit(55, v)\n_ = ok\ndefault:\nINNER\nemit(57, i)\n}",
		"select {\ncase c1 <- i:\nINNER\nw := <-c1\nemit(58, w)\n}",
		"switch {\ncase i == 1:\nemit(52, i)\nfallthrough\ndefault:\nINNER\nemit(53, i)\ncase i == 7:\nemit(59, i)\n}",
		"switch i {\ncase 0:\nemit(52, i)\nfallthrough\ncase 5:\nselect {\ndefault:\nINNER\n}\nemit(53, i)\ndefault:\nINNER\n}",
		// a select FOLLOWED in the same block by a jump meant for the enclosing loop / switch
		"select {\ndefault:\nemit(51, 0)\n}\nINNER\nemit(62, i)",
		"c1 <- i\nselect {\ncase v := <-c1:\nemit(55, v)\n}\nINNER\nemit(62, i)",
		"select {\ncase c1 <- i:\nemit(58, <-c1)\ndefault:\n}\nemit(63, i)\nINNER",
		"{\nw := i\nselect {\ndefault:\nemit(51, w)\n}\nINNER\nemit(62, w)\n}",
		"switch {\ncase i >= 0:\nselect {\ndefault:\nemit(51, 0)\n}\nINNER\nemit(62, i)\ndefault:\nemit(64, i)\n}",
		"switch x := interface{}(i).(type) {\ncase int:\nc1 <- x\nselect {\ncase v := <-c1:\nemit(55, v)\n}\nINNER\nemit(62, x)\n}",
		"for j := 0; j < 2; j++ {\nselect {\ndefault:\nemit(51, j)\n}\nif j == 1 {\nbreak\n}\nemit(65, j)\n}\nINNER",
		"select {\ndefault:\nselect {\ndefault:\nemit(51, 0)\n}\nINNER\nemit(66, i)\n}\nemit(62, i)",
	}
	inners := []string{
		"emit(60, i)",
		"if i == 1 {\nbreak\n}",
		"if i == 1 {\ncontinue\n}",
		"if i == 1 {\nbreak L\n}",
		"if i == 1 {\ncontinue L\n}",
		"if i == 1 {\nv0 = 9\nreturn\n}",
		"for j := 0; j < 2; j++ {\nif j == i {\ncontinue L\n}\nemit(61, j)\n}",
	}
	var out []string
	for _, o := range outers {
		for _, m := range middles {
			for _, in := range inners {
				body := strings.ReplaceAll(m, "INNER", in)
				lab := ""
				if strings.Contains(body, " L\n") {
					lab = "L:\n"
				}
				src := "c1 := make(chan int, 8)\n_ = c1\n"
				if o.pre != "" {
					src += o.pre + "\n"
				}
				src += lab + o.hdr + "\nemit(1, i)\n" + body + "\nemit(2, i)\n}\nemit(3, v0)"
				out = append(out, src)
			}
		}
	}
	// per-loop (not per-iteration) variables captured by closures: Go < 1.22 semantics
	for _, h := range []string{
		"for i := 0; i < 3; i++ {",
		"for i := range [3]int{} {",
		"for i := range []int{7, 8, 9} {",
		"for _, i := range []int{7, 8, 9} {",
		"for i := range \"abc\" {",
		"for _, r := range \"abc\" {\ni := int(r)",
		"for k := range map[int]int{4: 4} {\ni := k",
	} {
		out = append(out, "var fs []func() int\n"+h+"\nfs = append(fs, func() int { return i })\n}\nfor n, f := range fs {\nemit(80+n, f())\n}")
		out = append(out, "var fs []func() int\n"+h+"\nj := i\nfs = append(fs, func() int { j++; return j + i })\n}\nfor n, f := range fs {\nemit(80+n, f())\nemit(90+n, f())\n}")
	}
	// if / switch header variables are scoped to the statement
	out = append(out,
		"x := 1\nif x := 2; x > 1 {\nemit(1, x)\nx := 3\nemit(2, x)\n} else if y := x + 1; y > 0 {\nemit(3, y)\n}\nemit(4, x)",
		"x := 1\nswitch x := x + 1; x {\ncase 2:\nx := x * 5\nemit(1, x)\nfallthrough\ncase 3:\nemit(2, x)\n}\nemit(3, x)",
		"x := 5\nfor x := 0; x < 2; x++ {\nx := x * 10\nemit(1, x)\n}\nemit(2, x)",
		"x := 5\nfor x, y := range []int{3, 4} {\nemit(1, x+y)\nx := 7\n_ = x\n}\nemit(2, x)",
	)
	return out
}

func c05srcSource(body, fname string) string {
	return "func " + fname + "() (v0, v1, v2, v3 int) {\n" + body + "\nreturn\n}\n"
}

func c05srcDecode(arg string) string { return strings.ReplaceAll(arg, " ¶ ", "\n") }
func c05srcEncode(src string) string { return strings.ReplaceAll(src, "\n", " ¶ ") }

func c05srcKey(body string) string {
	if strings.Contains(body, "func() int") && strings.Contains(body, "for i := range ") {
		// the closure reads the key after the loop: same family as range-assign-form-final-key
		return "range-key-captured-by-closure"
	}
	var parts []string
	for _, k := range []struct{ pat, name string }{
		{".(type)", "typeswitch"}, {"select {", "select"}, {"range ch", "range-chan"}, {"range map", "range-map"},
		{"range &[", "range-array-ptr"}, {"range [3]", "range-array"}, {"range \"", "range-string"}, {"func() int", "closure"},
		{"fallthrough", "fallthrough"}, {" L\n", "label"},
	} {
		if strings.Contains(body, k.pat) {
			parts = append(parts, k.name)
		}
	}
	return "unmodelled-construct:" + strings.Join(parts, "+")
}

var _ = fmt.Sprint
