package main

// C10: interpreted goroutines and channels behave as Go permits on every schedule.
//
// Ops describe one program of a deterministic-by-construction family (see lean/Model/Chan.lean):
//
//	fanin cap=K lists=1,2;3;;4 y=Y      k producers -> one channel -> wg.Wait+close -> sum over range
//	pipe caps=K0,K1,K2 f=A,B g=A,B vals=.. y=Y   source -> stage f -> stage g -> sink (ranges and closes)
//	mutex lists=1,2;3 y=Y               k workers add deltas to a shared counter under a sync.Mutex
//	merge def=0|1 caps=KA,KB la=.. lb=.. y=Y   select over two channels (optionally with default) until both closed
//	shsel r=R sync=bar|yield|none lists=..;.. y=Y   n goroutines execute the SAME select statement (a function
//	                                    literal called by all of them) R times, each on its own pre-filled channel; the channel
//	                                    operands are calls that yield or meet at a barrier between operand evaluation and select
//	calls lists=1,2;3 y=Y               mutex counter whose workers call TOP-LEVEL functions (registry lookups at every call),
//	                                    start nested goroutines with `go topLevelFunc(..)` and recover a panic through a deferred
//	                                    top-level handler
//	f20 n=N                             compile while interpreted goroutines run (child process, see below)
//
// (y = bit mask of the places where the program calls runtime.Gosched()).  The same Go source is
//   - compiled and run by the real interpreter several times with GOMAXPROCS in {1,2,16},
//   - compiled by the Go toolchain and run once (runGoBatch): Go's result,
//   - described to the Lean driver, which runs the model under several schedules and prints the
//     (provably unique) outcome.
// Out = the interpreter's result if all runs agree.  Oracle: all runs agree and equal compiled Go;
// no run deadlocks; with the race-detector build (props/C10.json "race": true) no data race is reported
// while the op runs (the programs are race free by construction, so every report is the interpreter's).

import (
	"fmt"
	"math/rand"
	"os"
	"os/exec"
	"path/filepath"
	"reflect"
	"regexp"
	"runtime"
	"strconv"
	"strings"
	"sync"
	"time"

	"github.com/cosmos72/gomacro/fast"
)

var (
	c10ir      *fast.Interp
	c10irMu    sync.Mutex
	c10go      map[string]string // op -> output of compiled Go
	c10goErr   string
	c10nprog   int
	c10raceOff int64 // bytes of the race log already attributed
)

type c10prog struct {
	family string
	src    string // body of func NAME() string
	ok     bool
}

func c10ints(s string) ([]int, bool) {
	if s == "" {
		return nil, true
	}
	var r []int
	for _, f := range strings.Split(s, ",") {
		n, err := strconv.Atoi(f)
		if err != nil || n < -1000 || n > 1000 {
			return nil, false
		}
		r = append(r, n)
	}
	return r, true
}

func c10lists(s string) ([][]int, bool) {
	var r [][]int
	for _, p := range strings.Split(s, ";") {
		l, ok := c10ints(p)
		if !ok {
			return nil, false
		}
		r = append(r, l)
	}
	return r, len(r) <= 8
}

func c10lit(l []int) string {
	var sb strings.Builder
	sb.WriteString("[]int{")
	for i, v := range l {
		if i > 0 {
			sb.WriteString(", ")
		}
		fmt.Fprint(&sb, v)
	}
	sb.WriteString("}")
	return sb.String()
}

func c10lit2(ls [][]int) string {
	var sb strings.Builder
	sb.WriteString("[][]int{")
	for i, l := range ls {
		if i > 0 {
			sb.WriteString(", ")
		}
		sb.WriteString(strings.TrimPrefix(c10lit(l), "[]int"))
	}
	sb.WriteString("}")
	return sb.String()
}

func c10args(op string) (string, map[string]string) {
	f := strings.Fields(op)
	m := map[string]string{}
	if len(f) == 0 {
		return "", m
	}
	for _, kv := range f[1:] {
		k, v, ok := strings.Cut(kv, "=")
		if ok {
			m[k] = v
		}
	}
	return f[0], m
}

// c10source builds the Go source of the program described by op (body of a func returning string)
func c10source(op string) c10prog {
	fam, a := c10args(op)
	y, _ := strconv.Atoi(a["y"])
	gs := func(bit int) string {
		if y&(1<<bit) != 0 {
			return "runtime.Gosched(); "
		}
		return ""
	}
	bad := c10prog{family: fam}
	switch fam {
	case "fanin":
		capa, err := strconv.Atoi(a["cap"])
		lists, ok := c10lists(a["lists"])
		if err != nil || !ok || capa < 0 || capa > 64 {
			return bad
		}
		return c10prog{fam, fmt.Sprintf(`	c := make(chan int, %d)
	var wg sync.WaitGroup
	lists := %s
	for i := range lists {
		wg.Add(1)
		go func(c chan int, l []int) {
			defer wg.Done()
			for _, v := range l {
				%sc <- v
			}
		}(c, lists[i])
	}
	go func(c chan int) {
		wg.Wait()
		%sclose(c)
	}(c)
	acc := 0
	for v := range c {
		%sacc += v
	}
	return fmt.Sprint(acc)`, capa, c10lit2(lists), gs(0), gs(1), gs(2)), true}
	case "pipe":
		caps, ok1 := c10ints(a["caps"])
		f, ok2 := c10ints(a["f"])
		g, ok3 := c10ints(a["g"])
		vals, ok4 := c10ints(a["vals"])
		if !ok1 || !ok2 || !ok3 || !ok4 || len(caps) != 3 || len(f) != 2 || len(g) != 2 {
			return bad
		}
		for _, k := range caps {
			if k < 0 || k > 64 {
				return bad
			}
		}
		return c10prog{fam, fmt.Sprintf(`	c0 := make(chan int, %d)
	c1 := make(chan int, %d)
	c2 := make(chan int, %d)
	vals := %s
	go func(out chan int, vals []int) {
		for _, v := range vals {
			%sout <- v
		}
		close(out)
	}(c0, vals)
	go func(in, out chan int) {
		for v := range in {
			%sout <- (%d)*v + (%d)
		}
		close(out)
	}(c0, c1)
	go func(in, out chan int) {
		for v := range in {
			%sout <- (%d)*v + (%d)
		}
		close(out)
	}(c1, c2)
	res := []int{}
	for v := range c2 {
		%sres = append(res, v)
	}
	return fmt.Sprint(res)`, caps[0], caps[1], caps[2], c10lit(vals), gs(0), gs(1), f[0], f[1], gs(2), g[0], g[1], gs(3)), true}
	case "mutex":
		lists, ok := c10lists(a["lists"])
		if !ok {
			return bad
		}
		return c10prog{fam, fmt.Sprintf(`	var mu sync.Mutex
	var wg sync.WaitGroup
	cnt := 0
	lists := %s
	for i := range lists {
		wg.Add(1)
		go func(l []int) {
			defer wg.Done()
			for _, d := range l {
				%smu.Lock()
				t := cnt
				%scnt = t + d
				mu.Unlock()
			}
		}(lists[i])
	}
	wg.Wait()
	return fmt.Sprint(cnt)`, c10lit2(lists), gs(0), gs(1)), true}
	case "merge":
		caps, ok1 := c10ints(a["caps"])
		la, ok2 := c10ints(a["la"])
		lb, ok3 := c10ints(a["lb"])
		if !ok1 || !ok2 || !ok3 || len(caps) != 2 || caps[0] < 0 || caps[1] < 0 || caps[0] > 64 || caps[1] > 64 {
			return bad
		}
		def := ""
		bound := len(la) + len(lb) + 2
		if a["def"] == "1" {
			bound = 300000
			def = "\n\t\tdefault:\n\t\t\truntime.Gosched()"
		} else if a["def"] != "0" {
			return bad
		}
		return c10prog{fam, fmt.Sprintf(`	a := make(chan int, %d)
	b := make(chan int, %d)
	go func(c chan int, l []int) {
		for _, v := range l {
			%sc <- v
		}
		close(c)
	}(a, %s)
	go func(c chan int, l []int) {
		for _, v := range l {
			%sc <- v
		}
		close(c)
	}(b, %s)
	acc := 0
	n := 0
	for a != nil || b != nil {
		n++
		if n > %d {
			return "select-spin" // cannot happen in Go: every iteration receives a value, sees a close, or (default) yields
		}
		select {
		case v, ok := <-a:
			if ok {
				acc += v
			} else {
				a = nil
			}
		case v, ok := <-b:
			if ok {
				%sacc += v
			} else {
				b = nil
			}%s
		}
	}
	return fmt.Sprint(acc)`, caps[0], caps[1], gs(0), c10lit(la), gs(1), c10lit(lb), bound, gs(2), def), true}
	case "shsel":
		lists, ok := c10lists(a["lists"])
		r, err := strconv.Atoi(a["r"])
		if !ok || err != nil || r < 0 || r > 16 || len(lists) == 0 {
			return bad
		}
		for _, l := range lists {
			if len(l) < r {
				return bad // every goroutine must find r values in its own channel
			}
		}
		var sync1, sync2 string
		switch a["sync"] {
		case "bar":
			sync2 = "bars[round].Done(); bars[round].Wait(); "
		case "yield":
			sync1, sync2 = "runtime.Gosched(); ", "runtime.Gosched(); "
		case "none":
		default:
			return bad
		}
		return c10prog{fam, fmt.Sprintf(`	lists := %s
	n := len(lists)
	r := %d
	chs := make([]chan int, n)
	for i := range chs {
		chs[i] = make(chan int, len(lists[i])+1)
		for _, v := range lists[i] {
			chs[i] <- v
		}
	}
	never := make(chan int)
	bars := make([]*sync.WaitGroup, r+1)
	for k := range bars {
		bars[k] = new(sync.WaitGroup)
		bars[k].Add(n)
	}
	first := func(id int) chan int {
		%sreturn chs[id]
	}
	second := func(id int, round int) chan int {
		%sreturn never
	}
	sel := func(id int, round int) int {
		got := 0
		select {
		case v := <-first(id):
			%sgot = v
		case v := <-second(id, round):
			got = -1000 - v
		}
		return got
	}
	res := make([][]int, n)
	var wg sync.WaitGroup
	for i := 0; i < n; i++ {
		wg.Add(1)
		go func(id int) {
			defer wg.Done()
			mine := []int{}
			for k := 0; k < r; k++ {
				%smine = append(mine, sel(id, k))
			}
			res[id] = mine
		}(i)
	}
	wg.Wait()
	return fmt.Sprint(res)`, c10lit2(lists), r, sync1, sync2, gs(0), gs(1)), true}
	case "calls":
		lists, ok := c10lists(a["lists"])
		if !ok {
			return bad
		}
		return c10prog{fam, fmt.Sprintf(`	var mu sync.Mutex
	var wg sync.WaitGroup
	cnt := 0
	rec := 0
	esc := 0
	lists := %s
	for i := range lists {
		wg.Add(1)
		go func(l []int) {
			defer wg.Done()
			defer func() {
				if r := recover(); r != nil {
					mu.Lock()
					esc++
					mu.Unlock()
				}
			}()
			for _, d := range l {
				%smu.Lock()
				cnt = c10plus(cnt, d)
				mu.Unlock()
				if d%%2 == 0 {
					wg.Add(1)
					go c10leaf(&wg, &mu, &cnt, nil)
					%s
				}
			}
			if c10risky(len(l), &wg, &mu, &cnt) == "recovered" {
				mu.Lock()
				rec++
				mu.Unlock()
			}
		}(lists[i])
	}
	wg.Wait()
	return fmt.Sprint(cnt, rec, esc)`, c10lit2(lists), gs(0), strings.TrimSuffix(gs(1), " ")), true}
	}
	return bad
}

// top-level functions used by family "calls" (declared once in the interpreter, repeated in every compiled snippet)
const c10prelude = `func c10plus(a, b int) int { return a + b }
func c10leaf(wg *sync.WaitGroup, mu *sync.Mutex, cnt *int, started chan bool) {
	defer wg.Done()
	if started != nil {
		started <- true
	}
	mu.Lock()
	*cnt = c10plus(*cnt, 1)
	mu.Unlock()
}
func c10handler(out *string) {
	if r := recover(); r != nil {
		*out = "recovered"
	}
}
// a deferred top-level handler, then a nested go statement whose goroutine has certainly started, then the panic
func c10risky(k int, wg *sync.WaitGroup, mu *sync.Mutex, cnt *int) (res string) {
	defer c10handler(&res)
	started := make(chan bool)
	wg.Add(1)
	go c10leaf(wg, mu, cnt, started)
	<-started
	if k%2 == 1 {
		panic(k)
	}
	return "ok"
}
`

func c10interp() *fast.Interp {
	if c10ir == nil {
		c10ir = newQuietInterp()
		if _, e := evalSrc(c10ir, `import ("fmt"; "sync"; "runtime")`); e != "" {
			panic("C10: cannot import: " + e)
		}
		if _, e := evalSrc(c10ir, c10prelude); e != "" {
			panic("C10: prelude: " + e)
		}
	}
	return c10ir
}

// run the interpreted function once, with a watchdog
func c10call(fn func() string) (res string) {
	done := make(chan string, 1)
	go func() {
		defer func() {
			if r := recover(); r != nil {
				done <- "PANIC: " + oneLine(fmt.Sprint(r))
			}
		}()
		done <- fn()
	}()
	select {
	case r := <-done:
		return r
	case <-time.After(60 * time.Second):
		return "TIMEOUT"
	}
}

func c10prepare(ops []string) {
	c10go = map[string]string{}
	var snips []Snippet
	var idx []string
	seen := map[string]bool{}
	for _, op := range ops {
		if seen[op] {
			continue
		}
		seen[op] = true
		p := c10source(op)
		if !p.ok {
			continue
		}
		snips = append(snips, Snippet{Imports: []string{"sync", "runtime"},
			Decls: "var _ sync.Mutex\nvar _ = runtime.Gosched\n\n" + c10prelude + "\nfunc prog() string {\n" + p.src + "\n}\n",
			Body:  "\temit(prog())"})
		idx = append(idx, op)
	}
	if len(snips) == 0 {
		return
	}
	outs, err := runGoBatch("C10", snips)
	if err != nil {
		c10goErr = err.Error()
		return
	}
	for i, op := range idx {
		c10go[op] = outs[i]
	}
}

// new race reports since the last call (race-detector build with GORACE log_path set by c10_race.go)
func c10newRaces() string {
	path := os.Getenv("C10_RACE_LOG")
	if path == "" {
		return ""
	}
	b, err := os.ReadFile(path + "." + strconv.Itoa(os.Getpid()))
	if err != nil || int64(len(b)) <= c10raceOff {
		return ""
	}
	s := string(b[c10raceOff:])
	c10raceOff = int64(len(b))
	return s
}

// c10raceFrames: the first gomacro frame of each of the two access stacks of ONE race report
func c10raceFrames(rep string) []string {
	var fr []string
	inStack := false
	for _, l := range strings.Split(rep, "\n") {
		t := strings.TrimSpace(l)
		if strings.HasPrefix(t, "Write at") || strings.HasPrefix(t, "Read at") || strings.HasPrefix(t, "Previous write at") || strings.HasPrefix(t, "Previous read at") ||
			strings.HasPrefix(t, "Atomic write at") || strings.HasPrefix(t, "Previous atomic write at") || strings.HasPrefix(t, "Atomic read at") || strings.HasPrefix(t, "Previous atomic read at") {
			inStack = true
			continue
		}
		if t == "" {
			inStack = false
			continue
		}
		if inStack && strings.Contains(t, "github.com/cosmos72/gomacro/") && !strings.HasPrefix(t, "/") {
			fr = append(fr, strings.TrimSuffix(strings.TrimPrefix(t, "github.com/cosmos72/gomacro/"), "()"))
			inStack = false
			if len(fr) == 2 {
				break
			}
		}
	}
	return fr
}

// c10raceSplit cuts the text of a race log into single reports
func c10raceSplit(txt string) []string {
	var out []string
	for _, part := range strings.Split(txt, "==================") {
		if strings.Contains(part, "DATA RACE") {
			out = append(out, part)
		}
	}
	return out
}

var (
	c10reCallCache = regexp.MustCompile(`^fast\.\(\*Comp\)\.call\w*\.func[\d.]+$`)
	c10reAddress   = regexp.MustCompile(`^fast\.\(\*Var\)\.Address\.func[\d.]+$`)
)

// c10raceKeyOf: key of ONE report.  Races whose both accesses are inside one of two families of generated closures get a
// stable name (the closure numbers differ per arity / kind):
//
//	race-call-cache            fast/call*ret*.go: the compiled call statement caches the callee (cachedfunv, cachedfun) in
//	                           variables shared by every goroutine executing that statement
//	race-intaddresstaken-flag  fast/address.go: &x of an integer variable of an outer frame sets env.IntAddressTaken = true
//
// and the unsynchronised type universe (F20) keeps its own key; everything else is race:<frame>|<frame>.
func c10raceKeyOf(rep string) string {
	fr := c10raceFrames(rep)
	if len(fr) == 0 {
		return "race-outside-interpreter"
	}
	all := func(re *regexp.Regexp) bool {
		for _, f := range fr {
			if !re.MatchString(f) {
				return false
			}
		}
		return true
	}
	key := "race:" + strings.Join(fr, "|")
	switch {
	case all(c10reCallCache):
		return "race-call-cache"
	case all(c10reAddress):
		return "race-intaddresstaken-flag"
	case strings.Contains(key, "typeutil") || strings.Contains(key, "xreflect.(*Universe)"):
		return "compile-while-running-universe-race"
	}
	return key
}

// c10raceKey: key of a batch of reports: an unnamed race (race:...) wins over the named families, so that a recorded
// finding cannot hide another race reported during the same program
func c10raceKey(txt string) string {
	k, _ := c10racePick(txt, nil)
	return k
}

// c10racePick returns the key and the text of the report chosen by c10raceKey among those accepted by keep
func c10racePick(txt string, keep func(frames []string) bool) (string, string) {
	first, firstRep := "", ""
	for _, rep := range c10raceSplit(txt) {
		if keep != nil && !keep(c10raceFrames(rep)) {
			continue
		}
		k := c10raceKeyOf(rep)
		if strings.HasPrefix(k, "race:") {
			return k, rep
		}
		if first == "" {
			first, firstRep = k, rep
		}
	}
	return first, firstRep
}

func c10exec(op string) Result {
	fam, a := c10args(op)
	if fam == "f20" {
		return c10f20(a)
	}
	if fam == "f20child" {
		c10f20child(a)
		return Result{Out: "ok"}
	}
	p := c10source(op)
	if !p.ok {
		return Result{Out: "bad-op", Tags: []string{"malformed"}}
	}
	ir := c10interp()
	c10nprog++
	name := fmt.Sprintf("prog%d", c10nprog)
	res := Result{Tags: []string{fam}, Nontrivial: true}
	if _, e := evalSrc(ir, "func "+name+"() string {\n"+p.src+"\n}"); e != "" {
		res.Out = "COMPILE-ERROR " + e
		res.Viol, res.Key = "the interpreter rejects a valid program: "+e, "compile-error-"+fam
		return res
	}
	vals, e := evalSrc(ir, name)
	if e != "" || len(vals) != 1 || vals[0].Kind() != reflect.Func {
		res.Out = "NO-FUNC " + e
		return res
	}
	fn, ok := vals[0].Interface().(func() string)
	if !ok {
		res.Out = "NO-FUNC type"
		return res
	}
	c10newRaces() // reports caused by compiling belong to nobody
	old := runtime.GOMAXPROCS(0)
	defer runtime.GOMAXPROCS(old)
	var outs []string
	for _, procs := range []int{1, 2, 16} {
		runtime.GOMAXPROCS(procs)
		o := c10call(fn)
		outs = append(outs, o)
		if o == "TIMEOUT" {
			break // the goroutines of a program that hangs stay blocked: do not start more of them
		}
	}
	runtime.GOMAXPROCS(old)
	res.Out = "ok " + outs[0]
	for i, o := range outs {
		if o != outs[0] {
			res.Out = "NONDET " + strings.Join(outs, " | ")
			res.Viol = fmt.Sprintf("the interpreter's result depends on the schedule: run %d gave %q, run 0 gave %q\n%s", i, o, outs[0], p.src)
			res.Key = "schedule-dependent-result-" + fam
			return res
		}
	}
	if outs[0] == "TIMEOUT" || strings.HasPrefix(outs[0], "PANIC") {
		res.Viol, res.Key = "interpreted program did not finish normally: "+outs[0]+"\n"+p.src, "deadlock-or-panic-"+fam
		return res
	}
	if c10goErr != "" {
		res.Viol, res.Key = "compiled-Go oracle failed: "+c10goErr, "oracle-build"
		return res
	}
	if g, ok := c10go[op]; ok && g != outs[0] {
		// The interpreter deviates from Go.  The violation carries the interpreter's result; the line compared
		// with the model shows Go's result, so that the two comparisons stay separate: interpreter = compiled Go
		// (this oracle) and compiled Go = model (correspondence).
		res.Viol = fmt.Sprintf("interpreter result %q differs from compiled Go %q\n%s", outs[0], g, p.src)
		res.Key = "differs-from-compiled-go-" + fam
		if outs[0] == "select-spin" {
			res.Key = "select-recv-ok-on-closed-channel"
		}
		res.Out = "ok " + g
		res.Tags = append(res.Tags, "go-mismatch")
		return res
	}
	if rep := c10newRaces(); rep != "" {
		key, one := c10racePick(rep, nil)
		if key != "" {
			res.Viol = "data race reported while a race-free program ran:\n" + truncate(one, 3000)
			res.Key = key
			res.Tags = append(res.Tags, "race-report")
		}
	}
	return res
}

// ---- F20: compiling while interpreted goroutines run (REPL use) ----

// parent: run the scenario in a child process (a fatal "concurrent map read and map write" would kill us)
func c10f20(a map[string]string) Result {
	res := Result{Out: "ok", Tags: []string{"f20"}, Nontrivial: true}
	dir := workDir("c10-f20")
	rp := filepath.Join(dir, "ops.txt")
	os.WriteFile(rp, []byte("f20child n="+a["n"]+"\n"), 0o644)
	cmd := exec.Command(os.Args[0], "run", "-prop", "C10", "-out", filepath.Join(dir, "out"), "-replay", rp)
	logp := filepath.Join(dir, "race")
	for _, f := range mustGlob(logp + ".*") {
		os.Remove(f)
	}
	cmd.Env = append(os.Environ(), "GORACE=exitcode=0 log_path="+logp, "C10_RACE_LOG="+logp, "C10_CHILD=1")
	out, err := cmd.CombinedOutput()
	txt := string(out)
	for _, f := range mustGlob(logp + ".*") {
		b, _ := os.ReadFile(f)
		txt += string(b)
	}
	switch {
	case strings.Contains(txt, "concurrent map"):
		res.Viol = "compiling while interpreted goroutines run: fatal error: concurrent map read and map write (xreflect.Universe / typeutil.Map)\n" + truncate(c10firstStack(txt, "fatal error"), 2500)
		res.Key = "compile-while-running-universe-race"
	case strings.Contains(txt, "DATA RACE"):
		res.Viol = "compiling while interpreted goroutines run: data race\n" + truncate(c10firstStack(txt, "DATA RACE"), 2500)
		res.Key = "compile-while-running-universe-race"
		if k := c10raceKey(txt); !strings.Contains(k, "xreflect") && !strings.Contains(k, "typeutil") {
			res.Key = k
		}
	case err != nil:
		res.Viol = "child process failed: " + err.Error() + "\n" + truncate(txt, 1500)
		res.Key = "f20-child-failed"
	}
	return res
}

func mustGlob(p string) []string { m, _ := filepath.Glob(p); return m }

func c10firstStack(txt, marker string) string {
	i := strings.Index(txt, marker)
	if i < 0 {
		return txt
	}
	return txt[i:]
}

// child: goroutines execute interpreted declarations of non-integer variables while the main goroutine compiles
func c10f20child(a map[string]string) {
	n, _ := strconv.Atoi(a["n"])
	if n <= 0 || n > 100000 {
		n = 200
	}
	ir := c10interp()
	evalSrc(ir, `func spin(n int, done chan bool) { for i := 0; i < n; i++ { var s []string; e := interface{}(i); _ = e; s = append(s, "x"); _ = s }; done <- true }`)
	evalSrc(ir, `var done = make(chan bool, 4)`)
	evalSrc(ir, fmt.Sprintf(`go spin(%d, done); go spin(%d, done)`, n*50, n*50))
	for i := 0; i < n; i++ {
		evalSrc(ir, fmt.Sprintf(`type T%d struct { A int; B []map[string]*T%d }; func f%d(x T%d) [%d]T%d { var r [%d]T%d; return r }`, i, i, i, i, i%7+1, i, i%7+1, i))
	}
	evalSrc(ir, `<-done; <-done`)
}

// ---- generator ----

func c10rlist(r *rand.Rand, maxLen int) string {
	n := r.Intn(maxLen + 1)
	var s []string
	for i := 0; i < n; i++ {
		s = append(s, strconv.Itoa(r.Intn(30)-9))
	}
	return strings.Join(s, ",")
}

func c10rlists(r *rand.Rand, maxK, maxLen int) string {
	k := 1 + r.Intn(maxK)
	var s []string
	for i := 0; i < k; i++ {
		s = append(s, c10rlist(r, maxLen))
	}
	return strings.Join(s, ";")
}

func c10gen(r *rand.Rand, tier string, emit func(string)) {
	caps := []int{0, 0, 1, 2, 3, 8}
	// bounded-exhaustive core: all capacities up to 2 with fixed small data
	for _, k := range []int{0, 1, 2} {
		for _, ls := range []string{"1;2", "1,2;3", ";5", "4,5,6", "1;2;3;4"} {
			emit(fmt.Sprintf("fanin cap=%d lists=%s y=0", k, ls))
			emit(fmt.Sprintf("mutex lists=%s y=%d", ls, k))
		}
		for _, k1 := range []int{0, 1, 2} {
			emit(fmt.Sprintf("pipe caps=%d,%d,%d f=2,1 g=-1,3 vals=1,2,3,4 y=0", k, k1, (k+k1)%3))
			for _, d := range []int{0, 1} {
				emit(fmt.Sprintf("merge def=%d caps=%d,%d la=1,2,3 lb=10,20 y=0", d, k, k1))
			}
		}
	}
	for _, sy := range []string{"bar", "yield", "none"} {
		emit("shsel r=1 sync=" + sy + " lists=1,2;10,20 y=0")
		emit("shsel r=2 sync=" + sy + " lists=1,2,3,4,5,6;10,20,30,40,50,60;100,200,300,400,500,600 y=0")
		emit("shsel r=3 sync=" + sy + " lists=1,2,3,4,5,6,7,8,9,10,11,12;-1,-2,-3,-4,-5,-6,-7,-8,-9,-10,-11,-12;21,22,23,24,25,26,27,28,29,30,31,32;41,42,43,44,45,46,47,48,49,50,51,52 y=3")
	}
	emit("calls lists=1;2 y=0")
	emit("calls lists=2,4,6;1,3;8 y=0")
	emit("calls lists=2,2,2,2;4,4,4;6,6,6,6,6;1 y=3")
	emit("pipe caps=0,0,0 f=1,0 g=1,0 vals= y=0")
	emit("fanin cap=0 lists= y=0")
	emit("merge def=0 caps=0,0 la= lb= y=0")
	n := 60
	if tier == "thorough" {
		n = 2500
	}
	for i := 0; i < n; i++ {
		y := r.Intn(16)
		switch r.Intn(6) {
		case 4:
			// n goroutines, r rounds, every channel holds n*r+extra values (so that a run in which the goroutines
			// steal from each other's channels still terminates and shows a wrong result instead of hanging)
			n, rounds := 2+r.Intn(3), 1+r.Intn(3)
			var ls []string
			for i := 0; i < n; i++ {
				var vs []string
				for j := 0; j < n*rounds+r.Intn(3); j++ {
					vs = append(vs, strconv.Itoa(100*(i+1)+j))
				}
				ls = append(ls, strings.Join(vs, ","))
			}
			emit(fmt.Sprintf("shsel r=%d sync=%s lists=%s y=%d", rounds, []string{"bar", "bar", "yield", "none"}[r.Intn(4)], strings.Join(ls, ";"), y%4))
		case 5:
			emit(fmt.Sprintf("calls lists=%s y=%d", c10rlists(r, 5, 6), y%4))
		case 0:
			emit(fmt.Sprintf("fanin cap=%d lists=%s y=%d", caps[r.Intn(len(caps))], c10rlists(r, 5, 6), y))
		case 1:
			emit(fmt.Sprintf("pipe caps=%d,%d,%d f=%d,%d g=%d,%d vals=%s y=%d", caps[r.Intn(len(caps))], caps[r.Intn(len(caps))], caps[r.Intn(len(caps))],
				r.Intn(7)-3, r.Intn(11)-5, r.Intn(7)-3, r.Intn(11)-5, c10rlist(r, 12), y))
		case 2:
			emit(fmt.Sprintf("mutex lists=%s y=%d", c10rlists(r, 5, 6), y))
		default:
			emit(fmt.Sprintf("merge def=%d caps=%d,%d la=%s lb=%s y=%d", r.Intn(2), caps[r.Intn(len(caps))], caps[r.Intn(len(caps))], c10rlist(r, 8), c10rlist(r, 8), y))
		}
	}
	// malformed descriptions: both sides must reject them
	emit("fanin cap=x lists=1 y=0")
	emit("pipe caps=1,2 f=1,1 g=1,1 vals=1 y=0")
	emit("merge def=2 caps=1,1 la=1 lb=2 y=0")
	emit("shsel r=3 sync=bar lists=1,2;3,4,5 y=0")
	emit("shsel r=1 sync=maybe lists=1;2 y=0")
	emit("bogus a=1")
	// the REPL scenario of finding F20
	emit("f20 n=60")
}

func init() {
	register(&Prop{
		ID: "C10",
		Rule: "race-free concurrent programs of six families (fan-in with sum, 2-stage pipeline, mutex counter, select merge with/without default, " +
			"n goroutines in the same select statement with synchronising operands, mutex counter through top-level functions with nested go statements and a deferred top-level recover handler): " +
			"bounded-exhaustive over capacities {0,1,2} with fixed data, then random capacities/data/yield points; each run 3x by the interpreter " +
			"(GOMAXPROCS 1,2,16), once by compiled Go, and by the Lean model under 3 schedules; non-trivial = every well-formed program",
		Gen:        c10gen,
		Exec:       c10exec,
		Prepare:    c10prepare,
		Exhaustive: func(string) bool { return false },
	})
}
