package main

// C15: a failed evaluation leaves earlier definitions intact.
//
// Op lines (model side: lean/Drv/C15.lean):
//   reset
//   in ITEM|ITEM|...     one Interp.Eval of the items joined by "; "      -> ok | cfail | panic
//   in SYNTAX            an input with a syntax error
//   get N                what the name n<N> resolves to                   -> CLASS TYPE idx= val= typeOk=
//   stat                 BindNum / IntBindNum
// ITEM = var N T V | varT N TN V | const N T V | func N T B ok|bad | typ TN D | bad undef|type | boom
// (T: 0 int, 1 string; named type T<TN> = struct{ F<D> int }).
// Oracle: a plain store of the last successfully evaluated definitions ("the last successful value").

import (
	"fmt"
	"math/rand"
	"reflect"
	"strconv"
	"strings"

	"github.com/cosmos72/gomacro/fast"
)

type c15def struct {
	cls string // ivar bvar const func
	ty  string // int string T
	val string
	d0  int // named type variables: field name number at declaration
}

type c15state struct {
	ir       *fast.Interp
	want     map[int]*c15def // oracle: last successful definitions
	unknown  map[int]bool    // names whose state the property does not define (declared after a run-time panic)
	types    map[int]int     // oracle: type name -> current definition
	lastFail string          // "", "cfail", "panic": outcome of the latest input
	lastType bool            // the latest successful input redefined a named type
	scopeBad bool            // the latest input failed in a statement that had opened a scope
	diverged bool
}

var c15 *c15state

func c15new() *c15state {
	return &c15state{ir: newQuietInterp(), want: map[int]*c15def{}, unknown: map[int]bool{}, types: map[int]int{}}
}

func c15val(ty int, v string) string {
	switch ty {
	case 0:
		return v
	case 2:
		return v + ".5"
	case 3:
		if n, _ := strconv.Atoi(v); n%2 == 1 {
			return "true"
		}
		return "false"
	}
	return `"s` + v + `"`
}
func c15tyname(ty int) string {
	switch ty {
	case 0:
		return "int"
	case 2:
		return "float64"
	case 3:
		return "bool"
	}
	return "string"
}

type c15item struct {
	w   []string
	src string
}

// parse an item, return its source
func c15parse(it string) (c15item, bool) {
	w := strings.Split(it, " ")
	num := func(i int) (int, bool) {
		if i >= len(w) {
			return 0, false
		}
		n, err := strconv.Atoi(w[i])
		return n, err == nil && n >= 0
	}
	switch w[0] {
	case "var", "const":
		n, o1 := num(1)
		t, o2 := num(2)
		_, o3 := num(3)
		if !o1 || !o2 || !o3 || len(w) != 4 {
			return c15item{}, false
		}
		if t > 3 || (w[0] == "const" && t != 0) {
			t = 1
		}
		return c15item{w, fmt.Sprintf("%s n%d %s = %s", w[0], n, c15tyname(t), c15val(t, w[3]))}, true
	case "varT":
		n, o1 := num(1)
		t, o2 := num(2)
		_, o3 := num(3)
		if !o1 || !o2 || !o3 || len(w) != 4 {
			return c15item{}, false
		}
		return c15item{w, fmt.Sprintf("var n%d = T%d{%s}", n, t, w[3])}, true
	case "func":
		n, o1 := num(1)
		t, o2 := num(2)
		_, o3 := num(3)
		if !o1 || !o2 || !o3 || len(w) != 5 {
			return c15item{}, false
		}
		if t != 0 {
			t = 1
		}
		body := c15val(t, w[3])
		if w[4] != "ok" {
			body = "undefinedname" + w[3]
		}
		return c15item{w, fmt.Sprintf("func n%d() %s { return %s }", n, c15tyname(t), body)}, true
	case "typ":
		t, o1 := num(1)
		d, o2 := num(2)
		if !o1 || !o2 || len(w) != 3 {
			return c15item{}, false
		}
		return c15item{w, fmt.Sprintf("type T%d struct { F%d int }", t, d)}, true
	case "alias":
		t, o1 := num(1)
		u, o2 := num(2)
		if !o1 || !o2 || len(w) != 3 {
			return c15item{}, false
		}
		return c15item{w, fmt.Sprintf("type T%d = T%d", t, u)}, true
	case "bad":
		if len(w) != 2 {
			return c15item{}, false
		}
		if w[1] == "type" {
			return c15item{w, `var _ int = "x"`}, true
		}
		if w[1] == "scope" {
			// a STATEMENT that fails to compile after it opened a local scope
			return c15item{w, "for i := 0; i < 1; i++ { undefinedname }"}, true
		}
		return c15item{w, "var _ = undefinedname"}, true
	case "boom":
		if len(w) != 1 {
			return c15item{}, false
		}
		return c15item{w, `panic("boom")`}, true
	}
	return c15item{}, false
}

func c15eval(ir *fast.Interp, src string) (status string, vals []reflect.Value) {
	var expr *fast.Expr
	failed := func() (f bool) {
		defer func() {
			if e := recover(); e != nil {
				f = true
			}
		}()
		expr = ir.Compile(src)
		return false
	}()
	if failed {
		return "cfail", nil
	}
	failed = func() (f bool) {
		defer func() {
			if e := recover(); e != nil {
				f = true
			}
		}()
		vs, _ := ir.RunExpr(expr)
		for _, v := range vs {
			vals = append(vals, v.ReflectValue())
		}
		return false
	}()
	if failed {
		return "panic", nil
	}
	return "ok", vals
}

// observation of a name on the real interpreter
func (st *c15state) observe(n int) (full string, noIdx string) {
	name := fmt.Sprintf("n%d", n)
	b := st.ir.Comp.Binds[name]
	if b == nil {
		return "none", "none"
	}
	cls := "?"
	switch b.Desc.Class() {
	case fast.IntBind:
		cls = "ivar"
	case fast.VarBind:
		cls = "bvar"
	case fast.ConstBind:
		cls = "const"
	case fast.FuncBind:
		cls = "func"
	}
	t := b.Type
	if cls == "func" && t != nil && t.NumOut() == 1 {
		t = t.Out(0)
	}
	ty := "?"
	if t != nil {
		switch t.Kind() {
		case reflect.Int:
			ty = "int"
		case reflect.String:
			ty = "string"
		case reflect.Float64:
			ty = "float64"
		case reflect.Bool:
			ty = "bool"
		case reflect.Struct:
			ty = "T"
		}
	}
	idx := "-"
	if i := b.Desc.Index(); i != fast.NoIndex {
		idx = strconv.Itoa(i)
	}
	// read the value the way a user would
	expr := name
	if cls == "func" {
		expr = name + "()"
	}
	if ty == "T" {
		d0 := -1
		if w := st.want[n]; w != nil && w.ty == "T" {
			d0 = w.d0
		} else if t.NumField() == 1 {
			fmt.Sscanf(t.Field(0).Name, "F%d", &d0)
		}
		expr = fmt.Sprintf("%s.F%d", name, d0)
	}
	val, typeOk := "-", true
	status, vals := c15eval(st.ir, expr)
	switch {
	case status == "cfail" && ty == "T":
		typeOk = false
	case status == "ok" && len(vals) == 1 && vals[0].IsValid():
		switch x := vals[0].Interface().(type) {
		case int:
			val = strconv.Itoa(x)
		case float64:
			val = strconv.Itoa(int(x))
			if x != float64(int(x))+0.5 {
				val = fmt.Sprintf("?%v", x) // not a value any input assigned (e.g. int bits read as float)
			}
		case bool:
			val = "0"
			if x {
				val = "1"
			}
		case string:
			val = strings.TrimPrefix(x, "s")
			if x == "<invalid Value>" {
				val = "-" // declared, never initialised (the evaluation panicked before)
			}
		default:
			val = fmt.Sprintf("?%T", x)
		}
	}
	full = fmt.Sprintf("%s %s idx=%s val=%s typeOk=%v", cls, ty, idx, val, typeOk)
	noIdx = fmt.Sprintf("%s %s val=%s typeOk=%v", cls, ty, val, typeOk)
	return
}

func (d *c15def) String() string {
	return fmt.Sprintf("%s %s val=%s typeOk=true", d.cls, d.ty, d.val)
}

func c15exec(op string) Result {
	f, arg, _ := strings.Cut(op, " ")
	if f == "reset" {
		c15 = c15new()
		return Result{Out: "ok", Tags: []string{"reset"}}
	}
	if c15 == nil {
		c15 = c15new()
	}
	st := c15
	switch f {
	case "stat":
		c := st.ir.Comp
		return Result{Out: fmt.Sprintf("stat bn=%d ibn=%d", c.BindNum, c.IntBindNum), Tags: []string{"stat"}}
	case "gett":
		t, err := strconv.Atoi(arg)
		if err != nil || t < 0 {
			return Result{Out: "bad-op"}
		}
		out := "none"
		if xt := st.ir.Comp.Types[fmt.Sprintf("T%d", t)]; xt != nil {
			out = "type def=-"
			if xt.Kind() == reflect.Struct && xt.NumField() == 1 {
				d := -1
				if _, err := fmt.Sscanf(xt.Field(0).Name, "F%d", &d); err == nil {
					out = fmt.Sprintf("type def=%d", d)
				}
			}
		}
		r := Result{Out: out, Tags: []string{"gett"}, Nontrivial: out != "none", Sig: out + "|" + st.lastFail}
		if st.diverged {
			return r
		}
		want := "none"
		if d, ok := st.types[t]; ok {
			want = fmt.Sprintf("type def=%d", d)
		}
		if out != want {
			key := "type-name-mismatch"
			if st.lastFail == "cfail" {
				key = "failed-compile-clobbers-type"
			}
			r.Viol = fmt.Sprintf("T%d denotes %q, the last successful definitions say %q (latest input: %s)", t, out, want, st.lastFail)
			r.Key = key
			r.Tags = append(r.Tags, "viol:"+key)
			st.diverged = true
		}
		return r
	case "get":
		n, err := strconv.Atoi(arg)
		if err != nil || n < 0 {
			return Result{Out: "bad-op"}
		}
		full, noIdx := st.observe(n)
		r := Result{Out: full, Tags: []string{"get", "get-" + strings.Fields(full)[0]}, Nontrivial: full != "none"}
		r.Sig = noIdx + "|" + st.lastFail
		if st.unknown[n] || st.diverged {
			return r
		}
		want := "none"
		if w := st.want[n]; w != nil {
			want = w.String()
		}
		if noIdx != want {
			key := "get-mismatch"
			switch {
			case st.lastFail == "cfail":
				key = "failed-compile-clobbers:" + strings.Fields(want)[0] + "->" + strings.Fields(noIdx)[0]
				if want == "none" {
					// a name first declared by the failing input stays (half) declared
					key = "failed-compile-leaks:" + strings.Fields(noIdx)[0]
				}
				if strings.Contains(noIdx, "val=-") {
					key += ":no-value"
				}
			case strings.Contains(noIdx, "typeOk=false") || (st.lastType && st.want[n] != nil && st.want[n].ty == "T"):
				key = "type-redefinition-breaks-var"
			case st.lastFail == "panic":
				key = "panic-clobbers:" + strings.Fields(want)[0]
			}
			r.Viol = fmt.Sprintf("n%d resolves to %q, the last successful definitions say %q (latest input: %s)", n, noIdx, want, st.lastFail)
			r.Key = key
			r.Tags = append(r.Tags, "viol:"+key)
			st.diverged = true
		}
		return r
	case "in":
		var items []c15item
		src := ""
		expect := "ok"
		if arg == "SYNTAX" {
			src = "var = = 3"
			expect = "cfail"
		} else {
			var parts []string
			for _, it := range strings.Split(arg, "|") {
				p, ok := c15parse(it)
				if !ok {
					return Result{Out: "bad-op", Tags: []string{"bad-op"}}
				}
				items = append(items, p)
				parts = append(parts, p.src)
			}
			src = strings.Join(parts, "; ")
			// does the input compile? (oracle: Go's rules on the last successful definitions)
			types := map[int]bool{}
			for t := range st.types {
				types[t] = true
			}
			boom := false
			for _, it := range items {
				switch it.w[0] {
				case "bad":
					expect = "cfail"
				case "func":
					if it.w[4] != "ok" {
						expect = "cfail"
					}
				case "typ":
					t, _ := strconv.Atoi(it.w[1])
					types[t] = true
				case "alias":
					t, _ := strconv.Atoi(it.w[1])
					u, _ := strconv.Atoi(it.w[2])
					if !types[u] {
						expect = "cfail"
					}
					types[t] = true
				case "varT":
					t, _ := strconv.Atoi(it.w[2])
					if !types[t] {
						expect = "cfail"
					}
				case "boom":
					boom = true
				}
			}
			if expect == "ok" && boom {
				expect = "panic"
			}
		}
		status, _ := c15eval(st.ir, src)
		tags := []string{"in", "in-" + status, fmt.Sprintf("items-%d", len(items))}
		failPos := -1
		for i, it := range items {
			tags = append(tags, "item-"+it.w[0])
			if failPos < 0 && (it.w[0] == "bad" || (it.w[0] == "func" && it.w[4] != "ok")) {
				failPos = i
				tags = append(tags, fmt.Sprintf("fail-at-%d", i), "fail-"+strings.Join(it.w[:1], "")+"-"+it.w[len(it.w)-1])
			}
		}
		r := Result{Out: status, Tags: tags, Nontrivial: true, Sig: fmt.Sprintf("%s|%v|%d", status, tags, failPos)}
		if status != expect && !st.diverged {
			r.Viol = fmt.Sprintf("input %q: interpreter says %s, Go's rules on the definitions so far say %s", src, status, expect)
			r.Key = "status-" + status + "-want-" + expect
			if st.scopeBad && status == "panic" {
				r.Key = "failed-input-code-runs-later"
				r.Viol += " (the previous input failed to compile inside a statement with a local scope: its PushEnv was left in the code buffer and runs now)"
			}
			r.Tags = append(r.Tags, "viol:"+r.Key)
			st.diverged = true
		}
		st.lastFail, st.lastType = "", false
		st.scopeBad = false
		for _, it := range items {
			if it.w[0] == "bad" && it.w[1] == "scope" {
				st.scopeBad = true
			}
		}
		switch expect {
		case "cfail":
			st.lastFail = "cfail"
		case "ok", "panic":
			if expect == "panic" {
				st.lastFail = "panic"
			}
			// apply the items in order; after the panic nothing is initialised
			dead := false
			for _, it := range items {
				w := it.w
				switch w[0] {
				case "boom":
					dead = true
				case "typ":
					t, _ := strconv.Atoi(w[1])
					d, _ := strconv.Atoi(w[2])
					if _, redefined := st.types[t]; redefined {
						st.lastType = true
						r.Tags = append(r.Tags, "type-redefined")
					}
					st.types[t] = d
				case "alias":
					t, _ := strconv.Atoi(w[1])
					u, _ := strconv.Atoi(w[2])
					if _, redefined := st.types[t]; redefined {
						st.lastType = true
						r.Tags = append(r.Tags, "type-redefined-by-alias")
					}
					st.types[t] = st.types[u]
				case "var", "const", "func", "varT":
					n, _ := strconv.Atoi(w[1])
					if _, re := st.want[n]; re {
						r.Tags = append(r.Tags, "redefine-"+w[0])
					}
					if dead && w[0] != "const" {
						// declared, never initialised: outside the property
						st.unknown[n] = true
						delete(st.want, n)
						continue
					}
					delete(st.unknown, n)
					switch w[0] {
					case "var":
						cls, ty := "bvar", "string"
						switch w[2] {
						case "0":
							cls, ty = "ivar", "int"
						case "2":
							cls, ty = "ivar", "float64"
						case "3":
							cls, ty = "ivar", "bool"
						}
						st.want[n] = &c15def{cls: cls, ty: ty, val: w[3]}
					case "const":
						ty := "int"
						if w[2] != "0" {
							ty = "string"
						}
						st.want[n] = &c15def{cls: "const", ty: ty, val: w[3]}
					case "func":
						ty := "int"
						if w[2] != "0" {
							ty = "string"
						}
						st.want[n] = &c15def{cls: "func", ty: ty, val: w[3]}
					case "varT":
						t, _ := strconv.Atoi(w[2])
						st.want[n] = &c15def{cls: "bvar", ty: "T", val: w[3], d0: st.types[t]}
					}
				}
			}
		}
		return r
	}
	return Result{Out: "bad-op", Tags: []string{"bad-op"}}
}

// ---------- generator ----------

func c15randItem(r *rand.Rand, names, tnames int, failing bool) string {
	if failing {
		switch r.Intn(5) {
		case 4:
			return "bad scope"
		case 0:
			return "bad undef"
		case 1:
			return "bad type"
		case 2:
			return fmt.Sprintf("func %d %d %d bad", r.Intn(names), r.Intn(2), r.Intn(90))
		default:
			if r.Intn(3) == 0 {
				return fmt.Sprintf("alias %d %d", r.Intn(tnames), tnames+1+r.Intn(2)) // alias of an undefined type
			}
			return fmt.Sprintf("varT %d %d %d", r.Intn(names), tnames+1+r.Intn(2), r.Intn(90)) // undefined type
		}
	}
	switch r.Intn(12) {
	case 10:
		return fmt.Sprintf("alias %d %d", r.Intn(tnames), r.Intn(tnames))
	case 11:
		return fmt.Sprintf("var %d 3 %d", r.Intn(names), r.Intn(2))
	case 0, 1, 2:
		return fmt.Sprintf("var %d %d %d", r.Intn(names), r.Intn(3), r.Intn(90))
	case 3, 4:
		return fmt.Sprintf("varT %d %d %d", r.Intn(names), r.Intn(tnames), r.Intn(90))
	case 5:
		return fmt.Sprintf("const %d %d %d", r.Intn(names), r.Intn(2), r.Intn(90))
	case 6, 7:
		return fmt.Sprintf("func %d %d %d ok", r.Intn(names), r.Intn(2), r.Intn(90))
	default:
		return fmt.Sprintf("typ %d %d", r.Intn(tnames), 1+r.Intn(4))
	}
}

// Go (and gomacro's dependency sorter, base/dep) treats the declarations of one input as an unordered
// set: types are compiled before the declarations that use them and all declarations of one NAME are
// grouped; a name declared twice in one input is not valid Go at all.  The generator therefore emits
// only inputs that are in-order code: the declarations of one name adjacent (the sorter groups them), a named type used only
// after its (re)declaration in the same input, and a run-time panic only as the last statement (nothing
// is declared-but-never-initialised).  The model compiles the items in the order given.
func c15inOrder(items []string) bool {
	used := map[string]bool{}
	names := map[string]bool{}
	last := ""
	for i, it := range items {
		w := strings.Split(it, " ")
		declared := ""
		switch w[0] {
		case "varT":
			used[w[2]] = true
			declared = w[1]
		case "var", "const", "func":
			declared = w[1]
		case "typ", "alias":
			if used[w[1]] {
				return false
			}
			if w[0] == "alias" {
				used[w[2]] = true
			}
			declared = "T" + w[1]
		case "boom":
			if i != len(items)-1 {
				return false
			}
		case "bad":
			if len(w) > 1 && w[1] == "scope" && i != len(items)-1 {
				return false
			}
		}
		if declared != "" {
			// the declarations of one name are grouped by the sorter: allowed only when adjacent
			if names[declared] && last != declared {
				return false
			}
			names[declared] = true
		}
		last = declared
	}
	return true
}

// the name an item declares ("" if none): bind names as "n<k>", type names as "T<k>"
func c15declared(it string) string {
	w := strings.Split(it, " ")
	switch w[0] {
	case "var", "varT", "const", "func":
		return "n" + w[1]
	case "typ", "alias":
		return "T" + w[1]
	}
	return ""
}

func c15generate(r *rand.Rand, tier string, emit func(string)) {
	thorough := tier == "thorough"
	getAll := func(names, tnames int) {
		for n := 0; n < names; n++ {
			emit(fmt.Sprintf("get %d", n))
		}
		for t := 0; t < tnames; t++ {
			emit(fmt.Sprintf("gett %d", t))
		}
		emit("stat")
	}
	// (1) bounded-exhaustive: after a fixed prefix (an int variable, a string constant, a function, two named
	//     types and a variable of the first), EVERY input of one or two items over the alphabet below, then a
	//     third successful input, reading every name and every type name after each
	alpha := []string{"var 0 1 5", "var 0 0 6", "var 0 2 6", "var 0 3 1", "var 4 0 8", "var 6 2 3", "varT 0 0 9", "varT 3 0 4", "varT 3 7 4",
		"const 1 0 2", "const 0 1 3", "func 2 1 7 ok", "func 2 0 7 bad", "func 0 0 7 ok", "func 5 0 1 bad", "typ 0 2", "typ 1 3",
		"alias 0 1", "alias 2 0", "alias 0 7", "bad undef", "bad type", "bad scope", "boom"}
	prefix := "in var 0 0 7|const 1 1 3|func 2 0 9 ok|typ 0 1|varT 3 0 5|typ 1 4"
	var inputs []string
	for _, a := range alpha {
		inputs = append(inputs, a)
	}
	for _, a := range alpha {
		for _, b := range alpha {
			if c15inOrder([]string{a, b}) {
				inputs = append(inputs, a+"|"+b)
			}
		}
	}
	// (1b) every pair of items that (re)declare the SAME name (twice in one input), followed by each kind of
	//      failure, and the same with a third re-declaration: the journal must be replayed newest-first
	fails := []string{"bad undef", "bad type", "bad scope", "func 5 0 1 bad", "varT 6 7 1", "alias 2 7"}
	for _, a := range alpha {
		for _, b := range alpha {
			if d := c15declared(a); d == "" || d != c15declared(b) {
				continue
			}
			for _, f := range fails {
				if c15inOrder([]string{a, b, f}) {
					inputs = append(inputs, a+"|"+b+"|"+f)
				}
			}
			for _, c := range alpha {
				if c15declared(c) == c15declared(a) && c15inOrder([]string{a, b, c, "bad undef"}) && r.Intn(4) == 0 {
					inputs = append(inputs, a+"|"+b+"|"+c+"|bad undef")
				}
			}
		}
	}
	inputs = append(inputs, "SYNTAX")
	for _, in := range inputs {
		emit("reset")
		emit(prefix)
		getAll(7, 3)
		emit("in " + in)
		if !strings.Contains(in, "bad scope") {
			// (reading a name is an evaluation of its own and discards stale code: after a failing scoped
			// statement the next declaration must follow IMMEDIATELY to see whether code was left behind)
			getAll(7, 3)
		}
		emit("in var 4 0 1|typ 0 3|varT 5 0 2")
		getAll(7, 3)
	}
	// (2) random histories: small name pools (frequent redefinition), inputs of 1-6 items, a failing item
	//     at a random position in a third of the inputs, sometimes the same name declared 2-3 times in a
	//     row, sometimes a run-time panic at the end
	nh, nin := 60, 30
	if thorough {
		nh, nin = 1500, 40
	}
	for h := 0; h < nh; h++ {
		emit("reset")
		names, tnames := 4+r.Intn(6), 1+r.Intn(3)
		for i := 0; i < nin; i++ {
			if r.Intn(25) == 0 {
				emit("in SYNTAX")
			} else {
				k := 1 + r.Intn(5)
				failAt := -1
				if r.Intn(3) == 0 {
					failAt = r.Intn(k)
				}
				var items []string
				for try := 0; try < 50; try++ {
					items = items[:0]
					for j := 0; j < k; j++ {
						if j == failAt {
							items = append(items, c15randItem(r, names, tnames, true))
						} else if j == k-1 && r.Intn(12) == 0 {
							items = append(items, "boom")
						} else {
							it := c15randItem(r, names, tnames, false)
							items = append(items, it)
							// re-declare the same name once or twice more, with other kinds/types
							for rep := r.Intn(4); rep >= 2 && c15declared(it) != ""; rep-- {
								for t2 := 0; t2 < 30; t2++ {
									it2 := c15randItem(r, names, tnames, false)
									if c15declared(it2) == c15declared(it) {
										items = append(items, it2)
										break
									}
								}
							}
						}
					}
					if c15inOrder(items) {
						break
					}
				}
				if !c15inOrder(items) {
					continue
				}
				emit("in " + strings.Join(items, "|"))
				if items[len(items)-1] == "bad scope" && r.Intn(2) == 0 {
					continue // the next input follows immediately
				}
			}
			getAll(names, tnames)
		}
	}
}

func init() {
	register(&Prop{
		ID:   "C15",
		Rule: "bounded-exhaustive: after a fixed prefix (int variable, string constant, function, named type, variable of it) every input of 1 or 2 items over a 24-item alphabet (re-declarations of each kind with the same/another type incl. int/float64/bool/string, type aliases, failing function body, undefined type, undefined identifier, type error, run-time panic), every pair of re-declarations of ONE name followed by each kind of failure, + the syntax error; every name (class, type, slot, value) and every type name read back after each input; plus random histories over small name pools (inputs of 1-5 items, a failing item at a random position in a third of them). Non-trivial: inputs and reads of bound names; distinct by (status, item kinds, failing position) / (observation, outcome of the latest input).",
		Gen:  c15generate,
		Exec: c15exec,
		Exhaustive: func(tier string) bool {
			return true
		},
	})
}
