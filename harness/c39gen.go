package main

// Generator of .gomacro sources for C39 (one seeded PRNG per program).
//
// A program is a list of chunks; a chunk is one or more top-level forms on consecutive lines (no blank line inside
// unbalanced brackets is needed: ReadMultiline ends a chunk at a newline with balanced brackets).  Every form carries
//   desc  its descriptor token(s) for the model           (see Drv/C39.lean)
//   src   its text in the .gomacro file
//   ref   its text in the hand-written reference program  ("" = same as src)
//   stmt  reference text that belongs into `func init()`  (top-level statements)

import (
	"fmt"
	"math/rand"
	"os"
	"strings"
)

type c39form struct {
	desc string
	src  string
	ref  string // "" = src ; "-" = nothing
	stmt string
}

type c39file struct {
	name   string // file name without extension
	pkg    string
	header string // leading comments
	chunks [][]c39form
	tags   []string
	pure   bool   // plain Go: the .gomacro text is a valid Go file
	valid  bool   // no malformed chunk, no :quit: compile and run
	defect string // key of the recorded defect family this program exercises ("" = none)
	wdir   string
	rdir   string
	interp string
}

func c39descr(files []*c39file) string {
	var fs []string
	for _, f := range files {
		var cs []string
		for _, c := range f.chunks {
			var ds []string
			for _, fm := range c {
				ds = append(ds, fm.desc)
			}
			cs = append(cs, strings.Join(ds, " "))
		}
		fs = append(fs, strings.Join(cs, " | "))
	}
	return strings.Join(fs, " || ")
}

func (f *c39file) source() string {
	var sb strings.Builder
	sb.WriteString(f.header)
	for _, c := range f.chunks {
		for _, fm := range c {
			sb.WriteString(fm.src)
			sb.WriteString("\n")
		}
		sb.WriteString("\n")
	}
	return sb.String()
}

// the reference program: package clause and imports first (Go wants them there), then the declarations in source
// order, then the statements in `func init`
func (f *c39file) reference() string {
	var sb, stmts strings.Builder
	for _, c := range f.chunks {
		for _, fm := range c {
			if fm.stmt != "" {
				stmts.WriteString(fm.stmt + "\n")
			}
			t := fm.ref
			if t == "" {
				t = fm.src
			}
			if t == "-" || strings.HasPrefix(fm.desc, "P:") || strings.HasPrefix(t, "import ") {
				continue
			}
			sb.WriteString(t + "\n\n")
		}
	}
	var imps strings.Builder
	for _, c := range f.chunks {
		for _, fm := range c {
			t := fm.ref
			if t == "" {
				t = fm.src
			}
			if t != "-" && strings.HasPrefix(t, "import ") {
				imps.WriteString(t + "\n")
			}
		}
	}
	out := "package " + f.pkg + "\n\n" + imps.String() + "\n" + sb.String()
	if stmts.Len() > 0 {
		out += "func init() {\n" + stmts.String() + "}\n"
	}
	return out
}

type c39gn struct {
	r       *rand.Rand
	n       int
	f       *c39file
	uses    []string        // expressions (of any printable type) evaluated by Run()
	imports map[string]string // path -> local name ("" = default, "." dot)
	funcs   []string        // int -> int functions declared so far
	macros  map[string]bool
}

func (g *c39gn) id(p string) string { g.n++; return fmt.Sprintf("%s%d", p, g.n) }
func (g *c39gn) chance(pct int) bool { return g.r.Intn(100) < pct }
func (g *c39gn) pick(xs ...string) string { return xs[g.r.Intn(len(xs))] }
func (g *c39gn) k(n int) int { return g.r.Intn(n) }

func (g *c39gn) add(forms ...c39form) { g.f.chunks = append(g.f.chunks, forms) }

// ---- int expressions over the given variables (total: no division by zero, constant folding cannot overflow)
func (g *c39gn) iexpr(vars []string, depth int) string {
	if depth <= 0 || g.chance(25) {
		if len(vars) > 0 && g.chance(65) {
			return vars[g.k(len(vars))]
		}
		return fmt.Sprint(g.k(20))
	}
	a, b := g.iexpr(vars, depth-1), g.iexpr(vars, depth-1)
	switch g.k(14) {
	case 0:
		return a + " + " + b
	case 1:
		return a + " - " + b
	case 2:
		return a + "*" + b
	case 3:
		return "(" + a + " + " + b + ") * " + fmt.Sprint(1+g.k(5))
	case 4:
		return a + " / " + fmt.Sprint(1+g.k(7))
	case 5:
		return a + " % " + fmt.Sprint(2+g.k(7))
	case 6:
		return a + " & " + b
	case 7:
		return a + " | " + b + " ^ " + fmt.Sprint(g.k(9))
	case 8:
		return "-" + "(" + a + ")"
	case 9:
		return "(" + a + ") << " + fmt.Sprint(g.k(4))
	case 10:
		return a + " &^ " + fmt.Sprint(g.k(16))
	case 11:
		if len(g.funcs) > 0 {
			return g.funcs[g.k(len(g.funcs))] + "(" + a + ")"
		}
		return "^" + a
	case 12:
		return "len(" + fmt.Sprintf("%q", strings.Repeat("x", g.k(4))) + ") + " + a
	}
	return "(" + a + ")"
}

func (g *c39gn) cond(vars []string) string {
	a, b := g.iexpr(vars, 1), g.iexpr(vars, 1)
	c := a + " " + g.pick("<", "<=", ">", ">=", "==", "!=") + " " + b
	switch g.k(6) {
	case 0:
		return c + " && " + g.iexpr(vars, 1) + " != 3"
	case 1:
		return c + " || !(" + g.iexpr(vars, 1) + " < 5)"
	case 2:
		return "(" + c + ")"
	}
	return c
}

// ---- statements: every variable declared is used (acc collects it); loops are bounded
func (g *c39gn) stmts(vars []string, depth int, n int, ind string, inLoop string) string {
	var sb strings.Builder
	for i := 0; i < n; i++ {
		sb.WriteString(g.stmt(vars, depth, ind, inLoop))
	}
	return sb.String()
}

func (g *c39gn) stmt(vars []string, depth int, ind string, inLoop string) string {
	in2 := ind + "\t"
	kind := g.k(22)
	if depth <= 0 && kind >= 6 {
		kind = g.k(6)
	}
	switch kind {
	case 0:
		return ind + "acc += " + g.iexpr(vars, 2) + "\n"
	case 1:
		return ind + "acc " + g.pick("-=", "^=", "|=", "+=", "*=") + " " + g.iexpr(vars, 1) + "\n"
	case 2:
		return ind + "acc" + g.pick("++", "--") + "\n"
	case 3:
		v := g.id("t")
		return ind + v + " := " + g.iexpr(vars, 2) + "\n" + ind + "acc = acc*3 + " + v + "\n"
	case 4:
		return ind + "tr = append(tr, " + g.iexpr(vars, 1) + ")\n"
	case 5:
		v, w := g.id("p"), g.id("q")
		return ind + v + ", " + w + " := " + g.iexpr(vars, 1) + ", " + g.iexpr(vars, 1) + "\n" + ind + v + ", " + w + " = " + w + ", " + v + "\n" + ind + "acc += " + v + " - " + w + "\n"
	case 6:
		s := ind + "if " + g.cond(vars) + " {\n" + g.stmts(vars, depth-1, 1+g.k(2), in2, inLoop) + ind + "}"
		if g.chance(50) {
			s += " else if " + g.cond(vars) + " {\n" + g.stmts(vars, depth-1, 1, in2, inLoop) + ind + "}"
		}
		if g.chance(50) {
			s += " else {\n" + g.stmts(vars, depth-1, 1, in2, inLoop) + ind + "}"
		}
		return s + "\n"
	case 7:
		v := g.id("u")
		return ind + "if " + v + " := " + g.iexpr(vars, 1) + "; " + v + " > " + fmt.Sprint(g.k(9)) + " {\n" + in2 + "acc += " + v + "\n" + ind + "} else {\n" + in2 + "acc -= " + v + "\n" + ind + "}\n"
	case 8:
		i := g.id("i")
		body := g.stmts(append(append([]string{}, vars...), i), depth-1, 1+g.k(2), in2, "plain")
		return ind + "for " + i + " := 0; " + i + " < " + fmt.Sprint(1+g.k(4)) + "; " + i + "++ {\n" + body + ind + "}\n"
	case 9:
		i, x := g.id("i"), g.id("x")
		vs := append(append([]string{}, vars...), i, x)
		return ind + "for " + i + ", " + x + " := range []int{" + g.iexpr(vars, 1) + ", " + fmt.Sprint(g.k(9)) + ", " + g.iexpr(vars, 0) + "} {\n" + g.stmts(vs, depth-1, 1, in2, "plain") + in2 + "acc += " + i + " * " + x + "\n" + ind + "}\n"
	case 10:
		c := g.id("n")
		return ind + c + " := " + fmt.Sprint(2+g.k(3)) + "\n" + ind + "for " + c + " > 0 {\n" + in2 + c + "--\n" + g.stmts(vars, depth-1, 1, in2, "plain") + ind + "}\n"
	case 11:
		L, i, j := g.id("L"), g.id("i"), g.id("j")
		return ind[:len(ind)-1] + L + ":\n" + ind + "for " + i + " := 0; " + i + " < 3; " + i + "++ {\n" + in2 + "for " + j + " := range [3]int{} {\n" + in2 + "\tif " + j + " == " + fmt.Sprint(1+g.k(2)) + " {\n" + in2 + "\t\t" + g.pick("continue", "break") + " " + L + "\n" + in2 + "\t}\n" + in2 + "\tacc += " + i + "*10 + " + j + "\n" + in2 + "}\n" + ind + "}\n"
	case 12:
		s := ind + "switch " + g.iexpr(vars, 1) + " % 4 {\n"
		s += ind + "case 0:\n" + g.stmts(vars, depth-1, 1, in2, inLoop)
		if g.chance(50) {
			s += in2 + "fallthrough\n"
		}
		s += ind + "case 1, 2:\n" + g.stmts(vars, depth-1, 1, in2, inLoop)
		s += ind + "default:\n" + in2 + "acc--\n" + ind + "}\n"
		return s
	case 13:
		v := g.id("s")
		return ind + "switch " + v + " := " + g.iexpr(vars, 1) + "; {\n" + ind + "case " + v + " < 3:\n" + in2 + "acc += 1\n" + ind + "case " + v + " < 10 && " + g.cond(vars) + ":\n" + in2 + "acc += 2\n" + ind + "default:\n" + in2 + "acc += " + v + "\n" + ind + "}\n"
	case 14:
		return ind + "func() {\n" + in2 + "defer func() {\n" + in2 + "\tif r := recover(); r != nil {\n" + in2 + "\t\tacc += 100\n" + in2 + "\t}\n" + in2 + "}()\n" + in2 + "if " + g.cond(vars) + " {\n" + in2 + "\tpanic(\"p\")\n" + in2 + "}\n" + in2 + "acc += 7\n" + ind + "}()\n"
	case 15:
		f := g.id("f")
		return ind + f + " := func(a int, bs ...int) (r int) {\n" + in2 + "r = a\n" + in2 + "for _, b := range bs {\n" + in2 + "\tr += b\n" + in2 + "}\n" + in2 + "return\n" + ind + "}\n" + ind + "acc += " + f + "(" + g.iexpr(vars, 1) + ") + " + f + "(1, " + g.iexpr(vars, 1) + ", 3) + " + f + "(2, tr...)\n"
	case 16:
		v := g.id("v")
		return ind + "var " + v + " interface{} = " + g.pick("acc", `"s"`, "3.5", "'x'", "nil", "[]int{1}") + "\n" + ind + "switch w := " + v + ".(type) {\n" + ind + "case int:\n" + in2 + "acc += w\n" + ind + "case string, rune:\n" + in2 + "acc += 2\n" + ind + "case nil:\n" + in2 + "acc += 3\n" + ind + "default:\n" + in2 + "_ = w\n" + in2 + "acc += 4\n" + ind + "}\n"
	case 17:
		c := g.id("c")
		return ind + c + " := make(chan int, 1)\n" + ind + "go func() { " + c + " <- " + g.iexpr(vars, 1) + " }()\n" + ind + "acc += <-" + c + "\n" + ind + "select {\n" + ind + "case x := <-" + c + ":\n" + in2 + "acc += x\n" + ind + "default:\n" + in2 + "acc++\n" + ind + "}\n"
	case 18:
		m := g.id("m")
		return ind + m + " := map[string]int{\"a\": " + g.iexpr(vars, 1) + ", \"b\": 2}\n" + ind + m + "[\"c\"] += " + g.iexpr(vars, 0) + "\n" + ind + "delete(" + m + ", \"b\")\n" + ind + "if x, ok := " + m + "[\"a\"]; ok {\n" + in2 + "acc += x + len(" + m + ")\n" + ind + "}\n"
	case 19:
		s := g.id("s")
		return ind + s + " := []int{" + g.iexpr(vars, 1) + ", 2, 3, 4}\n" + ind + s + " = append(" + s + "[1:3], " + s + "[:2]...)\n" + ind + s + "[0], " + s + "[len(" + s + ")-1] = " + s + "[len(" + s + ")-1], " + s + "[0]\n" + ind + "acc += " + s + "[0] + cap(" + s + "[:1:2]) + len(" + s + ")\n"
	case 20:
		if inLoop == "plain" {
			return ind + "if " + g.cond(vars) + " {\n" + in2 + g.pick("continue", "break") + "\n" + ind + "}\n"
		}
		return ind + "acc += " + g.iexpr(vars, 2) + "\n"
	case 21:
		p := g.id("p")
		return ind + p + " := &acc\n" + ind + "*" + p + " += " + g.iexpr(vars, 1) + "\n" + ind + "{\n" + in2 + "acc := *" + p + " + 1\n" + in2 + "tr = append(tr, acc)\n" + ind + "}\n"
	}
	return ind + "acc++\n"
}

func (g *c39gn) funcBody(params []string, n int) string {
	return "\tacc, tr := " + fmt.Sprint(g.k(5)) + ", []int{}\n" + g.stmts(params, 2, n, "\t", "") + "\tfor _, t := range tr {\n\t\tacc = acc*31 + t\n\t}\n\treturn acc\n"
}

// ---------------------------------------------------------------- declaration templates

func (g *c39gn) use(e string) { g.uses = append(g.uses, e) }

func (g *c39gn) declFunc() c39form {
	name := g.id("f")
	var sig string
	switch g.k(8) {
	case 0, 1, 2, 3:
		sig = "(a int) int"
	case 4, 5, 6:
		sig = "(a int) (res int)"
	default:
		sig = "(a int) (_ int)" // (the interpreter itself panics on a blank named result: not this property's business)
	}
	body := g.funcBody([]string{"a"}, 2+g.k(4))
	g.funcs = append(g.funcs, name)
	g.use(fmt.Sprintf("%s(%d)", name, g.k(9)))
	return c39form{desc: "F:" + name, src: "func " + name + sig + " {\n" + body + "}"}
}

func (g *c39gn) declFunc2() c39form {
	name := g.id("g")
	switch g.k(4) {
	case 0:
		g.use(fmt.Sprintf("fmt.Sprint(%s(%d, \"a\", \"bc\"))", name, g.k(5)))
		return c39form{desc: "F:" + name, src: "func " + name + "(n int, ss ...string) (total int, joined string) {\n\tfor i, s := range ss {\n\t\ttotal += len(s) * (i + n)\n\t\tjoined += s + \"-\"\n\t}\n\treturn\n}"}
	case 1:
		g.use(fmt.Sprintf("%s(func(x int) int { return x * %d }, %d)", name, 1+g.k(4), g.k(6)))
		return c39form{desc: "F:" + name, src: "func " + name + "(f func(int) int, n int) int {\n\tif n <= 0 {\n\t\treturn f(0)\n\t}\n\treturn f(n) + " + name + "(f, n-1)\n}"}
	case 2:
		g.use(fmt.Sprintf("%s(%d)()", name, g.k(6)))
		return c39form{desc: "F:" + name, src: "func " + name + "(n int) func() int {\n\tc := n\n\treturn func() int {\n\t\tc += " + fmt.Sprint(1+g.k(3)) + "\n\t\treturn c\n\t}\n}"}
	}
	g.use(fmt.Sprintf("fmt.Sprint(%s([]int{3, 1, 2}, map[string]bool{\"k\": true}))", name))
	return c39form{desc: "F:" + name, src: "func " + name + "(xs []int, m map[string]bool) (out [2]int, err error) {\n\tdefer func() {\n\t\tif r := recover(); r != nil {\n\t\t\terr = fmt.Errorf(\"recovered %v\", r)\n\t\t}\n\t}()\n\tout[0] = len(xs) + len(m)\n\tout[1] = xs[" + fmt.Sprint(g.k(5)) + "]\n\treturn out, nil\n}"}
}

func (g *c39gn) declStruct() []c39form {
	T := g.id("T")
	tag := ""
	if g.chance(50) {
		tag = " `json:\"a,omitempty\"`"
	}
	extra := g.pick("", "\tE map[string]int\n", "\tE [2]bool\n", "\tE *"+T+"\n", "\tE func(int) int\n", "\tE struct{ X, Y int }\n", "\tE chan<- int\n")
	src := "type " + T + " struct {\n\tA int" + tag + "\n\tB, C string\n\tD []int\n" + extra + "}"
	if g.chance(20) {
		src = "type " + T + " struct{ A int; B, C string; D []int }"
	}
	forms := []c39form{{desc: "T:" + T, src: src}}
	m1, m2 := g.id("Sum"), g.id("Inc")
	forms = append(forms, c39form{desc: "M:" + T + "." + m1, src: "func (t " + T + ") " + m1 + "() int {\n\ts := t.A + len(t.B) + len(t.C)\n\tfor _, d := range t.D {\n\t\ts += d\n\t}\n\treturn s\n}"})
	forms = append(forms, c39form{desc: "M:" + T + "." + m2, src: "func (t *" + T + ") " + m2 + "(d int) *" + T + " {\n\tt.A += d\n\tt.D = append(t.D, d)\n\treturn t\n}"})
	g.use(fmt.Sprintf("(&%s{A: %d, B: \"b\", D: []int{1, 2}}).%s(%d).%s()", T, g.k(9), m2, g.k(5), m1))
	if g.chance(40) {
		U := g.id("U")
		forms = append(forms, c39form{desc: "T:" + U, src: "type " + U + " struct {\n\t" + g.pick(T, "*"+T) + "\n\tName string\n}"})
		if strings.Contains(forms[len(forms)-1].src, "*"+T) {
			g.use(fmt.Sprintf("%s{&%s{A: 1}, \"n\"}.%s()", U, T, m1))
		} else {
			g.use(fmt.Sprintf("%s{%s{A: 1, C: \"cc\"}, \"n\"}.%s()", U, T, m1))
		}
	}
	return forms
}

func (g *c39gn) declEnum() []c39form {
	E := g.id("E")
	a, b, c := g.id("Ea"), g.id("Eb"), g.id("Ec")
	forms := []c39form{{desc: "T:" + E, src: "type " + E + " " + g.pick("int", "uint8", "int64")}}
	k := g.k(4)
	var cs string
	switch g.k(3) {
	case 0:
		cs = fmt.Sprintf("const (\n\t%s %s = iota + %d\n\t%s\n\t_\n\t%s\n)", a, E, k, b, c)
	case 1:
		cs = fmt.Sprintf("const (\n\t%s %s = 1 << iota\n\t%s\n\t%s\n)", a, E, b, c)
	default:
		cs = fmt.Sprintf("const (\n\t%s, %s %s = iota, iota * %d\n\t_, %s\n)", a, b, E, 2+k, c)
	}
	forms = append(forms, c39form{desc: "C:" + a + "," + b + "," + c, src: cs})
	if strings.Contains(cs, "_, ") {
		forms[1].desc = "C:" + a + "," + b + ",_," + c
	} else if strings.Contains(cs, "\t_\n") {
		forms[1].desc = "C:" + a + "," + b + ",_," + c
	}
	S := "String"
	forms = append(forms, c39form{desc: "M:" + E + "." + S, src: "func (e " + E + ") " + S + "() string {\n\tswitch e {\n\tcase " + a + ":\n\t\treturn \"a\"\n\tcase " + c + ":\n\t\treturn \"c\"\n\t}\n\treturn fmt.Sprintf(\"" + E + "(%d)\", int(e))\n}"})
	g.use(fmt.Sprintf("fmt.Sprint(%s, %s, %s, %s(77))", a, b, c, E))
	return forms
}

func (g *c39gn) declIface() []c39form {
	I, A, B := g.id("I"), g.id("A"), g.id("B")
	forms := []c39form{{desc: "T:" + I, src: "type " + I + " interface {\n\tArea() int\n\tName(prefix string) string\n}"}}
	forms = append(forms, c39form{desc: "T:" + A, src: "type " + A + " struct{ W, H int }"})
	forms = append(forms, c39form{desc: "T:" + B, src: "type " + B + " int"})
	forms = append(forms, c39form{desc: "M:" + A + ".Area", src: "func (a " + A + ") Area() int { return a.W * a.H }"})
	forms = append(forms, c39form{desc: "M:" + A + ".Name", src: "func (a " + A + ") Name(p string) string { return p + \"A\" }"})
	forms = append(forms, c39form{desc: "M:" + B + ".Area", src: "func (b *" + B + ") Area() int { return int(*b) * int(*b) }"})
	forms = append(forms, c39form{desc: "M:" + B + ".Name", src: "func (b *" + B + ") Name(p string) string {\n\treturn p + \"B\"\n}"})
	fn := g.id("total")
	forms = append(forms, c39form{desc: "F:" + fn, src: "func " + fn + "(shapes ..." + I + ") (n int, names string) {\n\tfor _, s := range shapes {\n\t\tn += s.Area()\n\t\tswitch s := s.(type) {\n\t\tcase " + A + ":\n\t\t\tnames += s.Name(\"v\")\n\t\tcase *" + B + ":\n\t\t\tnames += s.Name(\"p\")\n\t\t}\n\t}\n\treturn\n}"})
	bv := g.id("bv")
	forms = append(forms, c39form{desc: "V:" + bv, src: "var " + bv + " = " + B + "(" + fmt.Sprint(1+g.k(5)) + ")"})
	g.use(fmt.Sprintf("fmt.Sprint(%s(%s{%d, 3}, &%s))", fn, A, g.k(6), bv))
	return forms
}

// parentheses the Go grammar needs (composite literal in a statement header, channel type in a conversion): the macro
// expander strips every ParenExpr, the printer does not put these back (finding parens-dropped)
func (g *c39gn) declParens() []c39form {
	A, f := g.id("P"), g.id("pf")
	if c39dropsNeededParens() {
		g.f.defect = "parens-dropped" // only while the code under test still has the defect
	}
	g.f.tags = append(g.f.tags, "needed-parens")
	g.use(f + "(2)")
	var body string
	switch g.k(4) {
	case 0:
		body = "\tif a == (" + A + "{1, 2}) {\n\t\tn++\n\t}\n"
	case 1:
		body = "\tfor _, x := range (" + "[]" + A + "{{1, 1}}) {\n\t\tn += x.W\n\t}\n"
	case 2:
		body = "\tswitch (" + A + "{1, 2}) {\n\tcase a:\n\t\tn += 10\n\t}\n"
	default:
		body = "\tc := make(chan int, 1)\n\tc <- k\n\td := (<-chan int)(c)\n\tn += <-d\n"
	}
	return []c39form{
		{desc: "T:" + A, src: "type " + A + " struct{ W, H int }"},
		{desc: "F:" + f, src: "func " + f + "(k int) int {\n\ta, n := " + A + "{1, k}, 0\n" + body + "\treturn n + a.H\n}"},
	}
}

// layout that matters once the expander has removed the parentheses and rebuilt the nodes: operands, arguments and
// results that start on a later line than the keyword / operator / opening bracket before them.  If the printer
// breaks a line where Go inserts a semicolon (`return` newline `expr`), the written file does not compile or, with a
// named result, returns the wrong value: the compile-and-run oracle sees both.
func (g *c39gn) declLayout() []c39form {
	h, h2, f := g.id("lh"), g.id("lk"), g.id("lay")
	g.f.tags = append(g.f.tags, "layout")
	pool := []string{
		"\tt1 := (\n\t\ta +\n\t\t\t3)\n\tres += t1\n",
		"\tres += " + h2 + "(\n\t\ta,\n\t\tres,\n\t)\n",
		"\tres = res +\n\t\ta*2 -\n\t\t1\n",
		"\tl := []int{\n\t\ta,\n\t\t2,\n\t}\n\tres += len(l) + l[(\n\t\t0)]\n",
		"\tif (a > 0 &&\n\t\tres < 100) {\n\t\tres++\n\t}\n",
		"\tres += -(\n\t\ta)\n",
		"\tdefer func(d int) {\n\t\tres += d\n\t}(\n\t\ta)\n",
		"\tc := make(chan int, 1)\n\tc <- (\n\t\ta)\n\tres += <-(\n\t\tc)\n",
		"\tp := &res\n\t*(\n\t\tp) += 2\n",
		"\tm := map[string]int{\n\t\t\"k\": (\n\t\t\ta),\n\t}\n\tres += m[\"k\"]\n",
		"\tfor i := (\n\t\t0); i < 2; i++ {\n\t\tres += i\n\t}\n",
		"\tswitch (\n\t\ta % 2) {\n\tcase (\n\t\t0):\n\t\tres += 5\n\tdefault:\n\t\tres += 7\n\t}\n",
		"\tvar u = (\n\t\ta) * (\n\t\t2)\n\tres += u\n",
		"\tres += func() int {\n\t\treturn (\n\t\t\ta + 1)\n\t}()\n",
		"\tif a > 100 {\n\t\treturn (\n\t\t\t" + h + "(a))\n\t}\n",
	}
	rets := []string{
		"\treturn (\n\t\t" + h + "(a) + res)\n",
		"\treturn (\n\t\t" + h + "(a))\n",
		"\treturn (" + h + "(a) +\n\t\tres)\n",
		"\treturn " + h + "(\n\t\ta)\n",
		"\treturn (\n\t\t(" + h + "(a)) +\n\t\t\t(res))\n",
	}
	body := "\tres = -1\n"
	used := map[int]bool{}
	for i, n := 0, 2+g.k(4); i < n; i++ {
		k := g.k(len(pool))
		if used[k] {
			continue
		}
		used[k] = true
		body += pool[k]
	}
	body += rets[g.k(len(rets))]
	forms := []c39form{
		{desc: "F:" + h, src: "func " + h + "(x int) int { return x*2 + 1 }"},
		{desc: "F:" + h2, src: "func " + h2 + "(x, y int) int {\n\treturn x -\n\t\ty\n}"},
		{desc: "F:" + f, src: "func " + f + "(a int) (res int) {\n" + body + "}"},
	}
	g.use(fmt.Sprintf("%s(%d)", f, g.k(9)))
	g.use(fmt.Sprintf("%s(%d)", f, 101+g.k(9)))
	if g.chance(50) {
		f2 := g.id("lay")
		forms = append(forms, c39form{desc: "F:" + f2, src: "func " + f2 + "(a int) (int, string) {\n\treturn (\n\t\ta + 1), (\n\t\tfmt.Sprint(\n\t\t\ta))\n}"})
		g.use("fmt.Sprint(" + f2 + "(4))")
	}
	return forms
}

// macro-time code: `:`-prefixed lines that are statements or expressions.  They are evaluated while the file is read
// and must leave no trace in the written file (descriptor Z).
func (g *c39gn) macroTimeStmt() {
	if !g.macros["#mtime"] {
		if len(g.macros) == 0 {
			g.add(c39form{desc: "Z", src: ":import \"go/ast\"", ref: "-"})
		}
		g.macros["#mtime"] = true
		g.add(c39form{desc: "Z", src: ":var mcount, mnames = 0, []string{}", ref: "-"})
		g.f.tags = append(g.f.tags, "macro-time-statements")
	}
	n := 1 + g.k(2)
	for i := 0; i < n; i++ {
		src := g.pick(":mcount++", ":mcount += "+fmt.Sprint(1+g.k(5)), ":mnames = append(mnames, \"x"+fmt.Sprint(g.k(9))+"\")",
			":len(mnames)", ":mcount * 2", ":for i := 0; i < 2; i++ {\n\tmcount += i\n}", ":if mcount > 0 {\n\tmcount--\n}",
			":mnames[0], mcount = \"y\", len(mnames[0])")
		if strings.HasPrefix(src, ":mnames[0]") {
			g.add(c39form{desc: "Z", src: ":mnames = append(mnames, \"first\")", ref: "-"})
		}
		g.add(c39form{desc: "Z", src: src, ref: "-"})
	}
}

// interface with an embedded interface: gomacro's parser fork panics on it (finding embedded-interface-parse-panic)
func (g *c39gn) declIfaceEmbedded() []c39form {
	J, K, A := g.id("J"), g.id("K"), g.id("A")
	if !c39parserTakesEmbedded() {
		g.f.defect = "embedded-interface-parse-panic" // only while the code under test still has the defect
	}
	g.f.tags = append(g.f.tags, "embedded-interface")
	g.use(fmt.Sprintf("func() int { var k %s = %s(4); return k.Get() + len(k.Error()) }()", K, A))
	kdesc := "T:" + K
	if !c39parserTakesEmbedded() {
		kdesc = "FAIL" // the descriptor says what the parser returns for the chunk: here it panics
	}
	return []c39form{
		{desc: "T:" + J, src: "type " + J + " interface {\n\tGet() int\n}"},
		{desc: kdesc, src: "type " + K + " interface {\n\t" + J + "\n\terror\n}"},
		{desc: "T:" + A, src: "type " + A + " int"},
		{desc: "M:" + A + ".Get", src: "func (a " + A + ") Get() int { return int(a) }"},
		{desc: "M:" + A + ".Error", src: "func (a " + A + ") Error() string { return \"err\" }"},
	}
}

func (g *c39gn) declConst() c39form {
	a, b := g.id("k"), g.id("k")
	switch g.k(6) {
	case 0:
		g.use(a)
		return c39form{desc: "C:" + a, src: fmt.Sprintf("const %s = %d", a, g.k(100))}
	case 1:
		g.use(fmt.Sprintf("fmt.Sprint(%s, len(%s))", a, b))
		return c39form{desc: "C:" + a + "," + b, src: fmt.Sprintf("const (\n\t%s float64 = %d.5\n\t%s      = \"s%d\" + `raw\\n`\n)", a, g.k(9), b, g.k(9))}
	case 2:
		g.use(fmt.Sprintf("fmt.Sprint(%s, %s)", a, b))
		return c39form{desc: "C:" + a + "," + b, src: fmt.Sprintf("const %s, %s = %d, 'x' + %d", a, b, g.k(9), g.k(3))}
	case 3:
		g.use(fmt.Sprintf("fmt.Sprint(%s, %s)", a, b))
		return c39form{desc: "C:_," + a + "," + b, src: fmt.Sprintf("const (\n\t_  = iota\n\t%s = 1 << (10 * iota)\n\t%s\n)", a, b)}
	case 4:
		g.use(fmt.Sprintf("fmt.Sprint(%s, %s)", a, b))
		return c39form{desc: "C:" + a + "," + b, src: fmt.Sprintf("const (\n\t%s = %d * (3 + %d) %% 7\n\t%s = %s > 2 && !false\n)", a, 1+g.k(9), g.k(9), b, a)}
	}
	g.use(fmt.Sprintf("fmt.Sprint(%s, %s)", a, b))
	return c39form{desc: "C:" + a + "," + b, src: fmt.Sprintf("const (\n\t%s = 0x%x + 0o17 + 0b101 + 1_000\n\t%s = 1e3 + 2.5i\n)", a, g.k(255), b)}
}

func (g *c39gn) declVar() c39form {
	a, b := g.id("v"), g.id("v")
	switch g.k(9) {
	case 0:
		g.use(a)
		return c39form{desc: "V:" + a, src: fmt.Sprintf("var %s = rec(%q, %s)", a, a, g.iexpr(nil, 2))}
	case 1:
		g.use(fmt.Sprintf("fmt.Sprint(%s, %s)", a, b))
		return c39form{desc: "V:" + a + "," + b, src: fmt.Sprintf("var (\n\t%s int = rec(%q, %d)\n\t%s     = []string{\"x\", \"y\"}\n)", a, a, g.k(50), b)}
	case 2:
		g.use(fmt.Sprintf("fmt.Sprint(%s, %s)", a, b))
		return c39form{desc: "V:" + a + "," + b, src: fmt.Sprintf("var %s, %s = rec(%q, %d), rec(%q, %d)", a, b, a, g.k(9), b, g.k(9))}
	case 3:
		g.use(fmt.Sprintf("%s(%d)", a, g.k(9)))
		return c39form{desc: "V:" + a, src: fmt.Sprintf("var %s = func(x int) int {\n\tif x > %d {\n\t\treturn x - 1\n\t}\n\treturn x * 2\n}", a, g.k(6))}
	case 4:
		g.use(fmt.Sprintf("fmt.Sprint(%s[\"b\"], len(%s))", a, a))
		return c39form{desc: "V:" + a, src: fmt.Sprintf("var %s = map[string][]int{\n\t\"a\": {1, 2},\n\t\"b\": nil,\n\t\"c\": {%d},\n}", a, g.k(9))}
	case 5:
		g.use(fmt.Sprintf("fmt.Sprint(%s, len(%s))", a, a))
		return c39form{desc: "V:" + a, src: fmt.Sprintf("var %s = [...]string{2: \"b\", 0: \"a%d\"}", a, g.k(9))}
	case 6:
		g.use(fmt.Sprintf("fmt.Sprint(%s, %s == nil)", a, b))
		return c39form{desc: "V:" + a + "," + b, src: fmt.Sprintf("var (\n\t%s [3]int\n\t%s *struct{ X int }\n)", a, b)}
	case 7:
		g.use(fmt.Sprintf("fmt.Sprint(*%s, %s.X)", a, b))
		return c39form{desc: "V:" + a + "," + b, src: fmt.Sprintf("var %s, %s = new(int), &struct{ X, Y int }{%d, 2}", a, b, g.k(9))}
	}
	g.use(fmt.Sprintf("fmt.Sprint(%s)", a))
	return c39form{desc: "V:_," + a, src: fmt.Sprintf("var _, %s = rec(\"blank\", 1), [][]int{{1}, {2, %d}}", a, g.k(9))}
}

// package usage templates: one per importable package
var c39pkgs = []string{"strings", "strconv", "sort", "math", "errors", "bytes", "unicode", "os"}

func (g *c39gn) pkgUse(path string) []c39form {
	local := g.imports[path]
	q := path + "."
	if local == "." {
		q = ""
	} else if local != "" && local != "_" {
		q = local + "."
	}
	name := g.id("u")
	switch path {
	case "strings":
		g.use(name + "(\"a,b\")")
		return []c39form{{desc: "F:" + name, src: "func " + name + "(s string) string {\n\treturn " + q + "ToUpper(" + q + "Join(" + q + "Split(s, \",\"), \"+\"))\n}"}}
	case "strconv":
		g.use(name + "(41)")
		return []c39form{{desc: "F:" + name, src: "func " + name + "(n int) string {\n\tv, err := " + q + "Atoi(" + q + "Itoa(n + 1))\n\tif err != nil {\n\t\treturn err.Error()\n\t}\n\treturn " + q + "Quote(" + q + "FormatInt(int64(v), 2))\n}"}}
	case "sort":
		g.use("fmt.Sprint(" + name + "([]int{3, 1, 2}))")
		return []c39form{{desc: "F:" + name, src: "func " + name + "(xs []int) []int {\n\t" + q + "Slice(xs, func(i, j int) bool { return xs[i] > xs[j] })\n\treturn xs\n}"}}
	case "math":
		g.use("fmt.Sprint(" + name + ")")
		return []c39form{{desc: "V:" + name, src: "var " + name + " = " + q + "Sqrt(16) + " + q + "MaxInt8 + float64(" + q + "Abs(-2))"}}
	case "errors":
		g.use("fmt.Sprint(" + name + ", " + q + "Is(" + name + ", " + name + "))")
		return []c39form{{desc: "V:" + name, src: "var " + name + " = " + q + "New(\"bad\")"}}
	case "bytes":
		g.use(name + "()")
		return []c39form{{desc: "F:" + name, src: "func " + name + "() string {\n\tvar b " + q + "Buffer\n\tb.WriteString(\"x\")\n\tb.WriteByte('y')\n\treturn b.String()\n}"}}
	case "unicode":
		g.use("fmt.Sprint(" + name + "('a'), " + name + "('1'))")
		return []c39form{{desc: "F:" + name, src: "func " + name + "(r rune) bool { return " + q + "IsLetter(r) }"}}
	}
	return nil // "os": blank import
}

// ---------------------------------------------------------------- macros

type c39macro struct {
	name string
	def  string
}

var c39macroDefs = map[string]string{
	"mkfun": ":macro mkfun(name, typ, delta ast.Node) ast.Node {\n\tret := ~\"{\n\t\t~func FOO(n ~,typ) ~,typ {\n\t\t\treturn n + ~,delta\n\t\t}\n\t}\n\tret.Name = name.(*ast.Ident)\n\treturn ret\n}",
	"mkpair": ":macro mkpair(a, b, body ast.Node) ast.Node {\n\tfa := ~\"{\n\t\t~func FOO(x int) int {\n\t\t\treturn ~,body\n\t\t}\n\t}\n\tfb := ~\"{\n\t\t~func FOO(x int) int {\n\t\t\treturn -(~,body)\n\t\t}\n\t}\n\tfa.Name = a.(*ast.Ident)\n\tfb.Name = b.(*ast.Ident)\n\treturn ~\"{\n\t\t~,fa\n\t\t~,fb\n\t}\n}",
	"mkvar":  ":macro mkvar(name, val ast.Node) ast.Node {\n\tret := ~\"{var FOO = ~,val}\n\tret.Specs[0].(*ast.ValueSpec).Names[0] = name.(*ast.Ident)\n\treturn ret\n}",
	"mktype": ":macro mktype(name, typ ast.Node) ast.Node {\n\tret := ~\"{type FOO struct {\n\t\tV ~,typ\n\t\tN int\n\t}}\n\tret.Specs[0].(*ast.TypeSpec).Name = name.(*ast.Ident)\n\treturn ret\n}",
	"mkconst": ":macro mkconst(name, val ast.Node) ast.Node {\n\tret := ~\"{const FOO = ~,val}\n\tret.Specs[0].(*ast.ValueSpec).Names[0] = name.(*ast.Ident)\n\treturn ret\n}",
	"mkimport": ":macro mkimport(path ast.Node) ast.Node {\n\treturn ~\"{import ~,path}\n}",
	"unless":  ":macro unless(cond, body ast.Node) ast.Node {\n\treturn ~\"{if !~,cond {\n\t\t~,body\n\t}}\n}",
	"swap":    ":macro swap(a, b ast.Node) ast.Node {\n\treturn ~\"{~,a, ~,b = ~,b, ~,a}\n}",
	"rep3":    ":macro rep3(s ast.Node) ast.Node {\n\treturn ~\"{\n\t\t~,s\n\t\t~,s\n\t\t~,s\n\t}\n}",
	"square":  ":macro square(r, x ast.Node) ast.Node {\n\treturn ~\"{~,r = ~,x * ~,x}\n}",
	"scoped":  ":macro scoped(x ast.Node) ast.Node {\n\treturn ~\"{if true {\n\t\ttmp := ~,x\n\t\ttmp++\n\t\tacc += tmp\n\t}}\n}",
	"retif":   ":macro retif(cond, val ast.Node) ast.Node {\n\treturn ~\"{if ~,cond {\n\t\treturn ~,val\n\t}}\n}",
	"forn":    ":macro forn(n, body ast.Node) ast.Node {\n\treturn ~\"{for i := 0; i < ~,n; i++ {\n\t\t~,body\n\t}}\n}",
}

func (g *c39gn) needMacro(name string) {
	if g.macros[name] {
		return
	}
	if len(g.macros) == 0 {
		g.add(c39form{desc: "Z", src: ":import \"go/ast\"", ref: "-"})
	}
	g.macros[name] = true
	g.add(c39form{desc: "Z", src: c39macroDefs[name], ref: "-"})
}

// What a macro that returns a whole declaration (`~"{const c = 1}`) expands to is the expander's business (C20), not
// the collector's: the code as found splices the GenDecl into naked specs (descriptor SV / SY / SI), the code with
// fixes/C39-macro-decl-spliced.diff keeps the GenDecl (descriptor C / V / T / I).  The descriptor must describe what
// the expander really returns, so it is probed once on the code under test.
var c39spliceProbe = -1

func c39macroDeclTok(whole, naked string) string {
	if c39spliceProbe < 0 {
		c39spliceProbe = 1
		f := &c39file{name: "probe", pkg: "probe", valid: true}
		f.chunks = [][]c39form{{{src: "package probe"}}, {{src: ":import \"go/ast\""}},
			{{src: ":macro c39probe() ast.Node {\n\treturn ~\"{const c39probeC = 1}\n}"}}, {{src: "c39probe"}}}
		dir := workDir("C39probe")
		if _, err := c39preprocess(dir, []*c39file{f}, dir+"/probe.gomacro", []string{"-m", "-w", "-f"}); err == nil {
			if out, err := os.ReadFile(dir + "/probe.go"); err == nil && strings.Contains(string(out), "const c39probeC") {
				c39spliceProbe = 0
			}
		}
	}
	if c39spliceProbe == 1 {
		return naked
	}
	return whole
}

var c39parensProbe = -1

func c39dropsNeededParens() bool {
	if c39parensProbe < 0 {
		c39parensProbe = 1
		f := &c39file{name: "probe2", pkg: "probe", valid: true}
		f.chunks = [][]c39form{{{src: "package probe"}}, {{src: "type c39A struct{ W int }"}},
			{{src: "func c39f(a c39A) int {\n\tif a == (c39A{1}) {\n\t\treturn 1\n\t}\n\treturn 0\n}"}}}
		dir := workDir("C39probe")
		if _, err := c39preprocess(dir, []*c39file{f}, dir+"/probe2.gomacro", []string{"-m", "-w", "-f"}); err == nil {
			if out, err := os.ReadFile(dir + "/probe2.go"); err == nil && strings.Contains(string(out), "(c39A{1})") {
				c39parensProbe = 0
			}
		}
	}
	return c39parensProbe == 1
}

var c39embeddedProbe = -1

func c39parserTakesEmbedded() bool {
	if c39embeddedProbe < 0 {
		c39embeddedProbe = 0
		func() {
			defer func() { recover() }()
			ir := newQuietInterp()
			if ir.Comp.ParseBytes([]byte("type c39probeK interface { error }")) != nil {
				c39embeddedProbe = 1
			}
		}()
	}
	return c39embeddedProbe == 1
}

func (g *c39gn) defMacro(name, def string) {
	if len(g.macros) == 0 {
		g.add(c39form{desc: "Z", src: ":import \"go/ast\"", ref: "-"})
	}
	g.macros[name] = true
	g.add(c39form{desc: "Z", src: def, ref: "-"})
}

// a top-level macro call: one chunk
func (g *c39gn) macroDecl() {
	switch g.k(7) {
	case 0, 1:
		g.needMacro("mkfun")
		name := g.id("mf")
		typ := g.pick("int", "float64", "uint8", "int64")
		delta := g.pick("1", "2 + 3", "7 % 4")
		g.use(fmt.Sprintf("%s(2)", name))
		g.add(c39form{desc: "X{ F:" + name + " }", src: "mkfun; " + name + "; " + typ + "; " + delta,
			ref: fmt.Sprintf("func %s(n %s) %s {\n\treturn n + (%s)\n}", name, typ, typ, delta)})
	case 2:
		g.needMacro("mkpair")
		a, b := g.id("pa"), g.id("pb")
		body := g.pick("x*x + 1", "x - 3", "x << 2 | 1")
		g.use(fmt.Sprintf("%s(3) + %s(4)*2", a, b))
		g.add(c39form{desc: "X{ F:" + a + " F:" + b + " }", src: "mkpair; " + a + "; " + b + "; " + body,
			ref: fmt.Sprintf("func %s(x int) int {\n\treturn %s\n}\n\nfunc %s(x int) int {\n\treturn -(%s)\n}", a, body, b, body)})
	case 3:
		v := g.id("mv")
		val := g.pick("rec(\"mv\", 5)", "[]int{1, 2, 3}", "\"str\" + \"ing\"", "map[string]int{\"a\": 1}")
		g.defMacro("mk"+v, ":macro mk"+v+"(val ast.Node) ast.Node {\n\treturn ~\"{var "+v+" = ~,val}\n}")
		g.use("fmt.Sprint(" + v + ")")
		g.add(c39form{desc: "X{ " + c39macroDeclTok("V", "SV") + ":" + v + " }", src: "mk" + v + "; " + val, ref: "var " + v + " = " + val})
	case 4:
		T := g.id("MT")
		typ := g.pick("int", "string", "float64", "error")
		g.defMacro("mk"+T, ":macro mk"+T+"(typ ast.Node) ast.Node {\n\treturn ~\"{type "+T+" struct {\n\t\tV ~,typ\n\t\tN int\n\t}}\n}")
		g.use("fmt.Sprint(" + T + "{N: 2}.N, " + T + "{}.V)")
		g.add(c39form{desc: "X{ " + c39macroDeclTok("T", "SY") + ":" + T + " }", src: "mk" + T + "; " + typ, ref: "type " + T + " struct {\n\tV " + typ + "\n\tN int\n}"})
	case 5:
		if g.f.defect == "" && g.chance(35) {
			// macro-generated constant: MacroExpand1 splices the GenDecl into its specs, CollectNode wraps a naked
			// ValueSpec as `var` (finding macro-const-written-as-var): the array length below needs a constant
			c := g.id("MC")
			g.defMacro("mk"+c, ":macro mk"+c+"(val ast.Node) ast.Node {\n\treturn ~\"{const "+c+" = ~,val}\n}")
			if c39macroDeclTok("C", "SV") == "SV" {
				g.f.defect = "macro-const-written-as-var" // only while the expander under test splices the declaration
			}
			g.f.tags = append(g.f.tags, "macro-const")
			g.use("len([" + c + "]int{})")
			g.add(c39form{desc: "X{ " + c39macroDeclTok("C", "SV") + ":" + c + " }", src: "mk" + c + "; 3", ref: "const " + c + " = 3"})
			return
		}
		fallthrough
	default:
		if _, have := g.imports["unicode/utf8"]; !have && g.chance(60) {
			g.defMacro("mkimport", ":macro mkimport() ast.Node {\n\treturn ~\"{import \"unicode/utf8\"}\n}")
			g.imports["unicode/utf8"] = ""
			g.add(c39form{desc: "X{ " + c39macroDeclTok("I", "SI") + ":unicode/utf8 }", src: "mkimport", ref: "import \"unicode/utf8\""})
			g.use("utf8.RuneCountInString(\"héllo\")")
			return
		}
		g.needMacro("mkfun")
		name := g.id("mf")
		g.use(fmt.Sprintf("%s(\"s\")", name))
		g.add(c39form{desc: "X{ F:" + name + " }", src: "mkfun; " + name + "; string; \"!\"", ref: fmt.Sprintf("func %s(n string) string {\n\treturn n + \"!\"\n}", name)})
	}
}

// a function whose body uses statement macros
func (g *c39gn) macroFunc() {
	name := g.id("mb")
	var src, ref strings.Builder
	src.WriteString("func " + name + "(a int) int {\n\tacc, b := a*2, 5\n")
	ref.WriteString("func " + name + "(a int) int {\n\tacc, b := a*2, 5\n")
	n := 2 + g.k(4)
	for i := 0; i < n; i++ {
		switch g.k(7) {
		case 0:
			g.needMacro("unless")
			c := g.cond([]string{"a", "acc", "b"})
			src.WriteString("\tunless; " + c + "; acc += 3\n")
			ref.WriteString("\tif !(" + c + ") {\n\t\tacc += 3\n\t}\n")
		case 1:
			g.needMacro("swap")
			src.WriteString("\tswap; acc; b\n")
			ref.WriteString("\tacc, b = b, acc\n")
		case 2:
			g.needMacro("rep3")
			e := g.iexpr([]string{"a", "b"}, 1)
			src.WriteString("\trep3; acc += " + e + "\n")
			ref.WriteString("\tacc += " + e + "\n\tacc += " + e + "\n\tacc += " + e + "\n")
		case 3:
			g.needMacro("square")
			e := g.iexpr([]string{"a", "b", "acc"}, 1)
			src.WriteString("\tsquare; b; " + e + "\n")
			ref.WriteString("\tb = (" + e + ") * (" + e + ")\n")
		case 4:
			g.needMacro("scoped")
			e := g.iexpr([]string{"a", "b"}, 1)
			src.WriteString("\tscoped; " + e + "\n")
			ref.WriteString("\tif true {\n\t\ttmp := " + e + "\n\t\ttmp++\n\t\tacc += tmp\n\t}\n")
		case 5:
			g.needMacro("retif")
			c := g.cond([]string{"a", "acc", "b"})
			e := g.iexpr([]string{"a", "b", "acc"}, 1)
			src.WriteString("\tretif; " + c + " && acc > 1000; " + e + "\n")
			ref.WriteString("\tif " + c + " && acc > 1000 {\n\t\treturn (" + e + ")\n\t}\n")
		default:
			g.needMacro("forn")
			k := fmt.Sprint(1 + g.k(3))
			src.WriteString("\tforn; " + k + "; acc += i + b\n")
			ref.WriteString("\tfor i := 0; i < " + k + "; i++ {\n\t\tacc += i + b\n\t}\n")
		}
	}
	src.WriteString("\treturn acc + b\n}")
	ref.WriteString("\treturn acc + b\n}")
	g.use(fmt.Sprintf("%s(%d)", name, g.k(7)))
	g.add(c39form{desc: "F:" + name, src: src.String(), ref: ref.String()})
}

// ---------------------------------------------------------------- top-level statements (gomacro only)

func (g *c39gn) extForms() {
	switch g.k(7) {
	case 0:
		v := g.id("d")
		e := g.iexpr(nil, 2)
		g.use(v)
		g.add(c39form{desc: "D:" + v, src: v + " := " + e, ref: "var " + v + " = " + e})
	case 1:
		a, b := g.id("d"), g.id("d")
		g.use(fmt.Sprintf("fmt.Sprint(%s, %s)", a, b))
		g.add(c39form{desc: "D:" + a + "," + b, src: a + ", " + b + " := rec(\"" + a + "\", 1), \"s\"", ref: "var " + a + ", " + b + " = rec(\"" + a + "\", 1), \"s\""})
	case 2:
		s := fmt.Sprintf("rec(\"stmt\", %d)", g.k(50))
		g.add(c39form{desc: "E", src: s, ref: "-", stmt: "\t" + s})
	case 3:
		s := "counter = counter*2 + " + fmt.Sprint(g.k(9))
		g.add(c39form{desc: "AS", src: s, ref: "-", stmt: "\t" + s})
	case 4:
		s := "if counter > " + fmt.Sprint(g.k(5)) + " {\n\trec(\"if\", counter)\n} else {\n\tcounter += 10\n}"
		g.add(c39form{desc: "S", src: s, ref: "-", stmt: s})
	case 5:
		s := "for i := 0; i < " + fmt.Sprint(1+g.k(3)) + "; i++ {\n\tcounter += rec(\"loop\", i)\n}"
		g.add(c39form{desc: "S", src: s, ref: "-", stmt: s})
	default:
		// two forms on one line: one chunk, a slice of two nodes
		a := g.id("d")
		g.use(a)
		s2 := "counter++"
		g.add(c39form{desc: "D:" + a, src: a + " := counter + 1; " + s2, ref: "var " + a + " = counter + 1", stmt: "\t" + s2}, c39form{desc: "S", src: "", ref: "-"})
	}
}

func g0pick(r *rand.Rand, xs ...string) string { return xs[r.Intn(len(xs))] }

// ---------------------------------------------------------------- whole programs

func (g *c39gn) importForms(paths []string) {
	// styles: one grouped declaration / one declaration per import / mixed; aliases
	spec := func(p string) (string, string) {
		local := g.imports[p]
		if local == "" {
			return fmt.Sprintf("%q", p), p
		}
		return local + " " + fmt.Sprintf("%q", p), local + "=" + p
	}
	for len(paths) > 0 {
		n := 1
		if len(paths) > 1 && g.chance(60) {
			n = 1 + g.k(len(paths))
		}
		if n == 1 && g.chance(70) {
			s, d := spec(paths[0])
			g.add(c39form{desc: "I:" + d, src: "import " + s})
		} else {
			var ss, ds []string
			for _, p := range paths[:n] {
				s, d := spec(p)
				ss = append(ss, "\t"+s)
				ds = append(ds, d)
			}
			g.add(c39form{desc: "I:" + strings.Join(ds, ","), src: "import (\n" + strings.Join(ss, "\n") + "\n)"})
		}
		paths = paths[n:]
	}
}

// c39makeFile builds one file.  mode: "pure" | "ext" | "mac"; part > 0 = later file of a directory (no rec/log, own names)
func c39makeFile(r *rand.Rand, name, pkg, mode string, part int) *c39file {
	f := &c39file{name: name, pkg: pkg, pure: mode == "pure", valid: true}
	g := &c39gn{r: r, f: f, imports: map[string]string{}, macros: map[string]bool{}, n: part * 1000}
	f.tags = append(f.tags, "mode-"+mode)
	if g.chance(60) {
		f.header = g.pick("// generated test program\n\n", "/* block\n   comment */\n\n", "//go:build !never\n\n// Package doc.\n", "// a\n// b\n")
		f.tags = append(f.tags, "header-comment")
	}
	g.add(c39form{desc: "P:" + pkg, src: "package " + pkg})
	// imports
	g.imports["fmt"] = ""
	paths := []string{"fmt"}
	for _, p := range c39pkgs {
		if g.chance(30) {
			local := ""
			switch {
			case p == "os":
				local = "_"
			case g.chance(25):
				local = "x" + p
			case g.chance(10) && (p == "strconv" || p == "math" || p == "errors"):
				local = "."
			}
			g.imports[p] = local
			paths = append(paths, p)
		}
	}
	r.Shuffle(len(paths), func(i, j int) { paths[i], paths[j] = paths[j], paths[i] })
	g.importForms(paths)
	g.add(c39form{desc: "V:trace", src: "var trace []string"})
	g.add(c39form{desc: "F:rec", src: "func rec(s string, v int) int {\n\ttrace = append(trace, fmt.Sprint(s, \"=\", v))\n\treturn v\n}"})
	if mode == "ext" {
		g.add(c39form{desc: "V:counter", src: "var counter = 1"})
	}
	// declarations
	var units [][]c39form
	for _, p := range paths {
		if p != "fmt" {
			if fs := g.pkgUse(p); fs != nil {
				units = append(units, fs)
			}
		}
	}
	n := 3 + g.k(8)
	for i := 0; i < n; i++ {
		switch g.k(14) {
		case 12, 13:
			units = append(units, g.declLayout())
		case 0, 1, 2:
			units = append(units, []c39form{g.declFunc()})
		case 3:
			units = append(units, []c39form{g.declFunc2()})
		case 4:
			units = append(units, g.declStruct())
		case 5:
			units = append(units, g.declEnum())
		case 6:
			units = append(units, g.declIface())
		case 7, 8:
			units = append(units, []c39form{g.declConst()})
		case 9, 10:
			units = append(units, []c39form{g.declVar()})
		default:
			if f.defect == "" && g.chance(25) {
				units = append(units, g.declIfaceEmbedded())
			} else if f.defect == "" && g.chance(25) {
				units = append(units, g.declParens())
			} else {
				units = append(units, []c39form{g.declFunc()})
			}
		}
	}
	for _, u := range units {
		// forms of one unit: usually one chunk each; sometimes two one-line forms share a chunk
		for i := 0; i < len(u); i++ {
			if i+1 < len(u) && !strings.Contains(u[i].src, "\n") && !strings.Contains(u[i+1].src, "\n") && g.chance(30) {
				// `decl1; decl2` on one line
				g.add(c39form{desc: u[i].desc, src: u[i].src + "; " + u[i+1].src, ref: u[i].src}, c39form{desc: u[i+1].desc, src: "", ref: u[i+1].src})
				if f.pure {
					f.tags = append(f.tags, "two-decls-one-line")
				}
				i++
				continue
			}
			g.add(u[i])
		}
		if mode == "mac" && g.chance(50) {
			if g.chance(60) {
				g.macroDecl()
			} else {
				g.macroFunc()
			}
		}
		if mode == "mac" && g.chance(35) {
			g.macroTimeStmt()
		}
		if mode == "ext" && g.chance(50) {
			g.extForms()
		}
	}
	if mode == "mac" && !g.macros["#mtime"] && g.chance(50) {
		g.macroTimeStmt()
	}
	if mode == "mac" && len(g.macros) == 0 {
		g.macroDecl()
		g.macroFunc()
	}
	if mode == "ext" {
		g.extForms()
		g.use("counter")
	}
	// Run
	var run strings.Builder
	runName := "Run"
	run.WriteString("func " + runName + "() string {\n\tvar out []string\n")
	for _, u := range g.uses {
		run.WriteString("\tout = append(out, fmt.Sprint(" + u + "))\n")
	}
	run.WriteString("\tout = append(out, trace...)\n")
	run.WriteString("\treturn fmt.Sprint(out)\n}")
	g.add(c39form{desc: "F:" + runName, src: run.String()})
	return f
}

// c39makeFiles: kind "file" -> one file; "dir" -> 2-3 files in one directory, preprocessed by ONE gomacro run; every
// file is a self-contained program (compiled as its own package by the oracle), so whatever one file leaves behind in
// the interpreter and shows up in the next written file is visible
func c39makeFiles(kind string, seed int64) []*c39file {
	r := rand.New(rand.NewSource(seed))
	pkg := fmt.Sprintf("p%d", seed%100000)
	if kind == "file" {
		mode := []string{"pure", "pure", "pure", "ext", "mac", "mac"}[r.Intn(6)]
		f := c39makeFile(r, pkg, pkg, mode, 0)
		// malformed stream: a chunk that does not parse, or :quit in the middle
		if r.Intn(8) == 0 {
			f.valid, f.pure = false, false
			at := 2 + r.Intn(len(f.chunks)-2)
			var bad []c39form
			if r.Intn(2) == 0 {
				bad = []c39form{{desc: "FAIL", src: g0pick(r, "func broken() { x := }", "var = 5", "type T struct { int int int }")}}
				f.tags = append(f.tags, "malformed-chunk")
			} else {
				bad = []c39form{{desc: "Q", src: ":quit"}}
				f.tags = append(f.tags, "quit-chunk")
			}
			f.chunks = append(f.chunks[:at], append([][]c39form{bad}, f.chunks[at:]...)...)
		}
		return []*c39file{f}
	}
	n := 2 + r.Intn(2)
	var files []*c39file
	for i := 0; i < n; i++ {
		mode := []string{"pure", "pure", "mac"}[r.Intn(3)]
		f := c39makeFile(r, fmt.Sprintf("%c_%s", 'a'+i, pkg), pkg, mode, i)
		f.tags = append(f.tags, "dir-file")
		files = append(files, f)
	}
	return files
}
