package main

// C02, third part: assignment to a func-typed variable must be seen by later calls.
//
//	fn <variant> <script>
//
//	variant  r1 (func() int)  a1 (func(int) int)  r0 (func(): result through a global)  a0 (func(int))
//	script   a / b   assign F = A / F = B        c  call from inside a function (callf)
//	         e       call from a closure nested in a function (callf2)      d  call at top level
//
// Output: the results of the calls (A gives 1, B gives 2), e.g. "1 2 2".  Oracle: the call made
// after `F = B` must run B (compiled Go on the same declarations and script, runGoBatch).

import (
	"fmt"
	"strings"
)

var c02fnVariants = map[string][5]string{
	// type, A, B, call expression -> value, result read
	"r1": {"func() int", "func A%s() int { return 1 }", "func B%s() int { return 2 }", "F%s()", ""},
	"a1": {"func(int) int", "func A%s(x int) int { return x + 1 }", "func B%s(x int) int { return x + 2 }", "F%s(0)", ""},
	"r0": {"func()", "func A%s() { R%s = 1 }", "func B%s() { R%s = 2 }", "F%s()", "R"},
	"a0": {"func(int)", "func A%s(x int) { R%s = x + 1 }", "func B%s(x int) { R%s = x + 2 }", "F%s(0)", "R"},
}

func c02fnDecls(variant, n string) (string, bool) {
	v, ok := c02fnVariants[variant]
	if !ok {
		return "", false
	}
	fill := func(s string) string { return strings.ReplaceAll(s, "%s", n) }
	var b strings.Builder
	fmt.Fprintf(&b, "var R%s int\n%s\n%s\nvar F%s %s = A%s\n", n, fill(v[1]), fill(v[2]), n, v[0], n)
	call := fill(v[3])
	if v[4] == "" {
		fmt.Fprintf(&b, "func Callf%s() int { return %s }\n", n, call)
		fmt.Fprintf(&b, "func Callf2%s() int { return func() int { return func() int { return %s }() }() }\n", n, call)
		fmt.Fprintf(&b, "func Direct%s() int { return %s }\n", n, call)
	} else {
		fmt.Fprintf(&b, "func Callf%s() int { %s; return R%s }\n", n, call, n)
		fmt.Fprintf(&b, "func Callf2%s() int { func() { func() { %s }() }(); return R%s }\n", n, call, n)
		fmt.Fprintf(&b, "func Direct%s() int { %s; return R%s }\n", n, call, n)
	}
	fmt.Fprintf(&b, "func SetA%s() int { F%s = A%s; return 0 }\nfunc SetB%s() int { F%s = B%s; return 0 }\n", n, n, n, n, n, n)
	return b.String(), true
}

func c02fnParse(line string) (variant, script string, ok bool) {
	f := strings.Fields(line)
	if len(f) != 3 || f[0] != "fn" {
		return "", "", false
	}
	if _, ok := c02fnVariants[f[1]]; !ok {
		return "", "", false
	}
	for _, ch := range f[2] {
		if !strings.ContainsRune("abcde", ch) {
			return "", "", false
		}
	}
	return f[1], f[2], len(f[2]) > 0
}

func c02fnSnippet(line string) (Snippet, bool) {
	variant, script, ok := c02fnParse(line)
	if !ok {
		return Snippet{}, false
	}
	decls, _ := c02fnDecls(variant, "")
	var body strings.Builder
	body.WriteString("\tout := \"\"\n")
	for _, ch := range script {
		switch ch {
		case 'a':
			body.WriteString("\tF = A\n")
		case 'b':
			body.WriteString("\tF = B\n")
		case 'c':
			body.WriteString("\tout += fmt.Sprint(Callf()) + \" \"\n")
		case 'e':
			body.WriteString("\tout += fmt.Sprint(Callf2()) + \" \"\n")
		case 'd':
			body.WriteString("\tout += fmt.Sprint(Direct()) + \" \"\n")
		}
	}
	body.WriteString("\temit(out)\n")
	return Snippet{Decls: decls, Body: body.String()}, true
}

func c02execFn(line string) Result {
	variant, script, ok := c02fnParse(line)
	if !ok {
		return Result{Out: "bad-op", Tags: []string{"bad-op"}}
	}
	tags := []string{"class:fn", "variant:" + variant}
	if c02goErr != "" {
		return Result{Out: "oracle-error", Viol: "compiled-Go oracle failed: " + c02goErr, Key: "oracle-build", Tags: tags}
	}
	c02seq++
	n := fmt.Sprint(c02seq)
	ir := c02interp(false)
	decls, _ := c02fnDecls(variant, n)
	if _, e := evalSrc(ir, decls); e != "" {
		return Result{Out: "E", Viol: "gomacro rejects valid declarations: " + e, Key: "fn-" + variant + "-rejected", Tags: tags, Nontrivial: true}
	}
	var outs []string
	for _, ch := range script {
		var src string
		switch ch {
		case 'a':
			// the assignment itself is compiled at top level: the statement under test
			src = fmt.Sprintf("F%s = A%s", n, n)
		case 'b':
			src = fmt.Sprintf("F%s = B%s", n, n)
		case 'c':
			src = fmt.Sprintf("Callf%s()", n)
		case 'e':
			src = fmt.Sprintf("Callf2%s()", n)
		case 'd':
			src = fmt.Sprintf("Direct%s()", n)
		}
		vals, e := evalSrc(ir, src)
		if e != "" {
			outs = append(outs, "P:"+c02panicNorm(e))
			continue
		}
		if ch != 'a' && ch != 'b' && len(vals) == 1 {
			outs = append(outs, fmt.Sprint(vals[0].Int()))
		}
	}
	got := strings.Join(outs, " ")
	res := Result{Out: got, Tags: tags, Nontrivial: true, Key: "fn-" + variant + "-stale-function-after-assignment"}
	if want, ok := c02goOut[line]; ok && len(want) > 0 {
		if w := strings.TrimSpace(want[0]); w != got {
			res.Viol = fmt.Sprintf("%s: calls return [%s], compiled Go gives [%s] (A returns 1, B returns 2)", line, got, w)
		}
	} else {
		res.Viol = "no compiled-Go output for " + line
		res.Key = "oracle-missing"
	}
	return res
}

func c02genFn(g *c02gen) {
	scripts := []string{"cbc", "cbcac", "ebe", "dbd", "cbeac", "bcace", "ccbcc", "ebcad", "dbcae"}
	if !g.quick {
		for i := 0; i < 40; i++ {
			var b strings.Builder
			for j := 0; j < 4+g.r.Intn(8); j++ {
				b.WriteByte("abcde"[g.r.Intn(5)])
			}
			scripts = append(scripts, b.String())
		}
	} else {
		for i := 0; i < 4; i++ {
			var b strings.Builder
			for j := 0; j < 4+g.r.Intn(6); j++ {
				b.WriteByte("abcde"[g.r.Intn(5)])
			}
			scripts = append(scripts, b.String())
		}
	}
	for _, v := range []string{"r1", "a1", "r0", "a0"} {
		for _, s := range scripts {
			g.emit("fn " + v + " " + s)
		}
	}
}
