package main

// C02, second part: multi-assignments and statement sequences against compiled Go.
//
//	multi|seq <kind> <stor> <i0> <stmt> { ; <stmt> } | <v0,v1,v2,v3,v4,v5> ...
//
// State: X, Y, Z of kind T (= v0, v1, v2), I int (= i0), A [3]T (= v3, v4, v5), S = A[:],
// M map[string]T{"a": v3, "b": v4}, evaluation log N.
//
//	stmt   <lhs>... <OP> <rhs>...        OP = SET | ADD | SUB | ... (compound: one lhs, one rhs) | INC | DEC
//	lhs    X Y Z I _  A0 A1 A2 AI  S0 S1 S2 SI  Ac<i> (A[IX(d,i)])  Ma Mb Mc  Mk<k> (M[K(d,"k")])  P<i> (*PP(d,i))
//	rhs    the same cell names as reads, #<value> constant of kind T, #i<n> int constant,
//	       R<cell> (call R(d, cell): logs, returns the cell's current value), two (Two(d) = Y, X), three (Three(d) = Z, X, Y)
//	d      = number of the logging call site in source order (1..9, then wraps): N = (N*10 + d) % 1e15
//	stor   G  package-level state, statements inside func F        T  the same, ONE statement compiled at top level
//	       B  like G with boxed variables                          L  state in locals of F (unobservable after a panic)
//
// Output: "X Y Z I A0 A1 A2 Ma Mb Mc len(M) N" (+ " P:<class>"), L after a panic: "P:<class> N".
// Oracle: the same declarations and statements compiled by the Go toolchain (runGoBatch).

import (
	"fmt"
	"reflect"
	"strconv"
	"strings"

	"github.com/cosmos72/gomacro/fast"
)

// c02pstruct: a struct-valued state (type PS struct{ A int; B string }); values travel as strings
// (B; A = len(B)), so that multi-assignment of ADDRESSABLE non-basic values is exercised too
var c02pstruct *bkind

func c02kind(name string) *bkind {
	if name == "pstruct" {
		if c02pstruct == nil {
			k := *bkinds["string"]
			k.name = "pstruct"
			c02pstruct = &k
		}
		return c02pstruct
	}
	return bkinds[name]
}

type c02stmt struct {
	lhs []string
	op  string
	rhs []string
}

type c02multi struct {
	line  string
	k     *bkind
	stor  string
	i0    int
	stmts []c02stmt
	vals  [][6]bval
}

func c02cellOK(t string, lhs bool) bool {
	switch t {
	case "X", "Y", "Z", "I", "A0", "A1", "A2", "AI", "S0", "S1", "S2", "SI", "Ma", "Mb", "Mc":
		return true
	case "_":
		return lhs
	}
	if len(t) == 3 && t[:2] == "Ac" && t[2] >= '0' && t[2] <= '3' {
		return true
	}
	if len(t) == 3 && t[:2] == "Mk" && t[2] >= 'a' && t[2] <= 'c' {
		return true
	}
	if len(t) == 2 && t[0] == 'P' && t[1] >= '0' && t[1] <= '2' {
		return true
	}
	return false
}

func c02parseMulti(line string) (*c02multi, error) {
	head, tail, ok := strings.Cut(line, " | ")
	if !ok {
		return nil, fmt.Errorf("no value part")
	}
	f := strings.Fields(head)
	if len(f) < 5 {
		return nil, fmt.Errorf("short op")
	}
	m := &c02multi{line: line, stor: f[2]}
	if m.k = c02kind(f[1]); m.k == nil {
		return nil, fmt.Errorf("bad kind")
	}
	switch m.stor {
	case "G", "T", "B", "L":
	default:
		return nil, fmt.Errorf("bad stor")
	}
	i0, err := strconv.Atoi(f[3])
	if err != nil || i0 < 0 || i0 > 3 {
		return nil, fmt.Errorf("bad i0")
	}
	m.i0 = i0
	cur := c02stmt{}
	flush := func() error {
		if cur.op == "" || len(cur.lhs) == 0 {
			return fmt.Errorf("bad statement")
		}
		if cur.op == "INC" || cur.op == "DEC" {
			if len(cur.rhs) != 0 || len(cur.lhs) != 1 {
				return fmt.Errorf("bad inc/dec")
			}
		} else if len(cur.rhs) == 0 {
			return fmt.Errorf("no rhs")
		} else if cur.op != "SET" && (len(cur.lhs) != 1 || len(cur.rhs) != 1) {
			return fmt.Errorf("compound with lists")
		}
		m.stmts = append(m.stmts, cur)
		cur = c02stmt{}
		return nil
	}
	for _, t := range f[4:] {
		switch {
		case t == ";":
			if err := flush(); err != nil {
				return nil, err
			}
		case c02assignTok[t] != "" || t == "INC" || t == "DEC":
			if cur.op != "" {
				return nil, fmt.Errorf("two operators")
			}
			cur.op = t
		case cur.op == "":
			if !c02cellOK(t, true) {
				return nil, fmt.Errorf("bad lhs")
			}
			cur.lhs = append(cur.lhs, t)
		default:
			switch {
			case strings.HasPrefix(t, "#i"):
				if _, err := strconv.Atoi(t[2:]); err != nil {
					return nil, fmt.Errorf("bad int constant")
				}
			case strings.HasPrefix(t, "#"):
				if _, err := m.k.dec(t[1:]); err != nil {
					return nil, fmt.Errorf("bad constant")
				}
			case t == "two" || t == "three":
			case strings.HasPrefix(t, "R"):
				if !c02cellOK(t[1:], false) {
					return nil, fmt.Errorf("bad R operand")
				}
			default:
				if !c02cellOK(t, false) {
					return nil, fmt.Errorf("bad rhs")
				}
			}
			cur.rhs = append(cur.rhs, t)
		}
	}
	if err := flush(); err != nil {
		return nil, err
	}
	if m.stor == "T" && len(m.stmts) != 1 {
		return nil, fmt.Errorf("T takes one statement")
	}
	for _, p := range strings.Fields(tail) {
		parts := strings.Split(p, ",")
		if len(parts) != 6 {
			return nil, fmt.Errorf("bad value tuple")
		}
		var t [6]bval
		for i, s := range parts {
			v, err := m.k.dec(s)
			if err != nil {
				return nil, err
			}
			t[i] = v
		}
		m.vals = append(m.vals, t)
	}
	if len(m.vals) == 0 {
		return nil, fmt.Errorf("no values")
	}
	return m, nil
}

// Go source of a cell; d = counter of logging call sites
func c02cellSrc(t, n string, d *int) string {
	next := func() string {
		*d++
		return strconv.Itoa((*d-1)%9 + 1)
	}
	switch {
	case t == "_":
		return "_"
	case t == "X" || t == "Y" || t == "Z" || t == "I":
		return t + n
	case t == "AI":
		return "A" + n + "[I" + n + "]"
	case t == "SI":
		return "S" + n + "[I" + n + "]"
	case t[0] == 'A' && t[1] == 'c':
		return "A" + n + "[IX" + n + "(" + next() + ", " + t[2:] + ")]"
	case t[0] == 'A':
		return "A" + n + "[" + t[1:] + "]"
	case t[0] == 'S':
		return "S" + n + "[" + t[1:] + "]"
	case t[0] == 'M' && t[1] == 'k':
		return "M" + n + "[K" + n + "(" + next() + ", \"" + t[2:] + "\")]"
	case t[0] == 'M':
		return "M" + n + "[\"" + t[1:] + "\"]"
	case t[0] == 'P':
		return "*PP" + n + "(" + next() + ", " + t[1:] + ")"
	}
	return "?"
}

func (m *c02multi) stmtSrc(n string) (string, bool) {
	d := 0
	var out []string
	for _, s := range m.stmts {
		var l, r []string
		for _, t := range s.lhs {
			l = append(l, c02cellSrc(t, n, &d))
		}
		for _, t := range s.rhs {
			switch {
			case strings.HasPrefix(t, "#i"):
				r = append(r, t[2:])
			case strings.HasPrefix(t, "#"):
				v, _ := m.k.dec(t[1:])
				lit := m.k.lit(v)
				if lit == "" {
					return "", false
				}
				if m.k.name == "pstruct" {
					lit = fmt.Sprintf("PS%s{%d, %s}", n, len(v.s), lit)
				}
				r = append(r, lit)
			case t == "two":
				d++
				r = append(r, "Two"+n+"("+strconv.Itoa((d-1)%9+1)+")")
			case t == "three":
				d++
				r = append(r, "Three"+n+"("+strconv.Itoa((d-1)%9+1)+")")
			case strings.HasPrefix(t, "R"):
				// the call site is numbered before its argument is rendered (the argument of R has no call)
				d++
				dd := strconv.Itoa((d-1)%9 + 1)
				var zero int
				r = append(r, "R"+n+"("+dd+", "+c02cellSrc(t[1:], n, &zero)+")")
			default:
				r = append(r, c02cellSrc(t, n, &d))
			}
		}
		switch s.op {
		case "INC":
			out = append(out, l[0]+"++")
		case "DEC":
			out = append(out, l[0]+"--")
		default:
			out = append(out, strings.Join(l, ", ")+" "+c02assignTok[s.op]+" "+strings.Join(r, ", "))
		}
	}
	return strings.Join(out, "\n\t"), true
}

const c02logStep = "N = (N*10 + int64(d)) % 1000000000000000"

// declarations shared by gomacro and compiled Go (n = name suffix)
func (m *c02multi) source(n string) (decls string, ok bool) {
	T, TA := m.k.name, m.k.name
	mk := func(x string) string { return x }
	un := func(x string) string { return x }
	stmts, ok := m.stmtSrc(n)
	if !ok {
		return "", false
	}
	var b strings.Builder
	w := func(format string, a ...interface{}) { fmt.Fprintf(&b, format, a...) }
	if m.k.name == "pstruct" {
		T, TA = "PS"+n, "string"
		mk = func(x string) string { return fmt.Sprintf("PS%s{len(%s), %s}", n, x, x) }
		un = func(x string) string { return fmt.Sprintf("UN%s(%s)", n, x) }
		w("type PS%s struct { A int; B string }\n", n)
		w("func UN%s(p PS%s) string { if p.A != len(p.B) { return \"!\" + p.B }; return p.B }\n", n, n)
	}
	w("func IX%s(d int, r int) int { %s; return r }\n", n, c02logStep)
	w("func K%s(d int, k string) string { %s; return k }\n", n, c02logStep)
	w("func R%s(d int, v %s) %s { %s; return v }\n", n, T, T, c02logStep)
	rets := fmt.Sprintf("%s, %s, %s, int, %s, %s, %s, %s, %s, %s, int", TA, TA, TA, TA, TA, TA, TA, TA, TA)
	vals := func() string {
		var out []string
		for _, x := range []string{"X" + n, "Y" + n, "Z" + n} {
			out = append(out, un(x))
		}
		out = append(out, "I"+n)
		for _, x := range []string{"A" + n + "[0]", "A" + n + "[1]", "A" + n + "[2]", "M" + n + "[\"a\"]", "M" + n + "[\"b\"]", "M" + n + "[\"c\"]"} {
			out = append(out, un(x))
		}
		return strings.Join(append(out, "len(M"+n+")"), ", ")
	}
	if m.stor == "L" {
		w("func F%s(v0, v1, v2, v3, v4, v5 %s, i0 int) (%s) {\n", n, TA, rets)
		w("\tX%s, Y%s, Z%s := %s, %s, %s\n\tI%s := i0\n\tA%s := [3]%s{%s, %s, %s}\n\tS%s := A%s[:]\n\tM%s := map[string]%s{\"a\": %s, \"b\": %s}\n",
			n, n, n, mk("v0"), mk("v1"), mk("v2"), n, n, T, mk("v3"), mk("v4"), mk("v5"), n, n, n, T, mk("v3"), mk("v4"))
		w("\tPP%s := func(d int, i int) *%s { %s; return &A%s[i] }\n", n, T, c02logStep, n)
		w("\tTwo%s := func(d int) (%s, %s) { %s; return Y%s, X%s }\n", n, T, T, c02logStep, n, n)
		w("\tThree%s := func(d int) (%s, %s, %s) { %s; return Z%s, X%s, Y%s }\n", n, T, T, T, c02logStep, n, n, n)
		w("\t_, _, _, _, _ = S%s, PP%s, Two%s, Three%s, I%s\n\tN = 0\n", n, n, n, n, n)
		w("\t%s\n", stmts)
		w("\treturn %s\n}\n", vals())
		return b.String(), true
	}
	w("var X%s, Y%s, Z%s %s\nvar I%s int\nvar A%s [3]%s\nvar S%s = A%s[:]\nvar M%s map[string]%s\n", n, n, n, T, n, n, T, n, n, n, T)
	w("func PP%s(d int, i int) *%s { %s; return &A%s[i] }\n", n, T, c02logStep, n)
	w("func Two%s(d int) (%s, %s) { %s; return Y%s, X%s }\n", n, T, T, c02logStep, n, n)
	w("func Three%s(d int) (%s, %s, %s) { %s; return Z%s, X%s, Y%s }\n", n, T, T, T, c02logStep, n, n, n)
	w("func Init%s(v0, v1, v2, v3, v4, v5 %s, i0 int) int {\n\tX%s, Y%s, Z%s = %s, %s, %s\n\tI%s = i0\n\tA%s[0] = %s; A%s[1] = %s; A%s[2] = %s\n\tM%s = map[string]%s{\"a\": %s, \"b\": %s}\n\tN = 0\n\treturn 0\n}\n",
		n, TA, n, n, n, mk("v0"), mk("v1"), mk("v2"), n, n, mk("v3"), n, mk("v4"), n, mk("v5"), n, T, mk("v3"), mk("v4"))
	w("func Get%s() (%s) {\n\treturn %s\n}\n", n, rets, vals())
	if m.stor != "T" {
		w("func F%s() int {\n\t%s\n\treturn 0\n}\n", n, stmts)
	}
	return b.String(), true
}

// ---- compiled Go side ----

const c02goEnc = `
var N int64
func GN() int64 { return N }
func encF(u uint64, bits int) string {
	if bits == 32 {
		if f := math.Float32frombits(uint32(u)); f != f { return "nan" }
	} else if f := math.Float64frombits(u); f != f { return "nan" }
	return strconv.FormatUint(u, 16)
}
func enc(i interface{}) string {
	v := reflect.ValueOf(i)
	switch v.Kind() {
	case reflect.Bool:
		if v.Bool() { return "t" }
		return "f"
	case reflect.Int, reflect.Int8, reflect.Int16, reflect.Int32, reflect.Int64:
		return strconv.FormatUint(uint64(v.Int()) & (^uint64(0) >> (64 - uint(v.Type().Bits()))), 16)
	case reflect.Uint, reflect.Uint8, reflect.Uint16, reflect.Uint32, reflect.Uint64, reflect.Uintptr:
		return strconv.FormatUint(v.Uint(), 16)
	case reflect.Float32:
		return encF(uint64(math.Float32bits(float32(v.Float()))), 32)
	case reflect.Float64:
		return encF(math.Float64bits(v.Float()), 64)
	case reflect.Complex64:
		c := complex64(v.Complex())
		return encF(uint64(math.Float32bits(real(c))), 32) + "_" + encF(uint64(math.Float32bits(imag(c))), 32)
	case reflect.Complex128:
		c := v.Complex()
		return encF(math.Float64bits(real(c)), 64) + "_" + encF(math.Float64bits(imag(c)), 64)
	case reflect.String:
		return "s" + fmt.Sprintf("%x", v.String())
	}
	return "?"
}
type dec int
func state(a ...interface{}) string {
	s := ""
	for i, x := range a {
		if i > 0 { s += " " }
		if n, ok := x.(dec); ok { s += strconv.Itoa(int(n)) } else { s += enc(x) }
	}
	return s
}
`

func c02goLit(k *bkind, v bval) string {
	switch k.cat {
	case catBool:
		if v.u != 0 {
			return "true"
		}
		return "false"
	case catInt:
		return fmt.Sprintf("%s(%d)", k.name, int64(v.u<<(64-uint(k.bits)))>>(64-uint(k.bits)))
	case catUint:
		return fmt.Sprintf("%s(%d)", k.name, v.u)
	case catFloat:
		if k.bits == 32 {
			return fmt.Sprintf("math.Float32frombits(0x%x)", v.u)
		}
		return fmt.Sprintf("math.Float64frombits(0x%x)", v.u)
	case catComplex:
		if k.bits == 64 {
			return fmt.Sprintf("complex(math.Float32frombits(0x%x), math.Float32frombits(0x%x))", v.u, v.u2)
		}
		return fmt.Sprintf("complex(math.Float64frombits(0x%x), math.Float64frombits(0x%x))", v.u, v.u2)
	}
	return strconv.Quote(v.s)
}

func (m *c02multi) snippet() (Snippet, bool) {
	mm := *m
	if mm.stor != "L" {
		mm.stor = "G"
	}
	decls, ok := mm.source("")
	if !ok {
		return Snippet{}, false
	}
	var body strings.Builder
	for _, t := range m.vals {
		var args []string
		for _, v := range t {
			args = append(args, c02goLit(m.k, v))
		}
		a := strings.Join(args, ", ") + ", " + strconv.Itoa(m.i0)
		if m.stor == "L" {
			fmt.Fprintf(&body, "\tfunc() {\n\t\tdefer func() { if e := recover(); e != nil { emit(\"P:\" + fmt.Sprint(e) + \"|\" + strconv.FormatInt(N, 10)) } }()\n"+
				"\t\tx, y, z, i, a0, a1, a2, ma, mb, mc, lm := F(%s)\n\t\temit(state(x, y, z, dec(i), a0, a1, a2, ma, mb, mc, dec(lm)) + \" \" + strconv.FormatInt(N, 10))\n\t}()\n", a)
		} else {
			fmt.Fprintf(&body, "\tfunc() {\n\t\tInit(%s)\n\t\tp := \"\"\n\t\tfunc() {\n\t\t\tdefer func() { if e := recover(); e != nil { p = \" P:\" + fmt.Sprint(e) } }()\n\t\t\tF()\n\t\t}()\n"+
				"\t\tx, y, z, i, a0, a1, a2, ma, mb, mc, lm := Get()\n\t\temit(state(x, y, z, dec(i), a0, a1, a2, ma, mb, mc, dec(lm)) + \" \" + strconv.FormatInt(N, 10) + p)\n\t}()\n", a)
		}
	}
	return Snippet{Imports: []string{"math", "reflect", "strconv"}, Decls: c02goEnc + decls, Body: "\t_ = math.Pi\n" + body.String()}, true
}

var c02goOut = map[string][]string{} // op line -> expected output per value tuple
var c02goErr string

func c02prepare(ops []string) {
	var snips []Snippet
	var lines []string
	seen := map[string]bool{}
	for _, op := range ops {
		if seen[op] {
			continue
		}
		if strings.HasPrefix(op, "fn ") {
			seen[op] = true
			if s, ok := c02fnSnippet(op); ok {
				snips = append(snips, s)
				lines = append(lines, op)
			}
			continue
		}
		if strings.HasPrefix(op, "mk ") {
			seen[op] = true
			if s, ok := c02mkSnippet(op); ok {
				snips = append(snips, s)
				lines = append(lines, op)
			}
			continue
		}
		if !strings.HasPrefix(op, "multi ") && !strings.HasPrefix(op, "seq ") {
			continue
		}
		seen[op] = true
		m, err := c02parseMulti(op)
		if err != nil {
			continue
		}
		s, ok := m.snippet()
		if !ok {
			continue
		}
		snips = append(snips, s)
		lines = append(lines, op)
	}
	if len(snips) == 0 {
		return
	}
	outs, err := runGoBatch("C02", snips)
	if err != nil {
		c02goErr = err.Error()
		return
	}
	for i, l := range lines {
		c02goOut[l] = strings.Split(outs[i], "\n")
	}
}

// normalise a panic text (gomacro: reflect's wording; Go: runtime error)
func c02panicNorm(pt string) string {
	switch {
	case strings.Contains(pt, "divide by zero"):
		return "divide"
	case strings.Contains(pt, "negative shift amount"):
		return "negShift"
	case strings.Contains(pt, "index out of range"):
		return "index"
	case strings.Contains(pt, "nil map"):
		return "nilmap"
	case strings.Contains(pt, "nil pointer") || strings.Contains(pt, "invalid memory"):
		return "nil"
	}
	if len(pt) > 40 {
		pt = pt[:40]
	}
	return strings.ReplaceAll(pt, " ", "_")
}

// the Go batch prints "state N P:text" / "P:text|N": bring to the canonical form
func c02normGo(s string) string {
	if strings.HasPrefix(s, "P:") {
		txt, n, _ := strings.Cut(s[2:], "|")
		return "P:" + c02panicNorm(txt) + " " + n
	}
	if i := strings.Index(s, " P:"); i >= 0 {
		return s[:i] + " P:" + c02panicNorm(s[i+3:])
	}
	return s
}

type c02mprog struct {
	err string
	run func(t [6]bval) string
}

var c02mcache = map[string]*c02mprog{}

func c02buildMulti(m *c02multi) *c02mprog {
	c02seq++
	n := strconv.Itoa(c02seq)
	ir := c02interp(m.stor == "B")
	decls, ok := m.source(n)
	if !ok {
		return &c02mprog{err: "no-such-constant"}
	}
	if _, e := evalSrc(ir, decls); e != "" {
		return &c02mprog{err: e}
	}
	getN := ir.ValueOf("GN").ReflectValue()
	readN := func() string { return strconv.FormatInt(getN.Call(nil)[0].Int(), 10) }
	args := func(t [6]bval) []reflect.Value {
		var a []reflect.Value
		for _, v := range t {
			a = append(a, m.k.toRV(v))
		}
		return append(a, reflect.ValueOf(m.i0))
	}
	show := func(out []reflect.Value) string {
		var s []string
		for i, v := range out {
			if i == 3 || i == 10 {
				s = append(s, strconv.FormatInt(v.Int(), 10))
			} else {
				s = append(s, m.k.enc(m.k.ofRV(v)))
			}
		}
		return strings.Join(s, " ")
	}
	fn := ir.ValueOf("F" + n).ReflectValue()
	if m.stor == "L" {
		return &c02mprog{run: func(t [6]bval) string {
			var out []reflect.Value
			pt := c02callRecover(func() { out = fn.Call(args(t)) })
			if pt != "" {
				return "P:" + c02panicNorm(pt) + " " + readN()
			}
			return show(out) + " " + readN()
		}}
	}
	exec := func() { fn.Call(nil) }
	if m.stor == "T" {
		src, _ := m.stmtSrc(n)
		var expr *fast.Expr
		if pt := c02callRecover(func() { expr = ir.Compile(src) }); pt != "" {
			return &c02mprog{err: pt}
		}
		exec = func() {
			if expr != nil {
				ir.RunExpr(expr)
			}
		}
	}
	initFn := ir.ValueOf("Init" + n).ReflectValue()
	getFn := ir.ValueOf("Get" + n).ReflectValue()
	return &c02mprog{run: func(t [6]bval) string {
		initFn.Call(args(t))
		pt := c02callRecover(exec)
		s := show(getFn.Call(nil)) + " " + readN()
		if pt != "" {
			s += " P:" + c02panicNorm(pt)
		}
		return s
	}}
}

func (m *c02multi) key() string {
	var parts []string
	for _, s := range m.stmts {
		parts = append(parts, strings.Join(s.lhs, ",")+":"+s.op+":"+strings.Join(s.rhs, ","))
	}
	k := strings.Join(parts, ";")
	// constants are not part of the shape
	f := strings.FieldsFunc(k, func(r rune) bool { return false })
	_ = f
	var b strings.Builder
	skip := false
	for _, r := range k {
		if r == '#' {
			skip = true
			b.WriteByte('#')
			continue
		}
		if skip && (r == ',' || r == ';' || r == ':') {
			skip = false
		}
		if !skip {
			b.WriteRune(r)
		}
	}
	return b.String()
}

func c02execMulti(line string) Result {
	m, err := c02parseMulti(line)
	if err != nil {
		return Result{Out: "bad-op", Tags: []string{"bad-op", "bad-op:" + err.Error()}}
	}
	cls := strings.Fields(line)[0]
	tags := []string{"class:" + cls, "kind:" + m.k.name, "stor:" + m.stor}
	for _, s := range m.stmts {
		tags = append(tags, fmt.Sprintf("lhs:%d", len(s.lhs)))
	}
	key := cls + "-" + m.k.name + "-" + m.stor + "-" + m.key()
	if len(m.stmts) > 2 {
		key = cls + "-" + m.k.name + "-" + m.stor + "-sequence"
	}
	if c02goErr != "" {
		return Result{Out: "oracle-error", Viol: "compiled-Go oracle failed: " + c02goErr, Key: "oracle-build", Tags: tags}
	}
	want, haveWant := c02goOut[line]
	cacheKey := strings.SplitN(line, " | ", 2)[0]
	p := c02mcache[cacheKey]
	if p == nil {
		p = c02buildMulti(m)
		if len(c02mcache) > 5000 {
			c02mcache = map[string]*c02mprog{}
		}
		c02mcache[cacheKey] = p
	}
	if p.err != "" {
		res := Result{Out: "E", Tags: append(tags, "compile-error"), Nontrivial: true}
		if p.err != "no-such-constant" {
			res.Viol = fmt.Sprintf("gomacro rejects valid statements (%s): %s", cacheKey, p.err)
			res.Key = key + "-rejected"
		}
		return res
	}
	var outs []string
	viol := ""
	for i, t := range m.vals {
		got := p.run(t)
		outs = append(outs, got)
		if strings.Contains(got, "P:") {
			tags = append(tags, "panic")
		}
		if haveWant && i < len(want) {
			if w := c02normGo(want[i]); w != got && viol == "" {
				var vs []string
				for _, v := range t {
					vs = append(vs, m.k.encIn(v))
				}
				viol = fmt.Sprintf("%s | %s: gomacro gives [%s], compiled Go gives [%s] (X Y Z I A0 A1 A2 Ma Mb Mc len(M) log)", cacheKey, strings.Join(vs, ","), got, w)
				if strings.Contains(got, "P:index") && strings.Contains(w, "P:index") {
					// both panic with an index out of range, but at different moments
					key = cls + "-" + m.stor + "-index-panic-before-operands"
				}
			}
		} else if viol == "" {
			viol = "no compiled-Go output for " + cacheKey
			key = "oracle-missing"
		}
	}
	tags = uniqStrings(sortedStrings(tags))
	return Result{Out: strings.Join(outs, " ; "), Viol: viol, Key: key, Tags: tags, Nontrivial: true}
}

func sortedStrings(s []string) []string {
	out := append([]string(nil), s...)
	for i := 1; i < len(out); i++ {
		for j := i; j > 0 && out[j] < out[j-1]; j-- {
			out[j], out[j-1] = out[j-1], out[j]
		}
	}
	return out
}

// ---- generator ----

var c02multiKinds = []string{"int", "int8", "uint16", "uint64", "float64", "string", "bool", "complex128", "float32", "uint8"}

var c02multiPatterns = []string{
	"X Y SET Y X",                      // swap (assign2, both variables)
	"X Y Z SET Y Z X",                  // rotate (assignMulti)
	"A0 A1 SET A1 A0",                  // swap of array elements (assign2, two places)
	"AI X SET X AI",                    // place + variable
	"X A1 SET A1 X",                    // variable + place
	"Ma Mb SET Mb Ma",                  // map elements (assignMulti)
	"Ma Mc SET Mc Ma",                  // absent key read and written
	"P0 P2 SET RX RY",                  // pointer places, logging calls
	"S0 S2 SET S2 S0",                  // slice elements
	"I AI SET #i1 X",                   // i, a[i] = 1, x   (index evaluated before I is assigned)
	"AI I SET X #i2",                   // a[i], i = x, 2
	"I SI SET #i2 Y",                   //
	"X Y SET two",                      // multi-valued call
	"X Y Z SET three",                  //
	"_ X SET RY RZ",                    // blank place: operand still evaluated
	"X _ SET two",                      //
	"_ _ SET RX RY",                    //
	"_ _ Z SET three",                  //
	"Ac1 P2 Mka SET RX RY RZ",          // order: place operands left to right, then right-hand sides
	"Mkb Ac0 SET RZ RX",                //
	"Ac2 Ac2 SET RX RY",                // the same place twice: the last assignment wins
	"X X SET RY RZ",                    //
	"Ma Ma SET X Y",                    //
	"P1 A1 SET X Y",                    // aliasing through a pointer
	"A1 S1 SET Y Z",                    // aliasing through a slice
	"X Y SET A0 A1 ; A0 A1 SET Y X",    // two statements
	"X Y SET Y X ; Y Z SET Z Y",        //
	"X Y Z SET Z X Y ; AI Ac1 SET X Y", //
}

func (g *c02gen) tuples(k *bkind, n int) []string {
	var out []string
	// distinct recognisable values first
	b := boundary(k)
	pick := func(i int) bval { return b[i%len(b)] }
	for j := 0; j < n; j++ {
		var s []string
		for i := 0; i < 6; i++ {
			v := pick(j*6 + i + 1)
			if j > 0 && g.r.Intn(3) == 0 {
				v = randomVal(g.r, k)
			}
			s = append(s, k.encIn(v))
		}
		out = append(out, strings.Join(s, ","))
	}
	return out
}

var c02seqCells = []string{"X", "Y", "Z", "A0", "A1", "A2", "AI", "S1", "Ma", "Mb", "Mc", "P0", "P2", "Ac1", "Mka", "SI"}

func (g *c02gen) randomSeq(k *bkind, n int) string {
	var stmts []string
	ops := []string{"SET", "ADD"}
	switch k.cat {
	case catInt, catUint:
		ops = []string{"SET", "ADD", "SUB", "MUL", "QUO", "REM", "AND", "OR", "XOR", "AND_NOT", "INC", "DEC", "ADD", "SET"}
	case catFloat, catComplex:
		ops = []string{"SET", "ADD", "SUB", "MUL", "QUO", "INC", "DEC"}
	case catBool:
		ops = []string{"SET"}
	}
	cs := constSet(g.r, k, "quick")
	for i := 0; i < n; i++ {
		op := ops[g.r.Intn(len(ops))]
		lhs := c02seqCells[g.r.Intn(len(c02seqCells))]
		if op == "INC" || op == "DEC" {
			stmts = append(stmts, lhs+" "+op)
			continue
		}
		if op == "SET" && g.r.Intn(3) == 0 {
			// a multi-assignment inside the sequence
			l2 := c02seqCells[g.r.Intn(len(c02seqCells))]
			stmts = append(stmts, fmt.Sprintf("%s %s SET %s %s", lhs, l2, g.seqRhs(k, cs, ""), g.seqRhs(k, cs, "")))
			continue
		}
		stmts = append(stmts, lhs+" "+op+" "+g.seqRhs(k, cs, op))
	}
	return strings.Join(stmts, " ; ")
}

func (g *c02gen) seqRhs(k *bkind, cs []bval, op string) string {
	switch g.r.Intn(4) {
	case 0:
		for tries := 0; tries < 10; tries++ {
			c := cs[g.r.Intn(len(cs))]
			if k.lit(c) == "" {
				continue
			}
			if (op == "QUO" || op == "REM") && (c.u == 0 && c.u2 == 0 || c02isZeroFloat(k, c)) {
				continue
			}
			return "#" + k.encIn(c)
		}
		return "X"
	case 1:
		return "R" + []string{"X", "Y", "Z", "A1", "Ma"}[g.r.Intn(5)]
	}
	return []string{"X", "Y", "Z", "A0", "A1", "A2", "AI", "Ma", "Mb", "S2"}[g.r.Intn(10)]
}

func c02genMulti(g *c02gen) {
	stors := []string{"G", "L", "B", "T"}
	nk := len(c02multiKinds)
	if g.quick {
		nk = 6
	}
	rot := 0
	for _, kn := range c02multiKinds[:nk] {
		k := bkinds[kn]
		for _, pat := range c02multiPatterns {
			for _, st := range stors {
				if st == "T" && strings.Contains(pat, ";") {
					continue
				}
				if g.quick {
					// every pattern with G; the other storages rotate
					rot++
					if st != "G" && rot%3 != 0 {
						continue
					}
				}
				for _, i0 := range []int{0, 1} {
					if i0 == 1 && !strings.Contains(pat, "I") {
						continue
					}
					g.emit(fmt.Sprintf("multi %s %s %d %s | %s", k.name, st, i0, pat, strings.Join(g.tuples(k, 3), " ")))
				}
			}
		}
		if kn == "string" {
			// the same patterns on a struct-valued state (addressable non-basic values: `dup` matters)
			for _, pat := range c02multiPatterns {
				for _, st := range stors {
					if st == "T" && strings.Contains(pat, ";") {
						continue
					}
					for _, i0 := range []int{0, 1} {
						if i0 == 1 && !strings.Contains(pat, "I") {
							continue
						}
						g.emit(fmt.Sprintf("multi pstruct %s %d %s | %s", st, i0, pat, strings.Join(g.tuples(k, 2), " ")))
					}
				}
			}
		}
		// index out of range in a multi-assignment (the place operand panics)
		g.emit(fmt.Sprintf("multi %s G 3 AI X SET RX RY | %s", k.name, strings.Join(g.tuples(k, 1), " ")))
		g.emit(fmt.Sprintf("multi %s G 3 X AI SET RY RZ | %s", k.name, strings.Join(g.tuples(k, 1), " ")))
		// ... and in a single assignment
		g.emit(fmt.Sprintf("multi %s G 3 AI SET RX | %s", k.name, strings.Join(g.tuples(k, 1), " ")))
		g.emit(fmt.Sprintf("multi %s L 3 SI SET RX | %s", k.name, strings.Join(g.tuples(k, 1), " ")))
		if k.cat != catBool {
			g.emit(fmt.Sprintf("multi %s G 3 AI ADD RX | %s", k.name, strings.Join(g.tuples(k, 1), " ")))
		}
		nseq := 6
		if !g.quick {
			nseq = 60
		}
		for i := 0; i < nseq; i++ {
			st := []string{"G", "L", "B"}[i%3]
			g.emit(fmt.Sprintf("seq %s %s %d %s | %s", k.name, st, g.r.Intn(3), g.randomSeq(k, 4+g.r.Intn(8)), strings.Join(g.tuples(k, 3), " ")))
		}
	}
}
